/-
Model/Lifecycle — the session lifecycle machine and the peer's session index, as coded in
session.go (status constants, changeStatus / tryChangeStatus / checkStatus, Health, notifyClosed,
SetID, Close / closeLocked, readDisconnected, redialForClient without a redial function,
startReadAndHandle's read loop (loop condition, blocking read, post-read status check, handler
start), write's status check, SessionHub set / get / delete / len)
and peer.go (ServeConn, the accept closure of serveListener, Peer.Close, GetSession / CountSession /
RangeSession). Sessions without a redial function only (ServeConn / listener sessions and dialled
sessions with RedialTimes = 0): `redialForClient` returns false at once.

Layers, all core Lean and executable:
  1. decision functions (`goonRead`, `health`, `write`);
  2. `Core` + `lstep`: ONE session's lifecycle as an interleaving transition system — the
     lock-serialised closer thread, the accept path's compare-and-swap Preparing → Ok (a session
     closed while its hooks run is not revived), the reader thread with its read loop (the loop
     condition `for s.goonRead()` BEFORE the blocking `ReadMessage`, the frame arrival, the second
     `goonRead` test AFTER it and the handler start are four steps: `rdTop`, `rdMsg`, `rdChk`, `rdAdd`;
     `lstepV false` is the loop without the second test) and its disconnect path (the status LOAD and
     the status compare-and-swap of `readDisconnected` are two steps, the captured value is `rst`;
     a failed compare-and-swap goes back to the load), the accept
     phases, the environment (remote close / cut, any goroutine calling `Close()` at any time);
  3. association-list index `AL` (SessionHub) and `World` + `step`: any number of sessions on any
     number of peers, the accept threads (ServeConn order and listener order), SetID threads and the
     nested `hub.set` (LoadOrStore + Store under the hub mutex / `oldSess.Close()`), one step per
     shared-state access; `hub.delete(id, sess)` (Load, compare, Delete under the hub mutex) is one step;
  4. `settle`: run every enabled thread to completion (what happens between two operations of a
     sequential history) and the sequential operations built from it;
  5. `HSt`/`HOp`: the index alone under sequential operations (accept, setID, close, disconnect)
     with the as-coded `delete(id, sess)` (only the owner's entry goes) — the object of the
     induction theorems.
-/
namespace Teleport.Lifecycle

/-! ## 1. status constants and decision functions -/

/-- session.go: `statusPreparing … statusRedialFailed` (`iota` order = constructor order). -/
inductive Status
  | preparing | ok | activeClosing | activeClosed | passiveClosing | passiveClosed
  | redialing | redialFailed
deriving DecidableEq, Repr

/-- the `int32` value of the constant. -/
def Status.code : Status → Nat
  | .preparing => 0 | .ok => 1 | .activeClosing => 2 | .activeClosed => 3
  | .passiveClosing => 4 | .passiveClosed => 5 | .redialing => 6 | .redialFailed => 7

/-- `IsActiveClosed() || IsPassiveClosed()` -/
def Status.isClosed : Status → Bool
  | .activeClosed | .passiveClosed => true
  | _ => false

/-- `goonRead`: `checkStatus(statusOk, statusActiveClosing)` -/
def goonRead : Status → Bool
  | .ok | .activeClosing => true
  | _ => false

/-- `Health()`; `hasRedial` = `redialForClientLocked != nil`. -/
def health (hasRedial : Bool) (st : Status) : Bool :=
  if st = .ok then true
  else if !hasRedial then false
  else if st = .passiveClosed then true
  else false

/-- result of the socket write inside `write`. -/
inductive SockRes | fine | eof | other
deriving DecidableEq, Repr

/-- status class returned by `write`. -/
inductive WriteRes | ok | connClosed | writeFailed
deriving DecidableEq, Repr

/-- `write(message)`: the status check comes first; when it refuses, the connection-closed
    sentinel is returned and neither the context, the write lock nor the socket is touched.
    Second component: was `socket.WriteMessage` called. -/
def write (st : Status) (isReply ctxDone : Bool) (sock : SockRes) : WriteRes × Bool :=
  if !(st = .ok || (st = .activeClosing && isReply)) then (.connClosed, false)
  else if ctxDone then (.writeFailed, false)
  else match sock with
    | .fine => (.ok, true)
    | .eof => (.connClosed, true)
    | .other => (.writeFailed, true)

/-! ## 2. one session: threads, shared variables, atomic steps -/

/-- accept phase: hooks running / a hook refused / hooks succeeded, `tryChangeStatus(statusOk,
    statusPreparing)` pending / it succeeded / it failed (the session was closed while the hooks
    ran; the accept path returns). -/
inductive Phase | hooks | rejected | accepted | running | aborted
deriving DecidableEq, Repr

/-- next action of the goroutine inside `closeLocked` (it holds `s.lock`); `idle` = lock free. -/
inductive CPc | idle | hubdel | notify | callwait | store | sock | hook
deriving DecidableEq, Repr

/-- reader goroutine: not started / at the top of the read loop (before the loop condition) /
    blocked in `ReadMessage` / `ReadMessage` has returned a frame (gate `read.msg`, before the
    post-read status check) / the check passed (gate `read.add`, before `graceCtxWaitGroup.Add(1)`
    and the handler spawn) / in `readDisconnected` before the status load / after the load (switch and compare-and-swap pending) / before `sessHub.delete` / before
    `socket.Close` / before the `PassiveClosed` store / before `notifyClosed` / before the
    disconnect hook / returned. -/
inductive RPc | idle | loop | reading | got | add | disc0 | loaded | hubdel | sock | closed | notify | hook | done
deriving DecidableEq, Repr

structure Core where
  ph : Phase
  st : Status              -- `status` (atomic)
  closer : CPc
  reader : RPc
  rst : Status             -- the local `status` of `readDisconnected`
  didNotify : Bool         -- `didCloseNotify` (CAS flag)
  notifyCnt : Nat          -- number of `close(closeNotifyCh)` executed
  discCnt : Nat            -- number of `postDisconnect` runs
  sockClosed : Bool        -- `socket.Close()` executed
  eof : Bool               -- environment: remote end closed / connection cut
  handlers : Nat           -- handler goroutines started by the read loop
  left : Bool              -- ghost: a store replaced ActiveClosed / PassiveClosed by another status
  late : Bool              -- ghost: the frame in the reader's hands arrived (`ReadMessage` returned)
                           --   when the status was already ActiveClosed / PassiveClosed
  lateH : Nat              -- ghost: handlers started for such frames
deriving DecidableEq, Repr

/-- `newSession`: `status: statusPreparing`. -/
def Core.init : Core :=
  ⟨.hooks, .preparing, .idle, .idle, .preparing, false, 0, 0, false, false, 0, false, false, 0⟩

/-- the accept / dial hooks have succeeded. -/
def Core.est (c : Core) : Bool :=
  match c.ph with
  | .accepted | .running | .aborted => true
  | _ => false

/-- `Health()` of a session without redial function. -/
def Core.health (c : Core) : Bool := Lifecycle.health false c.st

/-- blind `changeStatus(x)`, with the ghost recording a closed state being left. -/
def Core.store (c : Core) (x : Status) : Core :=
  { c with st := x, left := c.left || (c.st.isClosed && decide (x ≠ c.st)) }

/-- `notifyClosed()`: CAS on the flag, then `close(closeNotifyCh)`. -/
def Core.notify (c : Core) : Core :=
  if c.didNotify then c else { c with didNotify := true, notifyCnt := c.notifyCnt + 1 }

/-- atomic steps of one session. -/
inductive LEv
  | hookOk | hookReject   -- outcome of the accept / dial hook chain
  | storeOk               -- `sess.tryChangeStatus(statusOk, statusPreparing)`
  | spawn                 -- `AnywayGo(sess.startReadAndHandle)` / `sess.startReadAndHandle()`
  | closeCall             -- some goroutine calls `Close()`: takes the lock, `tryChangeStatus`
  | cHubDel | cNotify | cCallWait | cStore | cSock | cHook   -- rest of `closeLocked`
  | eof                   -- environment: the remote end closes / the connection is cut
  | rdTop                 -- the loop condition `for s.goonRead()`: into `ReadMessage`, or leave the loop
  | rdMsg                 -- a complete frame arrives: the blocking `ReadMessage` returns it  [read.msg]
  | rdChk                 -- the post-read test `… || !s.goonRead()`: go on, or drop the frame and leave  [read.add]
  | rdAdd                 -- `graceCtxWaitGroup.Add(1)`, `Go(ctx.handle)`; back to the top of the loop
  | rdExit                -- `ReadMessage` fails (socket closed locally / remote end gone): leave the loop
  | dLoad | dStore | dHubDel | dSock | dClosed | dNotify | dHook  -- `readDisconnected`
deriving DecidableEq, Repr

/-- one atomic step; `none` = not enabled. `recheck` = the read loop tests `goonRead` a second
    time after `ReadMessage` has returned (`true`: the loop as coded; `false`: the variant that
    relies on the loop condition alone). -/
def lstepV (recheck : Bool) (c : Core) : LEv → Option Core
  | .hookOk => if c.ph = .hooks then some { c with ph := .accepted } else none
  | .hookReject => if c.ph = .hooks then some { c with ph := .rejected } else none
  | .storeOk =>
    if c.ph = .accepted then
      if c.st = .preparing then some { c.store .ok with ph := .running } else some { c with ph := .aborted }
    else none
  | .spawn => if c.ph = .running ∧ c.reader = .idle then some { c with reader := .loop } else none
  | .closeCall =>
    if c.closer = .idle then
      -- `tryChangeStatus(statusActiveClosing, statusOk, statusPreparing)`; on failure return
      if c.st = .ok ∨ c.st = .preparing then some { c with st := .activeClosing, closer := .hubdel }
      else some c
    else none
  | .cHubDel => if c.closer = .hubdel then some { c with closer := .notify } else none
  | .cNotify => if c.closer = .notify then some { c.notify with closer := .callwait } else none
  | .cCallWait => if c.closer = .callwait then some { c with closer := .store } else none
  | .cStore => if c.closer = .store then some { c.store .activeClosed with closer := .sock } else none
  | .cSock => if c.closer = .sock then some { c with sockClosed := true, closer := .hook } else none
  | .cHook => if c.closer = .hook then some { c with discCnt := c.discCnt + 1, closer := .idle } else none
  | .eof => some { c with eof := true }
  | .rdTop =>
    if c.reader = .loop then
      if goonRead c.st then some { c with reader := .reading } else some { c with reader := .disc0 }
    else none
  | .rdMsg =>
    -- the environment delivers a frame while the connection is still open on this side
    if c.reader = .reading ∧ c.sockClosed = false then some { c with reader := .got, late := c.st.isClosed }
    else none
  | .rdChk =>
    if c.reader = .got then
      if recheck && !goonRead c.st then some { c with reader := .disc0 } else some { c with reader := .add }
    else none
  | .rdAdd =>
    if c.reader = .add then
      some { c with handlers := c.handlers + 1, lateH := c.lateH + (if c.late then 1 else 0), reader := .loop }
    else none
  | .rdExit =>
    if c.reader = .reading ∧ (c.sockClosed ∨ c.eof) then some { c with reader := .disc0 }
    else none
  | .dLoad => if c.reader = .disc0 then some { c with rst := c.st, reader := .loaded } else none
  | .dStore =>
    if c.reader = .loaded then
      match c.rst with
      | .passiveClosed | .activeClosed | .passiveClosing => some { c with reader := .done }
      | .activeClosing => some { c with reader := .hubdel }
      | _ =>
        -- `tryChangeStatus(statusPassiveClosing, status)`: only the status that was loaded is left;
        -- when it has changed since the load, `continue`: load again
        if c.st = c.rst then some { c.store .passiveClosing with reader := .hubdel }
        else some { c with reader := .disc0 }
    else none
  | .dHubDel =>
    if c.reader = .hubdel then
      some { c with reader := if c.rst = .activeClosing then .done else .sock }
    else none
  | .dSock => if c.reader = .sock then some { c with sockClosed := true, reader := .closed } else none
  | .dClosed =>
    if c.reader = .closed then
      -- `tryChangeStatus(statusPassiveClosed, statusPassiveClosing, statusRedialFailed)`: the session is
      -- ended only from the status the refused redial attempt leaves (without a redial function: this
      -- reader's own PassiveClosing); when the compare-and-swap is lost the reader returns at once —
      -- no notification, no disconnect hook
      if c.st = .passiveClosing ∨ c.st = .redialFailed then some { c.store .passiveClosed with reader := .notify }
      else some { c with reader := .done }
    else none
  | .dNotify => if c.reader = .notify then some { c.notify with reader := .hook } else none
  | .dHook => if c.reader = .hook then some { c with discCnt := c.discCnt + 1, reader := .done } else none

/-- the session as coded: with the second `goonRead` test. -/
@[reducible] def lstep (c : Core) (e : LEv) : Option Core := lstepV true c e

/-- closure of `lstep`: every schedule of one session's threads and its environment. -/
inductive LReach : Core → Core → Prop
  | refl (c : Core) : LReach c c
  | step {a b c : Core} (e : LEv) : LReach a b → lstep b e = some c → LReach a c

/-- the same closure for either variant of the read loop. -/
inductive LReachV (recheck : Bool) : Core → Core → Prop
  | refl (c : Core) : LReachV recheck c c
  | step {a b c : Core} (e : LEv) : LReachV recheck a b → lstepV recheck b e = some c → LReachV recheck a c

/-- run a list of steps of one session (`none` when one of them is not enabled). -/
def lrunV (recheck : Bool) : Core → List LEv → Option Core
  | c, [] => some c
  | c, e :: es => (lstepV recheck c e).bind fun c' => lrunV recheck c' es

/-- no thread of the session has a pending step (quiescent point): the reader, if started, is
    blocked in `ReadMessage` or has returned. -/
def Core.quiet (c : Core) : Bool :=
  c.closer = .idle && (c.reader = .idle || c.reader = .reading || c.reader = .done)

/-! ## 3. the index and the world -/

/-- association list with unique keys: the concurrent map of `SessionHub` (linearizable). -/
abbrev AL (κ : Type) := List (κ × Nat)

namespace AL
variable {κ : Type} [DecidableEq κ]

/-- `Load` -/
def get (h : AL κ) (k : κ) : Option Nat :=
  match h with
  | [] => none
  | (k', v) :: t => if k' = k then some v else get t k

/-- `Delete` -/
def del (h : AL κ) (k : κ) : AL κ :=
  match h with
  | [] => []
  | (k', v) :: t => if k' = k then del t k else (k', v) :: del t k

/-- `SessionHub.delete(id, sess)`: `Load`, pointer comparison, `Delete`, under the hub mutex. -/
def delIf (h : AL κ) (k : κ) (v : Nat) : AL κ :=
  if h.get k = some v then h.del k else h

/-- `Store` -/
def put (h : AL κ) (k : κ) (v : Nat) : AL κ :=
  match h with
  | [] => [(k, v)]
  | (k', v') :: t => if k' = k then (k, v) :: t else (k', v') :: put t k v

end AL

/-- index key: (peer, session id). -/
abbrev Key := Nat × Nat

/-- program counter inside `SessionHub.set`: before the locked `LoadOrStore` (+ `Store`) /
    before `oldSess.Close()` / waiting for that `Close()` to return. -/
inductive SetPc | los | close (old : Nat) | wait (old : Nat)
deriving DecidableEq, Repr

/-- which accept path runs the session: `ServeConn` / `Dial` (CAS Preparing → Ok, spawn reader,
    `sessHub.set`; CAS failed: return) or the listener closure (`sessHub.set`, CAS Preparing → Ok,
    reader in place; CAS failed: `sessHub.delete(id, sess)`, return). -/
inductive Path | serve | listen
deriving DecidableEq, Repr

inductive APc | hooks | rejected | sOk | sSpawn | sSet (p : SetPc) | lSet (p : SetPc) | lOk | lRun | done
deriving DecidableEq, Repr

/-- `SetID`: idle / before the first status check (old id kept) / inside `hub.set(s)` / before
    `hub.delete(oldID, s)` / before the second status check (and `hub.delete(newID, s)`). -/
inductive SPc | idle | chk (old : Nat) | set (old : Nat) (p : SetPc) | del (old : Nat) | rechk
deriving DecidableEq, Repr

structure Sess where
  peer : Nat
  partner : Nat        -- index of the session at the other end of the connection
  id : Nat             -- `socket.ID()`
  path : Path
  core : Core
  acc : APc
  sid : SPc
deriving DecidableEq, Repr

structure World where
  sess : List Sess
  hub : AL Key
deriving DecidableEq, Repr

def World.empty : World := ⟨[], []⟩

inductive Ev
  | new (peer partner id : Nat) (path : Path)   -- `newSession` (default id = remote address)
  | hookOk (i : Nat) | hookReject (i : Nat)
  | acc (i : Nat)                -- next step of session i's accept thread
  | setId (i : Nat) (v : Nat)    -- `SetID(v)` begins: reads the id, writes the socket id
  | sid (i : Nat)                -- next step of session i's SetID thread
  | l (i : Nat) (e : LEv)        -- closer / reader / environment step, or an external `Close()` call
deriving DecidableEq, Repr

/-- lifecycle steps that belong to the accept thread (not free-standing events). -/
def LEv.isAcc : LEv → Bool
  | .hookOk | .hookReject | .storeOk | .spawn => true
  | _ => false

/-- primitive updates a step is made of. -/
inductive Prim
  | core (j : Nat) (e : LEv)
  | acc (j : Nat) (p : APc)
  | sid (j : Nat) (p : SPc)
  | id (j : Nat) (v : Nat)
  | put (k : Key) (v : Nat)
  | delIf (k : Key) (v : Nat)
  | new (peer partner id : Nat) (path : Path)
deriving DecidableEq, Repr

def World.modify (w : World) (j : Nat) (f : Sess → Sess) : Option World :=
  match w.sess[j]? with
  | some s => some { w with sess := w.sess.set j (f s) }
  | none => none

def applyPrim (w : World) : Prim → Option World
  | .core j e =>
    match w.sess[j]? with
    | some s =>
      match lstep s.core e with
      | some c => some { w with sess := w.sess.set j { s with core := c } }
      | none => none
    | none => none
  | .acc j p => w.modify j fun s => { s with acc := p }
  | .sid j p => w.modify j fun s => { s with sid := p }
  | .id j v => w.modify j fun s => { s with id := v }
  | .put k v => some { w with hub := w.hub.put k v }
  | .delIf k v => some { w with hub := w.hub.delIf k v }
  | .new peer partner id path =>
    some { w with sess := w.sess ++ [⟨peer, partner, id, path, Core.init, .hooks, .idle⟩] }

def applyPrims : World → List Prim → Option World
  | w, [] => some w
  | w, p :: ps => (applyPrim w p).bind fun w' => applyPrims w' ps

/-- one step inside `SessionHub.set(sess i)`; second component: the next pc (`none` = returned). -/
def planSet (w : World) (i : Nat) (s : Sess) : SetPc → Option (List Prim × Option SetPc)
  | .los =>
    -- `mu.Lock(); _sess, loaded := LoadOrStore(sess.ID(), sess); if loaded { Store(sess.ID(), sess) };
    -- mu.Unlock()`; `if !loaded { return }`; `if sess != oldSess`
    match w.hub.get (s.peer, s.id) with
    | none => some ([.put (s.peer, s.id) i], none)
    | some old => some ([.put (s.peer, s.id) i], if old = i then none else some (.close old))
  | .close old =>
    -- `oldSess.Close()`: lock, `closeLocked` begins
    some ([.core old .closeCall], some (.wait old))
  | .wait old =>
    match w.sess[old]? with
    | some o => if o.core.closer = .idle then some ([], none) else none
    | none => none

/-- the primitive updates of one event; `none` = not enabled. -/
def plan (w : World) : Ev → Option (List Prim)
  | .new peer partner id path =>
    some [.new peer partner id path]
  | .hookOk i =>
    match w.sess[i]? with
    | some s =>
      if s.acc = .hooks then
        some [.core i .hookOk, .acc i (match s.path with | .serve => .sOk | .listen => .lSet .los)]
      else none
    | none => none
  | .hookReject i =>
    match w.sess[i]? with
    | some s => if s.acc = .hooks then some [.core i .hookReject, .acc i .rejected] else none
    | none => none
  | .acc i =>
    match w.sess[i]? with
    | none => none
    | some s =>
      match s.acc with
      | .rejected => some [.core i .closeCall, .acc i .done]      -- `sess.Close()`
      | .sOk =>
        -- `if !sess.tryChangeStatus(statusOk, statusPreparing) { return nil, statConnClosed }`
        if s.core.st = .preparing then some [.core i .storeOk, .acc i .sSpawn]
        else some [.core i .storeOk, .acc i .done]
      | .sSpawn => some [.core i .spawn, .acc i (.sSet .los)]
      | .sSet p =>
        (planSet w i s p).map fun (ps, nx) =>
          ps ++ [.acc i (match nx with | some q => .sSet q | none => .done)]
      | .lSet p =>
        (planSet w i s p).map fun (ps, nx) =>
          ps ++ [.acc i (match nx with | some q => .lSet q | none => .lOk)]
      | .lOk =>
        -- `if !sess.tryChangeStatus(statusOk, statusPreparing) { p.sessHub.delete(sess.ID(), sess); return }`
        if s.core.st = .preparing then some [.core i .storeOk, .acc i .lRun]
        else some [.core i .storeOk, .delIf (s.peer, s.id) i, .acc i .done]
      | .lRun => some [.core i .spawn, .acc i .done]
      | .hooks | .done => none
  | .setId i v =>
    match w.sess[i]? with
    | some s =>
      if s.sid = .idle then
        -- `oldID := s.ID(); if oldID == newID { return }; s.socket.SetID(newID)`
        if s.id = v then some [] else some [.id i v, .sid i (.chk s.id)]
      else none
    | none => none
  | .sid i =>
    match w.sess[i]? with
    | none => none
    | some s =>
      match s.sid with
      | .idle => none
      | .chk old =>
        -- `if !s.checkStatus(statusPreparing, statusOk) { return }`
        if s.core.st = .preparing ∨ s.core.st = .ok then some [.sid i (.set old .los)] else some [.sid i .idle]
      | .set old p =>
        (planSet w i s p).map fun (ps, nx) =>
          ps ++ [.sid i (match nx with | some q => .set old q | none => .del old)]
      | .del old => some [.delIf (s.peer, old) i, .sid i .rechk]     -- `hub.delete(oldID, s)`
      | .rechk =>
        -- `if !s.checkStatus(statusPreparing, statusOk) { hub.delete(newID, s) }`
        if s.core.st = .preparing ∨ s.core.st = .ok then some [.sid i .idle]
        else some [.delIf (s.peer, s.id) i, .sid i .idle]
  | .l i e =>
    match w.sess[i]? with
    | none => none
    | some s =>
      if e.isAcc then none
      else if e = .cHubDel ∨ e = .dHubDel then some [.core i e, .delIf (s.peer, s.id) i]  -- `sessHub.delete(s.ID(), s)`
      else some [.core i e]

/-- the system as coded: every interleaving. -/
def step (w : World) (ev : Ev) : Option World :=
  (plan w ev).bind (applyPrims w)

inductive Reach : World → World → Prop
  | refl (w : World) : Reach w w
  | step {a b c : World} (ev : Ev) : Reach a b → step b ev = some c → Reach a c

/-- run a schedule; `none` when one of its events is not enabled. -/
def run : World → List Ev → Option World
  | w, [] => some w
  | w, e :: es => (step w e).bind fun w' => run w' es

/-- the live sessions: established and not in a closing / closed state. -/
def Sess.live (s : Sess) : Bool := s.core.st = .ok

/-- every thread of every session is at rest and every accept / SetID call has returned. -/
def World.quiet (w : World) : Bool :=
  w.sess.all fun s => s.core.quiet && (s.acc = .done) && (s.sid = .idle)

/-- index lookups agree with the live sessions: `GetSession(id) = s` iff `s` is live with id `id`. -/
def World.hubExactAt (w : World) (i : Nat) (s : Sess) : Bool :=
  if s.live then w.hub.get (s.peer, s.id) = some i
  else w.hub.all fun kv => kv.2 != i

def World.hubExact (w : World) : Bool :=
  (List.range w.sess.length).all fun i =>
    match w.sess[i]? with
    | some s => w.hubExactAt i s
    | none => true

/-! ## 4. running threads to completion; sequential operations -/

/-- the next event of each thread of session `i`, in the order: closer, accept thread, SetID
    thread; then (`readers`) connection loss seen from the partner and the reader thread. -/
def candidates (w : World) (readers : Bool) : List Ev :=
  (List.range w.sess.length).flatMap fun i =>
    match w.sess[i]? with
    | none => []
    | some s =>
      if readers then
        (match w.sess[s.partner]? with
          | some p => if p.core.sockClosed && !s.core.eof then [Ev.l i .eof] else []
          | none => []) ++
        (match s.core.reader with
          | .loop => [Ev.l i .rdTop]
          | .reading => [Ev.l i .rdExit]
          | .got => [Ev.l i .rdChk]
          | .add => [Ev.l i .rdAdd]
          | .disc0 => [Ev.l i .dLoad]
          | .loaded => [Ev.l i .dStore]
          | .hubdel => [Ev.l i .dHubDel]
          | .sock => [Ev.l i .dSock]
          | .closed => [Ev.l i .dClosed]
          | .notify => [Ev.l i .dNotify]
          | .hook => [Ev.l i .dHook]
          | _ => [])
      else
        (match s.core.closer with
          | .hubdel => [Ev.l i .cHubDel]
          | .notify => [Ev.l i .cNotify]
          | .callwait => [Ev.l i .cCallWait]
          | .store => [Ev.l i .cStore]
          | .sock => [Ev.l i .cSock]
          | .hook => [Ev.l i .cHook]
          | .idle => []) ++
        (match s.acc with
          | .hooks | .done => []
          | _ => [Ev.acc i]) ++
        (match s.sid with
          | .idle => []
          | _ => [Ev.sid i])

def firstEnabled (w : World) : List Ev → Option World
  | [] => none
  | e :: es =>
    match step w e with
    | some w' => some w'
    | none => firstEnabled w es

/-- run until nothing is enabled: the calling goroutines first (synchronous part of an operation),
    then the readers reacting to closed connections. -/
def settle : Nat → World → World
  | 0, w => w
  | n + 1, w =>
    match firstEnabled w (candidates w false) with
    | some w' => settle n w'
    | none =>
      match firstEnabled w (candidates w true) with
      | some w' => settle n w'
      | none => w

/-- run events, skipping those that are not enabled. -/
def runSkip : World → List Ev → World
  | w, [] => w
  | w, e :: es => runSkip ((step w e).getD w) es

def fuelOf (w : World) : Nat := 64 * (w.sess.length + 2)

/-- `Close()` of session `i` and everything that follows from it. -/
def World.opClose (w : World) (i : Nat) : World :=
  let w1 := runSkip w [.l i .closeCall]
  settle (fuelOf w1) w1

/-- the connection of session `i` is cut (both ends see end-of-stream). -/
def World.opCut (w : World) (i : Nat) : World :=
  match w.sess[i]? with
  | some s => let w1 := runSkip w [.l i .eof, .l s.partner .eof]; settle (fuelOf w1) w1
  | none => w

/-- `SetID(v)` on session `i`. -/
def World.opSetId (w : World) (i v : Nat) : World :=
  let w1 := runSkip w [.setId i v]
  settle (fuelOf w1) w1

/-- one end of a new connection is served: `newSession`, the hook chain (which may call
    `SetID(v)`, may call `Close()` on the session, and then accepts or refuses), the rest of the
    accept path. -/
def World.opServe (w : World) (peer partner id : Nat) (path : Path) (hookId : Option Nat) (reject : Bool)
    (hookClose : Bool := false) : World :=
  let i := w.sess.length
  let w1 := runSkip w [.new peer partner id path]
  let w2 := match hookId with
    | some v => let x := runSkip w1 [.setId i v]; settle (fuelOf x) x
    | none => w1
  let w2 := if hookClose then (let x := runSkip w2 [.l i .closeCall]; settle (fuelOf x) x) else w2
  let w3 := runSkip w2 [if reject then .hookReject i else .hookOk i]
  settle (fuelOf w3) w3

/-- `Peer.Close()` (first call): `Close()` of every session in the index. -/
def World.opPeerClose (w : World) (peer : Nat) : World :=
  let targets := (w.hub.filter fun kv => kv.1.1 == peer).map (·.2)
  let w1 := runSkip w (targets.map fun i => .l i .closeCall)
  settle (fuelOf w1) w1

/-- the reader of session `j` receives one frame and is back in `ReadMessage` (or has left the loop). -/
def frameSteps (j : Nat) : List Ev := [.l j .rdMsg, .l j .rdChk, .l j .rdAdd, .l j .rdTop]

/-- a CALL or PUSH from session `i`: class of the returned status (`0` ok / `102` connection
    closed) and the frames handled on both sides. -/
def World.opSend (w : World) (i : Nat) (isCall : Bool) : World × Nat :=
  match w.sess[i]? with
  | some s =>
    if (write s.core.st false false .fine).1 = .ok then
      (runSkip w (frameSteps s.partner ++ if isCall then frameSteps i else []), 0)
    else (w, 102)
  | none => (w, 102)

/-! ## 5. the index alone, sequential operations -/

/-- sessions of one peer as functions (index ↦ current id, index ↦ live? = status Preparing / Ok),
    the index as coded. -/
structure HSt where
  n : Nat
  idOf : Nat → Nat
  live : Nat → Bool
  hub : AL Nat

def HSt.empty : HSt := ⟨0, fun _ => 0, fun _ => false, []⟩

inductive HOp
  | accept (id : Nat) (hook : Option Nat) (reject : Bool)
      -- a new connection whose default id is `id` is served; the accept hook may call `SetID(v)`;
      -- then it accepts (`sessHub.set`) or refuses (`sess.Close()`)
  | setID (s : Nat) (v : Nat)    -- `SetID(v)` on session `s`
  | close (s : Nat)              -- local `Close()`
  | disconnect (s : Nat)         -- remote close / cut seen by the reader
deriving DecidableEq, Repr

/-- `Close()` / `readDisconnected` of session `s`: only the first one passes the status guard;
    it runs `sessHub.delete(s.ID(), s)` — the entry goes only if it still maps to `s`. -/
def HSt.kill (h : HSt) (s : Nat) : HSt :=
  if h.live s then { h with live := fun x => if x = s then false else h.live x, hub := h.hub.delIf (h.idOf s) s }
  else h

/-- `SessionHub.set(s)`: LoadOrStore; if loaded: Store and, if it is another session, close it. -/
def HSt.set (h : HSt) (s : Nat) : HSt :=
  match h.hub.get (h.idOf s) with
  | none => { h with hub := h.hub.put (h.idOf s) s }
  | some old =>
    let h1 := { h with hub := h.hub.put (h.idOf s) s }
    if old = s then h1 else h1.kill old

/-- `SetID(v)`: `socket.SetID(v)`; only for a session in Preparing / Ok: `hub.set(s)`,
    `hub.delete(oldID, s)` (the second status check never fires in a sequential history). -/
def HSt.setID (h : HSt) (s v : Nat) : HSt :=
  if h.idOf s = v then h
  else
    let old := h.idOf s
    let h1 : HSt := { h with idOf := fun x => if x = s then v else h.idOf x }
    if h.live s then
      let h2 := h1.set s
      { h2 with hub := h2.hub.delIf old s }
    else h1

def HSt.apply (h : HSt) : HOp → HSt
  | .accept id hook reject =>
    let s := h.n
    let h1 : HSt := { h with n := h.n + 1, idOf := fun x => if x = s then id else h.idOf x,
                              live := fun x => if x = s then true else h.live x }
    let h2 := match hook with
      | some v => h1.setID s v
      | none => h1
    if reject then h2.kill s else h2.set s
  | .setID s v => if s < h.n then h.setID s v else h
  | .close s => if s < h.n then h.kill s else h
  | .disconnect s => if s < h.n then h.kill s else h

def HSt.run (h : HSt) : List HOp → HSt
  | [] => h
  | o :: os => (h.apply o).run os

/-- the index contains exactly the live sessions, each under its current id. -/
def HSt.Exact (h : HSt) : Prop :=
  ∀ k s, h.hub.get k = some s ↔ (s < h.n ∧ h.live s = true ∧ h.idOf s = k)

end Teleport.Lifecycle
