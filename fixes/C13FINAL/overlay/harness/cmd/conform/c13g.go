package main

// C13, forced stale-reader schedules (case kind `c13stale`, same line format as `c13`; every step of
// `c13` may occur, plus the two steps below). Both are executions that Props/C13.lean describes
// (`C13_stale_final_schedule_completes` - before the repair fixes/C13FINAL it was the witness
// `C13_no_stuck_witness` -, `C13_measure_storm_witness`); here they are forced on the real
// code with gates and the Lean model (Drv/C13G.lean) has to predict what the real code shows.
//
//	sfin:<op>:<av1>:<av2>  the STALE FINAL STEP. The live connection is cut with availability av1;
//	                  its reader runs readDisconnected and its redial round; when the round exhausts
//	                  the budget, redialForClient returns false and the reader is parked at the gate
//	                  `final.store` — after the refusal, before the last step
//	                  `tryChangeStatus(statusPassiveClosed, statusPassiveClosing, statusRedialFailed)`
//	                  (status RedialFailed, s.lock free). Then, with availability av2, <op>:
//	                    n nothing   c Call /c13h/echo   p Push   b Call /c13h/block (handler blocked)
//	                  (the writer sees RedialFailed, runs its own redial round; when that succeeds the
//	                  session is Ok again on a new connection and the call is written on it). Then the
//	                  reader is released. As repaired: the compare-and-swap is lost on the
//	                  re-established session (status Ok) and the reader just returns; it is won when
//	                  nothing re-established it (RedialFailed): PassiveClosed, close notification,
//	                  disconnect hook. (Before the repair PassiveClosed was STORED over whatever the
//	                  status was; the reader of the new connection then loaded PassiveClosed and
//	                  returned without the cancel loop: the call hung. The oracles below are the ones
//	                  that reported it.) Then the live connection (if any) is cut and everything runs
//	                  to quiescence.
//	                  result `r1,r2`: r1 = result of c / p (`-` otherwise); r2 for b: its status, or
//	                  `stuck` = still pending at quiescence although its connection is lost.
//	                  When the reader's round succeeds it never reaches the gate; the rest of the
//	                  step then runs on the healthy session.
//	storm:<n>:<av>    the REDIAL STORM, n turns. A Push is parked at `write.check` (it has read the
//	                  connection and status Ok); the connection is cut, its reader parked at `read.msg`.
//	                  One turn: the Push is released — its write fails, it redials (new connection,
//	                  status Ok, new reader) and parks at `write.check` again; then the parked reader,
//	                  now one connection behind, is released — it wins the status CAS on the redialed
//	                  session, deletes the index entry, runs the cancel loop, closes the NEW
//	                  connection, is told `true` by redialForClient and ends; the reader of the
//	                  connection it closed is parked at `read.msg`. After n turns the Push is released
//	                  for good, then the last parked reader.
//
// Oracles (the property's own): a call issued on the session completes (sig
// c13:stale-final-store-hangs-call); with the server reachable the session does not end while a
// redial has just re-established it (c13:stale-final-store-ends-reconnected-session); an exhausted
// budget ends in notification and out of the index; one loss by the environment with the server up
// causes one redial (c13:redial-storm).

import (
	"fmt"
	"os"
	"strconv"
	"strings"
	"sync/atomic"
	"time"

	erpc "github.com/henrylee2cn/erpc/v6"

	"verif/harness/internal/hx"
)

type c13gState struct {
	arrived  bool // sfin: the reader was parked at final.store (its round exhausted the budget)
	midLive  bool // sfin: the session was Ok on a live connection when the reader was released
	av2up    bool // sfin: the server stays reachable from the middle operation on (av2 ends in u)
	fallback bool // the session was not live at the start of the step: a plain call / push ran instead
	av2all   bool // sfin: av2 = u, every dial attempt from the middle operation on succeeds
	stuck    bool // sfin: the blocked call is pending at quiescence, its connection lost
	turns    int  // storm: completed turns
	// calls reported as stuck (they stay in the pending table until some later cancel loop)
	stuckCalls []*c13Call
}

func init() {
	p := props["c13"]
	g, r := p.Gen, p.Run
	p.Gen = func(rr *hx.R, tier string, out *hx.Out) []string {
		return append(g(rr, tier, out), c13gGen(rr, tier)...)
	}
	p.Run = func(line string, out *hx.Out) (string, bool) {
		if strings.HasPrefix(line, "c13stale ") {
			out.Count("kind:c13stale")
		}
		return r(line, out) // same line format, same runner: c13Run dispatches the new steps to stepG
	}
}

// grace after quiescence before a pending call is declared stuck. At quiescence no goroutine of the
// library can run any more, so waiting out the whole watchdog changes nothing; C13_FULLWATCH=1 does it.
func c13gGrace() time.Duration {
	if os.Getenv("C13_FULLWATCH") != "" {
		return c13Watchdog
	}
	return 150 * time.Millisecond
}

func c13gDbg(a ...interface{}) {
	if os.Getenv("C13_DEBUG") != "" {
		fmt.Fprintln(os.Stderr, a...)
	}
}

func (c *c13Case) stuckPending() int {
	n := 0
	for _, k := range c.g.stuckCalls {
		if !k.doneNow() {
			n++
		}
	}
	return n
}

// waitArrivedOrQuiet: the goroutine armed with key parked at its gate (true), or everything went
// quiet without it getting there (false). ok=false: neither within the watchdog.
func (c *c13Case) waitArrivedOrQuiet(key string) (arrived, ok bool) {
	n := 0
	ok = waitUntil(c13Watchdog, func() bool {
		c.mu.Lock()
		a := c.arrived[key]
		c.mu.Unlock()
		if a {
			arrived = true
			return true
		}
		if c.noWakePending() && c13Quiet() && c.noWakePending() {
			n++
		} else {
			n = 0
		}
		return n >= 3
	})
	if ok && !arrived {
		c.mu.Lock()
		arrived = c.arrived[key]
		c.mu.Unlock()
	}
	if !ok {
		c.hung = true
	}
	return arrived, ok
}

// rearmRelease arms key again (new one-shot channel, for the connection that is newest now) and
// releases the goroutine parked on old, in this order, so that the released goroutine cannot pass
// the gate before it is armed.
func (c *c13Case) rearmRelease(key string, old chan struct{}) chan struct{} {
	ch := make(chan struct{})
	c.mu.Lock()
	c.parkAt[key] = ch
	c.arrived[key] = false
	c.parkConn[key] = len(c.conns) - 1
	c.keyOf[ch] = key
	c.mu.Unlock()
	atomic.AddInt32(&c.leaving, 1)
	close(old)
	return ch
}

type c13gPush struct {
	done chan struct{}
	st   *erpc.Status
}

func (c *c13Case) asyncPush() *c13gPush {
	p := &c13gPush{done: make(chan struct{})}
	started := make(chan struct{})
	go func() {
		id := c13Goid()
		c.mu.Lock()
		c.writers[id] = true
		c.mu.Unlock()
		close(started)
		st := c.sess.Push("/c13p/p", 1)
		c.mu.Lock()
		delete(c.writers, id)
		c.mu.Unlock()
		p.st = st
		close(p.done)
	}()
	<-started
	return p
}

func (p *c13gPush) returned() bool {
	select {
	case <-p.done:
		return true
	default:
		return false
	}
}

// waitArrivedOrReturned: the Push parked at key again (true) or returned (false).
func (c *c13Case) waitArrivedOrReturned(key string, p *c13gPush) (arrived, ok bool) {
	ok = waitUntil(c13Watchdog, func() bool {
		c.mu.Lock()
		a := c.arrived[key]
		c.mu.Unlock()
		if a {
			arrived = true
			return true
		}
		return p.returned()
	})
	if !ok {
		c.hung = true
	}
	return arrived, ok
}

func (c *c13Case) stepG(kind string, arg func(int) string) string {
	switch kind {
	case "sfin":
		return c.stepSfin(arg)
	case "storm":
		return c.stepStorm(arg)
	}
	return "bad-step"
}

func (c *c13Case) stepSfin(arg func(int) string) string {
	op := arg(1)
	keep := c.g.stuckCalls
	c.g = c13gState{av2up: strings.HasSuffix(arg(3), "u"), av2all: arg(3) == "u", stuckCalls: keep}
	c.setAv(arg(2))
	if !c.live() {
		c.g.fallback = true
		r := c.asyncCall("/c13h/echo").result(c)
		c.quiesce()
		return r + ",-"
	}
	const key = "r:final.store"
	rch := c.arm(key)
	c.cutLive()
	arrived, ok := c.waitArrivedOrQuiet(key)
	if !ok {
		c.unparkCh(rch)
		return "hang"
	}
	c.g.arrived = arrived
	if !arrived {
		c.disarm(key)
	}
	release := func() {
		if arrived {
			c.unparkCh(rch)
		}
	}
	c.setAv(arg(3))
	r1, r2 := "-", "-"
	var k2 *c13Call
	switch op {
	case "n":
	case "c":
		r1 = c.asyncCall("/c13h/echo").result(c)
		c.quiesce()
	case "p":
		r1 = c.push()
		c.quiesce()
	case "b":
		k2 = c.asyncCall("/c13h/block")
		if !k2.waitRet(c) {
			release()
			return "hang"
		}
		if !k2.doneNow() && !c.waitEntered() {
			release()
			return "hang"
		}
		c.quiesce()
	default:
		release()
		return "bad-step"
	}
	c.g.midLive = c.live()
	if arrived {
		c.unparkCh(rch) // the final compare-and-swap (won or lost)
		c.quiesce()
	}
	c.cutLive()
	c.quiesce()
	if k2 != nil {
		if !k2.doneNow() {
			select {
			case <-k2.cmd.Done():
			case <-time.After(c13gGrace()):
			}
		}
		if k2.doneNow() {
			r2 = c13Class(k2.cmd.Status())
		} else {
			r2 = "stuck"
			c.g.stuck = true
			c.g.stuckCalls = append(c.g.stuckCalls, k2)
		}
	}
	c.releaseHandlers()
	c.quiesce()
	return r1 + "," + r2
}

func (c *c13Case) stepStorm(arg func(int) string) string {
	n, _ := strconv.Atoi(arg(1))
	keep := c.g.stuckCalls
	c.g = c13gState{stuckCalls: keep}
	c.setAv(arg(2))
	if !c.live() {
		c.g.fallback = true
		r := c.push()
		c.quiesce()
		return r
	}
	const rkey, wkey = "r:read.msg", "w:write.check"
	wch := c.arm(wkey)
	p := c.asyncPush()
	if a, ok := c.waitArrivedOrReturned(wkey, p); !ok || !a {
		// a Push on a live session always reaches its status check
		c.unparkCh(wch)
		c.hung = true
		return "hang"
	}
	rch := c.arm(rkey)
	c.cutLive()
	if !c.waitArrived(rkey) {
		c.unparkCh(rch)
		c.unparkCh(wch)
		return "hang"
	}
	c.quiesce()
	for c.g.turns < n {
		// the Push: its write fails, it redials and comes back to the status check, or returns
		wch = c.rearmRelease(wkey, wch)
		a, ok := c.waitArrivedOrReturned(wkey, p)
		c13gDbg("storm turn", c.g.turns, "push arrived", a, ok, "status", erpc.VerifStatus(c.sess), "conns", len(c.conns))
		if !ok {
			c.unparkCh(wch)
			if rch != nil {
				c.unparkCh(rch)
			}
			return "hang"
		}
		if !a {
			c.disarm(wkey)
			wch = nil
			break
		}
		c.quiesce()
		// the reader that is one connection behind
		rch = c.rearmRelease(rkey, rch)
		ra, ok := c.waitArrivedOrQuiet(rkey)
		c13gDbg("storm turn", c.g.turns, "reader arrived", ra, ok, "status", erpc.VerifStatus(c.sess), "conns", len(c.conns), "alive", c.cur().alive())
		if !ok {
			c.unparkCh(wch)
			c.unparkCh(rch)
			return "hang"
		}
		c.g.turns++
		if !ra {
			c.disarm(rkey)
			rch = nil
			break
		}
		c.quiesce()
	}
	if wch != nil {
		c.unparkCh(wch)
	}
	r := "hang"
	select {
	case <-p.done:
		r = c13Class(p.st)
	case <-time.After(c13Watchdog):
		c.hung = true
	}
	c.quiesce()
	if rch != nil {
		c.unparkCh(rch)
		c.quiesce()
	}
	return r
}

// c13gOracles: the property's statements on the forced schedules.
func c13gOracles(c *c13Case, line, st, res, o string, before int32, rounds []int, out *hx.Out) {
	kind := strings.SplitN(st, ":", 2)[0]
	status := erpc.VerifStatus(c.sess)
	notified := strings.Contains(o, ";nt=1;")
	inHub := strings.Contains(o, ":1;att=")
	rs := strings.Split(res, ",")
	if c.g.stuck {
		out.Violate(line, "call-completes",
			"a Call written on the connection that a redial had just re-established never completes: the reader of the lost connection stored PassiveClosed after that redial (it had been told `false` before), the new connection's reader then found PassiveClosed and returned without the cancel loop: "+o,
			"c13:stale-final-store-hangs-call")
	}
	if erpc.VerifPendingCalls(c.sess) != c.stuckPending() {
		out.Violate(line, "no-pending-left", "pending calls remain at quiescence after "+st+": "+o, "c13:hang")
	}
	if c.budget == 0 {
		return
	}
	if c.userID && c.sess.ID() != "u13" {
		out.Violate(line, "id-kept", "user-assigned id lost: "+o, "c13:id-lost")
	}
	if c.g.fallback {
		// a call (push) on a session that an earlier step left ended / half-closed, under the step's first availability
		if (before == 5 || before == 7) && rs[0] != "ok" && rs[0] != "102" {
			out.Violate(line, "ended-conn-error", "call on an ended session ended with "+rs[0]+": "+o, "c13:ended-call-wrong-error")
		}
		return
	}
	ended := status == 5 || status == 7
	switch kind {
	case "sfin":
		if len(rs) != 2 {
			return
		}
		op := strings.Split(st, ":")[1]
		if c.g.arrived && c.g.midLive && c.g.av2up {
			// a redial re-established the connection, the server stays reachable: the session must be usable
			if status != 1 || !inHub {
				out.Violate(line, "reconnects",
					fmt.Sprintf("the server is reachable and a redial re-established the connection, yet the session ends in status %d (notified %v): the reader of the lost connection stored PassiveClosed over the redialed session: %s", status, notified, o),
					"c13:stale-final-store-ends-reconnected-session")
			}
		}
		if c.g.arrived && !c.g.midLive && ended {
			// budget exhausted and nothing re-established: notification, out of the index
			if !notified {
				out.Violate(line, "exhausted-notifies", "redial budget exhausted on the reader path, session ended in status "+strconv.Itoa(int(status))+" without close notification: "+o, "c13:exhausted-reader-path-no-notify")
			}
			if inHub && !c.hubTainted {
				out.Violate(line, "exhausted-leaves-index", "ended session still in the index: "+o, "c13:exhausted-in-hub")
			}
		}
		if c.g.av2all && (op == "c" || op == "p") && rs[0] != "ok" {
			out.Violate(line, "later-call-succeeds", "server reachable, call result "+rs[0]+": "+o, "c13:later-call-fails-server-up")
		}
		if op == "b" && rs[1] != "-" && rs[1] != "stuck" && rs[1] != "102" && rs[1] != "104" {
			out.Violate(line, "inflight-conn-error", "call in flight at the loss ended with "+rs[1]+": "+o, "c13:inflight-not-cancelled")
		}
	case "storm":
		if c.upAtStart && len(rounds) > 1 {
			out.Violate(line, "single-redial",
				fmt.Sprintf("ONE connection loss by the environment, server reachable all the time: %d redial rounds ran (%d forced turns: each time the reader that is one connection behind closes the connection the Push has just established): %s", len(rounds), c.g.turns, o),
				"c13:redial-storm")
		}
		if c.upAtStart && len(rounds) > 0 && status != 1 {
			out.Violate(line, "reconnects", "server reachable, session quiescent in status "+strconv.Itoa(int(status))+" (Health false, not in the index under its id): "+o, "c13:writer-first-leaves-passive-closing")
		}
	}
}

// ---- generator -------------------------------------------------------------------------------

// an availability string that exhausts the budget b >= 0 (b+1 failed attempts, sometimes hook failures)
func c13gFail(r *hx.R, b int) string {
	var s []byte
	for i := 0; i < b+1; i++ {
		if r.Intn(5) == 0 {
			s = append(s, 'h')
		} else {
			s = append(s, 'd')
		}
	}
	return string(s)
}

func c13gGen(r *hx.R, tier string) []string {
	lines := []string{
		// C13_stale_final_schedule_completes (the schedule of the repaired finding c13:stale-final-store-hangs-call), then a call, a loss, a call
		"c13stale b=1 werr=pipe steps=sfin:b:dd:u,call:u,cut:u,call",
		"c13stale b=1 werr=pipe steps=sfin:c:dd:u,call",
		"c13stale b=1 werr=eof steps=sfin:p:dd:u,call",
		"c13stale b=1 werr=pipe steps=sfin:n:dd:u,call",
		"c13stale b=3 werr=eof steps=sfin:b:dddd:u",
		"c13stale b=1 werr=pipe steps=sfin:b:dd:dd,call:u",
		"c13stale b=1 werr=pipe steps=sfin:b:dh:hu,call",
		"c13stale b=3 werr=pipe steps=sfin:b:du:u,call",
		"c13stale b=0 werr=pipe steps=sfin:c:u:u,call",
		"c13stale b=-1 werr=pipe steps=setid,sfin:b:ddu:u,call",
		"c13stale b=1 werr=pipe steps=setid,sfin:b:dd:u,call:u",
		// C13_measure_storm_witness, two and three turns
		"c13stale b=3 werr=eof steps=storm:2:u,call:u",
		"c13stale b=3 werr=eof steps=storm:3:u",
		"c13stale b=3 werr=pipe steps=storm:2:u,call",
		"c13stale b=1 werr=eof steps=storm:2:du,call:u",
		"c13stale b=1 werr=eof steps=storm:2:ddu,call:u",
		"c13stale b=0 werr=eof steps=storm:1:u,call",
		"c13stale b=-1 werr=eof steps=setid,storm:3:u,call",
		"c13stale b=3 werr=eof steps=cut:u,storm:1:u,sfin:b:dddd:u",
	}
	n := 24
	if tier == "thorough" {
		n = 90
	}
	ops := []string{"n", "c", "p", "b", "b", "b"}
	for i := 0; i < n; i++ {
		budget := r.Pick(0, 1, 1, 1, 3, 3, -1)
		werr := "pipe"
		if r.Intn(2) == 0 {
			werr = "eof"
		}
		var steps []string
		if r.Intn(6) == 0 {
			steps = append(steps, "setid")
		}
		ns := 1 + r.Intn(3)
		for j := 0; j < ns; j++ {
			switch r.Intn(8) {
			case 0:
				steps = append(steps, "call")
			case 1:
				steps = append(steps, "cut:"+c13Av(r, budget, false))
			case 2:
				steps = append(steps, "cutcall:"+c13Av(r, budget, false))
			case 3, 4, 5:
				av1 := c13Av(r, budget, false)
				if budget >= 0 && r.Intn(4) != 0 {
					av1 = c13gFail(r, budget) // the last letter repeats: the round fails
				}
				av2 := c13Av(r, budget, r.Intn(4) == 0)
				steps = append(steps, "sfin:"+ops[r.Intn(len(ops))]+":"+av1+":"+av2)
			default:
				steps = append(steps, fmt.Sprintf("storm:%d:%s", 1+r.Intn(3), c13Av(r, budget, r.Intn(6) == 0)))
			}
		}
		steps = append(steps, "call:u")
		lines = append(lines, fmt.Sprintf("c13stale b=%d werr=%s steps=%s", budget, werr, strings.Join(steps, ",")))
	}
	return lines
}
