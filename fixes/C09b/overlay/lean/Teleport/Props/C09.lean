/-
Props/C09 — Plugin hooks fire once, in stage and registration order, and can veto.
Property theorems only; helper lemmas live in Lemmas/Plugin.

`build ops = some P` ranges over every configuration reachable through the public API: any
sequence of SubRoute / RouteCallFunc / RoutePushFunc / SetUnknownCall / SetUnknownPush /
AppendLeft / AppendRight / Remove, any plugins (any name, any subset of stage interfaces);
`V` ranges over all verdict assignments; `id` over all routes (registered or not).
-/
import Teleport.Lemmas.Plugin
namespace Teleport
namespace C09
open Plug

/-! ### C09_refresh — the containers after any operation history -/

/-- After ANY sequence of registration operations (as coded): (1) no list that a stage iterates
    contains two plugins of the same name (the unique-name check of `refresh`); (2) container 0 is
    the global one, with empty middle, and its list is `left ++ right` of the *current* global
    plugins; (3) every container's `middle` slice holds exactly the plugins registered along its
    route — groups, then handler — whatever was registered on sibling groups afterwards
    (`cloneAndAppendMiddle` copies); (4) the global container and the containers cloned directly
    from it (groups and handlers on the root router, the unknown handlers) are up to date: their
    list is `left ++ chain ++ right` with the current global plugins.
    By induction over the operation list. -/
theorem C09_refresh (ops : List Op) (P : Peer) (h : build ops = some P) : SInv P :=
  sinv_run ops sinv_new h

/-- (3) of `C09_refresh`, spelled out: in every reachable configuration every container's
    `middle` is its route's chain. (Before `cloneAndAppendMiddle` copied the parent's slice this
    failed for sibling sub-groups: `aliasOps` below.) -/
theorem C09_refresh_chain (ops : List Op) (P : Peer) (h : build ops = some P) (i : Nat) (c : Cont)
    (hc : P.conts[i]? = some c) : c.middle = c.chain :=
  (C09_refresh ops P h).clean i c hc

/-- `cloneAndAppendMiddle` in any reachable configuration: the new group / handler container
    gets the parent's chain followed by its own plugins, and the list its stages iterate is that
    chain between the current global-left and global-right plugins: `left ++ groups ++ handler ++
    right` at registration time. -/
theorem C09_refresh_clone (ops : List Op) (P P' : Peer) (h0 : build ops = some P) (i k : Nat)
    (ps : List Plugin) (h : clone P i ps = some (P', k)) :
    (contAt P' k).chain = (contAt P i).chain ++ ps ∧
    (contAt P' k).middle = (contAt P' k).chain ∧
    allOf P' k = P.left ++ (contAt P' k).chain ++ P.right := by
  have hP := C09_refresh ops P h0
  obtain ⟨c, e, hk, _, hm, hc, ha, _⟩ := clone_spec h
  subst e; subst hk
  have : (P.conts ++ [c])[P.conts.length]? = some c := by simp
  simp only [allOf, contAt, List.getD, this, Option.getD_some]
  have hcl := hP.contAt_clean i
  unfold contAt at hcl hm hc ha
  simp only [List.getD] at hcl hm hc ha
  exact ⟨hc, by rw [hm, hc, hcl], by rw [ha, hc, hcl]⟩

/-- three nested groups g1 ⊃ g2 ⊃ g3 with plugins [p1,p2], [p3], [p4]; a sibling g4 of g3 with
    [p5]; then a handler registered in g3 (the shape on which sibling groups used to overwrite
    each other's plugins, sig `c09:sibling-group-plugin-aliasing`). -/
def aliasOps : List Op :=
  [.subRoute 0 [⟨1, 65535⟩, ⟨2, 65535⟩], .subRoute 1 [⟨3, 65535⟩], .subRoute 2 [⟨4, 65535⟩],
   .subRoute 2 [⟨5, 65535⟩], .routeCall 3 0 []]

/-- non-vacuity of `C09_refresh_clone`, on the former aliasing shape: the handler registered in
    g3 after its sibling g4 gets `[p1,p2,p3,p4]`, and `p4` — not `p5` — sees its messages. -/
example : ∃ P P', build aliasOps.dropLast = some P ∧ clone P (groupCont P 3) [] = some (P', 5) ∧
    allOf P' 5 = [⟨1, 65535⟩, ⟨2, 65535⟩, ⟨3, 65535⟩, ⟨4, 65535⟩] := ⟨_, _, rfl, rfl, rfl⟩

example : ∃ P, build aliasOps = some P ∧ getCall P 0 = some 5 ∧
    (4, Stage.postReadCallBody) ∈ calleeHooks (callee P (fun _ _ => 0) 0 0) ∧
    (5, Stage.postReadCallBody) ∉ calleeHooks (callee P (fun _ _ => 0) 0 0) := by
  refine ⟨_, rfl, rfl, ?_, ?_⟩ <;> decide

/-- As coded, a container two or more clones below the global one (a handler or group inside a
    sub-group) is never refreshed again: whatever operation follows, the list its stages iterate
    stays what it was at registration time. This is the one-level `refreshTree`. -/
theorem C09_refresh_frozen (P P' : Peer) (o : Op) (h : apply P o = some P') (i : Nat) (c : Cont)
    (hc : P.conts[i]? = some c) (hd : 1 < c.depth) :
    ∃ c', P'.conts[i]? = some c' ∧ c'.all = c.all ∧ c'.depth = c.depth :=
  frozen_apply o h i c hc (by omega)

example : ∃ P P' c, apply P (.appendRight [⟨5, 65535⟩]) = some P' ∧ P.conts[2]? = some c ∧ 1 < c.depth :=
  ⟨_, _, _, (rfl : apply ((build [.subRoute 0 [], .routeCall 1 0 []]).getD Peer.new) _ = some _), rfl, by decide⟩

/- Full-strength statement wanted by the property ("each registered plugin's hooks fire", "only
   plugins on the global container or on the matched route's chain see the message"):

     theorem C09_refresh_full (ops : List Op) (P : Peer) (h : build ops = some P) : Fresh P

   i.e. EVERY container's list is `left ++ chain ++ right`: the current global plugins around the
   plugins registered along the route (groups, then handler). It is FALSE for the code as it is:
   `C09_refresh_witness` (one-level refreshTree: containers two or more clones below the global
   one never see a later AppendLeft/AppendRight/Remove). Proved below for histories in which
   that cannot happen, and in `C09_refresh` (4) for the containers of depth ≤ 1 in all histories. -/

/-- Partial: if all AppendLeft/AppendRight/Remove operations come before all routing operations
    (any nesting of sub-groups, any number of plugins per registration), then every container's
    list is `left ++ groups ++ handler ++ right`.
    Missing for the full statement: propagation of `refresh` below the first level. -/
theorem C09_refresh_partial (gs rs : List Op) (P : Peer)
    (hg : ∀ o ∈ gs, o.isGlobal = true) (hr : ∀ o ∈ rs, o.isGlobal = false)
    (h : build (gs ++ rs) = some P) : Fresh P := by
  unfold build at h
  rw [run_append] at h
  cases h1 : run Peer.new gs with
  | none => simp [h1] at h
  | some Q =>
    simp [h1] at h
    have hS := sinv_run gs sinv_new h1
    exact fresh_run_routing rs hr hS (fresh_of_allRoot hS (allRoot_run_global gs hg allRoot_new h1)) h

example : (∀ o ∈ [Op.appendLeft [⟨1, 65535⟩]], o.isGlobal = true) ∧
    (∀ o ∈ [Op.subRoute 0 [⟨2, 768⟩], Op.subRoute 1 [⟨4, 768⟩], Op.routeCall 2 0 [⟨3, 512⟩]], o.isGlobal = false) ∧
    (build ([Op.appendLeft [⟨1, 65535⟩]] ++
      [Op.subRoute 0 [⟨2, 768⟩], Op.subRoute 1 [⟨4, 768⟩], Op.routeCall 2 0 [⟨3, 512⟩]])).isSome = true := by
  decide

/-- the configuration of the first finding: a group, a handler inside it, then a global plugin. -/
def lateOps : List Op :=
  [.subRoute 0 [], .routeCall 1 0 [], .routeCall 0 1 [], .appendRight [⟨5, 65535⟩]]

/-- Witness (genuine defect, sig `c09:late-global-plugin-not-propagated`): after
    `g := peer.SubRoute("g"); g.RouteCallFunc(h0); peer.RouteCallFunc(h1);
    peer.PluginContainer().AppendRight(p5)` the handler registered on the root router sees `p5`,
    the handler inside the group does not: its list is still empty. -/
theorem C09_refresh_witness :
    ∃ P, build lateOps = some P ∧ P.right = [⟨5, 65535⟩] ∧
      allOf P 3 = [⟨5, 65535⟩] ∧ allOf P 2 = [] ∧ ¬ Fresh P := by
  refine ⟨_, rfl, rfl, rfl, rfl, ?_⟩
  intro hF
  have := hF 2 _ rfl
  revert this
  decide

/-! ### C09_sorted / C09_nodup — order and at-most-once -/

/-- For every configuration, every verdict assignment and every route: the hooks that fire on
    the receiving peer for one CALL (header, body, reply-writing stages) are sorted by
    (documented stage order, position in the list the stage iterates) — strictly, so nothing
    fires twice. `C09_refresh` says what that list is: `left ++ groups ++ handler ++ right`. -/
theorem C09_sorted (ops : List Op) (P : Peer) (h : build ops = some P) (V : Verd) (id : Nat) (hs : Int) :
    (calleeHooks (callee P V id hs)).Pairwise (Before (calleeList P V id)) := by
  have hP := C09_refresh ops P h
  have hpre := runSteps_before V (calleeList P V id) (calleeSteps P id) (calleeSteps_ok P hP V id)
  have hpost := runAll_before V (calleeList P V id) _ (replySteps_ok P hP V id)
  have cross : ∀ a ∈ (runSteps V (calleeSteps P id)).1, ∀ b ∈ runAll V (replySteps (replyList P V id)), a.2.rank < b.2.rank := by
    intro a ha b hb
    obtain ⟨C, h1, _⟩ := mem_runSteps V _ a ha
    have ra := calleeSteps_rank P id _ h1
    obtain ⟨C', h2, _⟩ := mem_runAll V _ b hb
    simp [replySteps] at h2
    have rb : 6 ≤ b.2.rank := by rcases h2 with h2 | h2 <;> rw [h2.1] <;> decide
    simp at ra; omega
  unfold calleeHooks callee
  simp only
  split
  · simpa using hpre
  · split
    · exact before_append _ _ _ hpre hpost cross
    · split <;> exact before_append _ _ _ hpre hpost cross

/-- No (plugin, stage) pair fires twice for one received CALL (uses the unique-name check). -/
theorem C09_nodup (ops : List Op) (P : Peer) (h : build ops = some P) (V : Verd) (id : Nat) (hs : Int) :
    (calleeHooks (callee P V id hs)).Nodup :=
  nodup_of_before _ _ (C09_sorted ops P h V id hs)

/-- The same for a received PUSH. -/
theorem C09_sorted_push (ops : List Op) (P : Peer) (h : build ops = some P) (V : Verd) (id : Nat) :
    (pushee P V id).pre.Pairwise (Before (pusheeList P id)) ∧ (pushee P V id).pre.Nodup := by
  have hP := C09_refresh ops P h
  have := runSteps_before V (pusheeList P id) (pusheeSteps P id) (pusheeSteps_ok P hP id)
  exact ⟨this, nodup_of_before _ _ this⟩

/-- Calling side (CALL written, PUSH written): `pre…` before `post…`, each in the order of the
    global list `left ++ right`, nothing twice. -/
theorem C09_sorted_writer (ops : List Op) (P : Peer) (h : build ops = some P) (V : Verd) :
    (callerWrite P V).fired.Pairwise (Before (fun _ => globalAll P)) ∧
    (pusher P V).fired.Pairwise (Before (fun _ => globalAll P)) := by
  have hP := C09_refresh ops P h
  have hn := hP.allOf_nodup 0
  have key : ∀ (s1 s2 : Stage), s1.rank < s2.rank →
      (writeSide V s1 s2 (globalAll P)).fired.Pairwise (Before (fun _ => globalAll P)) := by
    intro s1 s2 hr
    unfold writeSide
    simp only
    split
    · exact runStage_before V _ s1 _ rfl hn
    · refine before_append _ _ _ (runStage_before V _ s1 _ rfl hn) (runStage_before V _ s2 _ rfl hn) ?_
      intro a ha b hb
      rw [runStage_stage V s1 _ a ha, runStage_stage V s2 _ b hb]; exact hr
  exact ⟨key _ _ (by decide), key _ _ (by decide)⟩

/-- Calling side, reading the REPLY: preReadHeader, postReadReplyHeader, preReadReplyBody,
    postReadReplyBody in that order, each in the order of the global list, nothing twice. -/
theorem C09_sorted_reader (ops : List Op) (P : Peer) (h : build ops = some P) (V : Verd) (rs : Int) :
    ((callerRead P V rs).hdr ++ (callerRead P V rs).fired).Pairwise (Before (fun _ => globalAll P)) := by
  have hP := C09_refresh ops P h
  have hn := hP.allOf_nodup 0
  have h0 := runStage_before V (fun _ => globalAll P) .preReadHeader _ rfl hn
  have hok : StepsOK (fun _ => globalAll P) (replyReadSteps (globalAll P) rs) := by
    unfold replyReadSteps
    split
    · refine ⟨by simp [Stage.rank], ?_⟩
      intro sc hsc; simp at hsc
      rcases hsc with h | h | h <;> subst h <;> exact ⟨rfl, hn⟩
    · refine ⟨by simp [Stage.rank], ?_⟩
      intro sc hsc; simp at hsc
      rcases hsc with h | h <;> subst h <;> exact ⟨rfl, hn⟩
  have h1 := runSteps_before V _ _ hok
  unfold callerRead
  simp only
  split
  · simpa using h0
  · refine before_append _ _ _ h0 h1 ?_
    intro a ha b hb
    rw [runStage_stage V _ _ a ha]
    obtain ⟨C, hm, _⟩ := mem_runSteps V _ b hb
    unfold replyReadSteps at hm
    split at hm <;> simp at hm
    · rcases hm with h | h | h <;> rw [h.1] <;> decide
    · rcases hm with h | h <;> rw [h.1] <;> decide

/-! ### C09_scope — who sees the message -/

/-- As coded, for every configuration: a hook that fires for a received CALL belongs to a
    plugin in the global container's list or in the list of the matched route's handler
    container (the unknown-call handler's if that matched; only the global list if nothing did). -/
theorem C09_scope (P : Peer) (V : Verd) (id : Nat) (hs : Int) :
    ∀ f ∈ calleeHooks (callee P V id hs),
      f.1 ∈ names (globalAll P) ∨ f.1 ∈ names (allOf P (callCont P id)) := by
  have hpre : ∀ f ∈ (runSteps V (calleeSteps P id)).1,
      f.1 ∈ names (globalAll P) ∨ f.1 ∈ names (allOf P (callCont P id)) := by
    intro f hf
    obtain ⟨C, h1, h2⟩ := mem_runSteps V _ f hf
    have hm := runStage_name_mem V _ C f h2
    unfold calleeSteps at h1
    cases hg : getCall P id with
    | none => rw [hg] at h1; simp at h1; rcases h1 with h | h <;> (rw [h.2] at hm; exact Or.inl hm)
    | some k =>
      rw [hg] at h1; simp at h1
      rcases h1 with h | h | h | h
      · rw [h.2] at hm; exact Or.inl hm
      · rw [h.2] at hm; exact Or.inl hm
      · rw [h.2] at hm; right; simpa [callCont, hg] using hm
      · rw [h.2] at hm; right; simpa [callCont, hg] using hm
  have hpost : ∀ f ∈ runAll V (replySteps (replyList P V id)),
      f.1 ∈ names (globalAll P) ∨ f.1 ∈ names (allOf P (callCont P id)) := by
    intro f hf
    obtain ⟨C, h1, h2⟩ := mem_runAll V _ f hf
    have hm := runStage_name_mem V _ C f h2
    simp [replySteps] at h1
    have hC : C = replyList P V id := by rcases h1 with h | h <;> exact h.2
    rw [hC] at hm
    unfold replyList at hm
    split at hm
    · exact Or.inl hm
    · exact Or.inr hm
  intro f hf
  unfold calleeHooks callee at hf
  simp only at hf
  split at hf
  · simp at hf; exact hpre f hf
  · split at hf
    · simp only [List.mem_append] at hf; exact hf.elim (hpre f) (hpost f)
    · split at hf <;> (simp only [List.mem_append] at hf; exact hf.elim (hpre f) (hpost f))

/- Full-strength statement wanted by the property:

     theorem C09_scope_full (ops) (P) (h : build ops = some P) (V id hs) :
       ∀ f ∈ calleeHooks (callee P V id hs),
         f.1 ∈ names (P.left ++ (contAt P (callCont P id)).chain ++ P.right)

   ("only plugins on the global container or on the matched route's chain see the message",
   with the global container as it is NOW). FALSE as coded — `C09_scope_witness`. -/

/-- Partial: when the containers are fresh (e.g. all global operations precede routing,
    `C09_refresh_partial`), a hook that fires belongs to a current global plugin or to a plugin of
    the matched route's chain. -/
theorem C09_scope_partial (ops : List Op) (P : Peer) (h : build ops = some P) (hF : Fresh P)
    (V : Verd) (id : Nat) (hs : Int) :
    ∀ f ∈ calleeHooks (callee P V id hs),
      f.1 ∈ names (P.left ++ (contAt P (callCont P id)).chain ++ P.right) := by
  have hP := C09_refresh ops P h
  intro f hf
  have hall : allOf P (callCont P id) = P.left ++ (contAt P (callCont P id)).chain ++ P.right ∨
      allOf P (callCont P id) = [] := by
    unfold allOf contAt
    cases hc : P.conts[callCont P id]? with
    | none => right; simp [List.getD, hc]
    | some c => left; have := hF _ c hc; simp [List.getD, hc, this]
  rcases C09_scope P V id hs f hf with h1 | h1
  · rw [hP.globalAll_eq] at h1
    simp [names] at h1 ⊢
    rcases h1 with ⟨p, hp, e⟩ | ⟨p, hp, e⟩
    · exact Or.inl ⟨p, hp, e⟩
    · exact Or.inr (Or.inr ⟨p, hp, e⟩)
  · rcases hall with e | e
    · rw [e] at h1; exact h1
    · rw [e] at h1; simp [names] at h1

/-- non-vacuity of the `Fresh` hypothesis of the `_partial` theorems: global, group and handler
    plugins, handler two clones below the global container. -/
example : ∃ P, build ([Op.appendLeft [⟨1, 65535⟩]] ++ [Op.subRoute 0 [⟨2, 768⟩], Op.routeCall 1 0 [⟨3, 512⟩]]) = some P ∧
    Fresh P ∧ getCall P 0 = some 2 ∧ 2 < P.conts.length :=
  ⟨_, rfl, C09_refresh_partial [Op.appendLeft [⟨1, 65535⟩]] [Op.subRoute 0 [⟨2, 768⟩], Op.routeCall 1 0 [⟨3, 512⟩]] _
    (by decide) (by decide) rfl, rfl, by decide⟩

/-- the configuration of the second finding: a global plugin, a handler inside a group, Remove. -/
def removeOps : List Op :=
  [.appendLeft [⟨1, 65535⟩], .subRoute 0 [], .routeCall 1 0 [], .remove 1]

/-- Witness (genuine defect, sig `c09:removed-global-plugin-still-fires`): after
    `NewPeer(cfg, p1); g := peer.SubRoute("g"); g.RouteCallFunc(h0);
    peer.PluginContainer().Remove("p1")`, `p1` is on no container any more, yet its body-stage
    hooks still fire for `h0` — and its veto still rejects the call. -/
theorem C09_scope_witness :
    ∃ P, build removeOps = some P ∧ P.left = [] ∧ P.right = [] ∧ (contAt P (callCont P 0)).chain = [] ∧
      (1, Stage.preReadCallBody) ∈ calleeHooks (callee P (fun _ _ => 0) 0 0) ∧
      (callee P (fun n s => if n = 1 ∧ s = .postReadCallBody then 1109 else 0) 0 0).reply = some 1109 := by
  refine ⟨_, rfl, rfl, rfl, rfl, ?_, ?_⟩ <;> decide

/-! ### completeness: "each registered plugin's hooks fire" -/

/- Full-strength statement wanted by the property:

     theorem C09_complete_full (ops) (P) (h : build ops = some P) (V) (hV : ∀ n s, V n s = 0) (id k hs)
       (hk : getCall P id = some k) (p) (hp : p ∈ P.left ++ (contAt P k).chain ++ P.right)
       (s) (hs' : s = .preReadCallBody ∨ s = .postReadCallBody) (hi : p.impl s = true) :
       (p.name, s) ∈ (callee P V id hs).pre

   FALSE as coded — `C09_complete_witness`. -/

/-- Partial: in a fresh configuration with OK verdicts, every plugin of
    `left ++ groups ++ handler ++ right` that implements a body stage fires at it, and the handler
    is invoked. Missing for the full statement: `refresh` below the first level. -/
theorem C09_complete_partial (ops : List Op) (P : Peer) (_h : build ops = some P) (hF : Fresh P)
    (V : Verd) (hV : ∀ n s, V n s = 0) (id k : Nat) (hs : Int) (hk : getCall P id = some k)
    (hlt : k < P.conts.length)
    (p : Plugin) (hp : p ∈ P.left ++ (contAt P k).chain ++ P.right)
    (s : Stage) (hs' : s = .preReadCallBody ∨ s = .postReadCallBody) (hi : p.impl s = true) :
    (p.name, s) ∈ (callee P V id hs).pre ∧ (callee P V id hs).invoked = true := by
  have ok : ∀ s C, runStage V s C = ((C.filter (·.impl s)).map (fun p => (p.name, s)), 0) :=
    fun s C => runStage_ok_all V s C (fun q _ => hV q.name s)
  have hall : allOf P k = P.left ++ (contAt P k).chain ++ P.right := by
    unfold allOf contAt
    have : P.conts[k]? = some P.conts[k] := List.getElem?_eq_getElem hlt
    have e := hF k _ this
    simp [List.getD, this, e]
  have hmem : (p.name, s) ∈ (runStage V s (allOf P k)).1 := by
    rw [ok]
    exact List.mem_map.2 ⟨p, List.mem_filter.2 ⟨by rw [hall]; exact hp, by simpa using hi⟩, rfl⟩
  unfold callee calleeSteps
  simp only [hk, runSteps, ok, ne_eq, not_true_eq_false, ↓reduceIte, List.append_nil, List.cons_append, List.nil_append]
  rw [ok] at hmem
  refine ⟨?_, by first | rfl | trivial⟩
  simp only [List.mem_append]
  rcases hs' with e | e <;> subst e
  · exact Or.inr (Or.inr (Or.inl hmem))
  · exact Or.inr (Or.inr (Or.inr hmem))

/-- Witness (sig `c09:late-global-plugin-not-propagated`): in `lateOps` the global plugin `p5`
    implements every stage and is on the global container, but for the handler inside the group
    (route 0) its body-stage hook does not fire — and when `p5` is scripted to veto at
    postReadCallBody (think: an authorisation plugin added with AppendRight), the handler is
    invoked all the same and the caller gets OK. For the handler on the root router (route 1) the
    same veto works. -/
theorem C09_complete_witness :
    ∃ P, build lateOps = some P ∧ (⟨5, 65535⟩ : Plugin) ∈ P.right ∧
      (5, Stage.postReadCallBody) ∉ (callee P (fun _ _ => 0) 0 0).pre ∧
      (callee P (fun n s => if n = 5 ∧ s = .postReadCallBody then 1509 else 0) 0 0).invoked = true ∧
      (callee P (fun n s => if n = 5 ∧ s = .postReadCallBody then 1509 else 0) 0 0).reply = some 0 ∧
      (callee P (fun n s => if n = 5 ∧ s = .postReadCallBody then 1509 else 0) 1 0).invoked = false ∧
      (callee P (fun n s => if n = 5 ∧ s = .postReadCallBody then 1509 else 0) 1 0).reply = some 1509 := by
  refine ⟨_, rfl, ?_, ?_, ?_, ?_, ?_, ?_⟩ <;> decide

/-! ### C09_veto -/

/-- A non-OK verdict of any hook that precedes the handler (preReadHeader, postReadCallHeader,
    preReadCallBody, postReadCallBody) ⇒ the handler is not invoked and the REPLY carries exactly
    that status; for preReadHeader (which returns an `error`, not a status) the read loop ends
    and no reply is written at all (the caller's call is cancelled with "connection closed").
    All configurations, all verdicts, all routes. -/
theorem C09_veto (P : Peer) (V : Verd) (id : Nat) (hs : Int) (n : Nat) (s : Stage)
    (hf : (n, s) ∈ (callee P V id hs).pre) (hv : V n s ≠ 0) :
    (callee P V id hs).invoked = false ∧
    (callee P V id hs).reply = if s = .preReadHeader then none else some (V n s) := by
  have hpre : (callee P V id hs).pre = (runSteps V (calleeSteps P id)).1 := by
    unfold callee; simp only; split
    · rfl
    · split
      · rfl
      · split <;> rfl
  rw [hpre] at hf
  have hr := runSteps_mem_veto V _ n s hf hv
  have hr0 : (runSteps V (calleeSteps P id)).2 ≠ 0 := by rw [hr]; exact hv
  by_cases h6 : (runStage V .preReadHeader (globalAll P)).2 ≠ 0
  · -- the read loop ended at preReadHeader: everything fired is a preReadHeader hook
    have hs6 : s = .preReadHeader := by
      have : (runSteps V (calleeSteps P id)).1 = (runStage V .preReadHeader (globalAll P)).1 := by
        unfold calleeSteps; simp only [List.cons_append, runSteps]; rw [if_pos h6]
      rw [this] at hf
      exact runStage_stage V _ _ _ hf
    unfold callee; dsimp only; rw [if_pos h6, if_pos hs6]; exact ⟨rfl, rfl⟩
  · have hs6 : s ≠ .preReadHeader := by
      intro e; subst e
      obtain ⟨C, h1, h2⟩ := mem_runSteps V _ _ hf
      have hC : C = globalAll P := by
        unfold calleeSteps at h1
        cases hg : getCall P id with
        | none => rw [hg] at h1; simp at h1; exact h1
        | some k => rw [hg] at h1; simp at h1; exact h1
      subst hC
      exact h6 (by rw [runStage_mem_veto V _ _ n _ h2 hv]; exact hv)
    unfold callee; dsimp only; rw [if_neg h6, if_pos hr0, if_neg hs6, hr]; exact ⟨rfl, rfl⟩

example : ∃ P, build [Op.appendLeft [⟨1, 65535⟩], Op.routeCall 0 0 [⟨2, 65535⟩]] = some P ∧
    (2, Stage.preReadCallBody) ∈ (callee P (fun n s => if n = 2 ∧ s = .preReadCallBody then 1208 else 0) 0 0).pre ∧
    (callee P (fun n s => if n = 2 ∧ s = .preReadCallBody then 1208 else 0) 0 0).reply = some 1208 := by
  refine ⟨_, rfl, ?_, ?_⟩ <;> decide

/-- The same for a PUSH: a non-OK verdict at any stage before the handler ⇒ not invoked. -/
theorem C09_veto_push (P : Peer) (V : Verd) (id : Nat) (n : Nat) (s : Stage)
    (hf : (n, s) ∈ (pushee P V id).pre) (hv : V n s ≠ 0) : (pushee P V id).invoked = false := by
  unfold pushee at hf ⊢
  simp only at hf ⊢
  have hr := runSteps_mem_veto V _ n s hf hv
  simp [hr, hv]

/-- Calling side: a vetoing pre-write hook means nothing is written, the call (push) completes
    with exactly that status, the callee's handler is not invoked and the callee fires nothing
    beyond the `preReadHeader` of its idle read loop. -/
theorem C09_veto_prewrite (A B : Peer) (VA VB : Verd) (id : Nat) (hs : Int) (n : Nat)
    (hf : (n, Stage.preWriteCall) ∈ (callerWrite A VA).fired) (hv : VA n .preWriteCall ≠ 0) :
    (call A B VA VB id hs).written = false ∧ (call A B VA VB id hs).status = some (VA n .preWriteCall) ∧
    (call A B VA VB id hs).invoked = false ∧ (call A B VA VB id hs).bpost = [] ∧
    (call A B VA VB id hs).ar = [] ∧ ∀ f ∈ (call A B VA VB id hs).bpre, f.2 = .preReadHeader := by
  have hw : (runStage VA .preWriteCall (globalAll A)).2 = VA n .preWriteCall := by
    unfold callerWrite writeSide at hf
    simp only at hf
    split at hf
    · exact runStage_mem_veto VA _ _ n _ hf hv
    · rename_i h0
      simp only [List.mem_append] at hf
      rcases hf with h | h
      · exact runStage_mem_veto VA _ _ n _ h hv
      · have := runStage_stage VA _ _ _ h; simp at this
  have hne : (runStage VA .preWriteCall (globalAll A)).2 ≠ 0 := by rw [hw]; exact hv
  have hcw : callerWrite A VA =
      { fired := (runStage VA .preWriteCall (globalAll A)).1, written := false, veto := VA n .preWriteCall } := by
    unfold callerWrite writeSide; dsimp only; rw [if_pos hne, hw]
  unfold call; dsimp only; rw [hcw]; dsimp only; rw [if_pos hv]
  exact ⟨rfl, rfl, rfl, rfl, rfl, fun f hf => runStage_stage VB _ _ f hf⟩

example : ∃ A, build [Op.appendLeft [⟨1, 3⟩, ⟨2, 3⟩]] = some A ∧
    (2, Stage.preWriteCall) ∈ (callerWrite A (fun n s => if n = 2 ∧ s = .preWriteCall then 1200 else 0)).fired := by
  refine ⟨_, rfl, ?_⟩; decide

theorem C09_veto_prewrite_push (A B : Peer) (VA VB : Verd) (id : Nat) (n : Nat)
    (hf : (n, Stage.preWritePush) ∈ (pusher A VA).fired) (hv : VA n .preWritePush ≠ 0) :
    (push A B VA VB id).written = false ∧ (push A B VA VB id).status = VA n .preWritePush ∧
    (push A B VA VB id).invoked = false := by
  have hw : (runStage VA .preWritePush (globalAll A)).2 = VA n .preWritePush := by
    unfold pusher writeSide at hf
    simp only at hf
    split at hf
    · exact runStage_mem_veto VA _ _ n _ hf hv
    · simp only [List.mem_append] at hf
      rcases hf with h | h
      · exact runStage_mem_veto VA _ _ n _ h hv
      · have := runStage_stage VA _ _ _ h; simp at this
  have hne : (runStage VA .preWritePush (globalAll A)).2 ≠ 0 := by rw [hw]; exact hv
  have hcw : pusher A VA =
      { fired := (runStage VA .preWritePush (globalAll A)).1, written := false, veto := VA n .preWritePush } := by
    unfold pusher writeSide; dsimp only; rw [if_pos hne, hw]
  unfold push; dsimp only; rw [hcw]; dsimp only; rw [if_pos hv]
  exact ⟨rfl, rfl, rfl⟩

/-- End to end: if a hook on the callee vetoes before the handler (other than preReadHeader) and
    none of the caller's own hooks vetoes, the caller's call completes with exactly the vetoing
    hook's status. (A caller-side veto on the reply path is itself a veto and wins: `callerRead`.) -/
theorem C09_veto_caller (A B : Peer) (VA VB : Verd) (hA : ∀ n s, VA n s = 0) (id : Nat) (hs : Int)
    (n : Nat) (s : Stage) (hf : (n, s) ∈ (callee B VB id hs).pre) (hv : VB n s ≠ 0)
    (hs6 : s ≠ .preReadHeader) :
    (call A B VA VB id hs).status = some (VB n s) ∧ (call A B VA VB id hs).invoked = false := by
  obtain ⟨hi, hr⟩ := C09_veto B VB id hs n s hf hv
  simp only [hs6, ↓reduceIte] at hr
  have ok : ∀ s C, runStage VA s C = ((C.filter (·.impl s)).map (fun p => (p.name, s)), 0) :=
    fun s C => runStage_ok_all VA s C (fun q _ => hA q.name s)
  have oks : ∀ steps, (runSteps VA steps).2 = 0 := by
    intro steps
    induction steps with
    | nil => rfl
    | cons sc rest ih => obtain ⟨s', C⟩ := sc; simp [runSteps, ok, ih]
  unfold call callerWrite writeSide
  simp only [ok, ne_eq, not_true_eq_false, ↓reduceIte, hr, hi, callerRead, oks]
  simp

end C09
end Teleport
