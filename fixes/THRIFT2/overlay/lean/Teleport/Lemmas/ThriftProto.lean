import Teleport.Model.ThriftProto
import Teleport.Lemmas.Raw
import Teleport.Lemmas.Args
import Teleport.Lemmas.Status
/-
Lemmas/ThriftProto — the law assumed of Apache thrift's THeader protocol (`Lawful`), the header-map
lemmas, and the round trip of both thriftproto variants for every lawful library.
-/
namespace Teleport
namespace ThriftP
open Bytes

/-! ### the header map -/

theorem getHdr_setHdr_same (h : HMap) (k v : Bytes) : getHdr (setHdr h k v) k = v := by
  induction h with
  | nil => simp [setHdr, getHdr]
  | cons p r ih =>
    obtain ⟨k', v'⟩ := p
    by_cases hk : k' = k
    · simp [setHdr, getHdr, hk]
    · simp [setHdr, getHdr, hk, ih]

theorem getHdr_setHdr_other (h : HMap) (k k' v : Bytes) (hne : k' ≠ k) :
    getHdr (setHdr h k' v) k = getHdr h k := by
  induction h with
  | nil => simp [setHdr, getHdr, hne]
  | cons p r ih =>
    obtain ⟨k2, v2⟩ := p
    by_cases hk : k2 = k'
    · subst hk; simp [setHdr, getHdr, hne]
    · by_cases hk2 : k2 = k
      · subst hk2; simp [setHdr, getHdr, hk]
      · simp [setHdr, getHdr, hk, hk2, ih]

/-- two header maps that answer every lookup alike (a Go map has no order). -/
def SameHdr (a b : HMap) : Prop := ∀ k, getHdr a k = getHdr b k

theorem keys_distinct :
    kStatus ≠ kMeta ∧ kStatus ≠ kCodec ∧ kStatus ≠ kPipe ∧ kMeta ≠ kCodec ∧ kMeta ≠ kPipe ∧ kCodec ≠ kPipe := by
  decide

theorem binHdr_status (m : Msg) : getHdr (binHdr m) kStatus = m.status.encode := by
  obtain ⟨h1, h2, h3, _, _, _⟩ := keys_distinct
  unfold binHdr
  rw [getHdr_setHdr_other _ _ _ _ (Ne.symm h3), getHdr_setHdr_other _ _ _ _ (Ne.symm h2),
    getHdr_setHdr_other _ _ _ _ (Ne.symm h1), getHdr_setHdr_same]

theorem binHdr_meta (m : Msg) : getHdr (binHdr m) kMeta = Args.query m.md := by
  obtain ⟨_, _, _, h4, h5, _⟩ := keys_distinct
  unfold binHdr
  rw [getHdr_setHdr_other _ _ _ _ (Ne.symm h5), getHdr_setHdr_other _ _ _ _ (Ne.symm h4), getHdr_setHdr_same]

theorem binHdr_codec (m : Msg) : getHdr (binHdr m) kCodec = codecStr m.codec := by
  obtain ⟨_, _, _, _, _, h6⟩ := keys_distinct
  unfold binHdr
  rw [getHdr_setHdr_other _ _ _ _ (Ne.symm h6), getHdr_setHdr_same]

theorem binHdr_pipe (m : Msg) : getHdr (binHdr m) kPipe = m.pipe := by
  unfold binHdr
  rw [getHdr_setHdr_same]

theorem structHdr_status (m : Msg) : getHdr (structHdr m) kStatus = m.status.encode := by
  obtain ⟨h1, _, _, _, _, _⟩ := keys_distinct
  unfold structHdr
  rw [getHdr_setHdr_other _ _ _ _ (Ne.symm h1), getHdr_setHdr_same]

theorem structHdr_meta (m : Msg) : getHdr (structHdr m) kMeta = Args.query m.md := by
  unfold structHdr
  rw [getHdr_setHdr_same]

/-- the write headers `binaryPack` leaves do not depend on what was there before: they are built on
    a cleared map (`binHdr` starts from `[]`), and two packs of the same message agree. -/
theorem binHdr_keys (m : Msg) : (binHdr m).map (·.1) = [kStatus, kMeta, kCodec, kPipe] := by
  obtain ⟨h1, h2, h3, h4, h5, h6⟩ := keys_distinct
  simp [binHdr, setHdr, h1, h2, h3, h4, h5, h6]

theorem structHdr_keys (m : Msg) : (structHdr m).map (·.1) = [kStatus, kMeta] := by
  obtain ⟨h1, _, _, _, _, _⟩ := keys_distinct
  simp [structHdr, setHdr, h1]

/-! ### codec id and message type -/

theorem codecOf_codecStr (c : UInt8) (h : c < 128) : codecOf (codecStr c) = c := by
  simp [codecStr, h, codecOf]

/-- for an id ≥ 128 the first byte of `string(byte)` is the UTF-8 lead byte `0xC2` / `0xC3`. -/
theorem codecOf_codecStr_high (c : UInt8) (h : ¬ c < 128) : codecOf (codecStr c) = (192 : UInt8) ||| (c >>> 6) := by
  simp [codecStr, h, codecOf]

theorem mtypeOf_typeOf (t : UInt8) (h : t = 1 ∨ t = 2 ∨ t = 3) : mtypeOf (typeOf t) = t := by
  rcases h with h | h | h <;> subst h <;> decide

theorem typeOf_ne_exception (t : UInt8) : typeOf t ≠ 3 := by
  unfold typeOf
  split
  · decide
  · split
    · decide
    · split <;> decide

theorem typeOf_lt (t : UInt8) : typeOf t < 256 := by
  unfold typeOf
  split
  · decide
  · split
    · decide
    · split <;> decide

/-! ### the law of the thrift library -/

def asStruct : Payload → Bool
  | .struct _ => true
  | _ => false

/-- **Assumed of Apache thrift** (`THeaderProtocol` over `THeaderTransport` + `TBinaryProtocol`, and, for
    struct payloads, of the body type's generated `Write`/`Read`): what one flush emitted — followed
    by ANY further bytes — is read back as the same message begin (name, type, sequence number), the
    same payload and a header map that answers every lookup like the one written, and exactly the
    following bytes remain.  `fits` = the frames within the library's own limits (header block ≤
    65535 words, frame ≤ `THeaderMaxFrameSize`, int32 sequence number, type < 256). -/
structure Lawful (T : THeader) (fits : TFrame → Prop) : Prop where
  dec_enc : ∀ (f : TFrame) (rest : Bytes), fits f → f.payload ≠ .none →
    ∃ h, T.dec (asStruct f.payload) (T.enc f ++ rest) = .ok ({ f with hdr := h }, rest) ∧ SameHdr h f.hdr

/-! ### supported field sets -/

/-- thrift-binary's supported field set, found by running the real code: message type CALL / REPLY /
    PUSH, int32 status code, metadata without an (empty, empty) pair (an ORDERED MULTIMAP: it travels
    as one query string inside ONE header value, so repeated keys, their order, and keys equal to the
    protocol's own header names are all preserved), body codec id < 128 (`string(byte)`), at most 255
    filters.  Service method, status text, metadata and body are arbitrary byte strings. -/
def WFt (m : Msg) : Prop :=
  (m.mtype = 1 ∨ m.mtype = 2 ∨ m.mtype = 3) ∧ Num.inInt32 m.status.code ∧ Args.WF m.md ∧ m.codec < 128 ∧
  m.pipe.length ≤ 255

instance (m : Msg) : Decidable (WFt m) := by unfold WFt Args.WF; infer_instance

/-- thrift-struct's: no filters, codec 0 or 't' (it comes back as 't'), body a `TStruct`. -/
def WFs (m : Msg) : Prop :=
  (m.mtype = 1 ∨ m.mtype = 2 ∨ m.mtype = 3) ∧ Num.inInt32 m.status.code ∧ Args.WF m.md ∧
  (m.codec = 0 ∨ m.codec = 116) ∧ m.pipe = []

instance (m : Msg) : Decidable (WFs m) := by unfold WFs Args.WF; infer_instance

/-! ### Pack -/

theorem sizeRes_ok (limit count sz : Nat) (h : sizeRes limit count = .ok sz) :
    sz = count % 4294967296 ∧ sz ≤ limit := by
  unfold sizeRes at h
  split at h
  · simp at h
  · simp only [Except.ok.injEq] at h; omega

/-- what a successful `binaryPack` did. -/
theorem packBinary_ok (T : THeader) (reg : Registry) (limit : Nat) (st : PState) (m : Msg) (sz : Nat)
    (hp : (packBinary T reg limit st m).res = .ok sz) :
    ∃ b, Xfer.onPack reg m.pipe m.body = some b ∧ (packBinary T reg limit st m).written = T.enc (binFrame m b)
      ∧ sz = (T.enc (binFrame m b)).length % 4294967296 ∧ sz ≤ limit := by
  unfold packBinary at hp ⊢
  cases hx : Xfer.onPack reg m.pipe m.body with
  | none => simp [hx] at hp
  | some b =>
    simp only [hx] at hp ⊢
    have := sizeRes_ok _ _ _ hp
    exact ⟨b, rfl, rfl, by simpa using this.1, this.2⟩

/-- `binaryPack` does not look at the protocol object's state: written bytes, result and codec are
    the same from any two states. -/
theorem packBinary_state_irrelevant (T : THeader) (reg : Registry) (limit : Nat) (st st' : PState) (m : Msg) :
    (packBinary T reg limit st m).written = (packBinary T reg limit st' m).written ∧
    (packBinary T reg limit st m).res = (packBinary T reg limit st' m).res := by
  unfold packBinary
  cases Xfer.onPack reg m.pipe m.body <;> simp

/-- a `binaryPack` that fails for any reason but the size limit has written nothing. -/
theorem packBinary_err_silent (T : THeader) (reg : Registry) (limit : Nat) (st : PState) (m : Msg) (e : PackErr)
    (hp : (packBinary T reg limit st m).res = .error e) (hne : e ≠ .size) :
    (packBinary T reg limit st m).written = [] := by
  unfold packBinary at hp ⊢
  cases hx : Xfer.onPack reg m.pipe m.body with
  | none => simp
  | some b =>
    simp only [hx] at hp
    unfold sizeRes at hp
    split at hp
    · simp only [Except.error.injEq] at hp; exact absurd hp.symm hne
    · simp at hp

/-- a `structPack` that fails for any reason but the size limit (pipe, codec, body no `TStruct`) has
    written nothing and left the protocol object's state as it was (fix THRIFT2: every requirement is
    checked before `writeMessageBegin`). -/
theorem packStruct_err_silent (T : THeader) (limit : Nat) (st : PState) (isStruct : Bool) (m : Msg) (e : PackErr)
    (hp : (packStruct T limit st isStruct m).res = .error e) (hne : e ≠ .size) :
    (packStruct T limit st isStruct m).written = [] ∧ (packStruct T limit st isStruct m).st = st := by
  unfold packStruct at hp ⊢
  by_cases h1 : m.pipe.length > 0
  · simp only [if_pos h1, and_self]
  · by_cases h2 : (m.codec ≠ 0 ∧ m.codec ≠ 116)
    · simp only [if_neg h1, if_pos h2, and_self]
    · cases isStruct with
      | false => simp only [if_neg h1, if_neg h2, Bool.not_false, if_true, and_self]
      | true =>
        simp only [if_neg h1, if_neg h2, Bool.not_true, Bool.false_eq_true, if_false] at hp
        unfold sizeRes at hp
        split at hp
        · simp only [Except.error.injEq] at hp; exact absurd hp.symm hne
        · simp at hp

/-- `structPack` does not look at the protocol object's state either. -/
theorem packStruct_state_irrelevant (T : THeader) (limit : Nat) (st st' : PState) (isStruct : Bool) (m : Msg) :
    (packStruct T limit st isStruct m).written = (packStruct T limit st' isStruct m).written ∧
    (packStruct T limit st isStruct m).res = (packStruct T limit st' isStruct m).res := by
  unfold packStruct
  split
  · simp
  · split
    · simp
    · split <;> simp

/-! ### Unpack of what Pack wrote -/

theorem ofFrameBinary_binFrame (reg : Registry) (m : Msg) (b : Bytes) (h : HMap)
    (hw : WFt m) (hl : ∀ i ∈ m.pipe, ∃ f, reg i = some f ∧ Xfer.Lawful f)
    (hb : Xfer.onPack reg m.pipe m.body = some b) (hs : SameHdr h (binHdr m)) :
    ofFrameBinary reg { name := m.method, typeID := typeOf m.mtype, seq := m.seq, payload := .bin b, hdr := h } b
      = .ok { m with size := 0 } := by
  obtain ⟨hmt, hcode, hmd, hco, hpl⟩ := hw
  unfold ofFrameBinary
  simp only [ hs kStatus, hs kMeta, hs kPipe, hs kCodec, binHdr_status, binHdr_meta, binHdr_pipe,
    binHdr_codec, Status.decode_encode m.status hcode, Args.parse_query_wf m.md hmd, Raw.append_ok reg m.pipe hpl hl,
    Raw.onUnpack_onPack reg m.pipe hl _ _ hb, Raw.ofOpt, Raw.bind_ok, codecOf_codecStr m.codec hco, mtypeOf_typeOf m.mtype hmt]

theorem ofFrameStruct_structFrame (m : Msg) (h : HMap) (hw : WFs m) (hs : SameHdr h (structHdr m)) :
    ofFrameStruct { name := m.method, typeID := typeOf m.mtype, seq := m.seq, payload := .struct m.body, hdr := h } m.body
      = .ok { m with codec := 116, size := 0 } := by
  obtain ⟨hmt, hcode, hmd, _, hp⟩ := hw
  unfold ofFrameStruct
  simp only [ hs kStatus, hs kMeta, structHdr_status, structHdr_meta, Status.decode_encode m.status hcode,
    Args.parse_query_wf m.md hmd, Raw.ofOpt, Raw.bind_ok, mtypeOf_typeOf m.mtype hmt, hp]

/-- one frame, thrift-binary. -/
theorem unpack_pack_binary (T : THeader) (fits : TFrame → Prop) (hT : Lawful T fits)
    (reg : Registry) (limit limit' : Nat) (st : PState) (m : Msg) (rest : Bytes) (sz pulled : Nat)
    (hw : WFt m) (hl : ∀ i ∈ m.pipe, ∃ f, reg i = some f ∧ Xfer.Lawful f)
    (hfit : ∀ b, Xfer.onPack reg m.pipe m.body = some b → fits (binFrame m b))
    (hp : (packBinary T reg limit st m).res = .ok sz) (hlim : pulled % 4294967296 ≤ limit') :
    unpackBinary T reg limit' pulled ((packBinary T reg limit st m).written ++ rest)
      = .ok { m with size := pulled % 4294967296 } rest := by
  obtain ⟨b, hb, hwr, _, _⟩ := packBinary_ok T reg limit st m sz hp
  obtain ⟨h, hd, hs⟩ := hT.dec_enc (binFrame m b) rest (hfit b hb) (by simp [binFrame])
  rw [hwr]
  unfold unpackBinary
  have hd' : T.dec false (T.enc (binFrame m b) ++ rest)
      = .ok ({ name := m.method, typeID := typeOf m.mtype, seq := m.seq, payload := .bin b, hdr := h }, rest) := hd
  rw [hd']
  have e2 : ¬ (typeOf m.mtype = 3) := typeOf_ne_exception m.mtype
  simp only [e2, if_false]
  rw [ofFrameBinary_binFrame reg m b h hw hl hb hs]
  unfold finish
  have : ¬ (pulled % 4294967296 > limit') := by omega
  simp only [this, if_false]

/-- one frame, thrift-struct. -/
theorem unpack_pack_struct (T : THeader) (fits : TFrame → Prop) (hT : Lawful T fits)
    (limit limit' : Nat) (st : PState) (m : Msg) (rest : Bytes) (sz pulled : Nat)
    (hw : WFs m) (hfit : fits (structFrame m))
    (hp : (packStruct T limit st true m).res = .ok sz) (hlim : pulled % 4294967296 ≤ limit') :
    (packStruct T limit st true m).written = T.enc (structFrame m) ∧
    unpackStruct T limit' pulled true (T.enc (structFrame m) ++ rest)
      = .ok { m with codec := 116, size := pulled % 4294967296 } rest := by
  obtain ⟨h, hd, hs⟩ := hT.dec_enc (structFrame m) rest hfit (by simp [structFrame])
  have hp0 : ¬ (m.pipe.length > 0) := by rw [hw.2.2.2.2]; simp
  have hc0 : ¬ (m.codec ≠ 0 ∧ m.codec ≠ 116) := by
    rcases hw.2.2.2.1 with h | h <;> simp [h]
  refine ⟨by unfold packStruct; simp [hp0, hc0], ?_⟩
  unfold unpackStruct
  have hd' : T.dec true (T.enc (structFrame m) ++ rest)
      = .ok ({ name := m.method, typeID := typeOf m.mtype, seq := m.seq, payload := .struct m.body, hdr := h }, rest) := hd
  rw [hd']
  have e2 : ¬ (typeOf m.mtype = 3) := typeOf_ne_exception m.mtype
  simp only [e2, if_false, Bool.not_true, Bool.false_eq_true]
  rw [ofFrameStruct_structFrame m h hw hs]
  unfold finish
  have : ¬ (pulled % 4294967296 > limit') := by omega
  simp only [this, if_false]

/-- any number of back-to-back frames written by one protocol object, read by another. -/
theorem unpackN_packAll_binary (T : THeader) (fits : TFrame → Prop) (hT : Lawful T fits)
    (reg : Registry) (limit limit' : Nat) (ms : List Msg) (tail : Bytes)
    (hw : ∀ m ∈ ms, WFt m ∧ (∀ i ∈ m.pipe, ∃ f, reg i = some f ∧ Xfer.Lawful f) ∧
      ∀ b, Xfer.onPack reg m.pipe m.body = some b → fits (binFrame m b))
    (st : PState) (stream : Bytes) (out : List Msg)
    (hp : packAllBinary T reg limit st ms = some (stream, out))
    (ps : List Nat) (hlen : ps.length = ms.length) (hps : ∀ p ∈ ps, p % 4294967296 ≤ limit') :
    unpackNBinary T reg limit' ps (stream ++ tail)
      = some ((ms.zip ps).map (fun mp => { mp.1 with size := mp.2 % 4294967296 }), tail) := by
  induction ms generalizing st stream out ps with
  | nil =>
    cases ps with
    | nil => simp [packAllBinary] at hp; simp [unpackNBinary, hp]
    | cons p ps => simp at hlen
  | cons m ms ih =>
    cases ps with
    | nil => simp at hlen
    | cons p ps =>
      simp only [packAllBinary] at hp
      cases h1 : (packBinary T reg limit st m).res with
      | error e => simp [h1] at hp
      | ok sz =>
        cases h2 : packAllBinary T reg limit (packBinary T reg limit st m).st ms with
        | none => simp [h1, h2] at hp
        | some r2 =>
          obtain ⟨r, o⟩ := r2
          simp only [h1, h2, Option.some.injEq, Prod.mk.injEq] at hp
          obtain ⟨hs, _⟩ := hp
          obtain ⟨hwm, hlm, hfm⟩ := hw m (by simp)
          have h3 := unpack_pack_binary T fits hT reg limit limit' st m (r ++ tail) sz p hwm hlm hfm h1
            (hps p (by simp))
          have h4 := ih (fun x hx => hw x (by simp [hx])) _ r o h2 ps (by simpa using hlen)
            (fun q hq => hps q (by simp [hq]))
          rw [← hs, List.append_assoc]
          simp only [unpackNBinary, h3, h4, Option.map_some, List.zip_cons_cons, List.map_cons]

/-! ### read-ahead arithmetic -/

/-- conservation: over any possible run, the sizes recorded add up to the frame lengths plus the
    change of the read-ahead. -/
theorem raRun_sum (a : Nat) (l : List (Nat × Nat)) (a' : Nat) (h : raRun a l = some a') :
    a + (l.map (·.2)).sum = (l.map (·.1)).sum + a' := by
  induction l generalizing a with
  | nil => simp [raRun] at h; simp [h]
  | cons x r ih =>
    obtain ⟨len, p⟩ := x
    simp only [raRun] at h
    cases hs : raStep a len p with
    | none => simp [hs] at h
    | some a1 =>
      simp only [hs, Option.bind_some] at h
      have := ih a1 h
      unfold raStep at hs
      split at hs
      · simp at hs
      · split at hs
        · simp at hs
        · simp only [Option.some.injEq] at hs
          simp only [List.map_cons, List.sum_cons]
          omega

/-- a reader that never runs ahead (each `Read` of the connection ends at a frame boundary, e.g.
    strict request/response traffic) records exactly the frame length. -/
theorem raStep_aligned (len p : Nat) (h : raStep 0 len p = some 0) : p = len := by
  unfold raStep at h
  split at h
  · simp at h
  · split at h
    · simp at h
    · simp only [Option.some.injEq] at h; omega

end ThriftP
end Teleport
