/-
Lemmas/Lifecycle — invariants of the session machine (Model/Lifecycle) and lemmas about the index.
-/
import Teleport.Model.Lifecycle
namespace Teleport.Lifecycle

/-! ## one session -/

/-- unfold one `lstep` equation into its guard and the new state. -/
theorem lstep_cases {c c' : Core} {e : LEv} (h : lstep c e = some c') :
    (e = .hookOk ∧ c.ph = .hooks ∧ c' = { c with ph := .accepted }) ∨
    (e = .hookReject ∧ c.ph = .hooks ∧ c' = { c with ph := .rejected }) ∨
    (e = .storeOk ∧ c.ph = .accepted ∧ c' = { c.store .ok with ph := .running }) ∨
    (e = .spawn ∧ c.ph = .running ∧ c.reader = .idle ∧ c' = { c with reader := .loop }) ∨
    (e = .closeCall ∧ c.closer = .idle ∧ (c.st = .ok ∨ c.st = .preparing) ∧ c' = { c with st := .activeClosing, closer := .hubdel }) ∨
    (e = .closeCall ∧ c.closer = .idle ∧ ¬ (c.st = .ok ∨ c.st = .preparing) ∧ c' = c) ∨
    (e = .cHubDel ∧ c.closer = .hubdel ∧ c' = { c with closer := .notify }) ∨
    (e = .cNotify ∧ c.closer = .notify ∧ c' = { c.notify with closer := .callwait }) ∨
    (e = .cCallWait ∧ c.closer = .callwait ∧ c' = { c with closer := .store }) ∨
    (e = .cStore ∧ c.closer = .store ∧ c' = { c.store .activeClosed with closer := .sock }) ∨
    (e = .cSock ∧ c.closer = .sock ∧ c' = { c with sockClosed := true, closer := .hook }) ∨
    (e = .cHook ∧ c.closer = .hook ∧ c' = { c with discCnt := c.discCnt + 1, closer := .idle }) ∨
    (e = .eof ∧ c' = { c with eof := true }) ∨
    (e = .rdMsg ∧ c.reader = .loop ∧ goonRead c.st = true ∧ c' = { c with handlers := c.handlers + 1 }) ∨
    (e = .rdMsg ∧ c.reader = .loop ∧ goonRead c.st = false ∧ c' = { c with reader := .disc0 }) ∨
    (e = .rdExit ∧ c.reader = .loop ∧ c' = { c with reader := .disc0 }) ∨
    (e = .dLoad ∧ c.reader = .disc0 ∧ c' = { c with rst := c.st, reader := .loaded }) ∨
    (e = .dStore ∧ c.reader = .loaded ∧ (c.rst = .passiveClosed ∨ c.rst = .activeClosed ∨ c.rst = .passiveClosing) ∧ c' = { c with reader := .done }) ∨
    (e = .dStore ∧ c.reader = .loaded ∧ c.rst = .activeClosing ∧ c' = { c with reader := .hubdel }) ∨
    (e = .dStore ∧ c.reader = .loaded ∧ (c.rst ≠ .passiveClosed ∧ c.rst ≠ .activeClosed ∧ c.rst ≠ .passiveClosing ∧ c.rst ≠ .activeClosing) ∧ c.st = c.rst ∧ c' = { c.store .passiveClosing with reader := .hubdel }) ∨
    (e = .dStore ∧ c.reader = .loaded ∧ (c.rst ≠ .passiveClosed ∧ c.rst ≠ .activeClosed ∧ c.rst ≠ .passiveClosing ∧ c.rst ≠ .activeClosing) ∧ c.st ≠ c.rst ∧ c' = { c with reader := .disc0 }) ∨
    (e = .dHubDel ∧ c.reader = .hubdel ∧ c' = { c with reader := if c.rst = .activeClosing then .done else .sock }) ∨
    (e = .dSock ∧ c.reader = .sock ∧ c' = { c with sockClosed := true, reader := .closed }) ∨
    (e = .dClosed ∧ c.reader = .closed ∧ c' = { c.store .passiveClosed with reader := .notify }) ∨
    (e = .dNotify ∧ c.reader = .notify ∧ c' = { c.notify with reader := .hook }) ∨
    (e = .dHook ∧ c.reader = .hook ∧ c' = { c with discCnt := c.discCnt + 1, reader := .done }) := by
  cases e <;> simp only [lstep] at h
  case closeCall =>
    split at h
    · split at h <;> simp_all
    · simp at h
  case eof => simp_all
  case rdMsg =>
    split at h
    · split at h <;> simp_all
    · simp at h
  case dStore =>
    split at h
    · split at h <;> (try split at h) <;> simp_all
    · simp at h
  all_goals (split at h <;> simp_all <;> done)


/-- split a step into the 26 guarded assignments of `lstep_cases`. -/
macro "lstep_split" h:ident : tactic =>
  `(tactic| (have hsplit := lstep_cases $h:ident; clear $h:ident; rcases hsplit with $h:ident | $h:ident | $h:ident | $h:ident | $h:ident | $h:ident | $h:ident | $h:ident | $h:ident | $h:ident | $h:ident | $h:ident | $h:ident | $h:ident | $h:ident | $h:ident | $h:ident | $h:ident | $h:ident | $h:ident | $h:ident | $h:ident | $h:ident | $h:ident | $h:ident | $h:ident))

/-- invariant of every schedule. -/
structure SInv (c : Core) : Prop where
  notify : c.notifyCnt = (if c.didNotify then 1 else 0)
  closerLate : (c.closer = .callwait ∨ c.closer = .store ∨ c.closer = .sock ∨ c.closer = .hook) → c.didNotify = true
  acNotify : c.st = .activeClosed → c.didNotify = true
  pcReader : c.st = .passiveClosed → (c.reader = .notify ∨ c.reader = .hook ∨ c.reader = .done)
  hookNotify : c.reader = .hook → c.didNotify = true
  doneNotify : c.reader = .done → c.st = .passiveClosed → c.didNotify = true
  okRunning : c.st = .ok → c.ph = .running
  pcRunning : (c.st = .passiveClosing ∨ c.st = .passiveClosed) → c.ph = .running
  readerRunning : c.reader ≠ .idle → c.ph = .running
  handlersReader : 0 < c.handlers → c.reader ≠ .idle
  noRedial : c.st ≠ .redialing ∧ c.st ≠ .redialFailed

theorem sinv_init : SInv Core.init := by
  constructor <;> simp [Core.init]

theorem sinv_step {c c' : Core} {e : LEv} (h : lstep c e = some c') (hi : SInv c) : SInv c' := by
  obtain ⟨i1, i2, i3, i4, i5, i6, i7, i8, i9, i10, i11⟩ := hi
  lstep_split h
  all_goals (
    first
    | obtain ⟨rfl, g1, g2, g3, g4, rfl⟩ := h
    | obtain ⟨rfl, g1, g2, g3, rfl⟩ := h
    | obtain ⟨rfl, g1, g2, rfl⟩ := h
    | obtain ⟨rfl, g1, rfl⟩ := h
    | obtain ⟨rfl, rfl⟩ := h)
  all_goals (constructor <;> simp_all [Core.store, Core.notify] <;> (try split) <;> simp_all <;> (try omega))

/-- the reader's position is compatible with an active close being in charge. -/
def RA (c : Core) : Prop :=
  c.reader = .idle ∨ c.reader = .loop ∨ c.reader = .disc0 ∨ c.reader = .done ∨
  (c.reader = .loaded ∧ (c.rst = .ok ∨ c.rst = .activeClosing ∨ c.rst = .activeClosed)) ∨
  (c.reader = .hubdel ∧ c.rst = .activeClosing)

/-- invariant of the race-free schedules: exactly one close path is in charge. -/
def RInv (c : Core) : Prop :=
  c.left = false ∧
  match c.st with
  | .preparing => c.closer = .idle ∧ c.reader = .idle ∧ c.discCnt = 0 ∧ c.ph ≠ .running
  | .ok => c.closer = .idle ∧ c.discCnt = 0 ∧ c.ph = .running ∧
      (c.reader = .idle ∨ c.reader = .loop ∨ c.reader = .disc0 ∨ (c.reader = .loaded ∧ c.rst = .ok))
  | .activeClosing =>
      (c.closer = .hubdel ∨ c.closer = .notify ∨ c.closer = .callwait ∨ c.closer = .store) ∧
      c.discCnt = 0 ∧ (c.ph = .rejected ∨ c.ph = .running) ∧ RA c
  | .activeClosed =>
      (((c.closer = .sock ∨ c.closer = .hook) ∧ c.discCnt = 0) ∨ (c.closer = .idle ∧ c.discCnt = 1)) ∧
      (c.ph = .rejected ∨ c.ph = .running) ∧ RA c
  | .passiveClosing =>
      c.closer = .idle ∧ c.discCnt = 0 ∧ (c.reader = .hubdel ∨ c.reader = .sock ∨ c.reader = .closed) ∧ c.rst = .ok
  | .passiveClosed =>
      c.closer = .idle ∧ ((c.reader = .notify ∧ c.discCnt = 0) ∨ (c.reader = .hook ∧ c.discCnt = 0) ∨
        (c.reader = .done ∧ c.discCnt = 1))
  | _ => False

theorem rinv_init : RInv Core.init := by simp [RInv, Core.init]

theorem rinv_step {c c' : Core} {e : LEv} (h : lstep c e = some c') (hr : racy c e = false)
    (hs : SInv c) (hi : RInv c) : RInv c' := by
  have hrun := hs.readerRunning
  have hpc := hs.pcRunning
  clear hs
  lstep_split h
  all_goals (
    first
    | obtain ⟨rfl, g1, g2, g3, g4, rfl⟩ := h
    | obtain ⟨rfl, g1, g2, g3, rfl⟩ := h
    | obtain ⟨rfl, g1, g2, rfl⟩ := h
    | obtain ⟨rfl, g1, rfl⟩ := h
    | obtain ⟨rfl, rfl⟩ := h)
  all_goals (
    obtain ⟨ph, st, closer, reader, rst, dn, nc, dc, sc, eof, hd, lf⟩ := c
    cases st <;> cases dn <;> simp_all [RInv, RA, racy, Core.store, Core.notify, Status.isClosed] <;>
      (try (cases ph <;> simp_all <;> done)) <;> (try (cases reader <;> simp_all <;> done)))


/-! ### closures -/

theorem lreach_sinv {rf : Bool} {a c : Core} (r : LReach rf a c) (hs : SInv a) : SInv c := by
  induction r with
  | refl => exact hs
  | step e _ _ h ih => exact sinv_step h ih

theorem lreach_rinv {a c : Core} (r : LReach true a c) (hs : SInv a) (hi : RInv a) : RInv c := by
  induction r with
  | refl => exact hi
  | step e r hr h ih => exact rinv_step h (hr rfl) (lreach_sinv r hs) ih

theorem lreach_weaken {rf : Bool} {a c : Core} (r : LReach rf a c) : LReach false a c := by
  induction r with
  | refl => exact .refl _
  | step e _ _ h ih => exact .step e ih (fun h => by cases h) h

/-! ## any number of sessions: every world step is, for each session, a chain of `lstep`s -/

/-- every session's lifecycle component is reachable from `newSession` by `lstep`s. -/
@[reducible] def Good (rf : Bool) (w : World) : Prop :=
  ∀ (j : Nat) (s : Sess), w.sess[j]? = some s → LReach rf Core.init s.core

theorem good_empty (rf : Bool) : Good rf World.empty := by
  intro j s h; simp [World.empty] at h

theorem good_modify {rf : Bool} {w w' : World} {j : Nat} {f : Sess → Sess}
    (h : w.modify j f = some w') (hf : ∀ s, (f s).core = s.core) (hg : Good rf w) : Good rf w' := by
  unfold World.modify at h
  cases hs : w.sess[j]? with
  | none => simp [hs] at h
  | some s =>
    simp only [hs, Option.some.injEq] at h
    subst h
    intro k t hk
    simp only [List.getElem?_set] at hk
    split at hk
    · split at hk
      · simp only [Option.some.injEq] at hk; subst hk; rw [hf]; exact hg j s hs
      · cases hk
    · exact hg k t hk

theorem good_applyPrim {rf : Bool} {w w' : World} {p : Prim}
    (h : applyPrim rf w p = some w') (hg : Good rf w) : Good rf w' := by
  cases p with
  | core j e =>
    simp only [applyPrim] at h
    cases hs : w.sess[j]? with
    | none => simp [hs] at h
    | some s =>
      simp only [hs] at h
      split at h
      · cases h
      · rename_i hrf
        cases hl : lstep s.core e with
        | none => simp [hl] at h
        | some c =>
          simp only [hl, Option.some.injEq] at h
          subst h
          intro k t hk
          simp only [List.getElem?_set] at hk
          split at hk
          · split at hk
            · simp only [Option.some.injEq] at hk; subst hk
              refine .step e (hg j s hs) (fun hr => ?_) hl
              subst hr
              simpa using hrf
            · cases hk
          · exact hg k t hk
  | acc j q => simp only [applyPrim] at h; exact good_modify h (fun _ => rfl) hg
  | sid j q => simp only [applyPrim] at h; exact good_modify h (fun _ => rfl) hg
  | id j v => simp only [applyPrim] at h; exact good_modify h (fun _ => rfl) hg
  | put k v => simp only [applyPrim, Option.some.injEq] at h; subst h; exact hg
  | del k => simp only [applyPrim, Option.some.injEq] at h; subst h; exact hg
  | new peer partner id path =>
    simp only [applyPrim, Option.some.injEq] at h
    subst h
    intro k t hk
    simp only [List.getElem?_append] at hk
    split at hk
    · exact hg k t hk
    · rename_i hlt
      cases hd : k - w.sess.length with
      | zero => simp [hd] at hk; subst hk; exact .refl _
      | succ n => simp [hd] at hk

theorem good_applyPrims {rf : Bool} {ps : List Prim} {w w' : World}
    (h : applyPrims rf w ps = some w') (hg : Good rf w) : Good rf w' := by
  induction ps generalizing w with
  | nil => simp only [applyPrims, Option.some.injEq] at h; subst h; exact hg
  | cons p ps ih =>
    simp only [applyPrims] at h
    cases hp : applyPrim rf w p with
    | none => simp [hp] at h
    | some w1 =>
      simp only [hp, Option.bind_some] at h
      exact ih h (good_applyPrim hp hg)

theorem good_step {rf : Bool} {w w' : World} {ev : Ev} (h : stepG rf w ev = some w') (hg : Good rf w) :
    Good rf w' := by
  unfold stepG at h
  cases hp : plan w ev with
  | none => simp [hp] at h
  | some ps => simp only [hp, Option.bind_some] at h; exact good_applyPrims h hg

theorem good_reach {rf : Bool} {a w : World} (r : Reach rf a w) (hg : Good rf a) : Good rf w := by
  induction r with
  | refl => exact hg
  | step ev _ h ih => exact good_step h ih


theorem good_of_reach {rf : Bool} {w : World} (r : Reach rf World.empty w) : Good rf w :=
  good_reach r (good_empty rf)

theorem reach_of_run_aux {evs : List Ev} {a : World} :
    ∀ (x b : World), Reach false a x → run x evs = some b → Reach false a b := by
  induction evs with
  | nil => intro x b r hx; simp only [run, Option.some.injEq] at hx; subst hx; exact r
  | cons e es ih =>
    intro x b r hx
    simp only [run] at hx
    cases hs : step x e with
    | none => simp [hs] at hx
    | some y =>
      simp only [hs, Option.bind_some] at hx
      exact ih y b (Reach.step e r hs) hx

theorem reach_of_run {evs : List Ev} {a b : World} (h : run a evs = some b) : Reach false a b :=
  reach_of_run_aux a b (.refl a) h

/-- every session of a reachable world went from `newSession` through `lstep`s only. -/
theorem sess_reach {rf : Bool} {w : World} (r : Reach rf World.empty w) {s : Sess} (hs : s ∈ w.sess) :
    LReach rf Core.init s.core := by
  obtain ⟨j, hj⟩ := List.mem_iff_getElem?.1 hs
  exact good_of_reach r j s hj


/-- hook counts under the race-free invariant. -/
theorem rinv_disc {c : Core} (hi : RInv c) :
    c.discCnt ≤ 1 ∧ ((c.st = .ok ∨ c.st = .preparing) → c.discCnt = 0) ∧
    (c.st.isClosed = true → c.quiet = true → c.discCnt = 1) := by
  obtain ⟨ph, st, closer, reader, rst, dn, nc, dc, sc, eof, hd, lf⟩ := c
  cases st <;> simp_all [RInv, RA, Core.quiet, Status.isClosed]
  · obtain ⟨_, h | h, _, _⟩ := hi
    · exact ⟨by omega, fun hc _ => by rcases h.1 with e | e <;> rw [e] at hc <;> cases hc⟩
    · exact ⟨by omega, fun _ _ => h.2⟩
  · obtain ⟨_, _, h | h | h⟩ := hi
    · exact ⟨by omega, fun hq => by rw [h.1] at hq; simp at hq⟩
    · exact ⟨by omega, fun hq => by rw [h.1] at hq; simp at hq⟩
    · exact ⟨by omega, fun _ => h.2⟩


/-- the ghost `left` is sound: a step that changes a closed status sets it. -/
theorem left_sound {c c' : Core} {e : LEv} (h : lstep c e = some c') (hc : c.st.isClosed = true)
    (hne : c'.st ≠ c.st) : c'.left = true := by
  lstep_split h
  all_goals (
    first
    | obtain ⟨rfl, g1, g2, g3, g4, rfl⟩ := h
    | obtain ⟨rfl, g1, g2, g3, rfl⟩ := h
    | obtain ⟨rfl, g1, g2, rfl⟩ := h
    | obtain ⟨rfl, g1, rfl⟩ := h
    | obtain ⟨rfl, rfl⟩ := h)
  all_goals (
    obtain ⟨ph, st, closer, reader, rst, dn, nc, dc, sc, eof, hd, lf⟩ := c
    cases st <;> simp_all [Core.store, Core.notify, Status.isClosed] <;> (try (split at hne <;> simp_all)))

/-- the ghost never resets. -/
theorem left_mono {c c' : Core} {e : LEv} (h : lstep c e = some c') (hl : c.left = true) : c'.left = true := by
  lstep_split h
  all_goals (
    first
    | obtain ⟨rfl, g1, g2, g3, g4, rfl⟩ := h
    | obtain ⟨rfl, g1, g2, g3, rfl⟩ := h
    | obtain ⟨rfl, g1, g2, rfl⟩ := h
    | obtain ⟨rfl, g1, rfl⟩ := h
    | obtain ⟨rfl, rfl⟩ := h)
  all_goals (simp_all [Core.store, Core.notify] <;> (try split) <;> simp_all)

/-! ## the index alone -/

namespace AL
variable {κ : Type} [DecidableEq κ]

theorem get_put_same (h : AL κ) (k : κ) (v : Nat) : (h.put k v).get k = some v := by
  induction h with
  | nil => simp [put, get]
  | cons p t ih =>
    obtain ⟨k', v'⟩ := p
    by_cases hk : k' = k <;> simp [put, get, hk, ih]

theorem get_put_ne (h : AL κ) {k k' : κ} (v : Nat) (hne : k' ≠ k) : (h.put k v).get k' = h.get k' := by
  induction h with
  | nil => simp [put, get, Ne.symm hne]
  | cons p t ih =>
    obtain ⟨k2, v2⟩ := p
    by_cases hk : k2 = k
    · subst hk; simp [put, get, Ne.symm hne]
    · by_cases hk' : k2 = k'
      · subst hk'; simp [put, get, hk]
      · simp [put, get, hk, hk', ih]

theorem get_del_same (h : AL κ) (k : κ) : (h.del k).get k = none := by
  induction h with
  | nil => simp [del, get]
  | cons p t ih =>
    obtain ⟨k', v'⟩ := p
    by_cases hk : k' = k <;> simp [del, get, hk, ih]

theorem get_del_ne (h : AL κ) {k k' : κ} (hne : k' ≠ k) : (h.del k).get k' = h.get k' := by
  induction h with
  | nil => simp [del, get]
  | cons p t ih =>
    obtain ⟨k2, v2⟩ := p
    by_cases hk : k2 = k
    · subst hk; simp [del, get, Ne.symm hne, ih]
    · by_cases hk' : k2 = k'
      · subst hk'; simp [del, get, hk]
      · simp [del, get, hk, hk', ih]

theorem put_get_same (h : AL κ) {k : κ} {v : Nat} (hg : h.get k = some v) : h.put k v = h := by
  induction h with
  | nil => simp [get] at hg
  | cons p t ih =>
    obtain ⟨k', v'⟩ := p
    by_cases hk : k' = k
    · subst hk; simp [get] at hg; simp [put, hg]
    · simp [get, hk] at hg; simp [put, hk, ih hg]

end AL

/-- exact except that session `x` (if any) is missing from the index. -/
def HSt.ExB (h : HSt) (x : Option Nat) : Prop :=
  ∀ k t, h.hub.get k = some t ↔ (t < h.n ∧ h.live t = true ∧ h.idOf t = k ∧ some t ≠ x)

theorem exact_iff_exb (h : HSt) : h.Exact ↔ h.ExB none := by
  simp [HSt.Exact, HSt.ExB]

/-- `Close()` / disconnect of any session keeps an exact index exact. -/
theorem kill_exact {h : HSt} (s : Nat) (hs : s < h.n) (he : h.Exact) : (h.kill s).Exact := by
  unfold HSt.kill
  by_cases hl : h.live s = true
  · simp only [hl, if_true]
    intro k t
    simp only
    by_cases hk : k = h.idOf s
    · subst hk
      rw [AL.get_del_same]
      constructor
      · intro hc; cases hc
      · rintro ⟨h1, h2, h3⟩
        by_cases hts : t = s
        · simp [hts] at h2
        · simp only [hts, if_false] at h2
          have a := (he (h.idOf s) t).2 ⟨h1, h2, h3⟩
          have c := (he (h.idOf s) s).2 ⟨hs, hl, rfl⟩
          rw [a] at c; cases c; exact absurd rfl hts
    · rw [AL.get_del_ne _ hk]
      constructor
      · intro hg
        have := (he k t).1 hg
        refine ⟨this.1, ?_, this.2.2⟩
        by_cases hts : t = s
        · subst hts; exact absurd this.2.2.symm hk
        · simp [hts, this.2.1]
      · rintro ⟨h1, h2, h3⟩
        by_cases hts : t = s
        · simp [hts] at h2
        · simp only [hts, if_false] at h2
          exact (he k t).2 ⟨h1, h2, h3⟩
  · simp only [hl]
    exact he


/-- `hub.set(s)` when no other live session holds the id and `s` is not yet indexed. -/
theorem set_fresh {h : HSt} {s : Nat} (hs : s < h.n) (hl : h.live s = true) (hx : h.ExB (some s))
    (hf : ∀ t, t < h.n → t ≠ s → h.live t = true → h.idOf t ≠ h.idOf s) :
    (h.set s).Exact ∧ (h.set s).n = h.n ∧ (h.set s).idOf = h.idOf ∧ (h.set s).live = h.live := by
  have hnone : h.hub.get (h.idOf s) = none := by
    cases hg : h.hub.get (h.idOf s) with
    | none => rfl
    | some t =>
      have := (hx _ t).1 hg
      exact absurd this.2.2.1 (hf t this.1 (by intro e; exact this.2.2.2 (by rw [e])) this.2.1)
  unfold HSt.set
  simp only [hnone]
  refine ⟨?_, by trivial, by trivial, by trivial⟩
  intro k t
  simp only
  by_cases hk : k = h.idOf s
  · subst hk
    rw [AL.get_put_same]
    constructor
    · intro e; cases e; exact ⟨hs, hl, rfl⟩
    · rintro ⟨h1, h2, h3⟩
      by_cases hts : t = s
      · rw [hts]
      · exact absurd h3 (hf t h1 hts h2)
  · rw [AL.get_put_ne _ _ hk]
    constructor
    · intro hg
      have := (hx k t).1 hg
      exact ⟨this.1, this.2.1, this.2.2.1⟩
    · rintro ⟨h1, h2, h3⟩
      refine (hx k t).2 ⟨h1, h2, h3, ?_⟩
      intro e; cases e; exact hk h3.symm

/-- `hub.set(s)` of a session that is already indexed under its id changes nothing. -/
theorem set_idem {h : HSt} {s : Nat} (hs : s < h.n) (hl : h.live s = true) (he : h.Exact) :
    h.set s = h := by
  have hg : h.hub.get (h.idOf s) = some s := (he _ s).2 ⟨hs, hl, rfl⟩
  unfold HSt.set
  simp only [hg, if_true, AL.put_get_same _ hg]

/-- closing a session that is not indexed, when nobody else holds its id. -/
theorem kill_excluded {h : HSt} {s : Nat} (hl : h.live s = true) (hx : h.ExB (some s))
    (hold : ∀ t, t < h.n → t ≠ s → h.live t = true → h.idOf t ≠ h.idOf s) : (h.kill s).Exact := by
  unfold HSt.kill
  simp only [hl, if_true]
  intro k t
  simp only
  by_cases hk : k = h.idOf s
  · subst hk
    rw [AL.get_del_same]
    constructor
    · intro e; cases e
    · rintro ⟨h1, h2, h3⟩
      by_cases hts : t = s
      · simp [hts] at h2
      · simp only [hts, if_false] at h2
        exact absurd h3 (hold t h1 hts h2)
  · rw [AL.get_del_ne _ hk]
    constructor
    · intro hg
      have := (hx k t).1 hg
      have hts : t ≠ s := by intro e; exact this.2.2.2 (by rw [e])
      exact ⟨this.1, by simp [hts, this.2.1], this.2.2.1⟩
    · rintro ⟨h1, h2, h3⟩
      by_cases hts : t = s
      · simp [hts] at h2
      · simp only [hts, if_false] at h2
        exact (hx k t).2 ⟨h1, h2, h3, by intro e; cases e; exact hts rfl⟩

/-- `SetID(v)` to an id nobody holds, on a live session that is indexed (`x = none`) or not yet
    indexed (`x = some s`, accept hook) and whose old id nobody else holds. -/
theorem setID_fresh {h : HSt} {s v : Nat} {x : Option Nat} (hxs : x = none ∨ x = some s)
    (hs : s < h.n) (hl : h.live s = true) (hx : h.ExB x) (hne : h.idOf s ≠ v)
    (hold : ∀ t, t < h.n → t ≠ s → h.live t = true → h.idOf t ≠ h.idOf s)
    (hf : ∀ t, t < h.n → t ≠ s → h.live t = true → h.idOf t ≠ v) :
    (h.setID s v).Exact ∧ (h.setID s v).n = h.n ∧ (h.setID s v).live = h.live ∧
      (h.setID s v).idOf = fun y => if y = s then v else h.idOf y := by
  have hxt : ∀ t, t ≠ s → some t ≠ x := by
    intro t ht e
    rcases hxs with r | r
    · rw [r] at e; cases e
    · rw [r] at e; cases e; exact ht rfl
  have hnone : h.hub.get v = none := by
    cases hg : h.hub.get v with
    | none => rfl
    | some t =>
      have := (hx _ t).1 hg
      have hts : t ≠ s := by intro e; rw [e] at this; exact hne this.2.2.1
      exact absurd this.2.2.1 (hf t this.1 hts this.2.1)
  unfold HSt.setID
  simp only [hne, if_false]
  unfold HSt.set
  simp only [if_true, hnone]
  refine ⟨?_, by trivial, by trivial, by trivial⟩
  intro k t
  simp only
  by_cases hko : k = h.idOf s
  · subst hko
    rw [AL.get_del_same]
    constructor
    · intro e; cases e
    · rintro ⟨h1, h2, h3⟩
      by_cases hts : t = s
      · subst hts; simp only [if_true] at h3; exact absurd h3.symm hne
      · simp only [hts, if_false] at h3
        exact absurd h3 (hold t h1 hts h2)
  · rw [AL.get_del_ne _ hko]
    by_cases hkv : k = v
    · subst hkv
      rw [AL.get_put_same]
      constructor
      · intro e; cases e; exact ⟨hs, hl, by simp⟩
      · rintro ⟨h1, h2, h3⟩
        by_cases hts : t = s
        · rw [hts]
        · simp only [hts, if_false] at h3
          exact absurd h3 (hf t h1 hts h2)
    · rw [AL.get_put_ne _ _ hkv]
      constructor
      · intro hg
        have := (hx k t).1 hg
        have hts : t ≠ s := by intro e; rw [e] at this; exact hko this.2.2.1.symm
        exact ⟨this.1, this.2.1, by simp [hts, this.2.2.1]⟩
      · rintro ⟨h1, h2, h3⟩
        by_cases hts : t = s
        · subst hts; simp only [if_true] at h3; exact absurd h3.symm hkv
        · simp only [hts, if_false] at h3
          exact (hx k t).2 ⟨h1, h2, h3, hxt t hts⟩

/-- in an exact index the holder of an id is unique. -/
theorem exact_unique {h : HSt} (he : h.Exact) {s t : Nat} (hs : s < h.n) (ht : t < h.n)
    (ls : h.live s = true) (lt : h.live t = true) (e : h.idOf t = h.idOf s) : t = s := by
  have a := (he (h.idOf s) s).2 ⟨hs, ls, rfl⟩
  have b := (he (h.idOf s) t).2 ⟨ht, lt, e⟩
  rw [a] at b; cases b; rfl

theorem apply_exact {h : HSt} {o : HOp} (he : h.Exact) (hn : h.noShare o) : (h.apply o).Exact := by
  cases o with
  | close s =>
    simp only [HSt.apply]
    split
    · exact kill_exact s (by assumption) he
    · exact he
  | disconnect s =>
    simp only [HSt.apply]
    split
    · exact kill_exact s (by assumption) he
    · exact he
  | setID s v =>
    simp only [HSt.apply]
    split
    · rename_i hs
      obtain ⟨hl, hf⟩ := hn hs
      by_cases hne : h.idOf s = v
      · simp only [HSt.setID, hne, if_true]; exact he
      · exact (setID_fresh (x := none) (.inl rfl) hs hl ((exact_iff_exb h).1 he) hne
          (fun t ht hts lt e => hts (exact_unique he hs ht hl lt e)) hf).1
    · exact he
  | accept id hook rej =>
    obtain ⟨hid, hhook⟩ := hn
    simp only [HSt.apply]
    -- the state after `newSession`: exact except for the new session
    let h1 : HSt := { h with n := h.n + 1, idOf := fun x => if x = h.n then id else h.idOf x,
                              live := fun x => if x = h.n then true else h.live x }
    have hx1 : h1.ExB (some h.n) := by
      intro k t
      show h.hub.get k = some t ↔ _
      constructor
      · intro hg
        have := (he k t).1 hg
        have htn : t ≠ h.n := Nat.ne_of_lt this.1
        refine ⟨Nat.lt_succ_of_lt this.1, by simp [h1, htn, this.2.1], by simp [h1, htn, this.2.2], ?_⟩
        intro e; cases e; exact htn rfl
      · rintro ⟨a, b, c, d⟩
        have htn : t ≠ h.n := by intro e; exact d (by rw [e])
        have hlt : t < h.n := by
          have : t < h.n + 1 := a
          omega
        simp only [h1, htn, if_false] at b c
        exact (he k t).2 ⟨hlt, b, c⟩
    have hs1 : h.n < h1.n := Nat.lt_succ_self _
    have hl1 : h1.live h.n = true := by simp [h1]
    have hid1 : h1.idOf h.n = id := by simp [h1]
    have fresh1 : ∀ w, (∀ t, t < h.n → h.live t = true → h.idOf t ≠ w) →
        ∀ t, t < h1.n → t ≠ h.n → h1.live t = true → h1.idOf t ≠ w := by
      intro w hw t a b c
      have hlt : t < h.n := by
        have : t < h.n + 1 := a
        omega
      simp only [h1, b, if_false] at c ⊢
      exact hw t hlt c
    have hold1 := fresh1 id hid
    show HSt.Exact (if rej = true then
      (match hook with | some v => h1.setID h.n v | none => h1).kill h.n
      else (match hook with | some v => h1.setID h.n v | none => h1).set h.n)
    cases hook with
    | none =>
      simp only
      cases rej with
      | true => simp only [if_true]; exact kill_excluded hl1 hx1 (by rw [hid1]; exact hold1)
      | false =>
        simp only [Bool.false_eq_true, if_false]
        exact (set_fresh hs1 hl1 hx1 (by rw [hid1]; exact hold1)).1
    | some v =>
      simp only
      by_cases hne : h1.idOf h.n = v
      · have e : h1.setID h.n v = h1 := by simp [HSt.setID, hne]
        rw [e]
        cases rej with
        | true => simp only [if_true]; exact kill_excluded hl1 hx1 (by rw [hid1]; exact hold1)
        | false =>
          simp only [Bool.false_eq_true, if_false]
          exact (set_fresh hs1 hl1 hx1 (by rw [hid1]; exact hold1)).1
      · have r := setID_fresh (x := some h.n) (.inr rfl) hs1 hl1 hx1 hne (by rw [hid1]; exact hold1)
          (fresh1 v (hhook v rfl))
        obtain ⟨r1, r2, r3, r4⟩ := r
        cases rej with
        | true => simp only [if_true]; exact kill_exact _ (by rw [r2]; exact hs1) r1
        | false =>
          simp only [Bool.false_eq_true, if_false]
          rw [set_idem (by rw [r2]; exact hs1) (by rw [r3]; exact hl1) r1]
          exact r1


theorem run_exact {ops : List HOp} {h : HSt} (he : h.Exact) (hn : h.noShareRun ops) : (h.run ops).Exact := by
  induction ops generalizing h with
  | nil => exact he
  | cons o os ih => exact ih (apply_exact he hn.1) hn.2

/-- a newer session taking over an id (plain `ServeConn`): the older session's close path deletes
    the newer session's index entry. -/
theorem accept_collision_breaks {h : HSt} {id t : Nat} (he : h.Exact) (ht : t < h.n)
    (lt : h.live t = true) (hid : h.idOf t = id) :
    let h' := h.apply (.accept id none false)
    h'.live h.n = true ∧ h'.idOf h.n = id ∧ h.n < h'.n ∧ h'.hub.get id = none := by
  have hg : h.hub.get id = some t := (he id t).2 ⟨ht, lt, hid⟩
  have htn : t ≠ h.n := Nat.ne_of_lt ht
  simp only [HSt.apply, HSt.set, if_true, hg, htn, if_false, HSt.kill, lt, hid]
  refine ⟨by simp [Ne.symm htn], by simp, by simp, ?_⟩
  exact AL.get_del_same _ _

/-- `SetID` to the id of another live session: the re-keyed session ends up outside the index. -/
theorem setID_collision_breaks {h : HSt} {s t v : Nat} (he : h.Exact) (hs : s < h.n) (ht : t < h.n)
    (hst : t ≠ s) (ls : h.live s = true) (lt : h.live t = true) (hv : h.idOf t = v) (hne : h.idOf s ≠ v) :
    let h' := h.apply (.setID s v)
    h'.live s = true ∧ h'.idOf s = v ∧ h'.n = h.n ∧ h'.hub.get v = none := by
  have hg : h.hub.get v = some t := (he v t).2 ⟨ht, lt, hv⟩
  simp only [HSt.apply, hs, if_true, HSt.setID, hne, if_false, HSt.set, hg, hst, HSt.kill, lt, hv]
  refine ⟨by simp [Ne.symm hst, ls], by simp, by simp, ?_⟩
  rw [AL.get_del_ne _ (Ne.symm hne)]
  exact AL.get_del_same _ _


end Teleport.Lifecycle
