import Teleport.Drv.Util
import Teleport.Model.Proxy
namespace Teleport.Drv
open Teleport Teleport.Proxy

namespace C19

/-- `k:v;k:v` with hex halves (the `;` form used inside C19 records). -/
def showMd (l : Md) : String :=
  if l.isEmpty then "-" else ";".intercalate (l.map (fun (k, v) => hexOr k ++ ":" ++ hexOr v))

/-- canonical form of a status: hex of its query encoding (`(*Status).EncodeQuery`). -/
def showStat (s : Status) : String := hexOr s.encode

def showResp (r : Resp) : String :=
  s!"b={hexOr r.body},c={r.codec.toNat},st={showStat r.st},md={showMd r.rmd}"

def showSeen (r : Req) : String :=
  s!"m={hexOr r.method},b={hexOr r.body},c={r.codec.toNat},md={showMd r.md},rip={hexOr (realIPOf r)},ip={hexOr r.caller}"

def showSeens (l : List Req) : String :=
  if l.isEmpty then "none" else "+".intercalate (l.map showSeen)

structure Script where
  st : Status
  rm : Md
  rc : UInt8
  xf : Nat

/-- the body transforms of the harness backend. -/
def xform (xf : Nat) (r : Req) : Bytes :=
  match xf with
  | 1 => r.body.reverse
  | 2 => r.method ++ [0] ++ r.body
  | 3 => r.codec :: r.body
  | 4 => []
  | 5 => realIPOf r
  | _ => r.body

def scripted (s : Script) : Req → BOut := fun r => ⟨xform s.xf r, s.st, s.rm, s.rc⟩

structure Case where
  req : Req
  cfg : Cfg
  scr : Script
  ops : List String

def parse (f : Fields) : Option Case := do
  let m ← f.hex "m"
  let b ← f.hex "b"
  let c ← f.nat "c"
  let md ← (f.get "md").bind parseKVs
  let ca ← f.hex "ca"
  let pa ← f.hex "pa"
  let d ← f.nat "d"
  let sc ← f.int "sc"
  let sm ← f.hex "sm"
  let sk ← f.get "sk"
  let cause ← if sk == "nil" then some none else (ofHex sk).map some
  let rm ← (f.get "rm").bind parseKVs
  let rc ← f.nat "rc"
  let xf ← f.nat "xf"
  let reg ← f.hex "reg"
  let ops := match f.get "ops" with
    | some o => o.splitOn ","
    | none => []
  pure ⟨⟨m, b, c.toUInt8, md, ca⟩, ⟨d.toUInt8, pa, reg⟩, ⟨⟨sc, sm, cause⟩, rm, rc.toUInt8, xf⟩, ops⟩

def showLabel (req : Req) : String :=
  let (a, b, c) := label req
  s!"{hexOr a},{hexOr b},{hexOr c}"

def pxcall (f : Fields) : String :=
  match parse f with
  | none => "bad-case"
  | some c =>
    let be := scripted c.scr
    let d := direct c.cfg.reg be c.req
    let p := viaProxy c.cfg be .up World.init c.req
    let lab := if p.seen.isEmpty then "none" else showLabel c.req
    s!"D[{showResp d.resp}] DB[{showSeens d.seen}] P[{showResp p.resp}] PB[{showSeens p.seen}] L[{lab}]"

def pxpush (f : Fields) : String :=
  match parse f with
  | none => "bad-case"
  | some c =>
    let dSeen := if c.req.method.isEmpty then [] else [c.req]
    let p := viaProxyPush c.cfg .up World.init c.req
    s!"S[0,0] DB[{showSeens dSeen}] PB[{showSeens p.seen}]"

/-- `{"a":"b"}` -/
def typedBody : Bytes := [123, 34, 97, 34, 58, 34, 98, 34, 125]
/-- "/c19_typed" -/
def typedMethod : Bytes := [47, 99, 49, 57, 95, 116, 121, 112, 101, 100]

/-- the typed backend handler: decodes with the request codec (only json can read the argument). -/
def typedBackend : Req → BOut := fun r =>
  if r.codec = 106 then ⟨r.body, Status.zero, [], 0⟩ else ⟨[], ⟨400, sBadMessage, none⟩, [], 0⟩

def pxtyped (f : Fields) : String :=
  match parse f with
  | none => "bad-case"
  | some c =>
    let req : Req := { c.req with method := typedMethod, body := typedBody, codec := 106, md := [] }
    let d := direct c.cfg.reg typedBackend req
    let p := viaProxy c.cfg typedBackend .up World.init req
    s!"D[{d.resp.st.code},{hexOr d.resp.body}] P[{p.resp.st.code},{hexOr p.resp.body}]"

def pxown (f : Fields) : String :=
  match parse f with
  | none => "bad-case"
  | some c => s!"P[0,{hexOr ([111, 119, 110, 58] ++ c.req.body)}] n=0"

structure Sys where
  w   : World
  aUp : Bool

def failOp (c : Case) (s : Sys) (op : String) : Option (Sys × String) :=
  let be := scripted c.scr
  match op with
  | "x" => some (s, s!"x:{showStat (closedCall s.w)}")
  | "k" => some ({ s with aUp := false }, "k")
  | "r" => some ({ s with aUp := true }, "r")
  | "p" =>
    let link := if s.aUp then Link.up else Link.down
    let p := viaProxyPush c.cfg link s.w c.req
    -- f = code of the status object the forwarder returned, at return time > after the plugin's
    -- handler finished (S: it is the shared sentinel); H = status the plugin's push handler returned
    let fwd := if c.req.method.isEmpty then "none"
      else match forwardPush link with
        | none => "0>0"
        | some r => s!"{(r.get s.w).code}>{(r.get p.world).code}S"
    let h := if c.req.method.isEmpty then "none" else showStat p.st
    let whn := if s.aUp then "up" else "before"
    some ({ s with w := p.world }, s!"p:{whn}:n={p.seen.length}:f={fwd}:H[{h}]:S[0]")
  | "c" | "d" | "b" =>
    let link := if op == "b" then Link.up else if !s.aUp then Link.down else if op == "d" then Link.cut else Link.up
    let p := viaProxy c.cfg be link s.w c.req
    let f := forwardCall c.cfg be link (fwdReq c.cfg c.req)
    -- the status object the forwarder returned: its code at return time > after the plugin ran
    let c0 := (f.stat.get s.w).code
    let c1 := (f.stat.get p.world).code
    let isShared := match f.stat with | .shared => "S" | _ => ""
    let fwd := if c.req.method.isEmpty then "none" else s!"{c0}>{c1}{isShared}"
    let whn := match link with | .up => "up" | .down => "before" | .cut => "during"
    let up' := if link == Link.cut then false else s.aUp
    some (⟨p.world, up'⟩, s!"{op}:{whn}:n={p.seen.length}:f={fwd}:P[{showResp p.resp}]")
  | _ => none

def failRun (c : Case) (s : Sys) : List String → List String → String
  | [], acc => " ".intercalate (s!"end:{showStat s.w.connClosed}" :: acc).reverse
  | op :: rest, acc =>
    match failOp c s op with
    | none => "bad-op " ++ op
    | some (s', o) => failRun c s' rest (o :: acc)

def pxfail (f : Fields) : String :=
  match parse f with
  | none => "bad-case"
  | some c => failRun c ⟨World.init, true⟩ c.ops []

end C19

def handlersC19 : List (String × (Fields → String)) :=
  [("pxcall", C19.pxcall), ("pxpush", C19.pxpush), ("pxtyped", C19.pxtyped), ("pxown", C19.pxown),
   ("pxfail", C19.pxfail)]

end Teleport.Drv
