#!/bin/sh
# Offline setup: build the Lean project (all property modules + the model driver) and the Go tools.
set -e
cd "$(dirname "$0")"
export GOFLAGS=-mod=mod GOPROXY=off GOSUMDB=off GOTOOLCHAIN=local
REPO="${VERIF_REPO:-/repo}"
mkdir -p .work/bin evidence
[ -f harness/go.sum ] || cp "$REPO/go.sum" harness/go.sum
(cd harness && if [ -d cmd/srcfacts ]; then go build -o ../.work/bin/srcfacts ./cmd/srcfacts && ../.work/bin/srcfacts -repo "$REPO" -out ../lean/Teleport/Gen; fi)
(cd lean && lake build Teleport driver)
if [ "$REPO" = "/repo" ]; then (cd harness && go build -tags verif -o ../.work/bin/conform ./cmd/conform); fi
echo setup-ok
