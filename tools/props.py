"""Per-property configuration of the checks (runner name in the Go harness, Lean modules that hold
the property theorems, evidence texts)."""

COMMON_TRUSTED = [
    "Lean 4.33.0 kernel; axioms allowed in property theorems: propext, Classical.choice, Quot.sound (audited by #print axioms on every run; no sorry/admit/native_decide/bv_decide/own axioms - text gate)",
    "tools/vcheck.py orchestration, the Go conformance harness (harness/cmd/conform), canonicalisation and diff",
    "srcfacts (harness/cmd/srcfacts): syntactic go/ast fact extractor, fails closed",
    "Go toolchain, runtime and standard library as the environment of the real code",
]

PROPS = {
    "C05": {
        "runner": "c05",
        "modules": ["Teleport.Props.C05"],
        "rule": "cases drawn from VERIF_SEED by a type-directed message generator (every byte value in method/meta/status/body, lengths 0/1/255/256 boundaries, extreme seqs, pipes over three non-commuting test filters) plus mutated/truncated/random frames and back-to-back streams under 4 chunking modes; distinct = distinct case line; non-trivial = pack case with metadata, pipe or non-zero status, any stream case, any unpack case longer than the length prefix",
        "assumptions": [
            "model of rawProto/Args/Status/bytesconv is hand-written; tied to the code by byte-exact pack comparison and field-exact unpack comparison on every generated case",
            "io.ReadFull/bufio deliver the stream independent of chunking (stdlib; exercised with 4 chunking modes)",
            "strconv.FormatInt/ParseInt modelled (Model/Num) and compared on every case",
            "non-raw protocols: third-party serializers (gjson, protobuf, thrift, net/http) are not modelled",
        ],
        "trusted": ["Model/Bytes, Model/Num, Model/Args, Model/Status, Model/Xfer, Model/RawProto are hand-written models of utils/bytesconv.go, strconv, utils/args.go, goutil status, xfer/xfer.go, socket/protocol.go"],
        "explanation": "theorems quantify over all messages/byte strings/frame sequences; the numbers below are the correspondence sample that ties the model to the code on this run",
    },
    "C10": {
        "runner": "c10",
        "modules": ["Teleport.Props.C10"],
        "rule": "map cases: the 16 documented rows plus identifiers drawn from VERIF_SEED over [A-Za-z0-9_] (runs of '_', leading/trailing '_', acronyms, digits) with prefixes from a pool ('', '/', 'a/b', '/x/', 'x//y', '..', 'a.b', ...), both mappers; hist cases: random schedules of nested SubRoute groups, Route*/Route*Func registrations of a fixed bank of 23 controller structs and 19 handler functions (names chosen to collide under one or both mappers), SetUnknown* (sometimes through SubRouter.ToRouter()), on a fresh peer in a worker process, then up to 24 requests over a real in-memory connection: every returned name in its own and the other namespace, near misses, empty name, group prefixes. distinct = distinct case line; non-trivial = map case with non-empty prefix or a name containing '_' or an upper-case letter, hist case with at least one returned name",
        "assumptions": [
            "Model/Router is hand-written; tied to the code by comparing mapper output, returned names, fatal/ok ending and per-request (status code, handler that ran) on every generated case",
            "names are byte strings; strings.ToLower modelled on ASCII only; path.Join/Clean, strings.Replace/Trim modelled semantically and compared on every case",
            "handler makers modelled for well-formed controllers/functions only; reflect lists methods sorted by name",
            "the conflict exit is os.Exit(1) in erpc.Fatalf: observed as the worker process ending with status 1",
        ],
        "trusted": ["Model/Router is a hand-written model of router.go (mappers, toServiceMethods, SubRoute, reg, SetUnknown*, getCall/getPush), context.go bindCall/bindPush (empty-name check, lookup, 404), goutil SnakeString, and the stdlib string/path helpers they call"],
        "explanation": "theorems quantify over all prefixes/names, all states satisfying the table invariant and all registration histories from a fresh router (induction over the operation list); the numbers are the correspondence sample of this run",
        "timeout": {"quick": 600, "thorough": 3000},
    },
    "C11": {
        "runner": "c11",
        "modules": ["Teleport.Props.C11"],
        "rule": "type-directed values from VERIF_SEED for a bank of 21 plain destination types and 15 form struct types (all integer widths at extremes, strings/[]byte over every byte value and UTF-8, slices and fixed arrays of length 0,1,2,3,5,9, nested/embedded/tagged structs) through the real Marshal/Unmarshal (encoded bytes and decoded value compared with the model, reflect.DeepEqual round-trip oracle); a garbage stream into every destination type under recover with guard bytes around the destination; wrapper arms, registry ids 0..255, byte-slice message bodies; json/xml/protobuf/thrift and float fields only as labelled round-trip TESTS. distinct = distinct case line; non-trivial = round-trip case of a supported type, decode case with non-empty input, wrapper/body/library case",
        "assumptions": [
            "Model/Codec is a hand-written model of codec/plain_codec.go, codec/form_codec.go and of the parts of net/url and strconv they call; tied to the code by byte-exact comparison of every encoding and field-exact comparison of every decoded value / error / panic",
            "json, xml, protobuf and thrift encodings belong to their libraries: the library law is a hypothesis of C11_wrapper_dispatch; the harness measures it and labels that a test",
            "floats, pointer fields, maps, time.Time fields and non-empty interface destinations are outside the modelled value universe",
            "int/uint are 64 bit",
        ],
        "trusted": ["Model/Codec (with Model/Num, Model/Args.splitEq, Model/Bytes.hexUpper) is a hand-written model of codec/plain_codec.go, codec/form_codec.go, the wrapper switches of codec/{json,xml,protobuf,thrift}_codec.go, codec/codec.go registry ids, socket/message.go MarshalBody/UnmarshalBody, and of net/url + strconv as used by them"],
        "explanation": "theorems quantify over all values of the model's value universe, all byte strings and all destination types; the numbers are the correspondence sample plus the library round-trip tests",
        "timeout": {"quick": 600, "thorough": 3000},
    },
    "C18": {
        "runner": "c18",
        "modules": ["Teleport.Props.C18"],
        "rule": "histories from VERIF_SEED replayed sequentially on a real in-process peer with the real plugin and on the Lean model: c18conn = 3-24 ops over {connect via ServeConn, server Close, client Close, raw conn close, second Close, Update(MaxConn)}; c18qps = 4-53 ops over {call, push on 3 methods, manual tick of all/total/one bucket, Update}; fixed pre-study histories, bad-interval configs and concurrent stress runs (oracle only). Non-trivial = conn history with a rejection or update (or >=3 ops); qps history with a refusal, tick or update",
        "assumptions": [
            "sync/atomic operations are single sequentially consistent steps; int32 counters do not wrap",
            "Update swapping the limiter pointer concurrently with take is not modelled; histories keep Update sequential",
            "manual ticks drive the plugin's own startTicker/updateToken; real-time firing is the Go runtime's",
            "serveListener runs the same two statements as ServeConn; only ServeConn is driven",
        ],
        "trusted": ["Model/Overload (CL, QL, OV, Sys, Step/UStep/CStep, qstep, dispatch) is a hand-written model of plugin/overloader/*.go, peer.go ServeConn/serveListener, session.go closeLocked/readDisconnected, and context.go bindCall/handleCall/bindPush/handlePush at decision level"],
        "explanation": "theorems quantify over all interleavings of any number of takers/releasers/updates (transition system) and all sequential histories; the numbers are the correspondence sample of this run",
        "timeout": {"quick": 600, "thorough": 3000},
    },
    "C12": {
        "runner": "c12",
        "modules": ["Teleport.Props.C12"],
        "rule": "pipes of length 0..257 over the registered ids {1,2,3 (non-commuting test filters), md5, six gzip levels} with repeats, occasionally one unregistered id; payloads empty / 1 byte / around 16 and the MD5 block boundaries / compressible / random / large; every single-byte corruption (3 xor masks) of short packed payloads and sampled positions of long ones; arbitrary bytes into OnUnpack; Append across the 255 limit, AppendFrom, Range, Reset; duplicate Reg, Get/GetByName; hand-built frames naming unregistered ids, damaged md5 frames; real in-process calls with request pipes and handler/plugin AddXferPipe calls, reply pipe read from the wire; RFC 1321 vectors and every length 0..130 for MD5. distinct = distinct case line; non-trivial = every case except xpipe with fewer than 2 filters, xframepack with an empty pipe and skipped/empty sweeps",
        "assumptions": [
            "compress/gzip decompression inverts compression and never emits an empty stream (hypothesis of C12_gzip_lawful); measured by the xgzip round-trip oracle, labelled a test",
            "MD5 collision-freeness is a hypothesis of C12_md5_detects_content_change only (h x' != h x on that pair)",
            "crypto/md5 = Model/Md5.sum: compared on the RFC 1321 vectors, every length 0..130 and every generated payload",
            "a filter's ID() equals the id it is registered under",
        ],
        "trusted": ["Model/Md5 (MD5), Model/XferMd5 (md5.go, gzip.go structure, xfer.go Reg/Get/GetByName/Append-as-coded/AppendFrom/Range/Reset, context.go AddXferPipe + handleCall pipe order), Model/Xfer, Model/RawProto are hand-written models; Drv/TestFilters + harness filters.go define the three test filters on both sides"],
        "explanation": "theorems quantify over all pipes, payloads, hashes with 16-byte digests and registries; the numbers are the correspondence sample of this run",
        "timeout": {"quick": 600, "thorough": 3000},
    },
    "C09": {
        "runner": "c09",
        "modules": ["Teleport.Props.C09"],
        "rule": "cases drawn from VERIF_SEED: a registration history for the receiving peer (1-12 operations out of SubRoute to depth 3 / RouteCallFunc / RoutePushFunc / SetUnknownCall / SetUnknownPush with 0-2 plugins each, AppendLeft / AppendRight, Remove; half of the histories have all global operations first, half interleave them with routing), a history of global operations for the calling peer, one CALL (2/3) or PUSH (1/3) to a registered route (7/8) or an unregistered one, plugins of 14 distinct Go types = 14 subsets of the 16 per-message stage interfaces, scripted non-OK verdicts for up to 3 (plugin, stage) pairs per peer, handler status OK or not; deep shapes (three nested groups, sibling groups) 1 in 25; 9 fixed witness configurations run first; duplicate-name histories run in a child process. Every case runs two fresh real peers over one in-memory connection. distinct = distinct case line; non-trivial = the matched route's chain has >= 2 plugins or a veto fires",
        "assumptions": [
            "Model/Plugin is a hand-written model of plugin.go (containers, refresh, refreshTree, every per-message stage function), the container derivation in router.go and the stage call sites in session.go/context.go; tied to the code by comparing the recorded (plugin, stage) firing traces of both peers, the handler invocation, the written flag and the caller's status on every generated case",
            "only the root container is reachable through the public API; AppendLeft/AppendRight/Remove on derived containers are not modelled",
            "Go slice semantics of append(p.middle.GetAll(), plugins...) are modelled (in-place write into spare capacity, growslice capacities of the pinned Go 1.23 toolchain up to 128 elements); validated by the correspondence run",
            "write failures, redial and timeouts are outside this model (C02/C13); registration happens before the connection is served",
        ],
        "trusted": ["Model/Plugin is a hand-written model of plugin.go, router.go (SubRoute, reg, SetUnknown*, getCall/getPush), session.go (AsyncCall, Push, startReadAndHandle stage calls), context.go (binding, bind*, handle*)"],
        "explanation": "theorems quantify over all operation histories, plugin sets, stage subsets, verdict assignments and routes; the numbers are the correspondence sample; the oracle failures are real-code executions that contradict the property text",
        "timeout": {"quick": 600, "thorough": 1800},
    },
}
