"""Per-property configuration of the checks (runner name in the Go harness, Lean modules that hold
the property theorems, evidence texts)."""

COMMON_TRUSTED = [
    "Lean 4.33.0 kernel; axioms allowed in property theorems: propext, Classical.choice, Quot.sound (audited by #print axioms on every run; no sorry/admit/native_decide/bv_decide/own axioms - text gate)",
    "tools/vcheck.py orchestration, the Go conformance harness (harness/cmd/conform), canonicalisation and diff",
    "srcfacts (harness/cmd/srcfacts): syntactic go/ast fact extractor, fails closed",
    "Go toolchain, runtime and standard library as the environment of the real code",
]

PROPS = {
    "C05": {
        "runner": "c05",
        "modules": ["Teleport.Props.C05"],
        "rule": "cases drawn from VERIF_SEED by a type-directed message generator (every byte value in method/meta/status/body, lengths 0/1/255/256 boundaries, extreme seqs, pipes over three non-commuting test filters) plus mutated/truncated/random frames and back-to-back streams under 4 chunking modes; distinct = distinct case line; non-trivial = pack case with metadata, pipe or non-zero status, any stream case, any unpack case longer than the length prefix",
        "assumptions": [
            "model of rawProto/Args/Status/bytesconv is hand-written; tied to the code by byte-exact pack comparison and field-exact unpack comparison on every generated case",
            "io.ReadFull/bufio deliver the stream independent of chunking (stdlib; exercised with 4 chunking modes)",
            "strconv.FormatInt/ParseInt modelled (Model/Num) and compared on every case",
            "non-raw protocols: third-party serializers (gjson, protobuf, thrift, net/http) are not modelled",
        ],
        "trusted": ["Model/Bytes, Model/Num, Model/Args, Model/Status, Model/Xfer, Model/RawProto are hand-written models of utils/bytesconv.go, strconv, utils/args.go, goutil status, xfer/xfer.go, socket/protocol.go"],
        "explanation": "theorems quantify over all messages/byte strings/frame sequences; the numbers below are the correspondence sample that ties the model to the code on this run",
    },
}
