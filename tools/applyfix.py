#!/usr/bin/env python3
"""applyfix <ID> [--no-overlay]: apply fixes/<ID>/repo.patch to /repo as one `fix:` commit, copy the overlay
into /verif, and turn the matching known finding into a `fixed` record."""
import json, os, subprocess, sys, shutil
ROOT = os.path.dirname(os.path.dirname(os.path.abspath(__file__)))
import fcntl
_lock = open("/tmp/repo.lock", "w")
fcntl.flock(_lock, fcntl.LOCK_EX)  # wait for a running seedtest to restore /repo
assert subprocess.run(["git", "-C", "/repo", "status", "--porcelain"], capture_output=True, text=True).stdout.strip() == "", "/repo not clean"
fid = sys.argv[1]
d = os.path.join(ROOT, "fixes", fid)
msg = open(os.path.join(d, "commit_message.txt")).read()
assert msg.startswith("fix:"), "commit message must start with fix:"
subprocess.run(["git", "-C", "/repo", "apply", "--check", os.path.join(d, "repo.patch")], check=True)
subprocess.run(["git", "-C", "/repo", "apply", os.path.join(d, "repo.patch")], check=True)
subprocess.run(["git", "-C", "/repo", "add", "-A"], check=True)
subprocess.run(["git", "-C", "/repo", "commit", "-q", "-F", os.path.join(d, "commit_message.txt")], check=True)
sha = subprocess.run(["git", "-C", "/repo", "rev-parse", "--short", "HEAD"], capture_output=True, text=True).stdout.strip()
if "--no-overlay" not in sys.argv:
    ov = os.path.join(d, "overlay")
    for base, _, files in os.walk(ov):
        for f in files:
            src = os.path.join(base, f)
            rel = os.path.relpath(src, ov)
            if rel == "harness/go.mod":
                continue
            dst = os.path.join(ROOT, rel)
            os.makedirs(os.path.dirname(dst), exist_ok=True)
            shutil.copyfile(src, dst)
            print("overlay:", rel)
kf = os.path.join(ROOT, "known_findings.json")
known = json.load(open(kf))
ent = json.load(open(os.path.join(d, "known_findings_entry.json")))
ents = ent if isinstance(ent, list) else [ent]
for e in ents:
    e["kind"] = "fixed"
    e["commit"] = sha
    known = [k for k in known if not (k.get("sig") == e.get("sig") and k.get("kind") == "known")]
    known.append(e)
json.dump(known, open(kf, "w"), indent=1)
print("committed", sha)
