"""vcheck — orchestration of one property check (see ../check and DESIGN.md §2).

Pipeline per run:
  1. srcfacts: regenerate lean/Teleport/Gen/*.lean from /repo (tie A)
  2. lake build of the property's theorem modules + the model driver; axiom audit; text gate
  3. go build of the conformance harness against /repo's working tree with -tags verif
  4. corpus cases first, then seed-derived cases: implementation observations vs model observations
     (tie B) plus the property's own oracles evaluated on the real code
  5. on any break: search for a concrete failing input; match against known_findings.json
  6. write evidence/<id>.json; print VIOLATION / KNOWN-FINDING lines
"""
import fcntl
import glob
import hashlib
import json
import os
import re
import subprocess
import sys
import time

ROOT = os.path.dirname(os.path.dirname(os.path.abspath(__file__)))
WORK = os.path.join(ROOT, ".work")
LEAN = os.path.join(ROOT, "lean")
HARN = os.path.join(ROOT, "harness")
REPO = os.environ.get("VERIF_REPO", "/repo")

ALLOWED_AXIOMS = {"propext", "Classical.choice", "Quot.sound"}
FORBIDDEN = re.compile(r"\bsorry\b|\badmit\b|^\s*axiom\s|native_decide|bv_decide|implemented_by|\bunsafe\s|maxHeartbeats\s+0", re.M)

GOENV = dict(os.environ, GOFLAGS="-mod=mod", GOPROXY="off", GOSUMDB="off", GOTOOLCHAIN="local")

sys.path.insert(0, os.path.dirname(os.path.abspath(__file__)))
from props import PROPS, COMMON_TRUSTED  # noqa: E402


def sh(cmd, cwd=None, env=None, timeout=3600, stdin=None):
    t0 = time.time()
    p = subprocess.run(cmd, cwd=cwd, env=env, timeout=timeout, stdin=stdin,
                       stdout=subprocess.PIPE, stderr=subprocess.STDOUT, text=True, errors="replace")
    return p.returncode, p.stdout, time.time() - t0


class Lock:
    def __init__(self, name):
        os.makedirs(WORK, exist_ok=True)
        self.path = os.path.join(WORK, name + ".lock")

    def __enter__(self):
        self.f = open(self.path, "w")
        fcntl.flock(self.f, fcntl.LOCK_EX)

    def __exit__(self, *a):
        fcntl.flock(self.f, fcntl.LOCK_UN)
        self.f.close()


def strip_comments(src):
    src = re.sub(r"/-.*?-/", "", src, flags=re.S)
    return re.sub(r"--.*$", "", src, flags=re.M)


def theorem_names(lean_file):
    src = strip_comments(open(lean_file).read())
    ns = re.findall(r"^namespace\s+(\S+)", src, flags=re.M)
    prefix = ".".join(ns)
    return [(prefix + "." + n) if prefix else n for n in re.findall(r"^theorem\s+(\S+)", src, flags=re.M)]


def text_gate():
    bad = []
    for f in glob.glob(os.path.join(LEAN, "**", "*.lean"), recursive=True):
        if "/.lake/" in f:
            continue
        m = FORBIDDEN.search(strip_comments(open(f).read()))
        if m:
            bad.append("%s: %s" % (os.path.relpath(f, LEAN), m.group(0).strip()))
    return bad


def run_srcfacts(log):
    """tie A: regenerate Gen/*.lean from the current /repo sources (write only when changed)."""
    src = os.path.join(HARN, "cmd", "srcfacts")
    if not os.path.isdir(src):
        return True, ""
    with Lock("gobuild"):
        rc, out, _ = sh(["go", "build", "-o", os.path.join(WORK, "bin", "srcfacts"), "./cmd/srcfacts"], cwd=HARN, env=GOENV)
    if rc != 0:
        return False, "srcfacts build failed:\n" + out
    tmp = os.path.join(WORK, "gen.tmp")
    subprocess.run(["rm", "-rf", tmp])
    os.makedirs(tmp)
    rc, out, _ = sh([os.path.join(WORK, "bin", "srcfacts"), "-repo", REPO, "-out", tmp])
    if rc != 0:
        return False, "srcfacts failed:\n" + out
    gen = os.path.join(LEAN, "Teleport", "Gen")
    os.makedirs(gen, exist_ok=True)
    new = {os.path.basename(f): open(f).read() for f in glob.glob(os.path.join(tmp, "*.lean"))}
    for f in glob.glob(os.path.join(gen, "*.lean")):
        if os.path.basename(f) not in new:
            os.remove(f)  # stale generated file
    for name, body in new.items():
        p = os.path.join(gen, name)
        if not os.path.exists(p) or open(p).read() != body:
            open(p, "w").write(body)
    return True, out


def lean_build(modules):
    """returns (props_ok, driver_ok, log, wall). The driver (model + line protocol) is built separately
    from the property modules so that tie B still runs - and can supply the failing input - when a
    proof obligation over regenerated facts no longer checks."""
    with Lock("lake"):
        rc_d, out_d, dt_d = sh(["lake", "build", "driver"], cwd=LEAN, timeout=3000)
        rc, out, dt = sh(["lake", "build"] + modules, cwd=LEAN, timeout=3000)
    return rc == 0, rc_d == 0, out + ("\n--- driver build ---\n" + out_d if rc_d != 0 else ""), dt + dt_d


def lean_audit(pid, modules, names):
    """#print axioms on every property theorem; returns {name: [axioms]} (missing name = not built)."""
    os.makedirs(os.path.join(WORK, "audit"), exist_ok=True)
    f = os.path.join(WORK, "audit", pid + ".lean")
    with open(f, "w") as w:
        for m in modules:
            w.write("import %s\n" % m)
        for n in names:
            w.write("#print axioms %s\n" % n)
    with Lock("lake"):
        rc, out, _ = sh(["lake", "env", "lean", f], cwd=LEAN, timeout=1200)
    res = {}
    for m in re.finditer(r"'([^']+)' depends on axioms: \[([^\]]*)\]", out):
        res[m.group(1)] = [a.strip() for a in m.group(2).replace("\n", " ").split(",") if a.strip()]
    for m in re.finditer(r"'([^']+)' does not depend on any axioms", out):
        res[m.group(1)] = []
    return res, out


def harness_dir():
    """the Go harness module that is built and run. Its go.mod replaces the library by /repo; when
    VERIF_REPO points elsewhere (scratch clones used by sweeps and fix preparation) a copy of the
    module with the replace rewritten is used instead."""
    if os.path.realpath(REPO) == "/repo":
        return HARN
    alt = os.path.join(WORK, "harness-alt")
    subprocess.run(["rsync", "-a", "--delete", HARN + "/", alt + "/"], check=True)
    gm = os.path.join(alt, "go.mod")
    txt = re.sub(r"(github.com/henrylee2cn/erpc/v6\s*=>\s*)\S+", lambda m: m.group(1) + REPO, open(gm).read())
    open(gm, "w").write(txt)
    return alt


def go_build():
    os.makedirs(os.path.join(WORK, "bin"), exist_ok=True)
    with Lock("gobuild"):
        hdir = harness_dir()
        gosum_src, gosum_dst = os.path.join(REPO, "go.sum"), os.path.join(hdir, "go.sum")
        if os.path.exists(gosum_src) and (not os.path.exists(gosum_dst)):
            open(gosum_dst, "w").write(open(gosum_src).read())
        rc, out, dt = sh(["go", "build", "-tags", "verif", "-o", os.path.join(WORK, "bin", "conform"), "./cmd/conform"],
                         cwd=hdir, env=GOENV, timeout=1800)
    return rc == 0, out, dt


def compare(cases, obs, model):
    """returns list of (index, case, impl, model) where the implementation's observation is not among
    the model's alternatives (` || ` separates alternatives that depend on pooled-buffer capacity)."""
    bad = []
    n = max(len(cases), len(obs), len(model))
    for i in range(n):
        c = cases[i] if i < len(cases) else "<missing case>"
        o = obs[i] if i < len(obs) else "<missing impl observation>"
        m = model[i] if i < len(model) else "<missing model observation>"
        if o == m:
            continue
        if o in m.split(" || "):
            continue
        if o.startswith("inconclusive:"):
            continue  # the harness could not establish the case's precondition (counted; bounded below)
        bad.append((i, c, o, m))
    return bad


def run_cases(pid, cfg, tag, seed, tier, replay_cases=None, timeout=3000):
    """run the harness (generate or replay) and the model driver; returns dict with everything."""
    d = os.path.join(WORK, "run", pid)
    os.makedirs(d, exist_ok=True)
    base = os.path.join(d, tag)
    cmd = [os.path.join(WORK, "bin", "conform"), cfg["runner"], "-seed", str(seed), "-tier", tier,
           "-cases", base + ".cases", "-obs", base + ".obs", "-stats", base + ".stats"]
    if replay_cases is not None:
        rp = base + ".in"
        open(rp, "w").write("\n".join(replay_cases) + ("\n" if replay_cases else ""))
        cmd += ["-replay", rp]
    env = dict(GOENV, GOMEMLIMIT=os.environ.get("GOMEMLIMIT", "6GiB"), VERIF_REPO=REPO, VERIF_WORK=WORK)
    for f in (base + ".cases", base + ".obs", base + ".stats"):
        if os.path.exists(f):
            os.remove(f)
    try:
        rc, out, dt = sh(cmd, cwd=(HARN if os.path.realpath(REPO) == "/repo" else os.path.join(WORK, "harness-alt")), env=env, timeout=timeout)
    except subprocess.TimeoutExpired:
        rc, out, dt = 124, "harness timed out after %ds" % timeout, timeout
    res = {"rc": rc, "log": out[-20000:], "wall": dt, "cases": [], "obs": [], "model": [], "stats": {}}
    if rc != 0 or not os.path.exists(base + ".stats"):
        cur = base + ".obs.cur"
        if os.path.exists(cur):
            res["crash_case"] = open(cur, errors="replace").read()[:20000]  # the case the harness died in
        return res
    res["cases"] = open(base + ".cases").read().split("\n")[:-1]
    res["obs"] = open(base + ".obs").read().split("\n")[:-1]
    res["stats"] = json.load(open(base + ".stats"))
    with open(base + ".cases") as fin:
        rc2, mout, dt2 = sh([os.path.join(LEAN, ".lake", "build", "bin", "driver")], stdin=fin, timeout=timeout)
    res["model_rc"] = rc2
    res["model"] = mout.split("\n")[:-1] if rc2 == 0 else []
    res["model_log"] = mout[-5000:] if rc2 != 0 else ""
    res["wall"] += dt2
    return res


def case_kind(line):
    return line.split(" ", 1)[0] if line else ""


def load_known():
    p = os.path.join(ROOT, "known_findings.json")
    if not os.path.exists(p):
        return []
    return json.load(open(p))


def main(argv):
    import argparse
    ap = argparse.ArgumentParser()
    ap.add_argument("pid")
    ap.add_argument("--tier", default=os.environ.get("VERIF_TIER", "quick"))
    ap.add_argument("--seed", type=int, default=int(os.environ.get("VERIF_SEED", "1") or 1))
    ap.add_argument("--replay")
    a = ap.parse_args(argv)
    pid, tier, seed = a.pid, a.tier, a.seed
    if tier not in ("quick", "thorough"):
        tier = "quick"
    cfg = PROPS[pid]
    t0 = time.time()
    os.makedirs(os.path.join(WORK, "replay"), exist_ok=True)
    os.makedirs(os.path.join(ROOT, "evidence"), exist_ok=True)

    breaks = []   # dicts: {kind, sig, what, detail, cases?}
    notes = []

    # ---- tie A + proofs -------------------------------------------------------------------
    ok, out = run_srcfacts(notes)
    if not ok:
        breaks.append({"kind": "srcfacts", "sig": pid.lower() + ":srcfacts", "what": "fact extraction failed", "detail": out[-4000:]})
    prop_files = [os.path.join(LEAN, *m.split(".")) + ".lean" for m in cfg["modules"] if ".Props." in m]
    obligations = []
    for f in prop_files:
        obligations += theorem_names(f)
    built, driver_ok, blog, bwall = lean_build(cfg["modules"])
    discharged = []
    audit = {}
    if not built:
        failed = sorted(set(re.findall(r"error: (\S+\.lean:\d+:\d+)", blog)))
        # which theorems are named in the failing region is in the log excerpt
        breaks.append({"kind": "proof", "sig": pid.lower() + ":lean-build",
                       "what": "lake build of %s failed (a proof obligation over the current model/regenerated facts no longer checks)" % " ".join(cfg["modules"]),
                       "detail": "\n".join(failed) + "\n" + blog[-6000:]})
    else:
        audit, alog = lean_audit(pid, cfg["modules"], obligations)
        for n in obligations:
            if n in audit and set(audit[n]) <= ALLOWED_AXIOMS:
                discharged.append(n)
            else:
                breaks.append({"kind": "proof", "sig": pid.lower() + ":axioms:" + n,
                               "what": "theorem %s missing or depends on axioms %s" % (n, audit.get(n)), "detail": alog[-3000:]})
    gate = text_gate()
    if gate:
        breaks.append({"kind": "proof", "sig": pid.lower() + ":text-gate", "what": "forbidden token in Lean sources", "detail": "\n".join(gate)})
    checker_cmd = "cd lean && lake build %s && lake env lean ../.work/audit/%s.lean  # #print axioms" % (" ".join(cfg["modules"]), pid)
    if tier == "thorough" and built:
        for m in cfg["modules"]:
            if ".Props." not in m:
                continue
            with Lock("lake"):
                rc, out, _ = sh(["lake", "env", "leanchecker", m], cwd=LEAN, timeout=3000)
            if rc != 0:
                breaks.append({"kind": "proof", "sig": pid.lower() + ":leanchecker", "what": "leanchecker rejected " + m, "detail": out[-3000:]})
            else:
                notes.append("leanchecker ok: " + m)
        checker_cmd += " && lake env leanchecker " + " ".join(m for m in cfg["modules"] if ".Props." in m)

    # ---- tie B ------------------------------------------------------------------------------
    gok, glog, gwall = go_build()
    runs = []
    if not gok:
        breaks.append({"kind": "harness", "sig": pid.lower() + ":go-build",
                       "what": "harness does not build against the current /repo tree", "detail": glog[-6000:]})
    elif driver_ok and cfg.get("runner"):
        plan = []
        if a.replay:
            rp = json.load(open(a.replay))
            plan.append(("replay", rp.get("cases", [])))
        else:
            corpus = []
            for f in sorted(glob.glob(os.path.join(ROOT, "corpus", pid, "*.case"))):
                corpus += [l for l in open(f).read().split("\n") if l.strip() and not l.startswith("#")]
            if corpus:
                plan.append(("corpus", corpus))
            plan.append(("gen", None))
        for tag, rc_cases in plan:
            r = run_cases(pid, cfg, tag, seed, tier, rc_cases, timeout=cfg.get("timeout", {}).get(tier, 3000))
            r["tag"] = tag
            runs.append(r)
            if r["rc"] != 0:
                cc = r.get("crash_case")
                breaks.append({"kind": "harness", "sig": pid.lower() + ":harness-exit",
                               "what": "conformance harness exited with %s on the real code (%s)%s" % (r["rc"], tag, (" while running the case: " + cc[:300]) if cc else ""),
                               "detail": r["log"][-6000:], "cases": [cc] if cc else []})
                continue
            if r.get("model_rc", 0) != 0:
                breaks.append({"kind": "harness", "sig": pid.lower() + ":driver-exit", "what": "model driver failed", "detail": r.get("model_log", "")})
                continue
            mism = compare(r["cases"], r["obs"], r["model"])
            inconcl = [o for o in r["obs"] if o.startswith("inconclusive:")]
            r["inconclusive"] = len(inconcl)
            if len(inconcl) > max(3, len(r["obs"]) // 100):
                breaks.append({"kind": "harness", "sig": pid.lower() + ":too-many-inconclusive",
                               "what": "%d of %d cases inconclusive (%s)" % (len(inconcl), len(r["obs"]), inconcl[0]), "detail": inconcl[0]})
            # Observations of concurrent scenarios can depend on things the schedule does not fix (map
            # iteration order, goroutine wake-up order). A mismatching case is re-run in isolation;
            # it stays a break only if the implementation NEVER produces the model's line. Oracle
            # failures are never retried away.
            retries = cfg.get("retry_mismatch", 0)
            if retries and mism and len(mism) <= 25:
                kept = []
                for (i, c, o, m) in mism:
                    agreed = False
                    for k in range(retries):
                        rr = run_cases(pid, cfg, "retry", seed, tier, [c], timeout=300)
                        if rr["rc"] == 0 and rr["obs"] and rr["model"] and not compare(rr["cases"], rr["obs"], rr["model"]):
                            agreed = True
                            break
                    if agreed:
                        notes.append("schedule-dependent case (matched the model on a re-run): " + c[:160])
                    else:
                        kept.append((i, c, o, m))
                mism = kept
            for (i, c, o, m) in mism:
                breaks.append({"kind": "correspondence", "sig": "%s:mismatch:%s" % (pid.lower(), case_kind(c)),
                               "what": "implementation and Lean model disagree on a %s case" % case_kind(c),
                               "detail": "impl : %s\nmodel: %s" % (o[:3000], m[:3000]), "cases": [c]})
            for v in (r["stats"].get("oracle_violations") or []):
                breaks.append({"kind": "oracle", "sig": v["sig"], "what": "oracle %s failed on the real code: %s" % (v["oracle"], v["detail"][:1500]),
                               "detail": v["detail"][:6000], "cases": [v["line"]]})

    # ---- known findings --------------------------------------------------------------------
    known = [k for k in load_known() if k.get("property") == pid and k.get("kind") == "known"]
    unlisted, listed = [], {}
    for b in breaks:
        k = next((k for k in known if k.get("sig") == b["sig"]), None)
        if k is not None and b["kind"] in ("oracle", "correspondence"):
            listed.setdefault(k["sig"], (k, []))[1].append(b)
        else:
            unlisted.append(b)
    for sig, (k, bs) in sorted(listed.items()):
        print("KNOWN-FINDING: property=%s %s [%s, %d occurrence(s) this run]" % (pid, k["what"], sig, len(bs)))

    # ---- failing-input search when only a proof / correspondence tie broke ---------------------
    found_input = [b for b in unlisted if b["kind"] == "oracle" or (b["kind"] == "harness" and b.get("cases"))]
    searched = 0
    harness_died = any(b["kind"] == "harness" for b in unlisted)
    if unlisted and not found_input and gok and driver_ok and cfg.get("runner") and not a.replay and not harness_died:
        # bounded search: a few further seeds at the quick size (a harness that crashed or hung is
        # itself the replay; re-running it would only repeat the crash)
        for s2 in range(seed + 1, seed + 1 + cfg.get("search_seeds", 2)):
            r = run_cases(pid, cfg, "search%d" % s2, s2, "quick", None, timeout=min(600, cfg.get("timeout", {}).get("quick", 600)))
            searched += len(r["cases"])
            vs = [v for v in (r["stats"].get("oracle_violations") or []) if not any(k.get("sig") == v["sig"] for k in known)]
            if vs:
                for v in vs[:5]:
                    found_input.append({"kind": "oracle", "sig": v["sig"], "what": "oracle %s failed on the real code: %s" % (v["oracle"], v["detail"][:1500]),
                                        "detail": v["detail"][:6000], "cases": [v["line"]]})
                break
    # correspondence mismatches themselves are concrete inputs on which model and code differ; they are
    # reported as the replay, but they are a property failure only if an oracle says so.

    # ---- evidence ------------------------------------------------------------------------------
    evals = sum(len(r["cases"]) for r in runs)
    distinct_nt = sum(int(r["stats"].get("distinct_nontrivial", 0)) for r in runs)
    hist = {}
    samples = []
    extra = {}
    for r in runs:
        for k, v in (r["stats"].get("histogram") or {}).items():
            hist[k] = hist.get(k, 0) + v
        samples += (r["stats"].get("samples") or [])[:6]
        extra.update(r["stats"].get("extra") or {})
    wall = time.time() - t0
    ev = {
        "property_id": pid, "tier": tier, "seed": seed, "level": "proof",
        "coverage": {
            "obligations": len(obligations), "discharged": len(discharged),
            "obligation_names": obligations, "axioms": audit,
            "checker_cmd": checker_cmd,
            "trusted_base": COMMON_TRUSTED + cfg.get("trusted", []),
            "evaluations": evals, "distinct_nontrivial": distinct_nt,
            "rule": cfg.get("rule", ""),
            "samples": (samples or obligations)[:12],
            "traces_validated_against_impl": evals,
            "histogram": hist, "extra": extra,
            "correspondence_mismatches": len([b for b in breaks if b["kind"] == "correspondence"]),
            "oracle_failures": len([b for b in breaks if b["kind"] == "oracle"]),
            "known_findings_matched": sorted(listed.keys()),
            "inconclusive_cases": sum(r.get("inconclusive", 0) for r in runs),
            "failing_input_search_cases": searched,
            "explanation": cfg.get("explanation", ""),
            "notes": notes,
        },
        "assumptions": cfg.get("assumptions", []),
        "wall_s": round(wall, 2),
        "violations": len(unlisted),
    }
    json.dump(ev, open(os.path.join(ROOT, "evidence", pid + ".json"), "w"), indent=1)

    if not unlisted:
        print("OK property=%s tier=%s seed=%d obligations=%d discharged=%d cases=%d known=%d wall=%.1fs"
              % (pid, tier, seed, len(obligations), len(discharged), evals, len(listed), wall))
        return 0

    # ---- violation -----------------------------------------------------------------------------
    cases = []
    for b in found_input + unlisted:
        for c in b.get("cases", []):
            if c not in cases:
                cases.append(c)
    h = hashlib.sha1(("\n".join(cases) + str([b["sig"] for b in unlisted])).encode()).hexdigest()[:8]
    rp = os.path.join(WORK, "replay", "%s-%d-%s.json" % (pid, seed, h))
    json.dump({
        "property": pid, "tier": tier, "seed": seed,
        "failing_input_found": bool(found_input),
        "broken": [{k: b[k] for k in ("kind", "sig", "what", "detail")} for b in unlisted][:40],
        "failing_inputs": [{k: b[k] for k in ("sig", "what", "detail", "cases")} for b in found_input][:20],
        "cases": cases[:200],
        "how_to_replay": "./check %s --replay %s" % (pid, rp),
    }, open(rp, "w"), indent=1)
    for b in unlisted[:8]:
        print("BROKEN[%s] %s: %s" % (b["kind"], b["sig"], b["what"][:300]))
    tail = "" if found_input else " no-failing-input-found"
    print("VIOLATION property=%s replay=%s%s" % (pid, rp, tail))
    return 1
