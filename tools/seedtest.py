#!/usr/bin/env python3
"""seedtest <seed-out-dir> <name> [--props C05,C12] [--keep]

Validate one seeded breaking change and run the checks against it:
  1. confirm /repo is clean; run the demonstration on the unchanged /repo (must pass)
  2. git -C /repo apply patch.diff; build; run the repository's runnable tests; run the demo (must fail)
  3. run ./check for the property (and any extra ones) on the patched tree, record what fires
  4. git -C /repo checkout -- .   (always)
  5. store everything under /verif/seeded/<name>/ (patch.diff, demo/, meta.json)
"""
import json, os, shutil, subprocess, sys, time, re

ROOT = os.path.dirname(os.path.dirname(os.path.abspath(__file__)))
REPO = "/repo"
ENV = dict(os.environ, GOFLAGS="-mod=mod", GOPROXY="off", GOSUMDB="off", GOTOOLCHAIN="local")


def sh(cmd, cwd=None, timeout=1800, env=ENV):
    try:
        p = subprocess.run(cmd, cwd=cwd, env=env, shell=isinstance(cmd, str), timeout=timeout,
                           stdout=subprocess.PIPE, stderr=subprocess.STDOUT, text=True, errors="replace")
        return p.returncode, p.stdout
    except subprocess.TimeoutExpired:
        return 124, "timeout"


def run_demo(demo_dir):
    """run the demo against /repo (go.mod replace rewritten to /repo)."""
    work = "/tmp/seedtest_demo"
    shutil.rmtree(work, ignore_errors=True)
    shutil.copytree(demo_dir, work)
    for base, _, files in os.walk(work):
        for f in files:
            if f == "go.mod":
                p = os.path.join(base, f)
                s = open(p).read()
                s = re.sub(r"(github.com/henrylee2cn/erpc/v6\s*=>\s*)\S+", r"\1/repo", s)
                open(p, "w").write(s)
            if f == "go.sum":
                shutil.copyfile(os.path.join(REPO, "go.sum"), os.path.join(base, f))
    rc, out = sh(["sh", "run.sh"], cwd=work, timeout=600)
    shutil.rmtree(work, ignore_errors=True)
    return rc, out[-3000:]


def main():
    import fcntl
    lock = open("/tmp/repo.lock", "w")
    fcntl.flock(lock, fcntl.LOCK_EX)  # /repo's working tree is shared with tools/applyfix.py
    src, name = sys.argv[1], sys.argv[2]
    props = None
    for i, a in enumerate(sys.argv):
        if a == "--props":
            props = sys.argv[i + 1].split(",")
    meta = json.load(open(os.path.join(src, "meta.json")))
    if props is None:
        props = [meta["property"]]
    rc, out = sh(["git", "-C", REPO, "status", "--porcelain"])
    assert out.strip() == "", "/repo is not clean: " + out
    res = {"seed": name, "property": meta["property"], "title": meta.get("title"), "mechanism": meta.get("mechanism"),
           "needs": meta.get("needs"), "files": meta.get("files"), "agent_ran": meta.get("ran")}
    rc0, out0 = run_demo(os.path.join(src, "demo"))
    res["demo_unchanged"] = {"rc": rc0, "tail": out0[-600:]}
    patch = os.path.join(src, "patch.diff")
    rc, out = sh(["git", "-C", REPO, "apply", patch])
    if rc != 0:
        rc, out = sh(["git", "-C", REPO, "apply", "--3way", patch])
        if rc != 0 or "U" in sh(["git", "-C", REPO, "status", "--porcelain"])[1][:2]:
            rc = 1
            sh(["git", "-C", REPO, "reset", "-q", "--hard", "HEAD"])
    res["apply"] = {"rc": rc, "out": out[-500:]}
    try:
        if rc == 0:
            sh(["git", "-C", REPO, "reset", "-q"])  # --3way stages; unstage
            rcb, outb = sh("go build . ./codec ./socket ./utils ./xfer/... ./proto/jsonproto ./proto/pbproto ./proto/httproto && go build -tags verif . ./plugin/... ./proto/... ./mixer/websocket/...", cwd=REPO)
            res["build"] = {"rc": rcb, "tail": outb[-600:]}
            rct, outt = sh("go test -vet=off -count=1 ./codec ./socket ./utils ./xfer/gzip ./mixer/websocket/websocket", cwd=REPO, timeout=900)
            res["existing_tests"] = {"rc": rct, "tail": outt[-600:]}
            rc1, out1 = run_demo(os.path.join(src, "demo"))
            res["demo_changed"] = {"rc": rc1, "tail": out1[-600:]}
            res["checks"] = {}
            for p in props:
                t0 = time.time()
                rcc, outc = sh([os.path.join(ROOT, "check"), p, "--tier", "quick"], cwd=ROOT, timeout=2400)
                lines = [l for l in outc.split("\n") if l.startswith(("VIOLATION", "BROKEN", "OK ", "KNOWN-FINDING"))]
                res["checks"][p] = {"rc": rcc, "wall": round(time.time() - t0, 1), "violation": any(l.startswith("VIOLATION") for l in lines),
                                    "lines": [l[:400] for l in lines if not l.startswith("KNOWN-FINDING")][:12] + [l[:400] for l in lines if l.startswith("VIOLATION")][:1]}
                # copy the replay file next to the seed for reference
                m = re.search(r"replay=(\S+)", outc)
                if m and os.path.exists(m.group(1)):
                    res["checks"][p]["replay_excerpt"] = open(m.group(1)).read()[:3000]
    finally:
        sh(["git", "-C", REPO, "reset", "-q", "--hard", "HEAD"])
        sh(["git", "-C", REPO, "clean", "-fdq", "--", "."])
    rc, out = sh(["git", "-C", REPO, "status", "--porcelain"])
    assert out.strip() == "", "/repo not restored: " + out
    harmless = meta.get("kind") == "harmless"
    res["kind"] = "harmless" if harmless else "breaking"
    valid = res["apply"]["rc"] == 0 and res.get("build", {}).get("rc") == 0 and res.get("existing_tests", {}).get("rc") == 0 \
        and res["demo_unchanged"]["rc"] == 0 and ((res.get("demo_changed", {}).get("rc", 1) == 0) if harmless
                                                  else (res.get("demo_changed", {}).get("rc", 0) != 0))
    res["valid_seed"] = valid
    res["detected"] = any(c["rc"] == 1 and c.get("violation") for c in res.get("checks", {}).values())
    if harmless:  # a harmless refactoring: every check should stay at exit 0
        res["alarm"] = any(c["rc"] != 0 for c in res.get("checks", {}).values())
    dst = os.path.join(ROOT, "seeded", name)
    try:  # keep the recorded results of checks that were not re-run this time
        prev = json.load(open(os.path.join(dst, "meta.json")))
        if open(os.path.join(dst, "patch.diff")).read() == open(patch).read():
            for p, c in prev.get("checks", {}).items():
                res["checks"].setdefault(p, c)
            res["detected"] = any(c["rc"] == 1 and c.get("violation") for c in res["checks"].values())
            if harmless:
                res["alarm"] = any(c["rc"] != 0 for c in res["checks"].values())
    except Exception:
        pass
    shutil.rmtree(dst, ignore_errors=True)
    os.makedirs(dst)
    shutil.copyfile(patch, os.path.join(dst, "patch.diff"))
    shutil.copytree(os.path.join(src, "demo"), os.path.join(dst, "demo"))
    json.dump(res, open(os.path.join(dst, "meta.json"), "w"), indent=1)
    print(json.dumps({k: res[k] for k in ("seed", "kind", "valid_seed", "detected", "alarm") if k in res}))
    for p, c in res.get("checks", {}).items():
        for l in c["lines"][:4]:
            print("  ", p, l[:200])
    # re-run the check on the restored tree is NOT done here (evidence is rewritten by the next normal run)


if __name__ == "__main__":
    main()
