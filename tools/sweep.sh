#!/bin/sh
# sweep.sh <tier> <seed>... : run every check for the given seeds against $VERIF_REPO (default /repo)
cd "$(dirname "$0")/.."
tier=$1; shift
./setup.sh >/dev/null 2>&1 || { echo SETUP-FAILED; exit 2; }
for seed in "$@"; do
  for p in C01 C02 C03 C04 C05 C06 C07 C08 C09 C10 C11 C12 C13 C14 C15 C16 C17 C18 C19 C20; do
    out=$(timeout 3000 ./check $p --tier $tier --seed $seed 2>&1); rc=$?
    echo "seed=$seed $p rc=$rc $(echo "$out" | grep -E '^(OK|VIOLATION)' | cut -c1-200)"
    [ $rc -ne 0 ] && echo "$out" | grep -E '^BROKEN' | cut -c1-300 | head -5
  done
done
echo SWEEP-DONE
