/-
Diagnosis helper for C14_callers_checked (Props/C14.lean): that theorem is ONE kernel evaluation, so a failure
does not say which part broke.  Run (after `lake build Teleport.Model.ConcCallers Teleport.Gen.Guards Teleport.Gen.Callers`):

    cd lean && lake env lean ../tools/c14_callers_diag.lean

Every list printed below must be empty on a tree that satisfies the obligations.  Not part of the build.
-/
import Teleport.Model.ConcCallers
import Teleport.Gen.Guards
import Teleport.Gen.Callers
open Teleport.Conc Teleport.Gen

def dSites := guards.map Site.ofRow
def dCalls := callers.map CallSite.ofRow
def dFields := dedupAdj (dSites.map (·.field))
def dEnts := guardEntries dFields

#eval ("missing / unresolved", callers_missing, callersUnresolved)
#eval ("named in guardOf/calleeHeld but not extracted", (declaredNames dFields).eraseDups.filter (!callerTargets.contains ·))
#eval ("extracted but not named", callerTargets.filter (!(declaredNames dFields).contains ·))
#eval ("heldIn functions not established per lock",
  (heldLocks dEnts).map fun l => (l, (heldNamesFor dEnts l).filter (!(heldVerified dCalls dEnts l).contains ·)))
#eval ("their offending uses",
  dCalls.filter fun c => (heldNamesAll dEnts).contains c.callee && !isTrustedSite c &&
    !((heldLocks dEnts).any fun l => siteHolds l (heldVerified dCalls dEnts l) c))
#eval ("go / function-value uses of held functions",
  dCalls.filter fun c => (heldNamesAll dEnts).contains c.callee && !isTrustedSite c && (c.kind == "go" || c.kind == "value"))
#eval ("calleeTrusted entries without a matching lock-free call site",
  (calleeTrusted.filter fun t => !(dCalls.any fun c => t.matches c && c.locks.isEmpty &&
    !(heldNamesAll dEnts).contains c.fn && !(ctorNamesAll dEnts).contains c.fn)).map fun t => (t.callee, t.fn))
#eval ("afterDone accessors without a dominating receive",
  (dEnts.flatMap (·.2.afterDone)).eraseDups.filter fun f => !cmdCallerOrdered.contains f && !afterDoneOk afterDoneFns f)
#eval ("cmdCallerOrdered accessors that DO receive (should be moved out of the list)",
  cmdCallerOrdered.filter fun f => !(afterDoneFns.any fun r => r.1 == f && r.2.1 == ""))
#eval ("constructor-excused sites that are not local",
  (dSites.filter fun s => (targetNames callerTargets "ctor").contains s.fn &&
    (match guardOf s.field with
     | none => true
     | some d => ctorExcused d s && !isCtorTrusted s && !ctorSiteLocal ctorAccess s)).map fun s => (s.field, s.fn, s.kind))
#eval ("ctorTrusted entries without an escaped access", (ctorTrusted.filter fun t =>
  !(ctorAccess.any fun r => r.1 == t.fn && r.2.1 == t.field && r.2.2.2.startsWith "escaped")).map fun t => (t.fn, t.field))
#eval ("constructors used with go / defer / as method value",
  dCalls.filter fun c => (targetNames callerTargets "ctor").contains c.callee &&
    !(c.kind == "call" || (c.kind == "value" && c.via == "lit")))
