#!/usr/bin/env python3
"""Print the markdown table of seeded breaking changes (seeded/*/meta.json) for DESIGN.md §12.5."""
import json, glob, os
ROOT = os.path.dirname(os.path.dirname(os.path.abspath(__file__)))
rows = []
for f in sorted(glob.glob(os.path.join(ROOT, "seeded", "*", "meta.json"))):
    d = json.load(open(f))
    caught = []
    for p, c in sorted(d.get("checks", {}).items()):
        if c.get("rc") == 1:
            sigs = []
            for l in c.get("lines", []):
                if l.startswith("BROKEN"):
                    kind = l.split("]")[0].replace("BROKEN[", "")
                    sig = l.split("] ", 1)[1].split(":")
                    sig = ":".join(sig[:3]).split(" ")[0].rstrip(":")
                    t = "%s %s" % (kind, sig)
                    if t not in sigs:
                        sigs.append(t)
            caught.append("%s (%s)" % (p, "; ".join(sigs[:3])))
    if d.get("kind") == "harmless":
        continue
    rows.append((d["seed"], (d.get("title") or "").replace("|", "/")[:110], (d.get("needs") or "").replace("|", "/").replace("\n", " ")[:140],
                 "yes" if d.get("valid_seed") else "NO", ", ".join(caught) if caught else "**missed**"))
print("| seed | change (files: see seeded/<seed>/patch.diff) | needs | confirmed | caught by |")
print("|---|---|---|---|---|")
for r in rows:
    print("| %s | %s | %s | %s | %s |" % r)

hrows = []
for f in sorted(glob.glob(os.path.join(ROOT, "seeded", "*", "meta.json"))):
    d = json.load(open(f))
    if d.get("kind") != "harmless":
        continue
    al = []
    for p, c in sorted(d.get("checks", {}).items()):
        if c.get("rc") != 0:
            first = next((l for l in c.get("lines", []) if l.startswith("BROKEN")), "")
            al.append("%s: %s" % (p, first[:120].replace("|", "/")))
    hrows.append((d["seed"], (d.get("title") or "").replace("|", "/")[:140], "yes" if d.get("valid_seed") else "NO",
                  "; ".join(al) if al else "quiet (exit 0)"))
if hrows:
    print()
    print("Harmless refactorings (behaviour-preserving rewrites of the anchored code by independent sub-agents; every check should stay at exit 0):")
    print()
    print("| seed | refactoring | confirmed harmless | checks |")
    print("|---|---|---|---|")
    for r in hrows:
        print("| %s | %s | %s | %s |" % r)
