#!/usr/bin/env python3
"""Regenerate MANIFEST.json from tools/props.py (claimed checks) and properties.jsonl."""
import json, os, subprocess, sys
ROOT = os.path.dirname(os.path.dirname(os.path.abspath(__file__)))
sys.path.insert(0, os.path.join(ROOT, "tools"))
from props import PROPS
props = [json.loads(l) for l in open(os.path.join(ROOT, "properties.jsonl"))]
NA = {}  # property id -> reason, for properties that are genuinely not claimed
na_file = os.path.join(ROOT, "tools", "not_applicable.json")
if os.path.exists(na_file):
    NA = json.load(open(na_file))
hooks = subprocess.run(["git", "-C", "/repo", "log", "--format=%h %s"], capture_output=True, text=True).stdout.split("\n")
hook_commits = [l.split(" ")[0] for l in hooks if "verif hook" in l]
checks = []
for p in props:
    pid = p["id"]
    if pid not in PROPS:
        continue
    cfg = PROPS[pid]
    checks.append({
        "property_id": pid,
        "quick_cmd": "./check %s --tier quick" % pid,
        "thorough_cmd": "./check %s --tier thorough" % pid,
        "evidence_file": "/verif/evidence/%s.json" % pid,
        "replay_cmd_template": "./check %s --replay {path}" % pid,
        "engine": "lean4-model+correspondence",
        "level_claimed": {
            "category": "proof",
            "text": cfg.get("level_text", "Lean 4 theorems (kernel-checked, unbounded) about an executable model of the code; the model is tied to /repo on every run by regenerated source facts and/or a differential correspondence check that runs the model and the real code on the same cases; the property's own oracle is evaluated on the real code to find a concrete failing input when a tie breaks"),
            "design_ref": "DESIGN.md §5 %s and §12" % pid},
        "level_note": cfg.get("level_note", "trusted: Lean kernel + propext/Classical.choice/Quot.sound; hand-written model (see evidence trusted_base) validated against the real code by the correspondence harness on every run; third-party libraries and the Go runtime are assumed"),
        "technique": cfg.get("technique", "Lean 4 proof (induction / invariants over a model) + model-vs-code correspondence"),
    })
m = {
    "version": 1,
    "setup_cmd": "./setup.sh",
    "hooks": {
        "guard": "verif",
        "enable": "go build -tags verif (harness module replaces github.com/henrylee2cn/erpc/v6 => /repo)",
        "baseline_off_cmd": "for m in $(cat /w/out/gomods.txt); do MF=$(cd /repo/$m && . /w/out/goenv.sh && gomodflag); (cd /repo/$m && go test $MF -json -vet=off -count=1 -timeout 25m ./...); done",
        "source_commits": hook_commits,
        "add_only": True},
    "engines": [{"name": "lean4-model+correspondence", "path": "/verif/check",
                 "serves_properties": [c["property_id"] for c in checks],
                 "kind_free_text": "Lean 4 proofs over an executable model (lean/), Go conformance harness (harness/), python orchestration (tools/)"}],
    "checks": checks,
    "not_applicable": [{"property_id": p["id"], "reason": NA.get(p["id"], "check under construction in this round (model and theorems planned in DESIGN.md §5); not claimed until its check runs clean")}
                       for p in props if p["id"] not in PROPS],
    "notes": "see DESIGN.md; known findings in known_findings.json",
}
json.dump(m, open(os.path.join(ROOT, "MANIFEST.json"), "w"), indent=1)
print("claimed:", [c["property_id"] for c in checks])
