-- root of the library: every model, lemma and property module
import Teleport.Model.Bytes
import Teleport.Model.Num
import Teleport.Model.Args
import Teleport.Model.Status
import Teleport.Model.Xfer
import Teleport.Model.RawProto
import Teleport.Lemmas.Bytes
import Teleport.Lemmas.Args
import Teleport.Lemmas.Num
import Teleport.Lemmas.Status
import Teleport.Lemmas.Raw
import Teleport.Props.C05
import Teleport.Drv.C05
