import Teleport.Model.Bytes
import Teleport.Model.Num
import Teleport.Model.Args
import Teleport.Model.Status
import Teleport.Model.Xfer
import Teleport.Model.RawProto
