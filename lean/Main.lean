import Teleport.Drv.C01
import Teleport.Drv.C02
import Teleport.Drv.C03
import Teleport.Drv.C05
import Teleport.Drv.C05j
import Teleport.Drv.C05t
import Teleport.Drv.C05w
import Teleport.Drv.C05h
import Teleport.Drv.C06
import Teleport.Drv.C07
import Teleport.Drv.C08
import Teleport.Drv.C08p
import Teleport.Drv.C09
import Teleport.Drv.C10
import Teleport.Drv.C11
import Teleport.Drv.C12
import Teleport.Drv.C13
import Teleport.Drv.C13G
import Teleport.Drv.C14
import Teleport.Drv.C15
import Teleport.Drv.C16
import Teleport.Drv.C17
import Teleport.Drv.C18
import Teleport.Drv.C19
import Teleport.Drv.C20
open Teleport.Drv

/-- every case kind of the line protocol with its model handler (one list per property module). -/
def allHandlers : List (String × (Fields → String)) :=
  handlersC01 ++ handlersC02 ++ handlersC03 ++ handlersC05 ++ handlersC05j ++ handlersC05t ++ handlersC05w ++ handlersC05h ++ handlersC06 ++ handlersC07 ++ handlersC08 ++ handlersC08p ++ handlersC09 ++ handlersC10 ++ handlersC11 ++ handlersC12 ++ handlersC13 ++ handlersC13G ++ handlersC14 ++ handlersC15 ++ handlersC16 ++ handlersC17 ++ handlersC18 ++ handlersC19 ++ handlersC20

def handle (line : String) : String :=
  match (line.trimAscii.toString.splitOn " ").filter (· ≠ "") with
  | [] => "bad-op"
  | kind :: rest =>
    match allHandlers.find? (·.1 == kind) with
    | some (_, h) => h (parseFields rest)
    | none => if kind.startsWith "x" then "oracle-only" else "bad-kind"

partial def loop (h : IO.FS.Stream) (out : IO.FS.Stream) : IO Unit := do
  let line ← h.getLine
  if line.isEmpty then return ()
  out.putStrLn (handle line)
  loop h out

def main : IO Unit := do
  let out ← IO.getStdout
  loop (← IO.getStdin) out
  out.flush
