import Teleport.Drv.C05
open Teleport.Drv

def handle (line : String) : String :=
  match (line.trimAscii.toString.splitOn " ").filter (· ≠ "") with
  | [] => "bad-op"
  | kind :: rest =>
    let f := parseFields rest
    if kind == "rawpack" || kind == "rawunpack" || kind == "rawstream" then c05 kind f
    else "bad-kind"

partial def loop (h : IO.FS.Stream) (out : IO.FS.Stream) : IO Unit := do
  let line ← h.getLine
  if line.isEmpty then return ()
  out.putStrLn (handle line)
  loop h out

def main : IO Unit := do
  let out ← IO.getStdout
  loop (← IO.getStdin) out
  out.flush
