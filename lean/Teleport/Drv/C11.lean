/-
Drv/C11 — line-protocol handlers for the codec model (plain, form, wrapper arms, message body).

Value syntax (no spaces, no `=`):
  leaf   b0 b1 | i<bits>:<int> | u<bits>:<nat> | s:<hex> | y:<hex> | o
  kind   b | i<bits> | u<bits> | s | y | o
  value  leaf | L<kind>[leaf,…] | A<kind>[leaf,…] | {<namehex>/<taghex>/<0|1>~value;…}
  plain destination  nil | ptr:<value> | val:<value> | nval:<value> | nilptr:<kind>:<0|1>
  form destination   nil | map | ptr:<value>
  form map           <khex>:<vhex>,<vhex>;…   (`!` = no values, `-` = empty string / empty map)
-/
import Teleport.Drv.Util
import Teleport.Model.Codec
namespace Teleport.Drv
open Teleport Teleport.Codec

/-! ### printing -/

def showKind : Kind → String
  | .bool => "b"
  | .int b => s!"i{b}"
  | .uint b => s!"u{b}"
  | .str => "s"
  | .bytes => "y"
  | .other => "o"

def showSc : Sc → String
  | .bool b => if b then "b1" else "b0"
  | .int b i => s!"i{b}:{i}"
  | .uint b n => s!"u{b}:{n}"
  | .str s => "s:" ++ hexOr s
  | .bytes s => "y:" ++ hexOr s
  | .other => "o"

def showVal : Val → String
  | .sc s => showSc s
  | .slice k vs => "L" ++ showKind k ++ "[" ++ ",".intercalate (vs.map showSc) ++ "]"
  | .array k vs => "A" ++ showKind k ++ "[" ++ ",".intercalate (vs.map showSc) ++ "]"
  | .snil => "{}"
  | .scons n t s v r =>
    let f := hexOr n ++ "/" ++ hexOr t ++ "/" ++ (if s then "1" else "0") ++ "~" ++ showVal v
    match r with
    | .snil => "{" ++ f ++ "}"
    | _ => "{" ++ f ++ ";" ++ ((showVal r).drop 1).toString

def showForm (q : Form) : String :=
  if q.isEmpty then "-" else
  ";".intercalate ((sortKeys q).map fun (k, vs) =>
    hexOr k ++ ":" ++ (if vs.isEmpty then "!" else ",".intercalate (vs.map hexOr)))

def showPDest : PDest → String
  | .nilIface => "nil"
  | .ptr v => "ptr:" ++ showVal v
  | .byVal v n => (if n then "nval:" else "val:") ++ showVal v
  | .nilPtr k n => "nilptr:" ++ showKind k ++ ":" ++ (if n then "1" else "0")

def showFDest : FDest → String
  | .nilIface => "nil"
  | .values q => "map:" ++ showForm q
  | .ptr v => "ptr:" ++ showVal v

def showOutcome {α : Type} (f : α → String) : Outcome α → String
  | .ok a => "ok:" ++ f a
  | .err => "err"
  | .panic => "panic"

/-! ### parsing -/

abbrev P (α : Type) := List Char → Option (α × List Char)

def pNat : P Nat := fun cs =>
  let ds := cs.takeWhile Char.isDigit
  if ds.isEmpty then none else (String.ofList ds).toNat?.map (·, cs.dropWhile Char.isDigit)

def pInt : P Int := fun cs =>
  match cs with
  | '-' :: r => (pNat r).map fun (n, r') => (-(n : Int), r')
  | _ => (pNat cs).map fun (n, r') => ((n : Int), r')

def pHex : P Bytes := fun cs =>
  let isH := fun (c : Char) => c.isAlphanum || c == '-'
  (ofHex (String.ofList (cs.takeWhile isH))).map (·, cs.dropWhile isH)

def pKind : P Kind := fun cs =>
  match cs with
  | 'b' :: r => some (.bool, r)
  | 'i' :: r => (pNat r).map fun (n, r') => (.int n, r')
  | 'u' :: r => (pNat r).map fun (n, r') => (.uint n, r')
  | 's' :: r => some (.str, r)
  | 'y' :: r => some (.bytes, r)
  | 'o' :: r => some (.other, r)
  | _ => none

def pSc : P Sc := fun cs =>
  match cs with
  | 'b' :: '0' :: r => some (.bool false, r)
  | 'b' :: '1' :: r => some (.bool true, r)
  | 'i' :: r => do
    let (b, r1) ← pNat r
    match r1 with
    | ':' :: r2 => (pInt r2).map fun (i, r3) => (.int b i, r3)
    | _ => none
  | 'u' :: r => do
    let (b, r1) ← pNat r
    match r1 with
    | ':' :: r2 => (pNat r2).map fun (n, r3) => (.uint b n, r3)
    | _ => none
  | 's' :: ':' :: r => (pHex r).map fun (h, r') => (.str h, r')
  | 'y' :: ':' :: r => (pHex r).map fun (h, r') => (.bytes h, r')
  | 'o' :: r => some (.other, r)
  | _ => none

/-- `leaf,leaf,…]` -/
partial def pScList (cs : List Char) (acc : List Sc) : Option (List Sc × List Char) :=
  match cs with
  | ']' :: r => some (acc.reverse, r)
  | ',' :: r => (pSc r).bind fun (s, r') => pScList r' (s :: acc)
  | _ => if acc.isEmpty then (pSc cs).bind fun (s, r') => pScList r' [s] else none

mutual
partial def pVal (cs : List Char) : Option (Val × List Char) :=
  match cs with
  | 'L' :: r => do
    let (k, r1) ← pKind r
    match r1 with
    | '[' :: r2 => (pScList r2 []).map fun (l, r3) => (.slice k l, r3)
    | _ => none
  | 'A' :: r => do
    let (k, r1) ← pKind r
    match r1 with
    | '[' :: r2 => (pScList r2 []).map fun (l, r3) => (.array k l, r3)
    | _ => none
  | '{' :: '}' :: r => some (.snil, r)
  | '{' :: r => pFields r
  | _ => (pSc cs).map fun (s, r) => (.sc s, r)

/-- `name/tag/s~value;…}` -/
partial def pFields (cs : List Char) : Option (Val × List Char) := do
  let (n, r1) ← pHex cs
  let r2 ← (match r1 with | '/' :: r => some r | _ => none)
  let (t, r3) ← pHex r2
  let (st, r4) ← (match r3 with
    | '/' :: '1' :: '~' :: r => some (true, r)
    | '/' :: '0' :: '~' :: r => some (false, r)
    | _ => none)
  let (v, r5) ← pVal r4
  match r5 with
  | '}' :: r => some (.scons n t st v .snil, r)
  | ';' :: r => (pFields r).map fun (rest, r') => (.scons n t st v rest, r')
  | _ => none
end

def parseVal (s : String) : Option Val :=
  match pVal s.toList with
  | some (v, []) => some v
  | _ => none

def parsePDest (s : String) : Option PDest :=
  if s == "nil" then some .nilIface
  else if s.startsWith "ptr:" then (parseVal (s.drop 4).toString).map .ptr
  else if s.startsWith "val:" then (parseVal (s.drop 4).toString).map (.byVal · false)
  else if s.startsWith "nval:" then (parseVal (s.drop 5).toString).map (.byVal · true)
  else if s.startsWith "nilptr:" then
    match pKind (s.drop 7).toString.toList with
    | some (k, [':', '1']) => some (.nilPtr k true)
    | some (k, [':', '0']) => some (.nilPtr k false)
    | _ => none
  else none

def parseFDest (s : String) : Option FDest :=
  if s == "nil" then some .nilIface
  else if s == "map" then some (.values [])
  else if s.startsWith "ptr:" then (parseVal (s.drop 4).toString).map .ptr
  else none

def parseForm (s : String) : Option Form :=
  if s == "-" then some [] else
  (s.splitOn ";").mapM fun e =>
    match e.splitOn ":" with
    | [k, vs] => do
      let k' ← ofHex k
      let vs' ← if vs == "!" then some [] else (vs.splitOn ",").mapM ofHex
      pure (k', vs')
    | _ => none

/-! ### handlers -/

def encShow : Option Bytes → String
  | some b => "enc=" ++ hexOr b
  | none => "enc=err"

/-- the "library" of a wrapper-arm case: only `marshal emptyMsg` is ever evaluated. -/
def armLib (emptyEnc : Bytes) : Lib Unit := { marshal := fun _ => some emptyEnc, unmarshal := fun _ _ => some (), emptyMsg := () }

def c11 (kind : String) (f : Fields) : String :=
  match kind with
  | "plain-rt" =>
    match (f.get "val").bind parseVal with
    | some v =>
      match plainEncode v with
      | none => "enc=err"
      | some b => s!"enc={hexOr b} dec={showOutcome showPDest (plainDecode b (.ptr v.zero))}"
    | none => "bad-case"
  | "plain-nil" => encShow (plainMarshal none)
  | "plain-dec" =>
    match (f.get "dst").bind parsePDest, f.hex "data" with
    | some d, some b => showOutcome showPDest (plainDecode b d)
    | _, _ => "bad-case"
  | "form-rt" =>
    match (f.get "val").bind parseVal with
    | some v =>
      match formEncode v with
      | none => "enc=err"
      | some b => s!"enc={hexOr b} dec={showOutcome showFDest (formDecode b (.ptr v.zero))}"
    | none => "bad-case"
  | "form-nil" => encShow (formMarshal .nilIface)
  | "form-dec" =>
    match (f.get "dst").bind parseFDest, f.hex "data" with
    | some d, some b => showOutcome showFDest (formDecode b d)
    | _, _ => "bad-case"
  | "form-map" =>
    match (f.get "q").bind parseForm with
    | some q =>
      match formMarshal (.values q) with
      | none => "enc=err"
      | some b => s!"enc={hexOr b} dec={showOutcome showFDest (formDecode b (.values []))}"
    | none => "bad-case"
  | "wrap-arm" =>
    match f.get "arg", f.hex "emptyenc", f.hex "data" with
    | some a, some ee, some data =>
      let arg : Option (WArg Unit) := if a == "empty" then some .empty else if a == "other" then some .other else none
      match arg with
      | some w =>
        encShow (wrapMarshal (armLib ee) w) ++ " dec=" ++ (match wrapUnmarshal (armLib ee) data w with | some _ => "ok" | none => "err")
      | none => "bad-case"
    | _, _, _ => "bad-case"
  | "reg" =>
    match f.nat "id" with
    | some id => (match regGet builtinIds id.toUInt8 with | some n => "ok:" ++ n | none => "err")
    | none => "bad-case"
  | "body" =>
    -- codec: 115 = plain (modelled), anything else in these cases is an unregistered id
    match f.get "b", f.hex "cur", f.hex "data", f.nat "codec" with
    | some bk, some cur, some data, some cid =>
      let codec : Val → Option Bytes := fun v => if cid == 115 then plainEncode v else none
      let codecB : Bytes → Bytes → Option Bytes := fun d c =>
        if cid == 115 then (match plainDecode d (.byVal (.sc (.bytes c)) false) with
          | .ok (.byVal (.sc (.bytes r)) _) => some r | _ => none) else none
      let codecV : Bytes → Val → Option Val := fun _ _ => none
      let body : Option (Body Val) :=
        if bk == "nil" then some .nilBody else if bk == "bytes" then some (.bytes cur)
        else if bk == "ptr" then some (.bytesPtr cur) else if bk == "nilptr" then some .bytesPtrNil else none
      match body with
      | some b =>
        let showB : Body Val → String := fun
          | .nilBody => "nil" | .bytes x => "bytes:" ++ hexOr x | .bytesPtr x => "ptr:" ++ hexOr x
          | .bytesPtrNil => "nilptr" | .other _ => "other"
        encShow (marshalBody codec b) ++ " dec=" ++ showOutcome showB (unmarshalBody codecB codecV data b)
      | none => "bad-case"
    | _, _, _, _ => "bad-case"
  | "lib-rt" => "test"
  | "float-rt" => "test"
  | _ => "bad-kind"

/-- case kinds served by this module. -/
def handlersC11 : List (String × (Fields → String)) :=
  ["plain-rt", "plain-nil", "plain-dec", "form-rt", "form-nil", "form-dec", "form-map", "wrap-arm",
   "reg", "body", "lib-rt", "float-rt"].map (fun k => (k, c11 k))

end Teleport.Drv
