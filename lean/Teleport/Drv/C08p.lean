/-
Drv/C08p — peer-level cases of C08 (harness/cmd/conform/c08p.go).

Case line:  c08p roles=<a|s|d>... late=<none|ha|hs|hd|us|ud|na|ns|nd> sched=<tok,...>

The ordinary sessions (one per letter of `roles`: accepted by the listener / `ServeConn` / `Dial`) are
driven by the gate schedule exactly as in Drv/C08 (the per-session machine does not depend on how the
session came to be). The outcome of the `late` connection — one whose establishment overlaps
`Peer.Close` — is computed by RUNNING Model/PeerClose (`PeerClose.prun`): the ordinary sessions are
established by their roles' event sequences, the late connection goes as far as its mode says,
`Peer.Close` runs to its return (`pStart, pLis, pRange, pVisit` for every session in the hub,
`pRangeEnd`, the spawned closers, `pRecv` for each, `pRet`) when the schedule made it return, then the
late connection is released. `refused` = some step of it is not enabled (a closed listener accepts
nothing); `alive` = the late session is live, status Ok, nobody closing it; `:hrun` = its handler,
entered before `Peer.Close` was called, is still in its body in the state in which `Peer.Close` has
returned.
-/
import Teleport.Drv.C08
import Teleport.Model.PeerClose
namespace Teleport.Drv
open Teleport Teleport.Graceful

namespace D08p
open Teleport.PeerClose

def estab (r : Char) (i : Nat) : List PeerClose.PEv :=
  if r == 'a' then [.accept, .hookOk i, .goLive i]
  else if r == 's' then [.serveConn, .hookOk i, .hubSet i]
  else [.dial, .hookOk i, .hubSet i]

def first (r : Char) : PeerClose.PEv :=
  if r == 'a' then .accept else if r == 's' then .serveConn else .dial

def rest (r : Char) (i : Nat) : List PeerClose.PEv :=
  if r == 'a' then [.hookOk i, .goLive i] else [.hookOk i, .hubSet i]

def closerEvs (i : Nat) : List PeerClose.PEv :=
  [Ev.xStart, .xHubdel, .xCtxWait, .xCallWait, .xStClosed, .xSock, .xRet].map (PeerClose.PEv.sess i)

/-- `Peer.Close` from its call to its return, on sessions that have nothing in flight. -/
def runPeerClose (p : PeerClose.PSt) : Option PeerClose.PSt :=
  (PeerClose.prun p [.pStart, .pLis, .pRange]).bind fun p1 =>
    let w := hubIdx p1.ss
    (PeerClose.prun p1 (w.map .pVisit ++ [.pRangeEnd])).bind fun p2 =>
      (PeerClose.prun p2 (w.flatMap closerEvs)).bind fun p3 =>
        PeerClose.prun p3 (w.map .pRecv ++ [.pRet])

/-- the late session's handler: a CALL arrives, is read, counted, entered. -/
def enterEvs (l : Nat) : List PeerClose.PEv :=
  [Ev.envCall 7, .rTop, .rRead, .rCheck, .rAdd, .hEnter 0].map (PeerClose.PEv.sess l)

def finishEvs (l : Nat) : List PeerClose.PEv :=
  [Ev.hBody 0, .hCheck 0, .hWrite 0, .hFin 0].map (PeerClose.PEv.sess l)

def aliveAt (p : PeerClose.PSt) (l : Nat) : Bool :=
  match p.ss[l]? with
  | some s => s.ph == .live && s.st.status == .ok && s.st.closer == .idle
  | none => false

def hrunAt (p : PeerClose.PSt) (l : Nat) : Bool :=
  p.pc == .ret &&
    match p.ss[l]? with
    | some s => s.st.hs.any fun h => h.pc == .entered && h.ebc
    | none => false

/-- the outcome of the late connection. -/
def lateObs (roles : List Char) (mode : String) (joined : Bool) : String :=
  if mode == "none" then "none" else
  match mode.toList with
  | [m, r] =>
    let l := roles.length
    let pre : List PeerClose.PEv := ((List.range l).zip roles).flatMap fun (i, c) => estab c i
    let before : List PeerClose.PEv :=
      if m == 'h' then [first r]
      else if m == 'u' then [first r, .hookOk l] ++ enterEvs l
      else []
    let after : List PeerClose.PEv :=
      if m == 'h' then rest r l
      else if m == 'u' then finishEvs l ++ [.hubSet l]
      else estab r l
    match PeerClose.prun PeerClose.PSt.init (pre ++ before) with
    | none => "model-stuck"
    | some p0 =>
      match (if joined then runPeerClose p0 else some p0) with
      | none => "model-stuck"
      | some p1 =>
        let hrun := m == 'u' && hrunAt p1 l
        match PeerClose.prun p1 after with
        | none => "refused"
        | some p2 => if aliveAt p2 l then (if hrun then "alive:hrun" else "alive") else "refused"
  | _ => "bad-mode"

/-- the reader has executed the `sessHub.delete` at the head of `readDisconnected` (or left through
    one of its early returns, which presuppose a closer past its own delete). -/
def readerGone (r : RPc) : Bool :=
  match r with
  | .dwait _ | .dcancel _ | .dloop _ _ | .dlock _ _ _ | .dsock | .rexit => true
  | _ => false

/-- `Peer.Close` on the simulated sessions, with the hub as Model/PeerClose has it: a session whose own
    `Close()` is running but has not yet passed `sessHub.delete` (closer at `close.cas`) is still in the
    hub, so `Peer.Close` spawns a `sess.Close()` for it too — that call blocks on `session.lock` until
    the running one has returned — and joins it. (Drv/C08's `peerClose` never meets this: its cases
    call `Peer.Close` only on sessions nobody is closing.) -/
def peerCloseP (p : D08.PSim) : List D08.PSim :=
  if p.pc ≠ .idle then [p] else
  let idx := List.range p.ss.length
  let w := idx.filter fun i => match p.ss[i]? with
    | some m => m.st.closer == .idle
    | none => false
  let extra := idx.filter fun i => match p.ss[i]? with
    | some m => m.st.closer == .cas && !readerGone m.st.reader
    | none => false
  let p := { p with pc := .spawned, spawned := w ++ extra, log := "pcl" :: p.log }
  (w.foldl (fun (qs : List D08.PSim) i => (qs.flatMap fun q => (D08.sessTok q i "cl").1).eraseDups) [p]).map D08.tryJoin

def topTokP (p : D08.PSim) (t : String) : List D08.PSim :=
  if t == "pcl" then peerCloseP p else D08.topTok p t

def c08p (f : Fields) : String :=
  match f.get "roles", f.get "late", f.get "sched" with
  | some roles, some mode, some sched =>
    let n := roles.length
    let p0 : D08.PSim := { ss := List.replicate n D08.Sim.init }
    let ps := (sched.splitOn ",").foldl (fun (ps : List D08.PSim) t => (ps.flatMap (topTokP · t)).eraseDups) [p0]
    " || ".intercalate (ps.map fun p =>
      D08.render p ++ " | late=" ++ lateObs roles.toList mode (p.pc == .joined)).eraseDups
  | _, _, _ => "bad-case"

end D08p

def handlersC08p : List (String × (Fields → String)) := [("c08p", D08p.c08p)]

end Teleport.Drv
