/-
Drv/Util — line-protocol helpers for the model driver (hex, key=value fields). Core Lean only.
-/
import Teleport.Model.Bytes
namespace Teleport.Drv

def hexDigit (n : Nat) : Char := if n < 10 then Char.ofNat (48 + n) else Char.ofNat (87 + n)

def toHex (b : Bytes) : String :=
  String.ofList (b.foldr (fun c acc => hexDigit (c.toNat / 16) :: hexDigit (c.toNat % 16) :: acc) [])

def hexNib (c : Char) : Option Nat :=
  if '0' ≤ c ∧ c ≤ '9' then some (c.toNat - 48)
  else if 'a' ≤ c ∧ c ≤ 'f' then some (c.toNat - 87)
  else if 'A' ≤ c ∧ c ≤ 'F' then some (c.toNat - 55)
  else none

def ofHexList : List Char → Option Bytes
  | [] => some []
  | a :: b :: r => do
    let x ← hexNib a; let y ← hexNib b; let t ← ofHexList r
    pure ((x * 16 + y).toUInt8 :: t)
  | _ => none

/-- `-` stands for the empty string. -/
def ofHex (s : String) : Option Bytes := if s == "-" then some [] else ofHexList s.toList

def hexOr (b : Bytes) : String := if b.isEmpty then "-" else toHex b

abbrev Fields := List (String × String)

def parseFields (toks : List String) : Fields :=
  toks.filterMap (fun t => match t.splitOn "=" with
    | k :: v :: r => some (k, "=".intercalate (v :: r))
    | _ => none)

def Fields.get (f : Fields) (k : String) : Option String := (f.find? (·.1 == k)).map (·.2)
def Fields.nat (f : Fields) (k : String) : Option Nat := (f.get k).bind String.toNat?
def Fields.int (f : Fields) (k : String) : Option Int := (f.get k).bind String.toInt?
def Fields.hex (f : Fields) (k : String) : Option Bytes := (f.get k).bind ofHex

/-- `k1:v1,k2:v2` with hex halves; `-` = empty list. -/
def parseKVs (s : String) : Option (List (Bytes × Bytes)) :=
  if s == "-" then some [] else
  (s.splitOn ",").mapM (fun p => match p.splitOn ":" with
    | [k, v] => do let k' ← ofHex k; let v' ← ofHex v; pure (k', v')
    | _ => none)

def showKVs (l : List (Bytes × Bytes)) : String :=
  if l.isEmpty then "-" else ",".intercalate (l.map (fun (k, v) => hexOr k ++ ":" ++ hexOr v))

end Teleport.Drv
