import Teleport.Drv.Util
import Teleport.Drv.TestFilters
import Teleport.Model.RawProto
namespace Teleport.Drv.D06
open Teleport Teleport.Drv

/-- one alternative of the observation: class, bytes consumed, and whether the largest buffer
    request respected the limit. -/
def show1 (lim : Nat) (r : Raw.Read) : String :=
  let cls := match r.out with
    | .ok _ rest => s!"ok rest={rest.length}"
    | .eof => "eof"
    | .size => "size"
    | .reject _ => "reject"
  s!"{cls} consumed={r.consumed} bounded={if r.alloc ≤ max lim 4 then 1 else 0}"

def c06unpack (f : Fields) : String :=
  match f.hex "bytes", f.nat "limit" with
  | some b, some lim =>
    let a := show1 lim (Raw.unpack testReg lim 0 b)
    let c := show1 lim (Raw.unpack testReg lim 1048576 b)
    if a == c then a else a ++ " || " ++ c
  | _, _ => "bad-case"

def handlers : List (String × (Fields → String)) :=
  [("c06unpack", c06unpack), ("xlive", fun _ => "oracle-only"), ("xproto", fun _ => "oracle-only")]

end Teleport.Drv.D06

namespace Teleport.Drv
def handlersC06 : List (String × (Fields → String)) := D06.handlers
end Teleport.Drv
