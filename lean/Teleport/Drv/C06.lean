import Teleport.Drv.Util
import Teleport.Drv.TestFilters
import Teleport.Model.RawProto
namespace Teleport.Drv.D06
open Teleport Teleport.Drv

/-- the observation: class, bytes consumed, whether the largest buffer request and the largest read
    request respected the limit, and the largest length one `io.ReadFull` asked the connection to fill. -/
def show1 (lim : Nat) (r : Raw.Read) : String :=
  let cls := match r.out with
    | .ok _ rest => s!"ok rest={rest.length}"
    | .eof => "eof"
    | .size => "size"
    | .reject _ => "reject"
  s!"{cls} consumed={r.consumed} bounded={if r.alloc ≤ max lim 4 ∧ r.maxReq ≤ max lim 4 then 1 else 0} ask={r.maxReq}"

/-- `c06unpack` and `c06primed` (the field `prime` — the size of the frame unpacked just before — does
    not enter: what `readMessage` does is independent of the recycled buffer's capacity). -/
def c06unpack (f : Fields) : String :=
  match f.hex "bytes", f.nat "limit" with
  | some b, some lim =>
    show1 lim (Raw.unpack testReg lim b)
  | _, _ => "bad-case"

def handlers : List (String × (Fields → String)) :=
  [("c06unpack", c06unpack), ("c06primed", c06unpack), ("xlive", fun _ => "oracle-only"), ("xproto", fun _ => "oracle-only")]

end Teleport.Drv.D06

namespace Teleport.Drv
def handlersC06 : List (String × (Fields → String)) := D06.handlers
end Teleport.Drv
