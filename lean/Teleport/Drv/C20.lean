/-
Drv/C20 — line-protocol handlers for property C20: the model runs the previous user's operation
sequence on a pooled object, puts it back (`Reset`/`clean`), runs the next user's sequence and prints
the canonical observation line that the Go harness prints for the *recycled real* object.
Case kinds: c20args, c20msg, c20pipe, c20buf, c20ctx, c20sock.
-/
import Teleport.Drv.Util
import Teleport.Drv.TestFilters
import Teleport.Model.Pool
namespace Teleport.Drv
open Teleport Teleport.Pool

namespace C20D

def listOf (sep : String) (s : String) : List String := if s == "-" then [] else s.splitOn sep

/-- `K.V+K.V` with hex halves. -/
def kvs (s : String) : Option (List KV) :=
  (listOf "+" s).mapM (fun p => match p.splitOn "." with
    | [k, v] => do let k' ← ofHex k; let v' ← ofHex v; pure (k', v')
    | _ => none)

def ids (s : String) : Option (List UInt8) := ofHex s

def aop : List String → Option AOp
  | ["a", k, v] => do pure (.add (← ofHex k) (← ofHex v))
  | ["s", k, v] => do pure (.set (← ofHex k) (← ofHex v))
  | ["d", k] => do pure (.del (← ofHex k))
  | ["p", k] => do pure (.peek (← ofHex k))
  | ["h", k] => do pure (.has (← ofHex k))
  | ["P", b] => do pure (.parse (← ofHex b))
  | ["S", b] => do pure (.parseStr (← ofHex b))
  | ["q"] => some .query
  | ["r"] => some .reset
  | ["c", l] => do pure (.copyFrom (← kvs l))
  | _ => none

def xop : List String → Option XOp
  | ["a", l] => do pure (.append (← ids l))
  | ["f", l] => do pure (.appendFrom (← ids l))
  | ["r"] => some .reset
  | _ => none

def bop : List String → Option BOp
  | ["w", b] => do pure (.write (← ofHex b))
  | ["s", b] => do pure (.set (← ofHex b))
  | ["r"] => some .reset
  | ["f", b] => do pure (.readFull (← ofHex b))
  | _ => none

def optNat (s : String) : Option (Option Nat) := do
  let n ← s.toNat?
  pure (if n == 0 then none else some n)

def mop : List String → Option MOp
  | ["seq", n] => do pure (.setSeq (← n.toInt?))
  | ["mt", n] => do pure (.setMtype (← n.toNat?).toUInt8)
  | ["sm", s] => do pure (.setMethod (← ofHex s))
  | ["st", c, m, "nil"] => do pure (.setStatus (some ⟨← c.toInt?, ← ofHex m, none⟩))
  | ["st", c, m, ca] => do pure (.setStatus (some ⟨← c.toInt?, ← ofHex m, some (← ofHex ca)⟩))
  | ["st0"] => some (.setStatus none)
  | ["sti"] => some .statusInit
  | "m" :: r => (aop r).map .mdOp
  | ["bc", n] => do pure (.setCodec (← n.toNat?).toUInt8)
  | ["bnil"] => some (.setBody none)
  | ["b", b] => do pure (.setBody (some (← ofHex b)))
  | ["nb", n] => do pure (.setNewBody (← optNat n))
  | "x" :: r => (xop r).map .pipeOp
  | ["sz", n] => do pure (.setSize (← n.toNat?))
  | ["cx", n] => do pure (.withCtx (← optNat n))
  | ["pk"] => some .pack
  | ["rs"] => some .reset
  | _ => none

def sop : List String → Option SOp
  | ["id", s] => do pure (.setID (← ofHex s))
  | ["ss", k, v] => do pure (.swapStore (← k.toNat?) (← v.toNat?))
  | ["sw", k, v] => do pure (.swapSet [(← k.toNat?, ← v.toNat?)])
  | ["sw0"] => some (.swapSet [])
  | ["buf", b] => do pure (.buffered (← ofHex b) false)
  | ["bufeof", b] => do pure (.buffered (← ofHex b) true)
  | ["close"] => some .close
  | _ => none

def opsOf {α : Type} (p : List String → Option α) (s : String) : Option (List α) :=
  (listOf ";" s).mapM (fun t => p (t.splitOn ":"))

def packErr : Raw.PackErr → String
  | .method => "method" | .body => "body" | .xfer => "xfer" | .size => "size"

def showRet : Ret → String
  | .unit => "u"
  | .bytes b => "b" ++ hexOr (b.getD [])
  | .bool b => if b then "t" else "f"
  | .err => "e"
  | .panic => "!"
  | .packed b sz => s!"ok:{sz}:{toHex b}"
  | .packErr e => "err:" ++ packErr e

def showRets (l : List Ret) : String := if l.isEmpty then "-" else ",".intercalate (l.map showRet)

def showArgs (a : PArgs) : String :=
  s!"len={a.obs.len} pairs={showKVs a.obs.pairs} q={hexOr a.obs.query}"

/-- run collecting the results (the state is threaded). -/
def runA (a : PArgs) : List AOp → PArgs × List Ret
  | [] => (a, [])
  | op :: ops => let r := runA (a.step op).1 ops; (r.1, (a.step op).2 :: r.2)

def runX (p : PPipe) : List XOp → PPipe × List Ret
  | [] => (p, [])
  | op :: ops => let r := runX (p.step testReg op).1 ops; (r.1, (p.step testReg op).2 :: r.2)

def runM (limit : Nat) (m : PMsg) : List MOp → PMsg × List Ret
  | [] => (m, [])
  | op :: ops => let r := runM limit (m.step testReg limit op).1 ops; (r.1, (m.step testReg limit op).2 :: r.2)

def showStatus : Option Status → String
  | none => "nil"
  | some s => s!"{s.code}:{hexOr s.msg}:{match s.cause with | none => "nil" | some c => hexOr c}"

def showOptBytes : Option Bytes → String
  | none => "nil"
  | some b => hexOr b

def showOptNat : Option Nat → String
  | none => "0"
  | some n => toString n

def showWire : Except Raw.PackErr (Bytes × Nat) → String
  | .ok (b, sz) => s!"ok:{sz}:{toHex b}"
  | .error e => "err:" ++ packErr e

def showMsg (limit : Nat) (m : PMsg) : String :=
  let o := m.obs testReg limit
  s!"seq={o.seq} mtype={o.mtype.toNat} method={hexOr o.method} st={showStatus o.status} meta={showKVs o.md.pairs} q={hexOr o.md.query} codec={o.codec.toNat} body={showOptBytes o.body} pipe={hexOr o.pipe} size={o.size} ctx={showOptNat o.ctx} wire={showWire o.wire} nb={showOptNat o.newBody}"

def showSwap (l : List (Nat × Nat)) : String :=
  if l.isEmpty then "-" else ",".intercalate (l.map (fun kv => s!"{kv.1}:{kv.2}"))

/-- association list sorted by key (the harness prints map entries sorted). -/
def sortSwap (l : List (Nat × Nat)) : List (Nat × Nat) :=
  l.foldl (fun acc kv => (acc.filter (·.1 < kv.1)) ++ [kv] ++ (acc.filter (·.1 > kv.1))) []

/-- dirty operations of a handler on its context (`c20ctx`). -/
def cop : List String → Option (List COp)
  | ["om", k, v] => do pure [.outOp (.mdOp (.add (← ofHex k) (← ofHex v)))]     -- ctx.AddMeta
  | ["os", k, v] => do pure [.outOp (.mdOp (.set (← ofHex k) (← ofHex v)))]     -- ctx.SetMeta
  | ["ox", l] => do pure [.outOp (.pipeOp (.append (← ids l)))]                 -- ctx.AddXferPipe
  | ["oc", n] => do pure [.outOp (.setCodec (← n.toNat?).toUInt8)]              -- ctx.SetBodyCodec
  | ["sw", k, v] => do pure [.swapStore (← k.toNat?) (← v.toNat?)]              -- ctx.Swap().Store
  | ["im", k, v] => do pure [.inOp (.mdOp (.add (← ofHex k) (← ofHex v)))]      -- ctx.Input().Meta().Add
  | ["ism", s] => do pure [.inOp (.setMethod (← ofHex s))]                      -- ctx.ResetServiceMethod
  | ["ost", c, m] => do pure [.outOp (.setStatus (some ⟨← c.toInt?, ← ofHex m, none⟩))]
  | ["ob", b] => do pure [.outOp (.setBody (some (← ofHex b)))]
  | ["osz", n] => do pure [.outOp (.setSize (← n.toNat?))]
  | _ => none

def copsOf (s : String) : Option (List COp) :=
  ((listOf ";" s).mapM (fun t => cop (t.splitOn ":"))).map List.flatten

/-- what the read loop and `binding` do to a context for one incoming CALL. -/
def receive (md : List KV) (pipe : List UInt8) (method : Bytes) : List COp :=
  [.inOp (.pipeOp (.append pipe)), .inOp (.setSeq 1), .inOp (.setMtype 1), .inOp (.setMethod method),
   .inOp .statusInit, .inOp (.mdOp (.parse (Args.query md))), .inOp (.setCodec 115), .binding 10 1,
   .setHandler (some 1) (some 1), .inOp (.setBody (some []))]

/-- what `handleCall` does to the output message before it calls the handler. -/
def preHandle (pipe : List UInt8) (method : Bytes) : List COp :=
  [.outOp (.setMtype 2), .outOp (.setSeq 1), .outOp (.setMethod method), .outOp (.pipeOp (.appendFrom pipe))]

/-- what `handleCall` does to the context after the handler returned (reply). -/
def reply : List COp :=
  [.outOp (.setBody (some [49])), .outOp (.setCodec 115), .outOp .pack, .recordCost 20]

def c20 (kind : String) (f : Fields) : String :=
  match kind with
  | "c20args" =>
    match (f.get "prev").bind (opsOf aop), (f.get "next").bind (opsOf aop) with
    | some prev, some next =>
      let r := runA ((PArgs.fresh.exec prev).reset) next
      s!"rets={showRets r.2} {showArgs r.1}"
    | _, _ => "bad-case"
  | "c20pipe" =>
    match (f.get "prev").bind (opsOf xop), (f.get "next").bind (opsOf xop) with
    | some prev, some next =>
      let r := runX ((PPipe.fresh.exec testReg prev).reset) next
      s!"rets={showRets r.2} ids={hexOr r.1.obs}"
    | _, _ => "bad-case"
  | "c20buf" =>
    match (f.get "prev").bind (opsOf bop), (f.get "next").bind (opsOf bop) with
    | some prev, some next =>
      let l := ((PBuf.fresh.exec prev).reset).run next
      "data=" ++ (if l.isEmpty then "-" else ",".intercalate (l.map hexOr))
    | _, _ => "bad-case"
  | "c20msg" =>
    match (f.get "prev").bind (opsOf mop), (f.get "next").bind (opsOf mop), f.nat "limit" with
    | some prev, some next, some limit =>
      let r := runM limit ((PMsg.fresh.exec testReg limit prev).reset) next
      s!"rets={showRets r.2} {showMsg limit r.1}"
    | _, _, _ => "bad-case"
  | "c20ctx" =>
    match (f.get "dirty").bind copsOf, (f.get "dmeta").bind kvs, (f.get "dpipe").bind ids,
          (f.get "meta").bind kvs, (f.get "pipe").bind ids, (f.get "sswap").bind (opsOf sop) with
    | some dirty, some dmeta, some dpipe, some rmeta, some pipe, some sswap =>
      let lim := 1073741824
      let ss := ((PSock.new (some 1) 0).exec sswap).swap.getD []
      let dm : Bytes := [47, 99, 50, 48, 95, 100, 105, 114, 116, 121]     -- "/c20_dirty"
      let pm : Bytes := [47, 99, 50, 48, 95, 112, 114, 111, 98, 101]      -- "/c20_probe"
      let c1 := (PCtx.fresh.acquire 1 ss).exec testReg lim (receive dmeta dpipe dm ++ preHandle dpipe dm ++ dirty ++ reply)
      let c2 := (c1.acquire 1 ss).exec testReg lim (receive rmeta pipe pm ++ preHandle pipe pm)
      let o := c2.obs testReg lim
      let c3 := c2.exec testReg lim reply
      s!"in.meta={showKVs o.input.md.pairs} in.pipe={hexOr o.input.pipe} out.meta={showKVs o.output.md.pairs} out.pipe={hexOr o.output.pipe} out.codec={o.output.codec.toNat} out.st={showStatus o.output.status} out.body={showOptBytes o.output.body} out.method={hexOr o.output.method} out.mtype={o.output.mtype.toNat} out.size={o.output.size} swap={showSwap (sortSwap (o.swap.getD []))} reply.meta={showKVs c3.output.md.live} reply.pipe={hexOr c3.output.xferPipe.live}"
    | _, _, _, _, _, _ => "bad-case"
  | "c20sock" =>
    match (f.get "prev").bind (opsOf sop) with
    | some prev =>
      let s := (PSock.poolNew.exec prev).acquire (some 2) 0
      let o := s.obs
      s!"id={match o.id with | none => "-" | some b => hexOr b} swaplen={o.swapLen} swap={showSwap (sortSwap o.swap)} read={if o.buffered.isEmpty && !o.rerr then "ok" else "stale"} closed={if o.closed then 1 else 0}"
    | none => "bad-case"
  | _ => "bad-kind"

end C20D

/-- case kinds served by this module. -/
def handlersC20 : List (String × (Fields → String)) :=
  ["c20args", "c20pipe", "c20buf", "c20msg", "c20ctx", "c20sock"].map (fun k => (k, C20D.c20 k))

end Teleport.Drv
