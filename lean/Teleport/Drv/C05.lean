import Teleport.Drv.Util
import Teleport.Drv.TestFilters
import Teleport.Model.RawProto
namespace Teleport.Drv
open Teleport

def msgOfFields (f : Fields) : Option Msg := do
  let seq ← f.int "seq"
  let mtype ← f.nat "mtype"
  let method ← f.hex "method"
  let code ← f.int "code"
  let msg ← f.hex "msg"
  let cause ← match f.get "cause" with
    | some "nil" => some none
    | some h => (ofHex h).map some
    | none => none
  let md ← (f.get "meta").bind parseKVs
  let codec ← f.nat "codec"
  let body ← f.hex "body"
  let pipe ← f.hex "pipe"
  pure { seq, mtype := mtype.toUInt8, method, status := ⟨code, msg, cause⟩, md,
         codec := codec.toUInt8, body, pipe }

def showMsg (m : Msg) : String :=
  s!"seq={m.seq} mtype={m.mtype.toNat} method={hexOr m.method} code={m.status.code} msg={hexOr m.status.msg} cause={match m.status.cause with | none => "nil" | some c => hexOr c} meta={showKVs m.md} codec={m.codec.toNat} body={hexOr m.body} pipe={hexOr m.pipe} size={m.size}"

/-- decode frames until one is not ok (fuel = input length + 1). -/
def unpackAll (lim : Nat) (inp : Bytes) : Nat → List Msg → List Msg × String
  | 0, acc => (acc.reverse, "runaway")
  | fuel + 1, acc =>
    match (Raw.unpack testReg lim inp).out with
    | .ok m rest => unpackAll lim rest fuel (m :: acc)
    | .eof => (acc.reverse, "eof")
    | .size => (acc.reverse, "size")
    | .reject _ => (acc.reverse, "reject")

def c05 (kind : String) (f : Fields) : String :=
  match kind with
  | "rawpack" =>
    match msgOfFields f, f.nat "limit" with
    | some m, some lim =>
      match Raw.pack testReg lim m with
      | .ok (b, sz) => s!"ok size={sz} bytes={toHex b}"
      | .error e => "err:" ++ (match e with | .method => "method" | .body => "body" | .xfer => "xfer" | .size => "size")
    | _, _ => "bad-case"
  | "rawunpack" =>
    match f.hex "bytes", f.nat "limit" with
    | some b, some lim =>
      let show1 (r : Raw.Read) : String := match r.out with
        | .ok m rest => s!"ok {showMsg m} rest={rest.length}"
        | .eof => "eof"
        | .size => "size"
        | .reject _ => "reject"
      show1 (Raw.unpack testReg lim b)
    | _, _ => "bad-case"
  | "rawstream" =>
    match f.get "msgs", f.nat "limit", f.hex "tail" with
    | some ms, some lim, some tail =>
      let msgs := (ms.splitOn "|").map (fun l => msgOfFields (parseFields (l.splitOn ";")))
      if msgs.any Option.isNone then "bad-case" else
      let packed := msgs.filterMap (fun m => m.bind (fun m => (Raw.pack testReg lim m).toOption))
      if packed.length ≠ msgs.length then "bad-case" else
      let stream := (packed.map (·.1)).flatten ++ tail
      let (ms', endc) := unpackAll lim stream (stream.length + 1) []
      s!"n={ms'.length} end={endc} bytes={hexOr stream} msgs={"|".intercalate (ms'.map (fun m => (showMsg m).replace " " ";"))}"
    | _, _, _ => "bad-case"
  | _ => "bad-kind"

/-- case kinds served by this module. -/
def handlersC05 : List (String × (Fields → String)) :=
  ["rawpack", "rawunpack", "rawstream"].map (fun k => (k, c05 k)) ++ [("xrt", fun _ => "oracle-only")]

end Teleport.Drv
