import Teleport.Drv.Util
import Teleport.Model.Plugin
/-
Drv/C09 — line protocol of the plugin-hook model.

  c09call B=<ops> A=<ops> route=<id> hs=<code> vb=<vetoes> va=<vetoes>
  c09push B=<ops> A=<ops> route=<id> vb=<vetoes> va=<vetoes>
  c09fatal B=<ops>

ops     := `-` | op (`;` op)*
op      := L/<pl> | R/<pl> | X/<name> | S/<group>/<pl> | C/<group>/<id>/<pl> | P/<group>/<id>/<pl> | UC/<pl> | UP/<pl>
pl      := `-` | name.mask (`,` name.mask)*
vetoes  := `-` | name.stage (`,` name.stage)*      -- status code returned = 1000 + 100*name + stage
-/
namespace Teleport.Drv.D09
open Teleport.Drv
open Teleport Teleport.Plug

def splitList (sep : String) (s : String) : List String := if s == "-" then [] else s.splitOn sep

def parsePair (s : String) : Option (Nat × Nat) :=
  match s.splitOn "." with
  | [a, b] => do let x ← a.toNat?; let y ← b.toNat?; pure (x, y)
  | _ => none

def parsePl (s : String) : Option (List Plugin) :=
  (splitList "," s).mapM (fun t => (parsePair t).map (fun (n, m) => { name := n, mask := m }))

def parseOp (s : String) : Option Op :=
  match s.splitOn "/" with
  | ["L", pl] => (parsePl pl).map Op.appendLeft
  | ["R", pl] => (parsePl pl).map Op.appendRight
  | ["X", n] => n.toNat?.map Op.remove
  | ["S", g, pl] => do let g ← g.toNat?; let p ← parsePl pl; pure (Op.subRoute g p)
  | ["C", g, i, pl] => do let g ← g.toNat?; let i ← i.toNat?; let p ← parsePl pl; pure (Op.routeCall g i p)
  | ["P", g, i, pl] => do let g ← g.toNat?; let i ← i.toNat?; let p ← parsePl pl; pure (Op.routePush g i p)
  | ["UC", pl] => (parsePl pl).map Op.unknownCall
  | ["UP", pl] => (parsePl pl).map Op.unknownPush
  | _ => none

def parseOps (s : String) : Option (List Op) := (splitList ";" s).mapM parseOp

def vetoCode (name stage : Nat) : Int := Int.ofNat (1000 + 100 * name + stage)

def parseVerd (s : String) : Option Verd := do
  let l ← (splitList "," s).mapM parsePair
  pure (fun n st => if l.contains (n, st.idx) then vetoCode n st.idx else 0)

def showF (l : List Firing) : List String := l.map (fun (n, s) => s!"{n}.{s.idx}")
def showL (l : List String) : String := if l.isEmpty then "-" else ",".intercalate l

def c09 (kind : String) (f : Fields) : String :=
  match kind with
  | "c09fatal" =>
    match (f.get "B").bind parseOps with
    | some ops => if (build ops).isSome then "alive" else "fatal"
    | none => "bad-case"
  | "c09call" =>
    match (f.get "B").bind parseOps, (f.get "A").bind parseOps, f.nat "route", f.int "hs",
          (f.get "vb").bind parseVerd, (f.get "va").bind parseVerd with
    | some bo, some ao, some id, some hs, some vb, some va =>
      match build bo, build ao with
      | some B, some A =>
        let o := call A B va vb id hs
        let h := if (lookup id B.calls).isSome then s!"H{id}" else "HU"
        let bl := showF o.bpre ++ (if o.invoked then [h] else []) ++ showF o.bpost
        let st := match o.status with | some c => s!"{c}" | none => "disc"
        let wr := match o.status with | none => "x" | some _ => if o.written then "1" else "0"
        let a0 := if o.status.isNone || !o.written then "x" else showL (showF o.ahdr)
        s!"A0={a0} Aw={showL (showF o.aw)} Ar={showL (showF o.ar)} B={showL bl} wr={wr} st={st}"
      | _, _ => "fatal"
    | _, _, _, _, _, _ => "bad-case"
  | "c09push" =>
    match (f.get "B").bind parseOps, (f.get "A").bind parseOps, f.nat "route",
          (f.get "vb").bind parseVerd, (f.get "va").bind parseVerd with
    | some bo, some ao, some id, some vb, some va =>
      match build bo, build ao with
      | some B, some A =>
        let o := push A B va vb id
        let h := if (lookup id B.pushes).isSome then s!"H{id}" else "HU"
        let bl := showF o.bpre ++ (if o.invoked then [h] else [])
        -- the receiver's read loop ended at preReadHeader: the sender's write races with the disconnect
        let race := o.written && (runStage vb .preReadHeader (globalAll B)).2 != 0
        let wr := if race then "x" else if o.written then "1" else "0"
        let st := if race then "x" else s!"{o.status}"
        s!"Aw={showL (showF o.aw)} B={showL bl} wr={wr} st={st}"
      | _, _ => "fatal"
    | _, _, _, _, _ => "bad-case"
  | _ => "bad-kind"

def handlers : List (String × (Fields → String)) :=
  ["c09call", "c09push", "c09fatal"].map (fun k => (k, c09 k))

end Teleport.Drv.D09

namespace Teleport.Drv
def handlersC09 : List (String × (Fields → String)) := D09.handlers
end Teleport.Drv
