/-
Drv/C14 — model side of the C14 line protocol (PARTIAL property; the race detector is supporting evidence).

  c14race scenario=<name> seed=<n>   →   races=<sorted signatures predicted for the scenario>
                                          (every sub-list is an accepted alternative, joined by ` || `:
                                           a race is only observed under the right schedule)

The prediction is `Conc.predictedSigs`: the `knownRacy` entries of the scenario whose site still exists in the
regenerated table `Teleport.Gen.guards` and still violates its declared discipline.
-/
import Teleport.Drv.Util
import Teleport.Model.Conc
import Teleport.Gen.Guards
namespace Teleport.Drv
open Teleport.Conc

namespace D14

def table : List Site := Teleport.Gen.guards.map Site.ofRow

def render (l : List String) : String := if l.isEmpty then "races=-" else "races=" ++ ",".intercalate l

/-- recorded findings of the writer-path redial family whose racing accesses lie inside the socket's
    reader object (bufio) rather than in a watched field of the site table: the old and the new reader
    goroutine inside `socket.Read`, and `socket.Read` against `socket.Reset` (known_findings.json). The
    detector exhibits them on rare schedules only (seed 2 of a multi-seed sweep, round 3), so they are
    accepted alternatives of the `redial` scenario like the table-derived ones. Kept sorted after the
    table-derived signatures of that scenario. -/
def extraSigs (sc : String) : List String :=
  if sc == "redial" then ["c14:race:socket.go:socket.Read|socket.Read", "c14:race:socket.go:socket.Read|socket.Reset"] else []

def race (f : Fields) : String :=
  match f.get "scenario" with
  | some sc => " || ".intercalate ((sublists (predictedSigs table sc ++ extraSigs sc)).map render)
  | none => "bad-case"

end D14

def handlersC14 : List (String × (Fields → String)) := [("c14race", D14.race)]

end Teleport.Drv
