/-
Drv/C14 — model side of the C14 line protocol (PARTIAL property; the race detector is supporting evidence).

  c14race scenario=<name> seed=<n>   →   races=<sorted signatures predicted for the scenario>
                                          (every sub-list is an accepted alternative, joined by ` || `:
                                           a race is only observed under the right schedule)

The prediction is `Conc.predictedSigs`: the `knownRacy` entries of the scenario whose site still exists in the
regenerated table `Teleport.Gen.guards` and still violates its declared discipline.
-/
import Teleport.Drv.Util
import Teleport.Model.Conc
import Teleport.Gen.Guards
namespace Teleport.Drv
open Teleport.Conc

namespace D14

def table : List Site := Teleport.Gen.guards.map Site.ofRow

def render (l : List String) : String := if l.isEmpty then "races=-" else "races=" ++ ",".intercalate l

def race (f : Fields) : String :=
  match f.get "scenario" with
  | some sc => " || ".intercalate ((sublists (predictedSigs table sc)).map render)
  | none => "bad-case"

end D14

def handlersC14 : List (String × (Fields → String)) := [("c14race", D14.race)]

end Teleport.Drv
