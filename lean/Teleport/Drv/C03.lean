/-
Drv/C03 — line-protocol handlers of C03 (kind `c03`) and C04 (kinds `c04`, `c04ws`): the case
fields are turned into the inputs of Model/Dispatch and the model's observation is printed.
-/
import Teleport.Drv.Util
import Teleport.Model.Dispatch
namespace Teleport.Drv
open Teleport Teleport.Dispatch

namespace D03

def showCause : Option Bytes → String
  | none => "nil"
  | some c => hexOr c

def showStatus (s : Status) : String := s!"{s.code},{hexOr s.msg},{showCause s.cause}"

def showReply (r : Reply) : String :=
  s!"{showStatus r.status},{r.codec.toNat},{if r.hasBody then 1 else 0}"

/-- `hex:kind,hex:kind` → list of (name, kind). -/
def parseRoutes (s : String) : Option (List (Bytes × Char)) :=
  if s == "-" || s == "" then some [] else
  (s.splitOn ",").mapM fun p => match p.splitOn ":" with
    | [n, k] => do let n' ← ofHex n; let k' ← k.toList.head?; pure (n', k')
    | _ => none

/-- `kind.codec.hex,…` → marshal-error table. -/
def parseMe (s : String) : Option (List (Char × UInt8 × Bytes)) :=
  if s == "-" || s == "" then some [] else
  (s.splitOn ",").mapM fun p => match p.splitOn "." with
    | [k, c, e] => do let k' ← k.toList.head?; let c' ← c.toNat?; let e' ← ofHex e; pure (k', c'.toUInt8, e')
    | _ => none

def parseRegs (s : String) : Option (List UInt8) :=
  if s == "-" || s == "" then some [] else (s.splitOn ",").mapM fun p => p.toNat?.map (·.toUInt8)

def optNat (s : String) : Option (Option UInt8) :=
  if s == "-" then some none else s.toNat?.map fun n => some n.toUInt8

def vetoStatus (code : Int) : Status := ⟨code, [118, 101, 116, 111], some [118, 99]⟩

structure Parsed where
  item : Item

/-- one frame spec `mtype/seq/method/codec/body/accept/hb/hcode/hmsg/hcause/sc/slow/veto/derr/meta`. -/
def parseSpec (calls pushes : List (Bytes × Char)) (me : List (Char × UInt8 × Bytes)) (unk unkp : Bool)
    (t : String) : Option Item :=
  match t.splitOn "/" with
  | [mt, seq, method, cid, body, accept, hb, hcode, hmsg, hcause, sc, slow, veto, derr, _] => do
    let mt' ← mt.toNat?
    let seq' ← seq.toInt?
    let method' ← ofHex method
    let cid' ← cid.toNat?
    let body' ← ofHex body
    let accept' ← optNat accept
    let hcode' ← hcode.toInt?
    let hmsg' ← ofHex hmsg
    let hcause' ← if hcause == "nil" then some none else (ofHex hcause).map some
    let sc' ← optNat sc
    let dec ← if derr == "ok" then some none else (ofHex (derr.drop 1).toString).map some
    let isSlow := slow == "1"
    let table := if mt' == 3 then pushes else calls
    let u := if mt' == 3 then unkp else unk
    let kind : Option Char := match table.find? (·.1 == method') with
      | some (_, k) => some k
      | none => if u then some 'r' else none
    let ret : Ret := match kind with
      | some 'r' => { setCodec := sc', rawResult := true }
      | some k => { setCodec := sc', rawResult := false,
                    merr := (me.filter (·.1 == k)).map fun x => (x.2.1, x.2.2) }
      | none => { setCodec := sc' }
    let hb' : HB ← match hb with
      | "r" => some (HB.ret Status.zero ret isSlow)
      | "f" => some (HB.ret ⟨hcode', hmsg', hcause'⟩ ret isSlow)
      | "p" => some (HB.panic hmsg' isSlow)
      | _ => none
    let stage := veto.take 1 |>.toString
    let vcode := (veto.drop 1).toString.toInt?
    let pv : PV :=
      if veto == "-" then {} else
      if veto == "r" then { preReadHeader := true } else
      match stage, vcode with
      | "h", some c => { postReadHeader := some (vetoStatus c) }
      | "b", some c => { preReadBody := some (vetoStatus c) }
      | "p", some c => { postReadBody := some (vetoStatus c) }
      | _, _ => {}
    pure { env := { dec := dec }, frame := ⟨mt'.toUInt8, seq', method', cid'.toUInt8, body'.isEmpty, accept'⟩,
           hb := hb', pv := pv, wr := (.sent, .sent) }
  | _ => none

def showOutcome (o : Outcome) : String :=
  s!"i{o.invocations}r{o.replies.length}" ++ String.join (o.replies.map fun r => "=" ++ showReply r)

/-- all strings `a;b;c` with one choice per position. -/
def product : List (List String) → List String
  | [] => [""]
  | [c] => c
  | c :: rest => c.flatMap fun a => (product rest).map fun b => a ++ ";" ++ b

/-- frames after the one that ends the read loop are never read. When the loop ends, the session is
    already PassiveClosing while handlers of earlier frames may still be about to write: each of
    their reply writes either happened before (sent) or is refused with 102 — both are listed. -/
def runAll (cfg : Cfg) : List Item → List (List String) × Bool × Bool
  | [] => ([], false, false)
  | it :: rest =>
    let o := it.run cfg
    if o.leftLoop then ([showOutcome o] :: rest.map (fun _ => ["i0r0"]), true, true)
    else
      let (l, d, left) := runAll cfg rest
      let alts :=
        if left then
          let o2 := { it with wr := (.connClosed, .connClosed) }.run cfg
          if showOutcome o2 == showOutcome o then [showOutcome o] else [showOutcome o, showOutcome o2]
        else [showOutcome o]
      (alts :: l, d || o.disconnected, left)

def mkCfg (f : Fields) : Option (Cfg × List (Bytes × Char) × List (Bytes × Char)) := do
  let calls ← parseRoutes ((f.get "rt").getD "-")
  let pushes ← parseRoutes ((f.get "pt").getD "-")
  let regs ← parseRegs ((f.get "regs").getD "-")
  let raw := fun (l : List (Bytes × Char)) => (l.filter (·.2 == 'r')).map (·.1)
  pure ({ calls := calls.map (·.1), rawCalls := raw calls, pushes := pushes.map (·.1), rawPushes := raw pushes,
          unknownCall := f.get "unk" == some "1", unknownPush := f.get "unkp" == some "1",
          codecs := regs, age := f.get "age" == some "1" }, calls, pushes)

def c03 (f : Fields) : String :=
  match mkCfg f, parseMe ((f.get "me").getD "-"), f.get "frames" with
  | some (cfg, calls, pushes), some me, some frames =>
    match (frames.splitOn ";").mapM (parseSpec calls pushes me cfg.unknownCall cfg.unknownPush) with
    | some items =>
      let (l, d, _) := runAll cfg items
      " || ".intercalate ((product l).map fun x => x ++ s!" disc={if d then 1 else 0}")
    | none => "bad-case"
  | _, _, _ => "bad-case"

/-! ### C04 -/

def protoOf : String → Option Proto
  | "raw" => some .raw
  | "json" => some .json
  | "pb" => some .pb
  | "wsjson" => some .wsJson
  | "wspb" => some .wsPb
  | _ => none

def statusOf (f : Fields) : Option Status := do
  let code ← f.int "code"
  let msg ← f.hex "msg"
  let cause ← match f.get "cause" with
    | some "nil" => some none
    | some h => (ofHex h).map some
    | none => none
  pure ⟨code, msg, cause⟩

def optErr (s : String) : Option (Option Bytes) :=
  if s == "ok" then some none else (ofHex (s.drop 1).toString).map some

def showObs : Obs → String
  | .hang => "hang"
  | .done st d => s!"st={showStatus st} dec={if d then 1 else 0}"

/-- the harness's three routes: index 0 raw echo, 1 typed int, 2 unmarshalable result. -/
def c04 (f : Fields) : String :=
  match mkCfg f, parseMe ((f.get "me").getD "-"), protoOf ((f.get "proto").getD ""), statusOf f,
        f.nat "codec", f.get "kind", f.get "stage", (f.get "rdec").bind optErr, (f.get "derr").bind optErr,
        f.get "rtype" with
  | some (cfg, calls, _), some me, some proto, some st, some cid, some kind, some stage, some rdec, some derr,
    some rtype =>
    let name (i : Nat) : Bytes := ((calls[i]?).map (·.1)).getD []
    let cidb := cid.toUInt8
    let method : Bytes := match kind with
      | "noroute" => "/c04/nope".toUTF8.toList
      | "emptymethod" => []
      | "badbody" => name 1
      | "unmarsh" => name 2
      | _ => name 0
    let merrU := (me.filter (·.1 == 'u')).map fun x => (x.2.1, x.2.2)
    let hb : HB := match kind with
      | "fail" => .ret st { rawResult := true } false
      | "panic" => .panic st.msg false
      | "ret" => .ret Status.zero { setCodec := some cidb, rawResult := true } false
      | "unmarsh" => .ret Status.zero { merr := merrU } false
      | _ => .ret Status.zero { rawResult := true } false
    let pv : PV := if kind == "vetoS" then
        (match stage with
         | "h" => { postReadHeader := some st }
         | "b" => { preReadBody := some st }
         | "p" => { postReadBody := some st }
         | _ => {}) else {}
    let cli0 : Client := { codecs := cfg.codecs, rawResult := rtype == "b", rdec := rdec, closed := kind == "closed" }
    let cli : Client := if kind == "vetoC" then
        (match stage with
         | "w" => { cli0 with preWriteCall := some st }
         | "h" => { cli0 with postReadReplyHeader := some st }
         | "b" => { cli0 with preReadReplyBody := some st }
         | "p" => { cli0 with postReadReplyBody := some st }
         | _ => cli0) else cli0
    let sc : Scenario := { proto := proto, cfg := cfg, frame := ⟨tCall, 1, method, cidb, false, none⟩,
                           env := { dec := derr }, hb := hb, pv := pv, cli := cli }
    showObs (callerObs sc)
  | _, _, _, _, _, _, _, _, _, _ => "bad-case"

def c04wire (f : Fields) : String :=
  match protoOf ((f.get "proto").getD ""), statusOf f with
  | some p, some st =>
    (match transport p st with
     | some st' => "st=" ++ showStatus st'
     | none => "panic")
  | _, _ => "bad-case"

end D03

def handlersC03 : List (String × (Fields → String)) :=
  [("c03", D03.c03), ("c04", D03.c04), ("c04wire", D03.c04wire)]

end Teleport.Drv
