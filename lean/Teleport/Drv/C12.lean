/-
Drv/C12 — line-protocol handlers for the transfer-filter property. The registry mirrors what
`harness/cmd/conform/c12.go` registers in the real `xfer` registry:
  1,2,3 = the three test filters (Drv/TestFilters), 'm' = md5 (concrete MD5 of Model/Md5),
  'g' and 0xC0..0xC4 = gzip at several levels (not computable here: every case carries the table of
  (plain, compressed) pairs the real filter produced, see `Xfer.tableComp`).
-/
import Teleport.Drv.C05
import Teleport.Model.XferMd5
namespace Teleport.Drv
open Teleport

/-! helper names live in `Teleport.Drv.D12` so that they cannot clash with other property drivers. -/
namespace D12

def md5Id : UInt8 := 109
def gzipIds : List UInt8 := [103, 0xC0, 0xC1, 0xC2, 0xC3, 0xC4]

/-- gzip with id `i`: table entries are keyed by `i :: plain`. -/
def gzTable (t : List (Bytes × Bytes)) (i : UInt8) : Filter :=
  Xfer.gzipF (fun x => Xfer.tableComp t (i :: x))
    (fun y => (t.find? (fun e => e.1.head? == some i && e.2 == y)).map (·.1.tail))

def reg12 (t : List (Bytes × Bytes)) : Registry := fun i =>
  if i == md5Id then some Xfer.md5Filter
  else if gzipIds.contains i then some (gzTable t i)
  else testReg i

def nameOf (s : String) : Bytes := s.toUTF8.toList

/-- the registry content as an entry list (names as the harness registers them). -/
def entries12 : List Xfer.Entry :=
  [⟨1, nameOf "vrev", fRev⟩, ⟨2, nameOf "vxor", fXor⟩, ⟨3, nameOf "vlen", fLen⟩,
   ⟨109, nameOf "md5", Xfer.md5Filter⟩,
   ⟨103, nameOf "gzip-5", gzTable [] 103⟩, ⟨0xC0, nameOf "gzip-huff", gzTable [] 0xC0⟩,
   ⟨0xC1, nameOf "gzip-default", gzTable [] 0xC1⟩, ⟨0xC2, nameOf "gzip-0", gzTable [] 0xC2⟩,
   ⟨0xC3, nameOf "gzip-1", gzTable [] 0xC3⟩, ⟨0xC4, nameOf "gzip-9", gzTable [] 0xC4⟩]

/-! payload descriptions: `hex:<hex>`, `pat:<hex>:<n>` (pattern repeated to n bytes),
    `lcg:<seed>:<n>` (uint32 LCG, byte = bits 16..23). -/

def lcgGo : Nat → UInt32 → Bytes → Bytes
  | 0, _, acc => acc.reverse
  | n + 1, s, acc =>
    let s' := s * 1103515245 + 12345
    lcgGo n s' ((s' >>> 16).toUInt8 :: acc)

def patGo (p : Array UInt8) : Nat → Nat → Bytes → Bytes
  | 0, _, acc => acc.reverse
  | n + 1, k, acc => patGo p n (if k + 1 == p.size then 0 else k + 1) (p.getD k 0 :: acc)

def payloadOf (s : String) : Option Bytes :=
  match s.splitOn ":" with
  | ["hex", h] => ofHex h
  | ["pat", h, n] => do
    let p ← ofHex h; let n ← n.toNat?
    if p.isEmpty then none else pure (patGo p.toArray n 0 [])
  | ["lcg", sd, n] => do
    let sd ← sd.toNat?; let n ← n.toNat?
    pure (lcgGo n sd.toUInt32 [])
  | _ => none

/-- FNV-1a 64 -/
def fnv (b : Bytes) : UInt64 := b.foldl (fun h c => (h ^^^ c.toUInt64) * 1099511628211) 14695981039346656037

def hex64 (w : UInt64) : String :=
  toHex ((List.range 8).map (fun i => (w >>> (8 * (7 - i)).toUInt64).toUInt8))

/-- short byte strings in full, long ones as length and FNV. -/
def digest (b : Bytes) : String :=
  if b.length ≤ 48 then hexOr b else s!"#{b.length}:{hex64 (fnv b)}"

def parseIdLists (s : String) : Option (List (List UInt8)) :=
  if s == "-" then some [] else (s.splitOn ",").mapM ofHex

def parseNats (s : String) : Option (List Nat) :=
  if s == "-" then some [] else (s.splitOn ",").mapM String.toNat?

def corrupt (d : Bytes) (pos : Nat) (mask : UInt8) : Bytes :=
  d.take pos ++ (match d.drop pos with | c :: r => (c ^^^ mask) :: r | [] => [])

/-- outcome letter of one unpack attempt on altered data: r = rejected, s = accepted and equal to
    the original, a = accepted with different content. -/
def outcome (reg : Registry) (p : List UInt8) (orig : Bytes) (d : Bytes) : Char :=
  match Xfer.onUnpack reg p d with
  | none => 'r'
  | some x => if x == orig then 's' else 'a'

def appendKind (reg : Registry) (cur ids : List UInt8) : String :=
  let r := Xfer.appendSt reg cur ids
  if r.2 then "ok" else if ids.all (fun i => (reg i).isSome) then "err:long" else "err:unknown"

def showRead (r : Raw.Read) : String := match r.out with
  | .ok m rest => s!"ok {showMsg m} rest={rest.length}"
  | .eof => "eof"
  | .size => "size"
  | .reject _ => "reject"

def c12 (kind : String) (f : Fields) : String :=
  let tbl := ((f.get "gz").bind parseKVs).getD []
  let reg := reg12 tbl
  match kind with
  | "xmd5" =>
    match (f.get "pl").bind payloadOf with
    | some x => s!"md5={toHex (Md5.sum x)}"
    | none => "bad-case"
  | "xpipe" =>
    match f.hex "pipe", (f.get "pl").bind payloadOf, f.nat "stop" with
    | some ids, some x, some stop =>
      let r := Xfer.appendSt reg [] ids
      let ak := appendKind reg [] ids
      let visited := (Xfer.range (fun k _ => k != stop) r.1).map (·.2)
      let head := s!"append={ak} len={r.1.length} range={digest visited}"
      if !r.2 then head else
      match Xfer.onPack reg r.1 x with
      | none => head ++ " pack=err"
      | some y =>
        match Xfer.onUnpack reg r.1 y with
        | none => head ++ s!" pack={digest y} unpack=err"
        | some x' => head ++ s!" pack={digest y} unpack={digest x'} same={if x' == x then 1 else 0}"
    | _, _, _ => "bad-case"
  | "xcorrupt" =>
    match f.hex "pipe", (f.get "pl").bind payloadOf, (f.get "pos").bind parseNats, f.hex "masks" with
    | some ids, some x, some pos, some masks =>
      match Xfer.onPack reg ids x with
      | none => "pack=err"
      | some y =>
        let poss := if (f.get "all") == some "1" then List.range y.length else pos
        let outs := poss.flatMap (fun p => masks.map (fun m => outcome reg ids x (corrupt y p m)))
        s!"pack={digest y} n={outs.length} rej={(outs.filter (· == 'r')).length} out={String.ofList outs}"
    | _, _, _, _ => "bad-case"
  | "xunpack" =>
    match f.hex "pipe", f.hex "data" with
    | some ids, some d =>
      match Xfer.onUnpack reg ids d with
      | none => "unpack=err"
      | some x => s!"unpack={digest x}"
    | _, _ => "bad-case"
  | "xappend" =>
    match f.hex "cur", f.hex "ids", f.hex "from", f.nat "stop" with
    | some cur, some ids, some frm, some stop =>
      let r := Xfer.appendSt reg cur ids
      let p2 := Xfer.appendFrom r.1 frm
      let visited := (Xfer.range (fun k _ => k != stop) p2).map (·.2)
      s!"append={appendKind reg cur ids} after={digest r.1} len={r.1.length} from={digest p2} wire={digest ((Xfer.wirePipe p2).take 9)} range={digest visited} reset={(Xfer.reset p2).length}"
    | _, _, _, _ => "bad-case"
  | "xreg" =>
    match f.nat "id", f.hex "name" with
    | some i, some n => Xfer.regOutcome entries12 ⟨i.toUInt8, n, fRev⟩
    | _, _ => "bad-case"
  | "xget" =>
    match f.nat "id", f.hex "name" with
    | some i, some n =>
      let a := match Xfer.get entries12 i.toUInt8 with
        | some e => s!"{e.id.toNat}/{hexOr e.name}" | none => "none"
      let b := match Xfer.getByName entries12 n with
        | some e => s!"{e.id.toNat}/{hexOr e.name}" | none => "none"
      s!"get={a} byname={b}"
    | _, _ => "bad-case"
  | "xframe" =>
    match f.hex "bytes", f.nat "limit" with
    | some b, some lim =>
      showRead (Raw.unpack reg lim b)
    | _, _ => "bad-case"
  | "xframepack" =>
    match msgOfFields f, f.nat "limit" with
    | some m, some lim =>
      match Raw.pack reg lim m with
      | .ok (b, sz) => s!"ok size={sz} bytes={digest b}"
      | .error e => "err:" ++ (match e with | .method => "method" | .body => "body" | .xfer => "xfer" | .size => "size")
    | _, _ => "bad-case"
  | "xgzip" =>
    -- gzip itself is not modelled: the model side states only what holds structurally
    -- (a lawful pair round-trips; the empty input unpacks to itself as coded).
    match f.nat "id" with
    | some i =>
      let e := match (gzTable tbl i.toUInt8).unpack [] with | some [] => "ok" | _ => "err"
      s!"roundtrip=1 emptyunpack={e}"
    | none => "bad-case"
  | "xcall" =>
    match f.hex "req", (f.get "pre").bind parseIdLists, (f.get "post").bind parseIdLists with
    | some req, some pre, some post =>
      let p := Xfer.replyPipe reg pre req post
      let w := Xfer.wirePipe p
      let n := (w.headD 0).toNat
      s!"req={digest (Xfer.wirePipe req)} reply=plen:{n},ids:{digest (w.tail.take n)} applied={p.length}"
    | _, _, _ => "bad-case"
  | _ => "bad-kind"

end D12

/-- case kinds served by this module. -/
def handlersC12 : List (String × (Fields → String)) :=
  ["xmd5", "xpipe", "xcorrupt", "xunpack", "xappend", "xreg", "xget", "xframe", "xframepack", "xgzip", "xcall"].map
    (fun k => (k, D12.c12 k))

end Teleport.Drv
