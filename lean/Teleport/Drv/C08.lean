/-
Drv/C08 — the graceful-close model driven by a gate schedule.

Case line:  c08 n=<sessions> sched=<tok,tok,...>
A token releases one parked goroutine of session `i` (prefix `i.`) of the closing peer (or makes the
environment act); after it every released goroutine runs until it is parked at its next gate,
blocked, or finished (`settle`). A token that does not apply in the current state is a no-op and
leaves no log entry. Tokens (K = inbound call id, J = outbound call id):

  sK   the remote peer issues CALL K          rm  reader passes read.msg     ra  reader passes read.add
  enK  handler K passes h.enter               bdK handler body K returns     exK handler K passes h.exit
  fwK  handler K passes reply.written         oJ  this side starts Call J (parks at call.seq)
  oaJ  caller J passes call.seq               obJ caller J passes call.store (parks at write.check)
  ocJ  caller J passes write.check            prJ remote handler of J returns (the peer replies)
  rdJ  reply handler of J passes reply.done   cl  Session.Close() is invoked (parks at close.cas)
  cc   closer passes its current gate         cut the connection is cut     pu  a whole Push
  pcl  Peer.Close() is invoked (no prefix)    DRAIN canonical release of everything (no prefix)

The only choice the gates do not fix is the order in which `callCmdMap.Range` (a Go map iteration)
yields the pending calls in the cancel loop of `readDisconnected`. The driver explores EVERY enabled
reader step (`readerEvs` lists them; in the loop: one `rDPick j` per remaining entry) and carries all
resulting simulations along; the output line lists the distinct observations separated by ` || `.
When the loop is not blocked at a call whose mutex a parked caller holds, all orders end in the same
state (`C08_cancel_order_invariant`) and there is one alternative.
-/
import Teleport.Drv.Util
import Teleport.Model.Graceful
namespace Teleport.Drv
open Teleport Teleport.Graceful

namespace D08

structure Sim where
  st : St
  cfree : Bool := false       -- closer released from its gate (blocked in a wait)
  rfree : Bool := true        -- reader released (running, blocked in Read, or in readDisconnected)
  ins : List (Nat × Bool) := []   -- inbound call ids sent, in order; was a frame delivered?
  outs : List Nat := []       -- outbound call ids; position = index in `st.cs`
  prs : List Nat := []        -- outbound ids whose remote handler has been released
  snap : Option St := none    -- the state at the moment Close() returned
  pushes : Nat := 0
deriving BEq

def Sim.init : Sim := { st := (step St.init .rTop).getD St.init }

def ap (s : St) (e : Ev) : St := (step s e).getD s

def closerNext : XPc → Option Ev
  | .cas => some .xHubdel | .hubdel => some .xCtxWait | .ctxw => some .xCallWait
  | .callw => some .xStClosed | .stc => some .xSock | .sockc => some .xRet | _ => none

/-- every reader step enabled in `s`. Inside `Range` any remaining entry may be yielded next. With
    data still queued the reader reads it before it sees the end of the stream. -/
def readerEvs (s : St) : List Ev :=
  match s.reader with
  | .top => [.rTop]
  | .blocked => if !s.inq.isEmpty then [.rRead] else if s.lost || s.sock then [.rReadErr] else []
  | .dload => [.rDLoad]
  | .dgo _ => [.rDGo]
  | .dwait _ => [.rDWait]
  | .dcancel _ => [.rDSnap]
  | .dloop _ [] => [.rDCancelEnd]
  | .dloop _ todo => todo.map .rDPick
  | .dlock _ _ _ => [.rDVisit]
  | .dsock => [.rDSock]
  | _ => []

def readerParked (r : RPc) : Bool :=
  match r with
  | .got _ | .add _ => true
  | _ => false

/-- the successors of the reader (all enabled reader steps), if it is released. -/
def readerSucc (m : Sim) : List Sim :=
  if m.rfree then
    (readerEvs m.st).filterMap fun e =>
      (step m.st e).map fun t => { m with st := t, rfree := !readerParked t.reader }
  else []

/-- one step of a released goroutine: the closer if it can move, else every possible reader step;
    `[]` = nothing can move. -/
def settle1 (m : Sim) : List Sim :=
  if m.cfree then
    match closerNext m.st.closer with
    | some e =>
      match step m.st e with
      | some t => [{ m with st := t, cfree := false, snap := if t.closer = .ret then some t else m.snap }]
      | none => readerSucc m
    | none => readerSucc m
  else readerSucc m

/-- split a frontier into the simulations that are settled and the successors of the others. -/
def settleLevel (fr : List Sim) : List Sim × List Sim :=
  fr.foldl (fun (acc : List Sim × List Sim) m =>
    match settle1 m with
    | [] => (acc.1 ++ [m], acc.2)
    | l => (acc.1, acc.2 ++ l)) ([], [])

/-- breadth-first over the released goroutines' steps until nothing moves; all outcomes. -/
def settleAll : Nat → List Sim → List Sim → List Sim
  | 0, fr, acc => (acc ++ fr).eraseDups
  | n + 1, fr, acc =>
    let (fin, nxt) := settleLevel fr
    if nxt.isEmpty then (acc ++ fin).eraseDups else settleAll n nxt.eraseDups (acc ++ fin)

def settle (m : Sim) : List Sim := settleAll 600 [m] []

def closerChar (x : XPc) : String :=
  match x with
  | .idle => "i" | .cas => "a" | .hubdel => "b" | .ctxw => "c" | .callw => "d" | .stc => "e"
  | .sockc => "f" | .ret => "r" | .noop => "n"

def readerChar (r : RPc) : String :=
  match r with
  | .got _ => "m" | .add _ => "a" | .top | .blocked => "-" | _ => "x"

def hIdx (s : St) (k : Nat) (pc : HPc) : Option Nat :=
  s.hs.findIdx? (fun h => h.kind == .call && h.id == k && h.pc == pc)

def cIdx (m : Sim) (j : Nat) : Option Nat := m.outs.findIdx? (· == j)

def cPc (m : Sim) (j : Nat) : Option (Nat × CPc) :=
  (cIdx m j).bind fun i => (m.st.cs[i]?).map fun c => (i, c.pc)

def sentPc (p : CPc) : Bool :=
  match p with
  | .written | .bound | .done .reply | .done .cancelled => true
  | _ => false

/-- status code the caller of a push / call sees. -/
def pushStatus (h : H) : String :=
  match h.res with
  | .ok => "OK"
  | _ => "ERR"

/-- apply one session token, before settling; `none` = not applicable (no-op). The string is an
    optional suffix. -/
def tokS (m : Sim) (name : String) (arg : Nat) : Option (Sim × String) :=
  let fin (m : Sim) : Option (Sim × String) := some (m, "")
  match name with
  | "s" =>
    if m.ins.any (·.1 == arg) then none
    else if m.st.lost || m.st.sock then fin { m with ins := m.ins ++ [(arg, false)] }
    else fin { m with st := ap m.st (.envCall arg), ins := m.ins ++ [(arg, true)] }
  | "rm" =>
    match m.st.reader with
    | .got _ =>
      let t := ap m.st .rCheck
      fin { m with st := t, rfree := !readerParked t.reader }
    | _ => none
  | "ra" =>
    match m.st.reader with
    | .add f =>
      let i := m.st.hs.length
      let t := ap m.st .rAdd
      let t := if f = .orphan then ap t (.hFin i) else t
      fin { m with st := t, rfree := true }
    | _ => none
  | "en" => (hIdx m.st arg .counted).bind fun i => fin { m with st := ap m.st (.hEnter i) }
  | "bd" => (hIdx m.st arg .entered).bind fun i => fin { m with st := ap m.st (.hBody i) }
  | "ex" =>
    (hIdx m.st arg .hdone).bind fun i =>
      let t := ap m.st (.hCheck i)
      let t := ap t (.hWrite i)          -- no-op when the check refused
      let t := match t.hs[i]? with
        | some h => if h.pc = .failed then ap t (.hFin i) else t
        | none => t
      fin { m with st := t }
  | "fw" => (hIdx m.st arg .wrote).bind fun i => fin { m with st := ap m.st (.hFin i) }
  | "o" =>
    if m.outs.any (· == arg) then none
    else fin { m with st := ap m.st .cSeq, outs := m.outs ++ [arg] }
  | "oa" =>
    match cPc m arg with
    | some (i, .seq) => fin { m with st := ap m.st (.cIssue i) }
    | _ => none
  | "ob" =>
    match cPc m arg with
    | some (i, .issued) => fin { m with st := ap m.st (.cCheck i) }
    | _ => none
  | "oc" =>
    match cPc m arg with
    | some (i, .wok) => fin { m with st := ap m.st (.cWrite i) }
    | some (i, .wno) => fin { m with st := ap m.st (.cRefuse i) }
    | _ => none
  | "pr" =>
    match cPc m arg with
    | some (i, pc) =>
      if sentPc pc && !m.prs.any (· == arg) then
        let t := if pc = .written && !m.st.lost && !m.st.sock then ap m.st (.envReply i) else m.st
        fin { m with st := t, prs := m.prs ++ [arg] }
      else none
    | none => none
  | "rd" =>
    (cIdx m arg).bind fun j =>
      (m.st.hs.findIdx? (fun h => h.kind == .reply j && h.pc == .counted)).bind fun i =>
        fin { m with st := ap (ap m.st (.hReplyDone i)) (.hFin i) }
  | "cl" =>
    if m.st.closer = .idle then
      let t := ap m.st .xStart
      fin { m with st := t, snap := if t.closer = .noop then some t else m.snap }
    else none
  | "cc" =>
    if (closerNext m.st.closer).isSome && !m.cfree then fin { m with cfree := true } else none
  | "cut" => if m.st.lost then none else fin { m with st := ap m.st .envLost }
  | "pu" =>
    let i := m.st.hs.length
    let t := ap m.st .pushStart
    let t := ap t (.hCheck i)
    let t := ap t (.hWrite i)
    let r := match t.hs[i]? with
      | some h => pushStatus h
      | none => "?"
    let t := ap t (.hFin i)
    some ({ m with st := t, pushes := m.pushes + 1 }, "=" ++ r)
  | _ => none

/-- letters and trailing number of a token body. -/
def splitTok (t : String) : String × Nat :=
  let cs := t.toList
  let name := cs.takeWhile (fun c => !c.isDigit)
  let num := cs.dropWhile (fun c => !c.isDigit)
  (String.ofList name, (String.ofList num).toNat?.getD 0)

structure PSim where
  ss : List Sim
  pc : PPc := .idle
  spawned : List Nat := []
  log : List String := []
deriving BEq

def entry (i : Nat) (body : String) (m : Sim) (suffix : String) : String :=
  s!"{i + 1}.{body}/{closerChar m.st.closer}/{readerChar m.st.reader}{suffix}"

/-- `Peer.Close` returns when every spawned `Close` has returned. -/
def tryJoin (p : PSim) : PSim :=
  if p.pc = .spawned ∧ p.spawned.all (fun i => match p.ss[i]? with
      | some m => m.st.closeReturned
      | none => true) then
    { p with pc := .joined, log := match p.log with
        | e :: r => (e ++ "+J") :: r
        | [] => ["+J"] }
  else p

/-- apply session token `body` to session `i` and settle: every outcome, and whether the token was
    effective (the same for all outcomes). -/
def sessTok (p : PSim) (i : Nat) (body : String) : List PSim × Bool :=
  match p.ss[i]? with
  | none => ([p], false)
  | some m =>
    let (name, arg) := splitTok body
    match tokS m name arg with
    | none => ([p], false)
    | some (m', suf) =>
      ((settle m').map fun m'' =>
        tryJoin { p with ss := p.ss.set i m'', log := entry i body m'' suf :: p.log }, true)

def inIds (m : Sim) : List Nat := m.ins.map (·.1)

/-- the canonical release pass of one session. -/
def passToks (m : Sim) : List String :=
  ["cc", "rm", "ra"]
  ++ (inIds m).flatMap (fun k => [s!"en{k}", s!"bd{k}", s!"ex{k}", s!"fw{k}"])
  ++ m.outs.flatMap (fun j => [s!"oa{j}", s!"ob{j}", s!"oc{j}", s!"pr{j}", s!"rd{j}"])
  ++ ["cc"]

def passSess (i : Nat) (a : PSim × Bool) : List (PSim × Bool) :=
  match a.1.ss[i]? with
  | none => [a]
  | some m =>
    (passToks m).foldl (fun (as : List (PSim × Bool)) body =>
      (as.flatMap fun a =>
        let (ps, eff) := sessTok a.1 i body
        ps.map fun p' => (p', a.2 || eff)).eraseDups) [a]

def drainPass (p : PSim) : List (PSim × Bool) :=
  (List.range p.ss.length).foldl (fun as i => (as.flatMap (passSess i)).eraseDups) [(p, false)]

def drain : Nat → PSim → List PSim
  | 0, p => [p]
  | n + 1, p => (drainPass p).flatMap fun (p', eff) => if eff then drain n p' else [p']

def peerClose (p : PSim) : List PSim :=
  if p.pc ≠ .idle then [p] else
  let w := (List.range p.ss.length).filter fun i => match p.ss[i]? with
    | some m => m.st.closer == .idle
    | none => false
  let p := { p with pc := .spawned, spawned := w, log := "pcl" :: p.log }
  (w.foldl (fun (qs : List PSim) i => (qs.flatMap fun q => (sessTok q i "cl").1).eraseDups) [p]).map tryJoin

def topTok (p : PSim) (t : String) : List PSim :=
  if t == "DRAIN" then (drain 400 p).eraseDups
  else if t == "pcl" then peerClose p
  else
    match t.splitOn "." with
    | [si, body] =>
      match si.toNat? with
      | some (i + 1) => (sessTok p i body).1
      | _ => [p]
    | _ => [p]

def b01 (b : Bool) : String := if b then "1" else "0"

def hOf (s : St) (k : Nat) : Option H := s.hs.find? (fun h => h.kind == .call && h.id == k)

def showIn (m : Sim) : String :=
  let snap := m.snap.getD m.st
  ",".intercalate (m.ins.map fun (k, _) =>
    let e := match hOf m.st k with
      | some h => h.ebc
      | none => false
    let (x, w) := match hOf snap k with
      | some (h : H) => (h.pc != HPc.counted && h.pc != HPc.entered, h.res == Res.ok)
      | none => (false, false)
    let stat := match hOf m.st k with
      | some (h : H) => if h.res == Res.ok then "OK" else "102"
      | none => "102"
    s!"{k}:{b01 e}{b01 x}{b01 w}:{stat}")

def showOut (m : Sim) : String :=
  let snap := m.snap.getD m.st
  let pcs := m.st.cs.map (·.pc)
  let spcs := snap.cs.map (·.pc)
  ",".intercalate ((List.range m.outs.length).map fun i =>
    let j := m.outs[i]?.getD 0
    let d := match spcs[i]? with
      | some (.done _) => true
      | _ => false
    let stat := match pcs[i]? with
      | some (.done .reply) => "OK"
      | some (.done .refused) => "102"
      | some (.done .cancelled) => "102"
      | some (.done .wfail) => "104"
      | _ => "?"
    s!"{j}:{b01 d}:{stat}")

def statusNum (s : Status) : Nat :=
  match s with
  | .ok => 1 | .closing => 2 | .closed => 3 | .pclosing => 4 | .pclosed => 5

def orDash (s : String) : String := if s.isEmpty then "-" else s

def showSess (m : Sim) : String :=
  let pend := match m.snap with
    | some t => toString (t.cs.countP C.isOpen)
    | none => "-"
  s!"in={orDash (showIn m)} out={orDash (showOut m)} pend={pend} st={statusNum m.st.status} cl={closerChar m.st.closer}"

def render (p : PSim) : String :=
  let pcs := match p.pc with
    | .idle => "idle" | .lclosed | .spawned => "closing" | .joined => "joined"
  s!"tr={orDash (" ".intercalate p.log.reverse)} | " ++ " ; ".intercalate (p.ss.map showSess) ++ s!" | peer={pcs}"

def c08 (f : Fields) : String :=
  match f.nat "n", f.get "sched" with
  | some n, some sched =>
    let p0 : PSim := { ss := List.replicate n Sim.init }
    let ps := (sched.splitOn ",").foldl (fun (ps : List PSim) t => (ps.flatMap (topTok · t)).eraseDups) [p0]
    " || ".intercalate (ps.map render).eraseDups
  | _, _ => "bad-case"

end D08

def handlersC08 : List (String × (Fields → String)) := [("c08", D08.c08)]

end Teleport.Drv
