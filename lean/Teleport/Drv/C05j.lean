import Teleport.Drv.C05
import Teleport.Model.JsonProto
import Teleport.Model.PbProto
/-
Drv/C05j — case kinds `jsonpack`, `jsonunpack`, `jsonstream`, `jsonget`: the model of
`proto/jsonproto/jsonproto.go` (Model/JsonProto) on the line protocol, and `pbpack`, `pbunpack`,
`pbstream`: `proto/pbproto/pbproto.go` (Model/PbProto) with the protobuf serializer given by the
case line (`payload=` what the real `ProtoMarshal` produced for the message, `tab=` what the real
`ProtoUnmarshal` returns for the payloads that occur).  `unmodelled` is printed where the model
declines to answer (strconv.Quote on non-ASCII, gjson array path, float tokens, a payload missing
from the table); the Go generator does not produce such cases.
-/
namespace Teleport.Drv
namespace D05j
open Teleport

def showOut (o : Raw.Out) : String :=
  match o with
  | .ok m rest => s!"ok {showMsg m} rest={rest.length}"
  | .eof => "eof"
  | .size => "size"
  | .reject e => if e == "unmodelled" then "unmodelled" else "reject"

/-- decode frames until one is not ok (fuel = input length + 1). -/
def unpackAll (P : Frame2.Payload) (lim : Nat) (inp : Bytes) : Nat → List Msg → List Msg × String
  | 0, acc => (acc.reverse, "runaway")
  | fuel + 1, acc =>
    match Frame2.unpack P testReg lim inp with
    | .ok m rest => unpackAll P lim rest fuel (m :: acc)
    | .eof => (acc.reverse, "eof")
    | .size => (acc.reverse, "size")
    | .reject e => (acc.reverse, if e == "unmodelled" then "unmodelled" else "reject")

def showVal (v : JsonP.JVal) : String :=
  let t := match v with
    | .absent => "absent v=-"
    | .str s => s!"str v={hexOr s}"
    | .num r => s!"num v={hexOr r}"
    | .json r => s!"json v={hexOr r}"
    | .tru => "tru v=-"
    | .fals => "fals v=-"
  match v.toInt, v.toStr with
  | some i, some s => s!"t={t} int={JsonP.wrap32 i} str={hexOr s}"
  | _, _ => "unmodelled"

def showRec (r : PbP.Rec) : String :=
  s!"{r.seq};{r.mtype};{hexOr r.method};{hexOr r.status};{hexOr r.md};{r.codec};{hexOr r.body}"

/-- `seq;mtype;method;status;meta;codec;body`; `x` = the real decoder refused the payload,
    `e` = it refused with `io.ErrUnexpectedEOF`. -/
def parseRec (s : String) : Option (Except String PbP.Rec) :=
  if s == "x" then some (.error "err:proto") else if s == "e" then some (.error "eof") else
  match s.splitOn ";" with
  | [a, b, c, d, e, f, g] => do
    let seq ← a.toInt?; let mt ← b.toInt?; let me ← ofHex c; let st ← ofHex d; let md ← ofHex e
    let co ← f.toInt?; let body ← ofHex g
    pure (.ok { seq, mtype := mt, method := me, status := st, md, codec := co, body })
  | _ => none

/-- `payload>rec|payload>rec|...`; `-` = empty table. -/
def parseTab (s : String) : Option (List (Bytes × Except String PbP.Rec)) :=
  if s == "-" then some [] else
  (s.splitOn "|").mapM (fun e => match e.splitOn ">" with
    | [p, r] => do let p' ← ofHex p; let r' ← parseRec r; pure (p', r')
    | _ => none)

/-- pbproto's payload with the serializer of the case line: `ser` answers with the given bytes,
    `de` looks the payload up in the table (absent = `unmodelled`). -/
def pbPayload (ser : Msg → Option Bytes) (tab : List (Bytes × Except String PbP.Rec)) : Frame2.Payload :=
  { ser := ser
    de := fun size pipe b =>
      match tab.find? (·.1 == b) with
      | none => .error "unmodelled"
      | some (_, .error e) => .error e
      | some (_, .ok r) => PbP.ofRec size pipe r }

def c05j (kind : String) (f : Fields) : String :=
  match kind with
  | "jsonpack" =>
    match msgOfFields f, f.nat "limit" with
    | some m, some lim =>
      match JsonP.pack testReg lim m with
      | .ok (b, sz) => s!"ok size={sz} bytes={toHex b}"
      | .error e => match e with | .xfer => "err:xfer" | .size => "err:size" | .ser => "unmodelled"
    | _, _ => "bad-case"
  | "jsonunpack" =>
    match f.hex "bytes", f.nat "limit" with
    | some b, some lim => showOut (JsonP.unpack testReg lim b)
    | _, _ => "bad-case"
  | "jsonstream" =>
    match f.get "msgs", f.nat "limit", f.hex "tail" with
    | some ms, some lim, some tail =>
      let msgs := (ms.splitOn "|").map (fun l => msgOfFields (parseFields (l.splitOn ";")))
      if msgs.any Option.isNone then "bad-case" else
      let packed := msgs.filterMap (fun m => m.bind (fun m => (JsonP.pack testReg lim m).toOption))
      if packed.length ≠ msgs.length then "bad-case" else
      let stream := (packed.map (·.1)).flatten ++ tail
      let (ms', endc) := unpackAll JsonP.payload lim stream (stream.length + 1) []
      s!"n={ms'.length} end={endc} bytes={hexOr stream} msgs={"|".intercalate (ms'.map (fun m => (showMsg m).replace " " ";"))}"
    | _, _, _ => "bad-case"
  | "jsonget" =>
    match f.hex "text", f.hex "key" with
    | some t, some k =>
      match JsonP.jget t k with
      | some v => showVal v
      | none => "unmodelled"
    | _, _ => "bad-case"
  | "pbpack" =>
    match msgOfFields f, f.nat "limit", f.hex "payload" with
    | some m, some lim, some pl =>
      match Frame2.pack (pbPayload (fun _ => some pl) []) testReg lim m with
      | .ok (b, sz) => s!"ok size={sz} bytes={toHex b} rec={showRec (PbP.toRec m)}"
      | .error e => match e with | .xfer => "err:xfer" | .size => "err:size" | .ser => "unmodelled"
    | _, _, _ => "bad-case"
  | "pbunpack" =>
    match f.hex "bytes", f.nat "limit", (f.get "tab").bind parseTab with
    | some b, some lim, some tab => showOut (Frame2.unpack (pbPayload (fun _ => none) tab) testReg lim b)
    | _, _, _ => "bad-case"
  | "pbstream" =>
    match f.get "msgs", f.nat "limit", f.hex "tail", f.get "payloads", (f.get "tab").bind parseTab with
    | some ms, some lim, some tail, some pls, some tab =>
      let msgs := (ms.splitOn "|").map (fun l => msgOfFields (parseFields (l.splitOn ";")))
      let pays := (pls.splitOn "|").map ofHex
      if msgs.any Option.isNone || pays.any Option.isNone || msgs.length ≠ pays.length then "bad-case" else
      let packed := (msgs.zip pays).filterMap (fun mp => match mp with
        | (some m, some pl) => (Frame2.pack (pbPayload (fun _ => some pl) []) testReg lim m).toOption
        | _ => none)
      if packed.length ≠ msgs.length then "bad-case" else
      let stream := (packed.map (·.1)).flatten ++ tail
      let (ms', endc) := unpackAll (pbPayload (fun _ => none) tab) lim stream (stream.length + 1) []
      s!"n={ms'.length} end={endc} bytes={hexOr stream} msgs={"|".intercalate (ms'.map (fun m => (showMsg m).replace " " ";"))}"
    | _, _, _, _, _ => "bad-case"
  | _ => "bad-kind"

end D05j

/-- case kinds served by this module. -/
def handlersC05j : List (String × (Fields → String)) :=
  ["jsonpack", "jsonunpack", "jsonstream", "jsonget", "pbpack", "pbunpack", "pbstream"].map (fun k => (k, D05j.c05j k))

end Teleport.Drv
