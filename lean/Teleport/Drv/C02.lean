/-
Drv/C02 — line-protocol handler for the call life-cycle scripts (`c02 proto=… lim=… cap=… res=… dok=… ops=…`).
The script is executed on the transition system of Model/CallLife: every script operation is an
environment label (or a gate hold), followed by `settle` (all enabled internal steps, in the fixed
candidate order); `obs`/`obsf` print the canonical snapshot that harness/cmd/conform/c02.go prints.
-/
import Teleport.Drv.Util
import Teleport.Model.CallLife
namespace Teleport.Drv
open Teleport Teleport.CallLife

namespace D02

structure Sim where
  s : State
  holdH : Bool := false
  holdC : Bool := false
  cutIdx : Option Nat := none
  out : List String := []

def fuel : Nat := 4000

def Sim.settle (m : Sim) : Sim := { m with s := CallLife.settle m.holdH m.holdC m.cutIdx fuel m.s }

def Sim.env (m : Sim) (l : Label) : Option Sim :=
  match fire m.s l with
  | some t => some ({ m with s := t }.settle)
  | none => if m.s.crashed then some m else none

def statClass (n : Nat) : String :=
  if n = 0 then "ok"
  else if n = 102 ∨ n = 104 ∨ n = 400 ∨ n = 499 ∨ n = 500 then toString n
  else "other"

def showCall (c : Call) : String :=
  if c.pc ≠ .returned then s!"0:{c.chanSends}:incall"
  else if c.doneCount ≥ 1 then s!"1:{c.chanSends}:{statClass c.stat}"
  else s!"0:{c.chanSends}:-"

/-- goroutines blocked inside `callCmd.done` on the full completion channel. -/
def doneBlocked (c : Call) : Bool := c.mu == .hPre && decide (1 ≤ c.doneCount) && decide (c.cap ≤ c.chanSends)

def snapshot (s : State) : String :=
  let calls := if s.calls.isEmpty then "-" else "|".intercalate (s.calls.map showCall)
  let pend := s.calls.countP (·.inTable)
  let closed := if s.status.closed then 1 else 0
  let cr := match s.cpc with
    | .idle => "-"
    | .returned => "1"
    | _ => "0"
  s!"calls={calls} pend={pend} closed={closed} closeret={cr} dblk={s.calls.countP doneBlocked}"

/-- decode outcome of the scripted reply kinds for a non-bytes result (the bytes case is in `fire`).
    `dok` = the "undecodable" kinds that the real codec decodes into this case's result type after
    all (field `dok` of the case line, computed by the generator with the real codecs). -/
def frameOf (dok : List String) (kind : String) (seq : Nat) : Option Frame :=
  if dok.contains kind then some (.reply seq .ok 0) else
  match kind with
  | "ok" => some (.reply seq .ok 0)
  | "st" => some (.reply seq .ok 500)
  | "nil" => some (.reply seq .errNil 0)
  | "nile" => some (.reply seq .ok 0)
  | "unreg" => some (.reply seq .errKnown 0)
  | "pan" => some (.reply seq .panic 0)
  | "fov" => some (.reply seq .errKnown 0)
  | "push" => some .other
  | k => if k.startsWith "bad" ∧ k.length = 4 then some (.reply seq .errKnown 0) else none

def seqOf (tgt : String) : Option Nat :=
  if tgt == "u" then some 999999 else tgt.toNat?.map (· + 1)

def splitOp (op : String) : String × String :=
  match op.splitOn ":" with
  | [a] => (a, "")
  | a :: r => (a, ":".intercalate r)
  | [] => ("", "")

def isCall (op : String) : Bool :=
  op == "call" || op == "callx" || op == "callv" || op == "callbig" || op.startsWith "callcut"

def stepOp (m : Sim) (res : String) (dok : List String) (capn : Nat) (tooBig : Bool) (op0 : String) : Option Sim :=
  let (op, arg) := splitOp op0
  if isCall op then
    let i := m.s.calls.length
    let m1 := if op.startsWith "callcut" then { m with cutIdx := some i } else m
    m1.env (.issue (op == "callv") (op == "callx") (op == "callbig" && tooBig) (res == "bytes") capn)
  else if op == "rraw" then m.env (.frame .garbage)
  else if op.startsWith "rt" then m.env .lose
  else if op == "cut" || op == "rclose" then m.env .lose
  else if op == "close" then m.env .close
  else if op == "gh+" then some { m with holdH := true }
  else if op == "gc+" then some { m with holdC := true }
  else if op == "gh-" then some ({ m with holdH := false }.settle)
  else if op == "gc-" then some ({ m with holdC := false }.settle)
  else if op == "obs" || op == "obsf" then some { m with out := snapshot m.s :: m.out }
  else if op.startsWith "w" then some m
  else if op.startsWith "r" then
    let k := (op.drop 1).toString
    let kind := if k.startsWith "b" && !(k.startsWith "bad") then (k.drop 1).toString else k
    match seqOf arg, frameOf dok kind 0 with
    | some q, some f =>
      let f' := match f with
        | .reply _ d r => Frame.reply q d r
        | x => x
      m.env (.frame f')
    | _, _ => none
  else none

def runOps (res : String) (dok : List String) (capn : Nat) (tooBig : Bool) : Sim → List String → Option Sim
  | m, [] => some m
  | m, op :: rest => (stepOp m res dok capn tooBig op).bind (fun m' => runOps res dok capn tooBig m' rest)

def c02 (f : Fields) : String :=
  match f.get "res", f.nat "cap", f.get "proto", f.nat "lim", f.get "ops" with
  | some res, some capn, some proto, some lim, some ops =>
    if capn = 0 then "bad-case" else
    -- the 4096-byte request exceeds the size limit: jsonproto's Pack returns the error (write fails, 104)
    let tooBig := proto == "json" && lim != 0 && lim < 4096
    let bigErr := proto == "raw" && lim != 0 && lim < 4096
    if bigErr then "unsupported" else
    match runOps res (((f.get "dok").getD "-").splitOn "+") capn tooBig { s := State.init } (ops.splitOn ",") with
    | some m =>
      if m.s.crashed then "crash:close-of-closed-channel"
      else " ; ".intercalate m.out.reverse
    | none => "bad-case"
  | _, _, _, _, _ => "bad-case"

end D02

def handlersC02 : List (String × (Fields → String)) := [("c02", D02.c02)]

end Teleport.Drv
