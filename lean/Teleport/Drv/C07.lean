import Teleport.Drv.Util
import Teleport.Model.Lifecycle
namespace Teleport.Drv
open Teleport Teleport.Lifecycle

namespace D07

/-- "a3s5r" ↦ [('a',3),('s',5),('r',0)] -/
def tokens (l : List Char) : List (Char × Nat) :=
  (l.foldl (fun (acc : List (Char × Nat)) c =>
    if c.isDigit then
      match acc with
      | (k, n) :: t => (k, n * 10 + (c.toNat - 48)) :: t
      | [] => []
    else (c, 0) :: acc) []).reverse

def joinWith (sep : String) (l : List String) : String := sep.intercalate l

def insertSorted (x : Nat) : List Nat → List Nat
  | [] => [x]
  | y :: ys => if x ≤ y then x :: y :: ys else y :: insertSorted x ys

def sortNat (l : List Nat) : List Nat := l.foldr insertSorted []

def insertKV (x : Nat × Nat) : List (Nat × Nat) → List (Nat × Nat)
  | [] => [x]
  | y :: ys => if x.1 ≤ y.1 then x :: y :: ys else y :: insertKV x ys

def sortKV (l : List (Nat × Nat)) : List (Nat × Nat) := l.foldr insertKV []

/-- per session: `<idx>:<status><H|h><N|n>:<notify count>:<disconnect hook count>:<probe>`;
    probe = status class of a Call and a Push issued on a session that is not Ok. -/
def showSess (i : Nat) (s : Sess) : String :=
  let c := s.core
  let probe := if c.st = .ok then "-" else
    (if (write c.st false false .fine).1 = .connClosed then "102" else "0")
  s!"{i}:{c.st.code}{if c.health then "H" else "h"}{if c.didNotify then "N" else "n"}:{c.notifyCnt}:{c.discCnt}:{probe}"

/-- per peer: `P<p>=<CountSession>[<RangeSession, sorted>]<id>sess,...>` -/
def showHub (w : World) (p : Nat) : String :=
  let ents := (w.hub.filter fun kv => kv.1.1 == p).map fun kv => (kv.1.2, kv.2)
  let rng := sortNat (ents.map (·.2))
  let kvs := sortKV ents
  s!"P{p}={ents.length}[{joinWith "." (rng.map toString)}]" ++ "{" ++
    joinWith "." (kvs.map fun kv => s!"{kv.1}>{kv.2}") ++ "}"

def showWorld (w : World) : String :=
  let ss := (List.range w.sess.length).filterMap fun i => (w.sess[i]?).map (showSess i)
  joinWith "," ss ++ "|" ++ showHub w 0 ++ "|" ++ showHub w 1

/-- state of a sequential history: the machine, the peers whose `Close()` has run, and the two
    index-only models that are cross-checked against the machine after every operation. -/
structure Seq where
  w : World
  pclosed : List Nat
  h0 : HSt
  h1 : HSt

def Seq.init : Seq := ⟨World.empty, [], HSt.empty, HSt.empty⟩

/-- the machine's index of peer `p` in the numbering of the index-only model. -/
def hubOfPeer (w : World) (p : Nat) : List (Nat × Nat) :=
  sortKV ((w.hub.filter fun kv => kv.1.1 == p).map fun kv => (kv.1.2, kv.2 / 2))

def hubAgree (q : Seq) : Bool :=
  hubOfPeer q.w 0 == sortKV q.h0.hub && hubOfPeer q.w 1 == sortKV q.h1.hub

/-- apply `HOp`s for the sessions that a machine-level `Close` reached: every session whose
    status left {Preparing, Ok} during the operation is a `close`/`disconnect` in the index model.
    Order: ascending index (the deletions commute: each removes only its own session's entry). -/
def syncKills (before after : World) (h0 h1 : HSt) : HSt × HSt :=
  (List.range after.sess.length).foldl (fun (acc : HSt × HSt) i =>
    match after.sess[i]? with
    | some a =>
      let wasLive : Bool := match before.sess[i]? with
        | some b => b.core.st = .ok || b.core.st = .preparing
        | none => true
      let isLive : Bool := a.core.st = .ok || a.core.st = .preparing
      if wasLive && !isLive then
        if i % 2 == 0 then (acc.1.apply (.close (i / 2)), acc.2) else (acc.1, acc.2.apply (.close (i / 2)))
      else acc
    | none => acc) (h0, h1)

def peerH (q : Seq) (i : Nat) (f : HSt → HSt) : Seq :=
  if i % 2 == 0 then { q with h0 := f q.h0 } else { q with h1 := f q.h1 }

/-- one operation of a history: new state and the result token. -/
def histOp (q : Seq) (op : String) : Option (Seq × String) :=
  match tokens op.toList with
  | (k, name) :: rest =>
    if k == 'a' || k == 'l' then
      let hook := (rest.find? (·.1 == 's')).map (·.2)
      let rej := rest.any (·.1 == 'r')
      let hc := rest.any (·.1 == 'x')       -- the accept hook calls `Close()` on the session
      let a := q.w.sess.length
      let w1 := q.w.opServe 0 (a + 1) (2 * name) .serve none false
      let w2 := w1.opServe 1 a (2 * name) (if k == 'a' then .serve else .listen) hook rej hc
      -- index-only models: the operation itself, then the closes it caused on other sessions
      -- (the first end is served and everything settles before the second end is served)
      let g0 := q.h0.apply (.accept (2 * name) none false)
      let (g0, g1) := syncKills q.w w1 g0 q.h1
      -- a session closed in its accept hook leaves the index like a refused one (the sessions its
      -- `hub.set` closed on the listener path are replayed by `syncKills`)
      let g1 := g1.apply (.accept (2 * name) hook (rej || hc))
      let q1 : Seq := { q with w := w2, h0 := g0, h1 := g1 }
      some (q1, if rej then "rej" else "ok")
    else if k == 'i' then
      match rest with
      | [('x', v)] =>
        let w1 := q.w.opSetId name v
        some (peerH { q with w := w1 } name (·.apply (.setID (name / 2) v)), "ok")
      | _ => none
    else if k == 'c' || k == 'r' then
      let tgt := if k == 'c' then some name else (q.w.sess[name]?).map (·.partner)
      match tgt with
      | some t => some ({ q with w := q.w.opClose t }, "ok")
      | none => none
    else if k == 'u' then some ({ q with w := q.w.opCut name }, "ok")
    else if k == 'p' then
      if q.pclosed.contains name then some (q, "err")
      else some ({ q with w := q.w.opPeerClose name, pclosed := name :: q.pclosed }, "ok")
    else if k == 'q' || k == 'w' then
      let (w1, code) := q.w.opSend name (k == 'q')
      some ({ q with w := w1 }, toString code)
    else none
  | [] => none

/-- after the machine ran an operation: replay the closes it caused in the index-only models
    (sessions closed as a side effect by the machine are closed there by `HSt.set` already, a
    second `close` is a no-op), then compare the indexes. -/
def histStep (q : Seq) (op : String) : Option (Seq × String) :=
  (histOp q op).map fun (q1, r) =>
    let (g0, g1) := syncKills q.w q1.w q1.h0 q1.h1
    let q2 := { q1 with h0 := g0, h1 := g1 }
    (q2, s!"{r}|{showWorld q2.w}|{if hubAgree q2 then "m" else "M"}")

def histRun (q : Seq) : List String → List String → String
  | [], acc => joinWith " ; " acc.reverse
  | op :: rest, acc =>
    match histStep q op with
    | none => "bad-case"
    | some (q1, line) => histRun q1 rest (line :: acc)

def hist (f : Fields) : String :=
  match f.get "ops" with
  | some ops => histRun Seq.init (ops.splitOn ",") []
  | none => "bad-case"

/-! ## forced schedules of `Close()` ∥ `readDisconnected` on one established session -/

/-- state of a thread as the harness sees it: not started / parked at a gate / ended. -/
inductive TSt | fresh | at (gate : String) | ended
deriving DecidableEq

structure Sched where
  w : World
  c : TSt
  r : TSt
  woken : Bool          -- the reader reached `disc.load` by itself (local socket closed) and no
                        -- `r` token has reported it yet
  trace : List String   -- what the Event hook reports: `old>new`, `n` (notify), `d1`/`d2` (hook)

def coreOf (s : Sched) : Core := ((s.w.sess[1]?).map (·.core)).getD Core.init

/-- does this step execute `changeStatus` / a successful `tryChangeStatus` (one `st` event). -/
def storesStatus (b : Core) (e : LEv) : Bool :=
  match e with
  | .closeCall => b.st = .ok || b.st = .preparing
  | .cStore | .dClosed | .storeOk => true
  | .dStore => !(b.rst = .passiveClosed || b.rst = .activeClosed || b.rst = .passiveClosing || b.rst = .activeClosing)
      && b.st = b.rst
  | _ => false

/-- run lifecycle steps of session 1 (the served end), recording what the Event hook reports. -/
def schedSteps (s : Sched) (es : List LEv) : Sched :=
  es.foldl (fun s e =>
    let b := coreOf s
    match step s.w (.l 1 e) with
    | some w' =>
      let s' := { s with w := w' }
      let a := coreOf s'
      let t1 := if storesStatus b e then [s!"{b.st.code}>{a.st.code}"] else []
      let t2 := if a.notifyCnt ≠ b.notifyCnt then ["n"] else []
      let t3 := if a.discCnt ≠ b.discCnt then [if e = .cHook then "d1" else "d2"] else []
      { s' with trace := s.trace ++ t1 ++ t2 ++ t3 }
    | none => s) s

/-- when the local socket is closed before the reader's first token, the real reader wakes by
    itself and loads the status at once; the model does the same (the value cannot change any
    more: the closer has only its hook left). -/
def wakeReader (s : Sched) : Sched :=
  match s.r with
  | .fresh =>
    if (coreOf s).sockClosed && (coreOf s).reader = .reading then
      let s1 := schedSteps s [.rdExit, .dLoad]
      { s1 with r := .at "disc.load", woken := true }
    else s
  | _ => s

/-- the closer's steps from the gate it stands at to the next one. -/
def closerNext (g : String) : List LEv × String :=
  if g == "close.cas" then ([.cHubDel], "close.hubdel")
  else if g == "close.hubdel" then ([.cNotify], "close.ctxwait")
  else if g == "close.ctxwait" then ([.cCallWait], "close.callwait")
  else if g == "close.callwait" then ([.cStore], "close.sock")
  else if g == "close.sock" then ([.cSock], "close.hook")
  else ([.cHook], "end")

/-- token `c`: the closer thread runs to its next gate. -/
def schedC (s : Sched) : Sched × String :=
  match s.c with
  | .ended => (s, "-")
  | .fresh =>
    let s1 := schedSteps s [.closeCall]
    if (coreOf s1).closer = .idle then ({ s1 with c := .ended }, "end")
    else ({ s1 with c := .at "close.cas" }, "close.cas")
  | .at g =>
    let (es, nx) := closerNext g
    let s1 := schedSteps s es
    (wakeReader { s1 with c := if nx == "end" then .ended else .at nx }, nx)

/-- token `r`: the reader thread runs to its next gate (the first token makes the remote end
    vanish, unless the local `socket.Close()` has already woken the reader). -/
def schedR (s : Sched) : Sched × String :=
  if s.woken then ({ s with woken := false }, "disc.load") else
  match s.r with
  | .ended => (s, "-")
  | .fresh =>
    let s1 := schedSteps s [.eof, .rdExit, .dLoad]
    ({ s1 with r := .at "disc.load" }, "disc.load")
  | .at g =>
    if g == "disc.load" then
      let s1 := schedSteps s [.dStore]
      let c := coreOf s1
      if c.reader = .done then ({ s1 with r := .ended }, "end")
      else if c.reader = .disc0 then
        -- the compare-and-swap failed: the reader loads again and is back at the same gate
        let s2 := schedSteps s1 [.dLoad]
        ({ s2 with r := .at "disc.load" }, "disc.load")
      else if c.rst = .activeClosing then
        let s2 := schedSteps s1 [.dHubDel]
        ({ s2 with r := .at "disc.cancel" }, "disc.cancel")
      else ({ s1 with r := .at "disc.store" }, "disc.store")
    else if g == "disc.store" then
      let s1 := schedSteps s [.dHubDel]
      ({ s1 with r := .at "disc.cancel" }, "disc.cancel")
    else if g == "disc.cancel" then
      if (coreOf s).reader = .done then ({ s with r := .ended }, "end")
      else
        let s1 := schedSteps s [.dSock]
        ({ s1 with r := .at "disc.redial" }, "disc.redial")
    else if g == "disc.redial" then
      let s1 := schedSteps s [.dClosed, .dNotify]
      ({ s1 with r := .at "disc.hook" }, "disc.hook")
    else
      let s1 := schedSteps s [.dHook]
      ({ s1 with r := .ended }, "end")

def schedRun (s : Sched) : List Char → List String → Sched × List String
  | [], acc => (s, acc.reverse)
  | t :: ts, acc =>
    let (s1, g) := if t == 'c' then schedC s else schedR s
    schedRun s1 ts (s!"{t}:{g}" :: acc)

/-- the harness then releases the closer gate by gate to its end, then the reader; a thread that
    no token started does not run. -/
def finishC : Nat → Sched → Sched
  | 0, s => s
  | n + 1, s =>
    match s.c with
    | .at _ => finishC n (schedC s).1
    | _ => s

def finishR : Nat → Sched → Sched
  | 0, s => s
  | n + 1, s =>
    match s.r with
    | .at _ => finishR n (schedR s).1
    | _ => s

def sched (f : Fields) : String :=
  match f.get "order" with
  | none => "bad-case"
  | some order =>
    -- one connection, both ends served and established
    let w0 := (World.empty.opServe 0 1 0 .serve none false).opServe 1 0 0 .serve none false
    let (s1, toks) := schedRun ⟨w0, .fresh, .fresh, false, []⟩ order.toList []
    let s2 := finishR 8 (finishC 8 s1)
    let c := coreOf s2
    s!"{joinWith "," toks}|{joinWith "," s2.trace}|st={c.st.code} n={c.notifyCnt} d={c.discCnt} left={if c.left then 1 else 0} {showHub s2.w 1}"

/-! ## inbound frames while `Close()` / `readDisconnected` stands at a gate

`c07win park=<gate> hold=<none|msg|add> frames=<q|w>*`: one established connection. With `hold`, the
first frame is sent before anything else and the reader is parked with it at `read.msg` (frame
returned by `ReadMessage`, post-read status test pending) or at `read.add` (test passed, `Add(1)`
pending). Then `Close()` runs to the gate `park` (`none`: no `Close()`; `end`: it returns) — or, for a
`disc.*` gate, the connection is cut and the reader runs to that gate of `readDisconnected`. Then the
held reader is released and the remaining frames (CALL `q` / PUSH `w`) are sent one at a time by the
remote end, each followed by a wait until the reader blocks in `ReadMessage` again or has left the
loop. Then `Close()` is released to its end, then the reader's disconnect path. Observed: the status at
every handler dispatch, whether the reader is still in the loop after the frames, the status / notify /
hook events and the final state. -/

structure Win where
  s : Sched
  hs : List Nat      -- status code at each handler dispatch (`read.add` passed, `Add(1)`)

/-- the reader leaves the loop by itself — the socket was closed under it, or a status test sent it
    to `readDisconnected` — and parks behind the status load (`disc.load`). -/
def winSettle (x : Win) : Win :=
  let c := coreOf x.s
  match x.s.r with
  | .fresh =>
    if c.reader = .reading && c.sockClosed then
      { x with s := { schedSteps x.s [.rdExit, .dLoad] with r := .at "disc.load" } }
    else if c.reader = .disc0 then
      { x with s := { schedSteps x.s [.dLoad] with r := .at "disc.load" } }
    else x
  | _ => x

/-- the reader goes on from where it stands in the loop until it blocks in `ReadMessage` or leaves. -/
def winReader (x : Win) : Win :=
  let s1 := if (coreOf x.s).reader = .got then schedSteps x.s [.rdChk] else x.s
  let (s2, hs) := if (coreOf s1).reader = .add then (schedSteps s1 [.rdAdd], x.hs ++ [(coreOf s1).st.code]) else (s1, x.hs)
  let s3 := if (coreOf s2).reader = .loop then schedSteps s2 [.rdTop] else s2
  winSettle ⟨s3, hs⟩

/-- the remote end sends one frame: it is read only by a reader blocked in `ReadMessage` on an open socket. -/
def winFrame (x : Win) : Win :=
  let c := coreOf x.s
  if c.reader = .reading && !c.sockClosed then winReader { x with s := schedSteps x.s [.rdMsg] } else x

/-- `Close()` runs to its next gate. -/
def winCStep (x : Win) : Win :=
  match x.s.c with
  | .ended => x
  | .fresh =>
    let s1 := schedSteps x.s [.closeCall]
    if (coreOf s1).closer = .idle then { x with s := { s1 with c := .ended } }
    else { x with s := { s1 with c := .at "close.cas" } }
  | .at g =>
    let (es, nx) := closerNext g
    let s1 := schedSteps x.s es
    { x with s := { s1 with c := if nx == "end" then .ended else .at nx } }

def winCloseTo : Nat → String → Win → Win
  | 0, _, x => x
  | n + 1, park, x =>
    let here := match x.s.c with
      | .at g => g
      | .ended => "end"
      | .fresh => "none"
    if here == park then x else winCloseTo n park (winCStep x)

/-- the reader's disconnect path runs to the gate `park` (the first step cuts the connection). -/
def winDiscTo : Nat → String → Win → Win
  | 0, _, x => x
  | n + 1, park, x =>
    let here := match x.s.r with
      | .at g => g
      | .ended => "end"
      | .fresh => "none"
    if here == park then x else winDiscTo n park { x with s := (schedR x.s).1 }

def win (f : Fields) : String :=
  match f.get "park", f.get "hold", f.get "frames" with
  | some park, some hold, some frames =>
    let frames := if frames == "-" then [] else frames.toList
    let w0 := (World.empty.opServe 0 1 0 .serve none false).opServe 1 0 0 .serve none false
    let x0 : Win := ⟨⟨w0, .fresh, .fresh, false, []⟩, []⟩
    -- the held frame
    let (x1, rest) : Win × List Char :=
      match hold, frames with
      | "msg", _ :: r => ({ x0 with s := schedSteps x0.s [.rdMsg] }, r)
      | "add", _ :: r => ({ x0 with s := schedSteps x0.s [.rdMsg, .rdChk] }, r)
      | _, fr => (x0, fr)
    -- the close path / the disconnect path to its gate
    let x2 := if park == "none" then x1
      else if park.startsWith "disc." then winDiscTo 8 park x1
      else winSettle (winCloseTo 8 park x1)
    -- the held reader goes on, then the remaining frames
    let x3 := winReader x2
    let x4 := rest.foldl (fun x _ => winFrame x) x3
    let rd := if (coreOf x4.s).reader = .reading then "read" else "disc"
    -- the rest: `Close()` to its end, then the reader
    let x5 := if x4.s.c = .fresh then x4 else winSettle (winCloseTo 8 "end" x4)
    let s6 := finishR 8 x5.s
    let c := coreOf s6
    let hs := if x5.hs.isEmpty then "-" else joinWith "." (x5.hs.map toString)
    s!"h={hs} rd={rd}|{joinWith "," s6.trace}|st={c.st.code} n={c.notifyCnt} d={c.discCnt} left={if c.left then 1 else 0} {showHub s6.w 1}"
  | _, _, _ => "bad-case"

end D07

def handlersC07 : List (String × (Fields → String)) :=
  [("c07hist", D07.hist), ("c07sched", D07.sched), ("c07win", D07.win)]

end Teleport.Drv
