/-
Drv/C10 — line-protocol handlers for the router model (case kinds `map`, `hist`).

  map  mk=http|rpc prefix=<hex> name=<hex>
       -> `ok <hex>` | `panic`
  hist mk=http|rpc ops=<op;op;...> probes=<c|p><hex>,...
       op:  g,<parent>,<hexprefix>
            rs,<c|p>,<group>,<hexstruct>,<hexmethod>:<hid>/<hexmethod>:<hid>...   (`-` = no methods)
            rf,<c|p>,<group>,<hexfunc>,<hid>
            u,<c|p>,<group>,<hid>
       -> `regs=<names of 1st Route* op>|<2nd>|... end=ok probes=<c|p><code>:<hid+hid|->,...`
          `regs=... end=fatal@<op index>`  (conflict: the process exits in `Fatalf`)
-/
import Teleport.Drv.Util
import Teleport.Model.Router
namespace Teleport.Drv
open Teleport Teleport.Router

def parseMk (s : String) : Option MapperKind :=
  if s == "http" then some .http else if s == "rpc" then some .rpc else none

def parseKind (s : String) : Option Kind :=
  if s == "c" then some .call else if s == "p" then some .push else none

def parseMethods (s : String) : Option (List (Name × Hid)) :=
  if s == "-" then some [] else
  (s.splitOn "/").mapM (fun p => match p.splitOn ":" with
    | [m, h] => do let m' ← ofHex m; let h' ← h.toNat?; pure (m', h')
    | _ => none)

def parseOp (s : String) : Option Op :=
  match s.splitOn "," with
  | ["g", par, pfx] => do pure (.subRoute (← par.toNat?) (← ofHex pfx))
  | ["rs", k, g, sn, ms] => do pure (.routeStruct (← parseKind k) (← g.toNat?) (← ofHex sn) (← parseMethods ms))
  | ["rf", k, g, fn, h] => do pure (.routeFunc (← parseKind k) (← g.toNat?) (← ofHex fn) (← h.toNat?))
  | ["u", k, g, h] => do pure (.setUnknown (← parseKind k) (← g.toNat?) (← h.toNat?))
  | _ => none

def isRoute : Op → Bool
  | .routeStruct .. => true
  | .routeFunc .. => true
  | _ => false

def showNames (ns : List Name) : String :=
  if ns.isEmpty then "-" else ",".intercalate (ns.map hexOr)

/-- run the history op by op so that the names returned before a fatal exit are still shown. -/
def runShow : State → List Op → Nat → List String → (Option State × List String × String)
  | s, [], _, acc => (some s, acc.reverse, "ok")
  | s, op :: ops, i, acc =>
    match step s op with
    | .error (.conflict _) => (none, acc.reverse, s!"fatal@{i}")
    | .error .panic => (none, acc.reverse, s!"panic@{i}")
    | .error .badRef => (none, acc.reverse, s!"badref@{i}")
    | .ok (s', names) => runShow s' ops (i + 1) (if isRoute op then showNames names :: acc else acc)

def parseProbe (s : String) : Option (Kind × Name) :=
  match s.toList with
  | 'c' :: r => (ofHex (String.ofList r)).map (fun n => (Kind.call, n))
  | 'p' :: r => (ofHex (String.ofList r)).map (fun n => (Kind.push, n))
  | _ => none

def showProbe (s : State) (p : Kind × Name) : String :=
  let d := dispatch s p.1 p.2
  let hs := if d.invoked.isEmpty then "-" else "+".intercalate (d.invoked.map toString)
  match p.1 with
  | .call => s!"c{d.code}:{hs}"
  | .push => s!"p-:{hs}"

def c10 (kind : String) (f : Fields) : String :=
  match kind with
  | "map" =>
    match (f.get "mk").bind parseMk, f.hex "prefix", f.hex "name" with
    | some mk, some p, some n =>
      match mapper mk p n with
      | some r => "ok " ++ hexOr r
      | none => "panic"
    | _, _, _ => "bad-case"
  | "hist" =>
    match (f.get "mk").bind parseMk, f.get "ops", f.get "probes" with
    | some mk, some ops, some probes =>
      let ops' := if ops == "-" then some [] else (ops.splitOn ";").mapM parseOp
      let probes' := if probes == "-" then some [] else (probes.splitOn ",").mapM parseProbe
      match ops', probes' with
      | some ops, some probes =>
        match init mk with
        | .error _ => "regs= end=panic@init"
        | .ok s0 =>
          match runShow s0 ops 0 [] with
          | (some s, regs, e) =>
            s!"regs={"|".intercalate regs} end={e} probes={",".intercalate (probes.map (showProbe s))}"
          | (none, regs, e) => s!"regs={"|".intercalate regs} end={e}"
      | _, _ => "bad-case"
    | _, _, _ => "bad-case"
  | _ => "bad-kind"

/-- case kinds served by this module. -/
def handlersC10 : List (String × (Fields → String)) :=
  ["map", "hist"].map (fun k => (k, c10 k))

end Teleport.Drv
