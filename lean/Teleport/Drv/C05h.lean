import Teleport.Drv.C05
import Teleport.Model.HttpProto
/-
Drv/C05h — case kinds `httppack`, `httpunpack`, `httpstream` (C05) and `httpread` (C06): the model
of `proto/httproto/httproto.go` (Model/HttpProto) on the line protocol.  The environment of a case:
the real gzip filter (id 103, name `gzip-5`) given as two tables of the case line (`gzp=` what the
real `OnPack` returned for the byte strings that occur, `gzu=` what `OnUnpack` returns, `e` = refused
with io.EOF / io.ErrUnexpectedEOF, `h` = that or a panic depending on the filter's reader pool, absent = refused otherwise or panicked), the three test filters (ids 1..3, names `vrev vxor vlen`, not gzip), and `sj=` what the
real `Status.UnmarshalJSON` answers for the status entities that the model's strict decoder leaves open.
`unmodelled` is printed where the model declines (`url.Parse` of an authority form, a status entity
missing from the table); the Go generator does not produce such cases.
-/
namespace Teleport.Drv
namespace D05h
open Teleport HttpP

/-- `a>b|c>d`, `-` = empty; right side `x` = `none`. -/
def parseTab (s : String) : Option (List (Bytes × Option Bytes)) :=
  if s == "-" then some [] else
  (s.splitOn "|").mapM (fun e => match e.splitOn ">" with
    | [p, r] => do
      let p' ← ofHex p
      if r == "x" || r == "e" || r == "h" then pure (p', none) else do let r' ← ofHex r; pure (p', some r')
    | _ => none)

def lookup (t : List (Bytes × Option Bytes)) (b : Bytes) : Option Bytes :=
  match t.find? (·.1 == b) with
  | some (_, r) => r
  | none => none

/-- `code;msg;cause` (cause `nil` or hex) or `x`. -/
def parseStatus (s : String) : Option (Option Status) :=
  if s == "x" then some none else
  match s.splitOn ";" with
  | [a, b, c] => do
    let code ← a.toInt?
    let msg ← ofHex b
    let cause ← if c == "nil" then some none else (ofHex c).map some
    pure (some ⟨code, msg, cause⟩)
  | _ => none

def parseSJ (s : String) : Option (List (Bytes × Option Status)) :=
  if s == "-" then some [] else
  (s.splitOn "|").mapM (fun e => match e.splitOn ">" with
    | [p, r] => do let p' ← ofHex p; let r' ← parseStatus r; pure (p', r')
    | _ => none)

def nGzip : Bytes := [103, 122, 105, 112, 45, 53]     -- gzip-5
def nRev : Bytes := [118, 114, 101, 118]              -- vrev
def nXor : Bytes := [118, 120, 111, 114]              -- vxor
def nLen : Bytes := [118, 108, 101, 110]              -- vlen

/-- the stage of the pipe that fails is the gzip filter on bytes the table marks `e`. -/
def failEof (reg : Registry) (gze : List Bytes) : List UInt8 → Bytes → Bool
  | [], _ => false
  | i :: is, d =>
    match reg i with
    | none => false
    | some f =>
      match f.unpack d with
      | none => i == 103 && gze.contains d
      | some d' => failEof reg gze is d'

def hreg (gzp gzu : List (Bytes × Option Bytes)) : Registry :=
  -- xfer/gzip.OnUnpack returns an empty input as it is
  fun i => if i == 103 then some { pack := lookup gzp, unpack := fun d => if d.isEmpty then some [] else lookup gzu d } else testReg i

def mkEnv (gzp gzu : List (Bytes × Option Bytes)) (gze : List Bytes) (sj : List (Bytes × Option Status)) : Env :=
  { reg := hreg gzp gzu
    xeof := failEof (hreg gzp gzu) gze
    fname := fun i => if i == 103 then nGzip else if i == 1 then nRev else if i == 2 then nXor else if i == 3 then nLen else []
    byName := fun n => if n == nGzip then some 103 else if n == nRev then some 1 else if n == nXor then some 2
                       else if n == nLen then some 3 else none
    gz := fun i => i == 103
    sjson := fun b => (sj.find? (·.1 == b)).map (·.2) }

/-- the left sides whose right side is `tag`. -/
def parseEofs (tag : String) (s : String) : List Bytes :=
  if s == "-" then [] else
  (s.splitOn "|").filterMap (fun e => match e.splitOn ">" with
    | [p, r] => if r == tag then ofHex p else none
    | _ => none)

/-- `withH`: the gzip filter's pooled reader has been used before, so a stream that ends inside the
    gzip header (`h`) is reported as an EOF error; otherwise the filter panics on it. -/
def envOf (withH : Bool) (f : Fields) : Option Env := do
  let gzp ← ((f.get "gzp").getD "-") |> parseTab
  let gzu ← ((f.get "gzu").getD "-") |> parseTab
  let sj ← ((f.get "sj").getD "-") |> parseSJ
  let g := (f.get "gzu").getD "-"
  pure (mkEnv gzp gzu (parseEofs "e" g ++ (if withH then parseEofs "h" g else [])) sj)

def cls (o : Raw.Out) : String :=
  match o with
  | .ok _ _ => "ok"
  | .eof => "eof"
  | .size => "size"
  | .reject e => if e == "unmodelled" then "unmodelled" else "reject"

def showOut (o : Raw.Out) : String :=
  match o with
  | .ok m rest => s!"ok {showMsg m} rest={rest.length}"
  | o => cls o

def showPack (o : PackOut) : String :=
  match o with
  | .ok b sz => s!"ok size={sz} bytes={toHex b}"
  | .err w => "err:" ++ w
  | .panic => "panic"
  | .unmodelled => "unmodelled"

/-- decode messages until one is not ok (fuel = input length + 1). -/
def unpackAll (env : Env) (lim : Nat) (inp : Bytes) : Nat → List Msg → List Msg × String
  | 0, acc => (acc.reverse, "runaway")
  | fuel + 1, acc =>
    match (unpack env lim inp).out with
    | .ok m rest => unpackAll env lim rest fuel (m :: acc)
    | o => (acc.reverse, cls o)

def c05h1 (withH : Bool) (kind : String) (f : Fields) : String :=
  match envOf withH f, f.nat "limit" with
  | some env, some lim =>
    match kind with
    | "httppack" =>
      match msgOfFields f with
      | some m => showPack (pack env lim m)
      | none => "bad-case"
    | "httpunpack" =>
      match f.hex "bytes" with
      | some b => showOut (unpack env lim b).out
      | none => "bad-case"
    | "httpread" =>
      match f.hex "bytes" with
      | some b =>
        let r := unpack env lim b
        s!"{cls r.out} consumed={r.consumed b} ask={r.ask}"
      | none => "bad-case"
    | "httpstream" =>
      match f.get "msgs", f.hex "tail" with
      | some ms, some tail =>
        let msgs := (ms.splitOn "|").map (fun l => msgOfFields (parseFields (l.splitOn ";")))
        if msgs.any Option.isNone then "bad-case" else
        let packed := msgs.filterMap (fun m => m.bind (fun m => match pack env 1073741824 m with
          | .ok b _ => some b
          | _ => none))
        if packed.length ≠ msgs.length then "bad-case" else
        let stream := packed.flatten ++ tail
        let (ms', endc) := unpackAll env lim stream (stream.length + 1) []
        s!"n={ms'.length} end={endc} bytes={hexOr stream} msgs={"|".intercalate (ms'.map (fun m => (showMsg m).replace " " ";"))}"
      | _, _ => "bad-case"
    | _ => "bad-kind"
  | _, _ => "bad-case"

/-- both pool states of the gzip filter, as alternatives when they differ. -/
def c05h (kind : String) (f : Fields) : String :=
  let a := c05h1 true kind f
  if ((f.get "gzu").getD "-").contains '>' && (parseEofs "h" ((f.get "gzu").getD "-")).length > 0 then
    let b := c05h1 false kind f
    if a == b then a else a ++ " || " ++ b
  else a

end D05h

/-- case kinds served by this module. -/
def handlersC05h : List (String × (Fields → String)) :=
  ["httppack", "httpunpack", "httpstream", "httpread"].map (fun k => (k, D05h.c05h k))

end Teleport.Drv
