/-
Drv/C17 — line-protocol handlers for the secure plugin model.

The cipher is abstract in the model; the driver instantiates it with a toy cipher that satisfies
the law `dec k (enc k x) = ok x` (the observation lines describe structure only: which frames are
envelopes, which key version they name, who was invoked, statuses, whether values arrived), with
the key version computed for real (`hex(md5(key))`, Model/Md5), and — for forged frames — with the
outcome of the real `AESDecrypt` on that ciphertext passed in by the case line.

  c17call   kc ks qsec qacc rsec racc hok ae re        one CALL/REPLY exchange
  c17push   kc ks qsec qacc ae                         one PUSH
  c17forgeq ks v dec qacc hok rsec racc re             CALL frame forged by a peer without the plugin
  c17forger kc v dec                                   REPLY frame forged by a peer without the plugin
-/
import Teleport.Drv.Util
import Teleport.Model.Secure
import Teleport.Model.Md5
namespace Teleport.Drv
open Teleport Teleport.Secure

def hexLowerB (b : Bytes) : Bytes :=
  b.foldr (fun (c : UInt8) acc =>
    let d (n : Nat) : UInt8 := if n < 10 then (48 + n).toUInt8 else (87 + n).toUInt8
    d (c.toNat / 16) :: d (c.toNat % 16) :: acc) []

/-- `goutil.Md5(key)`: lower-case hex of the MD5 digest. -/
def md5hex (k : Bytes) : Bytes := hexLowerB (Md5.sum k)

/-- toy cipher: tag with the key length and the key's first byte. -/
def toyEnc (k x : Bytes) : Bytes := k.length.toUInt8 :: k.headD 0 :: x
def toyDec (k c : Bytes) : DecOut :=
  match c with
  | a :: b :: x => if a = k.length.toUInt8 ∧ b = k.headD 0 then .ok x else .err
  | _ => .err

def toyCipher : Cipher := ⟨toyEnc, toyDec, md5hex⟩

/-- toy envelope codec: 0xE5, one length byte for the version, version, ciphertext. -/
def toyMar (v c : Bytes) : Bytes := 0xE5 :: v.length.toUInt8 :: v ++ c
def toyUnmar (b : Bytes) : Option (Bytes × Bytes) :=
  match b with
  | 0xE5 :: n :: r => if n.toNat ≤ r.length then some (r.take n.toNat, r.drop n.toNat) else none
  | _ => none

def toyEnv : EnvCodec := ⟨toyMar, toyUnmar⟩

def bodyA : Bytes := [1, 2, 3]
def bodyR : Bytes := [4, 5]

def optHex (f : Fields) (k : String) : Option (Option Bytes) :=
  match f.get k with
  | some "nil" => some none
  | some h => (ofHex h).map some
  | none => none

def showOpt (v : Option Bytes) : String := match v with | none => "nil" | some b => hexOr b

def showSt : St → String
  | .ok => "ok" | .secure => "secure" | .handler => "handler" | .bad => "bad" | .internal => "internal"

def asStr (b : Bytes) : String := String.ofList (b.map (fun c => Char.ofNat c.toNat))

/-- env:/ver: part of a frame description. -/
def envPart (E : EnvCodec) (fr : Frame) : String :=
  if isSecure fr.mks.sec then
    match readEnv E fr.body with
    | some (v, _) => if v.isEmpty then "env:0,ver:-" else s!"env:1,ver:{asStr v}"
    | none => "env:0,ver:-"
  else "env:0,ver:-"

def cmpVal (want : Bytes) (got : Option Bytes) : String :=
  match got with
  | some b => if b == want then "same" else if b.isEmpty then "none" else "diff"
  | none => if want.isEmpty then "same" else "none"

def showReq (E : EnvCodec) (fr : Frame) : String :=
  s!"q=sec:{showOpt fr.mks.sec},acc:{showOpt fr.mks.acc},{envPart E fr}"

def showReply (E : EnvCodec) (fr : Frame) : String :=
  s!"r=sec:{showOpt fr.mks.sec},acc:{showOpt fr.mks.acc},{envPart E fr},st:{showSt fr.st},body:{if fr.body.isEmpty then 0 else 1}"

def showArg (want : Bytes) (inv : Bool) (a : Option Bytes) : String :=
  if inv then s!"inv=1 arg={cmpVal want a}" else "inv=0 arg=-"

def decOf (s : String) (plain : Bytes) : Option DecOut :=
  match s with
  | "ok" => some (.ok plain)
  | "err" => some .err
  | "panic" => some .panic
  | "na" => some .err
  | _ => none

def c17 (kind : String) (f : Fields) : String :=
  match kind with
  | "c17call" =>
    match f.hex "kc", f.hex "ks", optHex f "qsec", optHex f "qacc", optHex f "rsec", optHex f "racc",
          f.nat "hok", f.nat "ae", f.nat "re" with
    | some kc, some ks, some qsec, some qacc, some rsec, some racc, some hok, some ae, some re =>
      let a := if ae == 1 then [] else bodyA
      let r := if re == 1 then [] else bodyR
      let cfg : Cfg := ⟨toyCipher, toyEnv, kc, ks⟩
      let o := secureExchange cfg ⟨⟨qsec, qacc⟩, a, fun _ => ⟨hok == 1, r, ⟨rsec, racc⟩⟩⟩
      if o.callerUndet then "undetermined" else
      s!"{showReq toyEnv o.reqWire} {showArg a o.invoked o.handlerArg} {showReply toyEnv o.replyWire} cst={showSt o.callerSt} res={cmpVal r o.callerRes}"
    | _, _, _, _, _, _, _, _, _ => "bad-case"
  | "c17push" =>
    match f.hex "kc", f.hex "ks", optHex f "qsec", optHex f "qacc", f.nat "ae" with
    | some kc, some ks, some qsec, some qacc, some ae =>
      let a := if ae == 1 then [] else bodyA
      let cfg : Cfg := ⟨toyCipher, toyEnv, kc, ks⟩
      let o := securePush cfg ⟨qsec, qacc⟩ a
      s!"{showReq toyEnv o.wire} {showArg a o.invoked o.handlerArg} pst={showSt o.senderSt}"
    | _, _, _, _, _ => "bad-case"
  | "c17forgeq" =>
    -- the request frame is built by hand: X-Secure=true, body = envelope (v, ct); the real
    -- AESDecrypt outcome for ct under the server's key is part of the case
    match f.hex "ks", f.hex "v", f.get "dec", optHex f "qacc", optHex f "rsec", optHex f "racc",
          f.nat "hok", f.nat "re" with
    | some ks, some v, some ds, some qacc, some rsec, some racc, some hok, some re =>
      match decOf ds bodyA with
      | none => "bad-case"
      | some d =>
        let r := if re == 1 then [] else bodyR
        let C : Cipher := ⟨toyEnc, fun _ _ => d, md5hex⟩
        let cfg : Cfg := ⟨C, toyEnv, ks, ks⟩
        let q : Frame := ⟨⟨some trueB, qacc⟩, toyMar v [9], .ok⟩
        let s := serveCall cfg q (fun _ => ⟨hok == 1, r, ⟨rsec, racc⟩⟩)
        s!"{showReq toyEnv q} {showArg bodyA s.1 s.2.1} {showReply toyEnv s.2.2}"
    | _, _, _, _, _, _, _, _ => "bad-case"
  | "c17forger" =>
    match f.hex "kc", f.hex "v", f.get "dec" with
    | some kc, some v, some ds =>
      match decOf ds bodyR with
      | none => "bad-case"
      | some d =>
        let C : Cipher := ⟨toyEnc, fun _ _ => d, md5hex⟩
        let cfg : Cfg := ⟨C, toyEnv, kc, kc⟩
        let p : Frame := ⟨⟨some trueB, none⟩, toyMar v [9], .ok⟩
        let c := readReply cfg p
        if c.2.2 then "undetermined" else
        s!"{showReply toyEnv p} cst={showSt c.1} res={cmpVal bodyR c.2.1}"
    | _, _, _ => "bad-case"
  | _ => "bad-kind"

/-- case kinds served by this module. -/
def handlersC17 : List (String × (Fields → String)) :=
  ["c17call", "c17push", "c17forgeq", "c17forger"].map (fun k => (k, c17 k))

end Teleport.Drv
