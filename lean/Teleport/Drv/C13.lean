import Teleport.Drv.Util
import Teleport.Model.Redial
namespace Teleport.Drv
open Teleport Teleport.Redial

namespace D13

def fuel : Nat := 400

def parseAvail (c : Char) : Option Avail :=
  match c with
  | 'u' => some .up
  | 'd' => some .down
  | 'h' => some .hookFail
  | _ => none

/-- `ddu`: queue `d,d`, then `u` for ever. The empty string leaves the environment as it is. -/
def setAv (s : State) (av : String) : Option State :=
  match av.toList.reverse with
  | [] => some s
  | l :: r => do
    let st ← parseAvail l
    let q ← r.reverse.mapM parseAvail
    pure { s with env := ⟨q, st⟩ }

def showCode (c : Nat) : String := if c == 0 then "ok" else toString c

def callRes (s : State) (j : Nat) : String :=
  match s.calls[j]? with
  | some c => match c.res with
    | some code => showCode code
    | none => "hang"
  | none => "hang"

def live (s : State) : Bool := s.status == .ok && !(s.dead.contains s.conn)

def pcOf (s : State) (i : Nat) : Option Pc := (s.threads[i]?).map (·.pc)

def noStop : Pc → Bool := fun _ => false

/-- deliver the reply of call `j` when its frame was written and the reply can arrive. -/
def tryReply (s : State) (j : Nat) : State :=
  match step s (.reply j) with
  | some t => t
  | none => s

/-- start a call; returns the state, the call index and the writer's thread index. -/
def spawnCall (s : State) : State × Nat × Nat :=
  match step s .call with
  | some t => (t, s.calls.length, s.threads.length)
  | none => (s, 0, 0)

/-- an echo call run to completion with the threads in `parked` held: result and state. -/
def echoCall (s : State) (parked : List Nat) : State × String :=
  let (s1, j, w) := spawnCall s
  let s2 := runThread w noStop fuel s1
  let s3 := tryReply s2 j
  let s4 := quiesce parked fuel s3
  (s4, callRes s4 j)

def loseLive (s : State) : State :=
  if s.dead.contains s.conn then s else { s with dead := s.conn :: s.dead }

/-- index of the reader thread of connection `k`. -/
def readerIdx (s : State) (k : Nat) : Nat :=
  (s.threads.findIdx? fun t => t.role == .reader k).getD 0

def isPc (p : Pc) : Pc → Bool := fun q => q == p

def stepRes (s : State) (f : List String) : Option (State × String) :=
  let arg := fun (i : Nat) => f.getD i ""
  match f.head? with
  | some "call" => do
    let s ← setAv s (arg 1)
    pure (echoCall s [])
  | some "push" => do
    let s ← setAv s (arg 1)
    let s1 ← step s .push
    let w := s.threads.length
    let s2 := runThread w noStop fuel s1
    let r := match pcOf s2 w with
      | some (.wDone c) => showCode c
      | _ => "hang"
    pure (quiesce [] fuel s2, r)
  | some "cut" => do
    let s ← setAv s (arg 1)
    pure (quiesce [] fuel (loseLive s), "-")
  | some "setid" => do
    let s1 ← step s .setUser
    pure (s1, "-")
  | some "cutcall" => do
    let s ← setAv s (arg 1)
    let (s1, j, w) := spawnCall s
    let s2 := runThread w noStop fuel s1
    let s3 := if pcOf s2 w == some .wAwait then loseLive s2 else s2
    let s4 := quiesce [] fuel s3
    pure (s4, callRes s4 j)
  | some "wdet" => do
    let s ← setAv s (arg 2)
    if !live s then pure (echoCall s [])
    else
      let rd := readerIdx s s.conn
      let s1 := runThread rd (isPc .rErr) fuel (loseLive s)
      let (s2, r) := echoCall s1 [rd]
      pure (quiesce [] fuel s2, r)
  | some "race" => do
    let s ← setAv s (arg 2)
    if !live s then pure (echoCall s [])
    else
      let rd := readerIdx s s.conn
      let s1 := runThread rd (isPc .dRedial) fuel (loseLive s)
      let (s2, j, w) := spawnCall s1
      let s3 := runThread w (fun p => match p with | .wWrite _ _ => true | _ => false) fuel s2
      if arg 1 == "r" then
        let s4 := quiesce [w] fuel s3
        let s5 := runThread w noStop fuel s4
        let s6 := quiesce [] fuel (tryReply s5 j)
        pure (s6, callRes s6 j)
      else
        let s4 := runThread w noStop fuel s3
        let s5 := quiesce [rd] fuel (tryReply s4 j)
        let s6 := quiesce [] fuel s5
        pure (s6, callRes s6 j)
  | some "stale" => do
    let s ← setAv s (arg 2)
    if !live s then
      let (s1, r) := echoCall s []
      pure (s1, r ++ ",-")
    else
      let rd := readerIdx s s.conn
      let s1 := runThread rd (fun p => match p with | .dCancel _ => true | _ => false) fuel (loseLive s)
      let (s2, r1) := echoCall s1 [rd]
      if arg 1 == "1" && live s2 then
        let (s3, j, w) := spawnCall s2
        let s4 := quiesce [rd] fuel (runThread w noStop fuel s3)
        let s5 := quiesce [] fuel s4
        match (s5.calls[j]?).bind (·.res) with
        | some c => pure (s5, r1 ++ "," ++ showCode c)
        | none =>
          let s6 := quiesce [] fuel (tryReply s5 j)
          pure (s6, r1 ++ ",pend>" ++ callRes s6 j)
      else
        pure (quiesce [] fuel s2, r1 ++ ",-")
  | some "lockq" => do
    let s ← setAv s (arg 2)
    let (holderR, extra) ← match (arg 1).toList with
      | ['r', '0'] => some (true, false)
      | ['r', '1'] => some (true, true)
      | ['w', '0'] => some (false, false)
      | ['w', '1'] => some (false, true)
      | _ => none
    if !live s then
      let (s1, r) := echoCall s []
      pure (s1, r ++ ",-")
    else if !s.redial then
      let (s1, r) := echoCall (quiesce [] fuel (loseLive s)) []
      pure (s1, r ++ ",-")
    else
      let rd := readerIdx s s.conn
      let atLocked : Pc → Bool := fun p => match p with | .xLocked _ => true | _ => false
      -- `sq`: the holder has run its round, the queued party `q` has the lock and stands at its gate
      let (sq, j, q) :=
        if holderR then
          let s1 := runThread rd atLocked fuel (loseLive s)        -- reader holds the lock
          let (s2, j, w) := spawnCall s1
          let s3 := runThread w noStop fuel s2                      -- writer: blocked at xLock
          let s4 := quiesce [w] fuel s3                             -- reader: round, then to its end
          (quiesce [w] fuel (runThread w atLocked fuel s4), j, w)
        else
          let s1 := runThread rd (isPc .dRedial) fuel (loseLive s)
          let (s2, j, w) := spawnCall s1
          let s3 := runThread w atLocked fuel s2                    -- writer holds the lock
          let s4 := runThread rd noStop fuel s3                     -- reader: blocked at xLock
          let s5 := tryReply (runThread w noStop fuel s4) j         -- writer: round, call, reply
          (quiesce [rd] fuel (runThread rd atLocked fuel s5), j, rd)
      if extra && live sq then
        let (s6, j2, w2) := spawnCall sq
        let s7 := quiesce [q] fuel (runThread w2 noStop fuel s6)
        let s8 := quiesce [] fuel (tryReply (runThread q noStop fuel s7) j)
        match (s8.calls[j2]?).bind (·.res) with
        | some c => pure (s8, callRes s8 j ++ "," ++ showCode c)
        | none =>
          let s9 := quiesce [] fuel (tryReply s8 j2)
          pure (s9, callRes s9 j ++ ",pend>" ++ callRes s9 j2)
      else
        let s8 := quiesce [] fuel (tryReply (runThread q noStop fuel sq) j)
        pure (s8, callRes s8 j ++ ",-")
  | _ => none

def showKey : Key → String
  | .addr k => s!"a{k}"
  | .user => "user"

def b01 (b : Bool) : String := if b then "1" else "0"

def showRounds (l : List Nat) : String := if l.isEmpty then "-" else "+".intercalate (l.map toString)

def showLog (l : List Bool) : String :=
  if l.isEmpty then "-" else String.ofList (l.map fun b => if b then 'r' else 'd')

def hasSub (s sub : String) : Bool := (s.splitOn sub).length > 1

def observe (s : State) (res : String) : String :=
  let pend := s.calls.countP fun c => c.res.isNone
  let hung := s.threads.any fun t => t.pc == .stuck
  let res := if hung && !hasSub res "hang" then res ++ "!hang" else res
  s!"{res};st={s.status.code};id={showKey s.id};h={b01 s.health};nt={b01 s.notified};hub={s.hub.length}:{b01 (s.hub.contains s.id)};att={showRounds s.rounds};log={showLog s.dialLog};pend={pend};disc={s.discHook};conn={s.conn}"

def runSteps (s : State) : List String → List String → String
  | [], acc => " ".intercalate acc.reverse
  | st :: rest, acc =>
    match stepRes { s with rounds := [], dialLog := [] } (st.splitOn ":") with
    | none => "bad-case"
    | some (s1, r) =>
      let o := observe s1 r
      if hasSub o "hang" then " ".intercalate (o :: acc).reverse
      else runSteps s1 rest (o :: acc)

def c13 (f : Fields) : String :=
  match f.int "b", f.get "werr", f.get "steps" with
  | some b, some w, some steps =>
    let s := State.init b (w == "eof")
    runSteps s (steps.splitOn ",") [observe s "dial"]
  | _, _, _ => "bad-case"

end D13

def handlersC13 : List (String × (Fields → String)) := [("c13", D13.c13)]

end Teleport.Drv
