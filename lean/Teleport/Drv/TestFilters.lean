/-
Drv/TestFilters — three transfer filters that the Go harness registers in the real `xfer` registry
(ids 1, 2, 3) with exactly these semantics, so that the pipe logic of `xfer.go`/`protocol.go`
(order of application, error propagation, id lookup) is exercised with non-commuting filters
whose model is computable here.
-/
import Teleport.Model.Xfer
namespace Teleport.Drv

def fRev : Filter := { pack := fun d => some d.reverse, unpack := fun d => some d.reverse }

def fXor : Filter :=
  { pack := fun d => some (d.map (· ^^^ 0x5A) ++ [0xEE])
    unpack := fun d => match d.reverse with
      | 0xEE :: r => some (r.reverse.map (· ^^^ 0x5A))
      | _ => none }

def fLen : Filter :=
  { pack := fun d => some ((d.length % 256).toUInt8 :: d)
    unpack := fun d => match d with
      | c :: r => if c == (r.length % 256).toUInt8 then some r else none
      | [] => none }

def testReg : Registry := fun i =>
  if i == 1 then some fRev else if i == 2 then some fXor else if i == 3 then some fLen else none

end Teleport.Drv
