import Teleport.Drv.Util
import Teleport.Model.Overload
namespace Teleport.Drv
open Teleport Teleport.Overload

namespace C18

def showCL : Option CL → String
  | none => "nil"
  | some l => s!"{l.lim}:{l.now}:{l.tmp}"

def showQL : Option QL → String
  | none => "nil"
  | some q => s!"{q.limit}:{q.tokens}:{q.once}"

/-- `K`-th (mod count) element of a non-empty index list. -/
def pick (l : List Nat) (k : Nat) : Option Nat := if l.isEmpty then none else l[k % l.length]?

def opArg (op : String) : String := (op.drop 1).toString

/-- one op of a connection history; returns the new system and the step's result token. -/
def connOp (s : Sys) (op : String) : Option (Sys × String) :=
  match op.front with
  | 'c' =>
    let (s1, r) := s.connect
    some (s1, match r with
      | .admitted => "a"
      | .rejected l n => s!"r:{l}:{n}")
  | 'd' | 'x' | 'y' =>
    (opArg op).toNat?.map fun k =>
      match pick (s.indices fun x => x.admitted && x.isOpen) k with
      | some i => (s.close i, "d")
      | none => (s, "-")
  | 'z' =>
    (opArg op).toNat?.map fun k =>
      match pick (s.indices fun x => x.admitted && !x.isOpen) k with
      | some i => (s.close i, "z")
      | none => (s, "-")
  | 'u' =>
    (opArg op).toInt?.bind fun n =>
      (s.ov.update { s.ov.conf with maxConn := n }).map fun o => ({ s with ov := o }, "u")
  | _ => none

def connRun (s : Sys) : List String → List String → String
  | [], acc => " ".intercalate acc.reverse
  | op :: rest, acc =>
    match connOp s op with
    | none => "bad-case"
    | some (s1, r) => connRun s1 rest (s!"{r}/{s1.live}/{s1.live}/{showCL s1.ov.conn}" :: acc)

def conn (f : Fields) : String :=
  match f.int "init", f.get "ops" with
  | some n, some ops =>
    match OV.new ⟨n, 0, 0, []⟩ with
    | none => "panic"
    | some o => connRun ⟨o, []⟩ (ops.splitOn ",") []
  | _, _ => "bad-case"

/-- method index → service method of the harness (`/p/a`, `/p/b` may carry a handler limit, `/p/c` never). -/
def methodOf (i : Nat) : String := match i with
  | 0 => "/p/a"
  | 1 => "/p/b"
  | _ => "/p/c"

/-- qps config `L:ivl:h0:h1` (a handler entry ≤ 0 is left out of the list). -/
def qconf (s : String) : Option Conf :=
  match (s.splitOn ":").map String.toInt? with
  | [some l, some ivl, some h0, some h1] =>
    some ⟨0, ivl.toNat, l, (if h0 > 0 then [("/p/a", h0)] else []) ++ (if h1 > 0 then [("/p/b", h1)] else [])⟩
  | _ => none

def showDecision : Decision → String
  | .ok => "ok"
  | .totalOver l => s!"t{l}"
  | .handlerOver l => s!"h{l}"

def tickTotal (o : OV) : OV := { o with total := o.total.map QL.tick }
def tickHandler (o : OV) (m : String) : OV :=
  match hqGet o.hq m with
  | some q => { o with hq := hqSet o.hq m q.tick }
  | none => o

def showQ (o : OV) : String :=
  s!"{showQL o.total}/{showQL (hqGet o.hq "/p/a")}/{showQL (hqGet o.hq "/p/b")}"

/-- one op of a call/push/tick history. -/
def qpsOp (o : OV) (op : String) : Option (OV × String) :=
  match op.front with
  | 'c' | 'p' =>
    (opArg op).toNat?.map fun i =>
      let (o1, d) := o.readHeader (methodOf i)
      let h := dispatch (op.front == 'c') true d
      let ran := if h.handlerRan then 1 else 0
      (o1, if op.front == 'c' then s!"c:{showDecision d}:{ran}"
           else if d.isOK then s!"p:ok:{ran}" else s!"p:rej:{ran}")
  | 't' =>
    match opArg op with
    | "" => some (tickHandler (tickHandler (tickTotal o) "/p/a") "/p/b", "t")
    | "t" => some (tickTotal o, "t")
    | a => a.toNat?.map fun i => (tickHandler o (methodOf i), "t")
  | 'u' =>
    (qconf (opArg op)).map fun c =>
      match o.update c with
      | some o1 => (o1, "u")
      | none => (o, "panic")
  | _ => none

def qpsRun (o : OV) : List String → List String → String
  | [], acc => " ".intercalate acc.reverse
  | op :: rest, acc =>
    match qpsOp o op with
    | none => "bad-case"
    | some (o1, r) =>
      if r == "panic" then " ".intercalate ("panic/-" :: acc).reverse
      else qpsRun o1 rest (s!"{r}/{showQ o1}" :: acc)

def qps (f : Fields) : String :=
  match (f.get "conf").bind qconf, f.get "ops" with
  | some c, some ops =>
    match OV.new c with
    | none => "panic"
    | some o => qpsRun o (ops.splitOn ",") []
  | _, _ => "bad-case"

end C18

/-- case kinds served by this module (`c18stress*`: oracle-only runs on the real code). -/
def handlersC18 : List (String × (Fields → String)) :=
  [("c18conn", C18.conn), ("c18qps", C18.qps),
   ("c18stressconn", fun _ => "done"), ("c18stressqps", fun _ => "done")]

end Teleport.Drv
