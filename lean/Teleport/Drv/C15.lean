/-
Drv/C15 — line-protocol handler for property C15: replays the abstract operation list of one history
on the status heap model and prints what the Go harness observes on the real code:
  T[..]  per step, the (code,msg,cause) the step's caller observed (query encoding, hex; `-` = none)
  S[..]  the predefined statuses after the history
  B[..]  the battery of framework failure rules after the history
Case kind: c15hist  steps=<names>  ops=<step;step;..>  bat=<rule,rule,..>
  step  = `-` | op,op,..
  op    = rs.<sentinel> | cp.<target>.<cause> | df.<hex> | wire.<target> | nw.<code>.<msg>.<cause>
        | cb.<code>.<msg>.<cause> | mu.<class>.<target>.<mut> | obs
  target= s:<sentinel> | d:<k> (k-th allocated cell) | last
  mut   = c:<int> | m:<hex> | k:<hex|nil> | ow:<code>:<msg>:<cause>
  rule  = closed-call | unknown-route | empty-method | unprepared | mtype | panic:<hex> | bad-body:<hex>
        | write-failed:<hex> | dial-failed:<hex> | cancelled:<hex>
-/
import Teleport.Drv.Util
import Teleport.Model.StatusHeap
namespace Teleport.Drv
open Teleport Teleport.StatusHeap

namespace D15

def optHex (s : String) : Option (Option Bytes) :=
  if s == "nil" then some none else (ofHex s).map some

def target (h : Heap) (last : Option Addr) (s : String) : Option Addr :=
  match s.splitOn ":" with
  | ["last"] => last
  | ["s", n] => addrOf n
  | ["d", k] => do let i ← k.toNat?; if nSent + i < h.length then some (nSent + i) else none
  | _ => none

def mutOf (s : String) : Option Mut :=
  match s.splitOn ":" with
  | ["c", n] => do pure (.setCode (← n.toInt?))
  | ["m", x] => do pure (.setMsg (← ofHex x))
  | ["k", x] => do pure (.setCause (← optHex x))
  | ["ow", c, m, k] => do pure (.overwrite ⟨← c.toInt?, ← ofHex m, ← optHex k⟩)
  | _ => none

inductive Tok
  | op (o : Op)
  | obs

def tok (h : Heap) (last : Option Addr) (s : String) : Option Tok :=
  match s.splitOn "." with
  | ["obs"] => some .obs
  | ["rs", n] => do pure (.op (.returnSentinel (← addrOf n)))
  | ["cp", t, c] => do pure (.op (.copyOf (← target h last t) (← optHex c)))
  | ["df", b] => do pure (.op (.decodeFresh (← ofHex b)))
  | ["wire", t] => do pure (.op (.sendOver (← target h last t)))
  | ["nw", c, m, k] => do pure (.op (.newStatus ⟨← c.toInt?, ← ofHex m, ← optHex k⟩))
  | ["cb", c, m, k] => do pure (.op (.newCallback ⟨← c.toInt?, ← ofHex m, ← optHex k⟩))
  | ["mu", cls, t, m] => do pure (.op (.mutate (Cls.ofString cls) (← target h last t) (← mutOf m)))
  | _ => none

def showStat (s : Status) : String := toHex s.encode

structure St where
  heap : Heap
  last : Option Addr
  ok : Bool          -- every operation so far respected the class discipline

/-- one step: its operations in order; result = the observation (if the step has an `obs`). -/
def runStep : List String → St → Option String → Option (St × Option String)
  | [], st, o => some (st, o)
  | t :: r, st, o =>
    match tok st.heap st.last t with
    | none => none
    | some .obs => runStep r st (some (match st.last with | some a => showStat (valAt st.heap a) | none => "-"))
    | some (.op op) =>
      runStep r { heap := step st.heap op, last := op.result st.heap, ok := st.ok && op.respects st.heap } o

def runSteps : List String → St → List String → Option (St × List String)
  | [], st, acc => some (st, acc.reverse)
  | s :: r, st, acc =>
    let toks := if s == "-" then [] else s.splitOn ","
    match runStep toks { st with last := none } none with
    | none => none
    | some (st', o) => runSteps r st' (o.getD "-" :: acc)

def ruleOf (s : String) : Option Rule :=
  match s.splitOn ":" with
  | ["closed-call"] => some .closedCall
  | ["unknown-route"] => some .unknownRoute
  | ["empty-method"] => some .emptyMethod
  | ["unprepared"] => some .unprepared
  | ["mtype"] => some .mtypeNotAllowed
  | ["panic", x] => do pure (.handlerPanic (← ofHex x))
  | ["bad-body", x] => do pure (.badBody (← ofHex x))
  | ["write-failed", x] => do pure (.writeFailed (← ofHex x))
  | ["dial-failed", x] => do pure (.dialFailed (← ofHex x))
  | ["cancelled", x] => do pure (.cancelled (← ofHex x))
  | _ => none

def ruleName (s : String) : String := (s.splitOn ":").headD ""

/-- the battery runs on the heap the history left; each rule on the heap the previous one left. -/
def battery : List String → Heap → List String → Option (List String)
  | [], _, acc => some acc.reverse
  | s :: r, h, acc =>
    match ruleOf s with
    | none => none
    | some rule =>
      let (h', v) := rule.exec h
      battery r h' ((ruleName s ++ "=" ++ showStat v) :: acc)

def showSentinels (h : Heap) : String :=
  ";".intercalate ((sentinelTable.zip (sentinels h)).map (fun (p, v) => p.1 ++ "=" ++ showStat v))

def hist (f : Fields) : String :=
  match f.get "ops", f.get "bat" with
  | some ops, some bat =>
    match runSteps (ops.splitOn ";") ⟨init, none, true⟩ [] with
    | none => "bad-ops"
    | some (st, obs) =>
      match battery (if bat == "-" then [] else bat.splitOn ",") st.heap [] with
      | none => "bad-bat"
      | some b =>
        "T[" ++ ";".intercalate obs ++ "] S[" ++ showSentinels st.heap ++ "] B[" ++ ";".intercalate b ++ "]"
          ++ (if st.ok then "" else " discipline-broken")
  | _, _ => "bad-case"

end D15

def handlersC15 : List (String × (Fields → String)) := [("c15hist", D15.hist)]

end Teleport.Drv
