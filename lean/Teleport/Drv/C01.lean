/-
Drv/C01 — line-protocol handlers of property C01.

  c01seq    replays a single-goroutine scenario on the model (`Teleport.Calls.step`) with the
            schedule the real code follows when one operation finishes before the next starts;
  c01run    runs the model as a MONITOR over a recorded linearisation of a concurrent run of the real
            code: every recorded event is turned into the model steps it stands for (plus the reader's
            `recv` steps that must have happened before it), each taken with `Teleport.Calls.step`;
            the line is accepted iff every step is enabled and what the model holds at that point
            (frame contents, handler input, result slot) equals what was recorded.
            Every state the monitor reaches is `Reach`able, so the C01 theorems speak about it.
  c01stress / c01alias  oracle-only runs of the real code (constant observation).
-/
import Teleport.Drv.Util
import Teleport.Model.Calls
namespace Teleport.Drv
open Teleport Teleport.Calls

namespace D01

/-- the handler function of the harness (`c01H`, `c01Hm`, `c01OK` in c01.go). -/
def hF (a m : Nat) : Nat := a + 3 * m
def hmF (a m : Nat) : Nat := 2 * a + m + 1
def okOf (a : Nat) : Bool := a % 11 != 0

/-- a recorded event: kind `I` issue / `W` wire write / `E` handler entry / `C` completion; session,
    end (0 = A, 1 = B), type `c p r`, sequence number, ok flag, two tokens. -/
structure REv where
  k : Char
  s : Nat
  d : Nat
  t : Char
  seq : Nat
  ok : Bool
  x : Nat
  y : Nat

def parseEv (s : String) : Option REv :=
  match s.toList with
  | [] => none
  | k :: rest =>
    match (String.ofList rest).splitOn "." with
    | [a, b, t, q, o, x, y] =>
      match a.toNat?, b.toNat?, t.toList, q.toNat?, x.toNat?, y.toNat? with
      | some a, some b, [t], some q, some x, some y => some ⟨k, a, b, t, q, o == "1", x, y⟩
      | _, _, _, _, _, _ => none
    | _ => none

def sideOf (d : Nat) : Side := if d = 0 then .a else .b
def Pair.endAt (p : Pair) (d : Nat) : End := if d = 0 then p.a else p.b

def stepE (s : Sys) (i d : Nat) (e : Ev) (why : String) : Except String Sys :=
  match step hF hmF s i (sideOf d) e with
  | some t => .ok t
  | none => .error why

def endE (s : Sys) (i d : Nat) : Except String End :=
  match s[i]? with
  | some p => .ok (Pair.endAt p d)
  | none => .error "no-such-session"

/-- the issue events of one end, indexed by sequence number (look-ahead table: the order in which
    concurrent callers draw their sequence numbers is not the order in which they reach the
    pre-write hook, so the monitor allocates `ctr+1 .. n` when it first needs `n`). -/
abbrev Issues := List ((Nat × Nat) × Array (Option (Bool × Nat × Nat)))

def Issues.add (m : Issues) (key : Nat × Nat) (seq : Nat) (v : Bool × Nat × Nat) : Issues :=
  match m with
  | [] => [(key, (Array.replicate (seq + 1) none).set! seq (some v))]
  | (k, arr) :: rest =>
    if k == key then
      let arr := if arr.size ≤ seq then arr ++ Array.replicate (seq + 1 - arr.size) none else arr
      (k, arr.set! seq (some v)) :: rest
    else (k, arr) :: Issues.add rest key seq v

def Issues.get (m : Issues) (key : Nat × Nat) (seq : Nat) : Option (Bool × Nat × Nat) :=
  match m.find? (·.1 == key) with
  | some (_, arr) => (arr[seq]?).join
  | none => none

def collectIssues (evs : List REv) : Issues :=
  evs.foldl (fun m e => if e.k == 'I' then m.add (e.s, e.d) e.seq (e.t == 'p', e.x, e.y) else m) []

/-- `alloc` steps until the counter of end `(i, d)` is `n`. -/
def allocUpTo (iss : Issues) (i d n : Nat) : Nat → Sys → Except String Sys
  | 0, s => .ok s
  | fuel + 1, s => do
    let x ← endE s i d
    if x.ctr ≥ n then return s
    match iss.get (i, d) (x.ctr + 1) with
    | none => .error "sequence-number-never-issued"
    | some (isPush, a, m) =>
      let s ← stepE s i d (.alloc isPush a m) "alloc"
      allocUpTo iss i d n fuel s

/-- `recv` steps of end `(i, d)` until `found` holds of it (the reader is FIFO: everything in front
    of the frame the recorded event is about has been taken before it). -/
def recvUntil (found : End → Bool) (i d : Nat) (why : String) : Nat → Sys → Except String Sys
  | 0, _ => .error why
  | fuel + 1, s => do
    let x ← endE s i d
    if found x then return s
    let s ← stepE s i d .recv why
    recvUntil found i d why fuel s

def peerLen (s : Sys) (i d : Nat) : Nat :=
  match s[i]? with
  | some p => (Pair.endAt p (1 - d)).out.length
  | none => 0

/-- one recorded event. -/
def feed (iss : Issues) (s : Sys) (e : REv) : Except String Sys := do
  let isPush := e.t == 'p'
  match e.k with
  | 'I' =>
    let x ← endE s e.s e.d
    let s ← allocUpTo iss e.s e.d e.seq (e.seq + 1 - x.ctr) s
    let x ← endE s e.s e.d
    match x.callers.find? (fun c => c.seq == e.seq && c.pc == .alloc) with
    | none => .error "issue-of-a-sequence-number-already-used"
    | some c =>
      if c.isPush != isPush || c.args != e.x || c.mtok != e.y then .error "issue-differs" else
      if isPush then pure s else stepE s e.s e.d (.store e.seq) "store"
  | 'W' =>
    let x ← endE s e.s e.d
    if e.t == 'r' then
      match x.handlers.find? (fun h => h.seq == e.seq && !h.isPush && h.out.isSome) with
      | none => .error "reply-frame-without-finished-handler"
      | some h =>
        if h.out != some (e.ok, e.x, e.y) then .error "reply-frame-is-not-the-handler-result" else
        stepE s e.s e.d (.replyWrite h.idx) "replyWrite"
    else
      match x.callers.find? (Caller.canWrite e.seq) with
      | none => .error "frame-written-without-issue"
      | some c =>
        if c.isPush != isPush || c.args != e.x || c.mtok != e.y || !e.ok then .error "wire-frame-differs-from-issue" else
        stepE s e.s e.d (.write e.seq) "write"
  | 'E' =>
    let want := fun (h : Handler) => h.seq == e.seq && h.isPush == isPush && h.out.isNone
    let s ← recvUntil (fun x => x.handlers.any want) e.s e.d "handler-input-not-in-flight" (peerLen s e.s e.d + 1) s
    let x ← endE s e.s e.d
    match x.handlers.find? want with
    | none => .error "handler-input-not-in-flight"
    | some h =>
      if h.body != e.x || h.mtok != e.y then .error "handler-input-differs-from-frame" else
      stepE s e.s e.d (.hRun h.idx e.ok) "hRun"
  | 'C' =>
    let bound := fun (x : End) => match lookup e.seq x.table with
      | some p => p.reply.isSome
      | none => false
    let s ← recvUntil bound e.s e.d "completion-without-reply-in-flight" (peerLen s e.s e.d + 1) s
    let x ← endE s e.s e.d
    match lookup e.seq x.table with
    | none => .error "completion-without-call"
    | some p =>
      if p.reply != some (e.ok, e.x, e.y) then .error "result-is-not-the-bound-reply" else
      stepE s e.s e.d (.complete e.seq) "complete"
  | _ => .error "bad-event"

def monitor (iss : Issues) : Sys → List REv → Nat → Except (Nat × String) Nat
  | _, [], n => .ok n
  | s, e :: rest, n =>
    match feed iss s e with
    | .ok t => monitor iss t rest (n + 1)
    | .error why => .error (n, why)

def nConnect : Nat → Sys → Sys
  | 0, s => s
  | n + 1, s => nConnect n (connect s)

def run (f : Fields) : String :=
  match f.get "ev" with
  | none => "accept n=0"
  | some evs =>
    match (evs.splitOn ",").mapM parseEv with
    | none => "bad-case"
    | some l =>
      let sessions := l.foldl (fun m e => max m (e.s + 1)) 0
      match monitor (collectIssues l) (nConnect sessions []) l 0 with
      | .ok n => s!"accept n={n}"
      | .error (i, why) => s!"reject at={i} why={why}"

/-! ### sequential scenarios -/

def steps (s : Sys) : List (Nat × Ev) → Option Sys
  | [] => some s
  | (d, e) :: rest => (step hF hmF s 0 (sideOf d) e).bind fun t => steps t rest

/-- one complete call from end `d` with tokens `(a, m)`; `nest`: the number of calls the server-side
    handlers have made back so far. Returns the system, the completed call and the new `nest`. -/
def seqCall (s : Sys) (d a m nest : Nat) (allowNest : Bool) : Nat → Option (Sys × Done × Nat)
  | 0 => none
  | fuel + 1 => do
    let p ← s[0]?
    let n := (Pair.endAt p d).ctr + 1
    let idx := (Pair.endAt p (1 - d)).invoked.length
    let s ← steps s [(d, .alloc false a m), (d, .store n), (d, .write n), (1 - d, .recv)]
    -- the server-side handler of a token divisible by 7 first calls back to the client
    let (s, nest) ← (if allowNest && d == 0 && a % 7 == 0 then do
        let k := 2 ^ 22 + (nest + 1)
        let (s, _, _) ← seqCall s 1 (2 * k) (2 * k + 1) (nest + 1) false fuel
        pure (s, nest + 1)
      else pure (s, nest) : Option (Sys × Nat))
    let s ← steps s [(1 - d, .hRun idx (okOf a)), (1 - d, .replyWrite idx), (d, .recv), (d, .complete n)]
    let p ← s[0]?
    let dn ← (Pair.endAt p d).done.head?
    pure (s, dn, nest)

def seqPush (s : Sys) (d a m : Nat) : Option (Sys × Handler) := do
  let p ← s[0]?
  let n := (Pair.endAt p d).ctr + 1
  let idx := (Pair.endAt p (1 - d)).invoked.length
  let s ← steps s [(d, .alloc true a m), (d, .write n), (1 - d, .recv)]
  let p ← s[0]?
  let h ← (Pair.endAt p (1 - d)).handlers.find? (·.idx == idx)
  let s ← steps s [(1 - d, .hRun idx true)]
  pure (s, h)

def seqOps (s : Sys) (nest : Nat) : List String → List String → String
  | [], acc => "ok " ++ " ".intercalate acc.reverse
  | op :: rest, acc =>
    match op.splitOn "." with
    | [k, a, m] =>
      match a.toNat?, m.toNat? with
      | some a, some m =>
        let d := if k == "s" || k == "q" then 1 else 0
        if k == "c" || k == "a" || k == "s" then
          match seqCall s d a m nest true 2 with
          | some (s, dn, nest) =>
            seqOps s nest rest (s!"c{d}:{dn.seq}:{if dn.ok then 1 else 0}:{dn.result}:{dn.replyMeta}" :: acc)
          | none => "model-stuck"
        else if k == "p" || k == "q" then
          match seqPush s d a m with
          | some (s, h) => seqOps s nest rest (s!"p{d}:{h.body}:{h.mtok}" :: acc)
          | none => "model-stuck"
        else "bad-case"
      | _, _ => "bad-case"
    | _ => "bad-case"

def seq (f : Fields) : String :=
  match f.get "ops" with
  | some ops => seqOps (connect []) 0 (ops.splitOn ",") []
  | none => "bad-case"

def stress (f : Fields) : String :=
  match f.nat "s", f.nat "g" with
  | some s, some g => s!"ok sessions={s} workers={s * (g + (g + 1) / 2)}"
  | _, _ => "bad-case"

end D01

def handlersC01 : List (String × (Fields → String)) :=
  [("c01seq", D01.seq), ("c01run", D01.run), ("c01stress", D01.stress), ("c01alias", fun _ => "ok probed")]

end Teleport.Drv
