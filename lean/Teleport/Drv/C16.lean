import Teleport.Drv.Util
import Teleport.Drv.TestFilters
import Teleport.Model.RawProto
import Teleport.Model.Auth
namespace Teleport.Drv
open Teleport Teleport.Auth

namespace C16

/-- read limit the harness sets with `socket.SetMessageSizeLimit`. -/
def sizeLimit : Nat := 65536

/-- routes the harness registers: `/c16/c16echo` (CALL), `/c16/c16note` (PUSH). -/
def callRoute : Bytes := "/c16/c16echo".toUTF8.toList
def pushRoute : Bytes := "/c16/c16note".toUTF8.toList

def frameOf (unk : Bool) (m : Msg) : Frame :=
  let kind : FKind := match m.mtype.toNat with
    | 1 => .call | 2 => .reply | 3 => .push | 4 => .authCall | 5 => .authReply | _ => .other
  let hcode : Int := match kind with
    | .call => if m.method.isEmpty then 400 else if m.method == callRoute || unk then 0 else 404
    | .push => if m.method.isEmpty then 400 else if m.method == pushRoute || unk then 0 else 404
    | _ => 0
  { kind, code := m.status.code, hcode, seq := m.seq }

/-- split the client's byte stream into the units the server's `ReadMessage` calls will see.
    A trailing incomplete frame
    never becomes a unit (the read blocks until deadline / EOF). `pcode`: an out-of-range slice
    expression in `readHeader` panics (recovered: 400) only if it also exceeds the capacity of the
    pooled buffer, otherwise stale bytes are parsed and an error (102) results. -/
def itemsOf (unk : Bool) (pcode : Int := 400) : Nat → Bytes → List Item
  | 0, _ => []
  | fuel + 1, inp =>
    if inp.isEmpty then [] else
    match (Raw.unpack testReg sizeLimit inp).out with
    | .ok m rest => .frame (frameOf unk m) :: itemsOf unk pcode fuel rest
    | .eof => []
    | .size => [.bad 102]
    | .reject why => [.bad (if why.startsWith "panic" then pcode else 102)]

def showOut (o : OutF) : String := match o with
  | .authReply c => s!"a:{c}"
  | .reply q c => s!"r:{q}:{c}"

def insertSorted (x : String) : List String → List String
  | [] => [x]
  | y :: r => if x ≤ y then x :: y :: r else y :: insertSorted x r

def sortStrs (l : List String) : List String := l.foldr insertSorted []

def accCode (s : St) : String := match s.acc with
  | .done st => if s.lis && st != 0 then "rej" else toString st
  | _ => "running"

def b2s (b : Bool) : String := if b then "1" else "0"

/-- canonical observation; `hub1` = listed when ServeConn returns, `hub` = listed at the end. -/
def showSt (s : St) (hub1 hub : Bool) (prh : Nat) : String :=
  let outs := match s.out with
    | .authReply c :: r => showOut (.authReply c) :: sortStrs (r.map showOut)
    | l => sortStrs (l.map showOut)
  s!"st={accCode s} hc={s.handlerCount} hk={s.hookCount} prh={prh} hub1={b2s hub1} hub={b2s hub} closed={b2s s.sockClosed} disc={s.discHook} exch={s.exch} out={if outs.isEmpty then "-" else ",".intercalate outs}"

/-- observation line(s) of one run. When a frame of a type that is not allowed reaches the read
    loop, the session is closed by a spawned goroutine that races with `hub.set` of the accept path
    and with the reader's next loop iteration: those alternatives are listed. -/
def lines (s : St) (early : Bool) : List String :=
  let passed := s.acc == .done 0
  let racy := s.loopRead.any (fun i => match i with
    | .frame f => f.kind == .other || f.kind == .authCall || f.kind == .authReply
    | _ => false)
  if racy then
    [showSt s passed s.inHub s.prhCount, showSt s false s.inHub s.prhCount,
     showSt s passed true s.prhCount,
     showSt s passed s.inHub (s.prhCount + 1), showSt s false s.inHub (s.prhCount + 1),
     showSt s passed true (s.prhCount + 1)]
  else if early && passed && !s.lis then
    -- the reader can reach `hub.delete` of its disconnect path before the accept path's `hub.set`
    [showSt s passed s.inHub s.prhCount, showSt s passed true s.prhCount]
  else [showSt s passed s.inHub s.prhCount]

def parseVerdict (s : String) : Option Verdict :=
  if s == "multi" then some .multi else
  if s == "panic" then some .panic else
  s.toInt?.map (fun c => if c == 0 then .accept else .reject c)

def parseFin (s : String) : Option EndKind :=
  match s with
  | "close" => some .close | "silent" => some .silent | "brk" => some .brk | _ => none

def dedup : List String → List String
  | [] => []
  | x :: r => if r.contains x then dedup r else x :: dedup r

/-- session operations of the scripted checker: `-` = none, else `.`-separated `s<id>` (SetID) / `p`
    (read the peer and the session). -/
def parseOps (s : String) : Option (List CkOp) :=
  if s == "-" || s == "" then some [] else
  (s.splitOn ".").mapM fun t =>
    if t == "p" then some CkOp.peek
    else if t.startsWith "s" then (t.drop 1).toNat?.map CkOp.setId
    else none

/-- ids of the other live sessions of the peer: `-` or comma-separated. -/
def parseNats (s : String) : Option (List Nat) :=
  if s == "-" || s == "" then some [] else (s.splitOn ",").mapM String.toNat?

def dedupNat : List Nat → List Nat
  | [] => []
  | x :: r => x :: (dedupNat r).filter (· != x)

def insertNat (x : Nat) : List Nat → List Nat
  | [] => [x]
  | y :: r => if x ≤ y then x :: y :: r else y :: insertNat x r

def showOwner : Option Nat → String
  | none => "-"
  | some 0 => "s"
  | some (o + 1) => s!"o{o}"

def joinOr (l : List String) : String := if l.isEmpty then "-" else ",".intercalate l

/-- what the hub says at the end about every id the connection ever had, what the checker's reads
    returned, how many sessions are listed, which other sessions were closed by `hub.set`. -/
def showHub (s : St) : String :=
  let ids := dedupNat s.ids
  let ends := ids.map fun id => s!"{id}:{showOwner (s.hub.get id)}"
  let peeks := s.peeks.map fun (b, n) => s!"{b2s b}:{n}"
  let kicked := (s.kicked.foldr insertNat []).map toString
  s!"ids={joinOr (s.ids.map toString)} peeks={joinOr peeks} end={joinOr ends} cnt={s.hub.length} kicked={joinOr kicked}"

def srvWith (ext : Bool) (f : Fields) : String :=
  match f.nat "lis", f.nat "nrecv", f.nat "prop", (f.get "verdict").bind parseVerdict,
        f.hex "bytes", f.nat "early", (f.get "fin").bind parseFin, f.nat "unk", f.hex "tail",
        parseOps ((f.get "pre").getD "-"), parseOps ((f.get "post").getD "-"),
        parseNats ((f.get "others").getD "-") with
  | some lis, some nrecv, some prop, some v, some bytes0, some early, some fin, some unk, some tail,
    some pre, some post, some others =>
    let bytes := bytes0 ++ tail
    let mk (pcode : Int) : List String :=
      let items := itemsOf (unk != 0) pcode (bytes.length + 1) bytes
      let c : Case := { lis := lis != 0, others, script := ⟨nrecv, prop != 0, v, pre, post⟩, items,
                        early := early != 0, fin }
      let s := runCase c
      if ext then (lines s (early != 0)).map fun l => l ++ " " ++ showHub s
      else lines s (early != 0)
    " || ".intercalate (dedup (mk 400 ++ mk 102))
  | _, _, _, _, _, _, _, _, _, _, _, _ => "bad-case"

def srv (f : Fields) : String := srvWith false f

/-- the checker performs session operations (`pre` / `post`), other sessions are live on the peer
    (`others`); the observation also lists the hub under every id the connection ever had. -/
def ck (f : Fields) : String := srvWith true f

/-- bearer side against a scripted raw server: `mode` = reply | close | silent | brk. -/
def dialLine (f : Fields) : String :=
  match f.nat "nsend", f.get "mode", f.hex "reply" with
  | some nsend, some mode, some reply =>
    let mk (pcode : Int) : String :=
      let wcode : Int := if mode == "brk" then 104 else 0
      let r : BRecv :=
        if mode == "silent" then .fail 102 else
        match itemsOf false pcode (reply.length + 1) reply with
        | .frame fr :: _ => .frame fr
        | .bad c :: _ => .fail c
        | [] => .fail 102
      let h1 := if nsend == 0 then 0 else (sendOnce false wcode r).2
      let hook : Int := if h1 != 0 then h1 else if nsend ≥ 2 then (sendOnce true wcode r).2 else 0
      let d := dial hook
      s!"hook={hook} est={b2s d.established} code={d.code} hub={b2s d.inHub} closed={b2s d.connClosed}"
    " || ".intercalate (dedup [mk 400, mk 102])
  | _, _, _ => "bad-case"

/-- both real plugins end to end: the bearer writes one AUTH_CALL (seq 1); if accepted the client
    makes one call (seq 2) and closes. -/
def e2e (f : Fields) : String :=
  match (f.get "verdict").bind parseVerdict with
  | some v =>
    let code := verdictCode v
    let items : List Item := [.frame { kind := .authCall, seq := 1 }] ++
      (if code == 0 then [.frame { kind := .call, seq := 2 }] else [])
    let s := runCase { script := { nrecv := 1, propagate := true, verdict := v }, items, fin := .close }
    let hook := (sendOnce false 0 (.frame { kind := .authReply, code })).2
    let d := dial hook
    let outs := match s.out with
      | .authReply c :: r => showOut (.authReply c) :: sortStrs (r.map showOut)
      | l => sortStrs (l.map showOut)
    s!"hook={hook} est={b2s d.established} code={d.code} call={if d.established then "0" else "-1"} res={if d.established then "70696e67" else "-"} | st={accCode s} hc={s.handlerCount} hk={s.hookCount} prh={s.prhCount} hub={b2s s.inHub} closed={b2s s.sockClosed} disc={s.discHook} exch={s.exch} out={if outs.isEmpty then "-" else ",".intercalate outs}"
  | none => "bad-case"

end C16

/-- case kinds served by this module. -/
def handlersC16 : List (String × (Fields → String)) :=
  [("c16srv", C16.srv), ("c16ck", C16.ck), ("c16dial", C16.dialLine), ("c16e2e", C16.e2e)]

end Teleport.Drv
