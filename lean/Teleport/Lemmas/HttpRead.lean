/-
Lemmas/HttpRead — invariants of the model of `httproto.Unpack` (Model/HttpProto) for ALL inputs:
what it buffers, what it asks the reader for, what it consumes.
-/
import Teleport.Model.HttpProto
namespace Teleport
namespace HttpP
open Bytes

/-- the four facts proved of every `Read` value the reader functions return, relative to the input
    `inp` they were started on: buffer bound, request bound, the unread rest is a suffix, and an
    `eof` outcome either exhausted the input or comes from the transfer pipe. -/
structure ReadOK (env : Env) (limit : Nat) (inp : Bytes) (r : Read) : Prop where
  hi_le : r.hi ≤ max limit 5
  ask_le : r.ask ≤ max limit 5
  suffix : ∃ pre, inp = pre ++ r.left
  eof_all : r.out = .eof → r.left = [] ∨ ∃ p b, env.xeof p b = true

theorem stripCR_len (a : Bytes) : (stripCR a).length ≤ a.length := by
  unfold stripCR
  split <;> simp

theorem take?_some {n : Nat} {l a b : Bytes} (h : Raw.take? n l = some (a, b)) : l = a ++ b ∧ a.length = n := by
  unfold Raw.take? at h
  split at h
  · cases h
    refine ⟨(List.take_append_drop n l).symm, ?_⟩
    simp only [List.length_take]; omega
  · cases h

theorem finish_ok (env : Env) (limit : Nat) (inp : Bytes) (d : Except String Msg) (rest : Bytes) (ask hi : Nat)
    (h1 : hi ≤ max limit 5) (h2 : ask ≤ max limit 5) (h3 : ∃ pre, inp = pre ++ rest) :
    ReadOK env limit inp (finish d rest ask hi) := by
  unfold finish
  cases d with
  | ok m => exact ⟨h1, h2, h3, by intro h; cases h⟩
  | error e => exact ⟨h1, h2, h3, by intro h; cases h⟩

theorem finishBody_ok (env : Env) (limit : Nat) (kind : Kind) (st : HSt) (used hi : Nat) (r : Bytes)
    (h1 : hi ≤ max limit 5) (h2 : used ≤ max limit 5) :
    ReadOK env limit r (finishBody env limit kind st used hi r) := by
  unfold finishBody
  by_cases hb : st.bodySize ≤ 0
  · simp only [hb, if_true]
    exact finish_ok env limit r _ r 5 hi h1 (by omega) ⟨[], rfl⟩
  · simp only [hb, if_false]
    by_cases hs : st.bodySize + (used : Int) > (limit : Int)
    · simp only [hs, if_true]
      exact ⟨h1, by show 5 ≤ _; omega, ⟨[], rfl⟩, by intro h; cases h⟩
    · simp only [hs, if_false]
      have hn : used + st.bodySize.toNat ≤ limit := by omega
      split
      · exact ⟨by show max hi _ ≤ _; omega, by show max 5 _ ≤ _; omega, ⟨r, by simp⟩, fun _ => Or.inl rfl⟩
      · rename_i raw rest ht
        obtain ⟨hr, _⟩ := take?_some ht
        split
        · refine ⟨by show max hi _ ≤ _; omega, by show max 5 _ ≤ _; omega, ⟨raw, hr⟩, ?_⟩
          intro he
          by_cases hxe : env.xeof st.pipe raw = true
          · exact Or.inr ⟨_, _, hxe⟩
          · simp only [hxe] at he; cases he
        · exact finish_ok env limit r _ rest _ _ (by omega) (by omega) ⟨raw, hr⟩

theorem ReadOK.cons {env : Env} {limit : Nat} {inp : Bytes} {r : Read} (c : UInt8) (h : ReadOK env limit inp r) :
    ReadOK env limit (c :: inp) r := by
  obtain ⟨pre, hp⟩ := h.suffix
  exact ⟨h.hi_le, h.ask_le, ⟨c :: pre, by rw [hp]; rfl⟩, h.eof_all⟩

theorem hloop_ok (env : Env) (limit : Nat) (kind : Kind) :
    ∀ (inp acc : Bytes) (st : HSt) (used hi : Nat),
      hi ≤ max limit 5 → used + acc.length ≤ max limit 5 →
      ReadOK env limit inp (hloop env limit kind inp acc st used hi) := by
  intro inp
  induction inp with
  | nil =>
    intro acc st used hi h1 h2
    unfold hloop
    exact ⟨by show max hi _ ≤ _; omega, by show 5 ≤ _; omega, ⟨[], rfl⟩, fun _ => Or.inl rfl⟩
  | cons c r ih =>
    intro acc st used hi h1 h2
    unfold hloop
    have hsl := stripCR_len acc
    by_cases hc : c = 10
    · subst hc
      simp only [beq_self_eq_true, if_true]
      have hh : max hi (used + acc.length) ≤ max limit 5 := by omega
      split
      · exact (finishBody_ok env limit kind st used _ r hh (by omega)).cons 10
      · split
        · exact ⟨hh, by show 5 ≤ _; omega, ⟨[10], rfl⟩, by intro h; cases h⟩
        · split
          · exact ⟨hh, by show 5 ≤ _; omega, ⟨[10], rfl⟩, by intro h; cases h⟩
          · refine (ih [] _ _ _ hh ?_).cons 10
            simp only [List.length_reverse, List.length_nil]; omega
    · have hc' : (c == 10) = false := by simp [hc]
      simp only [hc', Bool.false_eq_true, if_false]
      by_cases ho : used + acc.length ≥ limit
      · simp only [ho, if_true]
        exact ⟨by show max hi _ ≤ _; omega, by show 5 ≤ _; omega, ⟨[c], rfl⟩, by intro h; cases h⟩
      · simp only [ho, if_false]
        refine (ih (c :: acc) st used hi h1 ?_).cons c
        simp only [List.length_cons]; omega

/-- what `readLine` returns, relative to its input. -/
theorem readLine_spec (limit used : Nat) :
    ∀ (inp acc : Bytes), used + acc.length ≤ max limit used →
      match readLine limit used inp acc with
      | .line ln n rest => used + n ≤ max limit used ∧ ln.length ≤ n ∧ ∃ pre, inp = pre ++ rest
      | .eof n => used + n ≤ max limit used
      | .over n rest => used + n ≤ max limit used ∧ ∃ pre, inp = pre ++ rest := by
  intro inp
  induction inp with
  | nil => intro acc h; unfold readLine; exact h
  | cons c r ih =>
    intro acc h
    unfold readLine
    by_cases hc : c = 10
    · subst hc
      simp only [beq_self_eq_true, if_true]
      refine ⟨h, ?_, ⟨[10], rfl⟩⟩
      have := stripCR_len acc
      simp only [List.length_reverse]; omega
    · have hc' : (c == 10) = false := by simp [hc]
      simp only [hc', Bool.false_eq_true, if_false]
      by_cases ho : used + acc.length ≥ limit
      · simp only [ho, if_true]; exact ⟨h, ⟨[c], rfl⟩⟩
      · simp only [ho, if_false]
        have := ih (c :: acc) (by simp only [List.length_cons]; omega)
        revert this
        cases readLine limit used r (c :: acc) with
        | line ln n rest => rintro ⟨a, b, pre, hp⟩; exact ⟨a, b, c :: pre, by rw [hp]; rfl⟩
        | eof n => exact id
        | over n rest => rintro ⟨a, pre, hp⟩; exact ⟨a, c :: pre, by rw [hp]; rfl⟩

theorem afterFirst_ok (env : Env) (limit : Nat) (first : Bytes) (n : Nat) (r : Bytes)
    (h1 : 5 + n ≤ max limit 5) (h2 : first.length ≤ 5 + n) :
    ReadOK env limit r (afterFirst env limit first n r) := by
  have hhi : max 5 (5 + n) ≤ max limit 5 := by omega
  have rej : ∀ w, ReadOK env limit r ⟨.reject w, r, 5, max 5 (5 + n)⟩ :=
    fun w => ⟨hhi, by show 5 ≤ _; omega, ⟨[], rfl⟩, by intro h; cases h⟩
  have lp : ∀ k st, ReadOK env limit r (hloop env limit k r [] st first.length (max 5 (5 + n))) :=
    fun k st => hloop_ok env limit k r [] st first.length _ hhi (by simp only [List.length_nil]; omega)
  unfold afterFirst
  split
  · split
    · exact rej _
    · split
      · exact lp _ _
      · split
        · exact lp _ _
        · exact rej _
  · split
    · exact rej _
    · split
      · exact rej _
      · split
        · exact rej _
        · exact rej _
        · exact lp _ _

theorem unpack_ok (env : Env) (limit : Nat) (inp : Bytes) : ReadOK env limit inp (unpack env limit inp) := by
  unfold unpack
  split
  · rename_i a b c d e r
    have hs := readLine_spec limit 5 r [] (by simp only [List.length_nil]; omega)
    revert hs
    cases readLine limit 5 r [] with
    | eof n =>
      intro hs
      exact ⟨by show max 5 _ ≤ _; omega, by show 5 ≤ _; omega, ⟨a :: b :: c :: d :: e :: r, by simp⟩, fun _ => Or.inl rfl⟩
    | over n rest =>
      rintro ⟨hs, pre, hp⟩
      exact ⟨by show max 5 _ ≤ _; omega, by show 5 ≤ _; omega,
        ⟨a :: b :: c :: d :: e :: pre, by rw [hp]; rfl⟩, by intro h; cases h⟩
    | line ln n rest =>
      rintro ⟨hs, hl, pre, hp⟩
      have := afterFirst_ok env limit ([a, b, c, d, e] ++ ln) n rest (by omega)
        (by simp only [List.length_append, List.length_cons, List.length_nil]; omega)
      obtain ⟨q, hq⟩ := this.suffix
      have e1 : a :: b :: c :: d :: e :: r = (a :: b :: c :: d :: e :: pre) ++ rest := by rw [hp]; rfl
      exact ⟨this.hi_le, this.ask_le,
        ⟨(a :: b :: c :: d :: e :: pre) ++ q, by rw [e1, List.append_assoc]; exact congrArg _ hq⟩, this.eof_all⟩
  · exact ⟨by show 5 ≤ _; omega, by show 5 ≤ _; omega, ⟨inp, by simp⟩, fun _ => Or.inl rfl⟩

/-- a line that has no line feed: `readLine` either runs out of input or refuses it, and has
    consumed at most `limit - used + 1` bytes then. -/
theorem readLine_nolf (limit used : Nat) :
    ∀ (inp acc : Bytes), (∀ c ∈ inp, c ≠ 10) →
      match readLine limit used inp acc with
      | .line _ _ _ => False
      | .eof _ => inp.length + (used + acc.length) ≤ max limit (used + acc.length)
      | .over _ rest => inp.length - rest.length + (used + acc.length) ≤ max limit (used + acc.length) + 1 := by
  intro inp
  induction inp with
  | nil => intro acc _; unfold readLine; simp only [List.length_nil]; omega
  | cons c r ih =>
    intro acc h
    unfold readLine
    have hc : c ≠ 10 := h c (by simp)
    have hc' : (c == 10) = false := by simp [hc]
    simp only [hc', Bool.false_eq_true, if_false]
    by_cases ho : used + acc.length ≥ limit
    · simp only [ho, if_true]
      simp only [List.length_cons]; omega
    · simp only [ho, if_false]
      have := ih (c :: acc) (fun x hx => h x (by simp [hx]))
      revert this
      cases hr : readLine limit used r (c :: acc) with
      | line ln n rest => exact id
      | eof n => intro this; simp only [List.length_cons] at this ⊢; omega
      | over n rest =>
        intro this
        simp only [List.length_cons] at this ⊢
        have := readLine_spec limit used r (c :: acc) (by simp only [List.length_cons]; omega)
        rw [hr] at this
        obtain ⟨_, pre, hp⟩ := this
        have : rest.length ≤ r.length := by rw [hp]; simp
        omega

/-- an input without any line feed: the outcome is `eof` or `size`, and at most
    `max limit 5 + 1` bytes are consumed. -/
theorem unpack_nolf (env : Env) (limit : Nat) (inp : Bytes) (h : ∀ c ∈ inp, c ≠ 10) :
    ((unpack env limit inp).out = .eof ∨ (unpack env limit inp).out = .size) ∧
    (unpack env limit inp).consumed inp ≤ max limit 5 + 1 := by
  unfold unpack
  split
  · rename_i a b c d e r
    have hs := readLine_nolf limit 5 r [] (fun x hx => h x (by simp [hx]))
    revert hs
    cases readLine limit 5 r [] with
    | line ln n rest => intro hs; exact hs.elim
    | eof n =>
      intro hs
      refine ⟨Or.inl rfl, ?_⟩
      simp only [Read.consumed, List.length_cons, List.length_nil] at hs ⊢; omega
    | over n rest =>
      intro hs
      refine ⟨Or.inr rfl, ?_⟩
      simp only [Read.consumed, List.length_cons, List.length_nil] at hs ⊢; omega
  · rename_i hshort
    refine ⟨Or.inl rfl, ?_⟩
    simp only [Read.consumed, List.length_nil]
    have : inp.length < 5 := by
      match inp, hshort with
      | [], _ => simp
      | [_], _ => simp
      | [_, _], _ => simp
      | [_, _, _], _ => simp
      | [_, _, _, _], _ => simp
      | a :: b :: c :: d :: e :: r, hh => exact (hh a b c d e r rfl).elim
    omega

theorem readLineOld_replicate (n : Nat) (c : UInt8) (hc : c ≠ 10) :
    ∀ acc, readLineOld (List.replicate n c) acc = .eof (acc.length + n) := by
  induction n with
  | zero => intro acc; simp [readLineOld]
  | succ k ih =>
    intro acc
    have hc' : (c == 10) = false := by simp [hc]
    simp only [List.replicate_succ, readLineOld, hc', Bool.false_eq_true, if_false]
    rw [ih]; simp only [List.length_cons]; congr 1; omega

end HttpP
end Teleport
