import Teleport.Model.Frame2
import Teleport.Lemmas.Raw
/-
Lemmas/Frame2 — the outer frame of jsonproto / pbproto round-trips whenever the payload decoder
inverts the payload encoder on the message at hand.
-/
namespace Teleport
namespace Frame2
open Bytes

/-- the decoder restores message `m` from what the encoder wrote, for every size and pipe. -/
def Inverts (P : Payload) (m : Msg) : Prop :=
  ∀ t, P.ser m = some t → ∀ size pipe, P.de size pipe t = .ok { m with pipe := pipe, size := size }

theorem finish_inverts (P : Payload) (m : Msg) (hi : Inverts P m) (t : Bytes) (ht : P.ser m = some t)
    (size : Nat) (pipe : List UInt8) (rest : Bytes) :
    finish P size pipe t rest = .ok { m with pipe := pipe, size := size } rest := by
  unfold finish
  rw [hi t ht]

/-- the recorded size is the frame length without the four length bytes. -/
theorem pack_size (P : Payload) (reg : Registry) (limit : Nat) (m : Msg) (bs : Bytes) (sz : Nat)
    (hp : pack P reg limit m = .ok (bs, sz)) (hlt : bs.length < 4294967296) : sz + 4 = bs.length := by
  unfold pack at hp
  cases ht : P.ser m with
  | none => simp [ht] at hp
  | some t =>
    simp only [ht] at hp
    cases hx : Xfer.onPack reg m.pipe t with
    | none => simp [hx] at hp
    | some p =>
      simp only [hx] at hp
      split at hp
      · simp at hp
      · simp only [Except.ok.injEq, Prod.mk.injEq] at hp
        obtain ⟨h1, h2⟩ := hp
        have : bs.length = 4 + (1 + m.pipe.length + p.length) := by
          rw [← h1]; simp [be32]; omega
        omega

/-- one frame: `Unpack` of what `Pack` wrote, followed by anything, gives the message back (size =
    frame length without the four length bytes) and leaves exactly the rest. -/
theorem unpack_pack (P : Payload) (reg : Registry) (limit : Nat) (m : Msg) (bs rest : Bytes) (sz : Nat)
    (hi : Inverts P m) (hpl : m.pipe.length ≤ 255)
    (hl : ∀ i ∈ m.pipe, ∃ f, reg i = some f ∧ Xfer.Lawful f)
    (hp : pack P reg limit m = .ok (bs, sz)) (hlt : bs.length < 4294967296) :
    unpack P reg limit (bs ++ rest) = .ok { m with size := sz } rest ∧ sz + 4 = bs.length := by
  refine ⟨?_, pack_size P reg limit m bs sz hp hlt⟩
  unfold pack at hp
  cases ht : P.ser m with
  | none => simp [ht] at hp
  | some t =>
    simp only [ht] at hp
    cases hx : Xfer.onPack reg m.pipe t with
    | none => simp [hx] at hp
    | some p =>
      simp only [hx] at hp
      split at hp
      · simp at hp
      · rename_i hlim
        simp only [Except.ok.injEq, Prod.mk.injEq] at hp
        obtain ⟨hbs, hsz⟩ := hp
        have hlen : bs.length = 4 + (1 + m.pipe.length + p.length) := by
          rw [← hbs]; simp [be32]; omega
        have htot : (1 + m.pipe.length + p.length) % 4294967296 = 1 + m.pipe.length + p.length :=
          Nat.mod_eq_of_lt (by omega)
        rw [htot] at hbs hsz hlim
        rw [← hbs]
        have hu : unpack P reg limit (be32 (1 + m.pipe.length + p.length) ++ (m.pipe.length % 256).toUInt8 :: m.pipe ++ p ++ rest)
            = unpackSized P reg limit (1 + m.pipe.length + p.length) (((m.pipe.length % 256).toUInt8 :: (m.pipe ++ p)) ++ rest) := by
          simp only [be32, List.cons_append, List.nil_append, List.append_assoc, unpack]
          rw [Raw.rdBe32_be32 _ (by omega)]
        rw [hu]
        unfold unpackSized
        have c1 : ¬ (1 + m.pipe.length + p.length > limit) := hlim
        have c2 : (1 + m.pipe.length + p.length == 0) = false := by simp
        simp only [c1, c2, if_false, Bool.false_eq_true]
        rw [Raw.take?_append _ rest _ (by simp; omega)]
        have e1 : (m.pipe.length % 256).toUInt8.toNat = m.pipe.length := Raw.toUInt8_toNat _ (by omega)
        simp only [unpackFrame]
        by_cases h0 : m.pipe = []
        · have hpt : p = t := by
            rw [h0] at hx; simpa [Xfer.onPack] using hx.symm
          subst hpt
          simp only [h0, List.length_nil, Nat.zero_mod, List.nil_append]
          have : ((0 : Nat).toUInt8 == 0) = true := by decide
          simp only [this, if_true]
          rw [finish_inverts P m hi p ht, ← hsz]
          simp [h0]
        · have hne : ((m.pipe.length % 256).toUInt8 == 0) = false := by
            have : m.pipe.length ≠ 0 := by
              intro h; exact h0 (List.length_eq_zero_iff.mp h)
            apply Bool.eq_false_iff.mpr
            intro hh
            have h2 := congrArg UInt8.toNat (beq_iff_eq.mp hh)
            rw [e1] at h2
            exact this (by simpa using h2)
          simp only [hne, Bool.false_eq_true, if_false, e1]
          have c3 : ¬ ((m.pipe ++ p).length < m.pipe.length) := by simp
          simp only [c3, if_false]
          have t1 : (m.pipe ++ p).take m.pipe.length = m.pipe := by simp
          have t2 : (m.pipe ++ p).drop m.pipe.length = p := by simp
          rw [t1, t2, Raw.append_ok reg m.pipe hpl hl]
          simp only [Raw.onUnpack_onPack reg m.pipe hl _ _ hx]
          rw [finish_inverts P m hi t ht, ← hsz]

/-- any number of back-to-back frames. -/
theorem unpackN_packAll (P : Payload) (reg : Registry) (limit : Nat) (ms : List Msg) (tail : Bytes)
    (hw : ∀ m ∈ ms, Inverts P m ∧ m.pipe.length ≤ 255 ∧ ∀ i ∈ m.pipe, ∃ f, reg i = some f ∧ Xfer.Lawful f)
    (hfit : ∀ m ∈ ms, ∀ bs sz, pack P reg limit m = .ok (bs, sz) → bs.length < 4294967296)
    (stream : Bytes) (out : List Msg)
    (hp : packAll P reg limit ms = some (stream, out)) :
    unpackN P reg limit ms.length (stream ++ tail) = some (out, tail) := by
  induction ms generalizing stream out with
  | nil => simp [packAll] at hp; simp [unpackN, hp]
  | cons m ms ih =>
    simp only [packAll] at hp
    cases h1 : pack P reg limit m with
    | error e => simp [h1] at hp
    | ok r =>
      obtain ⟨bs, sz⟩ := r
      cases h2 : packAll P reg limit ms with
      | none => simp [h1, h2] at hp
      | some r2 =>
        obtain ⟨r, o⟩ := r2
        simp only [h1, h2, Option.some.injEq, Prod.mk.injEq] at hp
        obtain ⟨hs, ho⟩ := hp
        have hlt := hfit m (by simp) bs sz h1
        obtain ⟨hi, hpl, hl⟩ := hw m (by simp)
        have h3 := unpack_pack P reg limit m bs (r ++ tail) sz hi hpl hl h1 hlt
        have h4 := ih (fun x hx => hw x (by simp [hx])) (fun x hx => hfit x (by simp [hx])) r o h2
        rw [← hs, ← ho, List.append_assoc]
        simp only [List.length_cons, unpackN, h3.1, h4, Option.map_some]

end Frame2
end Teleport
