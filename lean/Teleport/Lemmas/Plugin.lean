/-
Lemmas/Plugin — facts about the stage functions (`runStage`, `runSteps`, `runAll`) and the
container operations (`refresh`, `refreshTree`, `clone`, `apply`, `run`) of Model/Plugin.
-/
import Teleport.Model.Plugin
namespace Teleport
namespace Plug

/-! ### one stage function -/

theorem runStage_stage (V : Verd) (s : Stage) (C : List Plugin) :
    ∀ f ∈ (runStage V s C).1, f.2 = s := by
  induction C with
  | nil => simp [runStage]
  | cons p ps ih =>
    unfold runStage
    split
    · split
      · intro f hf
        simp only [List.mem_cons] at hf
        rcases hf with h | h
        · rw [h]
        · exact ih f h
      · intro f hf; simp at hf; rw [hf]
    · exact ih

theorem runStage_name_mem (V : Verd) (s : Stage) (C : List Plugin) :
    ∀ f ∈ (runStage V s C).1, f.1 ∈ names C := by
  induction C with
  | nil => simp [runStage]
  | cons p ps ih =>
    unfold runStage
    split
    · split
      · intro f hf
        simp only [List.mem_cons] at hf
        rcases hf with h | h
        · rw [h]; simp [names]
        · have := ih f h; simp [names] at this ⊢; exact Or.inr this
      · intro f hf; simp at hf; rw [hf]; simp [names]
    · intro f hf; have := ih f hf; simp [names] at this ⊢; exact Or.inr this

/-- a fired plugin implements the stage (the interface assertion of the stage function). -/
theorem runStage_impl (V : Verd) (s : Stage) (C : List Plugin) :
    ∀ f ∈ (runStage V s C).1, ∃ p ∈ C, p.name = f.1 ∧ p.impl s = true := by
  induction C with
  | nil => simp [runStage]
  | cons p ps ih =>
    unfold runStage
    split
    · rename_i hi
      split
      · intro f hf
        simp only [List.mem_cons] at hf
        rcases hf with h | h
        · exact ⟨p, by simp, by rw [h], hi⟩
        · obtain ⟨q, hq, h1, h2⟩ := ih f h; exact ⟨q, by simp [hq], h1, h2⟩
      · intro f hf; simp at hf; exact ⟨p, by simp, by rw [hf], hi⟩
    · intro f hf; obtain ⟨q, hq, h1, h2⟩ := ih f hf; exact ⟨q, by simp [hq], h1, h2⟩

/-- the names fired by one stage are, in order, a sub-list of the container's names. -/
theorem runStage_sublist (V : Verd) (s : Stage) (C : List Plugin) :
    ((runStage V s C).1.map (·.1)).Sublist (names C) := by
  induction C with
  | nil => simp [runStage, names]
  | cons p ps ih =>
    unfold runStage
    split
    · split
      · simpa [names] using ih
      · simp [names]
    · simpa [names] using List.Sublist.cons p.name ih

/-- if a fired hook's verdict is non-OK, the stage function returns exactly that verdict
    (it is the last one fired). -/
theorem runStage_mem_veto (V : Verd) (s : Stage) (C : List Plugin) (n : Nat) (s' : Stage) :
    (n, s') ∈ (runStage V s C).1 → V n s' ≠ 0 → (runStage V s C).2 = V n s' := by
  induction C with
  | nil => simp [runStage]
  | cons p ps ih =>
    unfold runStage
    split
    · split
      · rename_i h0
        intro hf hv
        simp only [List.mem_cons] at hf
        rcases hf with h | h
        · injection h with h1 h2; subst h1; subst h2; exact absurd h0 hv
        · exact ih h hv
      · intro hf _; simp at hf; rw [hf.1, hf.2]
    · exact ih

/-- a non-OK result is the verdict of a hook that fired. -/
theorem runStage_veto_mem (V : Verd) (s : Stage) (C : List Plugin) :
    (runStage V s C).2 ≠ 0 → ∃ n, (n, s) ∈ (runStage V s C).1 ∧ V n s = (runStage V s C).2 := by
  induction C with
  | nil => simp [runStage]
  | cons p ps ih =>
    unfold runStage
    split
    · split
      · intro h; obtain ⟨n, h1, h2⟩ := ih h; exact ⟨n, by simp [h1], h2⟩
      · intro _; exact ⟨p.name, by simp, rfl⟩
    · exact ih

/-- when nobody vetoes, every plugin of the list that implements the stage fires, in list order. -/
theorem runStage_ok_all (V : Verd) (s : Stage) (C : List Plugin) (h : ∀ p ∈ C, V p.name s = 0) :
    runStage V s C = ((C.filter (·.impl s)).map (fun p => (p.name, s)), 0) := by
  induction C with
  | nil => simp [runStage]
  | cons p ps ih =>
    have ih' := ih (fun q hq => h q (by simp [hq]))
    unfold runStage
    by_cases hi : p.impl s = true
    · have h0 : V p.name s = 0 := h p (by simp)
      simp [hi, h0, ih']
    · simp [hi, ih']

/-! ### no duplicates -/

theorem dupFree_iff (l : List Nat) : dupFree l = true ↔ l.Nodup := by
  induction l with
  | nil => simp [dupFree]
  | cons a l ih => simp [dupFree, ih, List.nodup_cons]

theorem runStage_nodup (V : Verd) (s : Stage) (C : List Plugin) (h : (names C).Nodup) :
    (runStage V s C).1.Nodup := by
  have h1 : ((runStage V s C).1.map (·.1)).Nodup := (runStage_sublist V s C).nodup h
  have h2 := List.pairwise_map.1 h1
  exact List.Pairwise.imp (fun hab e => hab (by rw [e])) h2

/-! ### position order inside one stage -/

/-- position of name `n` in a name list (length if absent). -/
def pos (n : Nat) : List Nat → Nat
  | [] => 0
  | m :: ms => if m = n then 0 else pos n ms + 1

theorem runStage_pos_sorted (V : Verd) (s : Stage) (C : List Plugin) (h : (names C).Nodup) :
    (runStage V s C).1.Pairwise (fun a b => pos a.1 (names C) < pos b.1 (names C)) := by
  induction C with
  | nil => simp [runStage]
  | cons p ps ih =>
    have hn : p.name ∉ names ps ∧ (names ps).Nodup := by simpa [names, List.nodup_cons] using h
    have ih' := ih hn.2
    have lift : (runStage V s ps).1.Pairwise
        (fun a b => pos a.1 (names (p :: ps)) < pos b.1 (names (p :: ps))) := by
      refine List.Pairwise.imp_of_mem ?_ ih'
      intro a b ha hb hab
      have ha' := runStage_name_mem V s ps a ha
      have hb' := runStage_name_mem V s ps b hb
      have e1 : p.name ≠ a.1 := fun e => hn.1 (e ▸ ha')
      have e2 : p.name ≠ b.1 := fun e => hn.1 (e ▸ hb')
      simp [names, pos, e1, e2] at hab ⊢; exact hab
    unfold runStage
    split
    · split
      · refine List.pairwise_cons.2 ⟨?_, lift⟩
        intro b hb
        have hb' := runStage_name_mem V s ps b hb
        have e2 : p.name ≠ b.1 := fun e => hn.1 (e ▸ hb')
        simp [names, pos, e2]
      · simp
    · exact lift

/-! ### consecutive stages -/

theorem mem_runSteps (V : Verd) (steps : List (Stage × List Plugin)) :
    ∀ f ∈ (runSteps V steps).1, ∃ C, (f.2, C) ∈ steps ∧ f ∈ (runStage V f.2 C).1 := by
  induction steps with
  | nil => simp [runSteps]
  | cons sc rest ih =>
    obtain ⟨s, C⟩ := sc
    unfold runSteps
    split
    · intro f hf
      have := runStage_stage V s C f hf
      exact ⟨C, by simp [this], by rw [this]; exact hf⟩
    · intro f hf
      simp only [List.mem_append] at hf
      rcases hf with h | h
      · have := runStage_stage V s C f h
        exact ⟨C, by simp [this], by rw [this]; exact h⟩
      · obtain ⟨C', h1, h2⟩ := ih f h
        exact ⟨C', by simp [h1], h2⟩

theorem mem_runAll (V : Verd) (steps : List (Stage × List Plugin)) :
    ∀ f ∈ runAll V steps, ∃ C, (f.2, C) ∈ steps ∧ f ∈ (runStage V f.2 C).1 := by
  induction steps with
  | nil => simp [runAll]
  | cons sc rest ih =>
    obtain ⟨s, C⟩ := sc
    unfold runAll
    intro f hf
    simp only [List.mem_append] at hf
    rcases hf with h | h
    · have := runStage_stage V s C f h
      exact ⟨C, by simp [this], by rw [this]; exact h⟩
    · obtain ⟨C', h1, h2⟩ := ih f h
      exact ⟨C', by simp [h1], h2⟩

/-- veto inside a chain of stage calls: a fired hook with a non-OK verdict decides the result. -/
theorem runSteps_mem_veto (V : Verd) (steps : List (Stage × List Plugin)) (n : Nat) (s : Stage) :
    (n, s) ∈ (runSteps V steps).1 → V n s ≠ 0 → (runSteps V steps).2 = V n s := by
  induction steps with
  | nil => simp [runSteps]
  | cons sc rest ih =>
    obtain ⟨s', C⟩ := sc
    unfold runSteps
    split
    · intro hf hv; exact runStage_mem_veto V s' C n s hf hv
    · rename_i h0
      intro hf hv
      simp only [List.mem_append] at hf
      rcases hf with h | h
      · have := runStage_mem_veto V s' C n s h hv
        simp only [ne_eq, Decidable.not_not] at h0
        rw [h0] at this; exact absurd this.symm hv
      · exact ih h hv

theorem runSteps_veto_mem (V : Verd) (steps : List (Stage × List Plugin)) :
    (runSteps V steps).2 ≠ 0 → ∃ n s, (n, s) ∈ (runSteps V steps).1 ∧ V n s = (runSteps V steps).2 := by
  induction steps with
  | nil => simp [runSteps]
  | cons sc rest ih =>
    obtain ⟨s', C⟩ := sc
    unfold runSteps
    split
    · intro h; obtain ⟨n, h1, h2⟩ := runStage_veto_mem V s' C h; exact ⟨n, s', h1, h2⟩
    · intro h; obtain ⟨n, s, h1, h2⟩ := ih h; exact ⟨n, s, by simp [h1], h2⟩

/-! ### the (stage rank, position) order -/

/-- `a` fires before `b`: earlier stage, or the same stage and an earlier position in the list
    `cf stage` that the stage iterates. -/
def Before (cf : Stage → List Plugin) (a b : Firing) : Prop :=
  a.2.rank < b.2.rank ∨ (a.2 = b.2 ∧ pos a.1 (names (cf a.2)) < pos b.1 (names (cf a.2)))

/-- the step list is well-formed for `cf`: stages in strictly increasing documented order, each
    on the list `cf` names, every list free of duplicate names. -/
def StepsOK (cf : Stage → List Plugin) (steps : List (Stage × List Plugin)) : Prop :=
  steps.Pairwise (fun a b => a.1.rank < b.1.rank) ∧ ∀ sc ∈ steps, sc.2 = cf sc.1 ∧ (names sc.2).Nodup

theorem runStage_before (V : Verd) (cf : Stage → List Plugin) (s : Stage) (C : List Plugin)
    (hc : C = cf s) (hn : (names C).Nodup) : (runStage V s C).1.Pairwise (Before cf) := by
  refine List.Pairwise.imp_of_mem ?_ (runStage_pos_sorted V s C hn)
  intro a b ha hb hab
  have e1 := runStage_stage V s C a ha
  have e2 := runStage_stage V s C b hb
  right
  refine ⟨by rw [e1, e2], ?_⟩
  rw [e1, ← hc]; exact hab

theorem runSteps_before (V : Verd) (cf : Stage → List Plugin) (steps : List (Stage × List Plugin))
    (h : StepsOK cf steps) : (runSteps V steps).1.Pairwise (Before cf) := by
  induction steps with
  | nil => simp [runSteps]
  | cons sc rest ih =>
    obtain ⟨s, C⟩ := sc
    obtain ⟨hp, hc⟩ := h
    have hp' := List.pairwise_cons.1 hp
    have hC := hc (s, C) (by simp)
    have ihr := ih ⟨hp'.2, fun x hx => hc x (by simp [hx])⟩
    unfold runSteps
    split
    · exact runStage_before V cf s C hC.1 hC.2
    · refine List.pairwise_append.2 ⟨runStage_before V cf s C hC.1 hC.2, ihr, ?_⟩
      intro a ha b hb
      left
      have e1 := runStage_stage V s C a ha
      obtain ⟨C', h1, _⟩ := mem_runSteps V rest b hb
      have := hp'.1 (b.2, C') h1
      rw [e1]; exact this

theorem runAll_before (V : Verd) (cf : Stage → List Plugin) (steps : List (Stage × List Plugin))
    (h : StepsOK cf steps) : (runAll V steps).Pairwise (Before cf) := by
  induction steps with
  | nil => simp [runAll]
  | cons sc rest ih =>
    obtain ⟨s, C⟩ := sc
    obtain ⟨hp, hc⟩ := h
    have hp' := List.pairwise_cons.1 hp
    have hC := hc (s, C) (by simp)
    have ihr := ih ⟨hp'.2, fun x hx => hc x (by simp [hx])⟩
    unfold runAll
    refine List.pairwise_append.2 ⟨runStage_before V cf s C hC.1 hC.2, ihr, ?_⟩
    intro a ha b hb
    left
    have e1 := runStage_stage V s C a ha
    obtain ⟨C', h1, _⟩ := mem_runAll V rest b hb
    have := hp'.1 (b.2, C') h1
    rw [e1]; exact this

/-- prefix of a step list: what `runSteps` fires is what `runAll`-style concatenation of a
    well-formed, longer list would order the same way. -/
theorem before_append (cf : Stage → List Plugin) (l₁ l₂ : List Firing)
    (h1 : l₁.Pairwise (Before cf)) (h2 : l₂.Pairwise (Before cf))
    (h : ∀ a ∈ l₁, ∀ b ∈ l₂, a.2.rank < b.2.rank) : (l₁ ++ l₂).Pairwise (Before cf) :=
  List.pairwise_append.2 ⟨h1, h2, fun a ha b hb => Or.inl (h a ha b hb)⟩

/-- `Before` is irreflexive on lists without duplicate names, so a `Before`-sorted list has no
    repeated (plugin, stage) pair. -/
theorem before_irrefl (cf : Stage → List Plugin) (a : Firing) : ¬ Before cf a a := by
  intro h; rcases h with h | ⟨_, h⟩ <;> omega

theorem nodup_of_before (cf : Stage → List Plugin) (l : List Firing) (h : l.Pairwise (Before cf)) :
    l.Nodup := by
  refine List.Pairwise.imp ?_ h
  intro a b hab e; subst e; exact before_irrefl cf a hab

/-! ### containers: what `refresh`, `refreshTree`, `clone` and the operations do -/

theorem refresh_some {l r : List Plugin} {c c' : Cont} (h : refresh l r c = some c') :
    c' = { c with all := l ++ c.middle ++ r } ∧ (names (l ++ c.middle ++ r)).Nodup := by
  unfold refresh at h
  simp only at h
  split at h
  · rename_i hd
    exact ⟨by injection h with h; exact h.symm, (dupFree_iff _).1 hd⟩
  · cases h

/-- the root's `refreshTree` refreshes every container, each at its own index. -/
theorem refreshConts_get (l r : List Plugin) : ∀ (cs cs' : List Cont), refreshConts l r cs = some cs' →
    ∀ i : Nat, cs'[i]? = (cs[i]?).bind (refresh l r) := by
  intro cs
  induction cs with
  | nil => intro cs' h i; simp [refreshConts] at h; subst h; simp
  | cons c cs ih =>
    intro cs' h i
    unfold refreshConts at h
    split at h
    · rename_i c' cs'' h1 h2
      injection h with h; subst h
      cases i with
      | zero => simp [h1]
      | succ j => simpa using ih cs'' h2 j
    · cases h

theorem refreshConts_length (l r : List Plugin) : ∀ (cs cs' : List Cont), refreshConts l r cs = some cs' →
    cs'.length = cs.length := by
  intro cs
  induction cs with
  | nil => intro cs' h; simp [refreshConts] at h; subst h; rfl
  | cons c cs ih =>
    intro cs' h
    unfold refreshConts at h
    split at h
    · rename_i c' cs'' h1 h2
      injection h with h; subst h
      simp [ih cs'' h2]
    · cases h

/-- every container's list is `left ++ (plugins registered along its route) ++ right` with the
    current global plugins (what the property text assumes). -/
def Fresh (P : Peer) : Prop :=
  ∀ (i : Nat) (c : Cont), P.conts[i]? = some c → c.all = P.left ++ c.chain ++ P.right

/-- the state invariant of a peer's containers (every reachable configuration). -/
structure SInv (P : Peer) : Prop where
  /-- the unique-name check of `refresh`: no list a stage iterates has two plugins of one name -/
  nodup : ∀ (i : Nat) (c : Cont), P.conts[i]? = some c → (names c.all).Nodup
  /-- container 0 is the global one: empty middle, and its list is `left ++ right` -/
  root : ∃ c, P.conts[0]? = some c ∧ c.middle = [] ∧ c.chain = [] ∧ c.all = P.left ++ P.right
  /-- no aliasing: every container's `middle` slice holds exactly the plugins registered along
      its route (parent's chain, then its own), whatever was registered elsewhere afterwards -/
  clean : ∀ (i : Nat) (c : Cont), P.conts[i]? = some c → c.middle = c.chain
  /-- every container is up to date with the current global plugins -/
  fresh : Fresh P

theorem sinv_new : SInv Peer.new := by
  have one : ∀ (i : Nat) (c : Cont), Peer.new.conts[i]? = some c →
      c = { chain := [], middle := [], all := [] } := by
    intro i c h
    cases i with
    | zero => simp [Peer.new] at h; exact h.symm
    | succ j => simp [Peer.new] at h
  refine ⟨?_, ⟨_, rfl, rfl, rfl, rfl⟩, ?_, ?_⟩
  · intro i c h; rw [one i c h]; simp [names]
  · intro i c h; rw [one i c h]
  · intro i c h; rw [one i c h]; rfl

theorem refreshTree_spec {P P' : Peer} (h : refreshTree P = some P') :
    P'.left = P.left ∧ P'.right = P.right ∧ P'.groups = P.groups ∧ P'.calls = P.calls ∧ P'.pushes = P.pushes ∧
    P'.unkCall = P.unkCall ∧ P'.unkPush = P.unkPush ∧ P'.conts.length = P.conts.length ∧
    ∀ i : Nat, P'.conts[i]? = (P.conts[i]?).bind (refresh P.left P.right) := by
  unfold refreshTree at h
  cases hc : refreshConts P.left P.right P.conts with
  | none => simp [hc] at h
  | some cs =>
    simp [hc] at h; subst h
    exact ⟨rfl, rfl, rfl, rfl, rfl, rfl, rfl, refreshConts_length _ _ _ _ hc, refreshConts_get _ _ _ _ hc⟩

/-- a container of the result of `refreshTree` is the refreshed container of the same index. -/
theorem refreshTree_get {Q P' : Peer} (h : refreshTree Q = some P') {i : Nat} {c' : Cont}
    (hc' : P'.conts[i]? = some c') : ∃ c, Q.conts[i]? = some c ∧
      c' = { c with all := Q.left ++ c.middle ++ Q.right } ∧ (names c'.all).Nodup := by
  obtain ⟨_, _, _, _, _, _, _, _, hi⟩ := refreshTree_spec h
  rw [hi i] at hc'
  cases hg : Q.conts[i]? with
  | none => simp [hg] at hc'
  | some c =>
    simp [hg] at hc'
    obtain ⟨e, hn⟩ := refresh_some hc'
    exact ⟨c, rfl, e, by rw [e]; exact hn⟩

/-- `refreshTree` succeeded, so the container at an existing index was refreshed. -/
theorem refreshTree_at {Q P' : Peer} (h : refreshTree Q = some P') {i : Nat} {c : Cont}
    (hc : Q.conts[i]? = some c) : P'.conts[i]? = some { c with all := Q.left ++ c.middle ++ Q.right } := by
  obtain ⟨_, _, _, _, _, _, _, hlen, _⟩ := refreshTree_spec h
  have hi : i < Q.conts.length := by
    by_cases hi : i < Q.conts.length
    · exact hi
    · rw [List.getElem?_eq_none (Nat.le_of_not_lt hi)] at hc; cases hc
  have hi' : i < P'.conts.length := by omega
  obtain ⟨c0, h0, e, _⟩ := refreshTree_get h (List.getElem?_eq_getElem hi')
  rw [hc] at h0; injection h0 with h0; subst h0
  rw [List.getElem?_eq_getElem hi', e]

/-- `refreshTree` after `left`/`right` were changed to anything: the invariant is re-established —
    in particular EVERY container is up to date again. -/
theorem sinv_refreshTree {P Q P' : Peer} (hP : SInv P) (hQ : Q.conts = P.conts)
    (h : refreshTree Q = some P') : SInv P' := by
  obtain ⟨hl, hr, _⟩ := refreshTree_spec h
  refine ⟨?_, ?_, ?_, ?_⟩
  · intro i c' hc'
    obtain ⟨c, _, _, hn⟩ := refreshTree_get h hc'
    exact hn
  · obtain ⟨c, h0, hm, hch, _⟩ := hP.root
    refine ⟨_, refreshTree_at h (by rw [hQ]; exact h0), hm, hch, ?_⟩
    simp only; rw [hm, hl, hr]; simp
  · intro i c' hc'
    obtain ⟨c, hg, e, _⟩ := refreshTree_get h hc'
    rw [hQ] at hg
    rw [e]; exact hP.clean i c hg
  · intro i c' hc'
    obtain ⟨c, hg, e, _⟩ := refreshTree_get h hc'
    rw [hQ] at hg
    rw [e, hl, hr]; simp only; rw [hP.clean i c hg]

theorem clone_spec {P P' : Peer} {i k : Nat} {ps : List Plugin} (h : clone P i ps = some (P', k)) :
    ∃ c : Cont, P' = { P with conts := P.conts ++ [c] } ∧ k = P.conts.length ∧
      c.middle = (contAt P i).middle ++ ps ∧
      c.chain = (contAt P i).chain ++ ps ∧
      c.all = P.left ++ ((contAt P i).middle ++ ps) ++ P.right ∧ (names c.all).Nodup := by
  unfold clone at h
  simp only at h
  split at h
  · rename_i c hc
    obtain ⟨e, hn⟩ := refresh_some hc
    injection h with h; injection h with h1 h2
    refine ⟨c, h1.symm, h2.symm, ?_, ?_, ?_, ?_⟩
    all_goals (subst e; first | rfl | exact hn)
  · cases h

theorem getElem?_snoc {α} (l : List α) (a : α) (i : Nat) (x : α) (h : (l ++ [a])[i]? = some x) :
    l[i]? = some x ∨ (i = l.length ∧ x = a) := by
  by_cases hi : i < l.length
  · left; rwa [List.getElem?_append_left hi] at h
  · right
    have hi' : l.length ≤ i := Nat.le_of_not_lt hi
    rw [List.getElem?_append_right hi'] at h
    by_cases e : i = l.length
    · subst e; simp at h; exact ⟨rfl, h.symm⟩
    · have : i - l.length ≠ 0 := by omega
      cases hk : i - l.length with
      | zero => exact absurd hk this
      | succ j => rw [hk] at h; simp at h

/-- an existing container keeps its index and its content when another one is cloned. -/
theorem getElem?_snoc_old {α} (l : List α) (a : α) (i : Nat) (x : α) (h : l[i]? = some x) :
    (l ++ [a])[i]? = some x := by
  have hi : i < l.length := by
    by_cases hi : i < l.length
    · exact hi
    · rw [List.getElem?_eq_none (Nat.le_of_not_lt hi)] at h; cases h
  rw [List.getElem?_append_left hi]; exact h

theorem contAt_of_get {P : Peer} {i : Nat} {c : Cont} (h : P.conts[i]? = some c) : contAt P i = c := by
  unfold contAt; simp [List.getD, h]

/-- the parent of a clone (whatever index the router passes) has an un-aliased `middle`. -/
theorem SInv.contAt_clean {P : Peer} (hP : SInv P) (i : Nat) : (contAt P i).middle = (contAt P i).chain := by
  cases hc : P.conts[i]? with
  | none => unfold contAt; simp [List.getD, hc]
  | some c => rw [contAt_of_get hc]; exact hP.clean i c hc

theorem sinv_clone {P P' : Peer} {i k : Nat} {ps : List Plugin} (hP : SInv P)
    (h : clone P i ps = some (P', k)) : SInv P' := by
  obtain ⟨c, e, _, hm, hch, ha, hn⟩ := clone_spec h
  subst e
  refine ⟨?_, ?_, ?_, ?_⟩
  · intro j x hx
    rcases getElem?_snoc _ _ _ _ hx with hd | ⟨_, e⟩
    · exact hP.nodup j x hd
    · subst e; exact hn
  · obtain ⟨r, h0, h2, h3, h5⟩ := hP.root
    exact ⟨r, getElem?_snoc_old _ _ _ _ h0, h2, h3, h5⟩
  · intro j x hx
    rcases getElem?_snoc _ _ _ _ hx with hd | ⟨_, e⟩
    · exact hP.clean j x hd
    · subst e; rw [hm, hch, hP.contAt_clean i]
  · intro j x hx
    rcases getElem?_snoc _ _ _ _ hx with hd | ⟨_, e⟩
    · exact hP.fresh j x hd
    · subst e; simp only; rw [ha, hch, hP.contAt_clean i]

/-- the shape of every operation: a routing operation is one `clone` plus an entry in a routing
    table; a global operation changes `left`/`right` and runs the root's `refreshTree` (or, for a
    `Remove` of an absent name, nothing). -/
theorem apply_cases {P P' : Peer} (o : Op) (h : apply P o = some P') :
    (o.isGlobal = false ∧ ∃ (i : Nat) (ps : List Plugin) (Q : Peer) (k : Nat), clone P i ps = some (Q, k) ∧
        P'.left = Q.left ∧ P'.right = Q.right ∧ P'.conts = Q.conts) ∨
    (o.isGlobal = true ∧
      ((∃ Q : Peer, Q.conts = P.conts ∧ Q.groups = P.groups ∧ refreshTree Q = some P') ∨ P' = P)) := by
  cases o with
  | subRoute g ps =>
    left; refine ⟨rfl, ?_⟩
    simp only [apply] at h
    cases hc : clone P (groupCont P g) ps with
    | none => simp [hc] at h
    | some pk => obtain ⟨Q, k⟩ := pk; simp [hc] at h; subst h; exact ⟨_, _, Q, k, hc, rfl, rfl, rfl⟩
  | routeCall g id ps =>
    left; refine ⟨rfl, ?_⟩
    simp only [apply] at h
    cases hc : clone P (groupCont P g) ps with
    | none => simp [hc] at h
    | some pk =>
      obtain ⟨Q, k⟩ := pk; simp [hc] at h
      obtain ⟨_, h⟩ := h; subst h; exact ⟨_, _, Q, k, hc, rfl, rfl, rfl⟩
  | routePush g id ps =>
    left; refine ⟨rfl, ?_⟩
    simp only [apply] at h
    cases hc : clone P (groupCont P g) ps with
    | none => simp [hc] at h
    | some pk =>
      obtain ⟨Q, k⟩ := pk; simp [hc] at h
      obtain ⟨_, h⟩ := h; subst h; exact ⟨_, _, Q, k, hc, rfl, rfl, rfl⟩
  | unknownCall ps =>
    left; refine ⟨rfl, ?_⟩
    simp only [apply] at h
    cases hc : clone P 0 ps with
    | none => simp [hc] at h
    | some pk => obtain ⟨Q, k⟩ := pk; simp [hc] at h; subst h; exact ⟨_, _, Q, k, hc, rfl, rfl, rfl⟩
  | unknownPush ps =>
    left; refine ⟨rfl, ?_⟩
    simp only [apply] at h
    cases hc : clone P 0 ps with
    | none => simp [hc] at h
    | some pk => obtain ⟨Q, k⟩ := pk; simp [hc] at h; subst h; exact ⟨_, _, Q, k, hc, rfl, rfl, rfl⟩
  | appendLeft ps => right; exact ⟨rfl, Or.inl ⟨{ P with left := ps ++ P.left }, rfl, rfl, h⟩⟩
  | appendRight ps => right; exact ⟨rfl, Or.inl ⟨{ P with right := P.right ++ ps }, rfl, rfl, h⟩⟩
  | remove n =>
    right; refine ⟨rfl, ?_⟩
    simp only [apply] at h
    split at h
    · exact Or.inl ⟨{ P with left := eraseName n P.left, right := eraseName n P.right }, rfl, rfl, h⟩
    · injection h with h; exact Or.inr h.symm

/-- the invariant only reads `left`, `right` and the containers. -/
theorem sinv_fields {Q Q' : Peer} (hQ : SInv Q) (e1 : Q'.left = Q.left) (e2 : Q'.right = Q.right)
    (e3 : Q'.conts = Q.conts) : SInv Q' :=
  ⟨by rw [e3]; exact hQ.nodup, by rw [e1, e2, e3]; exact hQ.root, by rw [e3]; exact hQ.clean,
   by unfold Fresh; rw [e1, e2, e3]; exact hQ.fresh⟩

/-- invariance under one operation. -/
theorem sinv_apply {P P' : Peer} (o : Op) (hP : SInv P) (h : apply P o = some P') : SInv P' := by
  rcases apply_cases o h with ⟨_, i, ps, Q, k, hc, e1, e2, e3⟩ | ⟨_, ⟨Q, hQ, _, ht⟩ | e⟩
  · exact sinv_fields (sinv_clone hP hc) e1 e2 e3
  · exact sinv_refreshTree hP hQ ht
  · rw [e]; exact hP

theorem sinv_run : ∀ (ops : List Op) {P P' : Peer}, SInv P → run P ops = some P' → SInv P' := by
  intro ops
  induction ops with
  | nil => intro P P' hP h; simp [run] at h; subst h; exact hP
  | cons o os ih =>
    intro P P' hP h
    simp only [run] at h
    cases ha : apply P o with
    | none => simp [ha] at h
    | some Q => simp [ha] at h; exact ih (sinv_apply o hP ha) h

theorem run_append : ∀ (a b : List Op) (P : Peer), run P (a ++ b) = (run P a).bind (fun Q => run Q b) := by
  intro a
  induction a with
  | nil => intro b P; simp [run]
  | cons o os ih =>
    intro b P
    simp only [List.cons_append, run]
    cases apply P o with
    | none => simp
    | some Q => simp [ih]

/-- consequences for the lists the stages iterate. -/
theorem SInv.allOf_nodup {P : Peer} (h : SInv P) (i : Nat) : (names (allOf P i)).Nodup := by
  unfold allOf contAt
  cases hc : P.conts[i]? with
  | none => simp [List.getD, hc, names]
  | some c => simp [List.getD, hc]; exact h.nodup i c hc

theorem SInv.globalAll_eq {P : Peer} (h : SInv P) : globalAll P = P.left ++ P.right := by
  obtain ⟨c, h0, _, _, ha⟩ := h.root
  unfold globalAll allOf contAt
  simp [List.getD, h0, ha]

/-- the list the stages iterate for an existing container: current global-left plugins, the
    route's chain, current global-right plugins. -/
theorem SInv.allOf_eq {P : Peer} (h : SInv P) {i : Nat} (hi : i < P.conts.length) :
    allOf P i = P.left ++ (contAt P i).chain ++ P.right := by
  have hc : P.conts[i]? = some P.conts[i] := List.getElem?_eq_getElem hi
  unfold allOf
  rw [contAt_of_get hc]
  exact h.fresh i _ hc

/-! ### the routing tables point at existing containers -/

/-- every handler registered in a routing table has a container. -/
structure TInv (P : Peer) : Prop where
  calls : ∀ e ∈ P.calls, e.2 < P.conts.length
  pushes : ∀ e ∈ P.pushes, e.2 < P.conts.length
  unkCall : ∀ k, P.unkCall = some k → k < P.conts.length
  unkPush : ∀ k, P.unkPush = some k → k < P.conts.length

theorem tinv_new : TInv Peer.new := by
  refine ⟨?_, ?_, ?_, ?_⟩ <;> simp [Peer.new]

theorem TInv.mono {P Q : Peer} (hP : TInv P) (hl : P.conts.length ≤ Q.conts.length) (e1 : Q.calls = P.calls)
    (e2 : Q.pushes = P.pushes) (e3 : Q.unkCall = P.unkCall) (e4 : Q.unkPush = P.unkPush) : TInv Q :=
  ⟨fun e he => Nat.lt_of_lt_of_le (hP.calls e (e1 ▸ he)) hl,
   fun e he => Nat.lt_of_lt_of_le (hP.pushes e (e2 ▸ he)) hl,
   fun k hk => Nat.lt_of_lt_of_le (hP.unkCall k (e3 ▸ hk)) hl,
   fun k hk => Nat.lt_of_lt_of_le (hP.unkPush k (e4 ▸ hk)) hl⟩

/-- after a clone the tables are unchanged, there is one more container, and `k` is its index. -/
theorem tinv_clone {P Q : Peer} {i k : Nat} {ps : List Plugin} (hP : TInv P) (h : clone P i ps = some (Q, k)) :
    TInv Q ∧ k < Q.conts.length := by
  obtain ⟨c, e, hk, _⟩ := clone_spec h
  subst e; subst hk
  exact ⟨hP.mono (by simp) rfl rfl rfl rfl, by simp⟩

theorem tinv_apply {P P' : Peer} (o : Op) (hP : TInv P) (h : apply P o = some P') : TInv P' := by
  have viaTree : ∀ {Q : Peer}, Q.conts = P.conts → Q.calls = P.calls → Q.pushes = P.pushes →
      Q.unkCall = P.unkCall → Q.unkPush = P.unkPush → refreshTree Q = some P' → TInv P' := by
    intro Q e0 e1 e2 e3 e4 ht
    obtain ⟨_, _, _, f1, f2, f3, f4, hlen, _⟩ := refreshTree_spec ht
    exact hP.mono (by rw [hlen, e0]; exact Nat.le_refl _) (by rw [f1, e1]) (by rw [f2, e2]) (by rw [f3, e3]) (by rw [f4, e4])
  cases o with
  | subRoute g ps =>
    simp only [apply] at h
    cases hc : clone P (groupCont P g) ps with
    | none => simp [hc] at h
    | some pk =>
      obtain ⟨Q, k⟩ := pk; simp [hc] at h; subst h
      exact (tinv_clone hP hc).1.mono (Nat.le_refl _) rfl rfl rfl rfl
  | routeCall g id ps =>
    simp only [apply] at h
    cases hc : clone P (groupCont P g) ps with
    | none => simp [hc] at h
    | some pk =>
      obtain ⟨Q, k⟩ := pk; simp [hc] at h
      obtain ⟨_, h⟩ := h; subst h
      obtain ⟨hQ, hk⟩ := tinv_clone hP hc
      refine ⟨?_, hQ.pushes, hQ.unkCall, hQ.unkPush⟩
      intro e he
      simp only [List.mem_append, List.mem_singleton] at he
      rcases he with he | he
      · exact hQ.calls e he
      · subst he; exact hk
  | routePush g id ps =>
    simp only [apply] at h
    cases hc : clone P (groupCont P g) ps with
    | none => simp [hc] at h
    | some pk =>
      obtain ⟨Q, k⟩ := pk; simp [hc] at h
      obtain ⟨_, h⟩ := h; subst h
      obtain ⟨hQ, hk⟩ := tinv_clone hP hc
      refine ⟨hQ.calls, ?_, hQ.unkCall, hQ.unkPush⟩
      intro e he
      simp only [List.mem_append, List.mem_singleton] at he
      rcases he with he | he
      · exact hQ.pushes e he
      · subst he; exact hk
  | unknownCall ps =>
    simp only [apply] at h
    cases hc : clone P 0 ps with
    | none => simp [hc] at h
    | some pk =>
      obtain ⟨Q, k⟩ := pk; simp [hc] at h; subst h
      obtain ⟨hQ, hk⟩ := tinv_clone hP hc
      exact ⟨hQ.calls, hQ.pushes, fun k' e => by simp at e; subst e; exact hk, hQ.unkPush⟩
  | unknownPush ps =>
    simp only [apply] at h
    cases hc : clone P 0 ps with
    | none => simp [hc] at h
    | some pk =>
      obtain ⟨Q, k⟩ := pk; simp [hc] at h; subst h
      obtain ⟨hQ, hk⟩ := tinv_clone hP hc
      exact ⟨hQ.calls, hQ.pushes, hQ.unkCall, fun k' e => by simp at e; subst e; exact hk⟩
  | appendLeft ps => exact viaTree (Q := { P with left := ps ++ P.left }) rfl rfl rfl rfl rfl h
  | appendRight ps => exact viaTree (Q := { P with right := P.right ++ ps }) rfl rfl rfl rfl rfl h
  | remove n =>
    simp only [apply] at h
    split at h
    · exact viaTree (Q := { P with left := eraseName n P.left, right := eraseName n P.right }) rfl rfl rfl rfl rfl h
    · injection h with h; subst h; exact hP

theorem tinv_run : ∀ (ops : List Op) {P P' : Peer}, TInv P → run P ops = some P' → TInv P' := by
  intro ops
  induction ops with
  | nil => intro P P' hP h; simp [run] at h; subst h; exact hP
  | cons o os ih =>
    intro P P' hP h
    simp only [run] at h
    cases ha : apply P o with
    | none => simp [ha] at h
    | some Q => simp [ha] at h; exact ih (tinv_apply o hP ha) h

theorem lookup_mem (id : Nat) : ∀ (l : List (Nat × Nat)) (k : Nat), lookup id l = some k → (id, k) ∈ l := by
  intro l
  induction l with
  | nil => intro k h; simp [lookup] at h
  | cons e r ih =>
    intro k h
    obtain ⟨a, b⟩ := e
    unfold lookup at h
    split at h
    · rename_i ha; injection h with h; subst h; subst ha; simp
    · exact List.mem_cons_of_mem _ (ih k h)

theorem TInv.getCall_lt {P : Peer} (hP : TInv P) {id k : Nat} (h : getCall P id = some k) : k < P.conts.length := by
  unfold getCall at h
  split at h
  · rename_i k' hl; injection h with h; subst h; exact hP.calls _ (lookup_mem id _ _ hl)
  · exact hP.unkCall k h

theorem TInv.getPush_lt {P : Peer} (hP : TInv P) {id k : Nat} (h : getPush P id = some k) : k < P.conts.length := by
  unfold getPush at h
  split at h
  · rename_i k' hl; injection h with h; subst h; exact hP.pushes _ (lookup_mem id _ _ hl)
  · exact hP.unkPush k h

/-! ### the step lists of the receiving side are well-formed -/

theorem calleeSteps_ok (P : Peer) (hP : SInv P) (V : Verd) (id : Nat) :
    StepsOK (calleeList P V id) (calleeSteps P id) := by
  unfold calleeSteps
  cases hg : getCall P id with
  | none =>
    refine ⟨by simp [Stage.rank], ?_⟩
    intro sc hsc
    simp at hsc
    rcases hsc with h | h <;> subst h <;> exact ⟨rfl, hP.allOf_nodup 0⟩
  | some k =>
    refine ⟨by simp [Stage.rank], ?_⟩
    intro sc hsc
    simp at hsc
    rcases hsc with h | h | h | h <;> subst h
    · exact ⟨rfl, hP.allOf_nodup 0⟩
    · exact ⟨rfl, hP.allOf_nodup 0⟩
    · exact ⟨by simp [calleeList, callCont, hg], hP.allOf_nodup k⟩
    · exact ⟨by simp [calleeList, callCont, hg], hP.allOf_nodup k⟩

theorem calleeSteps_rank (P : Peer) (id : Nat) : ∀ sc ∈ calleeSteps P id, sc.1.rank < 6 := by
  intro sc hsc
  unfold calleeSteps at hsc
  cases hg : getCall P id with
  | none => rw [hg] at hsc; simp at hsc; rcases hsc with h | h <;> subst h <;> simp [Stage.rank]
  | some k => rw [hg] at hsc; simp at hsc; rcases hsc with h | h | h | h <;> subst h <;> simp [Stage.rank]

theorem replyList_nodup (P : Peer) (hP : SInv P) (V : Verd) (id : Nat) : (names (replyList P V id)).Nodup := by
  unfold replyList; split
  · exact hP.allOf_nodup 0
  · exact hP.allOf_nodup _

theorem replySteps_ok (P : Peer) (hP : SInv P) (V : Verd) (id : Nat) :
    StepsOK (calleeList P V id) (replySteps (replyList P V id)) := by
  refine ⟨by simp [replySteps, Stage.rank], ?_⟩
  intro sc hsc
  simp [replySteps] at hsc
  rcases hsc with h | h <;> subst h <;> exact ⟨rfl, replyList_nodup P hP V id⟩

theorem pusheeSteps_ok (P : Peer) (hP : SInv P) (id : Nat) : StepsOK (pusheeList P id) (pusheeSteps P id) := by
  unfold pusheeSteps
  cases hg : getPush P id with
  | none =>
    refine ⟨by simp [Stage.rank], ?_⟩
    intro sc hsc
    simp at hsc
    rcases hsc with h | h <;> subst h <;> exact ⟨rfl, hP.allOf_nodup 0⟩
  | some k =>
    refine ⟨by simp [Stage.rank], ?_⟩
    intro sc hsc
    simp at hsc
    rcases hsc with h | h | h | h <;> subst h
    · exact ⟨rfl, hP.allOf_nodup 0⟩
    · exact ⟨rfl, hP.allOf_nodup 0⟩
    · exact ⟨by simp [pusheeList, pushCont, hg], hP.allOf_nodup k⟩
    · exact ⟨by simp [pusheeList, pushCont, hg], hP.allOf_nodup k⟩

end Plug
end Teleport
