/-
Lemmas/Conc — lockset / happens-before lemmas for C14.
Method: work on list decompositions `pre ++ e :: post` ("some release of the first holder", "some acquire of
the second holder"), convert to indices only at the end.
-/
import Teleport.Model.Conc
namespace Teleport.Conc

/-! ### lists and indices -/

theorem at_mid {α} (a : List α) (e : α) (b : List α) : (a ++ e :: b)[a.length]? = some e := by simp

theorem split_at {α} : ∀ (tr : List α) (i : Nat) (e : α), tr[i]? = some e →
    ∃ pre post, tr = pre ++ e :: post ∧ pre.length = i
  | [], i, e, h => by simp at h
  | a :: tr, 0, e, h => by
    simp at h; exact ⟨[], tr, by simp [h], rfl⟩
  | a :: tr, i + 1, e, h => by
    simp at h
    obtain ⟨pre, post, h1, h2⟩ := split_at tr i e h
    exact ⟨a :: pre, post, by simp [h1], by simp [h2]⟩

theorem split_two {α} (tr : List α) (i j : Nat) (a b : α) (hij : i < j)
    (hi : tr[i]? = some a) (hj : tr[j]? = some b) :
    ∃ p1 mid p3, tr = p1 ++ a :: (mid ++ b :: p3) ∧ p1.length = i ∧ p1.length + 1 + mid.length = j := by
  obtain ⟨pre2, p3, h2, hl2⟩ := split_at tr j b hj
  have hi' : pre2[i]? = some a := by
    rw [h2, List.getElem?_append_left (by omega)] at hi; exact hi
  obtain ⟨p1, mid, h1, hl1⟩ := split_at pre2 i a hi'
  refine ⟨p1, mid, p3, ?_, hl1, ?_⟩
  · rw [h2, h1]; simp
  · rw [← hl2, h1]; simp; omega

/-! ### happens-before -/

theorem HB.lt {tr : Trace} {i j : Nat} (h : HB tr i j) : i < j := by
  induction h with
  | edge e => exact e.1
  | trans _ _ ih1 ih2 => omega

theorem hb_po {tr : Trace} {i j : Nat} {a b : Ev} (hij : i < j) (hi : tr[i]? = some a)
    (hj : tr[j]? = some b) (ht : a.tid = b.tid) : HB tr i j :=
  .edge ⟨hij, a, b, hi, hj, .inl ht⟩

theorem hb_sync {tr : Trace} {i j : Nat} {a b : Ev} (hij : i < j) (hi : tr[i]? = some a)
    (hj : tr[j]? = some b) (hs : syncs a b = true) : HB tr i j :=
  .edge ⟨hij, a, b, hi, hj, .inr hs⟩

/-! ### lock runs -/

theorem lockRun_append (l : LockId) : ∀ (a : Trace) (s : LState) (b : Trace),
    lockRun l s (a ++ b) = (lockRun l s a).bind (fun s' => lockRun l s' b)
  | [], s, b => by simp [lockRun]
  | e :: a, s, b => by
    simp only [List.cons_append, lockRun]
    cases h : lockStep l s e with
    | none => simp
    | some s1 => simp [lockRun_append l a s1 b]

/-- a writer excludes readers. -/
def LInv (s : LState) : Prop := s.writer ≠ none → s.readers = []

theorem LInv_free : LInv LState.free := fun _ => rfl

theorem lockStep_access {x : Loc} {l : LockId} {s : LState} {e : Ev} (h : e.op.isAccess x = true) :
    lockStep l s e = some s := by
  obtain ⟨t, o⟩ := e
  cases o <;> simp_all [lockStep, Op.isAccess, Op.isWrite]

theorem lockStep_inv {l : LockId} {s s' : LState} {e : Ev} (hi : LInv s)
    (h : lockStep l s e = some s') : LInv s' := by
  obtain ⟨t, o⟩ := e
  cases o <;> simp only [lockStep] at h
  case acq l' =>
    by_cases hl : l' = l <;> simp only [hl, if_true, if_false] at h
    · split at h
      · cases h; intro _; rfl
      · cases h
    · cases h; exact hi
  case rel l' =>
    by_cases hl : l' = l <;> simp only [hl, if_true, if_false] at h
    · split at h
      · cases h; intro hc; exact absurd rfl hc
      · cases h
    · cases h; exact hi
  case racq l' =>
    by_cases hl : l' = l <;> simp only [hl, if_true, if_false] at h
    · split at h
      · cases h; intro hc; exact absurd rfl hc
      · cases h
    · cases h; exact hi
  case rrel l' =>
    by_cases hl : l' = l <;> simp only [hl, if_true, if_false] at h
    · split at h
      · cases h; intro hc
        have := hi hc
        simp_all
      · cases h
    · cases h; exact hi
  all_goals (cases h; exact hi)

theorem lockRun_inv (l : LockId) : ∀ (tr : Trace) (s s' : LState), LInv s → lockRun l s tr = some s' → LInv s'
  | [], s, s', hi, h => by simp [lockRun] at h; exact h ▸ hi
  | e :: tr, s, s', hi, h => by
    simp only [lockRun] at h
    cases hs : lockStep l s e with
    | none => simp [hs] at h
    | some s1 =>
      simp [hs] at h
      exact lockRun_inv l tr s1 s' (lockStep_inv hi hs) h

/-- if thread `t` holds `l` exclusively in `s` and no longer does after `mid`, then `mid` contains a
`rel l` by `t`, after which the lock is free. -/
theorem first_rel {l : LockId} {t : Tid} : ∀ (mid : Trace) (s s' : LState),
    LInv s → s.writer = some t → lockRun l s mid = some s' → s'.writer ≠ some t →
    ∃ m1 m2, mid = m1 ++ ⟨t, .rel l⟩ :: m2 ∧ lockRun l LState.free m2 = some s'
  | [], s, s', _, hw, h, hn => by simp [lockRun] at h; subst h; exact absurd hw hn
  | e :: mid, s, s', hi, hw, h, hn => by
    simp only [lockRun] at h
    cases hs : lockStep l s e with
    | none => simp [hs] at h
    | some s1 =>
      simp [hs] at h
      by_cases he : e = ⟨t, .rel l⟩
      · subst he
        have hr : s.readers = [] := hi (by simp [hw])
        simp [lockStep, hw] at hs
        refine ⟨[], mid, by simp, ?_⟩
        have : s1 = LState.free := by rw [← hs, hr]; rfl
        rw [← this]; exact h
      · have hw1 : s1.writer = some t := by
          obtain ⟨et, o⟩ := e
          cases o <;> simp only [lockStep] at hs
          case acq l' =>
            by_cases hl : l' = l <;> simp [hl, hw] at hs
            exact hs ▸ hw
          case rel l' =>
            by_cases hl : l' = l
            · subst hl
              by_cases ht : et = t
              · subst ht; exact absurd rfl he
              · simp [hw] at hs
                exact absurd hs.1.symm ht
            · simp [hl] at hs; exact hs ▸ hw
          case racq l' =>
            by_cases hl : l' = l <;> simp [hl, hw] at hs
            exact hs ▸ hw
          case rrel l' =>
            by_cases hl : l' = l
            · simp only [hl, if_true] at hs
              split at hs
              · cases hs; exact hw
              · cases hs
            · simp [hl] at hs; exact hs ▸ hw
          all_goals (cases hs; exact hw)
        obtain ⟨m1, m2, hm, hr⟩ := first_rel mid s1 s' (lockStep_inv hi hs) hw1 h hn
        exact ⟨e :: m1, m2, by simp [hm], hr⟩

/-- if thread `t` holds `l` shared in `s` and no longer does after `mid`, then `mid` contains an `rrel l` by
`t`, at which point the lock has no writer. -/
theorem first_rrel {l : LockId} {t : Tid} : ∀ (mid : Trace) (s s' : LState),
    LInv s → t ∈ s.readers → lockRun l s mid = some s' → t ∉ s'.readers →
    ∃ m1 m2 s3, mid = m1 ++ ⟨t, .rrel l⟩ :: m2 ∧ s3.writer = none ∧ lockRun l s3 m2 = some s'
  | [], s, s', _, hm, h, hn => by simp [lockRun] at h; subst h; exact absurd hm hn
  | e :: mid, s, s', hi, hm, h, hn => by
    simp only [lockRun] at h
    have hwn : s.writer = none := by
      cases hw : s.writer with
      | none => rfl
      | some w => have := hi (by simp [hw]); simp [this] at hm
    cases hs : lockStep l s e with
    | none => simp [hs] at h
    | some s1 =>
      simp [hs] at h
      by_cases he : e = ⟨t, .rrel l⟩
      · subst he
        simp [lockStep, hm] at hs
        exact ⟨[], mid, s1, by simp, by rw [← hs]; exact hwn, h⟩
      · have hm1 : t ∈ s1.readers := by
          obtain ⟨et, o⟩ := e
          cases o <;> simp only [lockStep] at hs
          case acq l' =>
            by_cases hl : l' = l
            · simp only [hl, if_true] at hs
              split at hs
              · rename_i hc; rw [hc.2] at hm; simp at hm
              · cases hs
            · simp [hl] at hs; exact hs ▸ hm
          case rel l' =>
            by_cases hl : l' = l <;> simp [hl, hwn] at hs
            exact hs ▸ hm
          case racq l' =>
            by_cases hl : l' = l
            · simp [hl, hwn] at hs
              rw [← hs]; exact List.mem_cons_of_mem _ hm
            · simp [hl] at hs; exact hs ▸ hm
          case rrel l' =>
            by_cases hl : l' = l
            · subst hl
              have hne : t ≠ et := by
                intro hc; subst hc; exact he rfl
              simp only [if_true] at hs
              split at hs
              · cases hs; exact (List.mem_erase_of_ne hne).2 hm
              · cases hs
            · simp [hl] at hs; exact hs ▸ hm
          all_goals (cases hs; exact hm)
        obtain ⟨m1, m2, s3, hmm, hw3, hr⟩ := first_rrel mid s1 s' (lockStep_inv hi hs) hm1 h hn
        exact ⟨e :: m1, m2, s3, by simp [hmm], hw3, hr⟩

/-- if `t` is not the writer in `s` and is the writer after `mid`, then `mid` contains an `acq l` by `t`. -/
theorem some_wacq {l : LockId} {t : Tid} : ∀ (mid : Trace) (s s' : LState),
    s.writer ≠ some t → lockRun l s mid = some s' → s'.writer = some t →
    ∃ n1 n2, mid = n1 ++ ⟨t, .acq l⟩ :: n2
  | [], s, s', hn, h, hw => by simp [lockRun] at h; subst h; exact absurd hw hn
  | e :: mid, s, s', hn, h, hw => by
    simp only [lockRun] at h
    cases hs : lockStep l s e with
    | none => simp [hs] at h
    | some s1 =>
      simp [hs] at h
      by_cases h1 : s1.writer = some t
      · refine ⟨[], mid, ?_⟩
        obtain ⟨et, o⟩ := e
        cases o <;> simp only [lockStep] at hs
        case acq l' =>
          by_cases hl : l' = l
          · subst hl
            simp only [if_true] at hs
            split at hs
            · cases hs; simp at h1; simp [h1]
            · cases hs
          · simp [hl] at hs; exact absurd (hs ▸ h1) hn
        case rel l' =>
          by_cases hl : l' = l
          · simp only [hl, if_true] at hs
            split at hs
            · cases hs; simp at h1
            · cases hs
          · simp [hl] at hs; exact absurd (hs ▸ h1) hn
        case racq l' =>
          by_cases hl : l' = l
          · simp only [hl, if_true] at hs
            split at hs
            · cases hs; simp at h1
            · cases hs
          · simp [hl] at hs; exact absurd (hs ▸ h1) hn
        case rrel l' =>
          by_cases hl : l' = l
          · simp only [hl, if_true] at hs
            split at hs
            · cases hs; exact absurd h1 hn
            · cases hs
          · simp [hl] at hs; exact absurd (hs ▸ h1) hn
        all_goals (cases hs; exact absurd h1 hn)
      · obtain ⟨n1, n2, hm⟩ := some_wacq mid s1 s' h1 h hw
        exact ⟨e :: n1, n2, by simp [hm]⟩

/-- if `t` is not a reader in `s` and is one after `mid`, then `mid` contains a `racq l` by `t`. -/
theorem some_racq {l : LockId} {t : Tid} : ∀ (mid : Trace) (s s' : LState),
    t ∉ s.readers → lockRun l s mid = some s' → t ∈ s'.readers →
    ∃ n1 n2, mid = n1 ++ ⟨t, .racq l⟩ :: n2
  | [], s, s', hn, h, hw => by simp [lockRun] at h; subst h; exact absurd hw hn
  | e :: mid, s, s', hn, h, hw => by
    simp only [lockRun] at h
    cases hs : lockStep l s e with
    | none => simp [hs] at h
    | some s1 =>
      simp [hs] at h
      by_cases h1 : t ∈ s1.readers
      · refine ⟨[], mid, ?_⟩
        obtain ⟨et, o⟩ := e
        cases o <;> simp only [lockStep] at hs
        case acq l' =>
          by_cases hl : l' = l
          · simp only [hl, if_true] at hs
            split at hs
            · cases hs; simp at h1
            · cases hs
          · simp [hl] at hs; exact absurd (hs ▸ h1) hn
        case rel l' =>
          by_cases hl : l' = l
          · simp only [hl, if_true] at hs
            split at hs
            · cases hs; exact absurd h1 hn
            · cases hs
          · simp [hl] at hs; exact absurd (hs ▸ h1) hn
        case racq l' =>
          by_cases hl : l' = l
          · subst hl
            simp only [if_true] at hs
            split at hs
            · cases hs
              simp at h1
              rcases h1 with h1 | h1
              · simp [h1]
              · exact absurd h1 hn
            · cases hs
          · simp [hl] at hs; exact absurd (hs ▸ h1) hn
        case rrel l' =>
          by_cases hl : l' = l
          · simp only [hl, if_true] at hs
            split at hs
            · cases hs; exact absurd (List.mem_of_mem_erase h1) hn
            · cases hs
          · simp [hl] at hs; exact absurd (hs ▸ h1) hn
        all_goals (cases hs; exact absurd h1 hn)
      · obtain ⟨n1, n2, hm⟩ := some_racq mid s1 s' h1 h hw
        exact ⟨e :: n1, n2, by simp [hm]⟩

/-! ### the two ordering lemmas (decomposition form) -/

/-- first access holds `l` exclusively, second (another thread) holds it exclusively or shared:
first access →po `rel` →sync `acq`/`racq` →po second access. -/
theorem ordered_W_any {l : LockId} {p1 mid p3 : Trace} {e1 e2 : Ev} {s1 s2 : LState}
    (hi1 : LInv s1) (hw1 : s1.writer = some e1.tid)
    (h2 : lockRun l s1 mid = some s2) (hh2 : s2.writer = some e2.tid ∨ e2.tid ∈ s2.readers)
    (hne : e1.tid ≠ e2.tid) :
    HB (p1 ++ e1 :: (mid ++ e2 :: p3)) p1.length (p1.length + 1 + mid.length) := by
  have hi2 : LInv s2 := lockRun_inv l mid s1 s2 hi1 h2
  have hn : s2.writer ≠ some e1.tid := by
    rcases hh2 with h | h
    · rw [h]; intro hc; exact hne (Option.some.inj hc).symm
    · intro hc
      have := hi2 (by simp [hc])
      simp [this] at h
  obtain ⟨m1, m2, hm, hr⟩ := first_rel mid s1 s2 hi1 hw1 h2 hn
  -- an acquire by e2.tid in m2
  have hacq : ∃ n1 n2 o, m2 = n1 ++ ⟨e2.tid, o⟩ :: n2 ∧ (o = .acq l ∨ o = .racq l) := by
    rcases hh2 with h | h
    · obtain ⟨n1, n2, hn⟩ := some_wacq m2 LState.free s2 (by simp [LState.free]) hr h
      exact ⟨n1, n2, _, hn, .inl rfl⟩
    · obtain ⟨n1, n2, hn⟩ := some_racq m2 LState.free s2 (by simp [LState.free]) hr h
      exact ⟨n1, n2, _, hn, .inr rfl⟩
  obtain ⟨n1, n2, o, hn2, ho⟩ := hacq
  subst hm; subst hn2
  -- indices
  let tr := p1 ++ e1 :: ((m1 ++ ⟨e1.tid, .rel l⟩ :: (n1 ++ ⟨e2.tid, o⟩ :: n2)) ++ e2 :: p3)
  have a1 : tr[p1.length]? = some e1 := at_mid _ _ _
  have a2 : tr[p1.length + 1 + m1.length]? = some ⟨e1.tid, .rel l⟩ := by
    have : tr = (p1 ++ e1 :: m1) ++ ⟨e1.tid, .rel l⟩ :: ((n1 ++ ⟨e2.tid, o⟩ :: n2) ++ e2 :: p3) := by
      simp [tr]
    rw [this]
    have hl : p1.length + 1 + m1.length = (p1 ++ e1 :: m1).length := by simp; omega
    rw [hl]; exact at_mid _ _ _
  have a3 : tr[p1.length + 1 + m1.length + 1 + n1.length]? = some ⟨e2.tid, o⟩ := by
    have : tr = (p1 ++ e1 :: (m1 ++ ⟨e1.tid, .rel l⟩ :: n1)) ++ ⟨e2.tid, o⟩ :: (n2 ++ e2 :: p3) := by
      simp [tr]
    rw [this]
    have hl : p1.length + 1 + m1.length + 1 + n1.length
        = (p1 ++ e1 :: (m1 ++ ⟨e1.tid, .rel l⟩ :: n1)).length := by simp; omega
    rw [hl]; exact at_mid _ _ _
  have a4 : tr[p1.length + 1 + (m1 ++ ⟨e1.tid, .rel l⟩ :: (n1 ++ ⟨e2.tid, o⟩ :: n2)).length]? = some e2 := by
    have : tr = (p1 ++ e1 :: (m1 ++ ⟨e1.tid, .rel l⟩ :: (n1 ++ ⟨e2.tid, o⟩ :: n2))) ++ e2 :: p3 := by
      simp [tr]
    rw [this]
    have hl : p1.length + 1 + (m1 ++ ⟨e1.tid, .rel l⟩ :: (n1 ++ ⟨e2.tid, o⟩ :: n2)).length
        = (p1 ++ e1 :: (m1 ++ ⟨e1.tid, .rel l⟩ :: (n1 ++ ⟨e2.tid, o⟩ :: n2))).length := by simp; omega
    rw [hl]; exact at_mid _ _ _
  have hs : syncs ⟨e1.tid, .rel l⟩ ⟨e2.tid, o⟩ = true := by
    rcases ho with h | h <;> subst h <;> simp [syncs, lockSync]
  have b1 : HB tr p1.length (p1.length + 1 + m1.length) := hb_po (by omega) a1 a2 rfl
  have b2 : HB tr (p1.length + 1 + m1.length) (p1.length + 1 + m1.length + 1 + n1.length) :=
    hb_sync (by omega) a2 a3 hs
  have b3 : HB tr (p1.length + 1 + m1.length + 1 + n1.length)
      (p1.length + 1 + (m1 ++ ⟨e1.tid, .rel l⟩ :: (n1 ++ ⟨e2.tid, o⟩ :: n2)).length) :=
    hb_po (by simp; omega) a3 a4 rfl
  exact .trans b1 (.trans b2 b3)

/-- first access holds `l` shared, second (another thread) holds it exclusively:
first access →po `rrel` →sync `acq` →po second access. -/
theorem ordered_R_W {l : LockId} {p1 mid p3 : Trace} {e1 e2 : Ev} {s1 s2 : LState}
    (hi1 : LInv s1) (hr1 : e1.tid ∈ s1.readers)
    (h2 : lockRun l s1 mid = some s2) (hh2 : s2.writer = some e2.tid) :
    HB (p1 ++ e1 :: (mid ++ e2 :: p3)) p1.length (p1.length + 1 + mid.length) := by
  have hi2 : LInv s2 := lockRun_inv l mid s1 s2 hi1 h2
  have hn : e1.tid ∉ s2.readers := by
    have := hi2 (by simp [hh2]); simp [this]
  obtain ⟨m1, m2, s3, hm, hw3, hr⟩ := first_rrel mid s1 s2 hi1 hr1 h2 hn
  obtain ⟨n1, n2, hn2⟩ := some_wacq m2 s3 s2 (by simp [hw3]) hr hh2
  subst hm; subst hn2
  let tr := p1 ++ e1 :: ((m1 ++ ⟨e1.tid, .rrel l⟩ :: (n1 ++ ⟨e2.tid, .acq l⟩ :: n2)) ++ e2 :: p3)
  have a1 : tr[p1.length]? = some e1 := at_mid _ _ _
  have a2 : tr[p1.length + 1 + m1.length]? = some ⟨e1.tid, .rrel l⟩ := by
    have : tr = (p1 ++ e1 :: m1) ++ ⟨e1.tid, .rrel l⟩ :: ((n1 ++ ⟨e2.tid, .acq l⟩ :: n2) ++ e2 :: p3) := by
      simp [tr]
    rw [this]
    have hl : p1.length + 1 + m1.length = (p1 ++ e1 :: m1).length := by simp; omega
    rw [hl]; exact at_mid _ _ _
  have a3 : tr[p1.length + 1 + m1.length + 1 + n1.length]? = some ⟨e2.tid, .acq l⟩ := by
    have : tr = (p1 ++ e1 :: (m1 ++ ⟨e1.tid, .rrel l⟩ :: n1)) ++ ⟨e2.tid, .acq l⟩ :: (n2 ++ e2 :: p3) := by
      simp [tr]
    rw [this]
    have hl : p1.length + 1 + m1.length + 1 + n1.length
        = (p1 ++ e1 :: (m1 ++ ⟨e1.tid, .rrel l⟩ :: n1)).length := by simp; omega
    rw [hl]; exact at_mid _ _ _
  have a4 : tr[p1.length + 1 + (m1 ++ ⟨e1.tid, .rrel l⟩ :: (n1 ++ ⟨e2.tid, .acq l⟩ :: n2)).length]? = some e2 := by
    have : tr = (p1 ++ e1 :: (m1 ++ ⟨e1.tid, .rrel l⟩ :: (n1 ++ ⟨e2.tid, .acq l⟩ :: n2))) ++ e2 :: p3 := by
      simp [tr]
    rw [this]
    have hl : p1.length + 1 + (m1 ++ ⟨e1.tid, .rrel l⟩ :: (n1 ++ ⟨e2.tid, .acq l⟩ :: n2)).length
        = (p1 ++ e1 :: (m1 ++ ⟨e1.tid, .rrel l⟩ :: (n1 ++ ⟨e2.tid, .acq l⟩ :: n2))).length := by simp; omega
    rw [hl]; exact at_mid _ _ _
  have hs : syncs ⟨e1.tid, .rrel l⟩ ⟨e2.tid, .acq l⟩ = true := by simp [syncs, lockSync]
  have b1 : HB tr p1.length (p1.length + 1 + m1.length) := hb_po (by omega) a1 a2 rfl
  have b2 : HB tr (p1.length + 1 + m1.length) (p1.length + 1 + m1.length + 1 + n1.length) :=
    hb_sync (by omega) a2 a3 hs
  have b3 : HB tr (p1.length + 1 + m1.length + 1 + n1.length)
      (p1.length + 1 + (m1 ++ ⟨e1.tid, .rrel l⟩ :: (n1 ++ ⟨e2.tid, .acq l⟩ :: n2)).length) :=
    hb_po (by simp; omega) a3 a4 rfl
  exact .trans b1 (.trans b2 b3)

/-! ### the lockset theorem -/

theorem isAccess_cases {x : Loc} {o : Op} (h : o.isAccess x = true) : o.isWrite x = true ∨ o = .rd x := by
  simp [Op.isAccess] at h; exact h

/-- what the discipline asks of one access event `e` at index `i`. -/
def HoldsFor (tr : Trace) (x : Loc) (l : LockId) (i : Nat) (e : Ev) : Prop :=
  (e.op.isWrite x = true → HoldsW l tr i e.tid) ∧
  (e.op = .rd x → HoldsW l tr i e.tid ∨ HoldsR l tr i e.tid)

/-- two conflicting accesses that both follow the discipline for guard `l` are ordered. -/
theorem lockset_pair (tr : Trace) (x : Loc) (l : LockId) (i j : Nat) (hc : Conflict tr x i j)
    (hgi : ∀ e, tr[i]? = some e → HoldsFor tr x l i e)
    (hgj : ∀ e, tr[j]? = some e → HoldsFor tr x l j e) : HB tr i j := by
  obtain ⟨hij, a, b, hi, hj, hne, haa, hab, hw, _⟩ := hc
  obtain ⟨p1, mid, p3, htr, hl1, hl2⟩ := split_two tr i j a b hij hi hj
  have ti : tr.take i = p1 := by rw [htr, ← hl1]; simp
  have tj : tr.take j = p1 ++ a :: mid := by
    have hl : (p1 ++ a :: mid).length = j := by simp; omega
    rw [htr, show p1 ++ a :: (mid ++ b :: p3) = (p1 ++ a :: mid) ++ b :: p3 by simp]
    exact List.take_left' hl
  -- what the second access holds
  have hb : ∃ s2, lockRun l LState.free (p1 ++ a :: mid) = some s2 ∧
      (s2.writer = some b.tid ∨ b.tid ∈ s2.readers) ∧ (b.op.isWrite x = true → s2.writer = some b.tid) := by
    have g := hgj b hj
    rcases isAccess_cases hab with hbw | hbr
    · obtain ⟨s2, h, hw2⟩ := g.1 hbw
      exact ⟨s2, tj ▸ h, .inl hw2, fun _ => hw2⟩
    · have hnw : ¬ (b.op.isWrite x = true) := by rw [hbr]; simp [Op.isWrite]
      rcases g.2 hbr with ⟨s2, h, hw2⟩ | ⟨s2, h, hr2⟩
      · exact ⟨s2, tj ▸ h, .inl hw2, fun _ => hw2⟩
      · exact ⟨s2, tj ▸ h, .inr hr2, fun hc => absurd hc hnw⟩
  obtain ⟨s2, hrun2, hh2, hbW⟩ := hb
  -- split the run at the first access
  rw [lockRun_append] at hrun2
  cases hr1 : lockRun l LState.free p1 with
  | none => simp [hr1] at hrun2
  | some s1 =>
    simp only [hr1, Option.bind_some, lockRun, lockStep_access haa] at hrun2
    have hi1 : LInv s1 := lockRun_inv l p1 _ s1 LInv_free hr1
    have ga := hgi a hi
    rw [htr, ← hl1, ← hl2]
    rcases isAccess_cases haa with haw | har
    · obtain ⟨s1', h, hw1⟩ := ga.1 haw
      rw [ti, hr1] at h; cases h
      exact ordered_W_any hi1 hw1 hrun2 hh2 hne
    · rcases ga.2 har with ⟨s1', h, hw1⟩ | ⟨s1', h, hr1'⟩
      · rw [ti, hr1] at h; cases h
        exact ordered_W_any hi1 hw1 hrun2 hh2 hne
      · rw [ti, hr1] at h; cases h
        have hbw : b.op.isWrite x = true := by
          rcases hw with h | h
          · rw [har] at h; simp [Op.isWrite] at h
          · exact h
        exact ordered_R_W hi1 hr1' hrun2 (hbW hbw)

theorem lockset_sound (tr : Trace) (x : Loc) (l : LockId) (hg : Guarded tr x l) : RaceFree tr x :=
  fun i j hc => lockset_pair tr x l i j hc (fun e he => hg i e he) (fun e he => hg j e he)

/-- constructor phase by the creating thread `t0` (before the publication event `p`), lock discipline
afterwards: every access of `x` is either made by `t0` before `p`, or follows the discipline for `l`
and — when made by another thread — is ordered after `p`. -/
theorem init_then_guarded_sound (tr : Trace) (x : Loc) (l : LockId) (t0 : Tid) (p : Nat)
    (hpub : ∃ e, tr[p]? = some e ∧ e.tid = t0)
    (hacc : ∀ i e, tr[i]? = some e → e.op.isAccess x = true →
      (e.tid = t0 ∧ i < p) ∨ (HoldsFor tr x l i e ∧ (e.tid ≠ t0 → HB tr p i))) :
    RaceFree tr x := by
  intro i j hc
  have hc' := hc
  obtain ⟨hij, a, b, hi, hj, hne, haa, hab, _, _⟩ := hc
  obtain ⟨ep, hep, hept⟩ := hpub
  rcases hacc i a hi haa with ⟨ha0, hip⟩ | ⟨hga, hfa⟩
  · rcases hacc j b hj hab with ⟨hb0, _⟩ | ⟨_, hfb⟩
    · exact absurd (ha0.trans hb0.symm) hne
    · have hb0 : b.tid ≠ t0 := fun h => hne (ha0.trans h.symm)
      exact .trans (hb_po hip hi hep (ha0.trans hept.symm)) (hfb hb0)
  · rcases hacc j b hj hab with ⟨hb0, hjp⟩ | ⟨hgb, _⟩
    · have ha0 : a.tid ≠ t0 := fun h => hne (h.trans hb0.symm)
      have := (hfa ha0).lt
      omega
    · refine lockset_pair tr x l i j hc' ?_ ?_
      · intro e he; rw [hi] at he; cases he; exact hga
      · intro e he; rw [hj] at he; cases he; exact hgb

/-! ### publication -/

theorem publish_sound (tr : Trace) (x : Loc) (t0 : Tid) (p : Nat) (hp : Published tr x t0 p)
    (hmode : NoAtomic tr x ∨ PlainOnlyInit tr x t0 p) : RaceFree tr x := by
  intro i j hc
  obtain ⟨hij, a, b, hi, hj, hne, haa, hab, hw, hpl⟩ := hc
  obtain ⟨ep, hep, hept⟩ := hp.pub
  -- classification of an access event made at index ≥ p by t0, or by a foreign thread
  have memi : a ∈ tr := List.mem_of_getElem? hi
  have memj : b ∈ tr := List.mem_of_getElem? hj
  -- a foreign event is never a plain write; in atomic mode never plain at all
  have key : ∀ k e, tr[k]? = some e → e.op.isAccess x = true → (e.tid ≠ t0 ∨ p ≤ k) →
      e.op ≠ .wr x ∧ (PlainOnlyInit tr x t0 p → e.op.isPlain x = false) := by
    intro k e hk _ hf
    constructor
    · intro hc
      have := hp.writes k e hk hc
      rcases hf with h | h
      · exact h this.1
      · omega
    · intro hpo
      cases hpl' : e.op.isPlain x with
      | false => rfl
      | true =>
        have := hpo k e hk hpl'
        rcases hf with h | h
        · exact absurd this.1 h
        · omega
  -- in "no atomics" mode an access that is not a plain write is a read, hence not a write
  have nowrite : ∀ e, e ∈ tr → e.op.isAccess x = true → e.op ≠ .wr x → NoAtomic tr x →
      e.op.isWrite x = false := by
    intro e he _ hnw hna
    have := hna e he
    cases ho : e.op <;> simp_all [Op.isWrite]
  have atomicOf : ∀ e : Ev, e.op.isAccess x = true → e.op.isPlain x = false → e.op.isWrite x = true := by
    intro e h1 h2
    cases ho : e.op <;> simp_all [Op.isAccess, Op.isWrite, Op.isPlain]
  by_cases ha0 : a.tid = t0
  · -- first access by the creator, second by a foreign thread
    have hb0 : b.tid ≠ t0 := fun h => hne (ha0.trans h.symm)
    have hpj : HB tr p j := hp.foreign j b hj hab hb0
    by_cases hip : i < p
    · exact .trans (hb_po hip hi hep (ha0.trans hept.symm)) hpj
    · exfalso
      have ka := key i a hi haa (.inr (by omega))
      have kb := key j b hj hab (.inl hb0)
      rcases hmode with hna | hpo
      · have := nowrite a memi haa ka.1 hna
        have := nowrite b memj hab kb.1 hna
        simp_all
      · have h1 := ka.2 hpo
        have h2 := kb.2 hpo
        simp_all
  · -- first access by a foreign thread: it is after p, so the second one is too
    have hpi : HB tr p i := hp.foreign i a hi haa ha0
    have hlt := hpi.lt
    exfalso
    have ka := key i a hi haa (.inl ha0)
    have kb := key j b hj hab (.inr (by omega))
    rcases hmode with hna | hpo
    · have := nowrite a memi haa ka.1 hna
      have := nowrite b memj hab kb.1 hna
      simp_all
    · have h1 := ka.2 hpo
      have h2 := kb.2 hpo
      simp_all

/-- with `ForkWf`, a thread started by `t0` at or after the publication point only runs after it. -/
theorem forked_after {tr : Trace} {t0 : Tid} {p q j : Nat} {ep eq ej : Ev}
    (hep : tr[p]? = some ep) (hept : ep.tid = t0) (hpq : p ≤ q)
    (heq : tr[q]? = some eq) (heqt : eq.tid = t0) (hfk : eq.op = .fork ej.tid)
    (hej : tr[j]? = some ej) (hfw : ForkWf tr) : HB tr p j := by
  have hqj : q < j := hfw q eq ej.tid heq hfk j ej hej rfl
  have e2 : HB tr q j := hb_sync hqj heq hej (by simp [syncs, hfk])
  by_cases h : p = q
  · subst h; exact e2
  · exact .trans (hb_po (by omega) hep heq (hept.trans heqt.symm)) e2

/-! ### the computable discipline check is sound -/

/-- `guardedb` decides `Guarded` (used to discharge the hypothesis on concrete traces). -/
theorem guardedFrom_sound (full : Trace) (x : Loc) (l : LockId) :
    ∀ (rest : Trace) (k : Nat), guardedFrom full x l k rest = true →
      ∀ i e, rest[i]? = some e →
        (e.op.isWrite x = true → HoldsW l full (k + i) e.tid) ∧
        (e.op = .rd x → HoldsW l full (k + i) e.tid ∨ HoldsR l full (k + i) e.tid)
  | [], _, _, i, e, he => by simp at he
  | a :: rest, k, h, i, e, he => by
    simp only [guardedFrom, Bool.and_eq_true, Bool.or_eq_true, Bool.not_eq_true'] at h
    obtain ⟨⟨h1, h2⟩, h3⟩ := h
    have hW : ∀ t, holdsWb l full k t = true → HoldsW l full k t := by
      intro t ht
      unfold holdsWb at ht
      split at ht
      · rename_i s hs; exact ⟨s, hs, by simpa using ht⟩
      · cases ht
    have hR : ∀ t, holdsRb l full k t = true → HoldsR l full k t := by
      intro t ht
      unfold holdsRb at ht
      split at ht
      · rename_i s hs; exact ⟨s, hs, by simpa using ht⟩
      · cases ht
    cases i with
    | zero =>
      simp at he; subst he
      refine ⟨fun hw => ?_, fun hr => ?_⟩
      · rcases h1 with h1 | h1
        · rw [hw] at h1; cases h1
        · exact hW _ h1
      · rcases h2 with (h2 | h2) | h2
        · simp [hr] at h2
        · exact .inl (hW _ h2)
        · exact .inr (hR _ h2)
    | succ i =>
      simp at he
      have := guardedFrom_sound full x l rest (k + 1) h3 i e he
      rw [show k + (i + 1) = k + 1 + i by omega]
      exact this

theorem guardedb_sound (tr : Trace) (x : Loc) (l : LockId) (h : guardedb tr x l = true) : Guarded tr x l := by
  intro i e he
  have := guardedFrom_sound tr x l tr 0 h i e he
  simpa using this


end Teleport.Conc
