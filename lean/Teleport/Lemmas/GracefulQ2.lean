/-
Lemmas/GracefulQ2 — the per-handler / per-call invariants behind "Close returns": a handler past
`h.enter` is a CALL handler (`hk`); a call that is written or bound passed the status test, a call not
yet written has no reply on its way (`copen`); every bound call has exactly one holder — the reader
with the frame in its hands or a reply handler that has not yet run `done()` (`bnd`).
-/
import Teleport.Lemmas.GracefulQ
namespace Teleport.Graceful

/-- the handler is a reply handler of call `j` that has not yet completed it. -/
def H.waits (j : Nat) (h : H) : Bool :=
  match h.pc, h.kind with
  | .counted, .reply k => k == j
  | _, _ => false

/-- the reader has the REPLY frame of call `j` in its hands. -/
def RPc.holds (j : Nat) : RPc → Bool
  | .got (some (.reply k)) => k == j
  | .add (.reply k) => k == j
  | _ => false

def C.isB (c : C) : Bool :=
  match c.pc with
  | .bound => true
  | _ => false

def boundAt (cs : List C) (j : Nat) : Bool :=
  match cs[j]? with
  | some c => c.isB
  | none => false

theorem boundAt_set_same {cs : List C} {i : Nat} {a b : C} (j : Nat) (hg : cs[i]? = some a) (hb : b.isB = a.isB) :
    boundAt (cs.set i b) j = boundAt cs j := by
  unfold boundAt
  by_cases hij : i = j
  · subst hij
    have hlt : i < cs.length := by
      rcases Nat.lt_or_ge i cs.length with h | h
      · exact h
      · rw [List.getElem?_eq_none h] at hg; cases hg
    rw [List.getElem?_set_self hlt, hg]; exact hb
  · rw [List.getElem?_set_ne hij]

theorem boundAt_snoc {cs : List C} {b : C} (j : Nat) (hb : b.isB = false) : boundAt (cs ++ [b]) j = boundAt cs j := by
  unfold boundAt
  rcases Nat.lt_trichotomy j cs.length with h | h | h
  · rw [List.getElem?_append_left h]
  · subst h; simp [hb]
  · rw [List.getElem?_eq_none (by simp; omega), List.getElem?_eq_none (by omega)]

theorem countP_set' {α} {p : α → Bool} {l : List α} {i : Nat} {a b : α} (hg : l[i]? = some a) :
    (l.set i b).countP p = l.countP p + (p b).toNat - (p a).toNat := by
  have := countP_set p l i a b hg
  cases hpa : p a <;> cases hpb : p b <;> simp [hpa, hpb] at this ⊢ <;> omega

theorem countP_ge {α} {p : α → Bool} {l : List α} {i : Nat} {a : α} (hg : l[i]? = some a) :
    (p a).toNat ≤ l.countP p := by
  cases hpa : p a
  · simp
  · have : 0 < l.countP p := List.countP_pos_iff.2 ⟨a, List.mem_of_getElem? hg, hpa⟩
    simpa using this

structure QC (s : St) : Prop where
  hk : ∀ h ∈ s.hs, (h.pc = .entered ∨ h.pc = .hdone → h.kind = .call)
  copen : ∀ c ∈ s.cs, (c.pc = .written ∨ c.pc = .bound → c.chk = true) ∧
    (c.pc = .seq ∨ c.pc = .issued ∨ c.pc = .wok ∨ c.pc = .wno → c.replied = false) ∧
    (c.pc = .done .reply ∨ c.pc = .done .cancelled ∨ c.pc = .done .wfail → c.chk = true)
  bnd : ∀ j, s.hs.countP (H.waits j) + (s.reader.holds j).toNat = (boundAt s.cs j).toNat

theorem step_qc_hk {s t : St} {e : Ev} (hI : QC s) (hs : step s e = some t) :
    ∀ h ∈ t.hs, (h.pc = .entered ∨ h.pc = .hdone → h.kind = .call) := by
  have hl := hI.hk
  c08_step_cases hs
  all_goals first
    | exact hl
    | (c08_fset hl; intro _ hp; simp_all; done)
    | (apply forall_snoc hl; cases ‹Frame› <;> simp [H.ofFrame])
    | (apply forall_snoc hl; simp)

theorem step_qc_copen {s t : St} {e : Ev} (hS : SInv s) (hI : QC s) (hs : step s e = some t) :
    ∀ c ∈ t.cs, (c.pc = .written ∨ c.pc = .bound → c.chk = true) ∧
    (c.pc = .seq ∨ c.pc = .issued ∨ c.pc = .wok ∨ c.pc = .wno → c.replied = false) ∧
    (c.pc = .done .reply ∨ c.pc = .done .cancelled ∨ c.pc = .done .wfail → c.chk = true) := by
  have hl := hI.copen
  have hf := hS.cflags
  c08_step_cases hs
  all_goals first
    | exact hl
    | (c08_fset hl; intro _ hp; simp_all; done)
    | (c08_fset hl; intro hm hp; have := hf _ hm; simp_all; done)
    | (apply forall_snoc hl; simp)

theorem boundAt_set_self {cs : List C} {i : Nat} {a : C} (b : C) (hg : cs[i]? = some a) :
    boundAt (cs.set i b) i = b.isB := by
  unfold boundAt
  have hlt : i < cs.length := by
    rcases Nat.lt_or_ge i cs.length with h | h
    · exact h
    · rw [List.getElem?_eq_none h] at hg; cases hg
  rw [List.getElem?_set_self hlt]

theorem boundAt_set_ne {cs : List C} {i j : Nat} (b : C) (hij : i ≠ j) : boundAt (cs.set i b) j = boundAt cs j := by
  unfold boundAt
  rw [List.getElem?_set_ne hij]

theorem boundAt_get {cs : List C} {j : Nat} {c : C} (hg : cs[j]? = some c) : boundAt cs j = c.isB := by
  unfold boundAt; rw [hg]

theorem boundAt_true {cs : List C} {j : Nat} (h : boundAt cs j = true) : ∃ c, cs[j]? = some c ∧ c.pc = .bound := by
  unfold boundAt at h
  split at h
  · rename_i c hc
    refine ⟨c, hc, ?_⟩
    unfold C.isB at h
    split at h
    · assumption
    · cases h
  · cases h

/-- a bound call is not left behind by a closed session: its caller passed the status test, so the
    closer's call wait has not returned. -/
theorem bound_rank {s : St} (hS : SInv s) (hI : QC s) {j : Nat} {c : C} (hg : s.cs[j]? = some c)
    (hb : c.pc = .bound ∨ c.pc = .written ∨ c.pc = .wok) : s.closer.rank < 4 := by
  have hm := List.mem_of_getElem? hg
  have hf := hS.cflags c hm
  have hc := hI.copen c hm
  have hchk : c.chk = true := by
    rcases hb with hb | hb | hb
    · exact hc.1 (Or.inr hb)
    · exact hc.1 (Or.inl hb)
    · exact hf.2.2.1 hb
  have hlate := hf.1 hchk
  by_cases h4 : 4 ≤ s.closer.rank
  · have := hS.wait_c h4 c hm hlate
    rcases hb with hb | hb | hb <;> simp [C.isOpen, hb] at this
  · omega

theorem waits_ofFrame (j : Nat) (f : Frame) (b : Bool) : H.waits j (H.ofFrame f b) = RPc.holds j (.add f) := by
  cases f <;> simp [H.waits, H.ofFrame, RPc.holds]

theorem holds_got_add (j : Nat) (f : Frame) : RPc.holds j (.got (some f)) = RPc.holds j (.add f) := by
  cases f <;> simp [RPc.holds]

theorem bnd_bind {hs : List H} {cs : List C} {j k : Nat} {c : C}
    (hl : hs.countP (H.waits j) + (RPc.holds j .blocked).toNat = (boundAt cs j).toNat)
    (hg : cs[k]? = some c) (hw : c.pc = .written) (b : C) (hb : b.pc = .bound) :
    hs.countP (H.waits j) + (RPc.holds j (.got (some (.reply k)))).toNat = (boundAt (cs.set k b) j).toNat := by
  by_cases hkj : k = j
  · subst hkj
    rw [boundAt_set_self b hg]
    rw [boundAt_get hg] at hl
    simp [RPc.holds, C.isB, hw, hb] at hl ⊢
    exact hl
  · rw [boundAt_set_ne b hkj]
    have hbe : (k == j) = false := by simpa using hkj
    simp [RPc.holds, hbe] at hl ⊢
    exact hl

theorem bnd_done {hs : List H} {cs : List C} {r : RPc} {i j k : Nat} {h : H} {c : C}
    (hl : hs.countP (H.waits j) + (RPc.holds j r).toNat = (boundAt cs j).toNat)
    (hh : hs[i]? = some h) (hp : h.pc = .counted) (hkd : h.kind = .reply k)
    (hg : cs[k]? = some c) (hw : c.pc = .bound) (h' : H) (hp' : h'.pc = .rdone) (b : C) (hb : b.pc = .done .reply) :
    hs.countP (H.waits j) + (H.waits j h').toNat - (H.waits j h).toNat + (RPc.holds j r).toNat =
      (boundAt (cs.set k b) j).toNat := by
  have hge := countP_ge (p := H.waits j) hh
  have h1 : H.waits j h' = false := by simp [H.waits, hp']
  have h2 : H.waits j h = (k == j) := by simp [H.waits, hp, hkd]
  rw [h1, h2]
  rw [h2] at hge
  by_cases hkj : k = j
  · subst hkj
    rw [boundAt_set_self b hg]
    rw [boundAt_get hg] at hl
    have e1 : c.isB = true := by simp [C.isB, hw]
    have e2 : b.isB = false := by simp [C.isB, hb]
    have e3 : (k == k) = true := by simp
    rw [e1] at hl
    rw [e3] at hge
    rw [e2, e3]
    simp only [Bool.toNat_true, Bool.toNat_false] at *
    omega
  · rw [boundAt_set_ne b hkj]
    have hbe : (k == j) = false := by simpa using hkj
    rw [hbe]
    simp only [Bool.toNat_false]
    omega

theorem bnd_drop {s : St} (hS : SInv s) (hQ : QS s) (hI : QC s) {j : Nat} {f : Frame}
    (hr : s.reader = .got (some f)) (hg : ¬ goon s.status = true) : RPc.holds j (.got (some f)) = false := by
  cases f with
  | call _ => rfl
  | orphan => rfl
  | reply k =>
    by_cases hkj : k = j
    · subst hkj
      exfalso
      have hl := hI.bnd k
      rw [hr] at hl
      have hb : boundAt s.cs k = true := by
        cases hbb : boundAt s.cs k with
        | true => rfl
        | false => rw [hbb] at hl; simp [RPc.holds] at hl
      obtain ⟨c, hc, hpc⟩ := boundAt_true hb
      have h4 := bound_rank hS hI hc (Or.inl hpc)
      have hrd := hQ.rd
      unfold rdOK at hrd
      rw [hr] at hrd
      have h0 := hQ.st0
      have h1 := hQ.st1
      have hr3 : s.closer.rank = 0 ∨ (1 ≤ s.closer.rank ∧ s.closer.rank ≤ 4) := by omega
      rcases hr3 with hr3 | ⟨hr3, hr4⟩
      · rcases h0 hr3 with h | h | h <;> simp_all [goon]
      · have := h1 hr3 hr4; simp_all [goon]
    · simp [RPc.holds, hkj]

theorem step_qc_bnd {s t : St} {e : Ev} (hS : SInv s) (hQ : QS s) (hI : QC s) (hs : step s e = some t) :
    ∀ j, t.hs.countP (H.waits j) + (t.reader.holds j).toNat = (boundAt t.cs j).toNat := by
  intro j
  have hl := hI.bnd j
  c08_step_cases hs
  all_goals (try (have hHg := countP_ge (p := H.waits j) ‹s.hs[_]? = some _›))
  all_goals (try (simp only [countP_set' ‹s.hs[_]? = some _›]))
  all_goals first
    | exact hl
    | (rw [boundAt_set_same j ‹s.cs[_]? = some _› (by simp_all [C.isB])]; simp_all [H.waits, RPc.holds]; done)
    | (rw [boundAt_set_same j ‹s.cs[_]? = some _› (by simp_all [C.isB])]; simp_all [H.waits, RPc.holds]; omega)
    | (simp_all [H.waits, RPc.holds]; done)
    | (simp_all [H.waits, RPc.holds]; omega)
    | (rw [boundAt_snoc j (by simp [C.isB])]; exact hl)
    | (rcases ‹_ ∨ _› with h | h | h | h <;> simp_all [H.waits] <;> omega)
    | (cases ‹Frame› <;> simp_all [H.waits, RPc.holds, H.ofFrame, List.countP_append, List.countP_cons]; done)
    | (cases ‹Frame› <;> simp_all [H.waits, RPc.holds, H.ofFrame, List.countP_append, List.countP_cons] <;> omega)
    | (rw [‹s.reader = _›] at hl; exact bnd_bind hl ‹s.cs[_]? = some _› ‹_› _ rfl)
    | (exact bnd_done hl ‹s.hs[_]? = some _› ‹_› ‹_› ‹s.cs[_]? = some _› ‹_› _ rfl _ rfl)
    | (rw [‹s.reader = _›, bnd_drop hS hQ hI ‹s.reader = _› ‹_›] at hl; simpa [RPc.holds] using hl)
    | (rw [‹s.reader = _›] at hl; simp only [List.countP_append, List.countP_cons, List.countP_nil, waits_ofFrame]
       have ht : RPc.holds j .top = false := rfl
       rw [ht]
       cases hh : RPc.holds j (RPc.add ‹Frame›) <;> rw [hh] at hl <;> simp [hh] at hl ⊢ <;> omega)

theorem qc_init : QC St.init := by
  constructor <;> simp [St.init, boundAt, RPc.holds]

theorem qc_step {s t : St} {e : Ev} (hS : SInv s) (hQ : QS s) (hI : QC s) (hs : step s e = some t) : QC t :=
  ⟨step_qc_hk hI hs, step_qc_copen hS hI hs, step_qc_bnd hS hQ hI hs⟩

end Teleport.Graceful
