/-
Lemmas/StatusHeap — invariant of the status heap: class-respecting operations whose mutating sites
have a safe receiver class never touch a sentinel cell; the failure rules read sentinel cells only.
-/
import Teleport.Model.StatusHeap
import Teleport.Lemmas.Status
namespace Teleport
namespace StatusHeap

theorem init_length : init.length = nSent := by decide

theorem init_tags : ∀ c ∈ init, c.tag = .sentinel := by decide

theorem sinv_init : SInv init := ⟨[], by simp, by simp⟩

theorem updAt_append_ge (f : Cell → Cell) : ∀ (l1 l2 : Heap) (a : Nat), l1.length ≤ a →
    updAt f a (l1 ++ l2) = l1 ++ updAt f (a - l1.length) l2 := by
  intro l1
  induction l1 with
  | nil => intro l2 a _; simp
  | cons c r ih =>
    intro l2 a ha
    cases a with
    | zero => simp at ha
    | succ n =>
      simp only [List.length_cons] at ha
      have : n + 1 - (r.length + 1) = n - r.length := by omega
      simp only [List.cons_append, updAt, List.length_cons, this]
      rw [ih l2 n (by omega)]

theorem updAt_tags (f : Cell → Cell) (hf : ∀ c, (f c).tag = c.tag) (P : Cls → Prop) :
    ∀ (l : Heap) (a : Nat), (∀ c ∈ l, P c.tag) → ∀ c ∈ updAt f a l, P c.tag := by
  intro l
  induction l with
  | nil => intro a _ c hc; simp [updAt] at hc
  | cons x r ih =>
    intro a hl c hc
    cases a with
    | zero =>
      simp only [updAt, List.mem_cons] at hc
      rcases hc with rfl | hc
      · rw [hf]; exact hl x (by simp)
      · exact hl c (by simp [hc])
    | succ n =>
      simp only [updAt, List.mem_cons] at hc
      rcases hc with rfl | hc
      · exact hl c (by simp)
      · exact ih n (fun d hd => hl d (by simp [hd])) c hc

theorem tagAt_init_prefix (post : Heap) (a : Nat) (ha : a < init.length) :
    tagAt (init ++ post) a = some .sentinel := by
  unfold tagAt
  rw [List.getElem?_append_left ha]
  rw [List.getElem?_eq_getElem ha]
  simp only [Option.map_some]
  exact congrArg some (init_tags _ (List.getElem_mem ha))

theorem valAt_init_prefix (post : Heap) (a : Nat) (ha : a < init.length) :
    valAt (init ++ post) a = valAt init a := by
  unfold valAt
  rw [List.getElem?_append_left ha]

theorem valAt_append_len (h : Heap) (c : Cell) : valAt (h ++ [c]) h.length = c.val := by
  unfold valAt
  simp

theorem sinv_snoc {h : Heap} (hi : SInv h) (c : Cell) (hc : c.tag ≠ .sentinel) : SInv (h ++ [c]) := by
  obtain ⟨post, rfl, hp⟩ := hi
  refine ⟨post ++ [c], by simp, ?_⟩
  intro d hd
  simp only [List.mem_append, List.mem_singleton] at hd
  rcases hd with hd | rfl
  · exact hp d hd
  · exact hc

/-- one class-respecting operation whose mutating site (if it is one) has a safe class keeps the
    invariant. -/
theorem step_inv {h : Heap} (hi : SInv h) (op : Op) (hr : op.respects h = true)
    (hs : op.siteIn [.fresh, .copy, .messageOwned, .callback] = true) : SInv (step h op) := by
  cases op with
  | returnSentinel a => exact hi
  | copyOf a c => exact sinv_snoc hi _ (by simp)
  | decodeFresh b => exact sinv_snoc hi _ (by simp)
  | sendOver a => exact sinv_snoc hi _ (by simp)
  | newStatus s => exact sinv_snoc hi _ (by simp)
  | newCallback s => exact sinv_snoc hi _ (by simp)
  | mutate site a m =>
    obtain ⟨post, rfl, hp⟩ := hi
    have hsafe : site.safe = true := by
      cases site <;> simp [Op.siteIn] at hs <;> rfl
    simp only [Op.respects, hsafe, if_true, Bool.and_eq_true, decide_eq_true_eq, beq_iff_eq] at hr
    obtain ⟨_, htag⟩ := hr
    have hge : init.length ≤ a := by
      apply Nat.le_of_not_lt
      intro hlt
      rw [tagAt_init_prefix post a hlt] at htag
      have : site = .sentinel := (Option.some.inj htag).symm
      subst this
      simp [Cls.safe] at hsafe
    refine ⟨updAt (fun c => { c with val := m.apply c.val }) (a - init.length) post, ?_, ?_⟩
    · simp only [step]
      exact updAt_append_ge _ init post a hge
    · exact updAt_tags (fun c => { c with val := m.apply c.val }) (fun _ => rfl) (· ≠ .sentinel) post _ hp

theorem run_inv : ∀ (ops : List Op) (h : Heap), SInv h → Respects h ops →
    (∀ op ∈ ops, op.siteIn [.fresh, .copy, .messageOwned, .callback] = true) → SInv (run h ops) := by
  intro ops
  induction ops with
  | nil => intro h hi _ _; exact hi
  | cons op r ih =>
    intro h hi hr hs
    obtain ⟨h1, h2⟩ := hr
    exact ih (step h op) (step_inv hi op h1 (hs op (by simp))) h2 (fun o ho => hs o (by simp [ho]))

theorem siteIn_mono (cs ds : List Cls) (h : (cs.all fun c => ds.contains c) = true) (op : Op)
    (ho : op.siteIn cs = true) : op.siteIn ds = true := by
  cases op with
  | mutate site a m =>
    simp only [Op.siteIn, List.contains_iff_mem] at ho ⊢
    have := List.all_eq_true.mp h site ho
    simpa using this
  | _ => rfl

theorem respectsB_iff : ∀ (ops : List Op) (h : Heap), respectsB h ops = true ↔ Respects h ops := by
  intro ops
  induction ops with
  | nil => intro h; simp [respectsB, Respects]
  | cons op r ih => intro h; simp [respectsB, Respects, ih]

theorem sentinels_of_inv {h : Heap} (hi : SInv h) : sentinels h = sentinels init := by
  obtain ⟨post, rfl, _⟩ := hi
  unfold sentinels
  rw [List.take_append_of_le_length (by rw [init_length]; exact Nat.le_refl _)]

theorem decodeVal_encode (s : Status) (h : Num.inInt32 s.code) : decodeVal s.encode = s := by
  unfold decodeVal
  rw [Status.decode_encode s h]
  rfl

/-- the failure rules allocate only; they keep the invariant. -/
theorem rule_inv {h : Heap} (hi : SInv h) (r : Rule) : SInv (r.exec h).1 := by
  cases r <;> simp only [Rule.exec, Rule.ops, runLast, step] <;>
    first
    | exact hi
    | exact sinv_snoc hi _ (by simp)
    | exact sinv_snoc (sinv_snoc hi _ (by simp)) _ (by simp)

/-- on a heap whose sentinel cells are the initial ones, every rule yields its table entry. -/
theorem rule_exec_table {h : Heap} (hi : SInv h) (r : Rule) : (r.exec h).2 = r.table := by
  obtain ⟨post, rfl, _⟩ := hi
  have v3 : valAt (init ++ post) aConnClosed = ⟨102, ascii "Connection Closed", some []⟩ := by
    rw [valAt_init_prefix post _ (by decide)]; decide
  have v6 : valAt (init ++ post) aNotFound = ⟨404, ascii "Not Found", some []⟩ := by
    rw [valAt_init_prefix post _ (by decide)]; decide
  have v5 : valAt (init ++ post) aBadMessage = ⟨400, ascii "Bad Message", some []⟩ := by
    rw [valAt_init_prefix post _ (by decide)]; decide
  have v9 : valAt (init ++ post) aISE = ⟨500, ascii "Internal Server Error", some []⟩ := by
    rw [valAt_init_prefix post _ (by decide)]; decide
  have v4 : valAt (init ++ post) aWriteFailed = ⟨104, ascii "Write Failed", some []⟩ := by
    rw [valAt_init_prefix post _ (by decide)]; decide
  have v2 : valAt (init ++ post) aDialFailed = ⟨105, ascii "Dial Failed", some []⟩ := by
    rw [valAt_init_prefix post _ (by decide)]; decide
  have v10 : valAt (init ++ post) aUnprepared = Rule.table .unprepared := by
    rw [valAt_init_prefix post _ (by decide)]; decide
  have v7 : valAt (init ++ post) aMtype = ⟨405, ascii "Message Type Not Allowed", some []⟩ := by
    rw [valAt_init_prefix post _ (by decide)]; decide
  cases r with
  | closedCall => simp [Rule.exec, Rule.ops, runLast, step, Op.result, Rule.table, v3]
  | cancelled reason =>
    simp only [Rule.exec, Rule.ops, runLast, step, Op.result, Option.getD_some, valAt_append_len, v3, copyVal,
      Rule.table]
  | unknownRoute =>
    simp only [Rule.exec, Rule.ops, runLast, step, Op.result, Option.getD_some, valAt_append_len, v6, Rule.table]
    exact decodeVal_encode _ (by decide)
  | emptyMethod =>
    simp only [Rule.exec, Rule.ops, runLast, step, Op.result, Option.getD_some, valAt_append_len, v5, copyVal,
      Rule.table]
    exact decodeVal_encode _ (by decide)
  | badBody e =>
    simp only [Rule.exec, Rule.ops, runLast, step, Op.result, Option.getD_some, valAt_append_len, v5, copyVal,
      Rule.table]
    exact decodeVal_encode _ (by show Num.inInt32 400; decide)
  | handlerPanic p =>
    simp only [Rule.exec, Rule.ops, runLast, step, Op.result, Option.getD_some, valAt_append_len, v9, copyVal,
      Rule.table]
    exact decodeVal_encode _ (by show Num.inInt32 500; decide)
  | writeFailed e =>
    simp only [Rule.exec, Rule.ops, runLast, step, Op.result, Option.getD_some, valAt_append_len, v4, copyVal,
      Rule.table]
  | dialFailed e =>
    simp only [Rule.exec, Rule.ops, runLast, step, Op.result, Option.getD_some, valAt_append_len, v2, copyVal,
      Rule.table]
  | unprepared => simp [Rule.exec, Rule.ops, runLast, step, Op.result, v10]
  | mtypeNotAllowed => simp [Rule.exec, Rule.ops, runLast, step, Op.result, Rule.table, v7]

end StatusHeap
end Teleport
