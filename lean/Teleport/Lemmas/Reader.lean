/-
Lemmas/Reader — `io.ReadFull` over a chunked reader depends on the concatenation of the chunks only
(`readFull_flatten`), and so does every stage of `unpackChunked` (Model/Reader) — used by Props/C05.
-/
import Teleport.Model.Reader
namespace Teleport
namespace Reader
open Bytes
set_option linter.unusedSimpArgs false

/-! ## read / readFull -/

/-- one `Read` delivers a prefix of what is left, at most `n` bytes, and loses nothing. -/
theorem read_spec (n : Nat) (r : Reader) :
    (read n r).1 ++ (read n r).2.flatten = r.flatten ∧ (read n r).1.length ≤ n := by
  cases r with
  | nil => simp [read]
  | cons c rest =>
    simp only [read]
    split
    · simp; assumption
    · simp [← List.append_assoc, List.length_take]; omega

/-- `readFull` is the loop of `io.ReadAtLeast` over `read`: one `Read`; if the buffer is full, stop with
    `err == nil`; else go on with what is missing on the reader that `Read` left. -/
theorem readFull_loop (n : Nat) (r : Reader) (hn : 0 < n) (hr : r ≠ []) :
    readFull n r =
      (if (read n r).1.length = n then ((read n r).1, true, (read n r).2)
       else ((read n r).1 ++ (readFull (n - (read n r).1.length) (read n r).2).1,
             (readFull (n - (read n r).1.length) (read n r).2).2.1,
             (readFull (n - (read n r).1.length) (read n r).2).2.2)) := by
  cases n with
  | zero => omega
  | succ k =>
    cases r with
    | nil => exact absurd rfl hr
    | cons c rest =>
      simp only [readFull]
      by_cases h : c.length < k + 1
      · have h1 : c.length ≤ k + 1 := by omega
        have h2 : c.length ≠ k + 1 := by omega
        simp [read, h, h1, h2]
      · simp only [h, if_false]
        by_cases h1 : c.length ≤ k + 1
        · have h2 : c.length = k + 1 := by omega
          simp [read, h1, h2]
        · have h2 : min (k + 1) c.length = k + 1 := by omega
          simp [read, h1, List.length_take, h2]

/-- what `readFull` returns depends on the concatenation of the chunks only. -/
theorem readFull_spec (n : Nat) (r : Reader) :
    (readFull n r).1 = r.flatten.take n ∧
    (readFull n r).2.1 = decide (n ≤ r.flatten.length) ∧
    (n ≤ r.flatten.length → (readFull n r).2.2.flatten = r.flatten.drop n) := by
  induction r generalizing n with
  | nil => cases n <;> simp [readFull]
  | cons c rest ih =>
    cases n with
    | zero => simp [readFull]
    | succ k =>
      simp only [readFull]
      by_cases h : c.length < k + 1
      · obtain ⟨i1, i2, i3⟩ := ih (k + 1 - c.length)
        have ht : c.take (k + 1) = c := List.take_of_length_le (by omega)
        have hd : c.drop (k + 1) = [] := List.drop_of_length_le (by omega)
        simp only [h, if_true, List.flatten_cons, List.take_append, List.drop_append, ht, hd, i1, i2,
          List.length_append, List.nil_append]
        refine ⟨trivial, ?_, ?_⟩
        · apply decide_eq_decide.mpr; omega
        · intro hle; exact i3 (by omega)
      · simp only [h, if_false, List.flatten_cons, List.take_append, List.drop_append, List.length_append]
        by_cases h1 : c.length ≤ k + 1
        · have h2 : c.length = k + 1 := by omega
          have ht : c.take (k + 1) = c := List.take_of_length_le (by omega)
          have hd : c.drop (k + 1) = [] := List.drop_of_length_le (by omega)
          simp [read, h1, h2, ht, hd]
        · have h3 : k + 1 - c.length = 0 := by omega
          simp [read, h1, h3]
          omega

/-- **`io.ReadFull` sees the concatenation only.** For EVERY chunking `r` (any number of chunks, any
    sizes, empty chunks included): `readFull n r` returns the first `n` bytes of the concatenation (all of
    it if there are fewer), reports success iff there are at least `n`, and then leaves a reader whose
    concatenation is the rest. -/
theorem readFull_flatten (n : Nat) (r : Reader) :
    ∃ r' : Reader, readFull n r = (r.flatten.take n, decide (n ≤ r.flatten.length), r') ∧
      (n ≤ r.flatten.length → r'.flatten = r.flatten.drop n) := by
  obtain ⟨h1, h2, h3⟩ := readFull_spec n r
  refine ⟨(readFull n r).2.2, ?_, h3⟩
  rw [← h1, ← h2]

/-! ## the stages of `unpackChunked` -/

theorem tailC_flat (reg : Registry) (size last alloc xferLen inpLen : Nat) (pipe : List UInt8) (r3 : Reader)
    (hlen : inpLen = 5 + xferLen + r3.flatten.length) :
    (unpackTailC reg size last alloc xferLen pipe r3).flat =
      Raw.unpackTail reg size last alloc xferLen inpLen pipe r3.flatten := by
  unfold unpackTailC Raw.unpackTail
  simp only []
  obtain ⟨r', hrf, hfl⟩ := readFull_flatten (last - (1 + xferLen)) r3
  simp only [hrf]
  by_cases hn : last - (1 + xferLen) ≤ r3.flatten.length
  · have hfl' := hfl hn
    simp only [hn, decide_true, Raw.take?, if_true]
    cases hu : Xfer.onUnpack reg pipe (List.take (last - (1 + xferLen)) r3.flatten) with
    | none => simp [CRead.flat, COut.flat]
    | some data =>
      simp only []
      cases hp : Raw.parseData size pipe data with
      | error e => simp [CRead.flat, COut.flat]
      | ok m => simp [CRead.flat, COut.flat, hfl']
  · have hlt : r3.flatten.length ≤ last - (1 + xferLen) := by omega
    have hd : decide (last - (1 + xferLen) ≤ r3.flatten.length) = false := decide_eq_false hn
    simp only [hd]
    simp only [Raw.take?, hn, ↓reduceIte, CRead.flat, COut.flat, List.length_take, Nat.min_eq_right hlt, hlen]

theorem xferC_flat (reg : Registry) (size last alloc inpLen : Nat) (r1 : Reader)
    (hlen : inpLen = 4 + r1.flatten.length) :
    (unpackXferC reg size last alloc r1).flat =
      Raw.unpackXfer reg size last alloc inpLen r1.flatten := by
  unfold unpackXferC
  obtain ⟨r2, hrf, hfl⟩ := readFull_flatten 1 r1
  simp only [hrf]
  cases hf : r1.flatten with
  | nil => simp [Raw.unpackXfer, CRead.flat, COut.flat]
  | cons xl f2 =>
    have hfl' : r2.flatten = f2 := by
      have := hfl (by rw [hf]; simp)
      rw [this, hf]; rfl
    simp only [List.length_cons, Nat.le_add_left, decide_true, List.take_succ_cons, List.take_zero,
      Raw.unpackXfer]
    by_cases h1 : last - 1 < xl.toNat
    · simp [h1, CRead.flat, COut.flat]
    · simp only [h1, if_false, Bool.true_eq_false]
      obtain ⟨r3, hrf3, hfl3⟩ := readFull_flatten xl.toNat r2
      simp only [hrf3, hfl']
      by_cases hn : xl.toNat ≤ f2.length
      · have hfl3' : r3.flatten = f2.drop xl.toNat := by rw [hfl3 (by rw [hfl']; exact hn), hfl']
        simp only [hn, decide_true, Raw.take?, if_true, Bool.true_eq_false, if_false]
        cases ha : Xfer.append reg [] (List.take xl.toNat f2) with
        | none => simp [CRead.flat, COut.flat]
        | some pipe =>
          simp only []
          rw [← hfl3']
          apply tailC_flat
          rw [hlen, hf, hfl3']
          simp [List.length_drop]; omega
      · have hlt : f2.length ≤ xl.toNat := by omega
        have hd : decide (xl.toNat ≤ f2.length) = false := decide_eq_false hn
        simp only [hd]
        simp only [Raw.take?, hn, ↓reduceIte, CRead.flat, COut.flat, List.length_take, Nat.min_eq_right hlt, hlen,
          List.length_cons]
        have hl : r1.flatten.length = f2.length + 1 := by rw [hf]; rfl
        congr 1
        omega

theorem unpack_short (reg : Registry) (limit : Nat) (f : Bytes) (h : f.length < 4) :
    Raw.unpack reg limit f = ⟨.eof, f.length, 4, 4⟩ := by
  cases f with
  | nil => simp [Raw.unpack]
  | cons a f => cases f with
    | nil => simp [Raw.unpack]
    | cons b f => cases f with
      | nil => simp [Raw.unpack]
      | cons c f => cases f with
        | nil => simp [Raw.unpack]
        | cons d f => simp at h; omega

theorem unpackChunked_long (reg : Registry) (limit : Nat) (r r1 : Reader) (a b c d : UInt8) (f1 : Bytes)
    (hrf : readFull 4 r = ([a, b, c, d], true, r1)) (hfl : r1.flatten = f1) :
    (unpackChunked reg limit r).flat = Raw.unpack reg limit (a :: b :: c :: d :: f1) := by
  unfold unpackChunked
  simp only [hrf]
  simp only [Bool.true_eq_false, ↓reduceIte]
  unfold Raw.unpack
  simp only []
  generalize rdBe32 a b c d = size
  by_cases h1 : size > limit
  · rw [if_pos h1, if_pos h1]; rfl
  rw [if_neg h1, if_neg h1]
  by_cases h2 : size < 4
  · rw [if_pos h2, if_pos h2]; rfl
  rw [if_neg h2, if_neg h2]
  by_cases h3 : size - 4 < 1
  · rw [if_pos h3, if_pos h3]; rfl
  rw [if_neg h3, if_neg h3]
  rw [← hfl]
  apply xferC_flat
  simp only [List.length_cons, hfl]
  omega
/-- `rawProto.Unpack` over ANY chunking = `Raw.unpack` on the concatenation: same outcome (same message,
    the rest being the concatenation of what is left; same error class), same number of bytes consumed,
    same largest buffer request, same largest read request. -/
theorem unpackChunked_flat (reg : Registry) (limit : Nat) (r : Reader) :
    (unpackChunked reg limit r).flat = Raw.unpack reg limit r.flatten := by
  obtain ⟨r1, hrf, hfl⟩ := readFull_flatten 4 r
  by_cases hn : 4 ≤ r.flatten.length
  · have hfl' := hfl hn
    cases hf : r.flatten with
    | nil => rw [hf] at hn; simp at hn
    | cons a f => cases f with
      | nil => rw [hf] at hn; simp at hn
      | cons b f => cases f with
        | nil => rw [hf] at hn; simp at hn
        | cons c f => cases f with
          | nil => rw [hf] at hn; simp at hn
          | cons d f1 =>
            rw [hf] at hrf hfl'
            exact unpackChunked_long reg limit r r1 a b c d f1 (by rw [hrf]; simp) (by rw [hfl']; rfl)
  · have hlt : r.flatten.length ≤ 4 := by omega
    have hd : decide (4 ≤ r.flatten.length) = false := decide_eq_false hn
    rw [unpack_short reg limit r.flatten (by omega)]
    unfold unpackChunked
    simp only [hrf, hd, ↓reduceIte, CRead.flat, COut.flat, List.length_take, Nat.min_eq_right hlt]

/-- any number of back-to-back frames over ANY chunking = `Raw.unpackN` on the concatenation. -/
theorem unpackNChunked_flat (reg : Registry) (limit : Nat) (n : Nat) (r : Reader) :
    (unpackNChunked reg limit n r).map (fun p => (p.1, p.2.flatten)) =
      Raw.unpackN reg limit n r.flatten := by
  induction n generalizing r with
  | zero => simp [unpackNChunked, Raw.unpackN]
  | succ k ih =>
    have h := unpackChunked_flat reg limit r
    have ho : (unpackChunked reg limit r).out.flat = (Raw.unpack reg limit r.flatten).out := by
      rw [← h]; rfl
    simp only [unpackNChunked, Raw.unpackN, ← ho]
    cases hc : (unpackChunked reg limit r).out with
    | ok m rest =>
      simp only [COut.flat]
      rw [← ih rest]
      cases unpackNChunked reg limit k rest <;> simp
    | eof => simp [COut.flat]
    | size => simp [COut.flat]
    | reject w => simp [COut.flat]

/-- every list of cut positions gives a chunking of the same bytes. -/
theorem chunk_flatten (ks : List Nat) (b : Bytes) : (chunk ks b).flatten = b := by
  induction ks generalizing b with
  | nil => simp [chunk]
  | cons k ks ih => simp [chunk, ih]

end Reader
end Teleport
