/-
Lemmas/Dispatch — facts about the phases of Model/Dispatch used by Props/C03 and Props/C04.
-/
import Teleport.Model.Dispatch
import Teleport.Lemmas.Status
namespace Teleport
namespace Dispatch

/-- what every phase of `handleCall` guarantees about its outcome. -/
structure CallShape (f : Frame) (o : Outcome) : Prop where
  handled : o.handled = 1
  inv : o.invocations ≤ 1
  len : o.replies.length ≤ 1
  seq : ∀ r ∈ o.replies, r.seq = f.seq
  noLeft : o.leftLoop = false
  noClose : o.closeRequested = false
  wne : o.writes ≠ []
  /-- no reply and still connected happens exactly when every attempted write failed quietly -/
  drop : o.dropped = true ↔ ∀ w ∈ o.writes, w.quiet = true
  /-- a reply went out exactly when some attempted write was `sent` -/
  sent : o.replies ≠ [] ↔ WR.sent ∈ o.writes

theorem mkReply_seq (f : Frame) (st : Status) (rc : UInt8) : (mkReply f st rc).seq = f.seq := by
  unfold mkReply; split <;> rfl

theorem replyPhase_shape (f : Frame) (st : Status) (rc : UInt8) (inv : Nat) (hinv : inv ≤ 1) (w1 w2 : WR) :
    CallShape f (replyPhase f st rc inv w1 w2) := by
  cases w1 with
  | sent =>
    refine ⟨rfl, hinv, by simp [replyPhase], ?_, rfl, rfl, by simp [replyPhase], ?_, ?_⟩
    · intro r hr; simp [replyPhase] at hr; subst hr; exact mkReply_seq _ _ _
    · simp [replyPhase, Outcome.dropped, WR.quiet]
    · simp [replyPhase]
  | connClosed =>
    refine ⟨rfl, hinv, by simp [replyPhase], ?_, rfl, rfl, by simp [replyPhase], ?_, ?_⟩
    · intro r hr; simp [replyPhase] at hr
    · simp [replyPhase, Outcome.dropped, Outcome.disconnected, WR.quiet]
    · simp [replyPhase]
  | failed e b =>
    cases w2 with
    | sent =>
      refine ⟨rfl, hinv, by simp [replyPhase], ?_, rfl, rfl, by simp [replyPhase], ?_, ?_⟩
      · intro r hr; simp [replyPhase] at hr; subst hr; exact mkReply_seq _ _ _
      · simp [replyPhase, Outcome.dropped, WR.quiet]
      · simp [replyPhase]
    | connClosed =>
      refine ⟨rfl, hinv, by simp [replyPhase], ?_, rfl, rfl, by simp [replyPhase], ?_, ?_⟩
      · intro r hr; simp [replyPhase] at hr
      · simp [replyPhase, Outcome.dropped, Outcome.disconnected, WR.quiet, lost]
      · simp [replyPhase]
    | failed e2 b2 =>
      refine ⟨rfl, hinv, by simp [replyPhase], ?_, rfl, rfl, by simp [replyPhase], ?_, ?_⟩
      · intro r hr; simp [replyPhase] at hr
      · cases b <;> cases b2 <;> simp [replyPhase, Outcome.dropped, Outcome.disconnected, WR.quiet, lost]
      · simp [replyPhase]

theorem panicPhase_shape (f : Frame) (st : Status) (p : Bytes) (w1 : WR) :
    CallShape f (panicPhase f st p w1) := by
  cases w1 with
  | sent =>
    refine ⟨rfl, by simp [panicPhase], by simp [panicPhase], ?_, rfl, rfl, by simp [panicPhase], ?_, ?_⟩
    · intro r hr; simp [panicPhase] at hr; subst hr; exact mkReply_seq _ _ _
    · simp [panicPhase, Outcome.dropped, WR.quiet]
    · simp [panicPhase]
  | connClosed =>
    refine ⟨rfl, by simp [panicPhase], by simp [panicPhase], ?_, rfl, rfl, by simp [panicPhase], ?_, ?_⟩
    · intro r hr; simp [panicPhase] at hr
    · simp [panicPhase, Outcome.dropped, Outcome.disconnected, WR.quiet, lost]
    · simp [panicPhase]
  | failed e b =>
    refine ⟨rfl, by simp [panicPhase], by simp [panicPhase], ?_, rfl, rfl, by simp [panicPhase], ?_, ?_⟩
    · intro r hr; simp [panicPhase] at hr
    · cases b <;> simp [panicPhase, Outcome.dropped, Outcome.disconnected, WR.quiet, lost]
    · simp [panicPhase]

theorem handleCall_shape (cfg : Cfg) (f : Frame) (stat : Status) (hb : HB) (pv : PV) (w1 w2 : WR) :
    CallShape f (handleCall cfg f stat hb pv w1 w2) := by
  unfold handleCall
  split
  · split
    · exact replyPhase_shape _ _ _ _ (by omega) _ _
    · cases hb with
      | ret st r s =>
        simp only
        split
        · exact replyPhase_shape _ _ _ _ (by omega) _ _
        · exact replyPhase_shape _ _ _ _ (by omega) _ _
      | panic p s => exact panicPhase_shape _ _ _ _
  · exact replyPhase_shape _ _ _ _ (by omega) _ _

theorem handlePush_facts (b : Bound) (stat : Status) (pv : PV) :
    (handlePush b stat pv).handled = 1 ∧ (handlePush b stat pv).invocations ≤ 1 ∧
    (handlePush b stat pv).replies = [] ∧ (handlePush b stat pv).writes = [] ∧
    (handlePush b stat pv).leftLoop = false := by
  unfold handlePush
  split
  · split <;> simp
  · simp

/-- the ways one loop iteration can end. -/
inductive FrameCase (cfg : Cfg) (env : Env) (f : Frame) (hb : HB) (pv : PV) (wr : WR × WR) : Outcome → Prop
  | left (st : Status) : FrameCase cfg env f hb pv wr { leftLoop := true, stat := st }
  | refused (st : Status) (h : env.spawn = false) : FrameCase cfg env f hb pv wr { stat := st }
  | handled (h : env.spawn = true) :
      FrameCase cfg env f hb pv wr (handle cfg f (binding cfg f pv) (statAfterRead cfg env f pv) hb pv wr.1 wr.2)

theorem handleFrame_cases (cfg : Cfg) (env : Env) (f : Frame) (hb : HB) (pv : PV) (wr : WR × WR) :
    FrameCase cfg env f hb pv wr (handleFrame cfg env f hb pv wr) := by
  unfold handleFrame
  split
  · exact .left _
  · split
    · exact .left _
    · split
      · rename_i h; exact .refused _ (by simpa using h)
      · rename_i h; exact .handled (by simpa using h)

/-- the ways `handle` can go. -/
inductive HandleCase (cfg : Cfg) (f : Frame) (b : Bound) (stat : Status) (hb : HB) (pv : PV) (w1 w2 : WR) :
    Outcome → Prop
  | close : HandleCase cfg f b stat hb pv w1 w2 { handled := 1, closeRequested := true, stat := stat }
  | reply (h : f.mtype = tReply) : HandleCase cfg f b stat hb pv w1 w2 { handled := 1, stat := stat }
  | push (h : f.mtype = tPush) : HandleCase cfg f b stat hb pv w1 w2 (handlePush b stat pv)
  | call (h : f.mtype = tCall) (h405 : (stat.code == 405) = false) :
      HandleCase cfg f b stat hb pv w1 w2 (handleCall cfg f stat hb pv w1 w2)

theorem handle_cases (cfg : Cfg) (f : Frame) (b : Bound) (stat : Status) (hb : HB) (pv : PV) (w1 w2 : WR) :
    HandleCase cfg f b stat hb pv w1 w2 (handle cfg f b stat hb pv w1 w2) := by
  unfold handle
  split
  · exact .close
  · split
    · rename_i h; exact .reply (by simpa using h)
    · split
      · rename_i h; exact .push (by simpa using h)
      · split
        · rename_i h0 _ _ h; exact .call (by simpa using h) (by simpa using h0)
        · exact .close

/-- an unsupported type always takes the `close` branch. -/
theorem handle_other (cfg : Cfg) (f : Frame) (b : Bound) (stat : Status) (hb : HB) (pv : PV) (w1 w2 : WR)
    (h1 : f.mtype ≠ tCall) (h2 : f.mtype ≠ tReply) (h3 : f.mtype ≠ tPush) :
    handle cfg f b stat hb pv w1 w2 = { handled := 1, closeRequested := true, stat := stat } := by
  have e1 : (f.mtype == tCall) = false := by simpa using h1
  have e2 : (f.mtype == tReply) = false := by simpa using h2
  have e3 : (f.mtype == tPush) = false := by simpa using h3
  unfold handle
  simp [e1, e2, e3]

/-! ### scenario-level helpers for Props/C04 -/

/-- the caller's side adds nothing of its own: no plugin veto, session open, request written. -/
structure QuietClient (c : Client) : Prop where
  w : veto? c.preWriteCall = none
  open_ : c.closed = false
  wrote : c.writeFail = none
  h : veto? c.postReadReplyHeader = none
  b : veto? c.preReadReplyBody = none
  p : veto? c.postReadReplyBody = none

/-- the server's environment adds nothing of its own: the frame is a CALL that is read and handed to
    a goroutine, and the reply writes reach the wire. -/
structure QuietServer (sc : Scenario) : Prop where
  call : sc.frame.mtype = tCall
  read : sc.pv.preReadHeader = false
  goon : sc.env.goon = true
  spawn : sc.env.spawn = true
  w1 : sc.wr.1 = .sent
  noAge : sc.cfg.age = false

/-- a CALL whose status after reading is a failure other than 405 is answered with exactly that
    status, an empty body and codec 0, and no handler runs. -/
theorem error_reply (sc : Scenario) (hs : QuietServer sc) (st : Status)
    (hl : leaves sc.cfg sc.env sc.frame sc.pv = false)
    (hst : statAfterRead sc.cfg sc.env sc.frame sc.pv = st) (hok : st.ok = false) (h405 : (st.code == 405) = false) :
    sc.outcome.replies = [⟨sc.frame.seq, st, 0, false⟩] ∧ sc.outcome.invocations = 0 := by
  have e1 : (sc.frame.mtype == tReply) = false := by rw [hs.call]; decide
  have e2 : (sc.frame.mtype == tPush) = false := by rw [hs.call]; decide
  have e3 : (sc.frame.mtype == tCall) = true := by rw [hs.call]; decide
  unfold Scenario.outcome handleFrame
  simp only [hs.read, hl, hs.spawn, hst, Bool.false_eq_true, if_false, Bool.not_true]
  unfold handle
  simp only [h405, e1, e2, e3, Bool.false_eq_true, if_false, if_true]
  unfold handleCall
  simp [hok, hs.w1, replyPhase, mkReply]

/-- the handler is reached: a registered route, nothing vetoed, the body (if any) decoded. -/
structure Reached (sc : Scenario) : Prop where
  hv : veto? sc.pv.postReadHeader = none
  hv2 : veto? sc.pv.preReadBody = none
  hv3 : veto? sc.pv.postReadBody = none
  hm : sc.frame.method.isEmpty = false
  route : ∃ raw, lookup sc.cfg.calls sc.cfg.rawCalls sc.cfg.unknownCall sc.frame.method = .exact raw ∨
    (raw = true ∧ lookup sc.cfg.calls sc.cfg.rawCalls sc.cfg.unknownCall sc.frame.method = .unknown)
  noErr : ∀ obj, readErr sc.cfg.codecs sc.env.dec sc.frame.codec sc.frame.bodyEmpty obj = none

theorem reached_handleCall (sc : Scenario) (hs : QuietServer sc) (hr : Reached sc) :
    sc.outcome = handleCall sc.cfg sc.frame Status.zero sc.hb sc.pv sc.wr.1 sc.wr.2 := by
  have e1 : (sc.frame.mtype == tReply) = false := by rw [hs.call]; decide
  have e2 : (sc.frame.mtype == tPush) = false := by rw [hs.call]; decide
  have e3 : (sc.frame.mtype == tCall) = true := by rw [hs.call]; decide
  have hst : (binding sc.cfg sc.frame sc.pv).stat = Status.zero := by
    obtain ⟨raw, h | ⟨_, h⟩⟩ := hr.route
    · simp [binding, e1, e2, e3, bindRoute, hr.hv, hr.hv2, hr.hm, h]
    · simp [binding, e1, e2, e3, bindRoute, hr.hv, hr.hv2, hr.hm, h]
  unfold Scenario.outcome handleFrame
  have hl : leaves sc.cfg sc.env sc.frame sc.pv = false := by
    simp [leaves, frameErr, hr.noErr, hs.goon]
  have hsr : statAfterRead sc.cfg sc.env sc.frame sc.pv = Status.zero := by
    simp [statAfterRead, frameErr, hr.noErr, hst]
  simp only [hs.read, hl, hs.spawn, hsr, Bool.false_eq_true, if_false, Bool.not_true]
  unfold handle
  have : (Status.zero.code == 405) = false := by decide
  simp only [this, e1, e2, e3, Bool.false_eq_true, if_false, if_true]

theorem vetoNotOk (o : Option Status) (v : Status) (hv : veto? o = some v) : v.ok = false := by
  unfold veto? at hv
  cases h : o with
  | none => simp [h] at hv
  | some s =>
    simp only [h, Option.bind_some] at hv
    split at hv
    · simp at hv
    · rename_i hn; simp only [Option.some.injEq] at hv; subst hv; simpa using hn

/-- an OK reply can only come from a handler that ran (once) to completion and returned OK. -/
theorem ok_reply_from_handler (cfg : Cfg) (f : Frame) (stat : Status) (hb : HB) (pv : PV) (w1 w2 : WR)
    (r : Reply) (hr : r ∈ (handleCall cfg f stat hb pv w1 w2).replies) (hok : r.status.ok = true) :
    (handleCall cfg f stat hb pv w1 w2).invocations = 1 ∧ ∃ st rt s, hb = .ret st rt s ∧ st.ok = true := by
  have key : ∀ (st : Status) (rc : UInt8) (inv : Nat) (a b : WR), st.ok = false →
      ∀ r ∈ (replyPhase f st rc inv a b).replies, r.status.ok = false := by
    intro st rc inv a b hst r hr
    cases a with
    | sent => simp [replyPhase, mkReply, hst] at hr; subst hr; exact hst
    | connClosed => simp [replyPhase] at hr
    | failed e bb =>
      cases b with
      | sent => simp [replyPhase, mkReply, stInternal, copyOf, Status.ok] at hr; subst hr; simp [Status.ok]
      | connClosed => simp [replyPhase] at hr
      | failed _ _ => simp [replyPhase] at hr
  have inv : ∀ (st : Status) (rc : UInt8) (n : Nat) (a b : WR), (replyPhase f st rc n a b).invocations = n := by
    intro st rc n a b
    cases a with
    | sent => rfl
    | connClosed => rfl
    | failed e bb => cases b <;> rfl
  cases hstat : stat.ok with
  | false =>
    have h1 : handleCall cfg f stat hb pv w1 w2 = replyPhase f stat 0 0 w1 w2 := by
      unfold handleCall; simp [hstat]
    rw [h1] at hr
    have := key stat 0 0 w1 w2 hstat r hr
    simp [this] at hok
  | true =>
    cases hv : veto? pv.postReadBody with
    | some v =>
      have h1 : handleCall cfg f stat hb pv w1 w2 = replyPhase f v 0 0 w1 w2 := by
        unfold handleCall; simp [hstat, hv]
      rw [h1] at hr
      have := key v 0 0 w1 w2 (vetoNotOk _ v hv) r hr
      simp [this] at hok
    | none =>
      cases hb with
      | ret st rt s =>
        cases hst : st.ok with
        | true =>
          have h1 : handleCall cfg f stat (.ret st rt s) pv w1 w2 =
              replyPhase f stat (replyCodec cfg f rt.setCodec) 1
                (effW (cfg.age && s) (marshalErr cfg (replyCodec cfg f rt.setCodec) rt) w1)
                (effW (cfg.age && s) none w2) := by
            unfold handleCall; simp [hstat, hv, hst, HB.slow]
          rw [h1]
          exact ⟨inv _ _ _ _ _, st, rt, s, rfl, hst⟩
        | false =>
          have h1 : handleCall cfg f stat (.ret st rt s) pv w1 w2 =
              replyPhase f st 0 1 (effW (cfg.age && s) none w1) (effW (cfg.age && s) none w2) := by
            unfold handleCall; simp [hstat, hv, hst, HB.slow]
          rw [h1] at hr
          have := key st 0 1 _ _ hst r hr
          simp [this] at hok
      | panic p s =>
        have h1 : handleCall cfg f stat (.panic p s) pv w1 w2 = panicPhase f stat p (effW (cfg.age && s) none w1) := by
          unfold handleCall; simp [hstat, hv, HB.slow]
        rw [h1] at hr
        exfalso
        cases hw : effW (cfg.age && s) none w1 with
        | sent =>
          have hc0 : stat.code = 0 := by simpa [Status.ok] using hstat
          simp [panicPhase, hw, mkReply, stInternal, copyOf, Status.ok, hc0] at hr
          subst hr; simp [Status.ok] at hok
        | connClosed => simp [panicPhase, hw] at hr
        | failed _ _ => simp [panicPhase, hw] at hr

/-- with a quiet caller, the caller's observation is `clientReply` of the transported reply. -/
theorem callerObs_reply (sc : Scenario) (hc : QuietClient sc.cli) (r : Reply) (st' : Status)
    (hrep : sc.outcome.replies = [r]) (ht : transport sc.proto r.status = some st') :
    callerObs sc = clientReply sc.cli st' r.codec r.hasBody := by
  unfold callerObs; rw [hc.w]; simp [hc.open_, hc.wrote, hrep, ht]

end Dispatch
end Teleport
