/-
Lemmas/Pool — simulation lemmas for the pooled objects of Model/Pool: every operation's visible
result depends on the visible part of the object only; the stale part is never read before it is
overwritten (`ParseBytes` included: its decoder has no panic point, so it always finishes the slot).
-/
import Teleport.Model.Pool
namespace Teleport
namespace Pool
open Bytes

/-! ### the scanner overwrites the slot it is given -/

theorem scanNext_rest (old old' : KV) (b : Bytes) : (scanNext old b).rest = (scanNext old' b).rest := rfl

/-- `argsScanner.next` writes both the key and the value of `*kv` (it always returns: the decoder
    has no panic point): the slot's previous content does not matter. -/
theorem scanNext_kv (old old' : KV) (b : Bytes) : (scanNext old b).kv = (scanNext old' b).kv := rfl

/-! ### ParseBytes -/

theorem parseLoop_indep (fuel : Nat) : ∀ (kept : List KV) (cur cur' : KV) (stale stale' : List KV) (b : Bytes),
    (PArgs.parseLoop fuel kept cur stale b).1 = (PArgs.parseLoop fuel kept cur' stale' b).1 := by
  induction fuel with
  | zero => intros; simp [PArgs.parseLoop]
  | succ n ih =>
    intro kept cur cur' stale stale' b
    simp only [PArgs.parseLoop]
    by_cases hb : b.isEmpty
    · simp [hb]
    · simp only [hb]
      have hr := scanNext_rest cur cur' b
      have hk := scanNext_kv cur cur' b
      simp only [Bool.false_eq_true, ↓reduceIte]
      rw [← hk, ← hr]
      by_cases hne : PArgs.nonEmptyKV (scanNext cur b).kv = true
      · simp only [hne, ↓reduceIte]
        exact ih _ _ _ _ _ _
      · simp only [hne, Bool.false_eq_true, ↓reduceIte]
        exact ih _ _ _ _ _ _

/-- `ParseBytes(b)` leaves exactly the pairs decoded from `b`, whatever the object held before
    (visible or stale) — for every `b`. -/
theorem parseBytes_live (a : PArgs) (b : Bytes) : (a.parseBytes b).live = PArgs.parseLive b := by
  unfold PArgs.parseBytes PArgs.parseLive
  exact parseLoop_indep (b.length + 1) [] _ _ _ _ b

/-! ### Args: simulation -/

/-- two `Args` are related when their visible slots agree; stale slots and scratch buffer are arbitrary. -/
def ASim (a f : PArgs) : Prop := a.live = f.live

theorem ASim.obs {a f : PArgs} (h : ASim a f) : a.obs = f.obs := by
  unfold ASim at h; simp [PArgs.obs, h]

theorem args_step_sim {a f : PArgs} (h : ASim a f) (op : AOp) :
    ASim (a.step op).1 (f.step op).1 ∧ (a.step op).2 = (f.step op).2 := by
  unfold ASim at *
  cases op with
  | add k v => simp [PArgs.step, PArgs.appendArg, PArgs.writeKV, h]
  | set k v =>
    simp only [PArgs.step, PArgs.setArg, h]
    cases PArgs.setLive k v f.live <;> simp [PArgs.appendArg, PArgs.writeKV, h]
  | del k => simp [PArgs.step, PArgs.del, h]
  | peek k => simp [PArgs.step, PArgs.peek, h]
  | has k => simp [PArgs.step, PArgs.has, h]
  | parse b => simp [PArgs.step, parseBytes_live]
  | parseStr b => simp [PArgs.step, PArgs.parseStr, parseBytes_live]
  | query => simp [PArgs.step, PArgs.queryString, h]
  | reset => simp [PArgs.step, PArgs.reset]
  | copyFrom src =>
    simp only [PArgs.step, PArgs.copyFrom]
    refine ⟨?_, trivial⟩
    split <;> split <;> rfl

theorem args_run_sim (ops : List AOp) : ∀ {a f : PArgs}, ASim a f → a.run ops = f.run ops := by
  induction ops with
  | nil => intros; rfl
  | cons op ops ih =>
    intro a f h
    have hs := args_step_sim h op
    simp only [PArgs.run]
    rw [hs.2, hs.1.obs, ih hs.1]

/-! ### XferPipe: simulation -/

def XSim (p q : PPipe) : Prop := p.live = q.live

theorem pipe_pushWhile_sim (reg : Registry) (ids : List UInt8) : ∀ {p q : PPipe}, XSim p q →
    XSim (PPipe.pushWhile reg p ids).1 (PPipe.pushWhile reg q ids).1 ∧
    (PPipe.pushWhile reg p ids).2 = (PPipe.pushWhile reg q ids).2 := by
  induction ids with
  | nil => intro p q h; exact ⟨h, rfl⟩
  | cons i is ih =>
    intro p q h
    simp only [PPipe.pushWhile]
    split
    · exact ih (by unfold XSim at *; simp [PPipe.push, h])
    · exact ⟨h, rfl⟩

theorem pipe_append_sim (reg : Registry) (ids : List UInt8) {p q : PPipe} (h : XSim p q) :
    XSim (PPipe.append reg p ids).1 (PPipe.append reg q ids).1 ∧
    (PPipe.append reg p ids).2 = (PPipe.append reg q ids).2 := by
  have hw := pipe_pushWhile_sim reg ids h
  have h1 := hw.1
  unfold XSim at h h1
  simp only [PPipe.append, hw.2, h1, h]
  split
  · exact ⟨by simp [XSim, PPipe.truncTo, h1], rfl⟩
  · exact ⟨h1, rfl⟩

theorem pipe_pushAll_sim (ids : List UInt8) : ∀ {p q : PPipe}, XSim p q →
    XSim (PPipe.pushAll p ids) (PPipe.pushAll q ids) := by
  induction ids with
  | nil => intro p q h; exact h
  | cons i is ih =>
    intro p q h
    simp only [PPipe.pushAll]
    exact ih (by unfold XSim at *; simp [PPipe.push, h])

theorem pipe_appendFrom_sim (ids : List UInt8) {p q : PPipe} (h : XSim p q) :
    XSim (PPipe.appendFrom p ids) (PPipe.appendFrom q ids) := by
  have h' := h
  unfold XSim at h'
  simp only [PPipe.appendFrom, h']
  split
  · exact h
  · exact pipe_pushAll_sim ids h

theorem pipe_step_sim (reg : Registry) {p q : PPipe} (h : XSim p q) (op : XOp) :
    XSim (p.step reg op).1 (q.step reg op).1 ∧ (p.step reg op).2 = (q.step reg op).2 := by
  cases op with
  | append ids =>
    have := pipe_append_sim reg ids h
    simp [PPipe.step, this.1, this.2]
  | appendFrom ids => exact ⟨pipe_appendFrom_sim ids h, rfl⟩
  | reset => simp [PPipe.step, PPipe.reset, XSim]

theorem pipe_run_sim (reg : Registry) (ops : List XOp) : ∀ {p q : PPipe}, XSim p q →
    p.run reg ops = q.run reg ops := by
  induction ops with
  | nil => intros; rfl
  | cons op ops ih =>
    intro p q h
    have hs := pipe_step_sim reg h op
    simp only [PPipe.run, PPipe.obs]
    rw [hs.2, ih hs.1]
    have := hs.1; unfold XSim at this; rw [this]

/-! ### ByteBuffer: simulation -/

def BSim (b c : PBuf) : Prop := b.data = c.data

theorem changeLen_length (b : PBuf) (n : Nat) : (b.changeLen n).data.length = n := by
  unfold PBuf.changeLen
  split
  · simp
  · simp only [List.length_take]; omega

/-- `ChangeLen(n)` followed by a read that fills all `n` bytes shows exactly the bytes read:
    the stale bytes `ChangeLen` exposed are all overwritten. -/
theorem readFull_data (b : PBuf) (p : Bytes) : ((b.changeLen p.length).fill p).data = p := by
  have h := changeLen_length b p.length
  simp only [PBuf.fill]
  rw [List.drop_eq_nil_of_le (by omega)]
  simp

theorem buf_step_sim {b c : PBuf} (h : BSim b c) (op : BOp) : BSim (b.step op) (c.step op) := by
  unfold BSim at *
  cases op with
  | write p => simp [PBuf.step, PBuf.write, h]
  | set p => simp [PBuf.step, PBuf.set, PBuf.write, PBuf.reset]
  | reset => simp [PBuf.step, PBuf.reset]
  | readFull p => simp only [PBuf.step, readFull_data]

theorem buf_run_sim (ops : List BOp) : ∀ {b c : PBuf}, BSim b c → b.run ops = c.run ops := by
  induction ops with
  | nil => intros; rfl
  | cons op ops ih =>
    intro b c h
    have hs := buf_step_sim h op
    simp only [PBuf.run]
    rw [ih hs]
    unfold BSim at hs; rw [hs]

/-! ### message: simulation -/

/-- two messages are related when every field agrees up to the stale parts of the metadata
    container and of the transfer pipe. -/
structure MSim (m f : PMsg) : Prop where
  serviceMethod : m.serviceMethod = f.serviceMethod
  status : m.status = f.status
  md : ASim m.md f.md
  body : m.body = f.body
  newBodyFunc : m.newBodyFunc = f.newBodyFunc
  xferPipe : XSim m.xferPipe f.xferPipe
  ctx : m.ctx = f.ctx
  size : m.size = f.size
  seq : m.seq = f.seq
  mtype : m.mtype = f.mtype
  bodyCodec : m.bodyCodec = f.bodyCodec

theorem MSim.toMsg {m f : PMsg} (h : MSim m f) : m.toMsg = f.toMsg := by
  have h1 := h.md; have h2 := h.xferPipe
  unfold ASim at h1; unfold XSim at h2
  simp [PMsg.toMsg, h.serviceMethod, h.status, h1, h.body, h2, h.size, h.seq, h.mtype, h.bodyCodec]

theorem MSim.obs {m f : PMsg} (h : MSim m f) (reg : Registry) (limit : Nat) :
    m.obs reg limit = f.obs reg limit := by
  have h1 := h.md.obs; have h2 := h.xferPipe
  unfold XSim at h2
  simp [PMsg.obs, PPipe.obs, h.toMsg, h.serviceMethod, h.status, h1, h.body, h.newBodyFunc, h2, h.size, h.seq,
    h.mtype, h.bodyCodec, h.ctx]

theorem MSim.refl (m : PMsg) : MSim m m := ⟨rfl, rfl, rfl, rfl, rfl, rfl, rfl, rfl, rfl, rfl, rfl⟩

/-- `Reset()` makes any message indistinguishable from `NewMessage()`. -/
theorem msg_reset_sim (m : PMsg) : MSim m.reset PMsg.fresh :=
  ⟨rfl, rfl, rfl, rfl, rfl, rfl, rfl, rfl, rfl, rfl, rfl⟩

theorem msg_pack_sim (reg : Registry) (limit : Nat) {m f : PMsg} (h : MSim m f) :
    MSim (PMsg.packOp reg limit m).1 (PMsg.packOp reg limit f).1 ∧
    (PMsg.packOp reg limit m).2 = (PMsg.packOp reg limit f).2 := by
  have ht := h.toMsg
  have hq : ASim m.md.queryString.1 f.md.queryString.1 := by
    have := h.md; unfold ASim at *; simpa [PArgs.queryString] using this
  unfold PMsg.packOp
  rw [ht]
  cases hpk : Raw.pack reg limit f.toMsg with
  | error e =>
    cases e <;> simp only [] <;> refine ⟨?_, trivial⟩
    · exact h
    all_goals exact { h with status := by simp [h.status], md := hq }
  | ok r =>
    obtain ⟨b, sz⟩ := r
    simp only []
    exact ⟨{ h with status := by simp [h.status], md := hq, size := rfl }, trivial⟩

theorem msg_step_sim (reg : Registry) (limit : Nat) {m f : PMsg} (h : MSim m f) (op : MOp) :
    MSim (m.step reg limit op).1 (f.step reg limit op).1 ∧ (m.step reg limit op).2 = (f.step reg limit op).2 := by
  cases op with
  | setSeq n => exact ⟨{ h with seq := rfl }, rfl⟩
  | setMtype t => exact ⟨{ h with mtype := rfl }, rfl⟩
  | setMethod s => exact ⟨{ h with serviceMethod := rfl }, rfl⟩
  | setStatus s => exact ⟨{ h with status := rfl }, rfl⟩
  | statusInit => exact ⟨{ h with status := by simp [PMsg.step, h.status] }, rfl⟩
  | mdOp op =>
    have hs := args_step_sim h.md op
    exact ⟨{ h with md := hs.1 }, hs.2⟩
  | setCodec c => exact ⟨{ h with bodyCodec := rfl }, rfl⟩
  | setBody b => exact ⟨{ h with body := rfl }, rfl⟩
  | setNewBody g => exact ⟨{ h with newBodyFunc := rfl }, rfl⟩
  | pipeOp op =>
    have hs := pipe_step_sim reg h.xferPipe op
    exact ⟨{ h with xferPipe := hs.1 }, hs.2⟩
  | setSize n =>
    simp only [PMsg.step]
    split
    · exact ⟨h, rfl⟩
    · exact ⟨{ h with size := rfl }, rfl⟩
  | withCtx c => exact ⟨{ h with ctx := rfl }, rfl⟩
  | pack => exact msg_pack_sim reg limit h
  | reset =>
    refine ⟨?_, rfl⟩
    have h1 := h.md; have h2 := h.xferPipe
    exact ⟨rfl, rfl, rfl, rfl, rfl, rfl, rfl, rfl, rfl, rfl, rfl⟩

theorem msg_run_sim (reg : Registry) (limit : Nat) (ops : List MOp) : ∀ {m f : PMsg}, MSim m f →
    m.run reg limit ops = f.run reg limit ops := by
  induction ops with
  | nil => intros; rfl
  | cons op ops ih =>
    intro m f h
    have hs := msg_step_sim reg limit h op
    simp only [PMsg.run]
    rw [hs.2, hs.1.obs, ih hs.1]

/-! ### handlerCtx: simulation -/

/-- two contexts are related when every field agrees (messages up to stale parts) except `start`,
    which must agree only once it has been written (`w`). -/
structure CSim (w : Bool) (c f : PCtx) : Prop where
  sess : c.sess = f.sess
  input : MSim c.input f.input
  output : MSim c.output f.output
  handler : c.handler = f.handler
  arg : c.arg = f.arg
  callCmd : c.callCmd = f.callCmd
  swap : c.swap = f.swap
  start : w = true → c.start = f.start
  cost : c.cost = f.cost
  pluginContainer : c.pluginContainer = f.pluginContainer
  stat : c.stat = f.stat
  context : c.context = f.context

theorem CSim.obs {w : Bool} {c f : PCtx} (h : CSim w c f) (reg : Registry) (limit : Nat) :
    c.obs reg limit = f.obs reg limit := by
  simp [PCtx.obs, h.sess, h.input.obs, h.output.obs, h.handler, h.arg, h.callCmd, h.swap, h.cost,
    h.pluginContainer, h.stat, h.context, h.input.ctx]

/-- `getContext`: after `clean()` + `reInit(s)` a pooled context is related to a new one in every
    field but `start`. -/
theorem ctx_acquire_sim (c : PCtx) (s : Nat) (sw : List (Nat × Nat)) :
    CSim false (c.acquire s sw) (PCtx.fresh.acquire s sw) where
  sess := rfl
  input := by
    have := msg_reset_sim c.input
    exact { this with newBodyFunc := rfl }
  output := msg_reset_sim c.output
  handler := rfl
  arg := rfl
  callCmd := rfl
  swap := rfl
  start := by intro h; cases h
  cost := rfl
  pluginContainer := rfl
  stat := rfl
  context := rfl

/-- the written-flag after one operation. -/
def startW (w : Bool) : COp → Bool
  | .binding _ _ => true
  | .pushStart _ => true
  | _ => w

theorem ctx_step_sim (reg : Registry) (limit : Nat) {w : Bool} {c f : PCtx} (h : CSim w c f) (op : COp)
    (hw : ∀ t, op = .recordCost t → w = true) :
    CSim (startW w op) (c.step reg limit op).1 (f.step reg limit op).1 ∧
    (c.step reg limit op).2 = (f.step reg limit op).2 := by
  cases op with
  | binding now pc => exact ⟨{ h with start := fun _ => rfl, pluginContainer := rfl }, rfl⟩
  | pushStart now => exact ⟨{ h with start := fun _ => rfl }, rfl⟩
  | setHandler x a => exact ⟨{ h with handler := rfl, arg := rfl }, rfl⟩
  | setCallCmd x => exact ⟨{ h with callCmd := rfl }, rfl⟩
  | swapStore k v =>
    simp only [PCtx.step, startW]
    rw [h.swap]
    cases f.swap with
    | none => exact ⟨h, rfl⟩
    | some m => exact ⟨{ h with swap := rfl }, rfl⟩
  | setStat s => exact ⟨{ h with stat := rfl }, rfl⟩
  | setContext x => exact ⟨{ h with context := rfl }, rfl⟩
  | recordCost now =>
    have hs := h.start (hw now rfl)
    exact ⟨{ h with cost := by simp [PCtx.step, hs] }, rfl⟩
  | inOp op =>
    have hs := msg_step_sim reg limit h.input op
    exact ⟨{ h with input := hs.1 }, hs.2⟩
  | outOp op =>
    have hs := msg_step_sim reg limit h.output op
    exact ⟨{ h with output := hs.1 }, hs.2⟩

theorem startSafe_cons (w : Bool) (op : COp) (ops : List COp) (h : startSafe w (op :: ops) = true) :
    (∀ t, op = .recordCost t → w = true) ∧ startSafe (startW w op) ops = true := by
  cases op <;> simp_all [startSafe, startW]
  rcases h with ⟨h1, h2⟩; subst h1; exact h2

theorem ctx_run_sim (reg : Registry) (limit : Nat) (ops : List COp) : ∀ {w : Bool} {c f : PCtx}, CSim w c f →
    startSafe w ops = true → c.run reg limit ops = f.run reg limit ops := by
  induction ops with
  | nil => intros; rfl
  | cons op ops ih =>
    intro w c f h hs
    have hc := startSafe_cons w op ops hs
    have hst := ctx_step_sim reg limit h op hc.1
    simp only [PCtx.run]
    rw [hst.2, hst.1.obs, ih hst.1 hc.2]

/-! ### socket -/

/-- `Reset` overwrites every modelled field except `fromPool`. -/
theorem sock_reset_eq (s : PSock) (conn : Option Nat) (proto : Nat) :
    s.reset conn proto = { PSock.new conn proto with fromPool := s.fromPool } := by
  cases s; rfl

/-- `fromPool` is never written after construction. -/
theorem sock_step_fromPool (s : PSock) (op : SOp) : (s.step op).fromPool = s.fromPool := by
  cases op <;> simp [PSock.step, PSock.reset, PSock.close] <;> (repeat' split) <;> rfl

theorem sock_exec_fromPool (ops : List SOp) : ∀ s : PSock, (s.exec ops).fromPool = s.fromPool := by
  induction ops with
  | nil => intro s; rfl
  | cons op ops ih => intro s; simp only [PSock.exec]; rw [ih, sock_step_fromPool]

end Pool
end Teleport
