/-
Lemmas/RedialTie — vocabulary that ties `Model/Redial` to the regenerated facts of the redial code
(tie A of C13; consumed at the end of Props/C13.lean).

1. The redial closure as a SEQUENCE of primitive effects (`Op`): `attemptOps`, `successOps`,
   `failedOps`. `redialLocked_as_ops` proves, for every state, that running these sequences in this
   order IS the model's `redialLocked`; the order of the sequences is what Props/C13 compares with
   the flow of the function literal in peer.go.
2. Probes that RUN the model on small concrete states and name the outcome the way the
   regenerated behaviour tables of `Gen/Redial.lean` do (status names, availability codes, traces of
   a writer thread).
Core Lean only.
-/
import Teleport.Lemmas.Redial
import Teleport.Lemmas.SrcFlow
namespace Teleport.RedialTie
open Teleport.Redial

def allStatus : List Status :=
  [.preparing, .ok, .activeClosing, .activeClosed, .passiveClosing, .passiveClosed, .redialing, .redialFailed]

def goName : Status → String
  | .preparing => "statusPreparing" | .ok => "statusOk" | .activeClosing => "statusActiveClosing"
  | .activeClosed => "statusActiveClosed" | .passiveClosing => "statusPassiveClosing"
  | .passiveClosed => "statusPassiveClosed" | .redialing => "statusRedialing" | .redialFailed => "statusRedialFailed"

def commaJoin : List String → String
  | [] => ""
  | [a] => a
  | a :: r => a ++ "," ++ commaJoin r

/-- name of a `tryChangeStatus(to, from…)` event. -/
def casName (to : Status) (frm : List Status) : String := goName to ++ "<-" ++ commaJoin (frm.map goName)
/-! ### the closure as a sequence of effects -/

/-- primitive effects of the redial closure, one per statement of interest of the literal in peer.go. -/
inductive Op
  | reset                                   -- sess.socket.Reset(conn)
  | setId                                   -- sess.socket.SetID(local address | old id)
  | store (st : Status)                     -- sess.changeStatus(st)
  | postDial                                -- pluginContainer.postDial(sess, true)
  | connClose                               -- conn.Close() of the connection just dialled
  | closeLocked                             -- sess.closeLocked()
  | cas (to : Status) (frm : List Status)   -- sess.tryChangeStatus(to, frm…)
  | oldClose                                -- oldConn.Close()
  | spawn                                   -- AnywayGo(sess.startReadAndHandle)
  | hubSet                                  -- p.sessHub.set(sess)
deriving DecidableEq, Repr

/-- what the closure captured before the dial: `oldIP == oldID`, `oldID`, `oldConn`. -/
structure Ctx where
  auto : Bool
  oldId : Key
  old : Nat
deriving DecidableEq, Repr

def Op.apply (c : Ctx) (s : State) : Op → State
  | .reset => { s with conn := s.conn + 1, sockClosed := false }
  | .setId => { s with id := if c.auto then .addr s.conn else c.oldId }
  | .store st => { s with status := st }
  | .postDial => { s with dialLog := s.dialLog ++ [true] }
  | .connClose => { s with dead := s.conn :: s.dead }
  | .closeLocked => Redial.closeLocked s
  | .cas to frm => if s.status ∈ frm then { s with status := to } else s
  | .oldClose => { s with dead := c.old :: s.dead }
  | .spawn => { s with threads := s.threads ++ [⟨.reader s.conn, .rRead⟩] }
  | .hubSet => { s with hub := Redial.hubSet s.hub s.id }

def runOps (c : Ctx) (s : State) (ops : List Op) : State := ops.foldl (Op.apply c) s

/-- the callback of one dial attempt (not called when the dial itself fails). -/
def attemptOps : Avail → List Op
  | .down => []
  | .up => [.reset, .setId, .store .preparing, .postDial]
  | .hookFail => [.reset, .setId, .store .preparing, .postDial, .connClose, .store .redialing]

def successOps : List Op := [.oldClose, .store .ok, .spawn, .hubSet]
def failedOps : List Op := [.closeLocked, .cas .redialFailed [.redialing]]

theorem attemptOps_eq (c : Ctx) (s : State) (a : Avail) :
    runOps c s (attemptOps a) = applyAttempt c.auto c.oldId s a := by
  cases a <;> rfl

theorem successOps_eq (c : Ctx) (t : State) :
    finishOk t c.old = { runOps c t successOps with redials := t.redials ++ [c.old] } := rfl

theorem failedOps_eq (c : Ctx) (t : State) :
    runOps c t failedOps = casRedialFailed (Redial.closeLocked t) := by
  simp [runOps, failedOps, Op.apply, casRedialFailed]

/-- the captured context of a redial that starts in `s`. -/
def ctxOf (s : State) : Ctx := ⟨s.id == .addr s.conn, s.id, s.conn⟩

/-- the state after the callbacks of a whole round, as a sequence of effects. -/
def roundOps (s : State) : State :=
  (dialRound s.budget s.env).tried.foldl (fun t a => runOps (ctxOf s) t (attemptOps a)) (roundStart s)

theorem roundOps_eq (s : State) : roundOps s = roundFold s := by
  unfold roundOps roundFold
  have : (fun t a => runOps (ctxOf s) t (attemptOps a)) = applyAttempt (s.id == .addr s.conn) s.id := by
    funext t a; exact attemptOps_eq (ctxOf s) t a
  rw [this]

/-- **The model's `redialLocked` is these effects in this order** (every state whose status the
    compare-and-swap of `redialForClient` accepts): per attempt `attemptOps`, then `successOps` /
    `failedOps`; `redials` is the model's own log of completed redials. -/
theorem redialLocked_as_ops (s : State) (h1 : casFrom s.status = true) :
    redialLocked s s.conn =
      match (dialRound s.budget s.env).fin with
      | .success => ({ runOps (ctxOf s) (roundOps s) successOps with redials := (roundOps s).redials ++ [s.conn] }, some true)
      | .failed => (runOps (ctxOf s) (roundOps s) failedOps, some false)
      | .hang => (roundOps s, none) := by
  rw [roundOps_eq]
  cases h2 : (dialRound s.budget s.env).fin with
  | success => rw [redialLocked_success_eq s h1 h2]; rfl
  | failed => rw [redialLocked_failed_eq s h1 h2, failedOps_eq]
  | hang => simp [redialLocked, h1, h2, roundFold, roundStart]

/-- source statement of an effect (`kind:name` of the flow event). -/
def opKey : Op → String
  | .reset => "call:socket.Reset"
  | .setId => "call:socket.SetID"
  | .store st => "store:" ++ goName st
  | .postDial => "stage:postDial"
  | .connClose | .oldClose => "call:%.Close"
  | .closeLocked => "call:closeLocked"
  | .cas to frm => "cas:" ++ casName to frm
  | .spawn => "spawn:startReadAndHandle"
  | .hubSet => "call:sessHub.set"

/-! ### probes of `redialForClient` -/

/-- a session in status `st` whose connection is the caller's (`same`) or a newer one. -/
def entryProbe (st : Status) (same : Bool) : State :=
  { State.init 1 false with status := st, conn := if same then 0 else 1 }

/-- what the model's locked body does for a caller that used connection 0. -/
def entryModel (st : Status) (same : Bool) : String :=
  let r := redialLocked (entryProbe st same) 0
  if r = (entryProbe st same, some true) then "true"
  else if r = (entryProbe st same, some false) then "false"
  else if r.1.rounds.length = 1 then "closure"
  else "?"

/-! ### probes of the write path -/

/-- a session with one pusher standing at `wWrite 0 st` (it read connection 0 and status `st`). -/
def writeProbe (st : Status) (alive sockClosed eof : Bool) : State :=
  { State.init 1 eof with status := st, sockClosed := sockClosed, dead := if alive then [] else [0],
                          threads := [⟨.reader 0, .rRead⟩, ⟨.pusher, .wWrite 0 st⟩] }

/-- the pc of thread `i` after its next step. -/
def pcAfter (s : State) (i : Nat) : Option Pc :=
  match threadStep s i with
  | some t => (t.threads[i]?).map Thread.pc
  | none => none

/-- the status `session.write` returns according to the model: where the pusher goes next. -/
def writeModel (st : Status) (alive sockClosed eof : Bool) : String :=
  match pcAfter (writeProbe st alive sockClosed eof) 1 with
  | some (.wDone 0) => "nil"
  | some (.wDone 104) => "statWriteFailed.Copy()"
  | some (.xLock _) => "statConnClosed"
  | _ => "?"

def digit : Nat → String
  | 0 => "0" | 1 => "1" | 2 => "2" | 3 => "3" | 4 => "4" | _ => "?"

/-- trace of writer thread `i`, run alone: `pre` = the environment events that happen just before its
    successive reads of connection and status (`wCheck`). `nw` = writes so far, `used` = the connection
    the last write used. -/
def wtrace (i : Nat) (postStage : String) : Nat → State → List (List Ev) → Nat → Nat → List String
  | 0, _, _, _, _ => ["fuel"]
  | f + 1, s, pre, nw, used =>
    match s.threads[i]? with
    | none => ["?"]
    | some ⟨role, pc⟩ =>
      let go (s' : State) (pre' : List (List Ev)) (nw' used' : Nat) (out : List String) : List String :=
        match threadStep s' i with
        | some t => out ++ wtrace i postStage f t pre' nw' used'
        | none => out ++ ["blocked"]
      match pc with
      | .wCheck =>
        match (run s (pre.headD [])) with
        | some s' => go s' pre.tail nw used []
        | none => ["?env"]
      | .wWrite u _ => go s pre (nw + 1) u ["write"]
      | .xLock _ => go s pre nw used []
      | .xLocked old => go s pre nw used [if old = used then "redial:" ++ digit nw else "redial:?"]
      | .wAwait => [postStage, "return"]
      | .wDone 0 => [postStage, "return"]
      | .wDone _ => (match role with | .caller _ => ["done"] | _ => []) ++ ["return"]
      | .stuck => ["hang"]
      | _ => ["?pc"]

end Teleport.RedialTie
