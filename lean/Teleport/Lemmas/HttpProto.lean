/-
Lemmas/HttpProto — round trip of the model of `proto/httproto/httproto.go` (Model/HttpProto):
`unpack (pack m ++ rest)` for the supported field set `WFh`.
-/
import Teleport.Model.HttpProto
import Teleport.Lemmas.Num
import Teleport.Lemmas.Bytes
namespace Teleport
namespace HttpP
open Bytes

/-! ### splitting -/

theorem cutAt_notin (c : UInt8) : ∀ s : Bytes, (∀ x ∈ s, x ≠ c) → cutAt c s = (s, none) := by
  intro s
  induction s with
  | nil => intro _; rfl
  | cons x xs ih =>
    intro h
    have hx : (x == c) = false := by simpa using h x (by simp)
    simp only [cutAt, hx, Bool.false_eq_true, if_false]
    rw [ih (fun y hy => h y (by simp [hy]))]

theorem cutAt_append (c : UInt8) : ∀ a b : Bytes, (∀ x ∈ a, x ≠ c) → cutAt c (a ++ c :: b) = (a, some b) := by
  intro a
  induction a with
  | nil => intro b _; simp [cutAt]
  | cons x xs ih =>
    intro b h
    have hx : (x == c) = false := by simpa using h x (by simp)
    simp only [List.cons_append, cutAt, hx, Bool.false_eq_true, if_false]
    rw [ih b (fun y hy => h y (by simp [hy]))]

/-! ### values: `bytes.TrimSpace` / `textproto.TrimString` leave a clean value alone -/

/-- a header value that survives `Header.Write` and the reader's `TrimSpace` unchanged: no CR/LF,
    no white-space rune (`unicode.IsSpace`) at either end. -/
def valueOK (v : Bytes) : Bool :=
  v.all (fun c => c != 10 && c != 13) && spaceAt v == 0 && spaceAtRev v.reverse == 0

theorem trimBy_zero (f : Bytes → Nat) (n : Nat) (s : Bytes) (h : f s = 0) : trimBy f n s = s := by
  cases n <;> simp [trimBy, h]

theorem trimSpace_id (v : Bytes) (h1 : spaceAt v = 0) (h2 : spaceAtRev v.reverse = 0) : trimSpace v = v := by
  unfold trimSpace
  simp only [trimBy_zero _ _ _ h1]
  rw [trimBy_zero _ _ _ h2]; simp

theorem trimSpace_sp (v : Bytes) (h1 : spaceAt v = 0) (h2 : spaceAtRev v.reverse = 0) : trimSpace (32 :: v) = v := by
  unfold trimSpace
  have hs : spaceAt (32 :: v) = 1 := by simp [spaceAt, asciiSpace]
  have : trimBy spaceAt (32 :: v).length (32 :: v) = v := by
    simp only [List.length_cons, trimBy, hs]
    simp only [Nat.succ_ne_zero, beq_iff_eq, if_false, List.drop_one, List.tail_cons]
    exact trimBy_zero _ _ _ h1
  simp only [this]
  rw [trimBy_zero _ _ _ h2]; simp

theorem valueOK_parts {v : Bytes} (h : valueOK v = true) :
    (∀ c ∈ v, c ≠ 10 ∧ c ≠ 13) ∧ spaceAt v = 0 ∧ spaceAtRev v.reverse = 0 := by
  unfold valueOK at h
  simp only [Bool.and_eq_true, List.all_eq_true, bne_iff_ne, ne_eq, beq_iff_eq] at h
  exact ⟨h.1.1, h.1.2, h.2⟩

theorem spaceAt_head {c : UInt8} {r : Bytes} (h : spaceAt (c :: r) = 0) : asciiSpace c = false := by
  unfold spaceAt at h
  by_cases ha : asciiSpace c = true
  · simp [ha] at h
  · simpa using ha

theorem spaceAtRev_head {c : UInt8} {r : Bytes} (h : spaceAtRev (c :: r) = 0) : asciiSpace c = false := by
  unfold spaceAtRev at h
  by_cases ha : asciiSpace c = true
  · simp [ha] at h
  · simpa using ha

theorem httpSpace_ascii : ∀ c, asciiSpace c = false → httpSpace c = false := by
  apply forall_u8; decide +kernel

theorem dropWhile_head (p : UInt8 → Bool) (v : Bytes) (h : ∀ c r, v = c :: r → p c = false) : v.dropWhile p = v := by
  cases v with
  | nil => rfl
  | cons c r => simp [List.dropWhile, h c r rfl]

theorem hval_id {v : Bytes} (h : valueOK v = true) : hval v = v := by
  obtain ⟨h1, h2, h3⟩ := valueOK_parts h
  unfold hval
  have hm : v.map (fun c => if c == 10 || c == 13 then 32 else c) = v := by
    conv => rhs; rw [← List.map_id v]
    apply List.map_congr_left
    intro c hc
    have := h1 c hc
    simp [this.1, this.2]
  rw [hm]
  unfold trimHttp
  rw [dropWhile_head httpSpace v (fun c r e => httpSpace_ascii c (spaceAt_head (e ▸ h2)))]
  rw [dropWhile_head httpSpace v.reverse (fun c r e => httpSpace_ascii c (spaceAtRev_head (e ▸ h3)))]
  simp

/-! ### the line reader on a line that `Pack` wrote -/

theorem readLine_line (limit used : Nat) :
    ∀ (ln tail acc : Bytes), (∀ c ∈ ln, c ≠ 10) → used + acc.length + ln.length + 1 ≤ limit →
      readLine limit used (ln ++ 13 :: 10 :: tail) acc = .line (acc.reverse ++ ln) (acc.length + ln.length + 1) tail := by
  intro ln
  induction ln with
  | nil =>
    intro tail acc _ hb
    have h13 : ((13 : UInt8) == 10) = false := by decide
    have hno : ¬ (used + acc.length ≥ limit) := by simp only [List.length_nil] at hb; omega
    simp only [List.nil_append, readLine, h13, Bool.false_eq_true, if_false, hno, beq_self_eq_true, if_true,
      stripCR, List.length_cons, List.append_nil, List.length_nil, Nat.add_zero]
  | cons c r ih =>
    intro tail acc h hb
    have hc : (c == 10) = false := by simpa using h c (by simp)
    simp only [List.length_cons] at hb
    have hno : ¬ (used + acc.length ≥ limit) := by omega
    simp only [List.cons_append, readLine, hc, Bool.false_eq_true, if_false, hno]
    rw [ih tail (c :: acc) (fun y hy => h y (by simp [hy])) (by simp only [List.length_cons]; omega)]
    simp only [List.reverse_cons, List.append_assoc, List.singleton_append, List.length_cons]
    congr 1; omega

/-- the header loop walks through a complete line (`acc` = what was buffered before). -/
theorem hloop_scan (env : Env) (limit : Nat) (kind : Kind) :
    ∀ (ln tail acc : Bytes) (st : HSt) (used hi : Nat), (∀ c ∈ ln, c ≠ 10) → used + acc.length + ln.length < limit →
      hloop env limit kind (ln ++ tail) acc st used hi = hloop env limit kind tail (ln.reverse ++ acc) st used hi := by
  intro ln
  induction ln with
  | nil => intro tail acc st used hi _ _; rfl
  | cons c r ih =>
    intro tail acc st used hi h hb
    have hc : (c == 10) = false := by simpa using h c (by simp)
    simp only [List.length_cons] at hb
    have hno : ¬ (used + acc.length ≥ limit) := by omega
    simp only [List.cons_append, hloop, hc, Bool.false_eq_true, if_false, hno]
    rw [ih tail (c :: acc) st used hi (fun y hy => h y (by simp [hy])) (by simp only [List.length_cons]; omega)]
    simp

/-- one complete, well-formed header line. -/
theorem hloop_line (env : Env) (limit : Nat) (kind : Kind) (ln tail : Bytes) (st : HSt) (used hi : Nat) (kv : Args.KV)
    (hlf : ∀ c ∈ ln, c ≠ 10) (hne : ln ≠ []) (hb : used + ln.length + 1 < limit)
    (hsp : splitHeader ln = some kv) (herr : lineErr env kv = none) :
    hloop env limit kind (ln ++ 13 :: 10 :: tail) [] st used hi =
      hloop env limit kind tail [] (upd env st kv) (used + ln.length) (max hi (used + (ln.length + 1))) := by
  have e : ln ++ 13 :: 10 :: tail = (ln ++ [13]) ++ 10 :: tail := by simp
  rw [e, hloop_scan env limit kind (ln ++ [13]) (10 :: tail) [] st used hi
    (by intro c hc; rw [List.mem_append] at hc; rcases hc with hc | hc
        · exact hlf c hc
        · simp at hc; rw [hc]; decide)
    (by simp only [List.length_nil, List.length_append, List.length_cons]; omega)]
  have hrev : (ln ++ [13]).reverse ++ [] = 13 :: ln.reverse := by simp
  rw [hrev]
  have hemp : ln.isEmpty = false := by
    cases ln with
    | nil => exact absurd rfl hne
    | cons a b => simp
  simp only [hloop, beq_self_eq_true, if_true, stripCR, List.reverse_reverse,
    hsp, herr, List.length_cons, List.length_reverse]
  simp only [hemp, Bool.false_eq_true, if_false]

/-- the blank line that ends the head. -/
theorem hloop_blank (env : Env) (limit : Nat) (kind : Kind) (tail : Bytes) (st : HSt) (used hi : Nat)
    (hb : used < limit) :
    hloop env limit kind (13 :: 10 :: tail) [] st used hi = finishBody env limit kind st used (max hi (used + 1)) tail := by
  have h13 : ((13 : UInt8) == 10) = false := by decide
  have hno : ¬ (used + 0 ≥ limit) := by omega
  simp only [hloop, h13, Bool.false_eq_true, if_false, beq_self_eq_true, if_true, stripCR,
    List.reverse_nil, List.isEmpty_nil, List.length_cons, List.length_nil, hno, Nat.zero_add]

/-! ### the header block -/

/-- a header line as `Header.Write` prints it and as the reader accepts it. -/
def lineOK (env : Env) (kv : Args.KV) : Prop :=
  (∀ c ∈ kv.1, c ≠ 10 ∧ c ≠ 58) ∧ valueOK kv.2 = true ∧ lineErr env kv = none

def lineLen (kv : Args.KV) : Nat := kv.1.length + 2 + kv.2.length

def linesLen (ls : List Args.KV) : Nat := (ls.map lineLen).sum

theorem splitHeader_render (kv : Args.KV) (hk : ∀ c ∈ kv.1, c ≠ 58) (hv : valueOK kv.2 = true) :
    splitHeader (kv.1 ++ 58 :: 32 :: kv.2) = some kv := by
  obtain ⟨_, h2, h3⟩ := valueOK_parts hv
  unfold splitHeader
  rw [cutAt_append 58 kv.1 (32 :: kv.2) hk]
  simp only [trimSpace_sp kv.2 h2 h3]

theorem render_cons (kv : Args.KV) (ls : List Args.KV) (tail : Bytes) :
    render (kv :: ls) ++ tail = (kv.1 ++ 58 :: 32 :: kv.2) ++ 13 :: 10 :: (render ls ++ tail) := by
  simp [render, renderLine, crlf]

theorem hloop_lines (env : Env) (limit : Nat) (kind : Kind) :
    ∀ (ls : List Args.KV) (tail : Bytes) (st : HSt) (used hi : Nat),
      (∀ kv ∈ ls, lineOK env kv) → used + linesLen ls + 1 < limit →
      ∃ hi', hloop env limit kind (render ls ++ tail) [] st used hi =
        hloop env limit kind tail [] (ls.foldl (upd env) st) (used + linesLen ls) hi' := by
  intro ls
  induction ls with
  | nil => intro tail st used hi _ _; exact ⟨hi, by simp [render, linesLen]⟩
  | cons kv r ih =>
    intro tail st used hi hok hb
    obtain ⟨hk, hv, he⟩ := hok kv (by simp)
    obtain ⟨hv1, _, _⟩ := valueOK_parts hv
    simp only [linesLen, List.map_cons, List.sum_cons, lineLen] at hb
    have hlen : (kv.1 ++ 58 :: 32 :: kv.2).length = kv.1.length + 2 + kv.2.length := by
      simp only [List.length_append, List.length_cons]; omega
    rw [render_cons, hloop_line env limit kind (kv.1 ++ 58 :: 32 :: kv.2) (render r ++ tail) st used hi kv
      (by intro c hc
          rw [List.mem_append] at hc
          rcases hc with hc | hc
          · exact (hk c hc).1
          · simp only [List.mem_cons] at hc
            rcases hc with hc | hc | hc
            · rw [hc]; decide
            · rw [hc]; decide
            · exact (hv1 c hc).1)
      (by simp)
      (by rw [hlen]; omega)
      (splitHeader_render kv (fun c hc => (hk c hc).2) hv) he]
    obtain ⟨hi', h'⟩ := ih tail (upd env st kv) (used + (kv.1 ++ 58 :: 32 :: kv.2).length) _
      (fun x hx => hok x (by simp [hx])) (by rw [hlen]; simp only [linesLen]; omega)
    refine ⟨hi', ?_⟩
    rw [h', List.foldl_cons, hlen]
    simp only [linesLen, List.map_cons, List.sum_cons, lineLen]
    congr 1; omega

theorem finishBody_hi (env : Env) (limit : Nat) (kind : Kind) (st : HSt) (used hi hi' : Nat) (r : Bytes) :
    (finishBody env limit kind st used hi r).out = (finishBody env limit kind st used hi' r).out ∧
    (finishBody env limit kind st used hi r).left = (finishBody env limit kind st used hi' r).left := by
  have hf : ∀ d rest a1 a2 h1 h2, (finish d rest a1 h1).out = (finish d rest a2 h2).out ∧
      (finish d rest a1 h1).left = (finish d rest a2 h2).left := by
    intro d rest a1 a2 h1 h2; cases d <;> exact ⟨rfl, rfl⟩
  unfold finishBody
  simp only []
  split
  · exact hf ..
  · split
    · exact ⟨rfl, rfl⟩
    · split
      · exact ⟨rfl, rfl⟩
      · split
        · exact ⟨rfl, rfl⟩
        · exact hf ..

/-! ### what the header lines store -/

def readerKeys : List Bytes := [kCT, kCL, kXCE, kXSeq, kXMtype]

theorem upd_CT (env : Env) (st : HSt) (v : Bytes) : upd env st (kCT, v) = { st with codec := bodyCodec v } := by
  unfold upd; dsimp only; rw [if_pos (by decide)]

theorem upd_CL (env : Env) (st : HSt) (v : Bytes) :
    upd env st (kCL, v) = { st with bodySize := (atoi v).getD 0, clSum := st.clSum + (atoi v).getD 0 } := by
  unfold upd; dsimp only; rw [if_neg (by decide), if_pos (by decide)]

theorem upd_XCE (env : Env) (st : HSt) (v : Bytes) :
    upd env st (kXCE, v) = { st with pipe := addFilter env st.pipe v } := by
  unfold upd; dsimp only; rw [if_neg (by decide), if_neg (by decide), if_pos (by decide)]

theorem upd_XSeq (env : Env) (st : HSt) (v : Bytes) :
    upd env st (kXSeq, v) = { st with seq := wrap32 ((atoi v).getD 0) } := by
  unfold upd; dsimp only; rw [if_neg (by decide), if_neg (by decide), if_neg (by decide), if_pos (by decide)]

theorem upd_XMtype (env : Env) (st : HSt) (v : Bytes) :
    upd env st (kXMtype, v) = { st with mtype := byteOf ((atoi v).getD 0) } := by
  unfold upd; dsimp only; rw [if_neg (by decide), if_neg (by decide), if_neg (by decide), if_neg (by decide), if_pos (by decide)]

theorem upd_other (env : Env) (st : HSt) (kv : Args.KV) (h : kv.1 ∉ readerKeys) :
    upd env st kv = { st with md := setKV kv.1 kv.2 st.md } := by
  simp only [readerKeys, List.mem_cons, List.not_mem_nil, or_false, not_or] at h
  obtain ⟨h1, h2, h3, h4, h5⟩ := h
  unfold upd
  rw [if_neg (by simpa using h1), if_neg (by simpa using h2), if_neg (by simpa using h3),
    if_neg (by simpa using h4), if_neg (by simpa using h5)]

/-- a field that only the lines with key `K` touch keeps its value over lines without that key. -/
theorem foldl_upd_keep {α : Type} (env : Env) (π : HSt → α) (K : Bytes)
    (hk : ∀ st kv, kv.1 ≠ K → π (upd env st kv) = π st) :
    ∀ (ls : List Args.KV) (st : HSt), (∀ kv ∈ ls, kv.1 ≠ K) → π (ls.foldl (upd env) st) = π st := by
  intro ls
  induction ls with
  | nil => intro st _; rfl
  | cons kv r ih =>
    intro st h
    rw [List.foldl_cons, ih _ (fun x hx => h x (by simp [hx])), hk st kv (h kv (by simp))]

/-- … and takes the value the (single) line with key `K` gives it. -/
theorem foldl_upd_set {α : Type} (env : Env) (π : HSt → α) (K : Bytes) (g : α → Bytes → α)
    (hk : ∀ st kv, kv.1 ≠ K → π (upd env st kv) = π st)
    (hs : ∀ st v, π (upd env st (K, v)) = g (π st) v) :
    ∀ (ls : List Args.KV) (st : HSt) (v : Bytes), (ls.map (·.1)).Nodup → (K, v) ∈ ls →
      π (ls.foldl (upd env) st) = g (π st) v := by
  intro ls
  induction ls with
  | nil => intro st v _ h; cases h
  | cons kv r ih =>
    intro st v hn hm
    simp only [List.map_cons, List.nodup_cons] at hn
    rw [List.foldl_cons]
    by_cases hkv : kv.1 = K
    · have hnot : ∀ x ∈ r, x.1 ≠ K := by
        intro x hx hxe
        exact hn.1 (by rw [hkv, ← hxe]; exact List.mem_map_of_mem hx)
      have : kv = (K, v) := by
        rcases List.mem_cons.mp hm with h | h
        · exact h.symm
        · exact absurd rfl (hnot _ h)
      rw [foldl_upd_keep env π K hk r _ hnot, this, hs]
    · have hm' : (K, v) ∈ r := by
        rcases List.mem_cons.mp hm with h | h
        · exact absurd (by rw [← h]) hkv
        · exact h
      rw [ih _ v hn.2 hm', hk st kv hkv]

theorem setKV_absent (k v : Bytes) : ∀ (md : List Args.KV), (∀ kv ∈ md, kv.1 ≠ k) → setKV k v md = md ++ [(k, v)] := by
  intro md
  induction md with
  | nil => intro _; rfl
  | cons e r ih =>
    intro h
    obtain ⟨k', v'⟩ := e
    have : (k' == k) = false := by simpa using h (k', v') (by simp)
    simp only [setKV, this, Bool.false_eq_true, if_false, List.cons_append]
    rw [ih (fun x hx => h x (by simp [hx]))]

/-- the metadata after the header block: every line whose key the reader does not interpret, in
    the order written (distinct keys: `SetBytesKV` never overwrites). -/
theorem foldl_upd_md (env : Env) :
    ∀ (ls : List Args.KV) (st : HSt), (ls.map (·.1)).Nodup → (∀ kv ∈ st.md, kv.1 ∉ ls.map (·.1)) →
      (ls.foldl (upd env) st).md = st.md ++ ls.filter (fun kv => !readerKeys.contains kv.1) := by
  intro ls
  induction ls with
  | nil => intro st _ _; simp
  | cons kv r ih =>
    intro st hn hd
    simp only [List.map_cons, List.nodup_cons] at hn
    rw [List.foldl_cons]
    by_cases hr : kv.1 ∈ readerKeys
    · have hmd : (upd env st kv).md = st.md := by
        obtain ⟨k, v⟩ := kv
        simp only [readerKeys, List.mem_cons, List.not_mem_nil, or_false] at hr
        rcases hr with h | h | h | h | h <;> subst h
        · rw [upd_CT]
        · rw [upd_CL]
        · rw [upd_XCE]
        · rw [upd_XSeq]
        · rw [upd_XMtype]
      rw [ih _ hn.2 (by rw [hmd]; intro x hx hxe; exact hd x hx (by simp [hxe])), hmd]
      have : (!readerKeys.contains kv.1) = false := by simp [hr]
      simp only [List.filter_cons, this, Bool.false_eq_true, if_false]
    · have hne : ∀ x ∈ st.md, x.1 ≠ kv.1 := by
        intro x hx hxe
        exact hd x hx (by simp [hxe])
      have hmd : (upd env st kv).md = st.md ++ [kv] := by
        rw [upd_other env st kv hr]
        exact setKV_absent kv.1 kv.2 st.md hne
      rw [ih _ hn.2 (by
        rw [hmd]; intro x hx hxe
        rw [List.mem_append] at hx
        rcases hx with hx | hx
        · exact hd x hx (by simp [hxe])
        · simp only [List.mem_singleton] at hx
          exact hn.1 (hx ▸ hxe)), hmd]
      have : (!readerKeys.contains kv.1) = true := by simp [hr]
      simp only [List.filter_cons, this, if_true, List.append_assoc, List.singleton_append]

/-! ### `http.Header`: single-valued maps, sorting -/

/-- the header map that holds exactly these (key, value) pairs, one value per key. -/
def single (E : List Args.KV) : Hdr := E.map (fun kv => (kv.1, [kv.2]))

theorem hset_single (k v : Bytes) : ∀ (E : List Args.KV), (∀ kv ∈ E, kv.1 ≠ k) →
    hset k v (single E) = single (E ++ [(k, v)]) := by
  intro E
  induction E with
  | nil => intro _; rfl
  | cons e r ih =>
    intro h
    have : (e.1 == k) = false := by simpa using h e (by simp)
    simp only [single, List.map_cons, hset, this, Bool.false_eq_true, if_false, List.cons_append]
    have := ih (fun x hx => h x (by simp [hx]))
    simp only [single] at this
    rw [this]

theorem haddC_single (k v : Bytes) : ∀ (E : List Args.KV), (∀ kv ∈ E, kv.1 ≠ k) →
    haddC k v (single E) = single (E ++ [(k, v)]) := by
  intro E
  induction E with
  | nil => intro _; rfl
  | cons e r ih =>
    intro h
    have : (e.1 == k) = false := by simpa using h e (by simp)
    simp only [single, List.map_cons, haddC, this, Bool.false_eq_true, if_false, List.cons_append]
    have := ih (fun x hx => h x (by simp [hx]))
    simp only [single] at this
    rw [this]

/-- a metadata key that `Header.Add` stores unchanged and `Header.Write` prints. -/
def keyOK (k : Bytes) : Bool := validKey k && canonKey k == k

theorem addMeta_single : ∀ (md E : List Args.KV), (∀ kv ∈ md, keyOK kv.1 = true) →
    (md.map (·.1)).Nodup → (∀ kv ∈ md, ∀ e ∈ E, e.1 ≠ kv.1) →
    addMeta md (single E) = single (E ++ md) := by
  intro md
  induction md with
  | nil => intro E _ _ _; simp [addMeta]
  | cons kv r ih =>
    intro E hk hn hd
    obtain ⟨k, v⟩ := kv
    simp only [List.map_cons, List.nodup_cons] at hn
    have hk1 := hk (k, v) (by simp)
    simp only [keyOK, Bool.and_eq_true, beq_iff_eq] at hk1
    simp only [addMeta, hadd, hk1.1, if_true, hk1.2]
    rw [haddC_single k v E (fun e he => hd (k, v) (by simp) e he)]
    rw [ih (E ++ [(k, v)]) (fun x hx => hk x (by simp [hx])) hn.2 (by
      intro x hx e he
      rw [List.mem_append] at he
      rcases he with he | he
      · exact hd x (by simp [hx]) e he
      · simp only [List.mem_singleton] at he
        rw [he]
        intro hxe
        exact hn.1 (by rw [show k = x.1 from hxe]; exact List.mem_map_of_mem hx))]
    simp

theorem hins_perm (e : Bytes × List Bytes) : ∀ h : Hdr, (hins e h).Perm (e :: h) := by
  intro h
  induction h with
  | nil => exact List.Perm.refl _
  | cons f r ih =>
    simp only [hins]
    split
    · exact List.Perm.refl _
    · exact (List.Perm.cons f ih).trans (List.Perm.swap e f r)

theorem hsort_perm : ∀ h : Hdr, (hsort h).Perm h := by
  intro h
  induction h with
  | nil => exact List.Perm.refl _
  | cons e r ih => exact (hins_perm e (hsort r)).trans (List.Perm.cons e ih)

theorem flatMap_single (g : Bytes → Bytes) : ∀ E : List Args.KV,
    (single E).flatMap (fun e => e.2.map (fun v => (e.1, g v))) = E.map (fun kv => (kv.1, g kv.2)) := by
  intro E
  induction E with
  | nil => rfl
  | cons e r ih =>
    simp only [single, List.map_cons, List.flatMap_cons, List.map_nil, List.singleton_append] at ih ⊢
    rw [ih]

/-- the lines `Header.Write` prints for a single-valued map of clean values: a permutation (the
    sorted order) of the pairs themselves. -/
theorem hlines_single (E : List Args.KV) (hv : ∀ kv ∈ E, valueOK kv.2 = true) : (hlines (single E)).Perm E := by
  unfold hlines
  have h1 := List.Perm.flatMap_right (fun e : Bytes × List Bytes => e.2.map (fun v => (e.1, hval v))) (hsort_perm (single E))
  rw [flatMap_single hval E] at h1
  have h2 : E.map (fun kv => (kv.1, hval kv.2)) = E := by
    conv => rhs; rw [← List.map_id E]
    apply List.map_congr_left
    intro kv hkv
    rw [hval_id (hv kv hkv)]; rfl
  rw [h2] at h1
  exact h1

/-! ### numbers -/

theorem atoi_formatNat (n : Nat) (hn : n < 9223372036854775808) : atoi (Num.formatNat 8 n) = some (n : Int) := by
  obtain ⟨c, cs, hcs, h43, h45⟩ := Num.formatNat_head 8 (by decide) n
  have hp := Num.parseDigits_formatNat 8 (by decide) n (by
    have : (2:Nat)^64 = 18446744073709551616 := by decide
    omega)
  rw [hcs] at hp ⊢
  have e43 : (c == 43) = false := by simp [h43]
  have e45 : (c == 45) = false := by simp [h45]
  simp only [atoi, e43, e45, Bool.or_self, Bool.false_eq_true, if_false, hp, hn, if_true]

theorem atoi_formatInt (i : Int) (hi : Num.inInt32 i) : atoi (Num.formatInt 8 i) = some i := by
  unfold Num.inInt32 at hi
  unfold Num.formatInt
  by_cases hneg : i < 0
  · simp only [hneg, if_true]
    obtain ⟨c, cs, hcs, _, _⟩ := Num.formatNat_head 8 (by decide) i.natAbs
    have hp := Num.parseDigits_formatNat 8 (by decide) i.natAbs (by
      have : (2:Nat)^64 = 18446744073709551616 := by decide
      omega)
    rw [hcs] at hp ⊢
    have hle : i.natAbs ≤ 9223372036854775808 := by omega
    simp only [atoi, beq_self_eq_true, Bool.or_true, if_true, hp, hle]
    congr 1; omega
  · simp only [hneg, if_false]
    have := atoi_formatNat i.natAbs (by omega)
    rw [this]; congr 1; omega

theorem wrap32_id (i : Int) (hi : Num.inInt32 i) : wrap32 i = i := by
  unfold Num.inInt32 at hi
  unfold wrap32; omega

theorem byteOf_toNat (c : UInt8) : byteOf (c.toNat : Int) = c := by
  unfold byteOf
  have h := c.toNat_lt
  have : ((c.toNat : Int) % 256).toNat = c.toNat := by omega
  rw [this]
  simp

/-! ### `url.Parse` on a plain path -/

def pathByte (c : UInt8) : Bool := c > 32 && c != 127 && c != 37 && c != 63 && c != 35

/-- a service method that `packRequest` writes as it is and `Unpack` reads back as it is: no
    control byte, space, DEL, `%`, `?`, `#`; no authority (`//…`); no colon before the first `/`. -/
def methodOK (me : Bytes) : Bool :=
  me.all pathByte && !([47, 47].isPrefixOf me) && !((cutAt 47 me).1.contains 58)

theorem pathByte_facts : ∀ c, pathByte c = true →
    isCTL c = false ∧ c ≠ 32 ∧ c ≠ 10 ∧ c ≠ 37 ∧ c ≠ 63 ∧ c ≠ 35 := by
  apply forall_u8; decide +kernel

theorem pctDecode_plain : ∀ s : Bytes, (∀ c ∈ s, c ≠ 37) → pctDecode s = some s := by
  intro s
  induction s with
  | nil => intro _; rfl
  | cons c r ih =>
    intro h
    have hc : (c == 37) = false := by simpa using h c (by simp)
    unfold pctDecode
    simp only [hc, Bool.false_eq_true, if_false]
    rw [ih (fun x hx => h x (by simp [hx]))]; rfl

theorem getScheme_none : ∀ (s : Bytes) (first : Bool), (∀ c ∈ (cutAt 47 s).1, c ≠ 58) → getScheme first s = .none := by
  intro s
  induction s with
  | nil => intro _ _; rfl
  | cons c r ih =>
    intro first h
    unfold getScheme
    by_cases h47 : c = 47
    · subst h47
      have e1 : isAlpha 47 = false := by decide
      simp only [e1, Bool.false_eq_true, if_false]
      rw [if_neg (by decide), if_neg (by decide)]
    · have hcut : (cutAt 47 (c :: r)).1 = c :: (cutAt 47 r).1 := by
        have : (c == 47) = false := by simp [h47]
        simp only [cutAt, this, Bool.false_eq_true, if_false]
      rw [hcut] at h
      have ihr := fun f => ih f (fun x hx => h x (by simp [hx]))
      have hc58 : c ≠ 58 := h c (by simp)
      split
      · rw [ihr]; rfl
      · split
        · split
          · rfl
          · rw [ihr]; rfl
        · split
          · rename_i h58; exact absurd (by simpa using h58) hc58
          · rfl

theorem urlParse_plain (me : Bytes) (h : methodOK me = true) : urlParse me = .ok { path := me, query := [], host := [] } := by
  unfold methodOK at h
  simp only [Bool.and_eq_true, List.all_eq_true, Bool.not_eq_true', List.contains_eq_mem, decide_eq_false_iff_not] at h
  obtain ⟨⟨hall, hpre⟩, hcol⟩ := h
  have hf := fun c hc => pathByte_facts c (hall c hc)
  have h35 : cutAt 35 me = (me, none) := cutAt_notin 35 me (fun c hc => (hf c hc).2.2.2.2.2)
  have h63 : cutAt 63 me = (me, none) := cutAt_notin 63 me (fun c hc => (hf c hc).2.2.2.2.1)
  have hctl : me.any isCTL = false := by
    rw [List.any_eq_false]; intro c hc; simp [(hf c hc).1]
  have hsch : getScheme true me = .none := getScheme_none me true (fun c hc hce => hcol (hce ▸ hc))
  have hlast : (me.getLast? == some 63) = false := by
    cases hl : me.getLast? with
    | none => rfl
    | some x =>
      have : x ∈ me := List.mem_of_getLast? hl
      have := (hf x this).2.2.2.2.1
      simp [this]
  have hpct : pctDecode me = some me := pctDecode_plain me (fun c hc => (hf c hc).2.2.2.1)
  have hparse : parseNoFrag me = .ok { path := me, query := [], host := [] } := by
    unfold parseNoFrag
    simp only [hctl, Bool.false_eq_true, if_false, hsch, hlast, Bool.false_and, h63, Option.getD_none]
    by_cases hh : (me.head? != some 47) = true
    · simp only [hh, if_true]
      have : (cutAt 47 me).1.contains 58 = false := by
        simp only [List.contains_eq_mem, decide_eq_false_iff_not]; exact hcol
      simp only [this, Bool.false_eq_true, if_false, pathOf, hpct]
    · simp only [hh, if_false, hpre, Bool.false_and, Bool.false_eq_true, pathOf, hpct]
  unfold urlParse
  simp only [h35, hparse]

/-! ### first lines -/

theorem afterFirst_ok_line (env : Env) (limit n : Nat) (r : Bytes) :
    afterFirst env limit okLine n r = hloop env limit .ok r [] (hst0 2 []) okLine.length (max 5 (5 + n)) := by
  have h1 : (okLine.take 5 == sRespPrefix) = true := by decide
  have h2 : cutAt 32 okLine = (sVersion, some sOk) := by decide
  unfold afterFirst
  simp only [h1, if_true, h2, beq_self_eq_true]

theorem afterFirst_biz_line (env : Env) (limit n : Nat) (r : Bytes) :
    afterFirst env limit bizLine n r = hloop env limit .biz r [] (hst0 2 []) bizLine.length (max 5 (5 + n)) := by
  have h1 : (bizLine.take 5 == sRespPrefix) = true := by decide
  have h2 : cutAt 32 bizLine = (sVersion, some sBiz) := by decide
  have h3 : (sBiz == sOk) = false := by decide
  unfold afterFirst
  simp only [h1, if_true, h2, h3, Bool.false_eq_true, if_false, beq_self_eq_true]

theorem afterFirst_req_line (env : Env) (limit n : Nat) (r me : Bytes) (h : methodOK me = true) :
    afterFirst env limit (reqLine { path := me, query := [], host := [] }) n r =
      hloop env limit (.req me) r [] (hst0 1 []) (reqLine { path := me, query := [], host := [] }).length (max 5 (5 + n)) := by
  have hm := h
  unfold methodOK at hm
  simp only [Bool.and_eq_true, List.all_eq_true] at hm
  have h32 : ∀ c ∈ me, c ≠ 32 := fun c hc => (pathByte_facts c (hm.1.1 c hc)).2.1
  have hl : reqLine { path := me, query := [], host := [] } = sPost ++ 32 :: (me ++ 32 :: sVersion) := by
    simp [reqLine, reqTarget]
  have h1 : ((sPost ++ 32 :: (me ++ 32 :: sVersion)).take 5 == sRespPrefix) = false := by
    have : (sPost ++ 32 :: (me ++ 32 :: sVersion)).take 5 = [80, 79, 83, 84, 32] := rfl
    rw [this]; decide
  have h2 : cutAt 32 (sPost ++ 32 :: (me ++ 32 :: sVersion)) = (sPost, some (me ++ 32 :: sVersion)) :=
    cutAt_append 32 sPost _ (by decide)
  have h3 : cutAt 32 (me ++ 32 :: sVersion) = (me, some sVersion) := cutAt_append 32 me _ h32
  rw [hl]
  unfold afterFirst
  simp only [h1, Bool.false_eq_true, if_false, h2, h3, urlParse_plain me h, List.isEmpty_nil, if_true]

/-! ### a whole frame -/

theorem unpack_frame (env : Env) (lim : Nat) (kind : Kind) (st0 : HSt) (a b c d e : UInt8) (ln : Bytes)
    (lines : List Args.KV) (tail : Bytes)
    (hlf : ∀ x ∈ ln, x ≠ 10)
    (hfirst : ∀ n r, afterFirst env lim (a :: b :: c :: d :: e :: ln) n r =
      hloop env lim kind r [] st0 (a :: b :: c :: d :: e :: ln).length (max 5 (5 + n)))
    (hok : ∀ kv ∈ lines, lineOK env kv)
    (hb : 5 + ln.length + linesLen lines + 2 ≤ lim) :
    ∃ hi, unpack env lim ((a :: b :: c :: d :: e :: ln) ++ crlf ++ (render lines ++ (crlf ++ tail))) =
      finishBody env lim kind (lines.foldl (upd env) st0) (5 + ln.length + linesLen lines) hi tail := by
  have e1 : (a :: b :: c :: d :: e :: ln) ++ crlf ++ (render lines ++ (crlf ++ tail)) =
      a :: b :: c :: d :: e :: (ln ++ 13 :: 10 :: (render lines ++ (crlf ++ tail))) := by simp [crlf]
  rw [e1]
  unfold unpack
  simp only []
  rw [readLine_line lim 5 ln _ [] hlf (by simp only [List.length_nil]; omega)]
  simp only [List.reverse_nil, List.nil_append, List.length_nil, Nat.zero_add]
  have e2 : [a, b, c, d, e] ++ ln = a :: b :: c :: d :: e :: ln := rfl
  rw [e2, hfirst]
  have hlen : (a :: b :: c :: d :: e :: ln).length = 5 + ln.length := by simp only [List.length_cons]; omega
  rw [hlen]
  obtain ⟨hi', h'⟩ := hloop_lines env lim kind lines (crlf ++ tail) st0 (5 + ln.length) (max 5 (5 + (ln.length + 1))) hok (by omega)
  rw [h']
  have e3 : crlf ++ tail = 13 :: 10 :: tail := rfl
  rw [e3, hloop_blank env lim kind tail _ _ _ (by omega)]
  exact ⟨_, rfl⟩

theorem take?_append (a b : Bytes) : Raw.take? a.length (a ++ b) = some (a, b) := by
  unfold Raw.take?
  simp

/-- the body part: the announced length is the payload's, the transfer pipe gives the body back. -/
theorem finishBody_payload (env : Env) (lim : Nat) (kind : Kind) (st : HSt) (used hi : Nat) (payload rest body : Bytes)
    (hbs : st.bodySize = (payload.length : Int)) (hfit : used + payload.length ≤ lim)
    (hx : (payload = [] ∧ body = []) ∨ (payload ≠ [] ∧ Xfer.onUnpack env.reg st.pipe payload = some body)) :
    ∃ ask hi', finishBody env lim kind st used hi (payload ++ rest) = finish (deliver env lim kind st used body) rest ask hi' := by
  unfold finishBody
  rcases hx with ⟨hp, hb⟩ | ⟨hp, hu⟩
  · subst hp; subst hb
    have : st.bodySize ≤ 0 := by rw [hbs]; simp
    simp only [this, if_true, List.nil_append]
    exact ⟨_, _, rfl⟩
  · have hpos : 0 < payload.length := by
      cases payload with
      | nil => exact absurd rfl hp
      | cons x xs => simp
    have h1 : ¬ st.bodySize ≤ 0 := by rw [hbs]; omega
    have h2 : ¬ st.bodySize + (used : Int) > (lim : Int) := by rw [hbs]; omega
    have h3 : st.bodySize.toNat = payload.length := by rw [hbs]; simp
    simp only [h1, if_false, h2, h3, take?_append, hu]
    exact ⟨_, _, rfl⟩

/-! ### the protocol's own header lines are clean -/

theorem plain_facts1 : ∀ c : UInt8, c < 128 → asciiSpace c = false →
    (c == 0xC2) = false ∧ (c == 0xE1) = false ∧ (c == 0xE2) = false ∧ (c == 0xE3) = false := by
  apply forall_u8; decide +kernel

theorem plain_facts2 : ∀ c : UInt8, c < 128 →
    (c == 0x85) = false ∧ (c == 0xA0) = false ∧ (c == 0x80) = false ∧ (c == 0x9F) = false := by
  apply forall_u8; decide +kernel

theorem plain_facts3 : ∀ c : UInt8, c < 128 →
    (c == 0xA8) = false ∧ (c == 0xA9) = false ∧ (c == 0xAF) = false ∧ (decide (0x80 ≤ c)) = false := by
  apply forall_u8; decide +kernel

theorem spaceAt_plain (c : UInt8) (r : Bytes) (h1 : c < 128) (h2 : asciiSpace c = false) : spaceAt (c :: r) = 0 := by
  obtain ⟨a1, a2, a3, a4⟩ := plain_facts1 c h1 h2
  unfold spaceAt
  simp only [h2, a1, a2, a3, a4, Bool.false_eq_true, if_false]

theorem spaceAtRev_plain (e : UInt8) (r : Bytes) (h1 : e < 128) (h2 : asciiSpace e = false) : spaceAtRev (e :: r) = 0 := by
  obtain ⟨b1, b2, b3, b4⟩ := plain_facts2 e h1
  obtain ⟨b5, b6, b7, b8⟩ := plain_facts3 e h1
  unfold spaceAtRev
  simp only [h2, Bool.false_eq_true, if_false]
  cases r with
  | nil => rfl
  | cons d r2 =>
    simp only [b1, b2, Bool.or_self, Bool.and_false, Bool.false_eq_true, if_false]
    cases r2 with
    | nil => rfl
    | cons c r3 =>
      simp only [b3, b4, b5, b6, b7, b8, Bool.and_false, Bool.false_and, Bool.or_self, Bool.false_eq_true, if_false]

def numByte (c : UInt8) : Bool := c == 45 || (48 ≤ c && c ≤ 57)

theorem numByte_facts : ∀ c, numByte c = true → c < 128 ∧ asciiSpace c = false ∧ c ≠ 10 ∧ c ≠ 13 := by
  apply forall_u8; decide +kernel

theorem valueOK_num (v : Bytes) (hne : v ≠ []) (h : ∀ c ∈ v, numByte c = true) : valueOK v = true := by
  unfold valueOK
  have hall : v.all (fun c => c != 10 && c != 13) = true := by
    rw [List.all_eq_true]; intro c hc
    have := numByte_facts c (h c hc)
    simp [this.2.2.1, this.2.2.2]
  have h1 : spaceAt v = 0 := by
    cases v with
    | nil => exact absurd rfl hne
    | cons c r =>
      have := numByte_facts c (h c (by simp))
      exact spaceAt_plain c r this.1 this.2.1
  have h2 : spaceAtRev v.reverse = 0 := by
    cases hr : v.reverse with
    | nil => simp at hr; exact absurd hr hne
    | cons c r =>
      have hc : c ∈ v := by rw [← List.mem_reverse, hr]; simp
      have := numByte_facts c (h c hc)
      exact spaceAtRev_plain c r this.1 this.2.1
  simp only [hall, h1, h2, beq_self_eq_true, Bool.and_self]

theorem digitChar_num : ∀ d, d < 10 → numByte (Num.digitChar d) = true := by decide

theorem formatNat_num (n : Nat) : ∀ c ∈ Num.formatNat 8 n, numByte c = true := by
  intro c hc
  unfold Num.formatNat at hc
  rw [List.mem_map] at hc
  obtain ⟨d, hd, rfl⟩ := hc
  exact digitChar_num d (Num.digitsRev_lt 8 n d (List.mem_reverse.mp hd))

theorem formatNat_ne_nil (n : Nat) : Num.formatNat 8 n ≠ [] := by
  obtain ⟨c, cs, h, _⟩ := Num.formatNat_head 8 (by decide) n
  rw [h]; simp

theorem valueOK_formatNat (n : Nat) : valueOK (Num.formatNat 8 n) = true :=
  valueOK_num _ (formatNat_ne_nil n) (formatNat_num n)

theorem valueOK_formatInt (i : Int) : valueOK (Num.formatInt 8 i) = true := by
  unfold Num.formatInt
  split
  · exact valueOK_num _ (by simp) (by
      intro c hc
      rcases List.mem_cons.mp hc with h | h
      · rw [h]; decide
      · exact formatNat_num _ c h)
  · exact valueOK_formatNat _

theorem tokenByte_facts : ∀ c, tokenByte c = true → c ≠ 10 ∧ c ≠ 58 := by
  apply forall_u8; decide +kernel

def ownKeys : List Bytes := [kCT, kCL, kXCE, kXSeq, kXMtype, kCE, kHost, kUA, kAE]

theorem lineErr_other (env : Env) (kv : Args.KV) (h : kv.1 ∉ readerKeys) : lineErr env kv = none := by
  simp only [readerKeys, List.mem_cons, List.not_mem_nil, or_false, not_or] at h
  obtain ⟨h1, h2, h3, h4, h5⟩ := h
  unfold lineErr
  rw [if_neg (by simpa using h1), if_neg (by simpa using h2), if_neg (by simpa using h3),
    if_neg (by simpa using h4), if_neg (by simpa using h5)]

theorem not_reader_of_not_own {k : Bytes} (h : k ∉ ownKeys) : k ∉ readerKeys := by
  intro hr
  apply h
  simp only [readerKeys, List.mem_cons, List.not_mem_nil, or_false] at hr
  simp only [ownKeys, List.mem_cons, List.not_mem_nil, or_false]
  rcases hr with h | h | h | h | h <;> simp [h]

/-- a metadata pair inside the supported set: canonical token key that is not one of the
    protocol's own header names, clean value. -/
def pairOK (kv : Args.KV) : Bool := keyOK kv.1 && !ownKeys.contains kv.1 && valueOK kv.2

theorem pairOK_parts {kv : Args.KV} (h : pairOK kv = true) :
    keyOK kv.1 = true ∧ kv.1 ∉ ownKeys ∧ valueOK kv.2 = true := by
  unfold pairOK at h
  simp only [Bool.and_eq_true, Bool.not_eq_true', List.contains_eq_mem, decide_eq_false_iff_not] at h
  exact ⟨h.1.1, h.1.2, h.2⟩

theorem lineOK_pair (env : Env) (kv : Args.KV) (h : pairOK kv = true) : lineOK env kv := by
  obtain ⟨hk, hown, hv⟩ := pairOK_parts h
  refine ⟨?_, hv, lineErr_other env kv (not_reader_of_not_own hown)⟩
  intro c hc
  unfold keyOK validKey at hk
  simp only [Bool.and_eq_true, Bool.not_eq_true', List.all_eq_true] at hk
  exact tokenByte_facts c (hk.1.2 c hc)

theorem lineOK_XSeq (env : Env) (i : Int) (hi : Num.inInt32 i) : lineOK env (kXSeq, Num.formatInt 8 i) := by
  refine ⟨by intro c hc; dsimp only at hc; revert c; decide, valueOK_formatInt i, ?_⟩
  unfold lineErr; dsimp only
  rw [if_neg (by decide), if_neg (by decide), if_neg (by decide), if_pos (by decide), atoi_formatInt i hi]; rfl

theorem lineOK_XMtype (env : Env) (n : Nat) (hn : n < 256) : lineOK env (kXMtype, Num.formatNat 8 n) := by
  refine ⟨by intro c hc; dsimp only at hc; revert c; decide, valueOK_formatNat n, ?_⟩
  unfold lineErr; dsimp only
  rw [if_neg (by decide), if_neg (by decide), if_neg (by decide), if_neg (by decide), if_pos (by decide),
    atoi_formatNat n (by omega)]; rfl

theorem lineOK_CL (env : Env) (n : Nat) (hn : n < 9223372036854775808) : lineOK env (kCL, Num.formatNat 8 n) := by
  refine ⟨by intro c hc; dsimp only at hc; revert c; decide, valueOK_formatNat n, ?_⟩
  unfold lineErr; dsimp only
  rw [if_neg (by decide), if_pos (by decide), atoi_formatNat n hn]; rfl

theorem lineOK_CT (env : Env) (v : Bytes) (hv : valueOK v = true) : lineOK env (kCT, v) := by
  refine ⟨by intro c hc; dsimp only at hc; revert c; decide, hv, ?_⟩
  unfold lineErr; dsimp only
  rw [if_pos (by decide)]

theorem lineOK_XCE (env : Env) (name : Bytes) (hv : valueOK name = true) (g : UInt8) (hb : env.byName name = some g) :
    lineOK env (kXCE, name) := by
  refine ⟨by intro c hc; dsimp only at hc; revert c; decide, hv, ?_⟩
  unfold lineErr; dsimp only
  rw [if_neg (by decide), if_neg (by decide), if_pos (by decide), hb]; rfl

theorem lineOK_closed (env : Env) (k v : Bytes) (hk : (k.all (fun c => c != 10 && c != 58) && !readerKeys.contains k && valueOK v) = true) :
    lineOK env (k, v) := by
  simp only [Bool.and_eq_true, List.all_eq_true, bne_iff_ne, ne_eq, Bool.not_eq_true', List.contains_eq_mem,
    decide_eq_false_iff_not] at hk
  exact ⟨fun c hc => hk.1.1 c hc, hk.2, lineErr_other env (k, v) hk.1.2⟩

theorem valueOK_contentType (codec : UInt8) (dflt : Bytes) (hd : valueOK dflt = true) :
    valueOK (contentType codec dflt) = true := by
  unfold contentType
  split; · decide
  split; · decide
  split; · decide
  split; · decide
  split; · decide
  exact hd

def codecOK (c : UInt8) : Bool := c == 106 || c == 112 || c == 102 || c == 115 || c == 120

theorem bodyCodec_contentType (codec : UInt8) (dflt : Bytes) (h : codecOK codec = true) :
    bodyCodec (contentType codec dflt) = codec := by
  unfold codecOK at h
  simp only [Bool.or_eq_true, beq_iff_eq] at h
  rcases h with (((h | h) | h) | h) | h <;> subst h
  · rw [show contentType 106 dflt = ctJson ++ charset from rfl]; decide
  · rw [show contentType 112 dflt = ctPb ++ charset from rfl]; decide
  · rw [show contentType 102 dflt = ctForm ++ charset from rfl]; decide
  · rw [show contentType 115 dflt = ctPlain ++ charset from rfl]; decide
  · rw [show contentType 120 dflt = ctXml ++ charset from rfl]; decide

/-! ### the state after the header block of a frame that `Pack` wrote -/

theorem upd_keep_seq (env : Env) (st : HSt) (kv : Args.KV) (h : kv.1 ≠ kXSeq) : (upd env st kv).seq = st.seq := by
  unfold upd
  split; · rfl
  split; · rfl
  split; · rfl
  split; · rename_i hh; exact absurd (by simpa using hh) h
  split <;> rfl

theorem upd_keep_mtype (env : Env) (st : HSt) (kv : Args.KV) (h : kv.1 ≠ kXMtype) : (upd env st kv).mtype = st.mtype := by
  unfold upd
  split; · rfl
  split; · rfl
  split; · rfl
  split; · rfl
  split
  · rename_i hh; exact absurd (by simpa using hh) h
  · rfl

theorem upd_keep_codec (env : Env) (st : HSt) (kv : Args.KV) (h : kv.1 ≠ kCT) : (upd env st kv).codec = st.codec := by
  unfold upd
  split; · rename_i hh; exact absurd (by simpa using hh) h
  split; · rfl
  split; · rfl
  split; · rfl
  split <;> rfl

theorem upd_keep_pipe (env : Env) (st : HSt) (kv : Args.KV) (h : kv.1 ≠ kXCE) : (upd env st kv).pipe = st.pipe := by
  unfold upd
  split; · rfl
  split; · rfl
  split; · rename_i hh; exact absurd (by simpa using hh) h
  split; · rfl
  split <;> rfl

theorem upd_keep_bs (env : Env) (st : HSt) (kv : Args.KV) (h : kv.1 ≠ kCL) : (upd env st kv).bodySize = st.bodySize := by
  unfold upd
  split; · rfl
  split; · rename_i hh; exact absurd (by simpa using hh) h
  split; · rfl
  split; · rfl
  split <;> rfl

theorem upd_keep_cl (env : Env) (st : HSt) (kv : Args.KV) (h : kv.1 ≠ kCL) : (upd env st kv).clSum = st.clSum := by
  unfold upd
  split; · rfl
  split; · rename_i hh; exact absurd (by simpa using hh) h
  split; · rfl
  split; · rfl
  split <;> rfl

theorem addFilter_one (env : Env) (name : Bytes) (g : UInt8) (hb : env.byName name = some g)
    (hr : (env.reg g).isSome = true) : addFilter env [] name = [g] := by
  unfold addFilter
  simp only [hb, Xfer.append, List.all_cons, hr, List.all_nil, Bool.and_self, if_true, List.nil_append,
    List.length_cons, List.length_nil]
  rfl

/-- what the reader has stored after the header block `Header.Write` printed for the single-valued
    map `E`, in terms of membership in `E` alone (the printed order is the sorted one). -/
theorem head_facts (env : Env) (E : List Args.KV) (mt : UInt8) (m : Msg) (ct : Bytes) (n : Nat)
    (hok : ∀ kv ∈ E, lineOK env kv) (hn : (E.map (·.1)).Nodup)
    (hseq : (kXSeq, Num.formatInt 8 m.seq) ∈ E) (hiseq : Num.inInt32 m.seq)
    (hmt : (kXMtype, Num.formatNat 8 m.mtype.toNat) ∈ E)
    (hct : (kCT, ct) ∈ E) (hcl : (kCL, Num.formatNat 8 n) ∈ E) (hnb : n < 9223372036854775808)
    (hpipe : (m.pipe = [] ∧ ∀ kv ∈ E, kv.1 ≠ kXCE) ∨
      (∃ g, m.pipe = [g] ∧ (kXCE, env.fname g) ∈ E ∧ env.byName (env.fname g) = some g ∧ (env.reg g).isSome = true)) :
    (hlines (single E)).Perm E ∧
    ((hlines (single E)).foldl (upd env) (hst0 mt [])).seq = m.seq ∧
    ((hlines (single E)).foldl (upd env) (hst0 mt [])).mtype = m.mtype ∧
    ((hlines (single E)).foldl (upd env) (hst0 mt [])).codec = bodyCodec ct ∧
    ((hlines (single E)).foldl (upd env) (hst0 mt [])).pipe = m.pipe ∧
    ((hlines (single E)).foldl (upd env) (hst0 mt [])).bodySize = (n : Int) ∧
    ((hlines (single E)).foldl (upd env) (hst0 mt [])).clSum = (n : Int) ∧
    ((hlines (single E)).foldl (upd env) (hst0 mt [])).md = (hlines (single E)).filter (fun kv => !readerKeys.contains kv.1) := by
  have P : (hlines (single E)).Perm E := hlines_single E (fun kv hkv => (hok kv hkv).2.1)
  have hnl : ((hlines (single E)).map (·.1)).Nodup := ((P.map (·.1)).nodup_iff).mpr hn
  have mem : ∀ kv, kv ∈ E → kv ∈ hlines (single E) := fun kv h => (P.mem_iff).mpr h
  refine ⟨P, ?_, ?_, ?_, ?_, ?_, ?_, ?_⟩
  · rw [foldl_upd_set env (·.seq) kXSeq (fun _ v => wrap32 ((atoi v).getD 0)) (upd_keep_seq env)
      (fun st v => by rw [upd_XSeq]) _ _ _ hnl (mem _ hseq)]
    simp only [atoi_formatInt m.seq hiseq, Option.getD_some, wrap32_id m.seq hiseq]
  · rw [foldl_upd_set env (·.mtype) kXMtype (fun _ v => byteOf ((atoi v).getD 0)) (upd_keep_mtype env)
      (fun st v => by rw [upd_XMtype]) _ _ _ hnl (mem _ hmt)]
    have := m.mtype.toNat_lt
    simp only [atoi_formatNat m.mtype.toNat (by omega), Option.getD_some, byteOf_toNat]
  · rw [foldl_upd_set env (·.codec) kCT (fun _ v => bodyCodec v) (upd_keep_codec env)
      (fun st v => by rw [upd_CT]) _ _ _ hnl (mem _ hct)]
  · rcases hpipe with ⟨hp, hno⟩ | ⟨g, hp, hx, hb, hr⟩
    · rw [foldl_upd_keep env (·.pipe) kXCE (upd_keep_pipe env) _ _ (fun kv hkv => hno kv ((P.mem_iff).mp hkv)), hp]
      rfl
    · rw [foldl_upd_set env (·.pipe) kXCE (fun old v => addFilter env old v) (upd_keep_pipe env)
        (fun st v => by rw [upd_XCE]) _ _ _ hnl (mem _ hx), hp]
      exact addFilter_one env _ g hb hr
  · rw [foldl_upd_set env (·.bodySize) kCL (fun _ v => (atoi v).getD 0) (upd_keep_bs env)
      (fun st v => by rw [upd_CL]) _ _ _ hnl (mem _ hcl)]
    simp only [atoi_formatNat n hnb, Option.getD_some]
  · rw [foldl_upd_set env (·.clSum) kCL (fun old v => old + (atoi v).getD 0) (upd_keep_cl env)
      (fun st v => by rw [upd_CL]) _ _ _ hnl (mem _ hcl)]
    simp only [atoi_formatNat n hnb, Option.getD_some, hst0]; omega
  · have := foldl_upd_md env (hlines (single E)) (hst0 mt []) hnl (by intro kv hkv; cases hkv)
    rw [this]; rfl

def hsetAll (post : List Args.KV) (h : Hdr) : Hdr := post.foldl (fun h kv => hset kv.1 kv.2 h) h

theorem hsetAll_single : ∀ (post E : List Args.KV), (post.map (·.1)).Nodup → (∀ kv ∈ post, ∀ e ∈ E, e.1 ≠ kv.1) →
    hsetAll post (single E) = single (E ++ post) := by
  intro post
  induction post with
  | nil => intro E _ _; simp [hsetAll]
  | cons kv r ih =>
    intro E hn hd
    simp only [List.map_cons, List.nodup_cons] at hn
    simp only [hsetAll, List.foldl_cons]
    rw [hset_single kv.1 kv.2 E (fun e he => hd kv (by simp) e he)]
    have := ih (E ++ [(kv.1, kv.2)]) hn.2 (by
      intro x hx e he
      rw [List.mem_append] at he
      rcases he with he | he
      · exact hd x (by simp [hx]) e he
      · simp only [List.mem_singleton] at he
        rw [he]; intro hxe
        exact hn.1 (by rw [show kv.1 = x.1 from hxe]; exact List.mem_map_of_mem hx))
    simp only [hsetAll] at this
    rw [this]; simp

end HttpP
end Teleport
