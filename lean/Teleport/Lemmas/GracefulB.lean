/-
Lemmas/GracefulB — preservation of the remaining clauses of `SInv` (split for parallel builds).
-/
import Teleport.Lemmas.Graceful
namespace Teleport.Graceful

theorem step_wait_c {s t : St} {e : Ev} (hI : SInv s) (hs : step s e = some t) :
    4 ≤ t.closer.rank → ∀ c ∈ t.cs, c.late = false → c.isOpen = false := by
  have hl := hI.wait_c
  have hc := hI.calls_eq
  c08_step_cases hs
  all_goals first
    | exact hl
    | (intro hr; c08_fset (hl hr); intro _ hp hq; have := hp hq; simp_all [C.isOpen]; done)
    | (intro hr; c08_fset (hl hr); intro _ _ hq; simp [hr] at hq; done)
    | (intro hr; apply forall_snoc (hl hr); simp [C.isOpen])
    | (intro hr; apply hl; simp_all [XPc.rank]; done)
    | (intro _ h hh _; have h0 : List.countP C.isOpen s.cs = 0 := by rw [← hc]; exact (‹_ ∧ _›).2
       have := (List.countP_eq_zero.1 h0) h hh; simpa using this)

theorem step_ebc_h {s t : St} {e : Ev} (hI : SInv s) (hs : step s e = some t) :
    ∀ h ∈ t.hs, h.ebc = true → h.late = false := by
  have hl := hI.ebc_h
  have hlate := hI.late_h
  c08_step_cases hs
  all_goals first
    | exact hl
    | (c08_fset hl; exact fun _ => id)
    | (c08_fset hl; intro hm _ hq; simp at hq; simpa [hq, XPc.rank] using hlate _ hm)
    | (apply forall_snoc hl; cases ‹Frame› <;> simp [H.ofFrame])
    | (apply forall_snoc hl; simp)

theorem step_st_rank {s t : St} {e : Ev} (hI : SInv s) (hs : step s e = some t) :
    1 ≤ t.closer.rank → t.status ≠ .ok := by
  have hl := hI.st_rank
  c08_step_cases hs
  all_goals first
    | exact hl
    | (simp_all [XPc.rank]; done)

theorem step_hres {s t : St} {e : Ev} (hI : SInv s) (hs : step s e = some t) :
    ∀ h ∈ t.hs, h.kind = .call →
    (h.pc = .wrote → h.res = .ok) ∧ (h.pc = .failed → h.res = .lost) ∧ (h.pc = .fin → h.res ≠ .none) ∧
    h.pc ≠ .rdone := by
  have hl := hI.hres
  c08_step_cases hs
  all_goals first
    | exact hl
    | (c08_fset hl; intro _ hp hk; have := hp hk; simp_all; done)
    | (c08_fset hl; intro _ hp hk; have := hp hk; rcases ‹_ ∨ _› with h | h | h | h <;> simp_all; done)
    | (apply forall_snoc hl; cases ‹Frame› <;> simp [H.ofFrame])
    | (apply forall_snoc hl; simp)

theorem step_cflags {s t : St} {e : Ev} (hI : SInv s) (hs : step s e = some t) :
    ∀ c ∈ t.cs, (c.chk = true → c.late = false) ∧
    (c.pc = .seq ∨ c.pc = .issued ∨ c.pc = .wno ∨ c.pc = .done .refused → c.chk = false) ∧
    (c.pc = .wok → c.chk = true) ∧
    (c.deliv = true → c.pc = .bound ∨ c.pc = .done .reply) ∧
    (c.pc = .bound ∨ c.pc = .done .reply → c.deliv = true) := by
  have hl := hI.cflags
  have hlate := hI.late_c
  have hsr := hI.st_rank
  c08_step_cases hs
  all_goals first
    | exact hl
    | (c08_fset hl; intro _ hp; simp_all; done)
    | (c08_fset hl; intro hm hp; have := hlate _ hm; simp_all [callAllowed]; done)
    | (apply forall_snoc hl; simp)

end Teleport.Graceful
