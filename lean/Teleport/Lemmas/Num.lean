import Teleport.Model.Num
namespace Teleport
namespace Num

theorem digitVal_digitChar : ∀ d, d < 36 → digitVal (digitChar d) = some d := by decide

theorem digitChar_not_sign : ∀ d, d < 36 → digitChar d ≠ 43 ∧ digitChar d ≠ 45 := by decide

theorem digitsRevF_lt (b f n : Nat) : ∀ d ∈ digitsRevF b f n, d < b + 2 := by
  induction f generalizing n with
  | zero => intro d hd; simp [digitsRevF] at hd; subst hd; exact Nat.mod_lt _ (by omega)
  | succ f ih =>
    unfold digitsRevF
    split
    · intro d hd; simp at hd; omega
    · intro d hd
      rcases List.mem_cons.mp hd with h | h
      · subst h; exact Nat.mod_lt _ (by omega)
      · exact ih _ d h

theorem digitsRev_lt (b n : Nat) : ∀ d ∈ digitsRev b n, d < b + 2 := digitsRevF_lt b 64 n

theorem digitsRevF_ne_nil (b f n : Nat) : digitsRevF b f n ≠ [] := by
  cases f <;> unfold digitsRevF
  · simp
  · split <;> simp

theorem digitsRev_ne_nil (b n : Nat) : digitsRev b n ≠ [] := digitsRevF_ne_nil b 64 n

/-- value of a little-endian digit list. -/
def valLE (base : Nat) : List Nat → Nat
  | [] => 0
  | d :: ds => d + base * valLE base ds

theorem valLE_digitsRevF (b f n : Nat) (h : n < (b + 2) ^ (f + 1)) : valLE (b + 2) (digitsRevF b f n) = n := by
  induction f generalizing n with
  | zero =>
    have : n < b + 2 := by simpa using h
    simp [digitsRevF, valLE, Nat.mod_eq_of_lt this]
  | succ f ih =>
    unfold digitsRevF
    split
    · simp [valLE]
    · simp only [valLE]
      have : n / (b + 2) < (b + 2) ^ (f + 1) := by
        apply Nat.div_lt_of_lt_mul
        rw [Nat.pow_succ] at h
        rw [Nat.mul_comm]; exact h
      rw [ih _ this]
      exact Nat.mod_add_div n (b + 2)

theorem valLE_digitsRev (b n : Nat) (h : n < 2 ^ 64) : valLE (b + 2) (digitsRev b n) = n := by
  apply valLE_digitsRevF
  have h1 : 2 ^ (64 + 1) ≤ (b + 2) ^ (64 + 1) := Nat.pow_le_pow_left (by omega) (64 + 1)
  have h2 : (2:Nat) ^ 64 < 2 ^ (64 + 1) := by decide
  exact Nat.lt_of_lt_of_le (Nat.lt_trans h h2) h1

theorem parseDigits_map (base : Nat) (hb : base ≤ 36) (l : List Nat) (h : ∀ d ∈ l, d < base) (acc : Nat) :
    parseDigits base (l.map digitChar) acc = some (l.foldl (fun a d => a * base + d) acc) := by
  induction l generalizing acc with
  | nil => rfl
  | cons d ds ih =>
    have hd : d < base := h d (by simp)
    simp only [List.map_cons, parseDigits, digitVal_digitChar d (by omega), hd, if_true, List.foldl_cons]
    exact ih (fun x hx => h x (by simp [hx])) _

theorem foldl_reverse_valLE (base : Nat) (l : List Nat) :
    l.reverse.foldl (fun a d => a * base + d) 0 = valLE base l := by
  induction l with
  | nil => rfl
  | cons d ds ih =>
    simp only [List.reverse_cons, List.foldl_append, List.foldl_cons, List.foldl_nil, ih, valLE]
    rw [Nat.mul_comm]; omega

theorem parseDigits_formatNat (b : Nat) (hb : b + 2 ≤ 36) (n : Nat) (hn : n < 2 ^ 64) :
    parseDigits (b + 2) (formatNat b n) 0 = some n := by
  unfold formatNat
  rw [parseDigits_map (b + 2) hb _ (by
    intro d hd; exact digitsRev_lt b n d (List.mem_reverse.mp hd))]
  rw [foldl_reverse_valLE, valLE_digitsRev b n hn]

theorem formatNat_head (b : Nat) (hb : b + 2 ≤ 36) (n : Nat) :
    ∃ c cs, formatNat b n = c :: cs ∧ c ≠ 43 ∧ c ≠ 45 := by
  unfold formatNat
  cases h : (digitsRev b n).reverse with
  | nil => simp [digitsRev_ne_nil] at h
  | cons d ds =>
    refine ⟨digitChar d, ds.map digitChar, rfl, ?_⟩
    have : d ∈ (digitsRev b n).reverse := by rw [h]; simp
    have hd := digitsRev_lt b n d (List.mem_reverse.mp this)
    exact digitChar_not_sign d (by omega)

/-- `ParseInt(FormatInt(i, base), base, 32) = i` for every int32 `i`, base 2..36. -/
theorem parseInt32_formatInt (b : Nat) (hb : b + 2 ≤ 36) (i : Int) (hi : inInt32 i) :
    parseInt32 (b + 2) (formatInt b i) = (i, none) := by
  unfold inInt32 at hi
  unfold formatInt
  obtain ⟨c, cs, hcs, h43, h45⟩ := formatNat_head b hb i.natAbs
  have hp := parseDigits_formatNat b hb i.natAbs (by have : (2:Nat)^64 = 18446744073709551616 := by decide
                                                     omega)
  by_cases hneg : i < 0
  · simp only [hneg, if_true]
    unfold parseInt32
    simp only [beq_self_eq_true, Bool.or_true, if_true]
    rw [hcs] at hp ⊢
    simp only [hp]
    have h1 : ¬ (i.natAbs > 2147483648) := by omega
    simp [h1]
    omega
  · simp only [hneg, if_false]
    rw [hcs] at hp ⊢
    unfold parseInt32
    have e43 : (c == 43) = false := by simp [h43]
    have e45 : (c == 45) = false := by simp [h45]
    simp only [e43, e45, Bool.or_self, Bool.false_eq_true, if_false, hp]
    have h1 : ¬ (i.natAbs ≥ 2147483648) := by omega
    simp [h1]
    omega

theorem parseInt32?_formatInt (b : Nat) (hb : b + 2 ≤ 36) (i : Int) (hi : inInt32 i) :
    parseInt32? (b + 2) (formatInt b i) = some i := by
  unfold parseInt32?; rw [parseInt32_formatInt b hb i hi]

end Num
end Teleport
