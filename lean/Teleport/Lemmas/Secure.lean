/-
Lemmas/Secure — helper lemmas for the secure-plugin model: the laws assumed of the abstract cipher
and envelope codec, stage-by-stage equations, and a small concrete lawful instance used for the
non-vacuity examples and the witness theorems.
-/
import Teleport.Model.Secure
namespace Teleport
namespace Secure

/-- the only law assumed of AES (`goutil.AESDecrypt(k, goutil.AESEncrypt(k, x)) = x, nil`). -/
def Cipher.Lawful (C : Cipher) : Prop := ∀ k x, C.dec k (C.enc k x) = .ok x

/-- the law assumed of a body codec "able to carry the envelope": the `Encrypt` object round-trips,
    and an envelope with a non-empty version is never written as zero bytes. -/
def EnvCodec.Lawful (E : EnvCodec) : Prop :=
  (∀ v c, E.unmar (E.mar v c) = some (v, c)) ∧ (∀ v c, E.mar v c = [] → v = [])

theorem isSecure_iff (v : Option Bytes) : isSecure v = true ↔ v = some trueB := by
  simp [isSecure]

theorem isSecure_false_iff (v : Option Bytes) : isSecure v = false ↔ v ≠ some trueB := by
  simp [isSecure]

theorem isSecure_true : isSecure (some trueB) = true := by simp [isSecure]

theorem isSecure_none : isSecure none = false := by simp [isSecure]

theorem readEnv_mar (E : EnvCodec) (hE : E.Lawful) (v c : Bytes) (hv : v ≠ []) :
    readEnv E (E.mar v c) = some (v, c) := by
  unfold readEnv
  split
  · next h => exact absurd (hE.2 v c h) hv
  · exact hE.1 v c

/-! #### write side -/

theorem preWrite_status (C : Cipher) (E : EnvCodec) (k : Bytes) (sw : Bool) (m : Marks) (b : Bytes) :
    preWrite C E k true sw m b = (m, b) := by simp [preWrite]

theorem preWrite_enc (C : Cipher) (E : EnvCodec) (k : Bytes) (sw : Bool) (m : Marks) (b : Bytes)
    (h : isSecure m.sec = true ∨ sw = true) :
    preWrite C E k false sw m b = ({ m with sec := some trueB }, E.mar (C.ver k) (C.enc k b)) := by
  unfold preWrite
  rcases h with h | h <;> simp [h]

theorem preWrite_clear (C : Cipher) (E : EnvCodec) (k : Bytes) (m : Marks) (b : Bytes)
    (h : isSecure m.sec = false) :
    preWrite C E k false false m b = ({ m with sec := none }, b) := by
  unfold preWrite
  simp [h]

theorem callFrame_enc (cfg : Cfg) (m : Marks) (b : Bytes) (h : isSecure m.sec = true) :
    callFrame cfg m b = ⟨{ m with sec := some trueB }, cfg.E.mar (cfg.C.ver cfg.kc) (cfg.C.enc cfg.kc b), .ok⟩ := by
  simp [callFrame, preWrite_enc _ _ _ _ _ _ (Or.inl h)]

theorem callFrame_clear (cfg : Cfg) (m : Marks) (b : Bytes) (h : isSecure m.sec = false) :
    callFrame cfg m b = ⟨{ m with sec := none }, b, .ok⟩ := by
  simp [callFrame, preWrite_clear _ _ _ _ _ h]

/-- the frame written for a call keeps the accept marker and has an OK status. -/
theorem callFrame_acc (cfg : Cfg) (m : Marks) (b : Bytes) : (callFrame cfg m b).mks.acc = m.acc := by
  cases h : isSecure m.sec
  · rw [callFrame_clear cfg m b h]
  · rw [callFrame_enc cfg m b h]

/-! #### read side -/

theorem postRead_same (C : Cipher) (hC : C.Lawful) (k x : Bytes) (hv : C.ver k ≠ []) :
    postRead C k (C.ver k) (C.enc k x) = .deliver x := by
  simp [postRead, hv, hC k x]

theorem postRead_wrong (C : Cipher) (k v c : Bytes) (hv : v ≠ [])
    (h : v ≠ C.ver k ∨ C.dec k c = .err) : postRead C k v c = .fail .secure := by
  unfold postRead
  rw [if_neg hv]
  by_cases hvk : v = C.ver k
  · rcases h with h | h
    · exact absurd hvk h
    · simp [hvk, h]
  · simp [hvk]

theorem postRead_empty (C : Cipher) (k c : Bytes) : postRead C k [] c = .deliver [] := by
  simp [postRead]

theorem readBody_clear (C : Cipher) (E : EnvCodec) (k : Bytes) (fr : Frame)
    (h : isSecure fr.mks.sec = false) : readBody C E k fr = .deliver fr.body := by
  simp [readBody, useDecrypt, h]

theorem readBody_env (C : Cipher) (E : EnvCodec) (hE : E.Lawful) (k : Bytes) (fr : Frame)
    (v c : Bytes) (hv : v ≠ []) (hs : isSecure fr.mks.sec = true) (hb : fr.body = E.mar v c) :
    readBody C E k fr = postRead C k v c := by
  simp [readBody, useDecrypt, hs, hb, readEnv_mar E hE v c hv]

theorem serveCall_deliver (cfg : Cfg) (q : Frame) (h : Bytes → HRes) (a : Bytes)
    (hr : readBody cfg.C cfg.E cfg.ks q = .deliver a) :
    serveCall cfg q h =
      if (h a).ok then
        (true, some a, ⟨(preWrite cfg.C cfg.E cfg.ks false (storesAccept q.mks) (h a).mks (h a).body).1,
                        (preWrite cfg.C cfg.E cfg.ks false (storesAccept q.mks) (h a).mks (h a).body).2, .ok⟩)
      else (true, some a, ⟨(h a).mks, [], .handler⟩) := by
  simp [serveCall, hr]

theorem serveCall_fail (cfg : Cfg) (q : Frame) (h : Bytes → HRes) (s : St)
    (hr : readBody cfg.C cfg.E cfg.ks q = .fail s) :
    serveCall cfg q h = (false, none, ⟨⟨none, none⟩, [], s⟩) := by
  simp [serveCall, hr]

theorem readReply_notok (cfg : Cfg) (p : Frame) (h : p.st ≠ .ok) :
    readReply cfg p = (p.st, none, false) := by
  simp [readReply, h]

theorem readReply_clear (cfg : Cfg) (p : Frame) (hst : p.st = .ok) (h : isSecure p.mks.sec = false) :
    readReply cfg p = (.ok, some p.body, false) := by
  simp [readReply, hst, useDecrypt, h]

theorem readReply_env (cfg : Cfg) (hE : cfg.E.Lawful) (p : Frame) (v c : Bytes) (hv : v ≠ [])
    (hst : p.st = .ok) (hs : isSecure p.mks.sec = true) (hb : p.body = cfg.E.mar v c) :
    readReply cfg p = replyOf (postRead cfg.C cfg.kc v c) := by
  simp [readReply, hst, useDecrypt, hs, hb, readEnv_mar cfg.E hE v c hv]

/-- the accept decision only looks at the marker classes. -/
theorem storesAccept_plan (m : Marks) :
    storesAccept m = planAccept (secClass m.sec) (accClass m.acc) := by
  obtain ⟨s, a⟩ := m
  have e1 : ([] : Bytes) ≠ falseB := by simp [falseB]
  have e2 : ([] : Bytes) ≠ trueB := by simp [trueB]
  have e3 : trueB ≠ falseB := by simp [trueB, falseB]
  have e4 : falseB ≠ trueB := by simp [trueB, falseB]
  cases s with
  | none =>
    cases a with
    | none => simp [storesAccept, planAccept, secClass, accClass, isSecure, e2]
    | some a =>
      by_cases h1 : a = trueB
      · simp [storesAccept, planAccept, secClass, accClass, isSecure, h1]
      · by_cases h2 : a = falseB <;> simp [storesAccept, planAccept, secClass, accClass, isSecure, h1, h2]
  | some s =>
    by_cases hs : s = trueB
    · cases a with
      | none => simp [storesAccept, planAccept, secClass, accClass, isSecure, hs, e1]
      | some a =>
        by_cases h1 : a = trueB
        · simp [storesAccept, planAccept, secClass, accClass, isSecure, hs, h1, e3]
        · by_cases h2 : a = falseB <;> simp [storesAccept, planAccept, secClass, accClass, isSecure, hs, h1, h2, e4]
    · cases a with
      | none => simp [storesAccept, planAccept, secClass, accClass, isSecure, hs, e2]
      | some a =>
        by_cases h1 : a = trueB
        · simp [storesAccept, planAccept, secClass, accClass, isSecure, hs, h1]
        · by_cases h2 : a = falseB <;> simp [storesAccept, planAccept, secClass, accClass, isSecure, hs, h1, h2]

theorem isSecure_class (v : Option Bytes) : isSecure v = planReq (secClass v) := by
  cases v with
  | none => simp [isSecure, secClass, planReq]
  | some b => by_cases h : b = trueB <;> simp [isSecure, secClass, planReq, h]

/-! #### a concrete lawful instance (non-vacuity, witnesses) -/

namespace W

/-- toy cipher: prefix the key length; decryption checks it. -/
def enc (k x : Bytes) : Bytes := k.length.toUInt8 :: x
def dec (k c : Bytes) : DecOut :=
  match c with
  | t :: x => if t = k.length.toUInt8 then .ok x else .err
  | [] => .err
/-- toy key version: the key itself behind a marker byte (never empty, injective). -/
def ver (k : Bytes) : Bytes := 118 :: k

def C : Cipher := ⟨enc, dec, ver⟩

/-- toy envelope codec: version bytes each preceded by 1, then 0, then the ciphertext. -/
def mar : Bytes → Bytes → Bytes
  | [], c => 0 :: c
  | b :: v, c => 1 :: b :: mar v c

def unmar : Bytes → Option (Bytes × Bytes)
  | 0 :: c => some ([], c)
  | 1 :: b :: r => (unmar r).map (fun p => (b :: p.1, p.2))
  | _ => none

def E : EnvCodec := ⟨mar, unmar⟩

theorem C_lawful : C.Lawful := by
  intro k x; simp [C, enc, dec]

theorem unmar_mar (v c : Bytes) : unmar (mar v c) = some (v, c) := by
  induction v with
  | nil => simp [mar, unmar]
  | cons b v ih => simp [mar, unmar, ih]

theorem mar_ne (v c : Bytes) : mar v c ≠ [] := by
  cases v <;> simp [mar]

theorem E_lawful : E.Lawful :=
  ⟨unmar_mar, fun v c h => absurd h (mar_ne v c)⟩

theorem ver_ne (k : Bytes) : C.ver k ≠ [] := by simp [C, ver]

theorem ver_inj (k k' : Bytes) (h : k ≠ k') : C.ver k ≠ C.ver k' := by
  simp [C, ver, h]

end W

end Secure
end Teleport
