/-
Lemmas/Graceful — invariants of the graceful-close transition system (Model/Graceful).
-/
import Teleport.Model.Graceful
namespace Teleport.Graceful

theorem forall_set {α} {l : List α} {i : Nat} {a b : α} {P : α → Prop}
    (hget : l[i]? = some a) (hall : ∀ x ∈ l, P x) (hb : a ∈ l → P a → P b) : ∀ x ∈ l.set i b, P x := by
  intro x hx
  rcases List.mem_or_eq_of_mem_set hx with h | h
  · exact hall x h
  · exact h ▸ hb (List.mem_of_getElem? hget) (hall a (List.mem_of_getElem? hget))

theorem forall_snoc {α} {l : List α} {b : α} {P : α → Prop}
    (hall : ∀ x ∈ l, P x) (hb : P b) : ∀ x ∈ l ++ [b], P x := by
  intro x hx
  rcases List.mem_append.1 hx with h | h
  · exact hall x h
  · rw [List.mem_singleton.1 h]; exact hb

theorem countP_set {α} (p : α → Bool) : ∀ (l : List α) (i : Nat) (a b : α), l[i]? = some a →
    (l.set i b).countP p + (if p a then 1 else 0) = l.countP p + (if p b then 1 else 0)
  | [], _, _, _, h => by simp at h
  | x :: r, 0, a, b, h => by
    simp only [List.getElem?_cons_zero, Option.some.injEq] at h
    subst h
    simp only [List.set_cons_zero, List.countP_cons]
    omega
  | x :: r, i + 1, a, b, h => by
    simp only [List.getElem?_cons_succ] at h
    have ih := countP_set p r i a b h
    simp only [List.set_cons_succ, List.countP_cons]
    omega

theorem cnt_set_same {α} {p : α → Bool} {l : List α} {i n : Nat} {a b : α}
    (hget : l[i]? = some a) (hn : n = l.countP p) (hp : p b = p a) : n = (l.set i b).countP p := by
  have := countP_set p l i a b hget
  rw [hp] at this; omega

theorem cnt_set_dec {α} {p : α → Bool} {l : List α} {i n : Nat} {a b : α}
    (hget : l[i]? = some a) (hn : n = l.countP p) (hpa : p a = true) (hpb : p b = false) :
    n - 1 = (l.set i b).countP p := by
  have := countP_set p l i a b hget
  simp only [hpa, hpb, if_true] at this
  simp at this; omega

theorem cnt_set_inc {α} {p : α → Bool} {l : List α} {i n : Nat} {a b : α}
    (hget : l[i]? = some a) (hn : n = l.countP p) (hpa : p a = false) (hpb : p b = true) :
    n + 1 = (l.set i b).countP p := by
  have := countP_set p l i a b hget
  simp only [hpa, hpb, if_true] at this
  simp at this; omega

macro "c08_step_cases" hs:ident : tactic =>
  `(tactic| (cases ‹Ev› <;> simp only [step] at $hs:ident <;> (repeat' split at $hs:ident) <;>
      (try contradiction) <;> cases $hs:ident <;> dsimp only))

/-- `∀ x ∈ l.set i b, P x` from the same for `l`, the old element found by `assumption`. -/
macro "c08_fset" hl:term : tactic =>
  `(tactic| (refine forall_set (a := ?a) ?hg $hl ?hb; case hg => assumption))

macro "c08_cset_same" hl:term : tactic =>
  `(tactic| (refine cnt_set_same (a := ?a) ?hg $hl ?hp; case hg => assumption))
macro "c08_cset_dec" hl:term : tactic =>
  `(tactic| (refine cnt_set_dec (a := ?a) ?hg $hl ?hp ?hq; case hg => assumption))
macro "c08_cset_inc" hl:term : tactic =>
  `(tactic| (refine cnt_set_inc (a := ?a) ?hg $hl ?hp ?hq; case hg => assumption))

/-- the invariant of one session end. -/
structure NL (s : St) : Prop where
  st0 : s.closer.rank = 0 → s.status = .ok
  st1 : 1 ≤ s.closer.rank → s.closer.rank ≤ 4 → s.status = .closing
  st5 : 5 ≤ s.closer.rank → s.status = .closed
  sock : s.sock = true → 6 ≤ s.closer.rank
  rd : match s.reader with
    | .top | .blocked | .add _ | .got (some _) => True
    | .got none => 6 ≤ s.closer.rank
    | .dload | .rexit => 5 ≤ s.closer.rank
    | .dgo st => st = .closed ∧ 5 ≤ s.closer.rank
    | _ => False
  hres : ∀ h ∈ s.hs, h.late = false → h.kind = .call → h.res ≠ .lost
  cres : ∀ c ∈ s.cs, c.pc ≠ .done .cancelled ∧ c.pc ≠ .done .wfail

structure SInv (s : St) : Prop where
  ctx_eq : s.ctx = s.hs.countP H.holds
  calls_eq : s.calls = s.cs.countP C.isOpen
  late_h : ∀ h ∈ s.hs, h.late = true → 3 ≤ s.closer.rank
  late_c : ∀ c ∈ s.cs, c.late = true → 4 ≤ s.closer.rank
  wait_h : 3 ≤ s.closer.rank → ∀ h ∈ s.hs, h.late = false → h.pc = .fin
  wait_c : 4 ≤ s.closer.rank → ∀ c ∈ s.cs, c.late = false → c.isOpen = false
  ebc_h : ∀ h ∈ s.hs, h.ebc = true → h.late = false
  st_rank : 1 ≤ s.closer.rank → s.status ≠ .ok
  hres : ∀ h ∈ s.hs, h.kind = .call →
    (h.pc = .wrote → h.res = .ok) ∧ (h.pc = .failed → h.res = .lost) ∧ (h.pc = .fin → h.res ≠ .none) ∧
    h.pc ≠ .rdone
  cflags : ∀ c ∈ s.cs, (c.chk = true → c.late = false) ∧
    (c.pc = .seq ∨ c.pc = .issued ∨ c.pc = .wno ∨ c.pc = .done .refused → c.chk = false) ∧
    (c.pc = .wok → c.chk = true) ∧
    (c.deliv = true → c.pc = .bound ∨ c.pc = .done .reply) ∧
    (c.pc = .bound ∨ c.pc = .done .reply → c.deliv = true)
  nolost : s.lost = false → NL s

/-! ## preservation, clause by clause (one theorem per clause of `SInv`) -/

theorem step_ctx_eq {s t : St} {e : Ev} (hI : SInv s) (hs : step s e = some t) :
    t.ctx = t.hs.countP H.holds := by
  have hl := hI.ctx_eq
  c08_step_cases hs
  all_goals first
    | exact hl
    | (c08_cset_same hl; simp_all [H.holds]; done)
    | (c08_cset_dec hl <;> first | (simp_all [H.holds]; done) | (rcases ‹_ ∨ _› with h | h | h | h <;> simp_all [H.holds]; done))
    | (cases ‹Frame› <;> simp [H.ofFrame, H.holds, List.countP_append, hl])
    | (simp [H.holds, List.countP_append, hl]; done)

theorem step_calls_eq {s t : St} {e : Ev} (hI : SInv s) (hs : step s e = some t) :
    t.calls = t.cs.countP C.isOpen := by
  have hl := hI.calls_eq
  c08_step_cases hs
  all_goals first
    | exact hl
    | (c08_cset_same hl; simp_all [C.isOpen]; done)
    | (c08_cset_dec hl <;> (simp_all [C.isOpen]; done))
    | (c08_cset_inc hl <;> (simp_all [C.isOpen]; done))
    | (simp [C.isOpen, List.countP_append, hl]; done)

theorem step_late_h {s t : St} {e : Ev} (hI : SInv s) (hs : step s e = some t) :
    ∀ h ∈ t.hs, h.late = true → 3 ≤ t.closer.rank := by
  have hl := hI.late_h
  c08_step_cases hs
  all_goals first
    | exact hl
    | (c08_fset hl; exact fun _ => id)
    | (apply forall_snoc hl; cases ‹Frame› <;> simp [H.ofFrame])
    | (apply forall_snoc hl; simp)
    | (intro h hh hq; have := hl h hh hq; simp_all [XPc.rank])

theorem step_late_c {s t : St} {e : Ev} (hI : SInv s) (hs : step s e = some t) :
    ∀ c ∈ t.cs, c.late = true → 4 ≤ t.closer.rank := by
  have hl := hI.late_c
  c08_step_cases hs
  all_goals first
    | exact hl
    | (c08_fset hl; exact fun _ => id)
    | (c08_fset hl; intro _ _; simp)
    | (apply forall_snoc hl; simp)
    | (intro h hh hq; have := hl h hh hq; simp_all [XPc.rank])

theorem step_wait_h {s t : St} {e : Ev} (hI : SInv s) (hs : step s e = some t) :
    3 ≤ t.closer.rank → ∀ h ∈ t.hs, h.late = false → h.pc = .fin := by
  have hl := hI.wait_h
  have hc := hI.ctx_eq
  c08_step_cases hs
  all_goals first
    | exact hl
    | (intro hr; c08_fset (hl hr); intro _ hp hq; have := hp hq; simp_all; done)
    | (intro hr; apply forall_snoc (hl hr); cases ‹Frame› <;> simp [H.ofFrame, hr])
    | (intro hr; apply forall_snoc (hl hr); simp [hr])
    | (intro hr; apply hl; simp_all [XPc.rank]; done)
    | (intro _ h hh _; have h0 : List.countP H.holds s.hs = 0 := by rw [← hc]; exact (‹_ ∧ _›).2
       have := (List.countP_eq_zero.1 h0) h hh; unfold H.holds at this; revert this
       generalize h.pc = p; cases p <;> simp)

end Teleport.Graceful
