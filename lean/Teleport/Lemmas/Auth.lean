/-
Lemmas/Auth — the inductive invariant of the accept-path transition system of Model/Auth and its
preservation by every event; reachability of the deterministic scheduler's states.
-/
import Teleport.Model.Auth
namespace Teleport
namespace Auth

/-- accept-thread positions after a successful `postAccept` branch. -/
def APc.passed : APc → Bool
  | .okSet | .okSpawned | .lisHub | .lisSet => true
  | .done st => st == 0
  | _ => false

/-- positions at or after an OK result of the checker function. -/
def APc.accepting : APc → Bool
  | .reply v => verdictCode v == 0
  | .decided st => st == 0
  | pc => pc.passed

/-- what holds on the way to / after a rejection (nobody but the accept path can touch the session). -/
def rejInv (s : St) : Prop :=
  match s.acc with
  | .checker | .reply _ | .decided _ =>
    s.status = .preparing ∧ s.closer = none ∧ s.sockClosed = false ∧ s.discHook = 0
  | .rejClosing st => st ≠ 0 ∧
    match s.closer with
    | some .hubdel | some .notify | some .waitCtx | some .setClosed =>
      s.status = .activeClosing ∧ s.sockClosed = false ∧ s.discHook = 0
    | some .sockClose => s.status = .activeClosed ∧ s.sockClosed = false ∧ s.discHook = 0
    | some .hook => s.status = .activeClosed ∧ s.sockClosed = true ∧ s.discHook = 0
    | none => s.status = .activeClosed ∧ s.sockClosed = true ∧ s.discHook = 1
  | .done st => st ≠ 0 ∧
    s.closer = none ∧ s.status = .activeClosed ∧ s.sockClosed = true ∧ s.discHook = 1
  | _ => True

/-- nothing of the session machinery has run. -/
def quiet (s : St) : Prop :=
  s.handlerCount = 0 ∧ s.hookCount = 0 ∧ s.prhCount = 0 ∧ s.rd = none ∧ s.hs = [] ∧
  s.wantClose = 0 ∧ s.loopRead = [] ∧ s.inHub = false ∧ s.status ≠ .ok ∧
  ∀ o ∈ s.out, ∃ c, o = .authReply c

structure SInv (s : St) : Prop where
  passed_iff : s.authPassed = s.acc.passed
  quiet : s.authPassed = false → quiet s
  exch_eq : s.exch = if s.called then 1 else 0
  pre_len : s.preRead.length ≤ s.exch
  conserve : s.arrived = s.preRead ++ s.loopRead ++ s.pending
  log_called : s.called = false ↔ s.recvLog = []
  log_ok : s.recvLog = [.ok] → ∃ f, s.preRead = [.frame f] ∧ f.kind = .authCall ∧ f.stOk = true
  strict_ok : s.strict = true → s.acc.accepting = true → s.recvLog = [.ok]
  rej : s.authPassed = false → rejInv s

theorem sinv_init (lis strict : Bool) : SInv (init lis strict) := by
  refine ⟨rfl, ?_, rfl, ?_, rfl, ?_, ?_, ?_, ?_⟩ <;> simp [init, quiet, rejInv, APc.accepting, APc.passed]

theorem recvCheck_ok {f : Frame} (h : recvCheck f = .ok) : f.kind = .authCall ∧ f.stOk = true := by
  unfold recvCheck at h
  cases hs : f.stOk <;> simp [hs] at h
  by_cases hk : f.kind = .authCall
  · exact ⟨hk, rfl⟩
  · simp [hk] at h

/-- an event that needs the session machinery and leaves the gate's variables alone keeps `SInv`. -/
theorem sinv_of_passed {s t : St} (h : SInv s) (hp : s.authPassed = true)
    (h1 : t.authPassed = s.authPassed) (h2 : t.acc = s.acc) (h3 : t.called = s.called)
    (h4 : t.exch = s.exch) (h5 : t.recvLog = s.recvLog) (h6 : t.preRead = s.preRead)
    (h7 : t.strict = s.strict) (h8 : t.arrived = t.preRead ++ t.loopRead ++ t.pending) : SInv t := by
  have hq : t.authPassed = true := by rw [h1, hp]
  refine ⟨by rw [h1, h2]; exact h.passed_iff, fun c => by simp [hq] at c, by rw [h4, h3]; exact h.exch_eq,
    by rw [h6, h4]; exact h.pre_len, h8, by rw [h3, h5]; exact h.log_called,
    by rw [h5, h6]; exact h.log_ok, by rw [h7, h2, h5]; exact h.strict_ok, fun c => by simp [hq] at c⟩

theorem passed_of_rd {s : St} (h : SInv s) {r : RPc} (hr : s.rd = some r) : s.authPassed = true := by
  cases hq : s.authPassed with
  | true => rfl
  | false => have := (h.quiet hq).2.2.2.1; simp [this] at hr

theorem passed_of_hs {s : St} (h : SInv s) (hr : s.hs ≠ []) : s.authPassed = true := by
  cases hq : s.authPassed with
  | true => rfl
  | false => exact absurd (h.quiet hq).2.2.2.2.1 hr

theorem inv_arrive {s t : St} {i : Item} (h : SInv s) (hs : step s (.arrive i) = some t) : SInv t := by
  simp only [step] at hs
  split at hs
  · simp at hs
  · simp at hs; subst hs
    refine ⟨h.passed_iff, ?_, h.exch_eq, h.pre_len, ?_, h.log_called, h.log_ok, h.strict_ok, ?_⟩
    · intro c; have := h.quiet c; simpa [quiet] using this
    · simp [h.conserve]
    · intro c; have := h.rej c; simpa [rejInv] using this

theorem inv_cut {s t : St} (h : SInv s) (hs : step s .cut = some t) : SInv t := by
  simp only [step] at hs
  simp at hs; subst hs
  refine ⟨h.passed_iff, ?_, h.exch_eq, h.pre_len, h.conserve, h.log_called, h.log_ok, h.strict_ok, ?_⟩
  · intro c; have := h.quiet c; simpa [quiet] using this
  · intro c; have := h.rej c; simpa [rejInv] using this

theorem startClose_gate (s : St) :
    (startClose s).authPassed = s.authPassed ∧ (startClose s).acc = s.acc ∧
    (startClose s).called = s.called ∧ (startClose s).exch = s.exch ∧
    (startClose s).recvLog = s.recvLog ∧ (startClose s).preRead = s.preRead ∧
    (startClose s).strict = s.strict ∧ (startClose s).arrived = s.arrived ∧
    (startClose s).loopRead = s.loopRead ∧ (startClose s).pending = s.pending := by
  unfold startClose; split <;> simp

theorem inv_rdTop {s t : St} (h : SInv s) (hs : evRdTop s = some t) : SInv t := by
  unfold evRdTop at hs
  split at hs
  · rename_i hr
    have hp := passed_of_rd h hr
    split at hs <;> (simp at hs; subst hs; apply sinv_of_passed h hp <;> simp [h.conserve])
  · simp at hs

theorem inv_rdRead {s t : St} {b : Bool} (h : SInv s) (hs : evRdRead s b = some t) : SInv t := by
  unfold evRdRead at hs
  split at hs
  · rename_i hr
    have hp := passed_of_rd h hr
    split at hs
    · simp at hs; subst hs; apply sinv_of_passed h hp <;> simp [h.conserve]
    · split at hs
      · rename_i hpend
        split at hs
        · simp at hs; subst hs; apply sinv_of_passed h hp <;> simp [h.conserve]
        · simp at hs
      · rename_i c r hpend
        simp at hs; subst hs; apply sinv_of_passed h hp <;> simp [h.conserve, hpend]
      · rename_i f r hpend
        simp only at hs
        split at hs <;> (simp at hs; subst hs; apply sinv_of_passed h hp <;> simp [h.conserve, hpend])
  · simp at hs

theorem inv_rdDisc {s t : St} (h : SInv s) (hs : evRdDisc s = some t) : SInv t := by
  unfold evRdDisc at hs
  split at hs
  all_goals first
    | (simp at hs; done)
    | (rename_i hr
       have hp := passed_of_rd h hr
       first
         | (simp at hs; subst hs; apply sinv_of_passed h hp <;> simp [h.conserve]; done)
         | (split at hs <;> first
             | (simp at hs; done)
             | (simp at hs; subst hs; apply sinv_of_passed h hp <;> simp [h.conserve])))

theorem hs_ne_of_get {s : St} {i : Nat} {x : H} (hx : s.hs[i]? = some x) : s.hs ≠ [] := by
  intro c; rw [c] at hx; simp at hx

theorem inv_hRun {s t : St} {i : Nat} (h : SInv s) (hs : evHRun s i = some t) : SInv t := by
  unfold evHRun at hs
  split at hs
  · rename_i f hx
    have hp := passed_of_hs h (hs_ne_of_get hx)
    split at hs
    · simp only at hs
      split at hs <;> (simp at hs; subst hs; apply sinv_of_passed h hp <;> simp [h.conserve])
    · simp only at hs
      split at hs <;> (simp at hs; subst hs; apply sinv_of_passed h hp <;> simp [h.conserve])
    · simp at hs; subst hs; apply sinv_of_passed h hp <;> simp [h.conserve]
    · simp at hs; subst hs; apply sinv_of_passed h hp <;> simp [h.conserve]
  · simp at hs

theorem inv_hReply {s t : St} {i : Nat} (h : SInv s) (hs : evHReply s i = some t) : SInv t := by
  unfold evHReply at hs
  split at hs
  · rename_i f c hx
    have hp := passed_of_hs h (hs_ne_of_get hx)
    split at hs <;> (simp at hs; subst hs; apply sinv_of_passed h hp <;> simp [h.conserve])
  · simp at hs

theorem inv_appClose {s t : St} (h : SInv s) (hs : evAppClose s = some t) : SInv t := by
  unfold evAppClose at hs
  split at hs
  · simp at hs
  · split at hs
    · rename_i hg
      simp at hs; subst hs
      have hp : s.authPassed = true := by
        cases hq : s.authPassed with
        | true => rfl
        | false =>
          have q := h.quiet hq
          have p := h.passed_iff
          rw [hq] at p
          rcases (by simpa using hg : s.inHub = true ∨ s.acc = .done 0) with c | c
          · simp [q.2.2.2.2.2.2.2.1] at c
          · rw [c] at p; simp [APc.passed] at p
      have g := startClose_gate s
      apply sinv_of_passed h hp g.1 g.2.1 g.2.2.1 g.2.2.2.1 g.2.2.2.2.1 g.2.2.2.2.2.1 g.2.2.2.2.2.2.1
      rw [g.2.2.2.2.2.2.2.1, g.2.2.2.2.2.1, g.2.2.2.2.2.2.2.2.1, g.2.2.2.2.2.2.2.2.2]; exact h.conserve
    · simp at hs

theorem inv_goClose {s t : St} (h : SInv s) (hs : evGoClose s = some t) : SInv t := by
  unfold evGoClose at hs
  split at hs
  · simp at hs
  · rename_i hg
    simp at hs; subst hs
    have hp : s.authPassed = true := by
      cases hq : s.authPassed with
      | true => rfl
      | false =>
        have q := h.quiet hq
        simp [q.2.2.2.2.2.1] at hg
    have g := startClose_gate { s with wantClose := s.wantClose - 1 }
    apply sinv_of_passed h hp g.1 g.2.1 g.2.2.1 g.2.2.2.1 g.2.2.2.2.1 g.2.2.2.2.2.1 g.2.2.2.2.2.2.1
    rw [g.2.2.2.2.2.2.2.1, g.2.2.2.2.2.1, g.2.2.2.2.2.2.2.2.1, g.2.2.2.2.2.2.2.2.2]; exact h.conserve

theorem not_passed_of_checker {s : St} (h : SInv s) (ha : s.acc = .checker) : s.authPassed = false := by
  have := h.passed_iff; rw [ha] at this; simpa [APc.passed] using this

theorem inv_recvOnce {s t : St} {b : Bool} (h : SInv s) (hs : evRecvOnce s b = some t) : SInv t := by
  unfold evRecvOnce at hs
  split at hs
  · simp at hs
  · rename_i hacc
    have ha : s.acc = .checker := by simpa using hacc
    have hnp := not_passed_of_checker h ha
    have hq := h.quiet hnp
    have hr := h.rej hnp
    have hst : s.status = .preparing := by simp [rejInv, ha] at hr; exact hr.1
    split at hs
    · -- already called: MultiRecvErr
      rename_i hc
      simp at hs; subst hs
      have hne : s.recvLog ≠ [] := fun c => by
        have := h.log_called.2 c; simp [hc] at this
      refine ⟨h.passed_iff, ?_, h.exch_eq, h.pre_len, h.conserve, ?_, ?_, ?_, ?_⟩
      · intro c; have := h.quiet c; simpa [quiet] using this
      · simp [hc]
      · intro c
        simp only at c
        cases hl : s.recvLog with
        | nil => exact absurd hl hne
        | cons a r => rw [hl] at c; cases r <;> simp at c
      · intro _ c; simp [ha, APc.accepting, APc.passed] at c
      · intro c; have := h.rej c; simpa [rejInv] using this
    · rename_i hc
      have hc' : s.called = false := by simpa using hc
      have hlog : s.recvLog = [] := h.log_called.1 hc'
      have hex : s.exch = 0 := by have := h.exch_eq; simpa [hc'] using this
      have hpre : s.preRead = [] := by
        have := h.pre_len; rw [hex] at this
        exact List.length_eq_zero_iff.mp (Nat.le_zero.mp this)
      have mk : ∀ (res : RecvRes) (pre pend : List Item),
          (res = .ok → ∃ f, pre = [.frame f] ∧ f.kind = .authCall ∧ f.stOk = true) →
          pre.length ≤ 1 → s.arrived = pre ++ s.loopRead ++ pend →
          SInv { s with called := true, exch := s.exch + 1, recvLog := s.recvLog ++ [res],
                        preRead := pre, pending := pend } := by
        intro res pre pend h1 h2 h3
        refine ⟨h.passed_iff, ?_, ?_, ?_, h3, ?_, ?_, ?_, ?_⟩
        · intro c; have := h.quiet c; simpa [quiet] using this
        · simp [hex]
        · simpa [hex] using h2
        · simp
        · intro c; simp [hlog] at c; exact h1 c
        · intro _ c; simp [ha, APc.accepting, APc.passed] at c
        · intro c; have := h.rej c; simpa [rejInv] using this
      split at hs
      · rename_i c; simp [hst] at c
      split at hs
      · simp at hs; subst hs
        exact mk (.err 102) s.preRead s.pending (by simp) (by simp [hpre]) h.conserve
      · split at hs
        · split at hs
          · simp at hs; subst hs
            exact mk (.err 102) s.preRead s.pending (by simp) (by simp [hpre]) h.conserve
          · simp at hs
        · rename_i c r hp
          simp at hs; subst hs
          exact mk (.err c) (s.preRead ++ [.bad c]) r (by simp) (by simp [hpre])
            (by simp [h.conserve, hp, hq.2.2.2.2.2.2.1, hpre])
        · rename_i f r hp
          simp at hs; subst hs
          refine mk (recvCheck f) (s.preRead ++ [.frame f]) r ?_ (by simp [hpre])
            (by simp [h.conserve, hp, hq.2.2.2.2.2.2.1, hpre])
          intro c
          exact ⟨f, by simp [hpre], recvCheck_ok c⟩

theorem inv_ckReturn {s t : St} {v : Verdict} (h : SInv s) (hs : evCkReturn s v = some t) : SInv t := by
  unfold evCkReturn at hs
  split at hs
  · simp at hs
  · rename_i hacc
    have ha : s.acc = .checker := by simpa using hacc
    have hnp := not_passed_of_checker h ha
    split at hs
    · simp at hs
    · rename_i hg
      simp at hs; subst hs
      refine ⟨by simp [hnp, APc.passed], ?_, h.exch_eq, h.pre_len, h.conserve, h.log_called, h.log_ok, ?_, ?_⟩
      · intro c; have := h.quiet c; simpa [quiet] using this
      · intro hs' c
        simp [APc.accepting] at c
        simp at hs'
        simp [hs', c] at hg
        exact hg
      · intro c; have := h.rej c; simp [rejInv, ha] at this; simpa [rejInv] using this

theorem inv_sendReply {s t : St} {w : Int} (h : SInv s) (hs : evSendReply s w = some t) : SInv t := by
  unfold evSendReply at hs
  split at hs
  · rename_i v ha
    have hnp : s.authPassed = false := by
      have := h.passed_iff; rw [ha] at this; simpa [APc.passed] using this
    simp only at hs
    by_cases hp : v = .panic
    · subst hp
      simp at hs; subst hs
      refine ⟨by simp [hnp, APc.passed], ?_, h.exch_eq, h.pre_len, h.conserve, h.log_called, h.log_ok, ?_, ?_⟩
      · intro c
        have q := h.quiet hnp
        simpa [quiet] using q
      · intro hs' c
        simp [APc.accepting] at c
      · intro c
        have r := h.rej hnp
        simp [rejInv, ha] at r
        simp [rejInv, r]
    simp [hp] at hs; subst hs
    refine ⟨by simp [hnp, APc.passed], ?_, h.exch_eq, h.pre_len, h.conserve, h.log_called, h.log_ok, ?_, ?_⟩
    · intro c
      have q := h.quiet hnp
      simp only [quiet] at q ⊢
      refine ⟨q.1, q.2.1, q.2.2.1, q.2.2.2.1, q.2.2.2.2.1, q.2.2.2.2.2.1, q.2.2.2.2.2.2.1, q.2.2.2.2.2.2.2.1,
        q.2.2.2.2.2.2.2.2.1, ?_⟩
      intro o ho
      have ho' : o ∈ s.out ∨ o = .authReply (verdictCode v) := by
        by_cases hw : (if s.status = SStat.preparing then w else 1) = 0
        · rw [if_pos hw] at ho
          rcases List.mem_append.mp ho with m | m
          · exact .inl m
          · simp at m; exact .inr m
        · rw [if_neg hw] at ho; exact .inl ho
      rcases ho' with m | m
      · exact q.2.2.2.2.2.2.2.2.2 o m
      · exact ⟨_, m⟩
    · intro hs' c
      have r := h.rej hnp
      simp [rejInv, ha] at r
      have hv : verdictCode v = 0 := by
        simp only [APc.accepting] at c
        by_cases h1 : v = .multi
        · simp [h1] at c
        · by_cases hw : w = 0
          · simpa [h1, r.1, hw] using c
          · simp [h1, r.1, hw] at c
      exact h.strict_ok hs' (by simp [ha, APc.accepting, hv])
    · intro c
      have r := h.rej hnp
      simp [rejInv, ha] at r
      simp [rejInv, r]
  · simp at hs

theorem inv_branch {s t : St} (h : SInv s) (hs : evBranch s = some t) : SInv t := by
  unfold evBranch at hs
  split at hs
  · rename_i st ha
    have hnp : s.authPassed = false := by
      have := h.passed_iff; rw [ha] at this; simpa [APc.passed] using this
    have q := h.quiet hnp
    have r := h.rej hnp
    simp [rejInv, ha] at r
    split at hs
    · rename_i hst
      have hst' : st ≠ 0 := by simpa using hst
      simp [r.2.1] at hs; subst hs
      simp only [startClose, r.1]
      simp
      refine ⟨by simp [hnp, APc.passed], ?_, h.exch_eq, h.pre_len, h.conserve, h.log_called, h.log_ok, ?_, ?_⟩
      · intro _; simp only [quiet] at q ⊢; simp [q]; exact q.2.2.2.2.2.2.2.2.2
      · intro _ c; simp [APc.accepting, APc.passed] at c
      · intro _; simp [rejInv, hst', r]
    · rename_i hst
      have hst' : st = 0 := by simpa using hst
      have hacc : s.acc.accepting = true := by simp [ha, APc.accepting, hst']
      split at hs <;>
        (simp at hs; subst hs
         exact ⟨by simp [APc.passed], fun c => by simp at c, h.exch_eq, h.pre_len, h.conserve, h.log_called,
           h.log_ok, fun hs' _ => h.strict_ok hs' hacc, fun c => by simp at c⟩)
  · simp at hs

theorem inv_accStep {s t : St} (h : SInv s) (hs : evAccStep s = some t) : SInv t := by
  unfold evAccStep at hs
  have passedCase : ∀ (a b : APc), s.acc = a → a.passed = true → b.passed = true →
      ∀ u : St, u.authPassed = s.authPassed → u.acc = b → u.called = s.called → u.exch = s.exch →
        u.recvLog = s.recvLog → u.preRead = s.preRead → u.strict = s.strict →
        u.arrived = u.preRead ++ u.loopRead ++ u.pending → SInv u := by
    intro a b ha hpa hpb u h1 h2 h3 h4 h5 h6 h7 h8
    have hp : s.authPassed = true := by have := h.passed_iff; rw [ha, hpa] at this; exact this
    have hq : u.authPassed = true := by rw [h1, hp]
    have hacc : s.acc.accepting = true := by
      rw [ha]; cases a <;> simp_all [APc.accepting, APc.passed]
    refine ⟨by rw [hq, h2, hpb], fun c => by simp [hq] at c, by rw [h4, h3]; exact h.exch_eq,
      by rw [h6, h4]; exact h.pre_len, h8, by rw [h3, h5]; exact h.log_called,
      by rw [h5, h6]; exact h.log_ok, fun hs' _ => by rw [h5]; exact h.strict_ok (by rw [← h7]; exact hs') hacc,
      fun c => by simp [hq] at c⟩
  split at hs
  · rename_i ha; simp at hs; subst hs
    exact passedCase _ .okSpawned ha rfl rfl _ rfl rfl rfl rfl rfl rfl rfl h.conserve
  · rename_i ha; simp at hs; subst hs
    exact passedCase _ (.done 0) ha rfl rfl _ rfl rfl rfl rfl rfl rfl rfl h.conserve
  · rename_i ha
    split at hs
    · simp at hs; subst hs
      exact passedCase _ .lisSet ha rfl rfl _ rfl rfl rfl rfl rfl rfl rfl h.conserve
    · simp at hs; subst hs
      exact passedCase _ (.done 0) ha rfl rfl _ rfl rfl rfl rfl rfl rfl rfl h.conserve
  · rename_i ha; simp at hs; subst hs
    exact passedCase _ (.done 0) ha rfl rfl _ rfl rfl rfl rfl rfl rfl rfl h.conserve
  · rename_i st ha
    have hnp : s.authPassed = false := by
      have := h.passed_iff; rw [ha] at this; simpa [APc.passed] using this
    have q := h.quiet hnp
    have r := h.rej hnp
    simp only [rejInv, ha] at r
    split at hs
    · simp at hs
    · rename_i hc
      have hc' : s.closer = none := by
        cases hcl : s.closer <;> simp [hcl] at hc ⊢
      simp at hs; subst hs
      rw [hc'] at r
      simp only at r
      have hst : (st == 0) = false := by simpa using r.1
      refine ⟨by simp [hnp, APc.passed, hst], ?_, h.exch_eq, h.pre_len, h.conserve, h.log_called, h.log_ok, ?_, ?_⟩
      · intro _; simpa [quiet] using q
      · intro _ c; simp [APc.accepting, APc.passed, hst] at c
      · intro _; simp [rejInv, r, hc']
  · simp at hs

theorem inv_closeStep {s t : St} (h : SInv s) (hs : evCloseStep s = some t) : SInv t := by
  cases hp : s.authPassed with
  | true =>
    unfold evCloseStep at hs
    split at hs
    all_goals first
      | (simp at hs; done)
      | (simp at hs; subst hs; apply sinv_of_passed h hp <;> simp [h.conserve]; done)
      | (split at hs <;> first
          | (simp at hs; done)
          | (simp at hs; subst hs; apply sinv_of_passed h hp <;> simp [h.conserve]))
  | false =>
    have q := h.quiet hp
    have r := h.rej hp
    have pi := h.passed_iff
    unfold evCloseStep at hs
    -- the closer is only active inside the reject branch
    have hacc : ∃ st, s.acc = .rejClosing st := by
      cases ha : s.acc with
      | rejClosing st => exact ⟨st, rfl⟩
      | checker | reply _ | decided _ =>
        simp only [rejInv, ha] at r; simp [r.2.1] at hs
      | done st => simp only [rejInv, ha] at r; simp [r.2.1] at hs
      | okSet | okSpawned | lisHub | lisSet => rw [hp, ha] at pi; simp [APc.passed] at pi
    obtain ⟨st, ha⟩ := hacc
    simp only [rejInv, ha] at r
    have mk : ∀ u : St, u.authPassed = false → u.acc = .rejClosing st → u.called = s.called →
        u.exch = s.exch → u.recvLog = s.recvLog → u.preRead = s.preRead → u.strict = s.strict →
        u.arrived = s.arrived → u.loopRead = s.loopRead → u.pending = s.pending →
        quiet u → rejInv u → SInv u := by
      intro u h1 h2 h3 h4 h5 h6 h7 h8 h9 h10 hq hr
      refine ⟨by rw [h1, h2]; rfl, fun _ => hq, by rw [h4, h3]; exact h.exch_eq,
        by rw [h6, h4]; exact h.pre_len, by rw [h8, h6, h9, h10]; exact h.conserve,
        by rw [h3, h5]; exact h.log_called, by rw [h5, h6]; exact h.log_ok,
        fun _ c => by rw [h2] at c; simp [APc.accepting, APc.passed] at c, fun _ => hr⟩
    split at hs
    · simp at hs
    all_goals
      rename_i hc
      rw [hc] at r
      simp only at r
    · simp at hs; subst hs
      exact mk _ hp ha rfl rfl rfl rfl rfl rfl rfl rfl (by simp only [quiet] at q ⊢; simp [q]; exact q.2.2.2.2.2.2.2.2.2) (by simp [rejInv, ha, r])
    · simp at hs; subst hs
      exact mk _ hp ha rfl rfl rfl rfl rfl rfl rfl rfl (by simpa [quiet] using q) (by simp [rejInv, ha, r])
    · split at hs
      · simp at hs; subst hs
        exact mk _ hp ha rfl rfl rfl rfl rfl rfl rfl rfl (by simpa [quiet] using q) (by simp [rejInv, ha, r])
      · simp at hs
    · simp at hs; subst hs
      exact mk _ hp ha rfl rfl rfl rfl rfl rfl rfl rfl
        (by simp only [quiet] at q ⊢; simp [q]; exact q.2.2.2.2.2.2.2.2.2) (by simp [rejInv, ha, r])
    · simp at hs; subst hs
      exact mk _ hp ha rfl rfl rfl rfl rfl rfl rfl rfl (by simpa [quiet] using q) (by simp [rejInv, ha, r])
    · simp at hs; subst hs
      exact mk _ hp ha rfl rfl rfl rfl rfl rfl rfl rfl (by simpa [quiet] using q) (by simp [rejInv, ha, r])

theorem step_inv {s t : St} {e : Ev} (h : SInv s) (hs : step s e = some t) : SInv t := by
  cases e with
  | arrive i => exact inv_arrive h hs
  | cut => exact inv_cut h hs
  | recvOnce b => exact inv_recvOnce h hs
  | ckReturn v => exact inv_ckReturn h hs
  | sendReply w => exact inv_sendReply h hs
  | branch => exact inv_branch h hs
  | accStep => exact inv_accStep h hs
  | appClose => exact inv_appClose h hs
  | goClose => exact inv_goClose h hs
  | closeStep => exact inv_closeStep h hs
  | rdTop => exact inv_rdTop h hs
  | rdRead b => exact inv_rdRead h hs
  | rdDisc => exact inv_rdDisc h hs
  | hRun i => exact inv_hRun h hs
  | hReply i => exact inv_hReply h hs

theorem reach_inv {s0 s : St} (h0 : SInv s0) (r : Reach s0 s) : SInv s := by
  induction r with
  | refl => exact h0
  | step e _ hs ih => exact step_inv ih hs

/-- the two configuration fields are never written. -/
theorem step_cfg {s t : St} {e : Ev} (h : step s e = some t) : t.strict = s.strict ∧ t.lis = s.lis := by
  cases e <;>
    simp only [step, evRecvOnce, evCkReturn, evSendReply, evBranch, evAccStep, evAppClose, evGoClose,
      evCloseStep, evRdTop, evRdRead, evRdDisc, evHRun, evHReply, startClose] at h <;>
    (repeat' split at h) <;> (first | (simp at h; done) | (simp at h; subst h; simp))

theorem reach_cfg {s0 s : St} (r : Reach s0 s) : s.strict = s0.strict ∧ s.lis = s0.lis := by
  induction r with
  | refl => exact ⟨rfl, rfl⟩
  | step e _ hs ih => have := step_cfg hs; exact ⟨this.1.trans ih.1, this.2.trans ih.2⟩

theorem passed_accepting (a : APc) (h : a.passed = true) : a.accepting = true := by
  cases a <;> simp_all [APc.accepting, APc.passed]

theorem reach_trans {a b c : St} (r1 : Reach a b) (r2 : Reach b c) : Reach a c := by
  induction r2 with
  | refl => exact r1
  | step e _ hs ih => exact .step e ih hs

/-! ## the deterministic scheduler only takes steps of the transition system -/

theorem applyEvs_reach (s : St) (l : List Ev) : Reach s (applyEvs s l) := by
  induction l generalizing s with
  | nil => exact .refl
  | cons e r ih =>
    simp only [applyEvs]
    cases hst : step s e with
    | none => exact ih s
    | some t => exact reach_trans (.step e .refl hst) (ih t)

theorem firstEnabled_step {s t : St} {e : Ev} {l : List Ev} (h : firstEnabled s l = some (e, t)) :
    step s e = some t := by
  induction l with
  | nil => simp [firstEnabled] at h
  | cons a r ih =>
    simp only [firstEnabled] at h
    cases hst : step s a with
    | none => rw [hst] at h; exact ih h
    | some u => rw [hst] at h; simp at h; obtain ⟨h1, h2⟩ := h; subst h1 h2; exact hst

theorem pickEv_step {k : Script} {b : Bool} {s t : St} {e : Ev} (h : pickEv k b s = some (e, t)) :
    step s e = some t := firstEnabled_step h

theorem runQ_reach (k : Script) (b : Bool) (n : Nat) (s : St) : Reach s (runQ k b n s) := by
  induction n generalizing s with
  | zero => exact .refl
  | succ n ih =>
    simp only [runQ]
    cases hp : pickEv k b s with
    | none => exact .refl
    | some p =>
      obtain ⟨e, t⟩ := p
      exact reach_trans (.step e .refl (pickEv_step hp)) (ih t)

/-- every state the harness-compared scheduler ends in is reachable in the transition system. -/
theorem run_reach (c : Case) :
    Reach (init c.lis (c.script.propagate && c.script.nrecv != 0)) (runCase c) := by
  unfold runCase
  simp only
  have wake : ∀ s, Reach s (match wakeEv c.fin s with
      | none => s
      | some e => runQ c.script (c.fin == .brk) (fuelOf c) (applyEvs s [e])) := by
    intro s
    split
    · exact .refl
    · exact reach_trans (applyEvs_reach _ _) (runQ_reach _ _ _ _)
  refine reach_trans (reach_trans (reach_trans ?_ (runQ_reach _ _ _ _)) (wake _)) (wake _)
  split
  · exact reach_trans (applyEvs_reach _ _) (applyEvs_reach _ _)
  · exact applyEvs_reach _ _

end Auth
end Teleport
