/-
Lemmas/Auth — the inductive invariant of the accept-path transition system of Model/Auth and its
preservation by every event; reachability of the deterministic scheduler's states.
-/
import Teleport.Model.Auth
import Teleport.Lemmas.Lifecycle
namespace Teleport
namespace Auth

/-! ## the hub as a list: membership view of `AL.put` / `AL.del` / `AL.delIf` -/

namespace HubL
open Lifecycle

/-- keys are pairwise distinct (what `LoadOrStore` / `Store` / `Delete` keep). -/
def WF (h : Hub) : Prop := h.Pairwise fun a b => a.1 ≠ b.1

theorem mem_put {h : Hub} {k v : Nat} {x : Nat × Nat} (hx : x ∈ AL.put h k v) : x = (k, v) ∨ x ∈ h := by
  induction h with
  | nil => simp [AL.put] at hx; exact .inl hx
  | cons p t ih =>
    obtain ⟨k', v'⟩ := p
    by_cases hk : k' = k
    · simp [AL.put, hk] at hx
      rcases hx with e | m
      · exact .inl e
      · exact .inr (List.mem_cons_of_mem _ m)
    · simp [AL.put, hk] at hx
      rcases hx with e | m
      · exact .inr (by rw [e]; exact List.mem_cons_self)
      · rcases ih m with e | m'
        · exact .inl e
        · exact .inr (List.mem_cons_of_mem _ m')

theorem mem_put_self (h : Hub) (k v : Nat) : (k, v) ∈ AL.put h k v := by
  induction h with
  | nil => simp [AL.put]
  | cons p t ih =>
    obtain ⟨k', v'⟩ := p
    by_cases hk : k' = k <;> simp [AL.put, hk, ih]

theorem del_eq_filter (h : Hub) (k : Nat) : AL.del h k = h.filter fun x => decide (x.1 ≠ k) := by
  induction h with
  | nil => simp [AL.del]
  | cons p t ih =>
    obtain ⟨k', v'⟩ := p
    by_cases hk : k' = k <;> simp [AL.del, hk, ih]

theorem mem_del {h : Hub} {k : Nat} {x : Nat × Nat} : x ∈ AL.del h k ↔ x ∈ h ∧ x.1 ≠ k := by
  rw [del_eq_filter]; simp [List.mem_filter]

theorem mem_delIf {h : Hub} {k v : Nat} {x : Nat × Nat} (hx : x ∈ AL.delIf h k v) : x ∈ h := by
  unfold AL.delIf at hx
  split at hx
  · exact (mem_del.mp hx).1
  · exact hx

theorem wf_nil : WF [] := List.Pairwise.nil

theorem wf_put {h : Hub} (w : WF h) (k v : Nat) : WF (AL.put h k v) := by
  induction h with
  | nil => simp [AL.put, WF]
  | cons p t ih =>
    obtain ⟨k', v'⟩ := p
    have w' := List.pairwise_cons.mp w
    by_cases hk : k' = k
    · subst hk
      simp only [AL.put, if_true]
      exact List.pairwise_cons.mpr ⟨fun a ha => w'.1 a ha, w'.2⟩
    · simp only [AL.put, hk, if_false]
      refine List.pairwise_cons.mpr ⟨fun a ha => ?_, ih w'.2⟩
      rcases mem_put ha with e | m
      · rw [e]; exact hk
      · exact w'.1 a m

theorem wf_del {h : Hub} (w : WF h) (k : Nat) : WF (AL.del h k) := by
  rw [del_eq_filter]; exact List.Pairwise.filter _ w

theorem wf_delIf {h : Hub} (w : WF h) (k v : Nat) : WF (AL.delIf h k v) := by
  unfold AL.delIf; split
  · exact wf_del w k
  · exact w

theorem get_of_mem {h : Hub} (w : WF h) {k v : Nat} (hm : (k, v) ∈ h) : AL.get h k = some v := by
  induction h with
  | nil => simp at hm
  | cons p t ih =>
    obtain ⟨k', v'⟩ := p
    have w' := List.pairwise_cons.mp w
    rcases List.mem_cons.mp hm with e | m
    · cases e; simp [AL.get]
    · have hne : k' ≠ k := w'.1 (k, v) m
      simp [AL.get, hne, ih w'.2 m]

theorem mem_of_get {h : Hub} {k v : Nat} (hg : AL.get h k = some v) : (k, v) ∈ h := by
  induction h with
  | nil => simp [AL.get] at hg
  | cons p t ih =>
    obtain ⟨k', v'⟩ := p
    by_cases hk : k' = k
    · subst hk; simp [AL.get] at hg; subst hg; exact List.mem_cons_self
    · simp [AL.get, hk] at hg; exact List.mem_cons_of_mem _ (ih hg)

/-- `delete(id, sess)` leaves no entry `id ↦ sess`. -/
theorem not_mem_delIf_self {h : Hub} (w : WF h) (k v : Nat) : (k, v) ∉ AL.delIf h k v := by
  intro hm
  have hg := get_of_mem w (mem_delIf hm)
  unfold AL.delIf at hm
  rw [if_pos hg] at hm
  exact (mem_del.mp hm).2 rfl

end HubL

/-! ## `hubSet` / `hubDel` touch the hub (and `kicked`) only -/

@[simp] theorem hubSet_lis (s : St) : (hubSet s).lis = s.lis := by unfold hubSet; split <;> rfl
@[simp] theorem hubSet_strict (s : St) : (hubSet s).strict = s.strict := by unfold hubSet; split <;> rfl
@[simp] theorem hubSet_status (s : St) : (hubSet s).status = s.status := by unfold hubSet; split <;> rfl
@[simp] theorem hubSet_acc (s : St) : (hubSet s).acc = s.acc := by unfold hubSet; split <;> rfl
@[simp] theorem hubSet_called (s : St) : (hubSet s).called = s.called := by unfold hubSet; split <;> rfl
@[simp] theorem hubSet_exch (s : St) : (hubSet s).exch = s.exch := by unfold hubSet; split <;> rfl
@[simp] theorem hubSet_recvLog (s : St) : (hubSet s).recvLog = s.recvLog := by unfold hubSet; split <;> rfl
@[simp] theorem hubSet_authPassed (s : St) : (hubSet s).authPassed = s.authPassed := by unfold hubSet; split <;> rfl
@[simp] theorem hubSet_sid (s : St) : (hubSet s).sid = s.sid := by unfold hubSet; split <;> rfl
@[simp] theorem hubSet_ids (s : St) : (hubSet s).ids = s.ids := by unfold hubSet; split <;> rfl
@[simp] theorem hubSet_arrived (s : St) : (hubSet s).arrived = s.arrived := by unfold hubSet; split <;> rfl
@[simp] theorem hubSet_pending (s : St) : (hubSet s).pending = s.pending := by unfold hubSet; split <;> rfl
@[simp] theorem hubSet_preRead (s : St) : (hubSet s).preRead = s.preRead := by unfold hubSet; split <;> rfl
@[simp] theorem hubSet_loopRead (s : St) : (hubSet s).loopRead = s.loopRead := by unfold hubSet; split <;> rfl
@[simp] theorem hubSet_cut (s : St) : (hubSet s).cut = s.cut := by unfold hubSet; split <;> rfl
@[simp] theorem hubSet_rd (s : St) : (hubSet s).rd = s.rd := by unfold hubSet; split <;> rfl
@[simp] theorem hubSet_hs (s : St) : (hubSet s).hs = s.hs := by unfold hubSet; split <;> rfl
@[simp] theorem hubSet_closer (s : St) : (hubSet s).closer = s.closer := by unfold hubSet; split <;> rfl
@[simp] theorem hubSet_wantClose (s : St) : (hubSet s).wantClose = s.wantClose := by unfold hubSet; split <;> rfl
@[simp] theorem hubSet_handlerCount (s : St) : (hubSet s).handlerCount = s.handlerCount := by unfold hubSet; split <;> rfl
@[simp] theorem hubSet_hookCount (s : St) : (hubSet s).hookCount = s.hookCount := by unfold hubSet; split <;> rfl
@[simp] theorem hubSet_prhCount (s : St) : (hubSet s).prhCount = s.prhCount := by unfold hubSet; split <;> rfl
@[simp] theorem hubSet_discHook (s : St) : (hubSet s).discHook = s.discHook := by unfold hubSet; split <;> rfl
@[simp] theorem hubSet_out (s : St) : (hubSet s).out = s.out := by unfold hubSet; split <;> rfl
@[simp] theorem hubSet_sockClosed (s : St) : (hubSet s).sockClosed = s.sockClosed := by unfold hubSet; split <;> rfl
@[simp] theorem hubSet_nops (s : St) : (hubSet s).nops = s.nops := by unfold hubSet; split <;> rfl
@[simp] theorem hubSet_renamed (s : St) : (hubSet s).renamed = s.renamed := by unfold hubSet; split <;> rfl
@[simp] theorem hubSet_peeks (s : St) : (hubSet s).peeks = s.peeks := by unfold hubSet; split <;> rfl
@[simp] theorem hubDel_lis (s : St) : (hubDel s).lis = s.lis := rfl
@[simp] theorem hubDel_strict (s : St) : (hubDel s).strict = s.strict := rfl
@[simp] theorem hubDel_status (s : St) : (hubDel s).status = s.status := rfl
@[simp] theorem hubDel_acc (s : St) : (hubDel s).acc = s.acc := rfl
@[simp] theorem hubDel_called (s : St) : (hubDel s).called = s.called := rfl
@[simp] theorem hubDel_exch (s : St) : (hubDel s).exch = s.exch := rfl
@[simp] theorem hubDel_recvLog (s : St) : (hubDel s).recvLog = s.recvLog := rfl
@[simp] theorem hubDel_authPassed (s : St) : (hubDel s).authPassed = s.authPassed := rfl
@[simp] theorem hubDel_sid (s : St) : (hubDel s).sid = s.sid := rfl
@[simp] theorem hubDel_ids (s : St) : (hubDel s).ids = s.ids := rfl
@[simp] theorem hubDel_arrived (s : St) : (hubDel s).arrived = s.arrived := rfl
@[simp] theorem hubDel_pending (s : St) : (hubDel s).pending = s.pending := rfl
@[simp] theorem hubDel_preRead (s : St) : (hubDel s).preRead = s.preRead := rfl
@[simp] theorem hubDel_loopRead (s : St) : (hubDel s).loopRead = s.loopRead := rfl
@[simp] theorem hubDel_cut (s : St) : (hubDel s).cut = s.cut := rfl
@[simp] theorem hubDel_rd (s : St) : (hubDel s).rd = s.rd := rfl
@[simp] theorem hubDel_hs (s : St) : (hubDel s).hs = s.hs := rfl
@[simp] theorem hubDel_closer (s : St) : (hubDel s).closer = s.closer := rfl
@[simp] theorem hubDel_wantClose (s : St) : (hubDel s).wantClose = s.wantClose := rfl
@[simp] theorem hubDel_handlerCount (s : St) : (hubDel s).handlerCount = s.handlerCount := rfl
@[simp] theorem hubDel_hookCount (s : St) : (hubDel s).hookCount = s.hookCount := rfl
@[simp] theorem hubDel_prhCount (s : St) : (hubDel s).prhCount = s.prhCount := rfl
@[simp] theorem hubDel_discHook (s : St) : (hubDel s).discHook = s.discHook := rfl
@[simp] theorem hubDel_out (s : St) : (hubDel s).out = s.out := rfl
@[simp] theorem hubDel_sockClosed (s : St) : (hubDel s).sockClosed = s.sockClosed := rfl
@[simp] theorem hubDel_nops (s : St) : (hubDel s).nops = s.nops := rfl
@[simp] theorem hubDel_renamed (s : St) : (hubDel s).renamed = s.renamed := rfl
@[simp] theorem hubDel_peeks (s : St) : (hubDel s).peeks = s.peeks := rfl
@[simp] theorem hubDel_kicked (s : St) : (hubDel s).kicked = s.kicked := rfl
@[simp] theorem hubSet_hub (s : St) : (hubSet s).hub = Lifecycle.AL.put s.hub s.sid 0 := by unfold hubSet; split <;> rfl
@[simp] theorem hubDel_hub (s : St) : (hubDel s).hub = Lifecycle.AL.delIf s.hub s.sid 0 := rfl
@[simp] theorem hubSet_messageHookCount (s : St) : (hubSet s).messageHookCount = s.messageHookCount := by simp [St.messageHookCount]

/-! ## the hub invariant: distinct keys, this connection listed under its current id only -/

theorem inHub_false_iff (s : St) : s.inHub = false ↔ ∀ x ∈ s.hub, x.2 ≠ 0 := by
  simp [St.inHub]

theorem inHub_true_iff (s : St) : s.inHub = true ↔ ∃ x ∈ s.hub, x.2 = 0 := by
  simp [St.inHub]

structure HInv (s : St) : Prop where
  wf : HubL.WF s.hub
  selfAt : ∀ x ∈ s.hub, x.2 = 0 → x.1 = s.sid
  cur : s.ids.getLast? = some s.sid

theorem hinv_same {s t : St} (h : HInv s) (h1 : t.hub = s.hub) (h2 : t.sid = s.sid) (h3 : t.ids = s.ids) :
    HInv t := ⟨by rw [h1]; exact h.wf, by rw [h1, h2]; exact h.selfAt, by rw [h2, h3]; exact h.cur⟩

theorem hinv_put {s t : St} (h : HInv s) (h1 : t.hub = Lifecycle.AL.put s.hub s.sid 0) (h2 : t.sid = s.sid)
    (h3 : t.ids = s.ids) : HInv t := by
  refine ⟨by rw [h1]; exact HubL.wf_put h.wf _ _, ?_, by rw [h2, h3]; exact h.cur⟩
  rw [h1, h2]
  intro x hx h0
  rcases HubL.mem_put hx with e | m
  · rw [e]
  · exact h.selfAt x m h0

theorem hinv_delIf {s t : St} (h : HInv s) (h1 : t.hub = Lifecycle.AL.delIf s.hub s.sid 0) (h2 : t.sid = s.sid)
    (h3 : t.ids = s.ids) : HInv t := by
  refine ⟨by rw [h1]; exact HubL.wf_delIf h.wf _ _, ?_, by rw [h2, h3]; exact h.cur⟩
  rw [h1, h2]
  intro x hx h0
  exact h.selfAt x (HubL.mem_delIf hx) h0

/-- after `sessHub.delete(s.ID(), s)` no entry refers to this connection — under any id. -/
theorem unlisted_delIf {s : St} (h : HInv s) : ∀ x ∈ Lifecycle.AL.delIf s.hub s.sid 0, x.2 ≠ 0 := by
  intro x hx h0
  have hm := HubL.mem_delIf hx
  have hk := h.selfAt x hm h0
  have : x = (s.sid, 0) := by cases x; simp_all
  rw [this] at hx
  exact HubL.not_mem_delIf_self h.wf _ _ hx

/-- `SetID(v)` on a session in Preparing / Ok: `hub.set` under the new id, `hub.delete(old, s)`. -/
theorem hinv_setId {s : St} (h : HInv s) (v : Nat) (k : List Nat) (n : Nat) (b : Bool) :
    HInv { s with sid := v, ids := s.ids ++ [v], nops := n, renamed := b, kicked := k,
                  hub := Lifecycle.AL.delIf (Lifecycle.AL.put s.hub v 0) s.sid 0 } := by
  have wp := HubL.wf_put h.wf v 0
  refine ⟨HubL.wf_delIf wp _ _, ?_, by simp⟩
  intro x hx h0
  show x.1 = v
  have hm := HubL.mem_delIf hx
  rcases HubL.mem_put hm with e | m
  · rw [e]
  · have hk := h.selfAt x m h0
    have : x = (s.sid, 0) := by cases x; simp_all
    rw [this] at hx
    exact absurd hx (HubL.not_mem_delIf_self wp _ _)

theorem hubOf_owner (l : List Nat) (o : Nat) (h : Hub) (w : HubL.WF h) (hz : ∀ x ∈ h, x.2 ≠ 0) :
    HubL.WF (hubOf l o h) ∧ ∀ x ∈ hubOf l o h, x.2 ≠ 0 := by
  induction l generalizing o h with
  | nil => exact ⟨w, hz⟩
  | cons id r ih =>
    simp only [hubOf]
    refine ih (o + 1) _ (HubL.wf_put w _ _) ?_
    intro x hx
    rcases HubL.mem_put hx with e | m
    · rw [e]; simp
    · exact hz x m

theorem hinv_init (lis strict : Bool) (others : List Nat) : HInv (init lis strict others) := by
  have := hubOf_owner others 0 [] HubL.wf_nil (by simp)
  exact ⟨this.1, fun x hx h0 => absurd h0 (this.2 x hx), rfl⟩

theorem init_unlisted (lis strict : Bool) (others : List Nat) : (init lis strict others).inHub = false := by
  rw [inHub_false_iff]
  exact (hubOf_owner others 0 [] HubL.wf_nil (by simp)).2


/-- accept-thread positions after a successful `postAccept` branch. -/
def APc.passed : APc → Bool
  | .okSet | .okSpawned | .lisHub | .lisSet => true
  | .done st => st == 0
  | _ => false

/-- positions at or after an OK result of the checker function. -/
def APc.accepting : APc → Bool
  | .reply v => verdictCode v == 0
  | .decided st => st == 0
  | pc => pc.passed

/-- what holds on the way to / after a rejection (nobody but the accept path can touch the session). -/
def rejInv (s : St) : Prop :=
  match s.acc with
  | .checker | .reply _ | .decided _ =>
    s.status = .preparing ∧ s.closer = none ∧ s.sockClosed = false ∧ s.discHook = 0
  | .rejClosing st => st ≠ 0 ∧
    match s.closer with
    | some .hubdel => s.status = .activeClosing ∧ s.sockClosed = false ∧ s.discHook = 0
    | some .notify | some .waitCtx | some .setClosed =>
      s.status = .activeClosing ∧ s.sockClosed = false ∧ s.discHook = 0 ∧ s.inHub = false
    | some .sockClose => s.status = .activeClosed ∧ s.sockClosed = false ∧ s.discHook = 0 ∧ s.inHub = false
    | some .hook => s.status = .activeClosed ∧ s.sockClosed = true ∧ s.discHook = 0 ∧ s.inHub = false
    | none => s.status = .activeClosed ∧ s.sockClosed = true ∧ s.discHook = 1 ∧ s.inHub = false
  | .done st => st ≠ 0 ∧
    s.closer = none ∧ s.status = .activeClosed ∧ s.sockClosed = true ∧ s.discHook = 1 ∧ s.inHub = false
  | _ => True

/-- nothing of the session machinery has run; the session is listed only if the checker function
    itself renamed it (`SetID` enters a session that is being prepared in the hub). -/
def quiet (s : St) : Prop :=
  s.handlerCount = 0 ∧ s.hookCount = 0 ∧ s.prhCount = 0 ∧ s.rd = none ∧ s.hs = [] ∧
  s.wantClose = 0 ∧ s.loopRead = [] ∧ (s.renamed = false → s.inHub = false) ∧ s.status ≠ .ok ∧
  ∀ o ∈ s.out, ∃ c, o = .authReply c

structure SInv (s : St) : Prop where
  passed_iff : s.authPassed = s.acc.passed
  quiet : s.authPassed = false → quiet s
  exch_eq : s.exch = if s.called then 1 else 0
  pre_len : s.preRead.length ≤ s.exch
  conserve : s.arrived = s.preRead ++ s.loopRead ++ s.pending
  log_called : s.called = false ↔ s.recvLog = []
  log_ok : s.recvLog = [.ok] → ∃ f, s.preRead = [.frame f] ∧ f.kind = .authCall ∧ f.stOk = true
  strict_ok : s.strict = true → s.acc.accepting = true → s.recvLog = [.ok]
  rej : s.authPassed = false → rejInv s

theorem sinv_init (lis strict : Bool) (others : List Nat := []) : SInv (init lis strict others) := by
  have hu := init_unlisted lis strict others
  refine ⟨rfl, ?_, rfl, ?_, rfl, ?_, ?_, ?_, ?_⟩ <;> simp [init, quiet, rejInv, APc.accepting, APc.passed]
  exact hu

theorem recvCheck_ok {f : Frame} (h : recvCheck f = .ok) : f.kind = .authCall ∧ f.stOk = true := by
  unfold recvCheck at h
  cases hs : f.stOk <;> simp [hs] at h
  by_cases hk : f.kind = .authCall
  · exact ⟨hk, rfl⟩
  · simp [hk] at h

/-- an event that needs the session machinery and leaves the gate's variables alone keeps `SInv`. -/
theorem sinv_of_passed {s t : St} (h : SInv s) (hp : s.authPassed = true)
    (h1 : t.authPassed = s.authPassed) (h2 : t.acc = s.acc) (h3 : t.called = s.called)
    (h4 : t.exch = s.exch) (h5 : t.recvLog = s.recvLog) (h6 : t.preRead = s.preRead)
    (h7 : t.strict = s.strict) (h8 : t.arrived = t.preRead ++ t.loopRead ++ t.pending) : SInv t := by
  have hq : t.authPassed = true := by rw [h1, hp]
  refine ⟨by rw [h1, h2]; exact h.passed_iff, fun c => by simp [hq] at c, by rw [h4, h3]; exact h.exch_eq,
    by rw [h6, h4]; exact h.pre_len, h8, by rw [h3, h5]; exact h.log_called,
    by rw [h5, h6]; exact h.log_ok, by rw [h7, h2, h5]; exact h.strict_ok, fun c => by simp [hq] at c⟩

/-- `quiet` only looks at these fields. -/
theorem quiet_keep {s t : St} (q : quiet s) (h1 : t.handlerCount = s.handlerCount)
    (h2 : t.hookCount = s.hookCount) (h3 : t.prhCount = s.prhCount) (h4 : t.rd = s.rd) (h5 : t.hs = s.hs)
    (h6 : t.wantClose = s.wantClose) (h7 : t.loopRead = s.loopRead) (h8 : t.renamed = s.renamed)
    (h9 : t.hub = s.hub) (h10 : t.status ≠ .ok) (h11 : t.out = s.out) : quiet t := by
  simp only [quiet, St.inHub] at q ⊢
  rw [h1, h2, h3, h4, h5, h6, h7, h8, h9, h11]
  exact ⟨q.1, q.2.1, q.2.2.1, q.2.2.2.1, q.2.2.2.2.1, q.2.2.2.2.2.1, q.2.2.2.2.2.2.1, q.2.2.2.2.2.2.2.1, h10,
    q.2.2.2.2.2.2.2.2.2⟩

theorem sinv_hubSet {s : St} (h : SInv s) (hp : s.authPassed = true) : SInv (hubSet s) := by
  apply sinv_of_passed h hp <;> simp [h.conserve]

theorem sinv_hubDel {s : St} (h : SInv s) (hp : s.authPassed = true) : SInv (hubDel s) := by
  apply sinv_of_passed h hp <;> simp [h.conserve]

theorem passed_of_rd {s : St} (h : SInv s) {r : RPc} (hr : s.rd = some r) : s.authPassed = true := by
  cases hq : s.authPassed with
  | true => rfl
  | false => have := (h.quiet hq).2.2.2.1; simp [this] at hr

theorem passed_of_hs {s : St} (h : SInv s) (hr : s.hs ≠ []) : s.authPassed = true := by
  cases hq : s.authPassed with
  | true => rfl
  | false => exact absurd (h.quiet hq).2.2.2.2.1 hr

theorem inv_arrive {s t : St} {i : Item} (h : SInv s) (hs : step s (.arrive i) = some t) : SInv t := by
  simp only [step] at hs
  split at hs
  · simp at hs
  · simp at hs; subst hs
    refine ⟨h.passed_iff, ?_, h.exch_eq, h.pre_len, ?_, h.log_called, h.log_ok, h.strict_ok, ?_⟩
    · intro c; have := h.quiet c; simpa [quiet, St.inHub] using this
    · simp [h.conserve]
    · intro c; have := h.rej c; simpa [rejInv, St.inHub] using this

theorem inv_cut {s t : St} (h : SInv s) (hs : step s .cut = some t) : SInv t := by
  simp only [step] at hs
  simp at hs; subst hs
  refine ⟨h.passed_iff, ?_, h.exch_eq, h.pre_len, h.conserve, h.log_called, h.log_ok, h.strict_ok, ?_⟩
  · intro c; have := h.quiet c; simpa [quiet, St.inHub] using this
  · intro c; have := h.rej c; simpa [rejInv, St.inHub] using this

theorem startClose_gate (s : St) :
    (startClose s).authPassed = s.authPassed ∧ (startClose s).acc = s.acc ∧
    (startClose s).called = s.called ∧ (startClose s).exch = s.exch ∧
    (startClose s).recvLog = s.recvLog ∧ (startClose s).preRead = s.preRead ∧
    (startClose s).strict = s.strict ∧ (startClose s).arrived = s.arrived ∧
    (startClose s).loopRead = s.loopRead ∧ (startClose s).pending = s.pending := by
  unfold startClose; split <;> simp

theorem inv_rdTop {s t : St} (h : SInv s) (hs : evRdTop s = some t) : SInv t := by
  unfold evRdTop at hs
  split at hs
  · rename_i hr
    have hp := passed_of_rd h hr
    split at hs <;> (simp at hs; subst hs; apply sinv_of_passed h hp <;> simp [h.conserve])
  · simp at hs

theorem inv_rdRead {s t : St} {b : Bool} (h : SInv s) (hs : evRdRead s b = some t) : SInv t := by
  unfold evRdRead at hs
  split at hs
  · rename_i hr
    have hp := passed_of_rd h hr
    split at hs
    · simp at hs; subst hs; apply sinv_of_passed h hp <;> simp [h.conserve]
    · split at hs
      · rename_i hpend
        split at hs
        · simp at hs; subst hs; apply sinv_of_passed h hp <;> simp [h.conserve]
        · simp at hs
      · rename_i c r hpend
        simp at hs; subst hs; apply sinv_of_passed h hp <;> simp [h.conserve, hpend]
      · rename_i f r hpend
        simp only at hs
        split at hs <;> (simp at hs; subst hs; apply sinv_of_passed h hp <;> simp [h.conserve, hpend])
  · simp at hs

theorem inv_rdDisc {s t : St} (h : SInv s) (hs : evRdDisc s = some t) : SInv t := by
  unfold evRdDisc at hs
  split at hs
  all_goals first
    | (simp at hs; done)
    | (rename_i hr
       have hp := passed_of_rd h hr
       first
         | (simp at hs; subst hs; apply sinv_of_passed h hp <;> simp [h.conserve]; done)
         | (split at hs <;> first
             | (simp at hs; done)
             | (simp at hs; subst hs; apply sinv_of_passed h hp <;> simp [h.conserve])))

theorem hs_ne_of_get {s : St} {i : Nat} {x : H} (hx : s.hs[i]? = some x) : s.hs ≠ [] := by
  intro c; rw [c] at hx; simp at hx

theorem inv_hRun {s t : St} {i : Nat} (h : SInv s) (hs : evHRun s i = some t) : SInv t := by
  unfold evHRun at hs
  split at hs
  · rename_i f hx
    have hp := passed_of_hs h (hs_ne_of_get hx)
    split at hs
    · simp only at hs
      split at hs <;> (simp at hs; subst hs; apply sinv_of_passed h hp <;> simp [h.conserve])
    · simp only at hs
      split at hs <;> (simp at hs; subst hs; apply sinv_of_passed h hp <;> simp [h.conserve])
    · simp at hs; subst hs; apply sinv_of_passed h hp <;> simp [h.conserve]
    · simp at hs; subst hs; apply sinv_of_passed h hp <;> simp [h.conserve]
  · simp at hs

theorem inv_hReply {s t : St} {i : Nat} (h : SInv s) (hs : evHReply s i = some t) : SInv t := by
  unfold evHReply at hs
  split at hs
  · rename_i f c hx
    have hp := passed_of_hs h (hs_ne_of_get hx)
    split at hs <;> (simp at hs; subst hs; apply sinv_of_passed h hp <;> simp [h.conserve])
  · simp at hs

theorem inv_appClose {s t : St} (h : SInv s) (hs : evAppClose s = some t) : SInv t := by
  unfold evAppClose at hs
  split at hs
  · simp at hs
  · split at hs
    · rename_i hg
      simp at hs; subst hs
      have hp : s.authPassed = true := (by simpa using hg : s.authPassed = true ∧ _).1
      have g := startClose_gate s
      apply sinv_of_passed h hp g.1 g.2.1 g.2.2.1 g.2.2.2.1 g.2.2.2.2.1 g.2.2.2.2.2.1 g.2.2.2.2.2.2.1
      rw [g.2.2.2.2.2.2.2.1, g.2.2.2.2.2.1, g.2.2.2.2.2.2.2.2.1, g.2.2.2.2.2.2.2.2.2]; exact h.conserve
    · simp at hs

theorem inv_goClose {s t : St} (h : SInv s) (hs : evGoClose s = some t) : SInv t := by
  unfold evGoClose at hs
  split at hs
  · simp at hs
  · rename_i hg
    simp at hs; subst hs
    have hp : s.authPassed = true := by
      cases hq : s.authPassed with
      | true => rfl
      | false =>
        have q := h.quiet hq
        simp [q.2.2.2.2.2.1] at hg
    have g := startClose_gate { s with wantClose := s.wantClose - 1 }
    apply sinv_of_passed h hp g.1 g.2.1 g.2.2.1 g.2.2.2.1 g.2.2.2.2.1 g.2.2.2.2.2.1 g.2.2.2.2.2.2.1
    rw [g.2.2.2.2.2.2.2.1, g.2.2.2.2.2.1, g.2.2.2.2.2.2.2.2.1, g.2.2.2.2.2.2.2.2.2]; exact h.conserve

theorem not_passed_of_checker {s : St} (h : SInv s) (ha : s.acc = .checker) : s.authPassed = false := by
  have := h.passed_iff; rw [ha] at this; simpa [APc.passed] using this

theorem inv_recvOnce {s t : St} {b : Bool} (h : SInv s) (hs : evRecvOnce s b = some t) : SInv t := by
  unfold evRecvOnce at hs
  split at hs
  · simp at hs
  · rename_i hacc
    have ha : s.acc = .checker := by simpa using hacc
    have hnp := not_passed_of_checker h ha
    have hq := h.quiet hnp
    have hr := h.rej hnp
    have hst : s.status = .preparing := by simp [rejInv, ha] at hr; exact hr.1
    split at hs
    · -- already called: MultiRecvErr
      rename_i hc
      simp at hs; subst hs
      have hne : s.recvLog ≠ [] := fun c => by
        have := h.log_called.2 c; simp [hc] at this
      refine ⟨h.passed_iff, ?_, h.exch_eq, h.pre_len, h.conserve, ?_, ?_, ?_, ?_⟩
      · intro c; have := h.quiet c; simpa [quiet, St.inHub] using this
      · simp [hc]
      · intro c
        simp only at c
        cases hl : s.recvLog with
        | nil => exact absurd hl hne
        | cons a r => rw [hl] at c; cases r <;> simp at c
      · intro _ c; simp [ha, APc.accepting, APc.passed] at c
      · intro c; have := h.rej c; simpa [rejInv, St.inHub] using this
    · rename_i hc
      have hc' : s.called = false := by simpa using hc
      have hlog : s.recvLog = [] := h.log_called.1 hc'
      have hex : s.exch = 0 := by have := h.exch_eq; simpa [hc'] using this
      have hpre : s.preRead = [] := by
        have := h.pre_len; rw [hex] at this
        exact List.length_eq_zero_iff.mp (Nat.le_zero.mp this)
      have mk : ∀ (res : RecvRes) (pre pend : List Item),
          (res = .ok → ∃ f, pre = [.frame f] ∧ f.kind = .authCall ∧ f.stOk = true) →
          pre.length ≤ 1 → s.arrived = pre ++ s.loopRead ++ pend →
          SInv { s with called := true, exch := s.exch + 1, recvLog := s.recvLog ++ [res],
                        preRead := pre, pending := pend } := by
        intro res pre pend h1 h2 h3
        refine ⟨h.passed_iff, ?_, ?_, ?_, h3, ?_, ?_, ?_, ?_⟩
        · intro c; have := h.quiet c; simpa [quiet, St.inHub] using this
        · simp [hex]
        · simpa [hex] using h2
        · simp
        · intro c; simp [hlog] at c; exact h1 c
        · intro _ c; simp [ha, APc.accepting, APc.passed] at c
        · intro c; have := h.rej c; simpa [rejInv, St.inHub] using this
      split at hs
      · rename_i c; simp [hst] at c
      split at hs
      · simp at hs; subst hs
        exact mk (.err 102) s.preRead s.pending (by simp) (by simp [hpre]) h.conserve
      · split at hs
        · split at hs
          · simp at hs; subst hs
            exact mk (.err 102) s.preRead s.pending (by simp) (by simp [hpre]) h.conserve
          · simp at hs
        · rename_i c r hp
          simp at hs; subst hs
          exact mk (.err c) (s.preRead ++ [.bad c]) r (by simp) (by simp [hpre])
            (by simp [h.conserve, hp, hq.2.2.2.2.2.2.1, hpre])
        · rename_i f r hp
          simp at hs; subst hs
          refine mk (recvCheck f) (s.preRead ++ [.frame f]) r ?_ (by simp [hpre])
            (by simp [h.conserve, hp, hq.2.2.2.2.2.2.1, hpre])
          intro c
          exact ⟨f, by simp [hpre], recvCheck_ok c⟩

theorem inv_ckReturn {s t : St} {v : Verdict} (h : SInv s) (hs : evCkReturn s v = some t) : SInv t := by
  unfold evCkReturn at hs
  split at hs
  · simp at hs
  · rename_i hacc
    have ha : s.acc = .checker := by simpa using hacc
    have hnp := not_passed_of_checker h ha
    split at hs
    · simp at hs
    · rename_i hg
      simp at hs; subst hs
      refine ⟨by simp [hnp, APc.passed], ?_, h.exch_eq, h.pre_len, h.conserve, h.log_called, h.log_ok, ?_, ?_⟩
      · intro c; have := h.quiet c; simpa [quiet, St.inHub] using this
      · intro hs' c
        simp [APc.accepting] at c
        simp at hs'
        simp [hs', c] at hg
        exact hg
      · intro c; have := h.rej c; simp [rejInv, ha] at this; simpa [rejInv, St.inHub] using this

theorem inv_sendReply {s t : St} {w : Int} (h : SInv s) (hs : evSendReply s w = some t) : SInv t := by
  unfold evSendReply at hs
  split at hs
  · rename_i v ha
    have hnp : s.authPassed = false := by
      have := h.passed_iff; rw [ha] at this; simpa [APc.passed] using this
    simp only at hs
    by_cases hp : v = .panic
    · subst hp
      simp at hs; subst hs
      refine ⟨by simp [hnp, APc.passed], ?_, h.exch_eq, h.pre_len, h.conserve, h.log_called, h.log_ok, ?_, ?_⟩
      · intro c
        have q := h.quiet hnp
        simpa [quiet, St.inHub] using q
      · intro hs' c
        simp [APc.accepting] at c
      · intro c
        have r := h.rej hnp
        simp [rejInv, ha] at r
        simp [rejInv, r]
    simp [hp] at hs; subst hs
    refine ⟨by simp [hnp, APc.passed], ?_, h.exch_eq, h.pre_len, h.conserve, h.log_called, h.log_ok, ?_, ?_⟩
    · intro c
      have q := h.quiet hnp
      simp only [quiet] at q ⊢
      refine ⟨q.1, q.2.1, q.2.2.1, q.2.2.2.1, q.2.2.2.2.1, q.2.2.2.2.2.1, q.2.2.2.2.2.2.1, q.2.2.2.2.2.2.2.1,
        q.2.2.2.2.2.2.2.2.1, ?_⟩
      intro o ho
      have ho' : o ∈ s.out ∨ o = .authReply (verdictCode v) := by
        by_cases hw : (if s.status = SStat.preparing then w else 1) = 0
        · rw [if_pos hw] at ho
          rcases List.mem_append.mp ho with m | m
          · exact .inl m
          · simp at m; exact .inr m
        · rw [if_neg hw] at ho; exact .inl ho
      rcases ho' with m | m
      · exact q.2.2.2.2.2.2.2.2.2 o m
      · exact ⟨_, m⟩
    · intro hs' c
      have r := h.rej hnp
      simp [rejInv, ha] at r
      have hv : verdictCode v = 0 := by
        simp only [APc.accepting] at c
        by_cases h1 : v = .multi
        · simp [h1] at c
        · by_cases hw : w = 0
          · simpa [h1, r.1, hw] using c
          · simp [h1, r.1, hw] at c
      exact h.strict_ok hs' (by simp [ha, APc.accepting, hv])
    · intro c
      have r := h.rej hnp
      simp [rejInv, ha] at r
      simp [rejInv, r]
  · simp at hs

theorem inv_branch {s t : St} (h : SInv s) (hs : evBranch s = some t) : SInv t := by
  unfold evBranch at hs
  split at hs
  · rename_i st ha
    have hnp : s.authPassed = false := by
      have := h.passed_iff; rw [ha] at this; simpa [APc.passed] using this
    have q := h.quiet hnp
    have r := h.rej hnp
    simp [rejInv, ha] at r
    split at hs
    · rename_i hst
      have hst' : st ≠ 0 := by simpa using hst
      simp [r.2.1] at hs; subst hs
      simp only [startClose, r.1]
      simp
      refine ⟨by simp [hnp, APc.passed], ?_, h.exch_eq, h.pre_len, h.conserve, h.log_called, h.log_ok, ?_, ?_⟩
      · intro _; exact quiet_keep q rfl rfl rfl rfl rfl rfl rfl rfl rfl (by simp) rfl
      · intro _ c; simp [APc.accepting, APc.passed] at c
      · intro _; simp [rejInv, hst', r]
    · rename_i hst
      have hst' : st = 0 := by simpa using hst
      have hacc : s.acc.accepting = true := by simp [ha, APc.accepting, hst']
      split at hs
      · simp at hs; subst hs
        refine sinv_hubSet ?_ rfl
        exact ⟨by simp [APc.passed], fun c => by simp at c, h.exch_eq, h.pre_len, h.conserve, h.log_called,
           h.log_ok, fun hs' _ => h.strict_ok hs' hacc, fun c => by simp at c⟩
      · simp at hs; subst hs
        exact ⟨by simp [APc.passed], fun c => by simp at c, h.exch_eq, h.pre_len, h.conserve, h.log_called,
           h.log_ok, fun hs' _ => h.strict_ok hs' hacc, fun c => by simp at c⟩
  · simp at hs

theorem inv_accStep {s t : St} (h : SInv s) (hs : evAccStep s = some t) : SInv t := by
  unfold evAccStep at hs
  have passedCase : ∀ (a b : APc), s.acc = a → a.passed = true → b.passed = true →
      ∀ u : St, u.authPassed = s.authPassed → u.acc = b → u.called = s.called → u.exch = s.exch →
        u.recvLog = s.recvLog → u.preRead = s.preRead → u.strict = s.strict →
        u.arrived = u.preRead ++ u.loopRead ++ u.pending → SInv u := by
    intro a b ha hpa hpb u h1 h2 h3 h4 h5 h6 h7 h8
    have hp : s.authPassed = true := by have := h.passed_iff; rw [ha, hpa] at this; exact this
    have hq : u.authPassed = true := by rw [h1, hp]
    have hacc : s.acc.accepting = true := by
      rw [ha]; cases a <;> simp_all [APc.accepting, APc.passed]
    refine ⟨by rw [hq, h2, hpb], fun c => by simp [hq] at c, by rw [h4, h3]; exact h.exch_eq,
      by rw [h6, h4]; exact h.pre_len, h8, by rw [h3, h5]; exact h.log_called,
      by rw [h5, h6]; exact h.log_ok, fun hs' _ => by rw [h5]; exact h.strict_ok (by rw [← h7]; exact hs') hacc,
      fun c => by simp [hq] at c⟩
  split at hs
  · rename_i ha; simp at hs; subst hs
    exact passedCase _ .okSpawned ha rfl rfl _ rfl rfl rfl rfl rfl rfl rfl h.conserve
  · rename_i ha; simp at hs; subst hs
    exact passedCase _ (.done 0) ha rfl rfl _ (by simp) (by simp) (by simp) (by simp) (by simp) (by simp)
      (by simp) (by simp [h.conserve])
  · rename_i ha
    split at hs
    · simp at hs; subst hs
      exact passedCase _ .lisSet ha rfl rfl _ rfl rfl rfl rfl rfl rfl rfl h.conserve
    · simp at hs; subst hs
      exact passedCase _ (.done 0) ha rfl rfl _ (by simp) (by simp) (by simp) (by simp) (by simp) (by simp)
        (by simp) (by simp [h.conserve])
  · rename_i ha; simp at hs; subst hs
    exact passedCase _ (.done 0) ha rfl rfl _ rfl rfl rfl rfl rfl rfl rfl h.conserve
  · rename_i st ha
    have hnp : s.authPassed = false := by
      have := h.passed_iff; rw [ha] at this; simpa [APc.passed] using this
    have q := h.quiet hnp
    have r := h.rej hnp
    simp only [rejInv, ha] at r
    split at hs
    · simp at hs
    · rename_i hc
      have hc' : s.closer = none := by
        cases hcl : s.closer <;> simp [hcl] at hc ⊢
      simp at hs; subst hs
      rw [hc'] at r
      simp only at r
      have hst : (st == 0) = false := by simpa using r.1
      refine ⟨by simp [hnp, APc.passed, hst], ?_, h.exch_eq, h.pre_len, h.conserve, h.log_called, h.log_ok, ?_, ?_⟩
      · intro _; simpa [quiet, St.inHub] using q
      · intro _ c; simp [APc.accepting, APc.passed, hst] at c
      · intro _; simp only [rejInv]; exact ⟨r.1, hc', r.2.1, r.2.2.1, r.2.2.2.1, r.2.2.2.2⟩
  · simp at hs

theorem inHub_eq {s t : St} (h : t.hub = s.hub) : t.inHub = s.inHub := by simp [St.inHub, h]

theorem inv_closeStep {s t : St} (h : SInv s) (hh : HInv s) (hs : evCloseStep s = some t) : SInv t := by
  cases hp : s.authPassed with
  | true =>
    unfold evCloseStep at hs
    split at hs
    all_goals first
      | (simp at hs; done)
      | (simp at hs; subst hs; apply sinv_of_passed h hp <;> simp [h.conserve]; done)
      | (split at hs <;> first
          | (simp at hs; done)
          | (simp at hs; subst hs; apply sinv_of_passed h hp <;> simp [h.conserve]))
  | false =>
    have q := h.quiet hp
    have r := h.rej hp
    have pi := h.passed_iff
    unfold evCloseStep at hs
    -- the closer is only active inside the reject branch
    have hacc : ∃ st, s.acc = .rejClosing st := by
      cases ha : s.acc with
      | rejClosing st => exact ⟨st, rfl⟩
      | checker | reply _ | decided _ =>
        simp only [rejInv, ha] at r; simp [r.2.1] at hs
      | done st => simp only [rejInv, ha] at r; simp [r.2.1] at hs
      | okSet | okSpawned | lisHub | lisSet => rw [hp, ha] at pi; simp [APc.passed] at pi
    obtain ⟨st, ha⟩ := hacc
    simp only [rejInv, ha] at r
    have mk : ∀ u : St, u.authPassed = false → u.acc = .rejClosing st → u.called = s.called →
        u.exch = s.exch → u.recvLog = s.recvLog → u.preRead = s.preRead → u.strict = s.strict →
        u.arrived = s.arrived → u.loopRead = s.loopRead → u.pending = s.pending →
        quiet u → rejInv u → SInv u := by
      intro u h1 h2 h3 h4 h5 h6 h7 h8 h9 h10 hq hr
      refine ⟨by rw [h1, h2]; rfl, fun _ => hq, by rw [h4, h3]; exact h.exch_eq,
        by rw [h6, h4]; exact h.pre_len, by rw [h8, h6, h9, h10]; exact h.conserve,
        by rw [h3, h5]; exact h.log_called, by rw [h5, h6]; exact h.log_ok,
        fun _ c => by rw [h2] at c; simp [APc.accepting, APc.passed] at c, fun _ => hr⟩
    split at hs
    · simp at hs
    all_goals
      rename_i hc
      rw [hc] at r
      simp only at r
    · -- `sessHub.delete(s.ID(), s)`: whatever id the checker gave the session, the entry goes
      simp at hs; subst hs
      have hu : (hubDel { s with closer := some .notify }).inHub = false :=
        (inHub_false_iff _).2 (unlisted_delIf (hinv_same hh rfl rfl rfl))
      refine mk _ hp ha rfl rfl rfl rfl rfl rfl rfl rfl ?_ ?_
      · simp only [quiet] at q ⊢
        exact ⟨q.1, q.2.1, q.2.2.1, q.2.2.2.1, q.2.2.2.2.1, q.2.2.2.2.2.1, q.2.2.2.2.2.2.1, fun _ => hu,
          q.2.2.2.2.2.2.2.2.1, q.2.2.2.2.2.2.2.2.2⟩
      · simp only [rejInv, hubDel_acc, hubDel_closer, ha]
        exact ⟨r.1, r.2.1, r.2.2.1, r.2.2.2, hu⟩
    · simp at hs; subst hs
      refine mk _ hp ha rfl rfl rfl rfl rfl rfl rfl rfl (quiet_keep q rfl rfl rfl rfl rfl rfl rfl rfl rfl q.2.2.2.2.2.2.2.2.1 rfl) ?_
      simp only [rejInv, ha]; exact ⟨r.1, r.2.1, r.2.2.1, r.2.2.2.1, r.2.2.2.2⟩
    · split at hs
      · simp at hs; subst hs
        refine mk _ hp ha rfl rfl rfl rfl rfl rfl rfl rfl (quiet_keep q rfl rfl rfl rfl rfl rfl rfl rfl rfl q.2.2.2.2.2.2.2.2.1 rfl) ?_
        simp only [rejInv, ha]; exact ⟨r.1, r.2.1, r.2.2.1, r.2.2.2.1, r.2.2.2.2⟩
      · simp at hs
    · simp at hs; subst hs
      refine mk _ hp ha rfl rfl rfl rfl rfl rfl rfl rfl (quiet_keep q rfl rfl rfl rfl rfl rfl rfl rfl rfl (by simp) rfl) ?_
      simp only [rejInv, ha]; exact ⟨r.1, trivial, r.2.2.1, r.2.2.2.1, r.2.2.2.2⟩
    · simp at hs; subst hs
      refine mk _ hp ha rfl rfl rfl rfl rfl rfl rfl rfl (quiet_keep q rfl rfl rfl rfl rfl rfl rfl rfl rfl q.2.2.2.2.2.2.2.2.1 rfl) ?_
      simp only [rejInv, ha]; exact ⟨r.1, r.2.1, trivial, r.2.2.2.1, r.2.2.2.2⟩
    · simp at hs; subst hs
      refine mk _ hp ha rfl rfl rfl rfl rfl rfl rfl rfl (quiet_keep q rfl rfl rfl rfl rfl rfl rfl rfl rfl q.2.2.2.2.2.2.2.2.1 rfl) ?_
      simp only [rejInv, ha]; exact ⟨r.1, r.2.1, r.2.2.1, by simp [r.2.2.2.1], r.2.2.2.2⟩

/-- a session operation of the checker function leaves the gate's variables alone. -/
theorem sinv_ck_keep {s t : St} (h : SInv s) (ha : s.acc = .checker)
    (g1 : t.authPassed = s.authPassed) (g2 : t.acc = s.acc) (g3 : t.called = s.called) (g4 : t.exch = s.exch)
    (g5 : t.recvLog = s.recvLog) (g6 : t.preRead = s.preRead) (_g7 : t.strict = s.strict)
    (g8 : t.arrived = s.arrived) (g9 : t.loopRead = s.loopRead) (g10 : t.pending = s.pending)
    (k1 : t.status = s.status) (k2 : t.closer = s.closer) (k3 : t.sockClosed = s.sockClosed)
    (k4 : t.discHook = s.discHook) (hq : quiet t) : SInv t := by
  have hnp := not_passed_of_checker h ha
  have r := h.rej hnp
  simp only [rejInv, ha] at r
  refine ⟨by rw [g1, g2]; exact h.passed_iff, fun _ => hq, by rw [g4, g3]; exact h.exch_eq,
    by rw [g6, g4]; exact h.pre_len, by rw [g8, g6, g9, g10]; exact h.conserve,
    by rw [g3, g5]; exact h.log_called, by rw [g5, g6]; exact h.log_ok,
    fun _ c => by rw [g2, ha] at c; simp [APc.accepting, APc.passed] at c, fun _ => ?_⟩
  simp only [rejInv, g2, ha]
  rw [k1, k2, k3, k4]; exact r

theorem inv_setId {s t : St} {v : Nat} (h : SInv s) (hs : evSetId s v = some t) : SInv t := by
  unfold evSetId at hs
  split at hs
  · simp at hs
  · rename_i hacc
    have ha : s.acc = .checker := by simpa using hacc
    have q := h.quiet (not_passed_of_checker h ha)
    split at hs
    · simp at hs; subst hs
      exact sinv_ck_keep h ha rfl rfl rfl rfl rfl rfl rfl rfl rfl rfl rfl rfl rfl rfl
        (quiet_keep q rfl rfl rfl rfl rfl rfl rfl rfl rfl q.2.2.2.2.2.2.2.2.1 rfl)
    · simp only at hs
      have qr : ∀ u : St, u.handlerCount = s.handlerCount → u.hookCount = s.hookCount → u.prhCount = s.prhCount →
          u.rd = s.rd → u.hs = s.hs → u.wantClose = s.wantClose → u.loopRead = s.loopRead → u.renamed = true →
          u.status = s.status → u.out = s.out → quiet u := by
        intro u h1 h2 h3 h4 h5 h6 h7 h8 h9 h10
        simp only [quiet] at q ⊢
        rw [h1, h2, h3, h4, h5, h6, h7, h8, h9, h10]
        exact ⟨q.1, q.2.1, q.2.2.1, q.2.2.2.1, q.2.2.2.2.1, q.2.2.2.2.2.1, q.2.2.2.2.2.2.1, fun c => by simp at c,
          q.2.2.2.2.2.2.2.2.1, q.2.2.2.2.2.2.2.2.2⟩
      split at hs
      · simp at hs; subst hs
        exact sinv_ck_keep h ha (by simp) (by simp) (by simp) (by simp) (by simp) (by simp) (by simp) (by simp)
          (by simp) (by simp) (by simp) (by simp) (by simp) (by simp)
          (qr _ (by simp) (by simp) (by simp) (by simp) (by simp) (by simp) (by simp) (by simp) (by simp) (by simp))
      · simp at hs; subst hs
        exact sinv_ck_keep h ha rfl rfl rfl rfl rfl rfl rfl rfl rfl rfl rfl rfl rfl rfl
          (qr _ rfl rfl rfl rfl rfl rfl rfl rfl rfl rfl)

theorem inv_peek {s t : St} (h : SInv s) (hs : evPeek s = some t) : SInv t := by
  unfold evPeek at hs
  split at hs
  · simp at hs
  · rename_i hacc
    have ha : s.acc = .checker := by simpa using hacc
    have q := h.quiet (not_passed_of_checker h ha)
    simp at hs; subst hs
    exact sinv_ck_keep h ha rfl rfl rfl rfl rfl rfl rfl rfl rfl rfl rfl rfl rfl rfl
      (quiet_keep q rfl rfl rfl rfl rfl rfl rfl rfl rfl q.2.2.2.2.2.2.2.2.1 rfl)

theorem step_inv {s t : St} {e : Ev} (h : SInv s) (hh : HInv s) (hs : step s e = some t) : SInv t := by
  cases e with
  | setId v => exact inv_setId h hs
  | peek => exact inv_peek h hs
  | arrive i => exact inv_arrive h hs
  | cut => exact inv_cut h hs
  | recvOnce b => exact inv_recvOnce h hs
  | ckReturn v => exact inv_ckReturn h hs
  | sendReply w => exact inv_sendReply h hs
  | branch => exact inv_branch h hs
  | accStep => exact inv_accStep h hs
  | appClose => exact inv_appClose h hs
  | goClose => exact inv_goClose h hs
  | closeStep => exact inv_closeStep h hh hs
  | rdTop => exact inv_rdTop h hs
  | rdRead b => exact inv_rdRead h hs
  | rdDisc => exact inv_rdDisc h hs
  | hRun i => exact inv_hRun h hs
  | hReply i => exact inv_hReply h hs

/-- every event other than the checker's `SetID` keeps the id and touches the hub at most by
    `hub.set(s)` / `hub.delete(s.ID(), s)`. -/
theorem step_hub {s t : St} {e : Ev} (h : step s e = some t) (hne : ∀ v, e ≠ .setId v) :
    t.sid = s.sid ∧ t.ids = s.ids ∧
    (t.hub = s.hub ∨ t.hub = Lifecycle.AL.put s.hub s.sid 0 ∨ t.hub = Lifecycle.AL.delIf s.hub s.sid 0) := by
  cases e <;>
    simp only [step, evRecvOnce, evPeek, evCkReturn, evSendReply, evBranch, evAccStep, evAppClose, evGoClose,
      evCloseStep, evRdTop, evRdRead, evRdDisc, evHRun, evHReply, startClose] at h <;>
    (try exact absurd rfl (hne _)) <;>
    (repeat' split at h) <;> (first | (simp at h; done) | (simp at h; subst h; simp))

theorem step_hinv {s t : St} {e : Ev} (h : SInv s) (hh : HInv s) (hs : step s e = some t) : HInv t := by
  by_cases he : ∃ v, e = .setId v
  · obtain ⟨v, rfl⟩ := he
    simp only [step] at hs
    unfold evSetId at hs
    split at hs
    · simp at hs
    · rename_i hacc
      have ha : s.acc = .checker := by simpa using hacc
      have r := h.rej (not_passed_of_checker h ha)
      simp only [rejInv, ha] at r
      split at hs
      · simp at hs; subst hs; exact hinv_same hh rfl rfl rfl
      · simp [r.1] at hs; subst hs
        have := hinv_setId hh v (hubSet { s with sid := v, ids := s.ids ++ [v], nops := s.nops + 1, renamed := true }).kicked (s.nops + 1) true
        refine ⟨?_, ?_, ?_⟩
        · simpa using this.wf
        · simpa using this.selfAt
        · simp
  · have hne : ∀ v, e ≠ .setId v := fun v c => he ⟨v, c⟩
    obtain ⟨h1, h2, h3⟩ := step_hub hs hne
    rcases h3 with h3 | h3 | h3
    · exact hinv_same hh h3 h1 h2
    · exact hinv_put hh h3 h1 h2
    · exact hinv_delIf hh h3 h1 h2

/-- one step changes the hub only under ids the connection has (had): entries under any other id
    — other sessions of the peer — are left alone; the list of ids only grows. -/
theorem step_frame {s t : St} {e : Ev} (h : SInv s) (hh : HInv s) (hs : step s e = some t) (id : Nat)
    (hid : id ∉ t.ids) : id ∉ s.ids ∧ Lifecycle.AL.get t.hub id = Lifecycle.AL.get s.hub id := by
  have hcur : s.sid ∈ s.ids := List.mem_of_getLast? hh.cur
  by_cases he : ∃ v, e = .setId v
  · obtain ⟨v, rfl⟩ := he
    simp only [step] at hs
    unfold evSetId at hs
    split at hs
    · simp at hs
    · rename_i hacc
      have ha : s.acc = .checker := by simpa using hacc
      have r := h.rej (not_passed_of_checker h ha)
      simp only [rejInv, ha] at r
      split at hs
      · simp at hs; subst hs; exact ⟨hid, rfl⟩
      · simp [r.1] at hs; subst hs
        simp at hid
        have h1 : id ≠ s.sid := fun c => hid.1 (c ▸ hcur)
        refine ⟨hid.1, ?_⟩
        simp only []
        rw [Lifecycle.AL.get_delIf_ne _ _ h1, Lifecycle.AL.get_put_ne _ _ hid.2]
  · have hne : ∀ v, e ≠ .setId v := fun v c => he ⟨v, c⟩
    obtain ⟨h1, h2, h3⟩ := step_hub hs hne
    rw [h2] at hid
    have hn : id ≠ s.sid := fun c => hid (c ▸ hcur)
    refine ⟨hid, ?_⟩
    rcases h3 with h3 | h3 | h3 <;> rw [h3]
    · exact Lifecycle.AL.get_put_ne _ _ hn
    · exact Lifecycle.AL.get_delIf_ne _ _ hn

theorem reach_inv2 {s0 s : St} (h0 : SInv s0) (g0 : HInv s0) (r : Reach s0 s) : SInv s ∧ HInv s := by
  induction r with
  | refl => exact ⟨h0, g0⟩
  | step e _ hs ih => exact ⟨step_inv ih.1 ih.2 hs, step_hinv ih.1 ih.2 hs⟩

theorem reach_inv {s0 s : St} (h0 : SInv s0) (g0 : HInv s0) (r : Reach s0 s) : SInv s :=
  (reach_inv2 h0 g0 r).1

theorem reach_hinv {s0 s : St} (h0 : SInv s0) (g0 : HInv s0) (r : Reach s0 s) : HInv s :=
  (reach_inv2 h0 g0 r).2

theorem reach_frame {s0 s : St} (h0 : SInv s0) (g0 : HInv s0) (r : Reach s0 s) (id : Nat) (hid : id ∉ s.ids) :
    id ∉ s0.ids ∧ Lifecycle.AL.get s.hub id = Lifecycle.AL.get s0.hub id := by
  induction r with
  | refl => exact ⟨hid, rfl⟩
  | step e r' hs ih =>
    have i := reach_inv2 h0 g0 r'
    have f := step_frame i.1 i.2 hs id hid
    have g := ih f.1
    exact ⟨g.1, f.2.trans g.2⟩

/-- the two configuration fields are never written. -/
theorem step_cfg {s t : St} {e : Ev} (h : step s e = some t) : t.strict = s.strict ∧ t.lis = s.lis := by
  cases e <;>
    simp only [step, evRecvOnce, evSetId, evPeek, evCkReturn, evSendReply, evBranch, evAccStep, evAppClose, evGoClose,
      evCloseStep, evRdTop, evRdRead, evRdDisc, evHRun, evHReply, startClose] at h <;>
    (repeat' split at h) <;> (first | (simp at h; done) | (simp at h; subst h; simp))

theorem reach_cfg {s0 s : St} (r : Reach s0 s) : s.strict = s0.strict ∧ s.lis = s0.lis := by
  induction r with
  | refl => exact ⟨rfl, rfl⟩
  | step e _ hs ih => have := step_cfg hs; exact ⟨this.1.trans ih.1, this.2.trans ih.2⟩

theorem passed_accepting (a : APc) (h : a.passed = true) : a.accepting = true := by
  cases a <;> simp_all [APc.accepting, APc.passed]

theorem reach_trans {a b c : St} (r1 : Reach a b) (r2 : Reach b c) : Reach a c := by
  induction r2 with
  | refl => exact r1
  | step e _ hs ih => exact .step e ih hs

/-! ## the deterministic scheduler only takes steps of the transition system -/

theorem applyEvs_reach (s : St) (l : List Ev) : Reach s (applyEvs s l) := by
  induction l generalizing s with
  | nil => exact .refl
  | cons e r ih =>
    simp only [applyEvs]
    cases hst : step s e with
    | none => exact ih s
    | some t => exact reach_trans (.step e .refl hst) (ih t)

theorem firstEnabled_step {s t : St} {e : Ev} {l : List Ev} (h : firstEnabled s l = some (e, t)) :
    step s e = some t := by
  induction l with
  | nil => simp [firstEnabled] at h
  | cons a r ih =>
    simp only [firstEnabled] at h
    cases hst : step s a with
    | none => rw [hst] at h; exact ih h
    | some u => rw [hst] at h; simp at h; obtain ⟨h1, h2⟩ := h; subst h1 h2; exact hst

theorem pickEv_step {k : Script} {b : Bool} {s t : St} {e : Ev} (h : pickEv k b s = some (e, t)) :
    step s e = some t := firstEnabled_step h

theorem runQ_reach (k : Script) (b : Bool) (n : Nat) (s : St) : Reach s (runQ k b n s) := by
  induction n generalizing s with
  | zero => exact .refl
  | succ n ih =>
    simp only [runQ]
    cases hp : pickEv k b s with
    | none => exact .refl
    | some p =>
      obtain ⟨e, t⟩ := p
      exact reach_trans (.step e .refl (pickEv_step hp)) (ih t)

/-- every state the harness-compared scheduler ends in is reachable in the transition system. -/
theorem run_reach (c : Case) :
    Reach (init c.lis (c.script.propagate && c.script.nrecv != 0) c.others) (runCase c) := by
  unfold runCase
  simp only
  have wake : ∀ s, Reach s (match wakeEv c.fin s with
      | none => s
      | some e => runQ c.script (c.fin == .brk) (fuelOf c) (applyEvs s [e])) := by
    intro s
    split
    · exact .refl
    · exact reach_trans (applyEvs_reach _ _) (runQ_reach _ _ _ _)
  refine reach_trans (reach_trans (reach_trans ?_ (runQ_reach _ _ _ _)) (wake _)) (wake _)
  split
  · exact reach_trans (applyEvs_reach _ _) (applyEvs_reach _ _)
  · exact applyEvs_reach _ _

end Auth
end Teleport
