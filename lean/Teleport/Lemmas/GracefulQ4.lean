/-
Lemmas/GracefulQ4 — "Close returns": what a reachable state of Model/Graceful looks like when no
internal step is enabled (`Quiescent`).
-/
import Teleport.Lemmas.GracefulQ3
namespace Teleport.Graceful

/-- no internal step is enabled: every further step needs a new external event. -/
def Quiescent (s : St) : Prop := ∀ e : Ev, e.internal = true → step s e = none

/-- quiescent: every handler goroutine has finished or sits in its handler body. -/
theorem quiescent_handlers {s : St} (hI : QInv s) (hq : Quiescent s) {i : Nat} {h : H}
    (hg : s.hs[i]? = some h) : h.pc = .fin ∨ h.pc = .entered := by
  cases hp : h.pc with
  | fin => exact Or.inl rfl
  | entered => exact Or.inr rfl
  | counted =>
    exfalso
    cases hk : h.kind with
    | call => have := hq (.hEnter i) rfl; simp [step, hg, hp, hk] at this
    | push => have := hq (.hCheck i) rfl; simp [step, hg, hp, hk] at this; split at this <;> simp at this
    | orphan => have := hq (.hFin i) rfl; simp [step, hg, hp, hk] at this
    | reply j =>
      have hb := hI.qc.bnd j
      have hw : H.waits j h = true := by simp [H.waits, hp, hk]
      have hpos : 0 < s.hs.countP (H.waits j) := List.countP_pos_iff.2 ⟨h, List.mem_of_getElem? hg, hw⟩
      have hbt : boundAt s.cs j = true := by
        cases hbb : boundAt s.cs j with
        | true => rfl
        | false => rw [hbb] at hb; simp only [Bool.toNat_false] at hb; omega
      obtain ⟨c, hc, hcp⟩ := boundAt_true hbt
      have := hq (.hReplyDone i) rfl
      simp [step, hg, hp, hk, hc, hcp] at this
  | hdone =>
    exfalso
    have hk := hI.qc.hk h (List.mem_of_getElem? hg) (Or.inr hp)
    have := hq (.hCheck i) rfl
    simp [step, hg, hp, hk] at this; split at this <;> simp at this
  | wok => exfalso; have := hq (.hWrite i) rfl; simp [step, hg, hp] at this; split at this <;> simp at this
  | wrote => exfalso; have := hq (.hFin i) rfl; simp [step, hg, hp] at this
  | failed => exfalso; have := hq (.hFin i) rfl; simp [step, hg, hp] at this
  | rdone => exfalso; have := hq (.hFin i) rfl; simp [step, hg, hp] at this

/-- quiescent: every call of this side has completed or is written and waits for the peer's reply. -/
theorem quiescent_calls {s : St} (hI : QInv s) (hq : Quiescent s) {j : Nat} {c : C}
    (hg : s.cs[j]? = some c) : (∃ r, c.pc = .done r) ∨ c.pc = .written := by
  cases hp : c.pc with
  | done r => exact Or.inl ⟨r, rfl⟩
  | written => exact Or.inr rfl
  | seq => exfalso; have := hq (.cIssue j) rfl; simp [step, hg, hp] at this
  | issued => exfalso; have := hq (.cCheck j) rfl; simp [step, hg, hp] at this; split at this <;> simp at this
  | wok => exfalso; have := hq (.cWrite j) rfl; simp [step, hg, hp] at this; split at this <;> simp at this
  | wno => exfalso; have := hq (.cRefuse j) rfl; simp [step, hg, hp] at this
  | bound =>
    exfalso
    have hb := hI.qc.bnd j
    rw [boundAt_get hg] at hb
    have e1 : c.isB = true := by simp [C.isB, hp]
    rw [e1] at hb
    by_cases hpos : 0 < s.hs.countP (H.waits j)
    · obtain ⟨h, hm, hw⟩ := List.countP_pos_iff.1 hpos
      obtain ⟨i, hi⟩ := List.getElem?_of_mem hm
      have hcnt : h.pc = .counted := by
        unfold H.waits at hw
        split at hw
        · assumption
        · cases hw
      rcases quiescent_handlers hI hq hi with h1 | h1 <;> rw [hcnt] at h1 <;> cases h1
    · have hh : RPc.holds j s.reader = true := by
        cases hx : RPc.holds j s.reader with
        | true => rfl
        | false => rw [hx] at hb; simp only [Bool.toNat_false, Bool.toNat_true] at hb; omega
      unfold RPc.holds at hh
      split at hh
      · rename_i k hr
        have := hq .rCheck rfl
        simp [step, hr] at this
      · rename_i k hr
        have := hq .rAdd rfl
        simp [step, hr] at this
      · cases hh

/-- quiescent, no handler body running: the reader has left `readDisconnected`, or it waits in
    `Read` on an intact connection with nothing queued. -/
theorem quiescent_reader {s : St} (hS : SInv s) (hI : QInv s) (hq : Quiescent s)
    (hne : ∀ h ∈ s.hs, h.pc ≠ .entered) :
    s.reader = .rexit ∨ (s.reader = .blocked ∧ s.inq = [] ∧ s.lost = false ∧ s.sock = false) := by
  have hctx : s.ctx = 0 := by
    rw [hS.ctx_eq, List.countP_eq_zero]
    intro h hm
    obtain ⟨i, hi⟩ := List.getElem?_of_mem hm
    rcases quiescent_handlers hI hq hi with h1 | h1
    · simp [H.holds, h1]
    · exact absurd h1 (hne h hm)
  cases hr : s.reader with
  | rexit => exact Or.inl rfl
  | top => exfalso; have := hq .rTop rfl; simp [step, hr] at this
  | blocked =>
    right
    refine ⟨rfl, ?_⟩
    cases hi : s.inq with
    | nil =>
      refine ⟨rfl, ?_⟩
      have := hq .rReadErr rfl
      simp [step, hr] at this
      cases hl : s.lost <;> cases hk : s.sock <;> simp_all
    | cons f q =>
      exfalso
      have := hq .rRead rfl
      simp only [step, hr, hi, if_true] at this
      cases f with
      | call id => simp at this
      | orphan => simp at this
      | reply j =>
        simp only at this
        split at this
        · split at this <;> simp at this
        · simp at this
  | got f => exfalso; have := hq .rCheck rfl; cases f <;> simp [step, hr] at this
  | add f => exfalso; have := hq .rAdd rfl; simp [step, hr] at this
  | dload => exfalso; have := hq .rDLoad rfl; simp [step, hr] at this
  | dgo st =>
    exfalso; have := hq .rDGo rfl
    simp only [step, hr] at this
    split at this
    · split at this <;> simp at this
    · split at this <;> simp at this
  | dwait a => exfalso; have := hq .rDWait rfl; simp [step, hr, hctx] at this
  | dcancel a => exfalso; have := hq .rDSnap rfl; simp [step, hr] at this
  | dloop a todo =>
    exfalso
    cases todo with
    | nil => have := hq .rDCancelEnd rfl; simp [step, hr] at this
    | cons k r => have := hq (.rDPick k) rfl; simp [step, hr] at this
  | dlock a k todo =>
    exfalso
    have := hq .rDVisit rfl
    simp only [step, hr] at this
    split at this
    · rename_i c hc
      rcases quiescent_calls hI hq hc with ⟨r, h1⟩ | h1 <;> simp [C.muHeld, h1] at this
    · simp at this
  | dsock => exfalso; have := hq .rDSock rfl; simp [step, hr] at this


/-- the environment owes this state nothing that `Close` could be waiting for: no handler body is
    still running, and every call that is written and unbound has been answered by the peer (the reply
    is on its way) unless the connection is lost. -/
def EnvDone (s : St) : Prop :=
  (∀ h ∈ s.hs, h.pc ≠ .entered) ∧ (∀ c ∈ s.cs, c.pc = .written → c.replied = true ∨ s.lost = true)

/-- quiescent and the environment owes nothing: every call has completed. -/
theorem quiescent_calls_done {s : St} (hS : SInv s) (hI : QInv s) (hq : Quiescent s) (he : EnvDone s)
    {j : Nat} {c : C} (hg : s.cs[j]? = some c) : ∃ r, c.pc = .done r := by
  rcases quiescent_calls hI hq hg with h | h
  · exact h
  · exfalso
    rcases quiescent_reader hS hI hq he.1 with hr | ⟨hr, hi, hl, _⟩
    · have hw := hI.wr
      unfold wrOK wrOKf at hw
      rw [hr] at hw
      exact hw j c hg h
    · rcases he.2 c (List.mem_of_getElem? hg) h with h2 | h2
      · have := hI.rep j c hg h h2
        rw [hi] at this
        cases this
      · rw [hl] at h2; cases h2

/-- **Close returns.** In a reachable state in which no internal step is enabled, `Close()` has been
    called and the environment owes nothing: `Close()` has returned, the session is closed (status
    ActiveClosed or PassiveClosed, socket closed, the reader has left its loop and `readDisconnected`),
    both wait-group counters are zero, every handler goroutine has finished and every call has
    completed. -/
theorem close_returns {s : St} (hS : SInv s) (hI : QInv s) (hq : Quiescent s) (hc : s.closer ≠ .idle)
    (he : EnvDone s) :
    s.closeReturned = true ∧ (s.status = .closed ∨ s.status = .pclosed) ∧ s.sock = true ∧ s.reader = .rexit ∧
    s.ctx = 0 ∧ s.calls = 0 ∧ (∀ h ∈ s.hs, h.pc = .fin) ∧ (∀ c ∈ s.cs, ∃ r, c.pc = .done r) := by
  have hfin : ∀ h ∈ s.hs, h.pc = .fin := by
    intro h hm
    obtain ⟨i, hi⟩ := List.getElem?_of_mem hm
    rcases quiescent_handlers hI hq hi with h1 | h1
    · exact h1
    · exact absurd h1 (he.1 h hm)
  have hdone : ∀ c ∈ s.cs, ∃ r, c.pc = .done r := by
    intro c hm
    obtain ⟨j, hj⟩ := List.getElem?_of_mem hm
    exact quiescent_calls_done hS hI hq he hj
  have hctx : s.ctx = 0 := by
    rw [hS.ctx_eq, List.countP_eq_zero]
    intro h hm; simp [H.holds, hfin h hm]
  have hcalls : s.calls = 0 := by
    rw [hS.calls_eq, List.countP_eq_zero]
    intro c hm; obtain ⟨r, hr⟩ := hdone c hm; simp [C.isOpen, hr]
  have hret : s.closer = .ret ∨ s.closer = .noop := by
    cases hx : s.closer with
    | idle => exact absurd hx hc
    | ret => exact Or.inl rfl
    | noop => exact Or.inr rfl
    | cas => exfalso; have := hq .xHubdel rfl; simp [step, hx] at this
    | hubdel => exfalso; have := hq .xCtxWait rfl; simp [step, hx, hctx] at this
    | ctxw => exfalso; have := hq .xCallWait rfl; simp [step, hx, hcalls] at this
    | callw => exfalso; have := hq .xStClosed rfl; simp [step, hx] at this
    | stc => exfalso; have := hq .xSock rfl; simp [step, hx] at this
    | sockc => exfalso; have := hq .xRet rfl; simp [step, hx] at this
  have hQ := hI.qs
  have hrd := hQ.rd
  unfold rdOK at hrd
  have hrdr := quiescent_reader hS hI hq he.1
  rcases hret with hx | hx
  · have hsk : s.sock = true := hQ.sk6 (by rw [hx]; decide)
    have hst : s.status = .closed := hQ.st5 (by rw [hx]; decide)
    have hr : s.reader = .rexit := by
      rcases hrdr with h | ⟨_, _, _, h⟩
      · exact h
      · rw [hsk] at h; cases h
    exact ⟨by simp [St.closeReturned, hx], Or.inl hst, hsk, hr, hctx, hcalls, hfin, hdone⟩
  · have h0 := hQ.st0 (by rw [hx]; decide)
    have hn := hQ.noop hx
    have hr : s.reader = .rexit := by
      rcases hrdr with h | ⟨h, _⟩
      · exact h
      · rw [h] at hrd
        rcases h0 with h0 | h0 | h0
        · exact absurd h0 hn
        · exact absurd h0 hrd.1
        · exact absurd h0 hrd.2
    rw [hr] at hrd
    have hst : s.status = .pclosed := by
      rcases h0 with h0 | h0 | h0
      · exact absurd h0 hn
      · exact absurd h0 hrd.2
      · exact h0
    exact ⟨by simp [St.closeReturned, hx], Or.inr hst, hQ.pcd hst, hr, hctx, hcalls, hfin, hdone⟩

/-- **Close is never parked at a wait that can no longer end.** Reachable, quiescent, `Close()` called
    and not returned: then a handler body is still running, or a written call is still unanswered on
    an intact connection (the peer's handler is still running) — nothing else. -/
theorem close_waits_only_for_env {s : St} (hS : SInv s) (hI : QInv s) (hq : Quiescent s) (hc : s.closer ≠ .idle)
    (hnr : s.closeReturned = false) :
    (∃ h ∈ s.hs, h.pc = .entered) ∨ (∃ c ∈ s.cs, c.pc = .written ∧ c.replied = false ∧ s.lost = false) := by
  by_cases h1 : ∃ h ∈ s.hs, h.pc = .entered
  · exact Or.inl h1
  · by_cases h2 : ∃ c ∈ s.cs, c.pc = .written ∧ c.replied = false ∧ s.lost = false
    · exact Or.inr h2
    · exfalso
      have he : EnvDone s := by
        refine ⟨fun h hm hp => h1 ⟨h, hm, hp⟩, ?_⟩
        intro c hm hp
        cases hr : c.replied with
        | true => exact Or.inl rfl
        | false =>
          cases hl : s.lost with
          | true => exact Or.inr rfl
          | false => exact absurd ⟨c, hm, hp, hr, hl⟩ h2
      have := (close_returns hS hI hq hc he).1
      rw [hnr] at this; cases this

theorem step_closer_called {s t : St} {e : Ev} (hs : step s e = some t) (h : s.closer ≠ .idle) :
    t.closer ≠ .idle := by
  c08_step_cases hs
  all_goals first
    | exact h
    | (simp_all; done)

theorem run_closer_called : ∀ (es : List Ev) {s t : St}, run s es = some t → s.closer ≠ .idle → t.closer ≠ .idle
  | [], s, t, h, hc => by simp only [run, Option.some.injEq] at h; subst h; exact hc
  | e :: es, s, t, h, hc => by
    simp only [run] at h
    cases hs : step s e with
    | none => rw [hs] at h; simp at h
    | some u =>
      rw [hs] at h
      simp only [Option.bind_some] at h
      exact run_closer_called es h (step_closer_called hs hc)

theorem reach_trans {a b c : St} (h1 : Reach a b) (h2 : Reach b c) : Reach a c := by
  induction h2 with
  | refl => exact h1
  | step _ hst ih => exact .step ih hst

end Teleport.Graceful
