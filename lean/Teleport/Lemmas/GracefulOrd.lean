/-
Lemmas/GracefulOrd — the cancel loop of `readDisconnected` (`callCmdMap.Range`) visits the pending
calls in an order the Go language does not fix. In Model/Graceful the loop is `rDSnap` (the key set
present when `Range` starts), then for each entry `rDPick j` (ANY remaining entry) and `rDVisit`
(lock, cancel if unanswered, unlock). This file: every order is possible; if no visited call's mutex
is held the result does not depend on the order; the entries picked by any complete run of the loop
are a permutation of the snapshot.
-/
import Teleport.Lemmas.GracefulQ3
namespace Teleport.Graceful

theorem run_append : ∀ (es fs : List Ev) (s : St), run s (es ++ fs) = (run s es).bind fun t => run t fs
  | [], fs, s => by simp [run]
  | e :: es, fs, s => by
    simp only [List.cons_append, run]
    cases step s e with
    | none => rfl
    | some u => simp only [Option.bind_some]; exact run_append es fs u

/-- what one visit does to the session state (besides moving the reader on). -/
def visit1 (s : St) (j : Nat) : St :=
  match s.cs[j]? with
  | some c =>
    if c.pc = .written then { s with calls := s.calls - 1, cs := s.cs.set j { c with pc := .done .cancelled } }
    else s
  | none => s

/-- the events of a loop run that yields the entries in the order `ord`. -/
def loopEvs (ord : List Nat) : List Ev := ord.flatMap fun j => [.rDPick j, .rDVisit]

/-- the state after the loop has visited `ord`, ready for `rDCancelEnd`. -/
def loopEnd (s : St) (a : Bool) (ord : List Nat) : St := { ord.foldl visit1 s with reader := .dloop a [] }

theorem visit1_reader (s : St) (j : Nat) : (visit1 s j).reader = s.reader := by
  unfold visit1; split
  · split <;> rfl
  · rfl

theorem visit1_setReader (s : St) (r : RPc) (j : Nat) :
    visit1 { s with reader := r } j = { visit1 s j with reader := r } := by
  unfold visit1
  simp only
  split
  · split <;> rfl
  · rfl

theorem foldl_visit1_setReader (l : List Nat) : ∀ (s : St) (r : RPc),
    l.foldl visit1 { s with reader := r } = { l.foldl visit1 s with reader := r } := by
  induction l with
  | nil => intro s r; rfl
  | cons j l ih => intro s r; simp only [List.foldl_cons]; rw [visit1_setReader, ih]

/-- two visits commute. -/
theorem visit1_comm (s : St) (x y : Nat) : visit1 (visit1 s x) y = visit1 (visit1 s y) x := by
  by_cases hxy : x = y
  · subst hxy; rfl
  · have hyx : y ≠ x := fun h => hxy h.symm
    unfold visit1
    cases hx : s.cs[x]? with
    | none =>
      cases hy : s.cs[y]? with
      | none => simp [hx, hy]
      | some cy =>
        by_cases hpy : cy.pc = .written
        · simp [hx, hy, hpy, List.getElem?_set_ne hyx]
        · simp [hx, hy, hpy]
    | some cx =>
      cases hy : s.cs[y]? with
      | none =>
        by_cases hpx : cx.pc = .written
        · simp [hx, hy, hpx, List.getElem?_set_ne hxy]
        · simp [hx, hy, hpx]
      | some cy =>
        by_cases hpx : cx.pc = .written <;> by_cases hpy : cy.pc = .written
        · simp [hx, hy, hpx, hpy, List.getElem?_set_ne hxy, List.getElem?_set_ne hyx, List.set_comm _ _ hxy]
        · simp [hx, hy, hpx, hpy, List.getElem?_set_ne hxy]
        · simp [hx, hy, hpx, hpy, List.getElem?_set_ne hyx]
        · simp [hx, hy, hpx, hpy]

/-- the result of the loop depends only on WHICH entries are visited, not on the order. -/
theorem loopEnd_perm (s : St) (a : Bool) {ord todo : List Nat} (hp : ord.Perm todo) :
    loopEnd s a ord = loopEnd s a todo := by
  unfold loopEnd
  rw [hp.foldl_eq' (fun x _ y _ z => visit1_comm z x y) s]


/-- pick + visit of entry `j` when its mutex is free. -/
theorem run_pick_visit {s : St} {a : Bool} {todo : List Nat} {j : Nat} (hr : s.reader = .dloop a todo)
    (hj : j ∈ todo) (hfree : ∀ c, s.cs[j]? = some c → c.muHeld = false) :
    run s [.rDPick j, .rDVisit] = some { visit1 s j with reader := .dloop a (todo.erase j) } := by
  simp only [run, step, hr, hj, if_true, Option.bind_some]
  unfold visit1
  cases hc : s.cs[j]? with
  | none => simp
  | some c =>
    have := hfree c hc
    by_cases hp : c.pc = .written <;> simp [this, hp]

/-- **Every order is possible and, when no visited call's mutex is held, every order gives the same
    result.** From a state inside `Range` with the remaining entries `todo`, for EVERY permutation `ord`
    of `todo` the loop can yield the entries in the order `ord`, and it ends in `loopEnd s a todo` —
    the same state for all of them. -/
theorem run_loop_perm : ∀ (ord todo : List Nat) (s : St) (a : Bool), s.reader = .dloop a todo → ord.Perm todo →
    (∀ j ∈ todo, ∀ c, s.cs[j]? = some c → c.muHeld = false) →
    run s (loopEvs ord) = some (loopEnd s a ord)
  | [], todo, s, a, hr, hp, _ => by
    have : todo = [] := hp.symm.eq_nil
    subst this
    simp only [loopEvs, List.flatMap_nil, run, loopEnd, List.foldl_nil]
    cases s; simp_all
  | j :: ord, todo, s, a, hr, hp, hfree => by
    have hj : j ∈ todo := hp.subset (List.mem_cons_self)
    have hp' : ord.Perm (todo.erase j) := (hp.trans (List.perm_cons_erase hj)).cons_inv
    have h1 := run_pick_visit hr hj (hfree j hj)
    have hev : loopEvs (j :: ord) = [.rDPick j, .rDVisit] ++ loopEvs ord := by simp [loopEvs]
    rw [hev, run_append, h1]
    simp only [Option.bind_some]
    rw [run_loop_perm ord (todo.erase j) _ a rfl hp']
    · simp only [loopEnd, List.foldl_cons, foldl_visit1_setReader]
    · intro k hk c hc
      have hk' : k ∈ todo := List.mem_of_mem_erase hk
      simp only at hc
      unfold visit1 at hc
      split at hc
      · rename_i cj hcj
        split at hc
        · simp only at hc
          rcases get_set_some hc with ⟨_, rfl⟩ | ⟨_, hc'⟩
          · rfl
          · exact hfree k hk' c hc'
        · exact hfree k hk' c hc
      · exact hfree k hk' c hc

/-- the snapshot entries `Range` has not yet yielded. -/
def RPc.remaining : RPc → Option (List Nat)
  | .dloop _ t => some t
  | .dlock _ _ t => some t
  | _ => none

def RPc.past (r : RPc) : Prop := r = .dsock ∨ r = .rexit

def Ev.pick : Ev → List Nat
  | .rDPick j => [j]
  | _ => []

/-- the entries yielded by the loop during a run. -/
def picks (es : List Ev) : List Nat := es.flatMap Ev.pick

theorem step_past {s u : St} {e : Ev} (hs : step s e = some u) (hp : s.reader.past) : u.reader.past := by
  unfold RPc.past at hp ⊢
  c08_step_cases hs
  all_goals first
    | exact hp
    | (simp_all; done)

theorem run_past : ∀ (es : List Ev) {s t : St}, run s es = some t → s.reader.past → t.reader.past
  | [], s, t, h, hp => by simp only [run, Option.some.injEq] at h; subst h; exact hp
  | e :: es, s, t, h, hp => by
    simp only [run] at h
    cases hs : step s e with
    | none => rw [hs] at h; simp at h
    | some u =>
      rw [hs] at h
      simp only [Option.bind_some] at h
      exact run_past es h (step_past hs hp)

theorem step_loop {s u : St} {e : Ev} {rem : List Nat} (hs : step s e = some u) (hr : s.reader.remaining = some rem) :
    (u.reader.remaining = some rem ∧ e.pick = []) ∨
    (∃ j, e.pick = [j] ∧ j ∈ rem ∧ u.reader.remaining = some (rem.erase j)) ∨ u.reader.past := by
  c08_step_cases hs
  all_goals first
    | exact Or.inl ⟨hr, rfl⟩
    | (simp_all [RPc.remaining]; done)
    | (simp_all [RPc.remaining, Ev.pick]; done)
    | (simp_all [RPc.remaining, Ev.pick, RPc.past]; done)

/-- **Only permutations.** Whatever the other goroutines do in between (any events `es`, any
    interleaving): if the reader is inside `Range` with the entries `rem` still to come at the start and
    still inside the same `Range` with `rem'` to come at the end, then the entries it yielded in
    between, followed by `rem'`, are a permutation of `rem`. -/
theorem picks_perm : ∀ (es : List Ev) {s t : St} {rem rem' : List Nat}, run s es = some t →
    s.reader.remaining = some rem → t.reader.remaining = some rem' → (picks es ++ rem').Perm rem
  | [], s, t, rem, rem', h, hr, hr' => by
    simp only [run, Option.some.injEq] at h
    subst h
    rw [hr] at hr'
    cases hr'
    simp [picks]
  | e :: es, s, t, rem, rem', h, hr, hr' => by
    simp only [run] at h
    cases hs : step s e with
    | none => rw [hs] at h; simp at h
    | some u =>
      rw [hs] at h
      simp only [Option.bind_some] at h
      have hpk : picks (e :: es) = e.pick ++ picks es := by simp [picks]
      rcases step_loop hs hr with ⟨h1, h2⟩ | ⟨j, h2, hj, h1⟩ | h1
      · rw [hpk, h2]
        exact picks_perm es h h1 hr'
      · rw [hpk, h2]
        have ih := picks_perm es h h1 hr'
        exact ((ih.cons j).trans (List.perm_cons_erase hj).symm)
      · exfalso
        have := run_past es h h1
        unfold RPc.past at this
        rcases this with h3 | h3 <;> rw [h3] at hr' <;> cases hr'

end Teleport.Graceful
