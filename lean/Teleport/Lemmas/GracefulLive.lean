/-
Lemmas/GracefulLive — progress of the graceful-close transition system (Model/Graceful):
external / internal events and a natural-number measure that every internal step strictly decreases.
-/
import Teleport.Lemmas.GracefulC
namespace Teleport.Graceful

/-- Internal events: steps the library takes by itself once a goroutine is scheduled. External events
    are the environment's choices: a CALL frame arrives (`envCall`), the peer answers a call
    (`envReply`), the connection is lost (`envLost`), the user issues a call (`cSeq`) or a push
    (`pushStart`), the user calls `Close()` (`xStart`), a handler body returns (`hBody`). -/
def Ev.internal : Ev → Bool
  | .envCall _ | .envReply _ | .envLost | .cSeq | .pushStart | .xStart | .hBody _ => false
  | _ => true

/-- internal steps a handler goroutine still has in front of it (at most). -/
def hW : HPc → Nat
  | .counted => 5 | .entered => 4 | .hdone => 3 | .wok => 2 | .wrote => 1 | .failed => 1 | .rdone => 1
  | .fin => 0

/-- internal steps of the caller / canceller / reply handler a call still has in front of it. -/
def cW : CPc → Nat
  | .seq => 5 | .issued => 4 | .wok => 3 | .written => 2 | .wno => 1 | .bound => 1 | .done _ => 0

def xW : XPc → Nat
  | .idle => 7 | .cas => 6 | .hubdel => 5 | .ctxw => 4 | .callw => 3 | .stc => 2 | .sockc => 1
  | .ret => 0 | .noop => 0

def hsum (l : List H) : Nat := (l.map fun h => hW h.pc).sum
def csum (l : List C) : Nat := (l.map fun c => cW c.pc).sum

/-- the reader: steps to the end of `readDisconnected`; before `Range` starts every call may still
    have to be visited (two steps each; `n` = number of calls), a frame in its hands still gets a
    handler (5). `ok` = the status word is still Ok (the compare-and-swap can fail once). -/
def rWf (r : RPc) (ok : Bool) (n : Nat) : Nat :=
  match r with
  | .rexit => 0
  | .dsock => 1
  | .dloop _ todo => 2 + 2 * todo.length
  | .dlock _ _ todo => 3 + 2 * todo.length
  | .dcancel _ => 3 + 2 * n
  | .dwait _ => 4 + 2 * n
  | .dgo st => (if st = .ok then 8 else 5) + 2 * n
  | .dload => (if ok then 9 else 6) + 2 * n
  | .got none => 10 + 2 * n
  | .blocked => 11 + 2 * n
  | .top => 12 + 2 * n
  | .add _ => 18 + 2 * n
  | .got (some _) => 19 + 2 * n

def rW (s : St) : Nat := rWf s.reader (s.status == .ok) s.cs.length

theorem rWf_mono (r : RPc) (b : Bool) (n : Nat) : rWf r false n ≤ rWf r b n := by
  cases b
  · exact Nat.le_refl _
  · cases r with
    | got f => cases f <;> simp [rWf]
    | _ => simp [rWf]

/-- the measure: every internal step makes it smaller (`mu_step`); external steps may raise it. A
    queued frame costs 9: read, check, add, loop head, and its handler's 5. -/
def mu (s : St) : Nat := xW s.closer + rW s + 9 * s.inq.length + hsum s.hs + csum s.cs

theorem sum_set_add {α} (f : α → Nat) : ∀ (l : List α) (i : Nat) (a b : α), l[i]? = some a →
    ((l.set i b).map f).sum + f a = (l.map f).sum + f b
  | [], _, _, _, h => by simp at h
  | x :: r, 0, a, b, h => by
    simp only [List.getElem?_cons_zero, Option.some.injEq] at h
    subst h
    simp only [List.set_cons_zero, List.map_cons, List.sum_cons]
    omega
  | x :: r, i + 1, a, b, h => by
    simp only [List.getElem?_cons_succ] at h
    have ih := sum_set_add f r i a b h
    simp only [List.set_cons_succ, List.map_cons, List.sum_cons]
    omega

theorem hsum_set {l : List H} {i : Nat} {a : H} (b : H) (hg : l[i]? = some a) :
    hsum (l.set i b) + hW a.pc = hsum l + hW b.pc := sum_set_add _ l i a b hg

theorem csum_set {l : List C} {i : Nat} {a : C} (b : C) (hg : l[i]? = some a) :
    csum (l.set i b) + cW a.pc = csum l + cW b.pc := sum_set_add _ l i a b hg

theorem hsum_set' {l : List H} {i : Nat} {a b : H} (hg : l[i]? = some a) :
    hsum (l.set i b) = hsum l + hW b.pc - hW a.pc := by
  have := hsum_set b hg; omega

theorem csum_set' {l : List C} {i : Nat} {a b : C} (hg : l[i]? = some a) :
    csum (l.set i b) = csum l + cW b.pc - cW a.pc := by
  have := csum_set b hg; omega

theorem hsum_ge {l : List H} {i : Nat} {a : H} (hg : l[i]? = some a) : hW a.pc ≤ hsum l := by
  have h := hsum_set { a with pc := .fin } hg
  have e : hW ({ a with pc := .fin } : H).pc = 0 := rfl
  rw [e] at h; omega

theorem csum_ge {l : List C} {i : Nat} {a : C} (hg : l[i]? = some a) : cW a.pc ≤ csum l := by
  have h := csum_set { a with pc := .done .reply } hg
  have e : cW ({ a with pc := .done .reply } : C).pc = 0 := rfl
  rw [e] at h; omega

theorem hsum_snoc (l : List H) (b : H) : hsum (l ++ [b]) = hsum l + hW b.pc := by
  simp [hsum, List.sum_append]

theorem csum_snoc (l : List C) (b : C) : csum (l ++ [b]) = csum l + cW b.pc := by
  simp [csum, List.sum_append]

theorem openIdx_length_le (cs : List C) : (openIdx cs).length ≤ cs.length := by
  unfold openIdx
  exact Nat.le_trans (List.length_filter_le _ _) (by simp)

macro "c08_step_cases'" hs:ident : tactic =>
  `(tactic| (cases ‹Ev› <;> simp only [step] at $hs:ident <;> (repeat' split at $hs:ident) <;>
      (try contradiction) <;> cases $hs:ident))

/-- every internal step strictly decreases the measure (no reachability needed). -/
theorem mu_step {s t : St} {e : Ev} (hi : e.internal = true) (hs : step s e = some t) : mu t < mu s := by
  c08_step_cases' hs
  all_goals (first | (simp [Ev.internal] at hi; done) | skip)
  all_goals (clear hi)
  all_goals (simp only [mu, rW, hsum_snoc, List.length_set])
  all_goals (try (have hHg := hsum_ge ‹s.hs[_]? = some _›))
  all_goals (try (have hCg := csum_ge ‹s.cs[_]? = some _›))
  all_goals (try (simp only [hsum_set' ‹s.hs[_]? = some _›]))
  all_goals (try (simp only [csum_set' ‹s.cs[_]? = some _›]))
  all_goals (have hM := rWf_mono s.reader (s.status == .ok) s.cs.length)
  all_goals first
    | (simp_all [rWf, hW, cW, xW]; omega)
    | (simp_all [rWf, hW, xW]; done)
    | (cases hb : (s.status == Status.ok) <;> simp_all [rWf, hW, cW, xW] <;> omega)
    | (cases ‹Frame› <;> simp_all [rWf, hW, xW, H.ofFrame] <;> omega)
    | (have := openIdx_length_le s.cs; simp_all [rWf]; omega)
    | (have := List.length_erase_of_mem ‹_ ∈ _›; have := List.length_pos_of_mem ‹_ ∈ _›; simp_all [rWf]; omega)
    | (rcases ‹_ ∨ _› with h | h | h | h <;> simp_all [rWf, hW, cW, xW] <;> omega)

/-- a run of internal steps only is bounded by the measure of its first state. -/
theorem run_internal_bound : ∀ (es : List Ev) {s t : St}, (∀ e ∈ es, e.internal = true) → run s es = some t →
    es.length + mu t ≤ mu s
  | [], s, t, _, h => by
    simp only [run, Option.some.injEq] at h
    subst h; simp
  | e :: es, s, t, hi, h => by
    simp only [run] at h
    cases hs : step s e with
    | none => rw [hs] at h; simp at h
    | some u =>
      rw [hs] at h
      simp only [Option.bind_some] at h
      have h1 := mu_step (hi e (by simp)) hs
      have h2 := run_internal_bound es (fun e' he' => hi e' (by simp [he'])) h
      simp only [List.length_cons]
      omega

end Teleport.Graceful
