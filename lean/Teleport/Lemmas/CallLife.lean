/-
Lemmas/CallLife — invariants of the call life-cycle transition system (Model/CallLife) used by Props/C02.
-/
import Teleport.Model.CallLife
namespace Teleport.CallLife

/-! ## list helpers -/

theorem getElem?_set_cases {α} (l : List α) (i j : Nat) (a d : α) (h : (l.set i a)[j]? = some d) :
    (j = i ∧ d = a) ∨ (j ≠ i ∧ l[j]? = some d) := by
  rw [List.getElem?_set] at h
  by_cases hij : i = j
  · subst hij
    simp only [if_true] at h
    split at h
    · left; exact ⟨rfl, (Option.some.inj h).symm⟩
    · cases h
  · simp only [hij, if_false] at h
    right; exact ⟨fun e => hij e.symm, h⟩

theorem forall_set {α} {P : α → Prop} {l : List α} {i : Nat} {a : α}
    (h : ∀ (j : Nat) (d : α), l[j]? = some d → P d) (ha : P a) :
    ∀ (j : Nat) (d : α), (l.set i a)[j]? = some d → P d := by
  intro j d hd
  rcases getElem?_set_cases l i j a d hd with ⟨_, rfl⟩ | ⟨_, h2⟩
  · exact ha
  · exact h j d h2

theorem forall_append_one {α} {P : α → Prop} {l : List α} {a : α}
    (h : ∀ (j : Nat) (d : α), l[j]? = some d → P d) (ha : P a) :
    ∀ (j : Nat) (d : α), (l ++ [a])[j]? = some d → P d := by
  intro j d hd
  rw [List.getElem?_append] at hd
  split at hd
  · exact h j d hd
  · have : d = a := by
      cases hk : j - l.length with
      | zero => rw [hk] at hd; simpa using hd.symm
      | succ n => rw [hk] at hd; simp at hd
    exact this ▸ ha

/-! ## the at-most-once invariant -/

/-- per-call invariant. -/
structure CInv (c : Call) : Prop where
  le1 : c.doneCount ≤ 1
  sends : c.chanSends = c.doneCount
  table : c.inTable = true → c.doneCount = 0
  pre : (c.pc = .locked ∨ c.pc = .stored ∨ c.pc = .writing ∨ c.pc = .failing) → c.doneCount = 0
  held : c.pc ≠ .returned → c.mu = .caller
  failing : c.pc = .failing → c.stat ≠ 0
  hpre : c.mu = .hPre → c.doneCount = 0
  why : c.doneCount = 1 → c.hasReply = true ∨ c.stat ≠ 0
  cap1 : 1 ≤ c.cap
  bound : (c.mu = .hPre ∨ c.mu = .hPost) → c.hasReply = true
  replied : c.hasReply = true → 1 ≤ c.doneCount ∨ c.mu = .hPre
  nohr : c.pc ≠ .returned → c.hasReply = false
  nord : c.mu ≠ .reader

def AInv (s : State) : Prop :=
  s.crashed = false ∧ ∀ (i : Nat) (c : Call), s.calls[i]? = some c → CInv c

theorem complete_first {c : Call} (h : c.doneCount = 0) :
    complete c = some ({ c with inTable := false, chanSends := c.chanSends + 1, doneCount := 1 }, false) := by
  simp [complete, h]

theorem ainv_init : AInv State.init := by
  unfold AInv
  refine ⟨rfl, ?_⟩
  intro i c h
  simp [State.init] at h

/-- steps that replace call `i` by `c'`. -/
theorem ainv_upd {s t : State} {i : Nat} {c c' : Call} (h : AInv s)
    (hci : s.calls[i]? = some c) (hcalls : t.calls = s.calls.set i c')
    (hc' : s.crashed = false → CInv c → t.crashed = false ∧ CInv c') : AInv t := by
  unfold AInv at h ⊢
  obtain ⟨hcr, hall⟩ := h
  obtain ⟨h1, h2⟩ := hc' hcr (hall i c hci)
  refine ⟨h1, ?_⟩
  rw [hcalls]
  exact forall_set hall h2

/-- steps that leave the calls alone. -/
theorem ainv_same {s t : State} (h : AInv s)
    (hcalls : t.calls = s.calls) (hcr : t.crashed = s.crashed) : AInv t := by
  unfold AInv at h ⊢
  obtain ⟨h1, hall⟩ := h
  exact ⟨hcr ▸ h1, hcalls ▸ hall⟩

theorem ainv_issue {s t : State} (veto ctxDone tooBig bytesRes : Bool) (cap : Nat) (h : AInv s) (hf : fire s (.issue veto ctxDone tooBig bytesRes cap) = some t) : AInv t := by
  unfold fire at hf
  split at hf
  · cases hf
  rename_i hcrash
  simp only [] at hf
  split at hf
  · cases hf
  rename_i hcap
  cases hf
  unfold AInv at h ⊢
  obtain ⟨h1, hall⟩ := h
  refine ⟨h1, forall_append_one hall ?_⟩
  constructor <;> simp [Call.fresh] <;> omega

theorem ainv_frame {s t : State} (f : Frame) (h : AInv s) (hf : fire s (.frame f) = some t) : AInv t := by
  unfold fire at hf
  split at hf
  · cases hf
  rename_i hcrash
  simp only [] at hf; cases hf; exact ainv_same h rfl rfl

theorem ainv_lose {s t : State} (h : AInv s) (hf : fire s .lose = some t) : AInv t := by
  unfold fire at hf
  split at hf
  · cases hf
  rename_i hcrash
  simp only [] at hf; cases hf; exact ainv_same h rfl rfl

theorem ainv_close {s t : State} (h : AInv s) (hf : fire s .close = some t) : AInv t := by
  unfold fire at hf
  split at hf
  · cases hf
  rename_i hcrash
  simp only [] at hf
  split at hf
  · split at hf <;> (cases hf; exact ainv_same h rfl rfl)
  · cases hf; exact h

theorem ainv_store {s t : State} (i : Nat) (h : AInv s) (hf : fire s (.store i) = some t) : AInv t := by
  unfold fire at hf
  split at hf
  · cases hf
  rename_i hcrash
  simp only [] at hf
  split at hf
  · rename_i c hci
    split at hf
    · rename_i hpc
      cases hf
      refine ainv_upd h hci rfl ?_
      intro hcr ci
      obtain ⟨a1, a2, a3, a4, a5, a6, a7, a8, a9, a10, a11, a12, a13⟩ := ci
      refine ⟨hcr, ?_⟩
      constructor <;> (try simp_all) <;> (try omega)
    · cases hf
  · cases hf

theorem ainv_prewrite {s t : State} (i : Nat) (h : AInv s) (hf : fire s (.prewrite i) = some t) : AInv t := by
  unfold fire at hf
  split at hf
  · cases hf
  rename_i hcrash
  simp only [] at hf
  split at hf
  · rename_i c hci
    split at hf
    · rename_i hpc
      cases hf
      refine ainv_upd h hci rfl ?_
      intro hcr ci
      obtain ⟨a1, a2, a3, a4, a5, a6, a7, a8, a9, a10, a11, a12, a13⟩ := ci
      refine ⟨hcr, ?_⟩
      split <;> (constructor <;> (try simp_all) <;> (try omega))
    · cases hf
  · cases hf

theorem ainv_write {s t : State} (i : Nat) (o : WOut) (h : AInv s) (hf : fire s (.write i o) = some t) : AInv t := by
  unfold fire at hf
  split at hf
  · cases hf
  rename_i hcrash
  simp only [] at hf
  split at hf
  · rename_i c hci
    have key : ∀ (s' : State) (c' : Call), s'.crashed = s.crashed → s'.calls = s.calls →
        c.pc = .writing → (c' = { c with pc := .written } ∨
          ∃ code, code ≠ 0 ∧ c' = { c with pc := .failing, stat := code }) → AInv (s'.setCall i c') := by
      intro s' c' e2 e3 hpc hc'
      refine ainv_upd (c' := c') h hci (by simp [State.setCall, e3]) ?_
      intro hcr ci
      obtain ⟨a1, a2, a3, a4, a5, a6, a7, a8, a9, a10, a11, a12, a13⟩ := ci
      refine ⟨by simpa [State.setCall, e2] using hcr, ?_⟩
      rcases hc' with rfl | ⟨code, hcode, rfl⟩ <;> (constructor <;> (try simp_all) <;> (try omega))
    split at hf
    · cases hf
    rename_i hpc
    have hpc' : c.pc = .writing := by simpa using hpc
    split at hf
    · split at hf
      · cases hf; exact key s _ rfl rfl hpc' (Or.inr ⟨102, by decide, rfl⟩)
      · cases hf
    split at hf
    · split at hf
      · cases hf; exact key s _ rfl rfl hpc' (Or.inr ⟨104, by decide, rfl⟩)
      · cases hf
    split at hf
    · split at hf
      · cases hf; exact key s _ rfl rfl hpc' (Or.inr ⟨104, by decide, rfl⟩)
      · cases hf
    split at hf
    · cases hf; exact key s _ rfl rfl hpc' (Or.inl rfl)
    · cases hf; exact key _ _ rfl rfl hpc' (Or.inr ⟨104, by decide, rfl⟩)
    · rename_i code
      split at hf
      · rename_i hcode
        cases hf
        refine key s _ rfl rfl hpc' (Or.inr ⟨code, ?_, rfl⟩)
        simp at hcode; omega
      · cases hf
    · cases hf
  · cases hf

theorem ainv_failDone {s t : State} (i : Nat) (h : AInv s) (hf : fire s (.failDone i) = some t) : AInv t := by
  unfold fire at hf
  split at hf
  · cases hf
  rename_i hcrash
  simp only [] at hf
  split at hf
  · rename_i c hci
    split at hf
    · rename_i hpc
      unfold AInv
      obtain ⟨hcr, hall⟩ := h
      have ci := hall i c hci
      have hd0 : c.doneCount = 0 := ci.pre (Or.inr (Or.inr (Or.inr hpc)))
      rw [complete_first hd0] at hf
      cases hf
      refine ⟨rfl, ?_⟩
      simp only [State.setCall]
      refine forall_set hall ?_
      obtain ⟨a1, a2, a3, a4, a5, a6, a7, a8, a9, a10, a11, a12, a13⟩ := ci
      constructor <;> (try simp_all) <;> (try omega)
    · cases hf
  · cases hf

theorem ainv_unlock {s t : State} (i : Nat) (h : AInv s) (hf : fire s (.unlock i) = some t) : AInv t := by
  unfold fire at hf
  split at hf
  · cases hf
  rename_i hcrash
  simp only [] at hf
  split at hf
  · rename_i c hci
    split at hf
    · rename_i hpc
      cases hf
      refine ainv_upd h hci rfl ?_
      intro hcr ci
      obtain ⟨a1, a2, a3, a4, a5, a6, a7, a8, a9, a10, a11, a12, a13⟩ := ci
      refine ⟨hcr, ?_⟩
      rcases hpc with hpc | hpc <;> (constructor <;> (try simp_all) <;> (try omega))
    · cases hf
  · cases hf

theorem ainv_read {s t : State} (h : AInv s) (hf : fire s .read = some t) : AInv t := by
  unfold fire at hf
  split at hf
  · cases hf
  rename_i hcrash
  simp only [] at hf
  split at hf
  · split at hf
    · cases hf; exact ainv_same h rfl rfl
    · simp only [State.spawnOther] at hf
      split at hf <;> (cases hf; exact ainv_same h rfl rfl)
    · split at hf
      · cases hf; exact ainv_same h rfl rfl
      · simp only [State.spawnOther] at hf
        split at hf <;> (cases hf; exact ainv_same h rfl rfl)
  · cases hf

theorem ainv_bind {s t : State} (h : AInv s) (hf : fire s .bind = some t) : AInv t := by
  unfold fire at hf
  split at hf
  · cases hf
  rename_i hcrash
  simp only [] at hf
  split at hf
  · rename_i i dec rstat hrpc
    split at hf
    · rename_i c hci
      by_cases hmu' : c.mu ≠ .free
      · rw [if_pos hmu'] at hf; cases hf
      rw [if_neg hmu'] at hf
      have hmu' : c.mu = .free := by simpa using hmu'
      by_cases hre : c.hasReply = true ∨ 1 ≤ c.doneCount
      · rw [if_pos hre] at hf
        simp only [State.spawnOther] at hf
        split at hf <;> (cases hf; exact ainv_same h rfl rfl)
      rw [if_neg hre] at hf
      have hnr : c.hasReply = false := by
        cases hh : c.hasReply with
        | true => exact absurd (Or.inl hh) hre
        | false => rfl
      have hd0 : c.doneCount = 0 := by omega
      by_cases hd : (effDec c dec = Dec.errNil ∨ effDec c dec = Dec.panic) ∨ s.status.goon = false
      · rw [if_pos hd] at hf
        unfold AInv
        obtain ⟨hcr, hall⟩ := h
        have ci := hall i c hci
        split at hf
        · rename_i c2 cr hcomp
          cases hf
          unfold complete at hcomp
          simp only [hd0, if_true, Option.some.injEq, Prod.mk.injEq] at hcomp
          obtain ⟨rfl, rfl⟩ := hcomp
          refine ⟨by simpa [State.setCall] using hcr, ?_⟩
          simp only [State.setCall]
          refine forall_set hall ?_
          obtain ⟨a1, a2, a3, a4, a5, a6, a7, a8, a9, a10, a11, a12, a13⟩ := ci
          constructor <;> (try simp_all) <;> (try omega)
        · cases hf
      · rw [if_neg hd] at hf
        cases hf
        refine ainv_upd h hci rfl ?_
        intro hcr ci
        obtain ⟨a1, a2, a3, a4, a5, a6, a7, a8, a9, a10, a11, a12, a13⟩ := ci
        refine ⟨by simpa [State.setCall] using hcr, ?_⟩
        constructor <;> (try simp_all) <;> (try omega)
    · cases hf
  · cases hf

theorem ainv_readerEof {s t : State} (h : AInv s) (hf : fire s .readerEof = some t) : AInv t := by
  unfold fire at hf
  split at hf
  · cases hf
  rename_i hcrash
  simp only [] at hf
  split at hf
  · split at hf
    · cases hf; exact ainv_same h rfl rfl
    · cases hf
  · cases hf

theorem ainv_discLoad {s t : State} (h : AInv s) (hf : fire s .discLoad = some t) : AInv t := by
  unfold fire at hf
  split at hf
  · cases hf
  rename_i hcrash
  simp only [] at hf
  split at hf
  · split at hf <;> (cases hf; exact ainv_same h rfl rfl)
  · cases hf

theorem ainv_discStore {s t : State} (h : AInv s) (hf : fire s .discStore = some t) : AInv t := by
  unfold fire at hf
  split at hf
  · cases hf
  rename_i hcrash
  simp only [] at hf
  split at hf
  · split at hf <;> (cases hf; exact ainv_same h rfl rfl)
  · cases hf

theorem ainv_discCtxWait {s t : State} (todo0 : List Nat) (h : AInv s) (hf : fire s (.discCtxWait todo0) = some t) : AInv t := by
  unfold fire at hf
  split at hf
  · cases hf
  rename_i hcrash
  simp only [] at hf
  split at hf
  · split at hf
    · cases hf; exact ainv_same h rfl rfl
    · cases hf
  · cases hf

theorem ainv_discPick {s t : State} (h : AInv s) (hf : fire s .discPick = some t) : AInv t := by
  unfold fire at hf
  split at hf
  · cases hf
  rename_i hcrash
  simp only [] at hf
  split at hf
  · cases hf; exact ainv_same h rfl rfl
  · split at hf
    · split at hf <;> (cases hf; exact ainv_same h rfl rfl)
    · cases hf; exact ainv_same h rfl rfl
  · cases hf

theorem ainv_discVisit {s t : State} (h : AInv s) (hf : fire s .discVisit = some t) : AInv t := by
  unfold fire at hf
  split at hf
  · cases hf
  rename_i hcrash
  simp only [] at hf
  split at hf
  · rename_i act i todo hrpc
    split at hf
    · rename_i c hci
      split at hf
      · cases hf
      rename_i hmu
      have hmu' : c.mu = .free := by simpa using hmu
      split at hf
      · rename_i hg
        unfold AInv
        obtain ⟨hcr, hall⟩ := h
        have ci := hall i c hci
        have hd0 : c.doneCount = 0 := by
          have := ci.why; have := ci.le1
          rcases Nat.eq_zero_or_pos c.doneCount with h0 | h0
          · exact h0
          · have h1 : c.doneCount = 1 := by omega
            rcases ci.why h1 with h2 | h2
            · rw [hg.1] at h2; cases h2
            · exact absurd hg.2 h2
        rw [complete_first (c := { c with stat := 102 }) hd0] at hf
        cases hf
        refine ⟨rfl, ?_⟩
        simp only [State.setCall]
        refine forall_set hall ?_
        obtain ⟨a1, a2, a3, a4, a5, a6, a7, a8, a9, a10, a11, a12, a13⟩ := ci
        constructor <;> (try simp_all) <;> (try omega)
      · cases hf; exact ainv_same h rfl rfl
    · cases hf
  · cases hf

theorem ainv_discFinish {s t : State} (h : AInv s) (hf : fire s .discFinish = some t) : AInv t := by
  unfold fire at hf
  split at hf
  · cases hf
  rename_i hcrash
  simp only [] at hf
  split at hf
  · cases hf; exact ainv_same h rfl rfl
  · cases hf

theorem ainv_hDone {s t : State} (i : Nat) (h : AInv s) (hf : fire s (.hDone i) = some t) : AInv t := by
  unfold fire at hf
  split at hf
  · cases hf
  rename_i hcrash
  simp only [] at hf
  split at hf
  · rename_i c hci
    split at hf
    · rename_i hmu
      unfold AInv
      obtain ⟨hcr, hall⟩ := h
      have ci := hall i c hci
      have hd0 : c.doneCount = 0 := ci.hpre hmu
      rw [complete_first (c := { c with stat := if c.stat = 0 then c.replyStat else c.stat }) hd0] at hf
      cases hf
      refine ⟨rfl, ?_⟩
      simp only [State.setCall]
      refine forall_set hall ?_
      obtain ⟨a1, a2, a3, a4, a5, a6, a7, a8, a9, a10, a11, a12, a13⟩ := ci
      constructor <;> (try simp_all) <;> (try omega)
    · cases hf
  · cases hf

theorem ainv_hUnlock {s t : State} (i : Nat) (h : AInv s) (hf : fire s (.hUnlock i) = some t) : AInv t := by
  unfold fire at hf
  split at hf
  · cases hf
  rename_i hcrash
  simp only [] at hf
  split at hf
  · rename_i c hci
    split at hf
    · rename_i hmu
      cases hf
      refine ainv_upd h hci rfl ?_
      intro hcr ci
      obtain ⟨a1, a2, a3, a4, a5, a6, a7, a8, a9, a10, a11, a12, a13⟩ := ci
      refine ⟨hcr, ?_⟩
      constructor <;> (try simp_all) <;> (try omega)
    · cases hf
  · cases hf

theorem ainv_hOther {s t : State} (h : AInv s) (hf : fire s .hOther = some t) : AInv t := by
  unfold fire at hf
  split at hf
  · cases hf
  rename_i hcrash
  simp only [] at hf
  split at hf
  · cases hf
  · cases hf; exact ainv_same h rfl rfl

theorem ainv_closeCtxWait {s t : State} (h : AInv s) (hf : fire s .closeCtxWait = some t) : AInv t := by
  unfold fire at hf
  split at hf
  · cases hf
  rename_i hcrash
  simp only [] at hf
  split at hf
  · split at hf
    · cases hf; exact ainv_same h rfl rfl
    · cases hf
  · cases hf

theorem ainv_closeCallWait {s t : State} (h : AInv s) (hf : fire s .closeCallWait = some t) : AInv t := by
  unfold fire at hf
  split at hf
  · cases hf
  rename_i hcrash
  simp only [] at hf
  split at hf
  · split at hf
    · cases hf; exact ainv_same h rfl rfl
    · cases hf
  · cases hf

theorem ainv_step {s t : State} {l : Label} (h : AInv s) (hf : fire s l = some t) : AInv t := by
  cases l with
  | issue veto ctxDone tooBig bytesRes cap => exact ainv_issue veto ctxDone tooBig bytesRes cap h hf
  | frame f => exact ainv_frame f h hf
  | lose => exact ainv_lose h hf
  | close => exact ainv_close h hf
  | store i => exact ainv_store i h hf
  | prewrite i => exact ainv_prewrite i h hf
  | write i o => exact ainv_write i o h hf
  | failDone i => exact ainv_failDone i h hf
  | unlock i => exact ainv_unlock i h hf
  | read => exact ainv_read h hf
  | bind => exact ainv_bind h hf
  | readerEof => exact ainv_readerEof h hf
  | discLoad => exact ainv_discLoad h hf
  | discStore => exact ainv_discStore h hf
  | discCtxWait todo0 => exact ainv_discCtxWait todo0 h hf
  | discPick => exact ainv_discPick h hf
  | discVisit => exact ainv_discVisit h hf
  | discFinish => exact ainv_discFinish h hf
  | hDone i => exact ainv_hDone i h hf
  | hUnlock i => exact ainv_hUnlock i h hf
  | hOther => exact ainv_hOther h hf
  | closeCtxWait => exact ainv_closeCtxWait h hf
  | closeCallWait => exact ainv_closeCallWait h hf

theorem ainv_reach {s : State} (r : Reachable s) : AInv s := by
  induction r with
  | init => exact ainv_init
  | step _ hs ih => obtain ⟨l, hl⟩ := hs; exact ainv_step ih hl

/-- run of labels from the initial state stays reachable. -/
theorem reach_run {s t : State} (r : Reachable s) : ∀ (ls : List Label), run s ls = some t → Reachable t := by
  intro ls
  induction ls generalizing s with
  | nil => intro h; simp only [run, Option.some.injEq] at h; exact h ▸ r
  | cons l ls ih =>
    intro h
    simp only [run] at h
    cases hf : fire s l with
    | none => simp [hf] at h
    | some u => simp only [hf, Option.bind_some] at h; exact ih (r.step ⟨l, hf⟩) h

/-! ## the measure -/

def pcW : Pc → Nat
  | .locked => 6 | .stored => 5 | .writing => 4 | .failing => 3 | .written => 2 | .unlocking => 2 | .returned => 0

def muW : Mu → Nat
  | .hPre => 2 | .hPost => 1 | _ => 0

def callW (c : Call) : Nat := pcW c.pc + muW c.mu

def rpcW (n : Nat) (st : SS) : RPc → Nat
  | .reading => 2 * n + 9
  | .bindWait _ _ _ => 2 * n + 12
  | .discLoad => 2 * n + 8
  | .discStore => match st with
    | .ok => 2 * n + 7
    | _ => 2 * n + 9      -- the compare-and-swap will fail and the reader loads again
  | .discCtxWait _ => 2 * n + 6
  | .discLoop _ todo => 2 * todo.length + 3
  | .discLock _ _ todo => 2 * todo.length + 4
  | .discFinish => 1
  | .stopped => 0

def cpcW : CPc → Nat
  | .ctxWait => 4 | .callWait => 3 | _ => 0

def sumW : List Call → Nat
  | [] => 0
  | c :: r => callW c + sumW r

/-- strictly decreases with every internal step; external events may raise it. -/
def measure (s : State) : Nat :=
  sumW s.calls + 5 * s.inq.length + rpcW s.calls.length s.status s.rpc + cpcW s.cpc + s.otherH

theorem sumW_set {l : List Call} {i : Nat} {c c' : Call} (h : l[i]? = some c) :
    sumW (l.set i c') + callW c = sumW l + callW c' := by
  induction l generalizing i with
  | nil => simp at h
  | cons a r ih =>
    cases i with
    | zero => simp at h; subst h; simp [sumW]; omega
    | succ j =>
      simp at h
      have := ih h
      simp [sumW]; omega

theorem tableIdx_length (l : List Call) (n : Nat) : (tableIdx l n).length ≤ l.length := by
  induction l generalizing n with
  | nil => simp [tableIdx]
  | cons a r ih =>
    simp only [tableIdx]
    split
    · simp; exact ih _
    · simp; exact Nat.le_succ_of_le (ih _)

theorem measure_setCall {s : State} {i : Nat} {c c' : Call} (h : s.calls[i]? = some c) :
    measure (s.setCall i c') + callW c = measure s + callW c' := by
  have := sumW_set (c' := c') h
  simp only [measure, State.setCall, List.length_set]
  omega


theorem complete_callW {c c' : Call} {cr : Bool} (h : complete c = some (c', cr)) : c'.pc = c.pc ∧ c'.mu = c.mu := by
  unfold complete at h
  split at h
  · cases h; exact ⟨rfl, rfl⟩
  · split at h
    · cases h; exact ⟨rfl, rfl⟩
    · cases h

theorem measure_step {s t : State} {l : Label} (hl : l.internal = true) (hf : fire s l = some t) :
    measure t < measure s := by
  unfold fire at hf
  split at hf
  · cases hf
  cases l with
  | issue _ _ _ _ _ => simp [Label.internal] at hl
  | frame _ => simp [Label.internal] at hl
  | lose => simp [Label.internal] at hl
  | close => simp [Label.internal] at hl
  | store i =>
    simp only [] at hf
    split at hf
    · rename_i c hci
      split at hf
      · rename_i hpc
        cases hf
        have := measure_setCall (c' := { c with pc := .stored, inTable := true }) hci
        simp [callW, pcW, hpc] at this; omega
      · cases hf
    · cases hf
  | prewrite i =>
    simp only [] at hf
    split at hf
    · rename_i c hci
      split at hf
      · rename_i hpc
        cases hf
        split
        · have := measure_setCall (c' := { c with pc := .failing, stat := 499 }) hci
          simp [callW, pcW, hpc] at this; omega
        · have := measure_setCall (c' := { c with pc := .writing }) hci
          simp [callW, pcW, hpc] at this; omega
      · cases hf
    · cases hf
  | write i o =>
    simp only [] at hf
    split at hf
    · rename_i c hci
      have key : ∀ (s' : State) (c' : Call), measure s' = measure s → s'.calls = s.calls →
          c.pc = .writing → c'.mu = c.mu → (c'.pc = .written ∨ c'.pc = .failing) →
          measure (s'.setCall i c') < measure s := by
        intro s' c' e1 e3 hpc hmu hc'
        have := measure_setCall (s := s') (c' := c') (by rw [e3]; exact hci)
        rcases hc' with h | h <;> (simp [callW, pcW, hpc, hmu, h] at this; omega)
      split at hf
      · cases hf
      rename_i hpc
      have hpc' : c.pc = .writing := by simpa using hpc
      split at hf
      · split at hf
        · cases hf; exact key s _ rfl rfl hpc' rfl (Or.inr rfl)
        · cases hf
      split at hf
      · split at hf
        · cases hf; exact key s _ rfl rfl hpc' rfl (Or.inr rfl)
        · cases hf
      split at hf
      · split at hf
        · cases hf; exact key s _ rfl rfl hpc' rfl (Or.inr rfl)
        · cases hf
      split at hf
      · cases hf; exact key s _ rfl rfl hpc' rfl (Or.inl rfl)
      · cases hf; exact key _ _ rfl rfl hpc' rfl (Or.inr rfl)
      · split at hf
        · cases hf; exact key s _ rfl rfl hpc' rfl (Or.inr rfl)
        · cases hf
      · cases hf
    · cases hf
  | failDone i =>
    simp only [] at hf
    split at hf
    · rename_i c hci
      split at hf
      · rename_i hpc
        split at hf
        · rename_i c' cr hcomp
          cases hf
          obtain ⟨e1, e2⟩ := complete_callW hcomp
          have := measure_setCall (s := { s with crashed := cr }) (c' := { c' with pc := .unlocking }) hci
          have h1 : callW c = 3 + muW c.mu := by simp [callW, pcW, hpc]
          have h2 : callW { c' with pc := .unlocking } = 2 + muW c.mu := by simp [callW, pcW, e2]
          have e : measure { s with crashed := cr } = measure s := rfl
          omega
        · cases hf
      · cases hf
    · cases hf
  | unlock i =>
    simp only [] at hf
    split at hf
    · rename_i c hci
      split at hf
      · rename_i hpc
        cases hf
        have := measure_setCall (c' := { c with pc := .returned, mu := .free }) hci
        rcases hpc with h | h <;> (simp [callW, pcW, muW, h] at this; omega)
      · cases hf
    · cases hf
  | read =>
    simp only [] at hf
    split at hf
    · split at hf
      · cases hf; simp [measure, rpcW, *]; omega
      · simp only [State.spawnOther] at hf
        split at hf <;> (cases hf; simp [measure, rpcW, *]; omega)
      · split at hf
        · cases hf; simp [measure, rpcW, *]; omega
        · simp only [State.spawnOther] at hf
          split at hf <;> (cases hf; simp [measure, rpcW, *]; omega)
    · cases hf
  | bind =>
    simp only [] at hf
    split at hf
    · rename_i i dec rstat hrpc
      split at hf
      · rename_i c hci
        by_cases hmu' : c.mu ≠ .free
        · rw [if_pos hmu'] at hf; cases hf
        rw [if_neg hmu'] at hf
        have hmu' : c.mu = .free := by simpa using hmu'
        by_cases hre : c.hasReply = true ∨ 1 ≤ c.doneCount
        · rw [if_pos hre] at hf
          simp only [State.spawnOther] at hf
          split at hf <;> (cases hf; simp [measure, rpcW, hrpc]) <;> omega
        rw [if_neg hre] at hf
        by_cases hd : (effDec c dec = Dec.errNil ∨ effDec c dec = Dec.panic) ∨ s.status.goon = false
        · rw [if_pos hd] at hf
          split at hf
          · rename_i c2 cr hcomp
            cases hf
            obtain ⟨e1, e2⟩ := complete_callW hcomp
            have := measure_setCall (s := { s with leaked := s.leaked || cr, rpc := .discLoad })
              (c' := { c2 with mu := if cr = true then Mu.reader else Mu.free }) hci
            have hw : callW { c2 with mu := if cr = true then Mu.reader else Mu.free } = pcW c.pc := by
              cases cr <;> simp [callW, muW, e1]
            have hw0 : callW c = pcW c.pc := by simp [callW, muW, hmu']
            have e : measure { s with leaked := s.leaked || cr, rpc := .discLoad } + 4 = measure s := by
              simp [measure, rpcW, hrpc]; omega
            omega
          · cases hf
        · rw [if_neg hd] at hf
          cases hf
          have := measure_setCall (s := { s with rpc := .reading })
            (c' := { c with hasReply := true, rstat := rstat, rerr := (effDec c dec).isErr, mu := .hPre }) hci
          simp [callW, muW, hmu'] at this
          have e : measure { s with rpc := .reading } + 3 = measure s := by
            simp [measure, rpcW, hrpc]; omega
          omega
      · cases hf
    · cases hf
  | readerEof =>
    simp only [] at hf
    split at hf
    · split at hf
      · cases hf; simp [measure, rpcW, *]
      · cases hf
    · cases hf
  | discLoad =>
    simp only [] at hf
    split at hf
    · split at hf <;> (cases hf; simp [measure, rpcW, *]) <;> omega
    · cases hf
  | discStore =>
    simp only [] at hf
    split at hf
    · rename_i hrpc
      split at hf
      · rename_i hst
        cases hf; simp [measure, rpcW, hrpc, hst]
      · rename_i hst
        cases hf
        have : rpcW s.calls.length s.status .discStore = 2 * s.calls.length + 9 := by
          cases hs : s.status <;> simp_all [rpcW]
        simp [measure, hrpc, rpcW]
    · cases hf
  | discCtxWait todo0 =>
    simp only [] at hf
    split at hf
    · split at hf
      · rename_i hc
        cases hf
        simp [measure, rpcW, *]; omega
      · cases hf
    · cases hf
  | discPick =>
    simp only [] at hf
    split at hf
    · rename_i act hrpc
      cases hf
      cases act <;> simp [measure, rpcW, hrpc]
    · split at hf
      · split at hf <;> (cases hf; simp [measure, rpcW, *]) <;> omega
      · cases hf; simp [measure, rpcW, *]
    · cases hf
  | discVisit =>
    simp only [] at hf
    split at hf
    · rename_i act i todo hrpc
      split at hf
      · rename_i c hci
        split at hf
        · cases hf
        split at hf
        · split at hf
          · rename_i c' cr hcomp
            cases hf
            obtain ⟨e1, e2⟩ := complete_callW hcomp
            have := measure_setCall (s := { s with crashed := cr, rpc := .discLoop act todo }) (c' := c') hci
            simp [callW, e1, e2] at this
            have e : measure { s with crashed := cr, rpc := .discLoop act todo } + 1 = measure s := by
              simp [measure, rpcW, hrpc]; omega
            omega
          · cases hf
        · cases hf; simp [measure, rpcW, *]
      · cases hf
    · cases hf
  | discFinish =>
    simp only [] at hf
    split at hf
    · cases hf; simp [measure, rpcW, *]
    · cases hf
  | hDone i =>
    simp only [] at hf
    split at hf
    · rename_i c hci
      split at hf
      · rename_i hmu
        split at hf
        · rename_i c' cr hcomp
          cases hf
          obtain ⟨e1, e2⟩ := complete_callW hcomp
          have := measure_setCall (s := { s with crashed := cr }) (c' := { c' with mu := .hPost }) hci
          have h1 : callW c = pcW c.pc + 2 := by simp [callW, muW, hmu]
          have h2 : callW { c' with mu := .hPost } = pcW c.pc + 1 := by simp [callW, muW, e1]
          have e : measure { s with crashed := cr } = measure s := rfl
          omega
        · cases hf
      · cases hf
    · cases hf
  | hUnlock i =>
    simp only [] at hf
    split at hf
    · rename_i c hci
      split at hf
      · rename_i hmu
        cases hf
        have := measure_setCall (c' := { c with mu := .free }) hci
        simp [callW, muW, hmu] at this; omega
      · cases hf
    · cases hf
  | hOther =>
    simp only [] at hf
    split at hf
    · cases hf
    · cases hf; simp [measure]; omega
  | closeCtxWait =>
    simp only [] at hf
    split at hf
    · split at hf
      · cases hf; simp [measure, cpcW, *]
      · cases hf
    · cases hf
  | closeCallWait =>
    simp only [] at hf
    split at hf
    · split at hf
      · cases hf
        -- the status word changes under a reader that may sit before its compare-and-swap
        have hw : rpcW s.calls.length .activeClosed s.rpc ≤ rpcW s.calls.length s.status s.rpc + 2 := by
          cases s.rpc <;> cases s.status <;> simp [rpcW]
        simp [measure, cpcW, *]; omega
      · cases hf
    · cases hf

end Teleport.CallLife
