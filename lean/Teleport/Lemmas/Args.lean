import Teleport.Model.Args
import Teleport.Lemmas.Bytes
namespace Teleport
namespace Args
open Bytes

/-- one `key[=value]` segment of the query string. -/
def seg (kv : KV) : Bytes := quote kv.1 ++ (if kv.2.isEmpty then [] else 61 :: quote kv.2)

theorem query_nil : query [] = [] := rfl
theorem query_single (kv : KV) : query [kv] = seg kv := by cases kv; rfl
theorem query_cons2 (kv kv2 : KV) (rest : List KV) :
    query (kv :: kv2 :: rest) = seg kv ++ 38 :: query (kv2 :: rest) := by
  cases kv; simp [query, seg]

theorem seg_no_amp (kv : KV) : ∀ c ∈ seg kv, c ≠ 38 := by
  intro c hc
  unfold seg at hc
  rcases List.mem_append.mp hc with h | h
  · exact (quote_no_sep _ c h).1
  · split at h
    · simp at h
    · rcases List.mem_cons.mp h with h | h
      · subst h; decide
      · exact (quote_no_sep _ c h).1

theorem splitAmp_noamp (s : Bytes) (h : ∀ c ∈ s, c ≠ 38) : splitAmp s = (s, none) := by
  induction s with
  | nil => rfl
  | cons a as ih =>
    have ha : a ≠ 38 := h a (by simp)
    have := ih (fun c hc => h c (by simp [hc]))
    simp [splitAmp, ha, this]

theorem splitAmp_amp (s r : Bytes) (h : ∀ c ∈ s, c ≠ 38) : splitAmp (s ++ 38 :: r) = (s, some r) := by
  induction s with
  | nil => simp [splitAmp]
  | cons a as ih =>
    have ha : a ≠ 38 := h a (by simp)
    have := ih (fun c hc => h c (by simp [hc]))
    simp [splitAmp, ha, this]

theorem splitEq_noeq (s : Bytes) (h : ∀ c ∈ s, c ≠ 61) : splitEq s = (s, none) := by
  induction s with
  | nil => rfl
  | cons a as ih =>
    have ha : a ≠ 61 := h a (by simp)
    have := ih (fun c hc => h c (by simp [hc]))
    simp [splitEq, ha, this]

theorem splitEq_eq (s r : Bytes) (h : ∀ c ∈ s, c ≠ 61) : splitEq (s ++ 61 :: r) = (s, some r) := by
  induction s with
  | nil => simp [splitEq]
  | cons a as ih =>
    have ha : a ≠ 61 := h a (by simp)
    have := ih (fun c hc => h c (by simp [hc]))
    simp [splitEq, ha, this]

/-- decoding one segment gives the pair back. -/
theorem decode_seg (t : HexTab) (kv : KV) : decodeSeg t (seg kv) = some kv := by
  obtain ⟨k, v⟩ := kv
  unfold decodeSeg seg
  by_cases hv : v.isEmpty = true
  · have : v = [] := by simpa using hv
    subst this
    simp [splitEq_noeq _ (fun c hc => (quote_no_sep k c hc).2), unquote_quote]
  · simp only [hv]
    simp [splitEq_eq _ _ (fun c hc => (quote_no_sep k c hc).2), unquote_quote]

theorem scanOne_last (t : HexTab) (kv : KV) : scanOne t (seg kv) = (some kv, []) := by
  unfold scanOne
  rw [splitAmp_noamp _ (seg_no_amp kv)]
  simp [decode_seg]

theorem scanOne_more (t : HexTab) (kv : KV) (r : Bytes) : scanOne t (seg kv ++ 38 :: r) = (some kv, r) := by
  unfold scanOne
  rw [splitAmp_amp _ _ (seg_no_amp kv)]
  simp [decode_seg]

theorem scanAll_nil (t : HexTab) : scanAll t [] = some [] := by unfold scanAll; rfl

theorem scanAll_cons (t : HexTab) (c : UInt8) (cs : Bytes) :
    scanAll t (c :: cs) =
      (scanOne t (c :: cs)).1.bind fun kv => (scanAll t (scanOne t (c :: cs)).2).map (kv :: ·) := by
  conv => lhs; unfold scanAll

def nonEmptyKV (kv : KV) : Bool := !(kv.1.isEmpty && kv.2.isEmpty)

theorem quote_eq_nil (s : Bytes) (h : quote s = []) : s = [] := by
  cases s with
  | nil => rfl
  | cons a as => unfold quote at h; split at h <;> simp at h

theorem seg_eq_nil (kv : KV) (h : seg kv = []) : nonEmptyKV kv = false := by
  obtain ⟨k, v⟩ := kv
  unfold seg at h
  by_cases hv : v.isEmpty = true
  · simp only [hv, if_true, List.append_nil] at h
    have := quote_eq_nil k h
    simp [nonEmptyKV, this, hv]
  · simp [hv] at h

/-- `ParseBytes(QueryString(a))` keeps exactly the pairs that are not (empty, empty), in order.
    This is stated for every list; the well-formed case is the corollary below. -/
theorem parse_query (l : List KV) : parse (query l) = some (l.filter nonEmptyKV) := by
  unfold parse
  induction l with
  | nil => simp [query_nil, scanAll_nil]
  | cons kv rest ih =>
    cases rest with
    | nil =>
      rw [query_single]
      cases hs : seg kv with
      | nil =>
        have := seg_eq_nil kv hs
        simp [scanAll_nil, this]
      | cons c cs =>
        rw [scanAll_cons, ← hs, scanOne_last]
        simp only [scanAll_nil, Option.map_some]
        have : nonEmptyKV kv = true := by
          cases h : nonEmptyKV kv with
          | true => rfl
          | false =>
            obtain ⟨k, v⟩ := kv
            simp [nonEmptyKV] at h
            simp [seg, h.1, h.2, quote] at hs
        simp [nonEmptyKV] at this
        simp [nonEmptyKV, this]
    | cons kv2 rest2 =>
      rw [query_cons2]
      cases hs : seg kv ++ 38 :: query (kv2 :: rest2) with
      | nil => simp at hs
      | cons c cs =>
        rw [scanAll_cons, ← hs, scanOne_more]
        simp only
        cases hsa : scanAll .full (query (kv2 :: rest2)) with
        | none => simp [hsa] at ih
        | some x =>
          simp only [hsa, Option.map_some, Option.some.injEq] at ih ⊢
          simp only [List.filter_cons, ← ih, Option.bind_some, Option.map_some]
          simp [nonEmptyKV]

/-- decoding a segment with the 256-entry table never panics. -/
theorem decodeSeg_full_isSome (s : Bytes) : (decodeSeg .full s).isSome = true := by
  unfold decodeSeg
  split
  · rename_i k _
    simp [Option.isSome_map, unquote_full_total true k]
  · rename_i k v _
    have hk := unquote_full_total true k
    have hv := unquote_full_total true v
    cases h1 : unquote .full true k with
    | none => simp [h1] at hk
    | some k' =>
      cases h2 : unquote .full true v with
      | none => simp [h2] at hv
      | some v' => simp

theorem scanAll_full_isSome : ∀ (n : Nat) (b : Bytes), b.length ≤ n → (scanAll .full b).isSome = true := by
  intro n
  induction n with
  | zero =>
    intro b hb
    have : b = [] := List.length_eq_zero_iff.mp (by omega)
    subst this; simp [scanAll_nil]
  | succ n ih =>
    intro b hb
    cases b with
    | nil => simp [scanAll_nil]
    | cons c cs =>
      rw [scanAll_cons]
      have h1 : (scanOne .full (c :: cs)).1.isSome = true := decodeSeg_full_isSome _
      have hlt : (scanOne .full (c :: cs)).2.length < (c :: cs).length := splitAmp_rest_lt c cs
      have h2 := ih (scanOne .full (c :: cs)).2 (by omega)
      cases ha : (scanOne .full (c :: cs)).1 with
      | none => simp [ha] at h1
      | some kv =>
        cases hb2 : scanAll .full (scanOne .full (c :: cs)).2 with
        | none => simp [hb2] at h2
        | some l => simp

/-- `Args.ParseBytes` (256-entry hex table) returns on every byte string: no panic point. -/
theorem parse_total (b : Bytes) : (parse b).isSome = true := by
  unfold parse
  simp [Option.isSome_map, scanAll_full_isSome b.length b (Nat.le_refl _)]

/-- well-formed metadata (the raw protocol's supported set): no pair is (empty, empty). -/
def WF (l : List KV) : Prop := ∀ kv ∈ l, nonEmptyKV kv = true

theorem parse_query_wf (l : List KV) (h : WF l) : parse (query l) = some l := by
  rw [parse_query, List.filter_eq_self.mpr h]

end Args
end Teleport
