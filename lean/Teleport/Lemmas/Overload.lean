/-
Lemmas/Overload — invariants of the connection-limiter transition system and of the token bucket.
-/
import Teleport.Model.Overload
namespace Teleport.Overload

/-! ## connection limiter -/

/-- entities in arrival order captured a counter value at least their rank:
    the `i`-th (0-based) entity of `l` has `x ≥ k + i`. -/
def Ranked : Nat → List Ent → Prop
  | _, [] => True
  | k, e :: r => (k : Int) ≤ e.x ∧ Ranked (k + 1) r

theorem ranked_append (k : Nat) (a b : List Ent) :
    Ranked k (a ++ b) ↔ Ranked k a ∧ Ranked (k + a.length) b := by
  induction a generalizing k with
  | nil => simp [Ranked]
  | cons e r ih =>
    simp only [List.cons_append, Ranked, ih, List.length_cons]
    have : k + 1 + r.length = k + (r.length + 1) := by omega
    rw [this]; exact and_assoc.symm

theorem ranked_mono {k : Nat} {l : List Ent} (h : Ranked (k + 1) l) : Ranked k l := by
  induction l generalizing k with
  | nil => trivial
  | cons e r ih => exact ⟨by have := h.1; omega, ih h.2⟩

theorem ranked_erase {k : Nat} {pre post : List Ent} {e : Ent}
    (h : Ranked k (pre ++ e :: post)) : Ranked k (pre ++ post) := by
  rw [ranked_append] at h ⊢
  exact ⟨h.1, ranked_mono h.2.2⟩

theorem ranked_setpc {k : Nat} {pre post : List Ent} {p p' : Pc} {x : Int}
    (h : Ranked k (pre ++ ⟨p, x⟩ :: post)) : Ranked k (pre ++ ⟨p', x⟩ :: post) := by
  rw [ranked_append] at h ⊢
  exact ⟨h.1, h.2.1, h.2.2⟩

/-- counting step: in a ranked list whose admitted entities all captured `x ≤ N`, the number of
    admitted entities plus the starting rank is at most `N + 1`. -/
theorem count_adm_le (N : Int) : ∀ (l : List Ent) (k : Nat), Ranked k l →
    (∀ e ∈ l, e.adm = true → e.x ≤ N) →
    l.countP Ent.adm = 0 ∨ (k : Int) + (l.countP Ent.adm : Nat) ≤ N + 1
  | [], _, _, _ => Or.inl rfl
  | e :: r, k, hr, hx => by
    have ih := count_adm_le N r (k + 1) hr.2 (fun e' he' => hx e' (List.mem_cons_of_mem _ he'))
    have hk := hr.1
    by_cases ha : e.adm = true
    · have hxe := hx e (List.mem_cons_self ..) ha
      rw [List.countP_cons_of_pos ha]
      right
      rcases ih with ih | ih
      · rw [ih]; push_cast; omega
      · push_cast at ih ⊢; omega
    · rw [List.countP_cons_of_neg ha]
      rcases ih with ih | ih
      · exact Or.inl ih
      · right; push_cast at ih ⊢; omega

/-- the invariant of the composed system (with updates). -/
structure LInv (s : St) : Prop where
  tmp_eq : s.tmp = s.ents.length
  ranked : Ranked 1 s.ents
  adm_le : s.unl = false → ∀ e ∈ s.ents, e.adm = true → e.x ≤ s.hi
  now_eq : s.now = (s.ents.countP Ent.isHolding : Nat)
  lim_le : s.lim ≤ s.hi
  hi_nonneg : 0 ≤ s.hi
  unl_lim : s.unl = false → 0 < s.lim

theorem linv_init (lim : Int) (h : 0 ≤ lim) : LInv (St.init lim) :=
  ⟨rfl, trivial, by simp [St.init], rfl, Int.le_refl _, h, by simp [St.init]⟩

theorem linv_step {s t : St} (h : LInv s) (st : Step s t) : LInv t := by
  obtain ⟨h1, h2, h3, h4, h5, h6, h7⟩ := h
  cases st with
  | arrive =>
    refine ⟨?_, ?_, ?_, ?_, h5, h6, h7⟩
    · simp only [List.length_append, List.length_cons, List.length_nil]; push_cast; omega
    · rw [ranked_append]; refine ⟨h2, ?_⟩
      simp only [Ranked, and_true]; push_cast; omega
    · intro hu e he ha
      rcases List.mem_append.mp he with he | he
      · exact h3 hu e he ha
      · simp at he; subst he; simp [Ent.adm] at ha
    · simp [List.countP_append, Ent.isHolding, h4]
  | checkOk pre post x he hx =>
    rw [he] at h1 h2 h3 h4
    refine ⟨?_, ranked_setpc h2, ?_, ?_, h5, h6, h7⟩
    · simpa using h1
    · intro hu e hm ha
      rcases List.mem_append.mp hm with hm | hm
      · exact h3 hu e (List.mem_append.mpr (Or.inl hm)) ha
      · rcases List.mem_cons.mp hm with hm | hm
        · subst hm
          have hl := h7 hu
          rcases hx with hx | hx
          · omega
          · simp only; omega
        · exact h3 hu e (List.mem_append.mpr (Or.inr (List.mem_cons_of_mem _ hm))) ha
    · simpa [List.countP_append, List.countP_cons, Ent.isHolding] using h4
  | checkNo pre post x he hx =>
    rw [he] at h1 h2 h3 h4
    refine ⟨?_, ranked_setpc h2, ?_, ?_, h5, h6, h7⟩
    · simpa using h1
    · intro hu e hm ha
      rcases List.mem_append.mp hm with hm | hm
      · exact h3 hu e (List.mem_append.mpr (Or.inl hm)) ha
      · rcases List.mem_cons.mp hm with hm | hm
        · subst hm; simp [Ent.adm] at ha
        · exact h3 hu e (List.mem_append.mpr (Or.inr (List.mem_cons_of_mem _ hm))) ha
    · simpa [List.countP_append, List.countP_cons, Ent.isHolding] using h4
  | inc pre post x he =>
    rw [he] at h1 h2 h3 h4
    refine ⟨?_, ranked_setpc h2, ?_, ?_, h5, h6, h7⟩
    · simpa using h1
    · intro hu e hm ha
      rcases List.mem_append.mp hm with hm | hm
      · exact h3 hu e (List.mem_append.mpr (Or.inl hm)) ha
      · rcases List.mem_cons.mp hm with hm | hm
        · subst hm; exact h3 hu ⟨.willInc, x⟩ (by simp) (by simp [Ent.adm])
        · exact h3 hu e (List.mem_append.mpr (Or.inr (List.mem_cons_of_mem _ hm))) ha
    · simp [List.countP_append, List.countP_cons, Ent.isHolding] at h4 ⊢; omega
  | dec pre post x he =>
    rw [he] at h1 h2 h3 h4
    refine ⟨?_, ranked_erase h2, ?_, ?_, h5, h6, h7⟩
    · simp at h1 ⊢; omega
    · intro hu e hm ha
      rcases List.mem_append.mp hm with hm | hm
      · exact h3 hu e (List.mem_append.mpr (Or.inl hm)) ha
      · exact h3 hu e (List.mem_append.mpr (Or.inr (List.mem_cons_of_mem _ hm))) ha
    · simpa [List.countP_append, List.countP_cons, Ent.isHolding] using h4
  | rel1 pre post x he =>
    rw [he] at h1 h2 h3 h4
    refine ⟨?_, ranked_setpc h2, ?_, ?_, h5, h6, h7⟩
    · simpa using h1
    · intro hu e hm ha
      rcases List.mem_append.mp hm with hm | hm
      · exact h3 hu e (List.mem_append.mpr (Or.inl hm)) ha
      · rcases List.mem_cons.mp hm with hm | hm
        · subst hm; exact h3 hu ⟨.holding, x⟩ (by simp) (by simp [Ent.adm])
        · exact h3 hu e (List.mem_append.mpr (Or.inr (List.mem_cons_of_mem _ hm))) ha
    · simp [List.countP_append, List.countP_cons, Ent.isHolding] at h4 ⊢; omega
  | rel2 pre post x he =>
    rw [he] at h1 h2 h3 h4
    refine ⟨?_, ranked_erase h2, ?_, ?_, h5, h6, h7⟩
    · simp at h1 ⊢; omega
    · intro hu e hm ha
      rcases List.mem_append.mp hm with hm | hm
      · exact h3 hu e (List.mem_append.mpr (Or.inl hm)) ha
      · exact h3 hu e (List.mem_append.mpr (Or.inr (List.mem_cons_of_mem _ hm))) ha
    · simpa [List.countP_append, List.countP_cons, Ent.isHolding] using h4

theorem linv_ustep {s t : St} (h : LInv s) (st : UStep s t) : LInv t := by
  cases st with
  | base st => exact linv_step h st
  | update n =>
    obtain ⟨h1, h2, h3, h4, h5, h6, h7⟩ := h
    refine ⟨h1, h2, ?_, h4, ?_, ?_, ?_⟩
    · intro hu e he ha
      have hu' : s.unl = false := by
        simp only [Bool.or_eq_false_iff] at hu; exact hu.1
      have := h3 hu' e he ha; simp only; omega
    · simp only; omega
    · simp only; omega
    · intro hu
      simp only [Bool.or_eq_false_iff, decide_eq_false_iff_not] at hu
      simp only; omega

theorem linv_reach {s t : St} (h : LInv s) (r : Reach UStep s t) : LInv t := by
  induction r with
  | refl => exact h
  | step _ st ih => exact linv_ustep ih st

/-- what the invariant gives: while the limit has never been switched off, the admitted entities
    number at most `hi`. -/
theorem linv_bound {s : St} (h : LInv s) (hu : s.unl = false) : (s.admitted : Int) ≤ s.hi := by
  have := count_adm_le s.hi s.ents 1 h.ranked (h.adm_le hu)
  have h0 := h.hi_nonneg
  unfold St.admitted
  rcases this with h' | h'
  · rw [h']; exact h0
  · push_cast at h'; omega

/-- `Step` never touches `lim`, `hi` and `unl`. -/
theorem step_lim_hi {s t : St} (st : Step s t) : t.lim = s.lim ∧ t.hi = s.hi ∧ t.unl = s.unl := by
  cases st <;> exact ⟨rfl, rfl, rfl⟩

theorem reach_step_lim_hi {s t : St} (r : Reach Step s t) :
    t.lim = s.lim ∧ t.hi = s.hi ∧ t.unl = s.unl := by
  induction r with
  | refl => exact ⟨rfl, rfl, rfl⟩
  | step _ st ih =>
    have := step_lim_hi st
    exact ⟨this.1.trans ih.1, this.2.1.trans ih.2.1, this.2.2.trans ih.2.2⟩

theorem reach_mono {R R' : St → St → Prop} (hR : ∀ a b, R a b → R' a b) {s t : St}
    (r : Reach R s t) : Reach R' s t := by
  induction r with
  | refl => exact .refl
  | step _ st ih => exact .step ih (hR _ _ st)

/-! ## the sequential composition of plugin, accept path and close paths -/

/-- a `take` that returns false leaves all three counters as they were. -/
theorem take_false_unchanged (c : CL) (h : c.take.2 = false) : c.take.1 = c := by
  simp only [CL.take] at h ⊢
  by_cases hx : c.lim ≤ 0 ∨ c.tmp + 1 ≤ c.lim
  · simp [hx] at h
  · simp only [hx, if_false]
    cases c; simp only [CL.mk.injEq, true_and]; omega

/-- the limiter's two counters both equal the number of live sessions; `lim` is the limit in force. -/
def CInv (lim : Int) (s : Sys) : Prop :=
  s.ov.conn = some ⟨lim, (s.live : Nat), (s.live : Nat)⟩

/-- a connect in a state with exact counters: admitted iff there is no limit or room under it;
    the counters stay exact. -/
theorem cinv_connect {lim : Int} {s : Sys} (h : CInv lim s) :
    CInv lim s.connect.1 ∧
    ((s.connect.2 = .admitted ∧ s.connect.1.live = s.live + 1 ∧ (lim ≤ 0 ∨ (s.live : Int) + 1 ≤ lim)) ∨
     (s.connect.2 = .rejected lim s.live ∧ s.connect.1.live = s.live ∧ 0 < lim ∧ lim ≤ s.live)) := by
  unfold CInv at h
  by_cases hx : lim ≤ 0 ∨ ((s.live : Nat) : Int) + 1 ≤ lim
  · have e : s.connect =
        (⟨{ s.ov with conn := some ⟨lim, (s.live : Nat) + 1, (s.live : Nat) + 1⟩ },
          s.sess ++ [⟨true, true⟩]⟩, .admitted) := by
      unfold Sys.connect OV.takeConn
      simp only [h, CL.take, hx, if_true]
    rw [e]
    have hl : (⟨{ s.ov with conn := some ⟨lim, (s.live : Nat) + 1, (s.live : Nat) + 1⟩ },
        s.sess ++ [⟨true, true⟩]⟩ : Sys).live = s.live + 1 := by
      simp [Sys.live, List.countP_append]
    refine ⟨?_, Or.inl ⟨rfl, hl, hx⟩⟩
    unfold CInv; rw [hl]; simp
  · have e : s.connect =
        (⟨{ s.ov with conn := some ⟨lim, (s.live : Nat), (s.live : Nat) + 1 - 1⟩ },
          s.sess ++ [⟨false, false⟩]⟩, .rejected lim (s.live : Nat)) := by
      unfold Sys.connect OV.takeConn
      simp only [h, CL.take, hx, if_false, Bool.false_eq_true]
    rw [e]
    have hl : (⟨{ s.ov with conn := some ⟨lim, (s.live : Nat), (s.live : Nat) + 1 - 1⟩ },
        s.sess ++ [⟨false, false⟩]⟩ : Sys).live = s.live := by
      simp [Sys.live, List.countP_append]
    refine ⟨?_, Or.inr ⟨rfl, hl, by omega, by omega⟩⟩
    unfold CInv; rw [hl]; simp

/-- a close keeps the counters exact and never raises the number of live sessions. -/
theorem cinv_close {lim : Int} {s : Sys} (h : CInv lim s) (i : Nat) :
    CInv lim (s.close i) ∧ (s.close i).live ≤ s.live := by
  unfold Sys.close
  cases hs : s.sess[i]? with
  | none => exact ⟨h, Nat.le_refl _⟩
  | some x =>
    obtain ⟨a, o⟩ := x
    cases o
    · exact ⟨h, Nat.le_refl _⟩
    · have hi : i < s.sess.length := by
        rcases Nat.lt_or_ge i s.sess.length with h | h
        · exact h
        · rw [List.getElem?_eq_none h] at hs; cases hs
      have hg : s.sess[i] = ⟨a, true⟩ := by
        rw [List.getElem?_eq_getElem hi] at hs; exact Option.some.inj hs
      simp only [CInv, Sys.live] at h ⊢
      cases a
      · -- a session that holds no slot: nothing is released, the live count is unchanged
        have hl : (List.countP (fun x => x.admitted && x.isOpen) (s.sess.set i ⟨false, false⟩))
            = List.countP (fun x => x.admitted && x.isOpen) s.sess := by
          rw [List.countP_set (h := hi), hg]; simp
        simp only [Bool.false_eq_true, if_false]
        rw [hl]; exact ⟨h, Nat.le_refl _⟩
      · have hpos : 1 ≤ List.countP (fun x => x.admitted && x.isOpen) s.sess :=
          List.countP_pos_iff.mpr ⟨s.sess[i], List.getElem_mem hi, by rw [hg]; rfl⟩
        have hl : (List.countP (fun x => x.admitted && x.isOpen) (s.sess.set i ⟨true, false⟩))
            = List.countP (fun x => x.admitted && x.isOpen) s.sess - 1 := by
          rw [List.countP_set (h := hi), hg]; simp
        simp only [if_true, OV.releaseConn, h, CL.release]
        rw [hl]
        refine ⟨?_, by omega⟩
        simp only [Option.some.injEq, CL.mk.injEq, true_and]
        omega

/-- `Update` derives the connection limiter from the old one by `updConn`. -/
theorem update_conn {o o' : OV} {c : Conf} (h : o.update c = some o') : o'.conn = updConn o.conn c := by
  unfold OV.update at h
  simp only [Option.bind_eq_bind, Option.pure_def] at h
  cases ht : updTotal o.total c with
  | none => simp [ht] at h
  | some t =>
    cases hh : updHandlers o.hq c with
    | none => simp [ht, hh] at h
    | some hq =>
      simp only [ht, hh, Option.bind_some, Option.some.injEq] at h
      subst h; rfl

/-- `New` starts with a fresh limiter, whatever the sign of `MaxConn`. -/
theorem new_conn {c : Conf} {o : OV} (ho : OV.new c = some o) : o.conn = some ⟨c.maxConn, 0, 0⟩ := by
  have := update_conn ho
  simpa [updConn, CL.new] using this

/-- an `Update` of `MaxConn` — to any value, `<= 0` included — keeps the limiter and its counters:
    only the limit changes (or nothing at all when `Update` panics). -/
theorem cinv_update {lim : Int} {s : Sys} (h : CInv lim s) (n : Int) :
    (CInv n (s.update n) ∨ CInv lim (s.update n)) ∧ (s.update n).sess = s.sess := by
  unfold Sys.update
  cases hu : s.ov.update { s.ov.conf with maxConn := n } with
  | none => exact ⟨Or.inr h, rfl⟩
  | some o =>
    refine ⟨Or.inl ?_, rfl⟩
    have hc := update_conn hu
    unfold CInv at h ⊢
    simp only [Sys.live] at h ⊢
    rw [hc, h]
    simp [updConn, CL.update]

theorem cinv_run (ops : List SOp) : ∀ {lim : Int} {s : Sys}, CInv lim s → ∃ lim', CInv lim' (s.run ops) := by
  induction ops with
  | nil => intro lim s h; exact ⟨lim, h⟩
  | cons op r ih =>
    intro lim s h
    cases op with
    | connect => exact ih (cinv_connect h).1
    | close i => exact ih (cinv_close h i).1
    | update n =>
      rcases (cinv_update h n).1 with h' | h'
      · exact ih h'
      · exact ih h'

/-- invariant of the sequential system under a constant positive limit `lim`: exact counters and at
    most `lim` live sessions. -/
def SInv (lim : Int) (s : Sys) : Prop := CInv lim s ∧ 0 < lim ∧ (s.live : Int) ≤ lim

def SOp.isUpdate : SOp → Bool
  | .update _ => true
  | _ => false

theorem sinv_run {lim : Int} (ops : List SOp) (hn : ∀ op ∈ ops, op.isUpdate = false) :
    ∀ {s : Sys}, SInv lim s → SInv lim (s.run ops) := by
  induction ops with
  | nil => intro s h; exact h
  | cons op r ih =>
    intro s h
    have hr : ∀ op ∈ r, op.isUpdate = false := fun o ho => hn o (List.mem_cons_of_mem _ ho)
    cases op with
    | connect =>
      have hc := cinv_connect h.1
      refine ih hr ⟨hc.1, h.2.1, ?_⟩
      rcases hc.2 with ⟨_, hl, hb⟩ | ⟨_, hl, _, _⟩
      · rw [hl]; push_cast; have := h.2.1; omega
      · rw [hl]; exact h.2.2
    | close i =>
      have hc := cinv_close h.1 i
      refine ih hr ⟨hc.1, h.2.1, ?_⟩
      have := hc.2; have := h.2.2; omega
    | update n => have := hn (.update n) (List.mem_cons_self ..); simp [SOp.isUpdate] at this

/-! ## token bucket -/

theorem refill_le (limit once v : Int) (h1 : once ≤ limit) : refill limit once v ≤ limit := by
  unfold refill; split
  · exact h1
  · split <;> omega

/-- the potential `max tokens 0` grows by at most `once` per refill. -/
theorem refill_pot (limit once v : Int) (h0 : 0 ≤ once) :
    max (refill limit once v) 0 ≤ max v 0 + once := by
  unfold refill; split
  · omega
  · split <;> omega

/-- potential: admissions so far plus the tokens that can still be taken. -/
def pot (s : QSt) : Int := (s.adm : Int) + max s.tokens 0

/-- one step raises the potential by at most `once` per completed refill (a successful
    compare-and-swap refills the CURRENT token count; a failed one changes nothing). -/
theorem pot_step (limit once : Int) (h0 : 0 ≤ once) (h1 : once ≤ limit) (s t : QSt) (e : QEv)
    (hs : qstep limit once s e = some t) :
    pot t ≤ pot s + once * ((t.ticks : Int) - s.ticks)
    ∧ (s.tokens ≤ limit → t.tokens ≤ limit) ∧ s.ticks ≤ t.ticks := by
  cases e with
  | takeLoad =>
    simp only [qstep, Option.some.injEq] at hs
    subst hs; split <;> simp [pot]
  | takeAdd =>
    simp only [qstep] at hs
    split at hs
    · cases hs
    · rename_i p hp
      simp only [Option.some.injEq] at hs
      subst hs
      split
      · simp only [pot]; push_cast
        refine ⟨by omega, by omega, Nat.le_refl _⟩
      · simp only [pot]
        refine ⟨by omega, by omega, Nat.le_refl _⟩
  | tickLoad =>
    simp only [qstep] at hs
    split at hs
    · simp only [Option.some.injEq] at hs; subst hs; simp [pot]
    · cases hs
  | tickCas =>
    simp only [qstep] at hs
    split at hs
    · rename_i v hv
      simp only [Option.some.injEq] at hs; subst hs
      split
      · rename_i heq
        have := refill_le limit once v h1
        have hp := refill_pot limit once v h0
        simp only [pot]; push_cast
        refine ⟨?_, fun _ => this, Nat.le_succ _⟩
        rw [heq]; omega
      · simp [pot]
    · cases hs
  | tick =>
    simp only [qstep] at hs
    split at hs
    · simp only [Option.some.injEq] at hs; subst hs
      have := refill_le limit once s.tokens h1
      have hp := refill_pot limit once s.tokens h0
      simp only [pot]; push_cast
      refine ⟨?_, fun _ => this, Nat.le_succ _⟩
      omega
    · cases hs

/-- ... and so does every schedule. -/
theorem pot_run (limit once : Int) (h0 : 0 ≤ once) (h1 : once ≤ limit) (evs : List QEv) :
    ∀ (s t : QSt), s.tokens ≤ limit → qrun limit once s evs = some t →
    pot t ≤ pot s + once * ((t.ticks : Int) - s.ticks) ∧ t.tokens ≤ limit ∧ s.ticks ≤ t.ticks := by
  induction evs with
  | nil =>
    intro s t hcap hr
    simp only [qrun, Option.some.injEq] at hr; subst hr; exact ⟨by simp, hcap, Nat.le_refl _⟩
  | cons e es ih =>
    intro s t hcap hr
    simp only [qrun] at hr
    cases hq : qstep limit once s e with
    | none => simp [hq] at hr
    | some u =>
      simp only [hq, Option.bind_some] at hr
      have hs := pot_step limit once h0 h1 s u e hq
      have hi := ih u t (hs.2.1 hcap) hr
      refine ⟨?_, hi.2.1, Nat.le_trans hs.2.2 hi.2.2⟩
      have e1 := hs.1; have e2 := hi.1
      have : once * ((t.ticks : Int) - s.ticks) = once * ((t.ticks : Int) - u.ticks) + once * ((u.ticks : Int) - s.ticks) := by
        rw [← Int.mul_add]; congr 1; omega
      omega

end Teleport.Overload
