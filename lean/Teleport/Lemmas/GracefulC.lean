/-
Lemmas/GracefulC — the clauses that hold while the connection has not been lost (`NL`), and the
assembly: `SInv` holds in every reachable state.
-/
import Teleport.Lemmas.GracefulB
namespace Teleport.Graceful

theorem step_nl_st {s t : St} {e : Ev} (hn : NL s) (_hlost : s.lost = false) (hs : step s e = some t) :
    (t.closer.rank = 0 → t.status = .ok) ∧ (1 ≤ t.closer.rank → t.closer.rank ≤ 4 → t.status = .closing) ∧
    (5 ≤ t.closer.rank → t.status = .closed) ∧ (t.sock = true → 6 ≤ t.closer.rank) := by
  obtain ⟨h0, h1, h5, hsk, hrd, _, _⟩ := hn
  c08_step_cases hs
  all_goals first
    | exact ⟨h0, h1, h5, hsk⟩
    | (simp_all [XPc.rank]; done)

theorem step_nl_rd {s t : St} {e : Ev} (hn : NL s) (hlost : s.lost = false) (hs : step s e = some t) :
    (match t.reader with
    | .top | .blocked | .add _ | .got (some _) => True
    | .got none => 6 ≤ t.closer.rank
    | .dload | .rexit => 5 ≤ t.closer.rank
    | .dgo st => st = .closed ∧ 5 ≤ t.closer.rank
    | _ => False) := by
  obtain ⟨h0, h1, h5, hsk, hrd, _, _⟩ := hn
  c08_step_cases hs
  all_goals first
    | exact hrd
    | (simp_all [XPc.rank]; done)
    | (simp_all [XPc.rank]; omega)
    | (have hr : s.closer.rank = 0 ∨ (1 ≤ s.closer.rank ∧ s.closer.rank ≤ 4) ∨ 5 ≤ s.closer.rank := by omega
       rcases hr with hr | ⟨hr1, hr2⟩ | hr <;> simp_all [goon] <;> omega)
    | (generalize s.reader = r at hrd ⊢
       cases r with
       | got f => cases f <;> simp_all [XPc.rank]
       | _ => simp_all [XPc.rank])

theorem step_nl_hres {s t : St} {e : Ev} (hI : SInv s) (hn : NL s) (hlost : s.lost = false) (hs : step s e = some t) :
    ∀ h ∈ t.hs, h.late = false → h.kind = .call → h.res ≠ .lost := by
  obtain ⟨h0, h1, h5, hsk, hrd, hl, _⟩ := hn
  have hw := hI.wait_h
  c08_step_cases hs
  all_goals first
    | exact hl
    | (c08_fset hl; intro _ hp; exact hp)
    | (c08_fset hl; intro _ hp; simp_all; done)
    | (apply forall_snoc hl; cases ‹Frame› <;> simp [H.ofFrame])
    | (apply forall_snoc hl; simp)
    | (c08_fset hl; intro hm _ hlt _
       have hr : s.closer.rank = 0 ∨ (1 ≤ s.closer.rank ∧ s.closer.rank ≤ 2) ∨ 3 ≤ s.closer.rank := by omega
       rcases hr with hr | ⟨hr1, hr2⟩ | hr
       · simp_all [replyAllowed]
       · have := h1 hr1 (by omega); simp_all [replyAllowed]
       · have := hw hr _ hm hlt; simp_all)
    | (c08_fset hl; intro hm _ hlt _
       have hsk2 : s.sock = true := by simp_all
       have := hw (by have := hsk hsk2; omega) _ hm hlt; simp_all)

theorem step_nl_cres {s t : St} {e : Ev} (hI : SInv s) (hn : NL s) (hlost : s.lost = false) (hs : step s e = some t) :
    ∀ c ∈ t.cs, c.pc ≠ .done .cancelled ∧ c.pc ≠ .done .wfail := by
  obtain ⟨h0, h1, h5, hsk, hrd, _, hl⟩ := hn
  have hw := hI.wait_c
  have hf := hI.cflags
  c08_step_cases hs
  all_goals first
    | exact hl
    | (c08_fset hl; intro _ hp; simp_all; done)
    | (apply forall_snoc hl; simp)
    | (c08_fset hl; intro hm _
       have hsk2 : s.sock = true := by simp_all
       have hff := hf _ hm
       have hlt := hff.1 (hff.2.2.1 (by assumption))
       have := hw (by have := hsk hsk2; omega) _ hm hlt
       simp_all [C.isOpen])

/-! ## assembly -/

theorem step_lost {s t : St} {e : Ev} (hs : step s e = some t) (h : t.lost = false) : s.lost = false := by
  cases e <;> simp only [step] at hs <;> (repeat' split at hs) <;> (try contradiction) <;> cases hs <;>
    first
    | exact h
    | (simp at h; done)

theorem sinv_init : SInv St.init := by
  constructor <;> try (simp [St.init, XPc.rank]; done)
  intro _
  constructor <;> simp [St.init, XPc.rank]

theorem sinv_step {s t : St} (hI : SInv s) (hst : Step s t) : SInv t := by
  obtain ⟨e, hs⟩ := hst
  refine ⟨step_ctx_eq hI hs, step_calls_eq hI hs, step_late_h hI hs, step_late_c hI hs, step_wait_h hI hs,
    step_wait_c hI hs, step_ebc_h hI hs, step_st_rank hI hs, step_hres hI hs, step_cflags hI hs, ?_⟩
  intro hl
  have hl0 := step_lost hs hl
  have hn := hI.nolost hl0
  have h1 := step_nl_st hn hl0 hs
  exact ⟨h1.1, h1.2.1, h1.2.2.1, h1.2.2.2, step_nl_rd hn hl0 hs, step_nl_hres hI hn hl0 hs,
    step_nl_cres hI hn hl0 hs⟩

/-- the invariant holds in every reachable state, for any number of threads and any interleaving. -/
theorem sinv_reach {s : St} (r : Reach St.init s) : SInv s := by
  induction r with
  | refl => exact sinv_init
  | step _ hst ih => exact sinv_step ih hst

end Teleport.Graceful

namespace Teleport.Graceful

theorem run_reach : ∀ (es : List Ev) {s t : St}, run s es = some t → Reach s t
  | [], s, t, h => by
    simp only [run, Option.some.injEq] at h
    subst h; exact .refl
  | e :: es, s, t, h => by
    simp only [run] at h
    cases hs : step s e with
    | none => rw [hs] at h; simp at h
    | some u =>
      rw [hs] at h
      simp only [Option.bind_some] at h
      have r1 : Reach s u := Reach.step .refl ⟨e, hs⟩
      have r2 := run_reach es h
      clear h hs
      induction r2 with
      | refl => exact r1
      | step _ hst ih => exact .step ih hst

/-- executable form for witnesses: if the event list runs through, its final state is reachable. -/
theorem run_reach' (es : List Ev) (s : St) (h : (run s es).isSome = true) :
    Reach s ((run s es).getD s) := by
  cases hr : run s es with
  | none => rw [hr] at h; cases h
  | some t => exact run_reach es hr

/-- the closer's program counter only moves forward; `ret` and `noop` are final. -/
theorem step_closeReturned {s t : St} {e : Ev} (hs : step s e = some t) (h : s.closeReturned = true) :
    t.closeReturned = true := by
  cases e <;> simp only [step] at hs <;> (repeat' split at hs) <;> (try contradiction) <;> cases hs <;>
    first
    | exact h
    | (simp_all [St.closeReturned]; done)

/-! ## `Peer.Close` -/

structure PInv (p : PSt) : Prop where
  reach : ∀ s ∈ p.ss, Reach St.init s
  lis : p.pc ≠ .idle → p.lis = false
  joined : p.pc = .joined → ∀ i ∈ p.spawned, ∀ s, p.ss[i]? = some s → s.closeReturned = true

theorem pinv_init : PInv PSt.init := by
  constructor <;> simp [PSt.init]

theorem pinv_step {p q : PSt} (hI : PInv p) (hst : PStep p q) : PInv q := by
  obtain ⟨e, hs⟩ := hst
  cases e with
  | accept =>
    simp only [pstep] at hs
    split at hs
    · cases hs
      refine ⟨forall_snoc hI.reach .refl, hI.lis, ?_⟩
      intro hj
      have := hI.lis (by rw [hj]; decide)
      simp_all
    · contradiction
  | sess i e =>
    simp only [pstep] at hs
    split at hs
    · rename_i s hget
      split at hs
      · rename_i t hstep
        cases hs
        refine ⟨?_, hI.lis, ?_⟩
        · exact forall_set hget hI.reach (fun _ hr => Reach.step hr ⟨e, hstep⟩)
        · intro hj k hk u hu
          rw [List.getElem?_set] at hu
          split at hu
          · split at hu
            · cases hu
              rename_i hik _
              exact step_closeReturned hstep (hI.joined hj k hk s (hik ▸ hget))
            · contradiction
          · exact hI.joined hj k hk u hu
      · contradiction
    · contradiction
  | closeLis =>
    simp only [pstep] at hs
    split at hs
    · cases hs
      refine ⟨hI.reach, fun _ => rfl, ?_⟩
      intro hj; cases hj
    · contradiction
  | spawn w =>
    simp only [pstep] at hs
    split at hs
    · cases hs
      refine ⟨hI.reach, fun _ => hI.lis (by simp_all), ?_⟩
      intro hj; cases hj
    · contradiction
  | join =>
    simp only [pstep] at hs
    split at hs
    · rename_i hg
      cases hs
      refine ⟨hI.reach, fun _ => hI.lis (by simp_all), ?_⟩
      intro _ k hk u hu
      have := List.all_eq_true.1 hg.2 k hk
      simp only [hu] at this
      exact this
    · contradiction

theorem pinv_reach {p : PSt} (r : PReach PSt.init p) : PInv p := by
  induction r with
  | refl => exact pinv_init
  | step _ hst ih => exact pinv_step ih hst

/-- what `spawn` guarantees about its set: every session certainly in the hub is in it. -/
theorem coversHub_spec : ∀ (l : List St) (k : Nat) (w : List Nat), coversHub l k w = true →
    ∀ i s, l[i]? = some s → s.inHub = true → (k + i) ∈ w
  | [], _, _, _, i, s, h, _ => by simp at h
  | x :: r, k, w, hc, 0, s, h, hh => by
    simp only [List.getElem?_cons_zero, Option.some.injEq] at h
    subst h
    simp only [coversHub, Bool.and_eq_true, Bool.or_eq_true, Bool.not_eq_true'] at hc
    rcases hc.1 with h1 | h1
    · rw [hh] at h1; cases h1
    · simpa using h1
  | x :: r, k, w, hc, i + 1, s, h, hh => by
    simp only [List.getElem?_cons_succ] at h
    simp only [coversHub, Bool.and_eq_true] at hc
    have := coversHub_spec r (k + 1) w hc.2 i s h hh
    have e : k + 1 + i = k + (i + 1) := by omega
    rw [e] at this; exact this

end Teleport.Graceful
