import Teleport.Model.PbProto
import Teleport.Lemmas.Frame2
namespace Teleport
namespace PbP

theorem byteOf_toNat (c : UInt8) : byteOf (c.toNat : Int) = c := by
  unfold byteOf
  have h := c.toNat_lt
  have : ((c.toNat : Int) % 256).toNat = c.toNat := by omega
  rw [this]
  simp [Nat.toUInt8]

/-- pbproto's supported field set: int32 status code, no (empty, empty) metadata pair, at most 255
    filters (service method and body are whatever the serializer accepts). -/
def WFp (m : Msg) : Prop := Num.inInt32 m.status.code ∧ Args.WF m.md ∧ m.pipe.length ≤ 255

instance (m : Msg) : Decidable (WFp m) := by unfold WFp Args.WF; infer_instance

/-- if the protobuf decoder inverts the protobuf encoder, pbproto's field mapping restores every
    message of the supported field set. -/
theorem inverts_wf (ser : Rec → Option Bytes) (de : Bytes → Option Rec)
    (hsd : ∀ r t, ser r = some t → de t = some r) (m : Msg) (hw : WFp m) :
    Frame2.Inverts (payload ser de) m := by
  intro t ht size pipe
  have hd : de t = some (toRec m) := hsd _ _ ht
  simp only [payload, hd, ofRec, toRec, Status.decode_encode m.status hw.1, Args.parse_query_wf m.md hw.2.1,
    Raw.ofOpt, Raw.bind_ok, byteOf_toNat]

end PbP
end Teleport
