/-
Lemmas/Xfer — facts about Model/XferMd5 (md5 / gzip filters, registry, `Append` as coded, reply pipe)
and about `Xfer.onPack/onUnpack` over unregistered ids.
-/
import Teleport.Model.XferMd5
import Teleport.Lemmas.Raw
namespace Teleport
namespace Xfer

/-! ### md5 filter -/

theorem md5F_unpack_append (h : Bytes → Bytes) (x c : Bytes) (hc : c.length = 16) :
    (md5F h).unpack (x ++ c) = if h x == c then some x else none := by
  simp only [md5F, md5Length, List.length_append, hc]
  have h1 : ¬ (x.length + 16 < 16) := by omega
  have h2 : x.length + 16 - 16 = x.length := by omega
  simp only [h1, if_false, h2, List.take_left', List.drop_left']

/-- splitting off the last 16 bytes. -/
theorem split16 (s : Bytes) (hs : ¬ s.length < 16) :
    s = s.take (s.length - 16) ++ s.drop (s.length - 16) ∧ (s.drop (s.length - 16)).length = 16 := by
  refine ⟨(List.take_append_drop _ _).symm, ?_⟩
  simp only [List.length_drop]; omega

/-- the md5 filter accepts exactly the strings of the form `d ++ h d`, and then delivers `d`. -/
theorem md5F_unpack_eq_some (h : Bytes → Bytes) (hlen : ∀ x, (h x).length = 16) (s d : Bytes) :
    (md5F h).unpack s = some d ↔ s = d ++ h d := by
  constructor
  · intro hu
    by_cases hs : s.length < 16
    · simp [md5F, md5Length, hs] at hu
    · obtain ⟨e, hl⟩ := split16 s hs
      rw [e, md5F_unpack_append h _ _ hl] at hu
      split at hu
      · rename_i hb
        have hb' := eq_of_beq hb
        simp only [Option.some.injEq] at hu
        rw [e, ← hb', hu]
      · simp at hu
  · intro e
    rw [e, md5F_unpack_append h d (h d) (hlen d)]
    simp

theorem md5F_lawful (h : Bytes → Bytes) (hlen : ∀ x, (h x).length = 16) : Lawful (md5F h) := by
  intro x y hp
  simp only [md5F, Option.some.injEq] at hp
  exact (md5F_unpack_eq_some h hlen y x).2 hp.symm

theorem md5F_short (h : Bytes → Bytes) (s : Bytes) (hs : s.length < 16) : (md5F h).unpack s = none := by
  simp [md5F, md5Length, hs]

/-- an altered checksum (any 16 bytes other than the digest of the content in front of them) is
    rejected; nothing is assumed about `h`. -/
theorem md5F_checksum_change (h : Bytes → Bytes) (x c : Bytes) (hc : c.length = 16) (hne : c ≠ h x) :
    (md5F h).unpack (x ++ c) = none := by
  rw [md5F_unpack_append h x c hc]
  have : (h x == c) = false := by
    apply Bool.eq_false_iff.2
    intro hb; exact hne (eq_of_beq hb).symm
  simp [this]

/-- altered content in front of an unchanged checksum is rejected unless the hashes collide. -/
theorem md5F_content_change (h : Bytes → Bytes) (hlen : ∀ x, (h x).length = 16) (x x' : Bytes)
    (hne : h x' ≠ h x) : (md5F h).unpack (x' ++ h x) = none := by
  rw [md5F_unpack_append h x' (h x) (hlen x)]
  have : (h x' == h x) = false := by
    apply Bool.eq_false_iff.2
    intro hb; exact hne (eq_of_beq hb)
  simp [this]

/-! ### concrete MD5: the digest has 16 bytes -/

theorem md5_sum_length (x : Bytes) : (Md5.sum x).length = 16 := by
  simp [Md5.sum, Md5.le32]

theorem md5Filter_lawful : Lawful md5Filter := md5F_lawful _ md5_sum_length

/-! ### gzip filter over an abstract compressor pair -/

theorem gzipF_lawful (comp decomp : Bytes → Option Bytes)
    (hinv : ∀ x y, comp x = some y → y ≠ [] ∧ decomp y = some x) : Lawful (gzipF comp decomp) := by
  intro x y hp
  obtain ⟨hne, hd⟩ := hinv x y hp
  simp only [gzipF]
  cases y with
  | nil => exact absurd rfl hne
  | cons a r => simpa using hd

/-! ### pipes over unregistered ids -/

theorem onPack_unregistered (reg : Registry) (p : List UInt8) (x : Bytes) (i : UInt8)
    (hi : i ∈ p) (hr : reg i = none) : onPack reg p x = none := by
  induction p with
  | nil => simp at hi
  | cons j js ih =>
    simp only [onPack]
    cases hj : reg j with
    | none => rfl
    | some f =>
      have : i ∈ js := by
        rcases List.mem_cons.1 hi with e | e
        · subst e; rw [hr] at hj; cases hj
        · exact e
      simp [ih this]

theorem onUnpack_unregistered (reg : Registry) (p : List UInt8) (y : Bytes) (i : UInt8)
    (hi : i ∈ p) (hr : reg i = none) : onUnpack reg p y = none := by
  induction p generalizing y with
  | nil => simp at hi
  | cons j js ih =>
    cases hj : reg j with
    | none => simp only [onUnpack, hj]
    | some f =>
      have hm : i ∈ js := by
        rcases List.mem_cons.1 hi with e | e
        · subst e; rw [hr] at hj; cases hj
        · exact e
      simp only [onUnpack, hj]
      cases hu : f.unpack y with
      | none => rfl
      | some z => simp only [Option.bind_some]; exact ih z hm

/-! ### `Append` as coded versus the functional `Xfer.append` -/

theorem appendLoop_all (reg : Registry) (cur ids : List UInt8) (hall : ∀ i ∈ ids, (reg i).isSome = true) :
    appendLoop reg cur ids = some (cur ++ ids) := by
  induction ids generalizing cur with
  | nil => simp [appendLoop]
  | cons i is ih =>
    have hi := hall i (by simp)
    cases hr : reg i with
    | none => simp [hr] at hi
    | some f =>
      simp only [appendLoop, hr]
      rw [ih (cur ++ [i]) (fun j hj => hall j (by simp [hj]))]
      simp

theorem appendLoop_unknown (reg : Registry) (cur ids : List UInt8) (i : UInt8) (hi : i ∈ ids)
    (hr : reg i = none) : appendLoop reg cur ids = none := by
  induction ids generalizing cur with
  | nil => simp at hi
  | cons j js ih =>
    simp only [appendLoop]
    cases hj : reg j with
    | none => rfl
    | some f =>
      have hm : i ∈ js := by
        rcases List.mem_cons.1 hi with e | e
        · subst e; rw [hr] at hj; cases hj
        · exact e
      exact ih (cur ++ [j]) hm

/-- the loop completes only with every id registered, and then it appended exactly the ids. -/
theorem appendLoop_some (reg : Registry) (cur ids p : List UInt8) (h : appendLoop reg cur ids = some p) :
    p = cur ++ ids ∧ ∀ i ∈ ids, (reg i).isSome = true := by
  by_cases hall : ∀ i ∈ ids, (reg i).isSome = true
  · rw [appendLoop_all reg cur ids hall] at h
    exact ⟨(Option.some.inj h).symm, hall⟩
  · exfalso
    have : ∃ i, i ∈ ids ∧ reg i = none := by
      false_or_by_contra
      rename_i hne
      apply hall
      intro i hi
      cases hr : reg i with
      | none => exact absurd ⟨i, hi, hr⟩ hne
      | some f => rfl
    obtain ⟨i, hi, hr⟩ := this
    rw [appendLoop_unknown reg cur ids i hi hr] at h
    cases h

theorem appendSt_all (reg : Registry) (cur ids : List UInt8) (hall : ∀ i ∈ ids, (reg i).isSome = true) :
    appendSt reg cur ids = if (cur ++ ids).length ≤ 255 then (cur ++ ids, true) else (cur, false) := by
  simp only [appendSt, appendLoop_all reg cur ids hall]

theorem appendSt_unknown (reg : Registry) (cur ids : List UInt8) (i : UInt8) (hi : i ∈ ids)
    (hr : reg i = none) : appendSt reg cur ids = (cur, false) := by
  simp only [appendSt, appendLoop_unknown reg cur ids i hi hr]

/-- all-or-nothing: `Append` either returns nil having appended every id (all registered, total
    length within 255), or returns an error and leaves the pipe exactly as it was. -/
theorem appendSt_cases (reg : Registry) (cur ids : List UInt8) :
    (appendSt reg cur ids = (cur ++ ids, true) ∧ (∀ i ∈ ids, (reg i).isSome = true) ∧
      (cur ++ ids).length ≤ 255) ∨
    (appendSt reg cur ids = (cur, false) ∧
      ((∃ i ∈ ids, reg i = none) ∨ (cur ++ ids).length > 255)) := by
  unfold appendSt
  cases h : appendLoop reg cur ids with
  | none =>
    right
    refine ⟨rfl, Or.inl ?_⟩
    false_or_by_contra
    rename_i hne
    have hall : ∀ i ∈ ids, (reg i).isSome = true := by
      intro i hi
      cases hr : reg i with
      | none => exact absurd ⟨i, hi, hr⟩ hne
      | some f => rfl
    rw [appendLoop_all reg cur ids hall] at h
    cases h
  | some p =>
    obtain ⟨rfl, hall⟩ := appendLoop_some reg cur ids p h
    by_cases hl : (cur ++ ids).length ≤ 255
    · left; exact ⟨by simp only [hl, if_true], hall, hl⟩
    · right; exact ⟨by simp only [hl, if_false], Or.inr (by omega)⟩

/-- whatever happens, the pipe afterwards is the old pipe followed by a prefix of the requested ids
    (all of them or none), all of them registered. -/
theorem appendSt_extends (reg : Registry) (cur ids : List UInt8) :
    ∃ acc, (appendSt reg cur ids).1 = cur ++ acc ∧ acc <+: ids ∧ ∀ i ∈ acc, (reg i).isSome = true := by
  rcases appendSt_cases reg cur ids with ⟨h, hall, _⟩ | ⟨h, _⟩
  · exact ⟨ids, by rw [h], List.prefix_refl _, hall⟩
  · exact ⟨[], by rw [h]; simp, List.nil_prefix, by simp⟩

/-- `Append` never leaves a pipe longer than 255 that was not longer before. -/
theorem appendSt_len (reg : Registry) (cur ids : List UInt8) (hc : cur.length ≤ 255) :
    (appendSt reg cur ids).1.length ≤ 255 := by
  rcases appendSt_cases reg cur ids with ⟨h, _, hl⟩ | ⟨h, _⟩
  · rw [h]; exact hl
  · rw [h]; exact hc

/-- the call returns nil exactly when the functional model accepts, and then the pipes agree. -/
theorem append_eq_appendSt (reg : Registry) (cur ids : List UInt8) :
    append reg cur ids = if (appendSt reg cur ids).2 then some (appendSt reg cur ids).1 else none := by
  unfold append
  by_cases hall : ids.all (fun i => (reg i).isSome) = true
  · have hall' : ∀ i ∈ ids, (reg i).isSome = true := by simpa [List.all_eq_true] using hall
    rw [appendSt_all reg cur ids hall']
    simp only [hall, if_true]
    by_cases hl : (cur ++ ids).length ≤ 255
    · have h2 : ¬ (cur ++ ids).length > 255 := by omega
      rw [if_neg h2, if_pos hl]; rfl
    · have h2 : (cur ++ ids).length > 255 := by omega
      rw [if_pos h2, if_neg hl]; rfl
  · have hf : ids.all (fun i => (reg i).isSome) = false := by simpa using hall
    obtain ⟨i, hi, hn⟩ := List.all_eq_false.1 hf
    have hr : reg i = none := by cases hr : reg i <;> simp_all
    simp [hall, appendSt_unknown reg cur ids i hi hr]

/-! ### registry -/

/-- ids and names are unique. -/
def RegInv (es : List Entry) : Prop := (es.map (·.id)).Nodup ∧ (es.map (·.name)).Nodup

theorem get_id (es : List Entry) (i : UInt8) (e : Entry) (h : get es i = some e) : e.id = i := by
  have := List.find?_some h
  simpa using this

theorem getByName_name (es : List Entry) (n : Bytes) (e : Entry) (h : getByName es n = some e) : e.name = n := by
  have := List.find?_some h
  simpa using this

theorem reg_eq_some (es : List Entry) (e : Entry) (es' : List Entry) (h : reg es e = some es') :
    es' = es ++ [e] ∧ (∀ x ∈ es, x.id ≠ e.id) ∧ (∀ x ∈ es, x.name ≠ e.name) := by
  unfold reg at h
  split at h
  · simp at h
  · rename_i h1
    split at h
    · simp at h
    · rename_i h2
      simp only [Option.some.injEq] at h
      refine ⟨h.symm, ?_, ?_⟩
      · intro x hx hid
        apply h1
        exact List.any_eq_true.2 ⟨x, hx, by simp [hid]⟩
      · intro x hx hn
        apply h2
        exact List.any_eq_true.2 ⟨x, hx, by simp [hn]⟩

/-- registering keeps ids and names unique. -/
theorem reg_inv (es : List Entry) (e : Entry) (es' : List Entry) (hi : RegInv es) (h : reg es e = some es') :
    RegInv es' := by
  obtain ⟨he, h1, h2⟩ := reg_eq_some es e es' h
  subst he
  unfold RegInv at *
  simp only [List.map_append, List.map_cons, List.map_nil]
  refine ⟨List.nodup_append.2 ⟨hi.1, by simp, ?_⟩, List.nodup_append.2 ⟨hi.2, by simp, ?_⟩⟩
  · intro a ha b hb
    simp only [List.mem_map] at ha
    obtain ⟨x, hx, rfl⟩ := ha
    simp only [List.mem_cons, List.not_mem_nil, or_false] at hb
    subst hb
    exact h1 x hx
  · intro a ha b hb
    simp only [List.mem_map] at ha
    obtain ⟨x, hx, rfl⟩ := ha
    simp only [List.mem_cons, List.not_mem_nil, or_false] at hb
    subst hb
    exact h2 x hx

/-- a registered filter is never replaced by a later registration. -/
theorem reg_preserves_get (es : List Entry) (e : Entry) (es' : List Entry) (h : reg es e = some es')
    (i : UInt8) (x : Entry) (hg : get es i = some x) : get es' i = some x := by
  obtain ⟨he, _, _⟩ := reg_eq_some es e es' h
  subst he
  unfold get at *
  rw [List.find?_append, hg]; rfl

/-- after a successful registration the new filter is found under its id and under its name. -/
theorem reg_get_new (es : List Entry) (e : Entry) (es' : List Entry) (h : reg es e = some es') :
    get es' e.id = some e ∧ getByName es' e.name = some e := by
  obtain ⟨he, h1, h2⟩ := reg_eq_some es e es' h
  subst he
  unfold get getByName
  have n1 : es.find? (fun x => x.id == e.id) = none := by
    rw [List.find?_eq_none]; intro x hx; simpa using h1 x hx
  have n2 : es.find? (fun x => x.name == e.name) = none := by
    rw [List.find?_eq_none]; intro x hx; simpa using h2 x hx
  rw [List.find?_append, List.find?_append, n1, n2]
  simp

/-- a second registration of an id or of a name panics. -/
theorem reg_dup (es : List Entry) (e x : Entry)
    (h : get es e.id = some x ∨ getByName es e.name = some x) : reg es e = none := by
  unfold reg
  rcases h with h | h
  · have hm := List.mem_of_find?_eq_some h
    have hid := get_id es e.id x h
    have : es.any (fun y => y.id == e.id) = true := List.any_eq_true.2 ⟨x, hm, by simp [hid]⟩
    simp [this]
  · have hm := List.mem_of_find?_eq_some h
    have hn := getByName_name es e.name x h
    have : es.any (fun y => y.name == e.name) = true := List.any_eq_true.2 ⟨x, hm, by simp [hn]⟩
    split <;> rfl

/-! ### reply pipe -/

theorem addAll_extends (reg : Registry) (cur : List UInt8) (calls : List (List UInt8)) :
    ∃ acc, addAll reg cur calls = cur ++ acc ∧ ∀ i ∈ acc, (reg i).isSome = true := by
  induction calls generalizing cur with
  | nil => exact ⟨[], by simp [addAll]⟩
  | cons c cs ih =>
    obtain ⟨a1, h1, _, h3⟩ := appendSt_extends reg cur c
    obtain ⟨a2, h4, h5⟩ := ih (cur ++ a1)
    refine ⟨a1 ++ a2, ?_, ?_⟩
    · simp only [addAll, List.foldl_cons, addXferPipe, h1] at h4 ⊢
      rw [h4]; simp
    · intro i hi
      rcases List.mem_append.1 hi with e | e
      · exact h3 i e
      · exact h5 i e

theorem addAll_registered (reg : Registry) (cur : List UInt8) (calls : List (List UInt8))
    (hall : ∀ c ∈ calls, ∀ i ∈ c, (reg i).isSome = true) (hlen : (cur ++ calls.flatten).length ≤ 255) :
    addAll reg cur calls = cur ++ calls.flatten := by
  induction calls generalizing cur with
  | nil => simp [addAll]
  | cons c cs ih =>
    have hl1 : (cur ++ c).length ≤ 255 := by
      simp only [List.flatten_cons, List.length_append] at hlen ⊢; omega
    have h1 := appendSt_all reg cur c (hall c (by simp))
    rw [if_pos hl1] at h1
    have h2 := ih (cur ++ c) (fun d hd => hall d (by simp [hd])) (by simpa using hlen)
    simp only [addAll, List.foldl_cons, addXferPipe, h1] at h2 ⊢
    rw [h2]; simp

/-- no sequence of `AddXferPipe` calls makes a pipe longer than 255. -/
theorem addAll_len (reg : Registry) (cur : List UInt8) (calls : List (List UInt8)) (hc : cur.length ≤ 255) :
    (addAll reg cur calls).length ≤ 255 := by
  induction calls generalizing cur with
  | nil => simpa [addAll] using hc
  | cons c cs ih =>
    simp only [addAll, List.foldl_cons]
    exact ih (addXferPipe reg cur c) (appendSt_len reg cur c hc)

theorem appendFrom_len (cur src : List UInt8) (hc : cur.length ≤ 255) : (appendFrom cur src).length ≤ 255 := by
  unfold appendFrom
  split
  · exact hc
  · rw [List.length_append]; omega

/-- head of `handleCall`: with a request pipe within the limit the result is within the limit and is
    the request's pipe, preceded by the earlier additions if (and only if) both fit. -/
theorem callPipe_spec (out req : List UInt8) (hreq : req.length ≤ 255) :
    (callPipe out req).length ≤ 255 ∧
    callPipe out req = (if out.length + req.length > 255 then [] else out) ++ req := by
  unfold callPipe appendFrom reset
  by_cases h : out.length + req.length > 255
  · simp only [h, if_true, List.length_nil, Nat.zero_add, List.nil_append]
    have : ¬ req.length > 255 := by omega
    simp only [this, if_false]
    exact ⟨hreq, trivial⟩
  · simp only [h, if_false]
    exact ⟨by rw [List.length_append]; omega, trivial⟩

/-- what the receiver reads back from `wirePipe p`: the announced number of ids. -/
def learned (p : List UInt8) : List UInt8 :=
  match wirePipe p with
  | [] => []
  | n :: ids => ids.take n.toNat

theorem learned_of_le (p : List UInt8) (h : p.length ≤ 255) : learned p = p := by
  simp only [learned, wirePipe]
  rw [Raw.toUInt8_toNat _ (by omega)]
  simp

end Xfer
end Teleport
