/-
Lemmas/Router — helper lemmas about Model/Router: the mapper never reaches the index panic,
association-list facts for the route tables, the specification of the `reg` loop, and the
invariant (no name twice in a table) preserved by every registration-time operation.
-/
import Teleport.Model.Router
namespace Teleport
namespace Router

/-- `Except` has no `DecidableEq` in core; needed to `decide` concrete runs (kept inside this
    namespace so that it cannot clash with another module's instance). -/
instance decEqExcept {ε α : Type} [DecidableEq ε] [DecidableEq α] : DecidableEq (Except ε α)
  | .ok a, .ok b => if h : a = b then isTrue (by rw [h]) else isFalse (fun e => h (Except.ok.inj e))
  | .error a, .error b => if h : a = b then isTrue (by rw [h]) else isFalse (fun e => h (Except.error.inj e))
  | .ok _, .error _ => isFalse (fun e => by cases e)
  | .error _, .ok _ => isFalse (fun e => by cases e)

/-! ### mapper totality -/

theorem setLast_isSome (sep : UInt8) : ∀ a : Bytes, a ≠ [] → ∃ a', setLast sep a = some a'
  | [], h => absurd rfl h
  | [_], _ => ⟨_, rfl⟩
  | x :: y :: r, _ => by
    obtain ⟨a', h⟩ := setLast_isSome sep (y :: r) (by simp)
    exact ⟨x :: a', by simp [setLast, h]⟩

theorem tsmLoop_isSome (sep : UInt8) :
    ∀ (name a : Bytes) (last : UInt8), (last = 95 → a ≠ []) → ∃ r, tsmLoop sep a last name = some r := by
  intro name
  induction name with
  | nil => intro a last _; exact ⟨a, rfl⟩
  | cons r rs ih =>
    intro a last h
    unfold tsmLoop
    by_cases h1 : last = 95
    · subst h1
      by_cases h2 : r = 95
      · subst h2
        simp only [beq_self_eq_true, if_true]
        exact ih a 0 (by intro e; exact absurd e (by decide))
      · have h2' : (r == 95) = false := by simpa using h2
        simp only [beq_self_eq_true, if_true, h2']
        obtain ⟨a', ha⟩ := setLast_isSome sep a (h rfl)
        simp only [ha]
        exact ih (a' ++ [r]) r (by intro _; simp)
    · have h1' : (last == 95) = false := by simpa using h1
      simp only [h1']
      by_cases h3 : (last == 0 && r == 95) = true
      · simp only [h3, if_true]
        exact ih a last (by intro e; exact absurd e h1)
      · simp only [h3]
        exact ih (a ++ [r]) r (by intro _; simp)

theorem toServiceMethods_isSome (name : Bytes) (sep : UInt8) (sn : Bool) :
    ∃ r, toServiceMethods name sep sn = some r := by
  obtain ⟨a, h⟩ := tsmLoop_isSome sep name [] 0 (by intro e; exact absurd e (by decide))
  unfold toServiceMethods
  rw [h]
  cases sn <;> simp

theorem mapper_isSome (mk : MapperKind) (pfx name : Name) : ∃ r, mapper mk pfx name = some r := by
  cases mk
  · obtain ⟨a, h⟩ := toServiceMethods_isSome name 47 true
    show ∃ r, (toServiceMethods name 47 true).map (pathJoinRoot pfx) = some r
    rw [h]; exact ⟨_, rfl⟩
  · obtain ⟨a, h⟩ := toServiceMethods_isSome name 46 false
    show ∃ r, (toServiceMethods name 46 false).map (fun s => trimDots (pfx ++ [46] ++ s)) = some r
    rw [h]; exact ⟨_, rfl⟩

/-! ### association lists -/

theorem find_none_iff (n : Name) : ∀ t : Table, find n t = none ↔ n ∉ keys t
  | [] => by simp [find, keys]
  | (k, h) :: t => by
    have ih := find_none_iff n t
    unfold find
    by_cases e : n = k
    · simp [e, keys]
    · simp only [e, if_false, ih]
      simp [keys, e]

theorem find_some_mem {n : Name} {h : Hid} : ∀ {t : Table}, find n t = some h → (n, h) ∈ t
  | [], e => by simp [find] at e
  | (k, h') :: t, e => by
    unfold find at e
    by_cases c : n = k
    · simp only [c, if_true, Option.some.injEq] at e
      subst e; subst c; simp
    · simp only [c, if_false] at e
      exact List.mem_cons_of_mem _ (find_some_mem e)

theorem mem_keys_of_mem {n : Name} {h : Hid} {t : Table} (m : (n, h) ∈ t) : n ∈ keys t :=
  List.mem_map.mpr ⟨(n, h), m, rfl⟩

theorem mem_find_of_nodup {n : Name} {h : Hid} : ∀ {t : Table}, (keys t).Nodup → (n, h) ∈ t → find n t = some h
  | [], _, m => by simp at m
  | (k, h') :: t, nd, m => by
    have nd' : k ∉ keys t ∧ (keys t).Nodup := by simpa [keys] using nd
    unfold find
    rcases List.mem_cons.mp m with e | m'
    · cases e; simp
    · have : n ≠ k := by
        intro e; subst e; exact nd'.1 (mem_keys_of_mem m')
      simp only [this, if_false]
      exact mem_find_of_nodup nd'.2 m'

theorem find_iff_mem {n : Name} {h : Hid} {t : Table} (nd : (keys t).Nodup) :
    find n t = some h ↔ (n, h) ∈ t := ⟨find_some_mem, mem_find_of_nodup nd⟩

theorem nodup_reverse' {l : List Name} (h : l.Nodup) : l.reverse.Nodup := by
  unfold List.Nodup at *
  rw [List.pairwise_reverse]
  exact h.imp (fun h e => h e.symm)

theorem keys_append (a b : Table) : keys (a ++ b) = keys a ++ keys b := by simp [keys]
theorem keys_reverse (a : Table) : keys a.reverse = (keys a).reverse := by simp [keys]

/-- looking up a name that the new bindings do not mention sees the old table. -/
theorem find_append_of_not_mem {n : Name} : ∀ {a : Table} (b : Table), n ∉ keys a → find n (a ++ b) = find n b
  | [], _, _ => rfl
  | (k, h) :: a, b, nm => by
    have : n ≠ k ∧ n ∉ keys a := by simpa [keys] using nm
    have e : find n ((k, h) :: (a ++ b)) = find n (a ++ b) := by simp [find, this.1]
    rw [List.cons_append, e]
    exact find_append_of_not_mem b this.2

/-! ### the `reg` loop -/

/-- exact specification of the loop: it succeeds iff the new names are pairwise distinct and none
    is in the table; then it returns exactly the new names, in order, and the table gained exactly
    the new bindings. -/
theorem regLoop_ok_iff : ∀ (hs : List (Name × Hid)) (t : Table) (names : List Name) (t' : Table) (names' : List Name),
    regLoop t hs names = .ok (t', names') ↔
      ((keys hs).Nodup ∧ (∀ n ∈ keys hs, n ∉ keys t) ∧ t' = hs.reverse ++ t ∧ names' = names ++ keys hs)
  | [], t, names, t', names' => by
    simp only [regLoop, keys, List.map_nil, List.nodup_nil, List.not_mem_nil, false_imp_iff, implies_true,
      List.reverse_nil, List.nil_append, List.append_nil, true_and, Except.ok.injEq, Prod.mk.injEq]
    constructor
    · rintro ⟨rfl, rfl⟩; exact ⟨rfl, rfl⟩
    · rintro ⟨rfl, rfl⟩; exact ⟨rfl, rfl⟩
  | (n, h) :: hs, t, names, t', names' => by
    unfold regLoop
    cases hf : find n t with
    | some x =>
      have hin : n ∈ keys t := by
        by_cases c : n ∈ keys t
        · exact c
        · rw [(find_none_iff n t).mpr c] at hf; cases hf
      simp only [reduceCtorEq, false_iff, not_and]
      intro _ hfresh
      exact absurd hin (hfresh n (by simp [keys]))
    | none =>
      have hnin : n ∉ keys t := (find_none_iff n t).mp hf
      simp only
      rw [regLoop_ok_iff hs ((n, h) :: t) (names ++ [n]) t' names']
      simp only [keys, List.map_cons, List.nodup_cons, List.mem_cons, List.reverse_cons, List.append_assoc,
        List.cons_append, List.nil_append, forall_eq_or_imp, not_or]
      constructor
      · rintro ⟨nd, fresh, rfl, rfl⟩
        refine ⟨⟨?_, nd⟩, ⟨hnin, ?_⟩, rfl, rfl⟩
        · intro hm; exact (fresh n hm).1 rfl
        · intro m hm; exact (fresh m hm).2
      · rintro ⟨⟨nn, nd⟩, ⟨_, fresh⟩, rfl, rfl⟩
        refine ⟨nd, ?_, rfl, rfl⟩
        intro m hm
        exact ⟨by intro e; subst e; exact nn hm, fresh m hm⟩

/-- the loop never fails in any other way than the conflict exit, and the conflicting name is one of
    the names being registered. -/
theorem regLoop_error : ∀ (hs : List (Name × Hid)) (t : Table) (names : List Name) (e : Err),
    regLoop t hs names = .error e → ∃ n, e = .conflict n ∧ n ∈ keys hs
  | [], _, _, _, h => by simp [regLoop] at h
  | (n, x) :: hs, t, names, e, h => by
    unfold regLoop at h
    cases hf : find n t with
    | some y =>
      simp only [hf, Except.error.injEq] at h
      exact ⟨n, h.symm, by simp [keys]⟩
    | none =>
      simp only [hf] at h
      obtain ⟨m, em, hm⟩ := regLoop_error hs _ _ e h
      exact ⟨m, em, by simp only [keys, List.map_cons, List.mem_cons]; exact Or.inr hm⟩

/-! ### the state invariant -/

/-- each route table holds every name at most once (it is a function name ↦ handler). -/
def SInv (s : State) : Prop := (keys s.call).Nodup ∧ (keys s.push).Nodup

theorem SInv.tbl {s : State} (h : SInv s) (k : Kind) : (keys (s.tbl k)).Nodup := by
  cases k
  · exact h.1
  · exact h.2

@[simp] theorem tbl_setTbl_same (s : State) (k : Kind) (t : Table) : (s.setTbl k t).tbl k = t := by
  cases k <;> rfl
@[simp] theorem tbl_setTbl_other (s : State) (k : Kind) (t : Table) : (s.setTbl k t).tbl k.other = s.tbl k.other := by
  cases k <;> rfl
@[simp] theorem unk_setTbl (s : State) (k k' : Kind) (t : Table) : (s.setTbl k t).unk k' = s.unk k' := by
  cases k <;> cases k' <;> rfl
@[simp] theorem groups_setTbl (s : State) (k : Kind) (t : Table) : (s.setTbl k t).groups = s.groups := by
  cases k <;> rfl
@[simp] theorem mkind_setTbl (s : State) (k : Kind) (t : Table) : (s.setTbl k t).mkind = s.mkind := by
  cases k <;> rfl
@[simp] theorem tbl_setUnk (s : State) (k k' : Kind) (h : Hid) : (s.setUnk k h).tbl k' = s.tbl k' := by
  cases k <;> cases k' <;> rfl
@[simp] theorem unk_setUnk_same (s : State) (k : Kind) (h : Hid) : (s.setUnk k h).unk k = some h := by
  cases k <;> rfl
@[simp] theorem unk_setUnk_other (s : State) (k : Kind) (h : Hid) : (s.setUnk k h).unk k.other = s.unk k.other := by
  cases k <;> rfl

theorem kind_eq_or_other (k k' : Kind) : k' = k ∨ k' = k.other := by
  cases k <;> cases k' <;> simp [Kind.other]

theorem other_ne (k : Kind) : k.other ≠ k := by cases k <;> simp [Kind.other]

/-- specification of `reg`. -/
theorem reg_ok_iff (s : State) (k : Kind) (hs : List (Name × Hid)) (s' : State) (names : List Name) :
    reg s k hs = .ok (s', names) ↔
      ((keys hs).Nodup ∧ (∀ n ∈ keys hs, n ∉ keys (s.tbl k)) ∧
        s' = s.setTbl k (hs.reverse ++ s.tbl k) ∧ names = keys hs) := by
  unfold reg
  cases h : regLoop (s.tbl k) hs [] with
  | error e =>
    simp only [reduceCtorEq, false_iff]
    rintro ⟨nd, fresh, _, _⟩
    have := (regLoop_ok_iff hs (s.tbl k) [] (hs.reverse ++ s.tbl k) ([] ++ keys hs)).mpr ⟨nd, fresh, rfl, rfl⟩
    rw [h] at this; cases this
  | ok r =>
    obtain ⟨t, ns⟩ := r
    have := (regLoop_ok_iff hs (s.tbl k) [] t ns).mp h
    obtain ⟨nd, fresh, rfl, rfl⟩ := this
    simp only [Except.ok.injEq, Prod.mk.injEq, List.nil_append]
    constructor
    · rintro ⟨rfl, rfl⟩; exact ⟨nd, fresh, rfl, rfl⟩
    · rintro ⟨_, _, rfl, rfl⟩; exact ⟨rfl, rfl⟩

theorem reg_error (s : State) (k : Kind) (hs : List (Name × Hid)) (e : Err) (h : reg s k hs = .error e) :
    ∃ n, e = .conflict n ∧ n ∈ keys hs := by
  unfold reg at h
  cases hr : regLoop (s.tbl k) hs [] with
  | error e' =>
    simp only [hr, Except.error.injEq] at h
    subst h
    exact regLoop_error hs _ _ _ hr
  | ok r => obtain ⟨t, ns⟩ := r; simp [hr] at h

theorem reg_SInv {s s' : State} {k : Kind} {hs : List (Name × Hid)} {names : List Name}
    (inv : SInv s) (h : reg s k hs = .ok (s', names)) : SInv s' := by
  obtain ⟨nd, fresh, rfl, _⟩ := (reg_ok_iff s k hs s' names).mp h
  have key : (keys (hs.reverse ++ s.tbl k)).Nodup := by
    rw [keys_append, keys_reverse]
    refine List.nodup_append.mpr ⟨nodup_reverse' nd, inv.tbl k, ?_⟩
    intro a ha b hb e
    subst e
    exact fresh a (List.mem_reverse.mp ha) hb
  cases k
  · exact ⟨key, inv.2⟩
  · exact ⟨inv.1, key⟩

/-- the handler ids of `structNames` are those of the method list, in order. -/
theorem structNames_snd (mk : MapperKind) (pfx sname : Name) :
    ∀ (ms hs : List (Name × Hid)), structNames mk pfx sname ms = some hs → hs.map (·.2) = ms.map (·.2)
  | [], hs, h => by simp [structNames] at h; subst h; rfl
  | (m, x) :: ms, hs, h => by
    unfold structNames at h
    cases hp : mapper mk pfx sname with
    | none => simp [hp] at h
    | some p =>
      simp only [hp] at h
      cases hn : mapper mk p m with
      | none => simp [hn] at h
      | some n =>
        cases hr : structNames mk pfx sname ms with
        | none => simp [hn, hr] at h
        | some r =>
          simp only [hn, hr, Option.some.injEq] at h
          subst h
          simp [structNames_snd mk pfx sname ms r hr]

/-- the handler list handed to `reg` by a route operation, if the operation is one. -/
def opHandlers (s : State) : Op → Option (Kind × List (Name × Hid))
  | .routeStruct k g sname ms => (s.groups[g]?).bind (fun pfx => (structNames s.mkind pfx sname ms).map (fun hs => (k, hs)))
  | .routeFunc k g fname h => (s.groups[g]?).bind (fun pfx => (mapper s.mkind pfx fname).map (fun n => (k, [(n, h)])))
  | _ => none

/-- every successful step is: a `reg` of the operation's handler list, or a change that leaves both
    tables alone. -/
theorem step_cases {s s' : State} {op : Op} {names : List Name} (h : step s op = .ok (s', names)) :
    (∃ k hs, opHandlers s op = some (k, hs) ∧ reg s k hs = .ok (s', names)) ∨
    (opHandlers s op = none ∧ names = [] ∧ s'.call = s.call ∧ s'.push = s.push ∧
      (∀ k, s'.unk k = s.unk k ∨ ∃ g u, op = .setUnknown k g u ∧ s'.unk k = some u)) := by
  cases op with
  | subRoute parent pfx =>
    right
    simp only [step] at h
    cases hg : s.groups[parent]? with
    | none => simp [hg] at h
    | some pp =>
      simp only [hg] at h
      cases hm : mapper s.mkind pp pfx with
      | none => simp [hm] at h
      | some p =>
        simp only [hm, Except.ok.injEq, Prod.mk.injEq] at h
        obtain ⟨rfl, rfl⟩ := h
        exact ⟨rfl, rfl, rfl, rfl, fun k => Or.inl (by cases k <;> rfl)⟩
  | routeStruct k g sname ms =>
    left
    simp only [step] at h
    cases hg : s.groups[g]? with
    | none => simp [hg] at h
    | some pfx =>
      simp only [hg] at h
      cases hn : structNames s.mkind pfx sname ms with
      | none => simp [hn] at h
      | some hs =>
        simp only [hn] at h
        exact ⟨k, hs, by simp [opHandlers, hg, hn], h⟩
  | routeFunc k g fname x =>
    left
    simp only [step] at h
    cases hg : s.groups[g]? with
    | none => simp [hg] at h
    | some pfx =>
      simp only [hg] at h
      cases hn : mapper s.mkind pfx fname with
      | none => simp [hn] at h
      | some n =>
        simp only [hn] at h
        exact ⟨k, [(n, x)], by simp [opHandlers, hg, hn], h⟩
  | setUnknown k g u =>
    right
    simp only [step] at h
    cases hg : s.groups[g]? with
    | none => simp [hg] at h
    | some pfx =>
      simp only [hg, Except.ok.injEq, Prod.mk.injEq] at h
      obtain ⟨rfl, rfl⟩ := h
      refine ⟨rfl, rfl, by cases k <;> rfl, by cases k <;> rfl, ?_⟩
      intro k'
      rcases kind_eq_or_other k k' with e | e
      · subst e; exact Or.inr ⟨g, u, rfl, by simp⟩
      · subst e; exact Or.inl (by simp)

/-- a route operation is `reg` applied to its handler list. -/
theorem step_eq_reg {s : State} {op : Op} {k : Kind} {hs : List (Name × Hid)}
    (h : opHandlers s op = some (k, hs)) : step s op = reg s k hs := by
  cases op with
  | subRoute _ _ => simp [opHandlers] at h
  | setUnknown _ _ _ => simp [opHandlers] at h
  | routeStruct k' g sname ms =>
    simp only [opHandlers] at h
    cases hg : s.groups[g]? with
    | none => simp [hg] at h
    | some pfx =>
      cases hn : structNames s.mkind pfx sname ms with
      | none => simp [hg, hn] at h
      | some hs' =>
        simp only [hg, hn, Option.bind_some, Option.map_some, Option.some.injEq, Prod.mk.injEq] at h
        obtain ⟨rfl, rfl⟩ := h
        simp [step, hg, hn]
  | routeFunc k' g fname x =>
    simp only [opHandlers] at h
    cases hg : s.groups[g]? with
    | none => simp [hg] at h
    | some pfx =>
      cases hn : mapper s.mkind pfx fname with
      | none => simp [hg, hn] at h
      | some n =>
        simp only [hg, hn, Option.bind_some, Option.map_some, Option.some.injEq, Prod.mk.injEq] at h
        obtain ⟨rfl, rfl⟩ := h
        simp [step, hg, hn]

theorem step_SInv {s s' : State} {op : Op} {names : List Name} (inv : SInv s)
    (h : step s op = .ok (s', names)) : SInv s' := by
  rcases step_cases h with ⟨k, hs, _, hr⟩ | ⟨_, _, hc, hp, _⟩
  · exact reg_SInv inv hr
  · unfold SInv; rw [hc, hp]; exact inv

theorem run_SInv : ∀ (ops : List Op) {s s' : State} {rets : List (List Name)}, SInv s →
    run s ops = .ok (s', rets) → SInv s'
  | [], s, s', rets, inv, h => by
    simp only [run, Except.ok.injEq, Prod.mk.injEq] at h
    obtain ⟨rfl, _⟩ := h; exact inv
  | op :: ops, s, s', rets, inv, h => by
    unfold run at h
    cases hs : step s op with
    | error e => simp [hs] at h
    | ok r =>
      obtain ⟨s1, names⟩ := r
      simp only [hs] at h
      cases hr : run s1 ops with
      | error e => simp [hr] at h
      | ok r2 =>
        obtain ⟨s2, rets2⟩ := r2
        simp only [hr, Except.ok.injEq, Prod.mk.injEq] at h
        obtain ⟨rfl, _⟩ := h
        exact run_SInv ops (step_SInv inv hs) hr

theorem init_SInv {mk : MapperKind} {s : State} (h : init mk = .ok s) : SInv s := by
  unfold init at h
  cases hm : mapper mk [] [] with
  | none => simp [hm] at h
  | some p =>
    simp only [hm, Except.ok.injEq] at h
    subst h
    exact ⟨List.nodup_nil, List.nodup_nil⟩

/-! ### whole histories: what the tables and the unknown slots hold, in terms of what was returned -/

/-- ASCII text as bytes (for stating the documented table). -/
def asc (s : String) : Bytes := s.toList.map (fun c => c.toNat.toUInt8)

/-- handler ids an operation registers in namespace `k`, in the order of the names it returns. -/
def Op.hids (k : Kind) : Op → List Hid
  | .routeStruct k' _ _ ms => if k' = k then ms.map (·.2) else []
  | .routeFunc k' _ _ h => if k' = k then [h] else []
  | _ => []

/-- the namespace an operation can affect, if any. -/
def Op.kind? : Op → Option Kind
  | .routeStruct k .. => some k
  | .routeFunc k .. => some k
  | .setUnknown k .. => some k
  | .subRoute .. => none

/-- (returned name, handler) pairs of a whole history in namespace `k`: the i-th name returned by an
    operation paired with its i-th handler. -/
def regPairs (k : Kind) : List Op → List (List Name) → List (Name × Hid)
  | op :: ops, names :: rets => names.zip (op.hids k) ++ regPairs k ops rets
  | _, _ => []

/-- effect of one operation on the unknown-handler slot that dispatch reads: a `SetUnknown*` of that
    namespace through ANY router of the peer replaces it. -/
def unkStep (k : Kind) (cur : Option Hid) : Op → Option Hid
  | .setUnknown k' _ u => if k' = k then some u else cur
  | _ => cur

theorem zip_keys_snd : ∀ hs : List (Name × Hid), (keys hs).zip (hs.map (·.2)) = hs
  | [] => rfl
  | (n, h) :: hs => by simp [keys]; exact zip_keys_snd hs

theorem opHandlers_hids {s : State} {op : Op} {k0 : Kind} {hs : List (Name × Hid)}
    (h : opHandlers s op = some (k0, hs)) (k : Kind) :
    op.hids k = if k0 = k then hs.map (·.2) else [] := by
  cases op with
  | subRoute _ _ => simp [opHandlers] at h
  | setUnknown _ _ _ => simp [opHandlers] at h
  | routeStruct k' g sname ms =>
    simp only [opHandlers] at h
    cases hg : s.groups[g]? with
    | none => simp [hg] at h
    | some pfx =>
      simp only [hg, Option.bind_some] at h
      cases hn : structNames s.mkind pfx sname ms with
      | none => simp [hn] at h
      | some hs' =>
        simp only [hn, Option.map_some, Option.some.injEq, Prod.mk.injEq] at h
        obtain ⟨rfl, rfl⟩ := h
        simp only [Op.hids, structNames_snd _ _ _ _ _ hn]
  | routeFunc k' g fname x =>
    simp only [opHandlers] at h
    cases hg : s.groups[g]? with
    | none => simp [hg] at h
    | some pfx =>
      simp only [hg, Option.bind_some] at h
      cases hn : mapper s.mkind pfx fname with
      | none => simp [hn] at h
      | some n =>
        simp only [hn, Option.map_some, Option.some.injEq, Prod.mk.injEq] at h
        obtain ⟨rfl, rfl⟩ := h
        simp [Op.hids]

theorem opHandlers_kind {s : State} {op : Op} {k0 : Kind} {hs : List (Name × Hid)}
    (h : opHandlers s op = some (k0, hs)) : op.kind? = some k0 := by
  cases op with
  | subRoute _ _ => simp [opHandlers] at h
  | setUnknown _ _ _ => simp [opHandlers] at h
  | routeStruct k' g sname ms =>
    simp only [opHandlers] at h
    cases hg : s.groups[g]? with
    | none => simp [hg] at h
    | some pfx =>
      cases hn : structNames s.mkind pfx sname ms with
      | none => simp [hg, hn] at h
      | some hs' =>
        simp only [hg, hn, Option.bind_some, Option.map_some, Option.some.injEq, Prod.mk.injEq] at h
        simp [Op.kind?, h.1]
  | routeFunc k' g fname x =>
    simp only [opHandlers] at h
    cases hg : s.groups[g]? with
    | none => simp [hg] at h
    | some pfx =>
      cases hn : mapper s.mkind pfx fname with
      | none => simp [hg, hn] at h
      | some n =>
        simp only [hg, hn, Option.bind_some, Option.map_some, Option.some.injEq, Prod.mk.injEq] at h
        simp [Op.kind?, h.1]

/-- one step: the table of namespace `k` gains exactly the (returned name, handler) pairs. -/
theorem step_tbl_mem {s s' : State} {op : Op} {names : List Name} (h : step s op = .ok (s', names))
    (k : Kind) (p : Name × Hid) : p ∈ s'.tbl k ↔ p ∈ names.zip (op.hids k) ∨ p ∈ s.tbl k := by
  rcases step_cases h with ⟨k0, hs, ho, hr⟩ | ⟨ho, hn, hc, hp, _⟩
  · obtain ⟨_, _, rfl, rfl⟩ := (reg_ok_iff s k0 hs s' names).mp hr
    rw [opHandlers_hids ho k]
    rcases kind_eq_or_other k0 k with e | e
    · subst e
      simp only [if_true, zip_keys_snd, tbl_setTbl_same, List.mem_append, List.mem_reverse]
    · subst e
      simp [(other_ne k0).symm]
  · subst hn
    have : s'.tbl k = s.tbl k := by cases k <;> simp [State.tbl, hc, hp]
    simp [this]

theorem run_tbl_mem : ∀ (ops : List Op) {s s' : State} {rets : List (List Name)},
    run s ops = .ok (s', rets) → ∀ (k : Kind) (p : Name × Hid),
      p ∈ s'.tbl k ↔ p ∈ regPairs k ops rets ∨ p ∈ s.tbl k
  | [], s, s', rets, h, k, p => by
    simp only [run, Except.ok.injEq, Prod.mk.injEq] at h
    obtain ⟨rfl, rfl⟩ := h
    simp [regPairs]
  | op :: ops, s, s', rets, h, k, p => by
    unfold run at h
    cases hs : step s op with
    | error e => simp [hs] at h
    | ok r =>
      obtain ⟨s1, names⟩ := r
      simp only [hs] at h
      cases hr : run s1 ops with
      | error e => simp [hr] at h
      | ok r2 =>
        obtain ⟨s2, rets2⟩ := r2
        simp only [hr, Except.ok.injEq, Prod.mk.injEq] at h
        obtain ⟨rfl, rfl⟩ := h
        rw [run_tbl_mem ops hr k p, step_tbl_mem hs k p]
        simp only [regPairs, List.mem_append]
        constructor
        · rintro (a | a | a)
          · exact Or.inl (Or.inr a)
          · exact Or.inl (Or.inl a)
          · exact Or.inr a
        · rintro ((a | a) | a)
          · exact Or.inr (Or.inl a)
          · exact Or.inl a
          · exact Or.inr (Or.inr a)

theorem step_unk {s s' : State} {op : Op} {names : List Name} (h : step s op = .ok (s', names))
    (k : Kind) : s'.unk k = unkStep k (s.unk k) op := by
  rcases step_cases h with ⟨k0, hs, ho, hr⟩ | ⟨_, _, _, _, hu⟩
  · obtain ⟨_, _, rfl, _⟩ := (reg_ok_iff s k0 hs s' names).mp hr
    cases op <;> simp [opHandlers] at ho <;> simp [unkStep]
  · cases op with
    | setUnknown k' g u =>
      simp only [step] at h
      cases hg : s.groups[g]? with
      | none => simp [hg] at h
      | some pfx =>
        simp only [hg, Except.ok.injEq, Prod.mk.injEq] at h
        obtain ⟨rfl, _⟩ := h
        rcases kind_eq_or_other k' k with e | e
        · subst e; simp [unkStep]
        · subst e; simp [unkStep, (other_ne k').symm]
    | subRoute a b =>
      rcases hu k with e | ⟨_, u, e, _⟩
      · simpa [unkStep] using e
      · cases e
    | routeStruct a b c d =>
      rcases hu k with e | ⟨_, u, e, _⟩
      · simpa [unkStep] using e
      · cases e
    | routeFunc a b c d =>
      rcases hu k with e | ⟨_, u, e, _⟩
      · simpa [unkStep] using e
      · cases e

theorem run_unk : ∀ (ops : List Op) {s s' : State} {rets : List (List Name)},
    run s ops = .ok (s', rets) → ∀ k, s'.unk k = ops.foldl (unkStep k) (s.unk k)
  | [], s, s', rets, h, k => by
    simp only [run, Except.ok.injEq, Prod.mk.injEq] at h
    obtain ⟨rfl, _⟩ := h; rfl
  | op :: ops, s, s', rets, h, k => by
    unfold run at h
    cases hs : step s op with
    | error e => simp [hs] at h
    | ok r =>
      obtain ⟨s1, names⟩ := r
      simp only [hs] at h
      cases hr : run s1 ops with
      | error e => simp [hr] at h
      | ok r2 =>
        obtain ⟨s2, rets2⟩ := r2
        simp only [hr, Except.ok.injEq, Prod.mk.injEq] at h
        obtain ⟨rfl, _⟩ := h
        rw [run_unk ops hr k, step_unk hs k]; rfl

end Router
end Teleport
