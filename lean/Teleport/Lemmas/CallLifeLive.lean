/-
Lemmas/CallLifeLive — the global invariant of the call life-cycle transition system (Model/CallLife)
behind the "connection lost" and "session closed" disjuncts of C02_no_stuck:

  * the status word never returns to Ok once the reader is on the disconnect path past its
    compare-and-swap (`couple`: which status values go with which reader program counter);
  * every call whose request write succeeded and that is not completed (`pend`) is still in the
    pending table (`XInv.tbl`), hence in the Range snapshot of the cancel loop; while the loop runs it is
    the entry being visited or one that is still to be visited (`allowed`); after the loop there is none;
  * a visited call is completed (its stat is OK and it has no reply, `XInv.st0` + `CInv.replied`);
  * `Close` leaves `callWait` only when every call is completed (`GInv.ac`), and a call that is written
    later fails its status check (`write … .refused`), so it never becomes `pend`.

`quiescent_done`: in a state that satisfies the invariants, has no enabled internal step and whose
connection is lost or whose socket is closed, every call is completed.
-/
import Teleport.Lemmas.CallLife
namespace Teleport.CallLife
set_option linter.unusedSimpArgs false
set_option linter.unusedVariables false

/-! ## definitions -/

/-- the caller is past a successful write (or past its own `done()`), and the call is not completed:
    only a reply, the cancel loop, or nothing will complete it. -/
def pend (c : Call) : Prop := c.doneCount = 0 ∧ (c.pc = .written ∨ c.pc = .unlocking ∨ c.pc = .returned)

/-- per-call facts on top of `CInv`. -/
structure XInv (c : Call) : Prop where
  tbl : c.doneCount = 0 → c.pc ≠ .locked → c.inTable = true
  st0 : c.doneCount = 0 → c.pc ≠ .failing → c.stat = 0
  ret : c.pc = .returned → c.mu ≠ .caller

def SS.pre : SS → Bool
  | .ok | .activeClosing | .activeClosed => true
  | _ => false

def SS.isAct : SS → Bool
  | .activeClosing | .activeClosed => true
  | _ => false

def SS.isPC : SS → Bool
  | .passiveClosing => true
  | _ => false

def SS.post : SS → Bool
  | .activeClosing | .activeClosed | .passiveClosed => true
  | _ => false

/-- which status values can go with which program counter of the reader. -/
def couple : RPc → SS → Bool
  | .reading, st => st.pre
  | .bindWait _ _ _, st => st.pre
  | .discLoad, st => st.pre
  | .discStore, st => st.pre
  | .discCtxWait a, st => if a then st.isAct else st.isPC
  | .discLoop a _, st => if a then st.isAct else st.isPC
  | .discLock a _ _, st => if a then st.isAct else st.isPC
  | .discFinish, st => st.isPC
  | .stopped, st => st.post

/-- the call index the reader holds. -/
def rpcIdx : RPc → Option Nat
  | .bindWait i _ _ => some i
  | .discLock _ i _ => some i
  | _ => none

/-- where a written, uncompleted call may be while the reader is at `r`. -/
def allowed : RPc → Nat → Prop
  | .discLoop _ todo, j => j ∈ todo
  | .discLock _ i todo, j => j = i ∨ j ∈ todo
  | .discFinish, _ => False
  | .stopped, _ => False
  | _, _ => True

structure GInv (s : State) : Prop where
  cpl : couple s.rpc s.status = true
  cw : (s.cpc = .ctxWait ∨ s.cpc = .callWait) → s.status = .activeClosing
  sock : s.status.closed = true → s.sockClosed = true
  idx : ∀ i, rpcIdx s.rpc = some i → i < s.calls.length
  cov : ∀ (j : Nat) (c : Call), s.calls[j]? = some c → pend c → allowed s.rpc j
  ac : s.status = .activeClosed → ∀ (j : Nat) (c : Call), s.calls[j]? = some c → ¬ pend c
  xs : ∀ (j : Nat) (c : Call), s.calls[j]? = some c → XInv c

/-! ## helpers -/

theorem getElem?_append_one_cases {α} (l : List α) (j : Nat) (a d : α) (h : (l ++ [a])[j]? = some d) :
    l[j]? = some d ∨ (j = l.length ∧ d = a) := by
  rw [List.getElem?_append] at h
  split at h
  · exact Or.inl h
  · right
    cases hk : j - l.length with
    | zero => rw [hk] at h; simp at h; exact ⟨by omega, h.symm⟩
    | succ n => rw [hk] at h; simp at h

theorem lt_of_getElem? {α} {l : List α} {j : Nat} {a : α} (h : l[j]? = some a) : j < l.length := by
  rcases Nat.lt_or_ge j l.length with h1 | h1
  · exact h1
  · rw [List.getElem?_eq_none h1] at h; cases h

theorem couple_ok_allowed {r : RPc} (h : couple r .ok = true) (j : Nat) : allowed r j := by
  cases r with
  | discCtxWait a => trivial
  | discLoop a t => cases a <;> simp [couple, SS.isAct, SS.isPC] at h
  | discLock a i t => cases a <;> simp [couple, SS.isAct, SS.isPC] at h
  | discFinish => simp [couple, SS.isPC] at h
  | stopped => simp [couple, SS.post] at h
  | _ => trivial

theorem couple_ok_act {r : RPc} (h : couple r .ok = true) : couple r .activeClosing = true := by
  cases r with
  | discCtxWait a => cases a <;> simp [couple, SS.isAct, SS.isPC] at h
  | discLoop a t => cases a <;> simp [couple, SS.isAct, SS.isPC] at h
  | discLock a i t => cases a <;> simp [couple, SS.isAct, SS.isPC] at h
  | discFinish => simp [couple, SS.isPC] at h
  | stopped => rfl
  | _ => rfl

theorem couple_act_acd {r : RPc} (h : couple r .activeClosing = true) : couple r .activeClosed = true := by
  cases r with
  | discCtxWait a => cases a <;> first | rfl | simp [couple, SS.isAct, SS.isPC] at h
  | discLoop a t => cases a <;> first | rfl | simp [couple, SS.isAct, SS.isPC] at h
  | discLock a i t => cases a <;> first | rfl | simp [couple, SS.isAct, SS.isPC] at h
  | discFinish => simp [couple, SS.isPC] at h
  | stopped => rfl
  | _ => rfl

theorem isAct_post {st : SS} (h : st.isAct = true) : st.post = true := by
  cases st <;> first | rfl | simp [SS.isAct] at h

theorem mem_tableIdx {l : List Call} {j : Nat} {c : Call} (n : Nat) (h : l[j]? = some c) (ht : c.inTable = true) :
    j + n ∈ tableIdx l n := by
  induction l generalizing j n with
  | nil => simp at h
  | cons a r ih =>
    cases j with
    | zero =>
      simp at h; subst h
      simp [tableIdx, ht]
    | succ k =>
      simp at h
      have := ih (n + 1) h
      have e : k + 1 + n = k + (n + 1) := by omega
      simp only [tableIdx]
      split
      · rw [e]; exact List.mem_cons_of_mem _ this
      · rw [e]; exact this

theorem lookup_lt {s : State} {seq i : Nat} (h : s.lookup seq = some i) : i < s.calls.length := by
  unfold State.lookup at h
  split at h
  · cases h
  · split at h
    · rename_i c hc
      split at h
      · cases h; exact lt_of_getElem? hc
      · cases h
    · cases h

/-- a step that replaces call `i` by `c'` and may move the reader. -/
theorem ginv_gen {s t : State} {i : Nat} {c c' : Call} (g : GInv s)
    (hci : s.calls[i]? = some c) (hcalls : t.calls = s.calls.set i c')
    (hst : t.status = s.status) (hcpc : t.cpc = s.cpc) (hsock : t.sockClosed = s.sockClosed)
    (hcpl : couple t.rpc s.status = true)
    (hidx : ∀ k, rpcIdx t.rpc = some k → k < s.calls.length)
    (hx : XInv c')
    (hp : pend c' → pend c ∨ s.status = .ok)
    (hi : pend c' → allowed t.rpc i)
    (hcov : ∀ (j : Nat) (d : Call), s.calls[j]? = some d → j ≠ i → pend d → allowed t.rpc j) : GInv t := by
  refine ⟨by rw [hst]; exact hcpl, by rw [hst, hcpc]; exact g.cw, by rw [hst, hsock]; exact g.sock, ?_, ?_, ?_, ?_⟩
  · intro k hk; rw [hcalls, List.length_set]; exact hidx k hk
  · intro j d hd hpd
    rw [hcalls] at hd
    rcases getElem?_set_cases _ _ _ _ _ hd with ⟨rfl, rfl⟩ | ⟨hne, h2⟩
    · exact hi hpd
    · exact hcov j d h2 hne hpd
  · intro hac j d hd hpd
    rw [hst] at hac
    rw [hcalls] at hd
    rcases getElem?_set_cases _ _ _ _ _ hd with ⟨rfl, rfl⟩ | ⟨hne, h2⟩
    · rcases hp hpd with h | h
      · exact g.ac hac _ _ hci h
      · rw [hac] at h; cases h
    · exact g.ac hac j d h2 hpd
  · rw [hcalls]; exact forall_set g.xs hx

/-- a step of a caller or a handler: call `i` replaced, the reader stays. -/
theorem ginv_upd {s t : State} {i : Nat} {c c' : Call} (g : GInv s)
    (hci : s.calls[i]? = some c) (hcalls : t.calls = s.calls.set i c') (hrpc : t.rpc = s.rpc)
    (hst : t.status = s.status) (hcpc : t.cpc = s.cpc) (hsock : t.sockClosed = s.sockClosed)
    (hx : XInv c')
    (hp : pend c' → pend c ∨ s.status = .ok) : GInv t := by
  refine ginv_gen g hci hcalls hst hcpc hsock (by rw [hrpc]; exact g.cpl) (by rw [hrpc]; exact g.idx) hx hp ?_ ?_
  · intro hpd
    rw [hrpc]
    rcases hp hpd with h | h
    · exact g.cov i c hci h
    · have := g.cpl; rw [h] at this; exact couple_ok_allowed this i
  · intro j d hd _ hpd; rw [hrpc]; exact g.cov j d hd hpd

/-- a step that leaves calls, status, closer alone and moves the reader. -/
theorem ginv_rpc {s t : State} (g : GInv s) (hcalls : t.calls = s.calls)
    (hst : t.status = s.status) (hcpc : t.cpc = s.cpc) (hsock : t.sockClosed = s.sockClosed)
    (hcpl : couple t.rpc s.status = true)
    (hidx : ∀ k, rpcIdx t.rpc = some k → k < s.calls.length)
    (hcov : ∀ (j : Nat) (d : Call), s.calls[j]? = some d → pend d → allowed t.rpc j) : GInv t := by
  refine ⟨by rw [hst]; exact hcpl, by rw [hst, hcpc]; exact g.cw, by rw [hst, hsock]; exact g.sock, ?_, ?_, ?_, ?_⟩
  · rw [hcalls]; exact hidx
  · rw [hcalls]; exact hcov
  · rw [hst, hcalls]; exact g.ac
  · rw [hcalls]; exact g.xs

theorem ginv_init : GInv State.init := by
  refine ⟨rfl, ?_, ?_, ?_, ?_, ?_, ?_⟩ <;> simp [State.init, SS.closed, rpcIdx]

/-! ## preservation, label by label -/

theorem ginv_issue {s t : State} (veto ctxDone tooBig bytesRes : Bool) (cap : Nat) (g : GInv s)
    (hf : fire s (.issue veto ctxDone tooBig bytesRes cap) = some t) : GInv t := by
  unfold fire at hf
  split at hf
  · cases hf
  simp only [] at hf
  split at hf
  · cases hf
  cases hf
  refine ⟨g.cpl, g.cw, g.sock, ?_, ?_, ?_, ?_⟩
  · intro i hi; have := g.idx i hi; simp only [List.length_append, List.length_singleton]; omega
  · intro j c hc hp
    rcases getElem?_append_one_cases _ _ _ _ hc with h | ⟨_, rfl⟩
    · exact g.cov j c h hp
    · simp [pend, Call.fresh] at hp
  · intro hac j c hc hp
    rcases getElem?_append_one_cases _ _ _ _ hc with h | ⟨_, rfl⟩
    · exact g.ac hac j c h hp
    · simp [pend, Call.fresh] at hp
  · intro j c hc
    rcases getElem?_append_one_cases _ _ _ _ hc with h | ⟨_, rfl⟩
    · exact g.xs j c h
    · constructor <;> simp [Call.fresh]

theorem ginv_frame {s t : State} (f : Frame) (g : GInv s) (hf : fire s (.frame f) = some t) : GInv t := by
  unfold fire at hf
  split at hf
  · cases hf
  simp only [] at hf; cases hf
  exact ginv_rpc g rfl rfl rfl rfl g.cpl g.idx g.cov

theorem ginv_lose {s t : State} (g : GInv s) (hf : fire s .lose = some t) : GInv t := by
  unfold fire at hf
  split at hf
  · cases hf
  simp only [] at hf; cases hf
  exact ginv_rpc g rfl rfl rfl rfl g.cpl g.idx g.cov

theorem ginv_close {s t : State} (g : GInv s) (hf : fire s .close = some t) : GInv t := by
  unfold fire at hf
  split at hf
  · cases hf
  simp only [] at hf
  split at hf
  · split at hf
    · rename_i hst
      cases hf
      refine ⟨?_, fun _ => rfl, ?_, g.idx, g.cov, ?_, g.xs⟩
      · have := g.cpl; rw [hst] at this; exact couple_ok_act this
      · intro h; simp [SS.closed] at h
      · intro h; cases h
    · cases hf
      refine ⟨g.cpl, ?_, g.sock, g.idx, g.cov, g.ac, g.xs⟩
      intro h; simp at h
  · cases hf; exact g

theorem ginv_store {s t : State} (i : Nat) (a : AInv s) (g : GInv s) (hf : fire s (.store i) = some t) : GInv t := by
  unfold fire at hf
  split at hf
  · cases hf
  simp only [] at hf
  split at hf
  · rename_i c hci
    split at hf
    · rename_i hpc
      cases hf
      obtain ⟨x1, x2, x3⟩ := g.xs i c hci
      refine ginv_upd g hci rfl rfl rfl rfl rfl ?_ ?_
      · constructor <;> simp_all
      · intro hp; simp [pend] at hp
    · cases hf
  · cases hf

theorem ginv_prewrite {s t : State} (i : Nat) (a : AInv s) (g : GInv s) (hf : fire s (.prewrite i) = some t) : GInv t := by
  unfold fire at hf
  split at hf
  · cases hf
  simp only [] at hf
  split at hf
  · rename_i c hci
    split at hf
    · rename_i hpc
      cases hf
      obtain ⟨x1, x2, x3⟩ := g.xs i c hci
      refine ginv_upd g hci rfl rfl rfl rfl rfl ?_ ?_
      · split <;> (constructor <;> simp_all)
      · intro hp; split at hp <;> simp [pend] at hp
    · cases hf
  · cases hf

theorem ginv_write {s t : State} (i : Nat) (o : WOut) (a : AInv s) (g : GInv s) (hf : fire s (.write i o) = some t) : GInv t := by
  unfold fire at hf
  split at hf
  · cases hf
  simp only [] at hf
  split at hf
  · rename_i c hci
    have key : ∀ (s' : State) (c' : Call), s'.rpc = s.rpc → s'.status = s.status → s'.cpc = s.cpc →
        s'.sockClosed = s.sockClosed → s'.calls = s.calls →
        c.pc = .writing → ((c' = { c with pc := .written } ∧ s.status = .ok) ∨
          ∃ code, c' = { c with pc := .failing, stat := code }) → GInv (s'.setCall i c') := by
      intro s' c' e1 e2 e3 e4 e5 hpc hc'
      obtain ⟨x1, x2, x3⟩ := g.xs i c hci
      refine ginv_upd (c' := c') g hci (by simp [State.setCall, e5]) e1 e2 e3 e4 ?_ ?_
      · rcases hc' with ⟨rfl, _⟩ | ⟨code, rfl⟩ <;> (constructor <;> simp_all)
      · intro hp
        rcases hc' with ⟨rfl, h⟩ | ⟨code, rfl⟩
        · exact Or.inr h
        · simp [pend] at hp
    split at hf
    · cases hf
    rename_i hpc
    have hpc' : c.pc = .writing := by simpa using hpc
    split at hf
    · split at hf
      · cases hf; exact key s _ rfl rfl rfl rfl rfl hpc' (Or.inr ⟨102, rfl⟩)
      · cases hf
    rename_i hst
    have hst' : s.status = .ok := by simpa using hst
    split at hf
    · split at hf
      · cases hf; exact key s _ rfl rfl rfl rfl rfl hpc' (Or.inr ⟨104, rfl⟩)
      · cases hf
    split at hf
    · split at hf
      · cases hf; exact key s _ rfl rfl rfl rfl rfl hpc' (Or.inr ⟨104, rfl⟩)
      · cases hf
    split at hf
    · cases hf; exact key s _ rfl rfl rfl rfl rfl hpc' (Or.inl ⟨rfl, hst'⟩)
    · cases hf; exact key _ _ rfl rfl rfl rfl rfl hpc' (Or.inr ⟨104, rfl⟩)
    · rename_i code
      split at hf
      · cases hf
        exact key s _ rfl rfl rfl rfl rfl hpc' (Or.inr ⟨code, rfl⟩)
      · cases hf
    · cases hf
  · cases hf

theorem ginv_failDone {s t : State} (i : Nat) (a : AInv s) (g : GInv s) (hf : fire s (.failDone i) = some t) : GInv t := by
  unfold fire at hf
  split at hf
  · cases hf
  simp only [] at hf
  split at hf
  · rename_i c hci
    split at hf
    · rename_i hpc
      have ci := a.2 i c hci
      have hd0 : c.doneCount = 0 := ci.pre (Or.inr (Or.inr (Or.inr hpc)))
      rw [complete_first hd0] at hf
      cases hf
      refine ginv_upd g hci rfl rfl rfl rfl rfl ?_ ?_
      · constructor <;> simp
      · intro hp; simp [pend] at hp
    · cases hf
  · cases hf

theorem ginv_unlock {s t : State} (i : Nat) (a : AInv s) (g : GInv s) (hf : fire s (.unlock i) = some t) : GInv t := by
  unfold fire at hf
  split at hf
  · cases hf
  simp only [] at hf
  split at hf
  · rename_i c hci
    split at hf
    · rename_i hpc
      cases hf
      obtain ⟨x1, x2, x3⟩ := g.xs i c hci
      refine ginv_upd g hci rfl rfl rfl rfl rfl ?_ ?_
      · rcases hpc with hpc | hpc <;> (constructor <;> simp_all)
      · intro hp
        left
        simp only [pend] at hp ⊢
        rcases hpc with hpc | hpc
        · exact ⟨hp.1, Or.inl hpc⟩
        · exact ⟨hp.1, Or.inr (Or.inl hpc)⟩
    · cases hf
  · cases hf

theorem ginv_hDone {s t : State} (i : Nat) (a : AInv s) (g : GInv s) (hf : fire s (.hDone i) = some t) : GInv t := by
  unfold fire at hf
  split at hf
  · cases hf
  simp only [] at hf
  split at hf
  · rename_i c hci
    split at hf
    · rename_i hmu
      have ci := a.2 i c hci
      have hd0 : c.doneCount = 0 := ci.hpre hmu
      rw [complete_first (c := { c with stat := if c.stat = 0 then c.replyStat else c.stat }) hd0] at hf
      cases hf
      refine ginv_upd g hci rfl rfl rfl rfl rfl ?_ ?_
      · constructor <;> simp
      · intro hp; simp [pend] at hp
    · cases hf
  · cases hf

theorem ginv_hUnlock {s t : State} (i : Nat) (a : AInv s) (g : GInv s) (hf : fire s (.hUnlock i) = some t) : GInv t := by
  unfold fire at hf
  split at hf
  · cases hf
  simp only [] at hf
  split at hf
  · rename_i c hci
    split at hf
    · rename_i hmu
      cases hf
      obtain ⟨x1, x2, x3⟩ := g.xs i c hci
      refine ginv_upd g hci rfl rfl rfl rfl rfl ?_ ?_
      · constructor <;> simp_all
      · intro hp; exact Or.inl hp
    · cases hf
  · cases hf

theorem ginv_hOther {s t : State} (g : GInv s) (hf : fire s .hOther = some t) : GInv t := by
  unfold fire at hf
  split at hf
  · cases hf
  simp only [] at hf
  split at hf
  · cases hf
  · cases hf; exact ginv_rpc g rfl rfl rfl rfl g.cpl g.idx g.cov

theorem ginv_closeCtxWait {s t : State} (g : GInv s) (hf : fire s .closeCtxWait = some t) : GInv t := by
  unfold fire at hf
  split at hf
  · cases hf
  simp only [] at hf
  split at hf
  · rename_i hcpc
    split at hf
    · cases hf
      exact ⟨g.cpl, fun _ => g.cw (Or.inl hcpc), g.sock, g.idx, g.cov, g.ac, g.xs⟩
    · cases hf
  · cases hf

theorem ginv_closeCallWait {s t : State} (g : GInv s) (hf : fire s .closeCallWait = some t) : GInv t := by
  unfold fire at hf
  split at hf
  · cases hf
  simp only [] at hf
  split at hf
  · rename_i hcpc
    split at hf
    · rename_i hdone
      cases hf
      have hst := g.cw (Or.inr hcpc)
      refine ⟨?_, ?_, fun _ => rfl, g.idx, g.cov, ?_, g.xs⟩
      · have := g.cpl; rw [hst] at this; exact couple_act_acd this
      · intro h; simp at h
      · intro _ j c hc hp
        simp only [State.callsDone, List.all_eq_true, decide_eq_true_eq] at hdone
        have := hdone c (List.mem_of_getElem? hc)
        have := hp.1
        omega
    · cases hf
  · cases hf

theorem ginv_spawnOther {s s1 : State} (g : GInv s) (hcalls : s1.calls = s.calls) (hst : s1.status = s.status)
    (hcpc : s1.cpc = s.cpc) (hsock : s1.sockClosed = s.sockClosed) (hpre : s.status.pre = true) :
    GInv s1.spawnOther := by
  unfold State.spawnOther
  split
  · exact ginv_rpc g hcalls hst hcpc hsock hpre (by intro k hk; simp [rpcIdx, State.setCall] at hk) (fun _ _ _ _ => trivial)
  · exact ginv_rpc g hcalls hst hcpc hsock hpre (by intro k hk; simp [rpcIdx, State.setCall] at hk) (fun _ _ _ _ => trivial)

theorem ginv_read {s t : State} (g : GInv s) (hf : fire s .read = some t) : GInv t := by
  unfold fire at hf
  split at hf
  · cases hf
  simp only [] at hf
  split at hf
  · rename_i f rest hrpc hinq
    have hpre : s.status.pre = true := by have := g.cpl; rw [hrpc] at this; exact this
    split at hf
    · cases hf
      exact ginv_rpc g rfl rfl rfl rfl hpre (by intro k hk; simp [rpcIdx, State.setCall] at hk) (fun _ _ _ _ => trivial)
    · cases hf; exact ginv_spawnOther g rfl rfl rfl rfl hpre
    · split at hf
      · rename_i i hl
        cases hf
        refine ginv_rpc g rfl rfl rfl rfl hpre ?_ (fun _ _ _ _ => trivial)
        intro k hk
        simp only [rpcIdx, Option.some.injEq] at hk
        subst hk
        exact lookup_lt hl
      · cases hf; exact ginv_spawnOther g rfl rfl rfl rfl hpre
  · cases hf

theorem ginv_bind {s t : State} (a : AInv s) (g : GInv s) (hf : fire s .bind = some t) : GInv t := by
  unfold fire at hf
  split at hf
  · cases hf
  simp only [] at hf
  split at hf
  · rename_i i dec rstat hrpc
    have hpre : s.status.pre = true := by have := g.cpl; rw [hrpc] at this; exact this
    split at hf
    · rename_i c hci
      by_cases hmu' : c.mu ≠ .free
      · rw [if_pos hmu'] at hf; cases hf
      rw [if_neg hmu'] at hf
      have hmu' : c.mu = .free := by simpa using hmu'
      by_cases hre : c.hasReply = true ∨ 1 ≤ c.doneCount
      · rw [if_pos hre] at hf
        cases hf
        exact ginv_spawnOther g rfl rfl rfl rfl hpre
      rw [if_neg hre] at hf
      have hd0 : c.doneCount = 0 := by omega
      obtain ⟨x1, x2, x3⟩ := g.xs i c hci
      by_cases hd : (effDec c dec = Dec.errNil ∨ effDec c dec = Dec.panic) ∨ s.status.goon = false
      · rw [if_pos hd] at hf
        split at hf
        · rename_i c2 cr hcomp
          cases hf
          unfold complete at hcomp
          simp only [hd0, if_true, Option.some.injEq, Prod.mk.injEq] at hcomp
          obtain ⟨rfl, rfl⟩ := hcomp
          refine ginv_gen g hci rfl rfl rfl rfl hpre (by intro k hk; simp [rpcIdx, State.setCall] at hk) ?_ ?_ ?_
            (fun _ _ _ _ _ => trivial)
          · constructor <;> simp
          · intro hp; simp [pend] at hp
          · intro _; trivial
        · cases hf
      · rw [if_neg hd] at hf
        cases hf
        refine ginv_gen g hci rfl rfl rfl rfl hpre (by intro k hk; simp [rpcIdx, State.setCall] at hk) ?_ ?_ ?_
          (fun _ _ _ _ _ => trivial)
        · constructor <;> simp_all
        · intro hp; exact Or.inl hp
        · intro _; trivial
    · cases hf
  · cases hf

theorem ginv_readerEof {s t : State} (g : GInv s) (hf : fire s .readerEof = some t) : GInv t := by
  unfold fire at hf
  split at hf
  · cases hf
  simp only [] at hf
  split at hf
  · rename_i hrpc hinq
    have hpre : s.status.pre = true := by have := g.cpl; rw [hrpc] at this; exact this
    split at hf
    · cases hf
      exact ginv_rpc g rfl rfl rfl rfl hpre (by intro k hk; simp [rpcIdx, State.setCall] at hk) (fun _ _ _ _ => trivial)
    · cases hf
  · cases hf

theorem ginv_discLoad {s t : State} (g : GInv s) (hf : fire s .discLoad = some t) : GInv t := by
  unfold fire at hf
  split at hf
  · cases hf
  simp only [] at hf
  split at hf
  · rename_i hrpc
    have hpre : s.status.pre = true := by have := g.cpl; rw [hrpc] at this; exact this
    cases hst : s.status with
    | ok =>
      simp only [hst] at hf; cases hf
      exact ginv_rpc g rfl hst.symm rfl rfl hpre (by intro k hk; simp [rpcIdx, State.setCall] at hk) (fun _ _ _ _ => trivial)
    | activeClosing =>
      simp only [hst] at hf; cases hf
      exact ginv_rpc g rfl hst.symm rfl rfl (by rw [hst]; rfl) (by intro k hk; simp [rpcIdx, State.setCall] at hk) (fun _ _ _ _ => trivial)
    | activeClosed =>
      simp only [hst] at hf; cases hf
      refine ginv_rpc g rfl hst.symm rfl rfl (by rw [hst]; rfl) (by intro k hk; simp [rpcIdx, State.setCall] at hk) ?_
      intro j d hd hp
      exact absurd hp (g.ac hst j d hd)
    | passiveClosing => rw [hst] at hpre; cases hpre
    | passiveClosed => rw [hst] at hpre; cases hpre
  · cases hf

theorem ginv_discStore {s t : State} (g : GInv s) (hf : fire s .discStore = some t) : GInv t := by
  unfold fire at hf
  split at hf
  · cases hf
  simp only [] at hf
  split at hf
  · rename_i hrpc
    have hpre : s.status.pre = true := by have := g.cpl; rw [hrpc] at this; exact this
    split at hf
    · rename_i hst
      cases hf
      refine ⟨rfl, ?_, ?_, ?_, fun _ _ _ _ => trivial, ?_, g.xs⟩
      · intro h; have := g.cw h; rw [hst] at this; cases this
      · intro h; simp [SS.closed] at h
      · intro k hk; simp [rpcIdx, State.setCall] at hk
      · intro h; cases h
    · cases hf
      exact ginv_rpc g rfl rfl rfl rfl hpre (by intro k hk; simp [rpcIdx, State.setCall] at hk) (fun _ _ _ _ => trivial)
  · cases hf

theorem ginv_discCtxWait {s t : State} (todo0 : List Nat) (g : GInv s) (hf : fire s (.discCtxWait todo0) = some t) : GInv t := by
  unfold fire at hf
  split at hf
  · cases hf
  simp only [] at hf
  split at hf
  · rename_i act hrpc
    split at hf
    · rename_i hguard
      cases hf
      refine ginv_rpc g rfl rfl rfl rfl ?_ (by intro k hk; simp [rpcIdx, State.setCall] at hk) ?_
      · have := g.cpl; rw [hrpc] at this; exact this
      · intro j d hd hp
        have hx := g.xs j d hd
        have ht : d.inTable = true := by
          apply hx.tbl hp.1
          rcases hp.2 with h | h | h <;> simp [h]
        have hm := mem_tableIdx 0 hd ht
        have hall := hguard.2.2
        simp only [List.all_eq_true] at hall
        have := hall _ hm
        simpa [allowed] using this
    · cases hf
  · cases hf

theorem ginv_discPick {s t : State} (g : GInv s) (hf : fire s .discPick = some t) : GInv t := by
  unfold fire at hf
  split at hf
  · cases hf
  simp only [] at hf
  split at hf
  · rename_i act hrpc
    cases hf
    have hc := g.cpl; rw [hrpc] at hc
    have hnone : ∀ (j : Nat) (d : Call), s.calls[j]? = some d → pend d → False := by
      intro j d hd hp
      have := g.cov j d hd hp
      rw [hrpc] at this
      simp [allowed] at this
    cases act with
    | true =>
      refine ginv_rpc g rfl rfl rfl rfl ?_ (by intro k hk; simp [rpcIdx, State.setCall] at hk) ?_
      · exact isAct_post hc
      · intro j d hd hp; exact (hnone j d hd hp).elim
    | false =>
      refine ginv_rpc g rfl rfl rfl rfl ?_ (by intro k hk; simp [rpcIdx, State.setCall] at hk) ?_
      · exact hc
      · intro j d hd hp; exact (hnone j d hd hp).elim
  · rename_i act i todo hrpc
    have hc := g.cpl; rw [hrpc] at hc
    have hcov : ∀ (j : Nat) (d : Call), s.calls[j]? = some d → pend d → j = i ∨ j ∈ todo := by
      intro j d hd hp
      have := g.cov j d hd hp
      rw [hrpc] at this
      simpa [allowed] using this
    split at hf
    · rename_i c hci
      split at hf
      · cases hf
        refine ginv_rpc g rfl rfl rfl rfl hc ?_ ?_
        · intro k hk
          simp only [rpcIdx, Option.some.injEq] at hk
          subst hk
          exact lt_of_getElem? hci
        · intro j d hd hp; exact hcov j d hd hp
      · rename_i hnt
        cases hf
        refine ginv_rpc g rfl rfl rfl rfl hc (by intro k hk; simp [rpcIdx, State.setCall] at hk) ?_
        intro j d hd hp
        rcases hcov j d hd hp with rfl | h
        · exfalso
          rw [hci] at hd; cases hd
          have hx := g.xs _ _ hci
          apply hnt
          apply hx.tbl hp.1
          rcases hp.2 with h | h | h <;> simp [h]
        · exact h
    · rename_i hci
      cases hf
      refine ginv_rpc g rfl rfl rfl rfl hc (by intro k hk; simp [rpcIdx, State.setCall] at hk) ?_
      intro j d hd hp
      rcases hcov j d hd hp with rfl | h
      · rw [hci] at hd; cases hd
      · exact h
  · cases hf

theorem ginv_discVisit {s t : State} (a : AInv s) (g : GInv s) (hf : fire s .discVisit = some t) : GInv t := by
  unfold fire at hf
  split at hf
  · cases hf
  simp only [] at hf
  split at hf
  · rename_i act i todo hrpc
    have hc := g.cpl; rw [hrpc] at hc
    have hcov : ∀ (j : Nat) (d : Call), s.calls[j]? = some d → pend d → j = i ∨ j ∈ todo := by
      intro j d hd hp
      have := g.cov j d hd hp
      rw [hrpc] at this
      simpa [allowed] using this
    split at hf
    · rename_i c hci
      split at hf
      · cases hf
      rename_i hmu
      have hmu' : c.mu = .free := by simpa using hmu
      have ci := a.2 i c hci
      have hx := g.xs i c hci
      split at hf
      · rename_i hg
        have hd0 : c.doneCount = 0 := by
          have := ci.le1
          rcases Nat.eq_zero_or_pos c.doneCount with h0 | h0
          · exact h0
          · have h1 : c.doneCount = 1 := by omega
            rcases ci.why h1 with h2 | h2
            · rw [hg.1] at h2; cases h2
            · exact absurd hg.2 h2
        rw [complete_first (c := { c with stat := 102 }) hd0] at hf
        cases hf
        refine ginv_gen g hci rfl rfl rfl rfl hc (by intro k hk; simp [rpcIdx, State.setCall] at hk) ?_ ?_ ?_ ?_
        · constructor <;> simp [hmu']
        · intro hp; simp [pend] at hp
        · intro hp; simp [pend] at hp
        · intro j d hd hne hp
          rcases hcov j d hd hp with h | h
          · exact absurd h hne
          · exact h
      · rename_i hg
        cases hf
        refine ginv_rpc g rfl rfl rfl rfl hc (by intro k hk; simp [rpcIdx, State.setCall] at hk) ?_
        intro j d hd hp
        rcases hcov j d hd hp with rfl | h
        · exfalso
          rw [hci] at hd; cases hd
          have hret : c.pc = .returned := by
            cases hpc : c.pc with
            | returned => rfl
            | _ => have := ci.held (by simp [hpc]); rw [hmu'] at this; cases this
          have hs0 : c.stat = 0 := hx.st0 hp.1 (by simp [hret])
          have hnr : c.hasReply = false := by
            cases hh : c.hasReply with
            | false => rfl
            | true =>
              rcases ci.replied hh with h | h
              · have := hp.1; omega
              · rw [hmu'] at h; cases h
          exact hg ⟨hnr, hs0⟩
        · exact h
    · cases hf
  · cases hf

theorem ginv_discFinish {s t : State} (g : GInv s) (hf : fire s .discFinish = some t) : GInv t := by
  unfold fire at hf
  split at hf
  · cases hf
  simp only [] at hf
  split at hf
  · rename_i hrpc
    cases hf
    have hc := g.cpl; rw [hrpc] at hc
    refine ⟨rfl, ?_, fun _ => rfl, ?_, ?_, ?_, g.xs⟩
    · intro h
      have := g.cw h
      rw [this] at hc; cases hc
    · intro k hk; simp [rpcIdx, State.setCall] at hk
    · intro j d hd hp
      have := g.cov j d hd hp
      rw [hrpc] at this
      exact this
    · intro h; cases h
  · cases hf

theorem ginv_step {s t : State} {l : Label} (a : AInv s) (g : GInv s) (hf : fire s l = some t) : GInv t := by
  cases l with
  | issue veto ctxDone tooBig bytesRes cap => exact ginv_issue veto ctxDone tooBig bytesRes cap g hf
  | frame f => exact ginv_frame f g hf
  | lose => exact ginv_lose g hf
  | close => exact ginv_close g hf
  | store i => exact ginv_store i a g hf
  | prewrite i => exact ginv_prewrite i a g hf
  | write i o => exact ginv_write i o a g hf
  | failDone i => exact ginv_failDone i a g hf
  | unlock i => exact ginv_unlock i a g hf
  | read => exact ginv_read g hf
  | bind => exact ginv_bind a g hf
  | readerEof => exact ginv_readerEof g hf
  | discLoad => exact ginv_discLoad g hf
  | discStore => exact ginv_discStore g hf
  | discCtxWait todo0 => exact ginv_discCtxWait todo0 g hf
  | discPick => exact ginv_discPick g hf
  | discVisit => exact ginv_discVisit a g hf
  | discFinish => exact ginv_discFinish g hf
  | hDone i => exact ginv_hDone i a g hf
  | hUnlock i => exact ginv_hUnlock i a g hf
  | hOther => exact ginv_hOther g hf
  | closeCtxWait => exact ginv_closeCtxWait g hf
  | closeCallWait => exact ginv_closeCallWait g hf

theorem ginv_reach {s : State} (r : Reachable s) : GInv s := by
  induction r with
  | init => exact ginv_init
  | step r' hs ih => obtain ⟨l, hl⟩ := hs; exact ginv_step (ainv_reach r') ih hl

/-! ## states without an enabled internal step -/

/-- no internal step is enabled: every further step needs a new external event. -/
def Quiescent (s : State) : Prop := ∀ l : Label, l.internal = true → fire s l = none

/-- in a quiescent state every caller has returned from `AsyncCall` and no handler goroutine holds a
    call: each program counter before `returned` and each handler mutex state has an enabled step. -/
theorem quiescent_calls {s : State} (a : AInv s) (g : GInv s) (hq : Quiescent s) :
    ∀ (j : Nat) (c : Call), s.calls[j]? = some c → c.pc = .returned ∧ c.mu = .free := by
  intro j c hc
  have hcr : s.crashed = false := a.1
  have ci := a.2 j c hc
  have hx := g.xs j c hc
  have hret : c.pc = .returned := by
    cases hpc : c.pc with
    | returned => rfl
    | locked => have := hq (.store j) rfl; simp [fire, hcr, hc, hpc] at this
    | stored => have := hq (.prewrite j) rfl; simp [fire, hcr, hc, hpc] at this
    | writing =>
      exfalso
      by_cases hst : s.status = .ok
      · by_cases h1 : c.ctxDone = true
        · have := hq (.write j .ctxErr) rfl; simp [fire, hcr, hc, hpc, hst, h1] at this
        · by_cases h2 : c.tooBig = true
          · have := hq (.write j .tooBig) rfl; simp [fire, hcr, hc, hpc, hst, h1, h2] at this
          · have := hq (.write j .ok) rfl; simp [fire, hcr, hc, hpc, hst, h1, h2] at this
      · have := hq (.write j .refused) rfl; simp [fire, hcr, hc, hpc, hst] at this
    | failing =>
      have hd0 : c.doneCount = 0 := ci.pre (Or.inr (Or.inr (Or.inr hpc)))
      have := hq (.failDone j) rfl; simp [fire, hcr, hc, hpc, complete, hd0] at this
    | written => have := hq (.unlock j) rfl; simp [fire, hcr, hc, hpc] at this
    | unlocking => have := hq (.unlock j) rfl; simp [fire, hcr, hc, hpc] at this
  refine ⟨hret, ?_⟩
  cases hmu : c.mu with
  | free => rfl
  | caller => exact absurd hmu (hx.ret hret)
  | reader => exact absurd hmu ci.nord
  | hPre =>
    have hd0 : c.doneCount = 0 := ci.hpre hmu
    have := hq (.hDone j) rfl; simp [fire, hcr, hc, hmu, complete, hd0] at this
  | hPost => have := hq (.hUnlock j) rfl; simp [fire, hcr, hc, hmu] at this

theorem quiescent_ctxBusy {s : State} (a : AInv s) (g : GInv s) (hq : Quiescent s) : s.ctxBusy = 0 := by
  have hcr : s.crashed = false := a.1
  have h0 : s.otherH = 0 := by
    have := hq .hOther rfl
    simpa [fire, hcr] using this
  have h1 : s.calls.countP Call.busyH = 0 := by
    rw [List.countP_eq_zero]
    intro c hc
    obtain ⟨j, hj⟩ := List.getElem?_of_mem hc
    have := (quiescent_calls a g hq j c hj).2
    simp [Call.busyH, this]
  simp [State.ctxBusy, h0, h1]

/-- in a quiescent state whose connection is lost or whose socket is closed the reader has left
    `readDisconnected`: every other program counter of the reader has an enabled step. -/
theorem quiescent_reader {s : State} (a : AInv s) (g : GInv s) (hq : Quiescent s)
    (hl : s.lost = true ∨ s.sockClosed = true) : s.rpc = .stopped := by
  have hcr : s.crashed = false := a.1
  have hfree := quiescent_calls a g hq
  cases hr : s.rpc with
  | stopped => rfl
  | reading =>
    exfalso
    cases hi : s.inq with
    | nil =>
      have := hq .readerEof rfl
      rcases hl with h | h <;> simp [fire, hcr, hr, hi, h] at this
    | cons f rest =>
      have := hq .read rfl
      cases f with
      | garbage => simp [fire, hcr, hr, hi] at this
      | other => simp [fire, hcr, hr, hi] at this
      | reply seq d rs =>
        cases hlk : s.lookup seq <;> simp [fire, hcr, hr, hi, hlk] at this
  | bindWait i d rs =>
    exfalso
    have hlt := g.idx i (by rw [hr]; rfl)
    obtain ⟨c, hc⟩ : ∃ c, s.calls[i]? = some c := ⟨s.calls[i], List.getElem?_eq_getElem hlt⟩
    have hmu := (hfree i c hc).2
    have := hq .bind rfl
    unfold fire at this
    rw [if_neg (by simp [hcr])] at this
    simp only [hr, hc] at this
    rw [if_neg (by simp [hmu])] at this
    by_cases hre : c.hasReply = true ∨ 1 ≤ c.doneCount
    · rw [if_pos hre] at this; cases this
    · rw [if_neg hre] at this
      have hd0 : c.doneCount = 0 := by omega
      by_cases hd : (effDec c d = Dec.errNil ∨ effDec c d = Dec.panic) ∨ s.status.goon = false
      · rw [if_pos hd] at this
        simp [complete, hd0] at this
      · rw [if_neg hd] at this; cases this
  | discLoad =>
    exfalso
    have := hq .discLoad rfl
    cases hst : s.status <;> simp [fire, hcr, hr, hst] at this
  | discStore =>
    exfalso
    have := hq .discStore rfl
    cases hst : s.status <;> simp [fire, hcr, hr, hst] at this
  | discCtxWait act =>
    exfalso
    have := hq (.discCtxWait (tableIdx s.calls 0)) rfl
    have hb := quiescent_ctxBusy a g hq
    have hlen := tableIdx_length s.calls 0
    simp [fire, hcr, hr, hb, hlen] at this
  | discLoop act todo =>
    exfalso
    have := hq .discPick rfl
    cases todo with
    | nil => simp [fire, hcr, hr] at this
    | cons i rest =>
      cases hc : s.calls[i]? with
      | none => simp [fire, hcr, hr, hc] at this
      | some c => by_cases ht : c.inTable = true <;> simp [fire, hcr, hr, hc, ht] at this
  | discLock act i todo =>
    exfalso
    have hlt := g.idx i (by rw [hr]; rfl)
    obtain ⟨c, hc⟩ : ∃ c, s.calls[i]? = some c := ⟨s.calls[i], List.getElem?_eq_getElem hlt⟩
    have hmu := (hfree i c hc).2
    have ci := a.2 i c hc
    have := hq .discVisit rfl
    unfold fire at this
    rw [if_neg (by simp [hcr])] at this
    simp only [hr, hc] at this
    rw [if_neg (by simp [hmu])] at this
    by_cases hg : c.hasReply = false ∧ c.stat = 0
    · rw [if_pos hg] at this
      have hd0 : c.doneCount = 0 := by
        have := ci.le1
        rcases Nat.eq_zero_or_pos c.doneCount with h0 | h0
        · exact h0
        · have h1 : c.doneCount = 1 := by omega
          rcases ci.why h1 with h2 | h2
          · rw [hg.1] at h2; cases h2
          · exact absurd hg.2 h2
      simp [complete, hd0] at this
    · rw [if_neg hg] at this; cases this
  | discFinish =>
    exfalso
    have := hq .discFinish rfl
    simp [fire, hcr, hr] at this

/-- The quiescent-state theorem behind the "connection lost" and "session closed" disjuncts: no
    enabled internal step and (connection lost or socket closed) ⇒ every call is completed exactly once. -/
theorem quiescent_done {s : State} (a : AInv s) (g : GInv s) (hq : Quiescent s)
    (hl : s.lost = true ∨ s.sockClosed = true) :
    ∀ (j : Nat) (c : Call), s.calls[j]? = some c → c.doneCount = 1 ∧ c.chanSends = 1 := by
  intro j c hc
  have hr := quiescent_reader a g hq hl
  have hret := (quiescent_calls a g hq j c hc).1
  have ci := a.2 j c hc
  have hnp : ¬ pend c := by
    intro hp
    have := g.cov j c hc hp
    rw [hr] at this
    exact this
  have h1 : c.doneCount ≠ 0 := fun h0 => hnp ⟨h0, Or.inr (Or.inr hret)⟩
  have := ci.le1
  have := ci.sends
  omega

/-! ## runs of internal steps -/

/-- no step revives the connection or re-opens the socket; internal steps issue no call. -/
theorem fire_keeps {s t : State} {l : Label} (hf : fire s l = some t) :
    (s.lost = true → t.lost = true) ∧ (s.sockClosed = true → t.sockClosed = true) ∧
    (l.internal = true → t.calls.length = s.calls.length) := by
  unfold fire at hf
  split at hf
  · cases hf
  cases l <;> simp only [] at hf <;> (repeat' split at hf) <;> (try cases hf) <;>
    simp_all [State.setCall, State.spawnOther, Label.internal] <;> (try split) <;> simp_all

/-- a run of internal steps: its length is bounded by the measure of its first state; loss of the
    connection and the closed socket persist; the set of calls is the same. -/
theorem run_internal {s t : State} (ls : List Label) (hint : ∀ l ∈ ls, l.internal = true)
    (hrun : run s ls = some t) :
    ls.length + measure t ≤ measure s ∧ (s.lost = true → t.lost = true) ∧
    (s.sockClosed = true → t.sockClosed = true) ∧ t.calls.length = s.calls.length := by
  induction ls generalizing s with
  | nil => simp only [run, Option.some.injEq] at hrun; subst hrun; simp
  | cons l ls ih =>
    simp only [run] at hrun
    cases hf : fire s l with
    | none => simp [hf] at hrun
    | some u =>
      simp only [hf, Option.bind_some] at hrun
      have hl : l.internal = true := hint l (List.mem_cons_self ..)
      obtain ⟨k1, k2, k3⟩ := fire_keeps hf
      obtain ⟨i1, i2, i3, i4⟩ := ih (fun l' h' => hint l' (List.mem_cons_of_mem _ h')) hrun
      have := measure_step hl hf
      refine ⟨?_, fun h => i2 (k1 h), fun h => i3 (k2 h), by rw [i4, k3 hl]⟩
      simp only [List.length_cons]; omega

end Teleport.CallLife
