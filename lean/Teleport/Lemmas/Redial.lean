/-
Lemmas/Redial — helper lemmas about the redial model (C13).
-/
import Teleport.Model.Redial
namespace Teleport.Redial

/-! ## the retry counter and one round of `dialWithRetry` -/

theorem stickyTail_len (st : Avail) : ∀ n, (stickyTail st n).1.length ≤ n
  | 0 => by simp [stickyTail]
  | n + 1 => by
    unfold stickyTail
    split
    · simp
    · have := stickyTail_len st n
      simp; omega

theorem loopQ_len (st : Avail) : ∀ (q : List Avail) (c : Int), 0 ≤ c → (loopQ st c q).1.length ≤ c.toNat
  | [], c, h => by
    have hc : ¬ c < 0 := by omega
    simp [loopQ, hc]
    exact stickyTail_len st c.toNat
  | a :: q, c, h => by
    unfold loopQ
    by_cases h0 : c = 0
    · subst h0; simp [counterNext]
    · have hp : c > 0 := by omega
      have hn : (counterNext c) = (true, c - 1) := by simp [counterNext, h0, hp]
      simp only [hn, if_true]
      split
      · simp; omega
      · have := loopQ_len st q (c - 1) (by omega)
        simp; omega

theorem dialRound_len (b : Int) (e : Env) (h : 0 ≤ b) : (dialRound b e).tried.length ≤ b.toNat + 1 := by
  unfold dialRound
  split
  · simp
  · have := loopQ_len e.pop.2.sticky e.pop.2.q b h
    simp; omega

/-- an unlimited counter never says stop. -/
theorem counterNext_neg (c : Int) (h : c < 0) : counterNext c = (true, c) := by
  have h0 : c ≠ 0 := by omega
  have hp : ¬ c > 0 := by omega
  simp [counterNext, h0, hp]

theorem stickyTail_no_hang (st : Avail) : ∀ n, (stickyTail st n).2 ≠ .hang
  | 0 => by simp [stickyTail]
  | n + 1 => by
    unfold stickyTail
    split
    · simp
    · exact stickyTail_no_hang st n

/-- with a non-negative budget the loop ends. -/
theorem loopQ_no_hang (st : Avail) : ∀ (q : List Avail) (c : Int), 0 ≤ c → (loopQ st c q).2.1 ≠ .hang
  | [], c, h => by
    have hc : ¬ c < 0 := by omega
    simp [loopQ, hc]
    exact stickyTail_no_hang st c.toNat
  | a :: q, c, h => by
    unfold loopQ
    by_cases h0 : c = 0
    · subst h0; simp [counterNext]
    · have hp : c > 0 := by omega
      have hn : (counterNext c) = (true, c - 1) := by simp [counterNext, h0, hp]
      simp only [hn, if_true]
      split
      · simp
      · exact loopQ_no_hang st q (c - 1) (by omega)

theorem dialRound_no_hang (b : Int) (e : Env) (h : 0 ≤ b) : (dialRound b e).fin ≠ .hang := by
  unfold dialRound
  split
  · simp
  · exact loopQ_no_hang _ _ b h

/-- a round that ends in success made `up` its last attempt; one that does not never met `up`. -/
theorem stickyTail_tried (st : Avail) : ∀ n,
    ((stickyTail st n).2 = .success → ∃ pre, (stickyTail st n).1 = pre ++ [.up] ∧ ∀ a ∈ pre, a ≠ .up) ∧
    ((stickyTail st n).2 ≠ .success → ∀ a ∈ (stickyTail st n).1, a ≠ .up)
  | 0 => by simp [stickyTail]
  | n + 1 => by
    unfold stickyTail
    split
    · rename_i h; subst h
      exact ⟨fun _ => ⟨[], by simp⟩, by simp⟩
    · rename_i h
      have ih := stickyTail_tried st n
      refine ⟨fun hs => ?_, fun hs => ?_⟩
      · obtain ⟨pre, hp, hall⟩ := ih.1 hs
        refine ⟨st :: pre, by simp [hp], ?_⟩
        intro a ha
        simp at ha
        rcases ha with ha | ha
        · subst ha; exact h
        · exact hall a ha
      · intro a ha
        simp at ha
        rcases ha with ha | ha
        · subst ha; exact h
        · exact ih.2 hs a ha

theorem loopQ_tried (st : Avail) : ∀ (q : List Avail) (c : Int),
    ((loopQ st c q).2.1 = .success → ∃ pre, (loopQ st c q).1 = pre ++ [.up] ∧ ∀ a ∈ pre, a ≠ .up) ∧
    ((loopQ st c q).2.1 ≠ .success → ∀ a ∈ (loopQ st c q).1, a ≠ .up)
  | [], c => by
    unfold loopQ
    split
    · split
      · rename_i h; subst h
        exact ⟨fun _ => ⟨[], by simp⟩, by simp⟩
      · simp
    · exact stickyTail_tried st c.toNat
  | a :: q, c => by
    unfold loopQ
    split
    · split
      · rename_i h; subst h
        exact ⟨fun _ => ⟨[], by simp⟩, by simp⟩
      · rename_i h
        have ih := loopQ_tried st q (counterNext c).2
        refine ⟨fun hs => ?_, fun hs => ?_⟩
        · obtain ⟨pre, hp, hall⟩ := ih.1 hs
          refine ⟨a :: pre, by simp [hp], ?_⟩
          intro x hx
          simp at hx
          rcases hx with hx | hx
          · subst hx; exact h
          · exact hall x hx
        · intro x hx
          simp at hx
          rcases hx with hx | hx
          · subst hx; exact h
          · exact ih.2 hs x hx
    · simp

theorem dialRound_tried (b : Int) (e : Env) :
    ((dialRound b e).fin = .success → ∃ pre, (dialRound b e).tried = pre ++ [.up] ∧ ∀ a ∈ pre, a ≠ .up) ∧
    ((dialRound b e).fin ≠ .success → ∀ a ∈ (dialRound b e).tried, a ≠ .up) := by
  unfold dialRound
  split
  · exact ⟨fun _ => ⟨[], by simp⟩, by simp⟩
  · rename_i h
    have ih := loopQ_tried e.pop.2.sticky e.pop.2.q b
    refine ⟨fun hs => ?_, fun hs => ?_⟩
    · obtain ⟨pre, hp, hall⟩ := ih.1 hs
      refine ⟨e.pop.1 :: pre, by simp [hp], ?_⟩
      intro x hx
      simp at hx
      rcases hx with hx | hx
      · subst hx; exact h
      · exact hall x hx
    · intro x hx
      simp at hx
      rcases hx with hx | hx
      · subst hx; exact h
      · exact ih.2 hs x hx

/-! ## the attempts' callbacks folded over a state -/

/-- what a dial attempt's callback never touches; the connection counter only grows. -/
def Frame (s t : State) : Prop :=
  t.threads = s.threads ∧ t.hub = s.hub ∧ t.rounds = s.rounds ∧ t.redials = s.redials ∧
  t.budget = s.budget ∧ t.lock = s.lock ∧ t.notified = s.notified ∧ t.discHook = s.discHook ∧
  t.calls = s.calls ∧ t.env = s.env ∧ t.werrEOF = s.werrEOF ∧ s.conn ≤ t.conn

theorem Frame.refl (s : State) : Frame s s := by simp [Frame]

theorem Frame.trans {s t u : State} (h1 : Frame s t) (h2 : Frame t u) : Frame s u := by
  obtain ⟨a1, a2, a3, a4, a5, a6, a7, a8, a9, a10, a11, a12⟩ := h1
  obtain ⟨b1, b2, b3, b4, b5, b6, b7, b8, b9, b10, b11, b12⟩ := h2
  refine ⟨?_, ?_, ?_, ?_, ?_, ?_, ?_, ?_, ?_, ?_, ?_, ?_⟩ <;> first | omega | simp_all

theorem applyAttempt_frame (auto : Bool) (oldId : Key) (s : State) (a : Avail) :
    Frame s (applyAttempt auto oldId s a) := by
  cases a <;> simp [applyAttempt, Frame]

theorem fold_frame (auto : Bool) (oldId : Key) : ∀ (l : List Avail) (s : State),
    Frame s (l.foldl (applyAttempt auto oldId) s)
  | [], s => Frame.refl s
  | a :: l, s => by
    simp only [List.foldl_cons]
    exact (applyAttempt_frame auto oldId s a).trans (fold_frame auto oldId l _)

theorem fold_status (auto : Bool) (oldId : Key) : ∀ (l : List Avail) (s : State),
    (∀ a ∈ l, a ≠ .up) → s.status = .redialing → (l.foldl (applyAttempt auto oldId) s).status = .redialing
  | [], s, _, h => h
  | a :: l, s, hall, h => by
    simp only [List.foldl_cons]
    apply fold_status auto oldId l
    · intro x hx; exact hall x (by simp [hx])
    · cases a
      · exact absurd rfl (hall .up (by simp))
      · simpa [applyAttempt] using h
      · simp [applyAttempt]

theorem fold_id_auto (oldId : Key) : ∀ (l : List Avail) (s : State),
    s.id = .addr s.conn →
    (l.foldl (applyAttempt true oldId) s).id = .addr (l.foldl (applyAttempt true oldId) s).conn
  | [], s, h => h
  | a :: l, s, h => by
    simp only [List.foldl_cons]
    apply fold_id_auto oldId l
    cases a <;> simp [applyAttempt, h]

theorem fold_id_user (oldId : Key) : ∀ (l : List Avail) (s : State),
    s.id = oldId → (l.foldl (applyAttempt false oldId) s).id = oldId
  | [], s, h => h
  | a :: l, s, h => by
    simp only [List.foldl_cons]
    apply fold_id_user oldId l
    cases a <;> simp [applyAttempt, h]

/-- every dial hook run inside a redial round is logged with `isRedial = true`. -/
theorem fold_log (auto : Bool) (oldId : Key) : ∀ (l : List Avail) (s : State),
    ∃ n, (l.foldl (applyAttempt auto oldId) s).dialLog = s.dialLog ++ List.replicate n true
  | [], s => ⟨0, by simp⟩
  | a :: l, s => by
    simp only [List.foldl_cons]
    obtain ⟨n, hn⟩ := fold_log auto oldId l (applyAttempt auto oldId s a)
    cases a
    · refine ⟨n + 1, ?_⟩
      rw [hn]; simp [applyAttempt, List.replicate_succ]
    · exact ⟨n, by rw [hn]; simp [applyAttempt]⟩
    · refine ⟨n + 1, ?_⟩
      rw [hn]; simp [applyAttempt, List.replicate_succ]

/-! ## the locked body of `redialForClient` -/

theorem mem_hubSet (h : List Key) (k : Key) : k ∈ hubSet h k := by
  unfold hubSet; split <;> simp_all

theorem redialLocked_other (s : State) (old : Nat) (h : old ≠ s.conn) :
    redialLocked s old = (s, some true) := by simp [redialLocked, h]

theorem redialLocked_nocas (s : State) (h : casFrom s.status = false) :
    redialLocked s s.conn = (s, some false) := by simp [redialLocked, h]

/-- the state the round's callbacks start from. -/
def roundStart (s : State) : State :=
  { s with status := .redialing, env := (dialRound s.budget s.env).rest,
           rounds := s.rounds ++ [(dialRound s.budget s.env).tried.length] }

def roundFold (s : State) : State :=
  (dialRound s.budget s.env).tried.foldl (applyAttempt (s.id == .addr s.conn) s.id) (roundStart s)

/-- the success ending of the closure applied to the state `t` the callbacks left. -/
def finishOk (t : State) (old : Nat) : State :=
  { t with dead := old :: t.dead, status := .ok,
           threads := t.threads ++ [⟨.reader t.conn, .rRead⟩],
           hub := hubSet t.hub t.id, redials := t.redials ++ [old] }

theorem redialLocked_success_eq (s : State) (h1 : casFrom s.status = true)
    (h2 : (dialRound s.budget s.env).fin = .success) :
    redialLocked s s.conn = (finishOk (roundFold s) s.conn, some true) := by
  simp [redialLocked, h1, h2, roundFold, roundStart, finishOk]

theorem redialLocked_failed_eq (s : State) (h1 : casFrom s.status = true)
    (h2 : (dialRound s.budget s.env).fin = .failed) :
    redialLocked s s.conn = (casRedialFailed (closeLocked (roundFold s)), some false) := by
  simp [redialLocked, h1, h2, roundFold, roundStart]

theorem roundFold_frame (s : State) : Frame (roundStart s) (roundFold s) := fold_frame _ _ _ _

/-- after a successful round: the last callback was the one of the attempt that met the server. -/
theorem roundFold_success (s : State) (h2 : (dialRound s.budget s.env).fin = .success) :
    (roundFold s).status = .preparing ∧ s.conn < (roundFold s).conn ∧
    (roundFold s).id = (if s.id = .addr s.conn then .addr (roundFold s).conn else s.id) ∧
    ∃ n, (roundFold s).dialLog = s.dialLog ++ List.replicate (n + 1) true := by
  obtain ⟨pre, hp, _⟩ := (dialRound_tried s.budget s.env).1 h2
  have hf : roundFold s = applyAttempt (s.id == .addr s.conn) s.id
      (pre.foldl (applyAttempt (s.id == .addr s.conn) s.id) (roundStart s)) .up := by
    simp [roundFold, hp, List.foldl_append]
  have hfr := fold_frame (s.id == .addr s.conn) s.id pre (roundStart s)
  obtain ⟨n, hn⟩ := fold_log (s.id == .addr s.conn) s.id pre (roundStart s)
  have hc : s.conn ≤ (pre.foldl (applyAttempt (s.id == .addr s.conn) s.id) (roundStart s)).conn := by
    have := hfr.2.2.2.2.2.2.2.2.2.2.2
    simpa [roundStart] using this
  refine ⟨by rw [hf]; simp [applyAttempt], by rw [hf]; simp [applyAttempt]; omega, ?_, ⟨n, ?_⟩⟩
  · by_cases hid : s.id = .addr s.conn
    · have hb : (s.id == Key.addr s.conn) = true := by simp [hid]
      rw [hf, hb]; simp [applyAttempt, hid]
    · have hb : (s.id == Key.addr s.conn) = false := by simp [hid]
      rw [hf, hb]; simp [applyAttempt, hid]
  · rw [hf]
    simp only [applyAttempt, hn]
    simp [roundStart, List.replicate_succ']

/-- after a failed round: no callback met the server, the status is still Redialing. -/
theorem roundFold_failed (s : State) (h2 : (dialRound s.budget s.env).fin ≠ .success) :
    (roundFold s).status = .redialing :=
  fold_status _ _ _ _ ((dialRound_tried s.budget s.env).2 h2) (by simp [roundStart])

/-- `closeLocked` inside the redial closure is a no-op: the status is Redialing there. -/
theorem closeLocked_noop (s : State) (h2 : (dialRound s.budget s.env).fin ≠ .success) :
    closeLocked (roundFold s) = roundFold s := by
  simp [closeLocked, roundFold_failed s h2]

/-! ## what a step can change: everything but the locked redial body leaves `core` alone -/

/-- connection counter, successful-redial log, attempts per round, budget. -/
def core (s : State) : Nat × List Nat × List Nat × Int := (s.conn, s.redials, s.rounds, s.budget)

@[simp] theorem core_setPc (s : State) (i : Nat) (r : Role) (pc : Pc) : core (s.setPc i r pc) = core s := rfl

@[simp] theorem core_finishCall (s : State) (r : Role) (c : Nat) : core (finishCall s r c) = core s := by
  unfold finishCall
  split
  · split <;> rfl
  · rfl

@[simp] theorem core_afterRedial (s : State) (i : Nat) (role : Role) (r : Bool) :
    core (afterRedial s i role r) = core s := by
  unfold afterRedial
  split
  · simp
  · split <;> simp

theorem threadStep_core (s t : State) (i : Nat) (h : threadStep s i = some t) :
    core t = core s ∨ ∃ old, core t = core (redialLocked s old).1 := by
  unfold threadStep at h
  split at h
  · simp at h
  · split at h
    all_goals (try (split at h))
    all_goals (try (split at h))
    all_goals (try (split at h))
    all_goals (try (split at h))
    all_goals (try simp at h)
    all_goals (try (subst h))
    all_goals (try (first | (left; simp [core]; done) | (left; rfl)))
    all_goals (first | (left; simp; done) | skip)
    · rename_i old h1 x t r heq
      right; refine ⟨old, ?_⟩
      rw [core_afterRedial, heq]; rfl
    · rename_i old h1 x t heq
      right; refine ⟨old, ?_⟩
      rw [core_setPc, heq]

theorem step_core (s t : State) (e : Ev) (h : step s e = some t) :
    core t = core s ∨ ∃ old, core t = core (redialLocked s old).1 := by
  cases e with
  | th i => exact threadStep_core s t i h
  | lose k =>
    simp [step] at h; subst h; left; split <;> rfl
  | reply j =>
    simp only [step] at h
    split at h
    · split at h
      · simp at h; subst h; left; rfl
      · simp at h
    · simp at h
  | setUser =>
    simp only [step] at h
    (repeat' split at h) <;> (simp at h; subst h; left; rfl)
  | call => simp [step] at h; subst h; left; rfl
  | push => simp [step] at h; subst h; left; rfl
  | setEnv e => simp [step] at h; subst h; left; rfl

/-- invariant of `core`: the budget is constant; every recorded round made at most budget+1
    attempts (budget ≥ 0); the successfully redialed connections are distinct and older than the
    connection the socket holds. -/
def CInv (b : Int) (c : Nat × List Nat × List Nat × Int) : Prop :=
  c.2.2.2 = b ∧ (0 ≤ b → ∀ n ∈ c.2.2.1, n ≤ b.toNat + 1) ∧ c.2.1.Nodup ∧ ∀ k ∈ c.2.1, k < c.1

theorem core_roundFold (s : State) :
    (roundFold s).redials = s.redials ∧
    (roundFold s).rounds = s.rounds ++ [(dialRound s.budget s.env).tried.length] ∧
    (roundFold s).budget = s.budget ∧ s.conn ≤ (roundFold s).conn := by
  obtain ⟨_, _, h3, h4, h5, _, _, _, _, _, _, h12⟩ := roundFold_frame s
  exact ⟨by simpa [roundStart] using h4, by simpa [roundStart] using h3,
         by simpa [roundStart] using h5, by simpa [roundStart] using h12⟩

@[simp] theorem core_casRedialFailed (s : State) : core (casRedialFailed s) = core s := by
  unfold casRedialFailed; split <;> rfl

@[simp] theorem core_closeLocked (s : State) : core (closeLocked s) = core s := by
  unfold closeLocked; split <;> rfl

theorem cinv_roundFold (b : Int) (s : State) (h : CInv b (core s)) : CInv b (core (roundFold s)) := by
  obtain ⟨h1, h2, h3, h4⟩ := h
  obtain ⟨r1, r2, r3, r4⟩ := core_roundFold s
  simp only [core] at h1 h2 h3 h4 ⊢
  refine ⟨by simp [r3, h1], ?_, by simpa [r1] using h3, ?_⟩
  · intro hb n hn
    simp only [r2, List.mem_append, List.mem_singleton] at hn
    rcases hn with hn | hn
    · exact h2 hb n hn
    · subst hn
      have := dialRound_len s.budget s.env (by omega)
      omega
  · intro k hk
    simp only [r1] at hk
    have := h4 k hk
    omega

theorem redialLocked_cinv (b : Int) (s : State) (old : Nat) (h : CInv b (core s)) :
    CInv b (core (redialLocked s old).1) := by
  by_cases ho : old = s.conn
  · subst ho
    by_cases hc : casFrom s.status = true
    · have hf := cinv_roundFold b s h
      cases hfin : (dialRound s.budget s.env).fin with
      | success =>
        rw [redialLocked_success_eq s hc hfin]
        obtain ⟨f1, f2, f3, f4⟩ := hf
        obtain ⟨r1, _, _, _⟩ := core_roundFold s
        have hlt := (roundFold_success s hfin).2.1
        simp only [core, finishOk] at f1 f2 f3 f4 ⊢
        refine ⟨f1, f2, ?_, ?_⟩
        · rw [List.nodup_append]
          refine ⟨f3, by simp, ?_⟩
          intro a ha c hc2
          simp at hc2; subst hc2
          rw [r1] at ha
          have := h.2.2.2 a ha
          simp only [core] at this
          omega
        · intro k hk
          simp only [List.mem_append, List.mem_singleton] at hk
          rcases hk with hk | hk
          · exact f4 k hk
          · omega
      | failed =>
        rw [redialLocked_failed_eq s hc hfin]
        simpa using hf
      | hang =>
        have : redialLocked s s.conn = (roundFold s, none) := by
          simp [redialLocked, hc, hfin, roundFold, roundStart]
        rw [this]; exact hf
    · have hc' : casFrom s.status = false := by simpa using hc
      rw [redialLocked_nocas s hc']; exact h
  · rw [redialLocked_other s old ho]; exact h

theorem run_cinv (b : Int) : ∀ (evs : List Ev) (s t : State),
    CInv b (core s) → run s evs = some t → CInv b (core t)
  | [], s, t, h, hr => by simp [run] at hr; subst hr; exact h
  | e :: es, s, t, h, hr => by
    simp only [run] at hr
    cases hs : step s e with
    | none => simp [hs] at hr
    | some u =>
      simp only [hs, Option.bind_some] at hr
      refine run_cinv b es u t ?_ hr
      rcases step_core s u e hs with hc | ⟨old, hc⟩
      · rw [hc]; exact h
      · rw [hc]; exact redialLocked_cinv b s old h

theorem reachable_cinv (b : Int) (eof : Bool) (t : State) (h : Reachable b eof t) : CInv b (core t) := by
  obtain ⟨evs, hr⟩ := h
  exact run_cinv b evs _ t (by simp [CInv, core, State.init]) hr

end Teleport.Redial
