import Teleport.Model.RawProto
import Teleport.Lemmas.Status
namespace Teleport
namespace Raw
open Bytes

theorem take?_append (l r : Bytes) (n : Nat) (h : n = l.length) : take? n (l ++ r) = some (l, r) := by
  subst h; unfold take?; simp

theorem rdBe16_be16 (n : Nat) (h : n < 65536) :
    ∀ r : Bytes, (match be16 n ++ r with | a :: b :: d => some (rdBe16 a b, d) | _ => none) = some (n, r) := by
  intro r
  simp only [be16, List.cons_append, List.nil_append, rdBe16]
  have h1 : (n / 256 % 256).toUInt8.toNat = n / 256 := by
    simp [Nat.toUInt8, UInt8.toNat_ofNat']; omega
  have h2 : (n % 256).toUInt8.toNat = n % 256 := by
    simp [Nat.toUInt8, UInt8.toNat_ofNat']
  simp only [h1, h2, Option.some.injEq, Prod.mk.injEq, and_true]
  omega

theorem rdBe32_be32 (n : Nat) (h : n < 4294967296) :
    rdBe32 (n / 16777216 % 256).toUInt8 (n / 65536 % 256).toUInt8 (n / 256 % 256).toUInt8 (n % 256).toUInt8 = n := by
  unfold rdBe32
  simp [Nat.toUInt8, UInt8.toNat_ofNat']
  omega

theorem toUInt8_toNat (n : Nat) (h : n < 256) : (n % 256).toUInt8.toNat = n := by
  simp [Nat.toUInt8, UInt8.toNat_ofNat']; omega

/-- pack then unpack of a pipe of lawful registered filters restores the data. -/
theorem onUnpack_onPack (reg : Registry) (pipe : List UInt8)
    (hl : ∀ i ∈ pipe, ∃ f, reg i = some f ∧ Xfer.Lawful f) (x y : Bytes)
    (h : Xfer.onPack reg pipe x = some y) : Xfer.onUnpack reg pipe y = some x := by
  induction pipe generalizing y with
  | nil => simp [Xfer.onPack] at h; simp [Xfer.onUnpack, h]
  | cons i is ih =>
    obtain ⟨f, hf, hlaw⟩ := hl i (by simp)
    simp only [Xfer.onPack, hf] at h
    cases hz : Xfer.onPack reg is x with
    | none => simp [hz] at h
    | some z =>
      simp only [hz, Option.bind_some] at h
      simp only [Xfer.onUnpack, hf, hlaw z y h, Option.bind_some]
      exact ih (fun j hj => hl j (by simp [hj])) z hz

/-- digit count bound. -/
theorem digitsRevF_len (b f : Nat) (k n : Nat) (h : n < (b + 2) ^ (k + 1)) (hk : k ≤ f) :
    (Num.digitsRevF b f n).length ≤ k + 1 := by
  induction k generalizing n f with
  | zero =>
    have : n < b + 2 := by simpa using h
    cases f <;> simp [Num.digitsRevF, this]
  | succ k ih =>
    cases f with
    | zero => omega
    | succ f =>
      unfold Num.digitsRevF
      split
      · simp
      · simp only [List.length_cons]
        have : n / (b + 2) < (b + 2) ^ (k + 1) := by
          apply Nat.div_lt_of_lt_mul
          rw [Nat.pow_succ] at h
          rw [Nat.mul_comm]; exact h
        have := ih f _ this (by omega)
        omega

theorem digitsRev_len (b : Nat) (k n : Nat) (h : n < (b + 2) ^ (k + 1)) (hk : k ≤ 64) :
    (Num.digitsRev b n).length ≤ k + 1 := digitsRevF_len b 64 k n h hk

theorem formatInt36_len (i : Int) (hi : Num.inInt32 i) : (Num.formatInt 34 i).length ≤ 8 := by
  unfold Num.inInt32 at hi
  have : i.natAbs < (34 + 2) ^ (6 + 1) := by
    have : (34 + 2) ^ (6 + 1) = 78364164096 := by decide
    omega
  have hl := digitsRev_len 34 6 i.natAbs this (by omega)
  unfold Num.formatInt Num.formatNat
  split <;> simp <;> omega

structure WFHeader (m : Msg) : Prop where
  seq : Num.inInt32 m.seq
  code : Num.inInt32 m.status.code
  method : m.method.length ≤ 255
  status : (m.status.encode).length ≤ 65535
  md : (Args.query m.md).length ≤ 65535
  mdwf : Args.WF m.md

@[simp] theorem bind_ok {α β : Type} (a : α) (f : α → Except String β) : (Except.ok a).bind f = f a := rfl
@[simp] theorem rdByte_cons (t : String) (a : UInt8) (d : Bytes) : rdByte t (a :: d) = .ok (a, d) := rfl
theorem rdN_append (t : String) (n : Nat) (l r : Bytes) (h : n = l.length) : rdN t n (l ++ r) = .ok (l, r) := by
  unfold rdN; rw [take?_append l r n h]
theorem rdU16_be16 (t : String) (n : Nat) (h : n < 65536) (r : Bytes) : rdU16 t (be16 n ++ r) = .ok (n, r) := by
  have := rdBe16_be16 n h r
  simp only [be16, List.cons_append, List.nil_append] at this ⊢
  simp only [rdU16]
  simpa using this

theorem parseData_payload (m : Msg) (h : WFHeader m) (size : Nat) (pipe : List UInt8) :
    parseData size pipe (payload m) = .ok { m with pipe := pipe, size := size } := by
  have hs := formatInt36_len m.seq h.seq
  have e1 : ((Num.formatInt 34 m.seq).length % 256).toUInt8.toNat = (Num.formatInt 34 m.seq).length :=
    toUInt8_toNat _ (by omega)
  have e2 : (m.method.length % 256).toUInt8.toNat = m.method.length := toUInt8_toNat _ (by have := h.method; omega)
  have e3 : (m.status.encode).length % 65536 = (m.status.encode).length := Nat.mod_eq_of_lt (by have := h.status; omega)
  have e4 : (Args.query m.md).length % 65536 = (Args.query m.md).length := Nat.mod_eq_of_lt (by have := h.md; omega)
  unfold parseData payload
  simp only [List.cons_append, List.append_assoc, e3, e4, rdByte_cons, bind_ok]
  rw [rdN_append _ _ _ _ e1]
  simp only [bind_ok, Num.parseInt32?_formatInt 34 (by omega) m.seq h.seq, ofOpt, rdByte_cons]
  rw [rdN_append _ _ _ _ e2]
  simp only [bind_ok]
  rw [rdU16_be16 _ _ (by have := h.status; omega)]
  simp only [bind_ok]
  rw [rdN_append _ _ _ _ rfl]
  simp only [bind_ok, Status.decode_encode m.status h.code]
  rw [rdU16_be16 _ _ (by have := h.md; omega)]
  simp only [bind_ok]
  rw [rdN_append _ _ _ _ rfl]
  simp only [bind_ok, Args.parse_query_wf m.md h.mdwf, rdByte_cons]

/-- the raw protocol's documented limits and supported field set for message `m` under filter
    registry `reg`. -/
structure WF (reg : Registry) (m : Msg) : Prop extends WFHeader m where
  pipeLen : m.pipe.length ≤ 255
  pipeReg : ∀ i ∈ m.pipe, ∃ f, reg i = some f ∧ Xfer.Lawful f

theorem append_ok (reg : Registry) (pipe : List UInt8) (h1 : pipe.length ≤ 255)
    (h2 : ∀ i ∈ pipe, ∃ f, reg i = some f ∧ Xfer.Lawful f) : Xfer.append reg [] pipe = some pipe := by
  unfold Xfer.append
  have : pipe.all (fun i => (reg i).isSome) = true := by
    rw [List.all_eq_true]; intro i hi
    obtain ⟨f, hf, _⟩ := h2 i hi; simp [hf]
  simp [this]; omega

theorem unpack_pack (reg : Registry) (limit : Nat) (m : Msg) (bs rest : Bytes) (sz : Nat)
    (hw : WF reg m) (hp : pack reg limit m = .ok (bs, sz)) (hlt : bs.length < 4294967296) :
    unpack reg limit (bs ++ rest) =
      { out := .ok { m with size := sz } rest, consumed := bs.length, alloc := max 4 (bs.length - 4),
        maxReq := max (max 4 m.pipe.length) (bs.length - (5 + m.pipe.length)) }
    ∧ sz = bs.length := by
  unfold pack at hp
  have hm : ¬ m.method.length > 255 := by have := hw.method; omega
  simp only [hm, if_false] at hp
  cases hx : Xfer.onPack reg m.pipe (payload m) with
  | none => simp [hx] at hp
  | some p =>
    simp only [hx] at hp
    split at hp
    · simp at hp
    · rename_i hlim
      simp only [Except.ok.injEq, Prod.mk.injEq] at hp
      obtain ⟨hbs, hsz⟩ := hp
      have hlen : bs.length = 4 + 1 + m.pipe.length + p.length := by
        rw [← hbs]; simp [be32]; omega
      have htot : (4 + 1 + m.pipe.length + p.length) % 4294967296 = 4 + 1 + m.pipe.length + p.length :=
        Nat.mod_eq_of_lt (by omega)
      rw [htot] at hbs hsz hlim
      have hpl := hw.pipeLen
      refine ⟨?_, by omega⟩
      rw [← hbs]
      unfold unpack
      simp only [be32, List.cons_append, List.nil_append, List.append_assoc]
      rw [rdBe32_be32 _ (by omega)]
      have c1 : ¬ (4 + 1 + m.pipe.length + p.length > limit) := hlim
      have c2 : ¬ (4 + 1 + m.pipe.length + p.length < 4) := by omega
      simp only [c1, c2, if_false]
      have c3 : ¬ (4 + 1 + m.pipe.length + p.length - 4 < 1) := by omega
      simp only [c3, if_false]
      unfold unpackXfer
      have e1 : (m.pipe.length % 256).toUInt8.toNat = m.pipe.length := toUInt8_toNat _ (by omega)
      simp only [e1]
      have c4 : ¬ (4 + 1 + m.pipe.length + p.length - 4 - 1 < m.pipe.length) := by omega
      simp only [c4, if_false]
      rw [take?_append m.pipe _ _ rfl]
      simp only [append_ok reg m.pipe hpl hw.pipeReg]
      unfold unpackTail
      rw [take?_append p rest _ (by omega)]
      simp only [onUnpack_onPack reg m.pipe hw.pipeReg _ _ hx]
      rw [parseData_payload m hw.toWFHeader]
      simp only [hsz]
      simp
      omega

end Raw
end Teleport
