/-
Lemmas/Calls — the invariant of the call/reply transition system (Model/Calls) and its preservation
by every step. Property C01 (Props/C01.lean) is read off the invariant.

`DInv x y` is the invariant of ONE direction of a session pair: `x` is the end that issues calls and
pushes, `y` the end whose reader receives them, runs the handlers and writes the replies. A pair
satisfies `DInv a b ∧ DInv b a`; a system satisfies it for every pair.
-/
import Teleport.Model.Calls
namespace Teleport.Calls

/-! ## the table -/

theorem lookup_cons (k n : Nat) (p : Pending) (t : List (Nat × Pending)) :
    lookup k ((n, p) :: t) = if n = k then some p else lookup k t := rfl

theorem lookup_mem {k : Nat} {p : Pending} : ∀ {t : List (Nat × Pending)}, lookup k t = some p → (k, p) ∈ t
  | [], h => by simp [lookup] at h
  | (n, q) :: t, h => by
    rw [lookup_cons] at h
    by_cases hn : n = k
    · simp [hn] at h; subst hn; subst h; simp
    · simp [hn] at h; exact List.mem_cons_of_mem _ (lookup_mem h)

theorem lookup_keys {k : Nat} {p : Pending} {t : List (Nat × Pending)} (h : lookup k t = some p) : k ∈ keys t := by
  have := lookup_mem h
  exact List.mem_map.2 ⟨(k, p), this, rfl⟩

theorem lookup_none_of_not_keys {k : Nat} : ∀ {t : List (Nat × Pending)}, k ∉ keys t → lookup k t = none
  | [], _ => rfl
  | (n, q) :: t, h => by
    simp [keys] at h
    rw [lookup_cons]
    have h1 : ¬ n = k := fun e => h.1 e.symm
    simp [h1]
    exact lookup_none_of_not_keys (by simpa [keys] using h.2)

theorem keys_tset (n : Nat) (v : Pending) (t : List (Nat × Pending)) : keys (tset n v t) = keys t := by
  induction t with
  | nil => rfl
  | cons e t ih =>
    simp only [keys, tset, List.map_cons] at ih ⊢
    rw [ih]
    by_cases he : e.1 = n <;> simp [he]

theorem keys_terase (n : Nat) (t : List (Nat × Pending)) : keys (terase n t) = (keys t).filter (fun k => k != n) := by
  induction t with
  | nil => rfl
  | cons e t ih =>
    unfold keys terase at ih ⊢
    by_cases he : e.1 = n
    · simp only [List.filter_cons, List.map_cons, he, bne_self_eq_false, Bool.false_eq_true, if_false]
      exact ih
    · have hb : (e.1 != n) = true := by simp [he]
      simp only [List.filter_cons, List.map_cons, hb, if_true]
      rw [ih]

theorem mem_terase {n : Nat} {e : Nat × Pending} {t : List (Nat × Pending)} (h : e ∈ terase n t) : e ∈ t :=
  (List.mem_filter.1 h).1

theorem mem_tset {n : Nat} {v : Pending} {e : Nat × Pending} {t : List (Nat × Pending)} (h : e ∈ tset n v t) :
    e ∈ t ∨ e = (n, v) := by
  simp only [tset, List.mem_map] at h
  obtain ⟨a, ha, rfl⟩ := h
  by_cases hn : a.1 = n
  · right; simp [hn]
  · left; simpa [hn] using ha

theorem lookup_tset (k n : Nat) (v : Pending) (t : List (Nat × Pending)) :
    lookup k (tset n v t) = if k = n then (lookup n t).map (fun _ => v) else lookup k t := by
  induction t with
  | nil => simp [tset, lookup]
  | cons e t ih =>
    obtain ⟨m, q⟩ := e
    simp only [tset, List.map_cons] at ih ⊢
    by_cases hm : m = n
    · subst hm
      simp only [if_true, lookup_cons]
      by_cases hk : m = k
      · subst hk; simp
      · have hk' : ¬ k = m := fun e => hk e.symm
        simp [hk, hk'] at ih ⊢
        first | exact ih | skip
    · simp only [hm, if_false, lookup_cons]
      by_cases hk : m = k
      · subst hk; simp [hm]
      · simp only [hk, if_false]; rw [ih]

theorem lookup_terase (k n : Nat) (t : List (Nat × Pending)) :
    lookup k (terase n t) = if k = n then none else lookup k t := by
  induction t with
  | nil => simp [terase, lookup]
  | cons e t ih =>
    obtain ⟨m, q⟩ := e
    unfold terase at ih ⊢
    by_cases hm : m = n
    · subst hm
      simp only [List.filter_cons, bne_self_eq_false, Bool.false_eq_true, if_false, lookup_cons]
      rw [ih]
      by_cases hk : k = m
      · simp [hk]
      · have : ¬ m = k := fun e => hk e.symm
        simp [hk, this]
    · have hb : (m != n) = true := by simp [hm]
      simp only [List.filter_cons, hb, if_true, lookup_cons]
      rw [ih]
      by_cases hk : m = k
      · subst hk; simp [hm]
      · simp [hk]

/-- `T'` knows no call that `T` does not know, and agrees with `T` on the arguments of every call. -/
def TLe (T' T : List (Nat × Pending)) : Prop :=
  ∀ k p', lookup k T' = some p' → ∃ p, lookup k T = some p ∧ p.args = p'.args ∧ p.mtok = p'.mtok

theorem TLe.refl (T : List (Nat × Pending)) : TLe T T := fun _ p h => ⟨p, h, rfl, rfl⟩

theorem TLe_terase (n : Nat) (T : List (Nat × Pending)) : TLe (terase n T) T := by
  intro k p' h
  rw [lookup_terase] at h
  by_cases hk : k = n
  · simp [hk] at h
  · simp [hk] at h; exact ⟨p', h, rfl, rfl⟩

theorem TLe_tset {n : Nat} {p : Pending} {T : List (Nat × Pending)} (hp : lookup n T = some p)
    (r : Option (Bool × Nat × Nat)) : TLe (tset n { p with reply := r } T) T := by
  intro k p' h
  rw [lookup_tset] at h
  by_cases hk : k = n
  · subst hk; simp [hp] at h; subst h; exact ⟨p, hp, rfl, rfl⟩
  · simp [hk] at h; exact ⟨p', h, rfl, rfl⟩

/-- what is known about the call with sequence number `k`, if the table still holds it. -/
def Cond (T : List (Nat × Pending)) (k : Nat) (Q : Nat → Nat → Prop) : Prop :=
  ∀ p, lookup k T = some p → Q p.args p.mtok

theorem Cond.mono {T' T : List (Nat × Pending)} (h : TLe T' T) {k : Nat} {Q : Nat → Nat → Prop}
    (c : Cond T k Q) : Cond T' k Q := by
  intro p' hp'
  obtain ⟨p, hp, ha, hm⟩ := h k p' hp'
  rw [← ha, ← hm]; exact c p hp

theorem Cond.cons_ne {T : List (Nat × Pending)} {k n : Nat} {v : Pending} {Q : Nat → Nat → Prop}
    (hne : n ≠ k) (c : Cond T k Q) : Cond ((n, v) :: T) k Q := by
  intro p hp
  rw [lookup_cons] at hp
  simp [hne] at hp
  exact c p hp

/-! ## the invariant -/

/-- `n` has been drawn from the counter and the goroutine that drew it has left `AsyncCall`/`Push`. -/
def Fresh (ctr : Nat) (cs : List Caller) (n : Nat) : Prop := n ≤ ctr ∧ ∀ c ∈ cs, c.seq ≠ n

/-- sequence numbers: callers hold pairwise distinct numbers, the table is keyed injectively, nothing
    exceeds the counter, and a number not yet stored is not a key. -/
structure SeqI (ctr : Nat) (cs : List Caller) (T : List (Nat × Pending)) : Prop where
  cnodup : (cs.map (·.seq)).Nodup
  cle : ∀ c ∈ cs, c.seq ≤ ctr
  knodup : (keys T).Nodup
  kle : ∀ k ∈ keys T, k ≤ ctr
  afresh : ∀ c ∈ cs, c.pc = .alloc → c.seq ∉ keys T

/-- everything in flight for direction x → y → x carries a number that no goroutine still inside
    `AsyncCall`/`Push` holds. -/
structure FreshI (ctr : Nat) (cs : List Caller) (xout : List Frame) (hs : List Handler) (yout : List Frame) : Prop where
  fo : ∀ f ∈ xout, f.mt = .call → Fresh ctr cs f.seq
  fh : ∀ h ∈ hs, h.isPush = false → Fresh ctr cs h.seq
  fr : ∀ f ∈ yout, f.mt = .reply → Fresh ctr cs f.seq

/-- every frame in flight and every handler goroutine carries the token of the call whose sequence
    number it carries. -/
structure LinkI (H Hm : Nat → Nat → Nat) (cs : List Caller) (T : List (Nat × Pending)) (xout : List Frame)
    (dn : List Done) (hs : List Handler) (yout : List Frame) : Prop where
  kc : ∀ c ∈ cs, c.pc = .stored → Cond T c.seq fun a m => a = c.args ∧ m = c.mtok
  ko : ∀ f ∈ xout, f.mt = .call → Cond T f.seq fun a m => a = f.body ∧ m = f.mtok
  kh : ∀ h ∈ hs, h.isPush = false → Cond T h.seq fun a m => a = h.body ∧ m = h.mtok
  kr : ∀ f ∈ yout, f.mt = .reply → f.ok = true → Cond T f.seq fun a m => f.body = H a m ∧ f.mtok = Hm a m
  kt : ∀ e ∈ T, ∀ r rm, e.2.reply = some (true, r, rm) → r = H e.2.args e.2.mtok ∧ rm = Hm e.2.args e.2.mtok
  kd : ∀ d ∈ dn, d.ok = true → d.result = H d.args d.mtok ∧ d.replyMeta = Hm d.args d.mtok

/-- a handler's output is the handler function of its own input. -/
def HLocal (H Hm : Nat → Nat → Nat) (hs : List Handler) : Prop :=
  ∀ h ∈ hs, ∀ r rm, h.out = some (true, r, rm) → r = H h.body h.mtok ∧ rm = Hm h.body h.mtok

/-- the CALL/PUSH messages of a FIFO, in order. -/
def cpMsgs (l : List Frame) : List Msg := l.filterMap Frame.msg?

/-- FIFO: the messages written are the inputs bound so far followed by the messages in flight;
    every handler goroutine holds the input logged at its own, distinct, position. -/
structure FifoI (sent : List Msg) (xout : List Frame) (inv : List Msg) (hs : List Handler) : Prop where
  fifo : sent = inv ++ cpMsgs xout
  hidx : ∀ h ∈ hs, inv[h.idx]? = some ⟨h.isPush, h.body, h.mtok⟩
  inodup : (hs.map (·.idx)).Nodup

/-- the invariant of one direction: `x` calls and pushes, `y` handles and replies. -/
structure DInv (H Hm : Nat → Nat → Nat) (x y : End) : Prop where
  sq : SeqI x.ctr x.callers x.table
  fr : FreshI x.ctr x.callers x.out y.handlers y.out
  lk : LinkI H Hm x.callers x.table x.out x.done y.handlers y.out
  hl : HLocal H Hm y.handlers
  ff : FifoI x.sent x.out y.invoked y.handlers

def PInv (H Hm : Nat → Nat → Nat) (p : Pair) : Prop := DInv H Hm p.a p.b ∧ DInv H Hm p.b p.a

def SInv (H Hm : Nat → Nat → Nat) (s : Sys) : Prop := ∀ p ∈ s, PInv H Hm p

theorem DInv.init (H Hm : Nat → Nat → Nat) : DInv H Hm End.init End.init := by
  refine ⟨⟨?_, ?_, ?_, ?_, ?_⟩, ⟨?_, ?_, ?_⟩, ⟨?_, ?_, ?_, ?_, ?_, ?_⟩, ?_, ⟨?_, ?_, ?_⟩⟩ <;>
    simp [End.init, keys, cpMsgs, HLocal]

/-! ## small helpers -/

theorem nodup_map_inj {α β : Type} {f : α → β} : ∀ {l : List α}, (l.map f).Nodup →
    ∀ {a b : α}, a ∈ l → b ∈ l → f a = f b → a = b
  | [], _, _, _, ha, _, _ => by simp at ha
  | c :: l, h, a, b, ha, hb, hab => by
    rw [List.map_cons, List.nodup_cons] at h
    rcases List.mem_cons.1 ha with rfl | ha' <;> rcases List.mem_cons.1 hb with rfl | hb'
    · rfl
    · exact absurd (List.mem_map.2 ⟨b, hb', hab.symm⟩) h.1
    · exact absurd (List.mem_map.2 ⟨a, ha', hab⟩) h.1
    · exact nodup_map_inj h.2 ha' hb' hab

theorem Fresh.sub {ctr : Nat} {cs cs' : List Caller} {n : Nat} (h : Fresh ctr cs n)
    (hs : ∀ c' ∈ cs', ∃ c ∈ cs, c.seq = c'.seq) : Fresh ctr cs' n :=
  ⟨h.1, fun c' hc' => by obtain ⟨c, hc, e⟩ := hs c' hc'; rw [← e]; exact h.2 c hc⟩

theorem Fresh.alloc {ctr : Nat} {cs : List Caller} {n : Nat} (h : Fresh ctr cs n) (c : Caller)
    (hc : c.seq = ctr + 1) : Fresh (ctr + 1) (cs ++ [c]) n := by
  refine ⟨Nat.le_succ_of_le h.1, fun d hd => ?_⟩
  rcases List.mem_append.1 hd with hd | hd
  · exact h.2 d hd
  · rw [List.mem_singleton.1 hd, hc]; have := h.1; omega

theorem FreshI.callers {ctr ctr' : Nat} {cs cs' : List Caller} {xo yo : List Frame} {hs : List Handler}
    (h : FreshI ctr cs xo hs yo) (m : ∀ n, Fresh ctr cs n → Fresh ctr' cs' n) : FreshI ctr' cs' xo hs yo :=
  ⟨fun f hf hc => m _ (h.fo f hf hc), fun g hg hc => m _ (h.fh g hg hc), fun f hf hc => m _ (h.fr f hf hc)⟩

theorem cpMsgs_append (l : List Frame) (f : Frame) :
    cpMsgs (l ++ [f]) = cpMsgs l ++ (match f.msg? with | some m => [m] | none => []) := by
  unfold cpMsgs
  rw [List.filterMap_append]
  cases h : f.msg? <;> simp [h]

theorem cpMsgs_cons (l : List Frame) (f : Frame) :
    cpMsgs (f :: l) = (match f.msg? with | some m => [m] | none => []) ++ cpMsgs l := by
  unfold cpMsgs
  cases h : f.msg? <;> simp [h]

theorem Caller.frame_msg (c : Caller) : c.frame.msg? = some c.msg := by
  cases c with
  | mk isPush pc seq args mtok => cases isPush <;> simp [Caller.frame, Frame.msg?, Caller.msg]

section steps
variable {H Hm : Nat → Nat → Nat}

/-- a step that changes only fields of `x` the other direction does not read. -/
theorem DInv.other {x x' y : End} (h : DInv H Hm y x) (hh : x'.handlers = x.handlers) (ho : x'.out = x.out)
    (hi : x'.invoked = x.invoked) : DInv H Hm y x' := by
  refine ⟨h.sq, ?_, ?_, ?_, ?_⟩
  · rw [hh, ho]; exact h.fr
  · rw [hh, ho]; exact h.lk
  · rw [hh]; exact h.hl
  · rw [hh, hi]; exact h.ff

/-! ### alloc -/

theorem inv_alloc {x y : End} (b : Bool) (a m : Nat) (hxy : DInv H Hm x y) :
    DInv H Hm { x with ctr := x.ctr + 1, callers := x.callers ++ [⟨b, .alloc, x.ctr + 1, a, m⟩] } y := by
  obtain ⟨sq, fr, lk, hl, ff⟩ := hxy
  refine ⟨⟨?_, ?_, sq.knodup, ?_, ?_⟩, fr.callers fun n h => h.alloc _ rfl, ⟨?_, lk.ko, lk.kh, lk.kr, lk.kt, lk.kd⟩, hl, ff⟩
  · show ((x.callers ++ [(⟨b, .alloc, x.ctr + 1, a, m⟩ : Caller)]).map (·.seq)).Nodup
    rw [List.map_append, List.nodup_append]
    refine ⟨sq.cnodup, by simp, ?_⟩
    intro u hu v hv
    obtain ⟨c, hc, rfl⟩ := List.mem_map.1 hu
    simp at hv; subst hv
    have := sq.cle c hc; omega
  · intro c hc
    rcases List.mem_append.1 hc with hc | hc
    · exact Nat.le_succ_of_le (sq.cle c hc)
    · rw [List.mem_singleton.1 hc]; exact Nat.le_refl _
  · intro k hk; exact Nat.le_succ_of_le (sq.kle k hk)
  · intro c hc hp
    rcases List.mem_append.1 hc with hc | hc
    · exact sq.afresh c hc hp
    · rw [List.mem_singleton.1 hc]; intro hk; have := sq.kle _ hk; simp at this; omega
  · intro c hc hp
    rcases List.mem_append.1 hc with hc | hc
    · exact lk.kc c hc hp
    · rw [List.mem_singleton.1 hc] at hp; cases hp

/-! ### store -/

def storeMap (n : Nat) (d : Caller) : Caller := if d.canStore n then { d with pc := .stored } else d

theorem storeMap_seq (n : Nat) (d : Caller) : (storeMap n d).seq = d.seq := by
  unfold storeMap; split <;> rfl

theorem canStore_iff {n : Nat} {c : Caller} : c.canStore n = true ↔ c.seq = n ∧ c.pc = .alloc ∧ c.isPush = false := by
  simp [Caller.canStore, and_assoc]

theorem inv_store {x y : End} {n : Nat} {c : Caller} (hc : c ∈ x.callers) (hcs : c.canStore n = true)
    (hxy : DInv H Hm x y) :
    DInv H Hm { x with callers := x.callers.map (storeMap n), table := (n, ⟨c.args, c.mtok, none⟩) :: x.table } y := by
  obtain ⟨sq, fr, lk, hl, ff⟩ := hxy
  obtain ⟨hseq, hpc, hpush⟩ := canStore_iff.1 hcs
  have hmapseq : (x.callers.map (storeMap n)).map (·.seq) = x.callers.map (·.seq) := by
    rw [List.map_map]; apply List.map_congr_left; intro d _; exact storeMap_seq n d
  have hsub : ∀ c' ∈ x.callers.map (storeMap n), ∃ d ∈ x.callers, d.seq = c'.seq := by
    intro c' hc'; obtain ⟨d, hd, rfl⟩ := List.mem_map.1 hc'; exact ⟨d, hd, (storeMap_seq n d).symm⟩
  have hne : ∀ k, Fresh x.ctr x.callers k → n ≠ k := fun k hk e => hk.2 c hc (hseq.trans e)
  refine ⟨⟨?_, ?_, ?_, ?_, ?_⟩, fr.callers fun k h => h.sub hsub, ⟨?_, ?_, ?_, ?_, ?_, lk.kd⟩, hl, ff⟩
  · show ((x.callers.map (storeMap n)).map (·.seq)).Nodup
    rw [hmapseq]; exact sq.cnodup
  · intro c' hc'; obtain ⟨d, hd, e⟩ := hsub c' hc'; rw [← e]; exact sq.cle d hd
  · show (keys ((n, _) :: x.table)).Nodup
    simp only [keys, List.map_cons, List.nodup_cons]
    exact ⟨by rw [← hseq]; exact sq.afresh c hc hpc, sq.knodup⟩
  · intro k hk
    simp only [keys, List.map_cons, List.mem_cons] at hk
    rcases hk with rfl | hk
    · rw [← hseq]; exact sq.cle c hc
    · exact sq.kle k hk
  · intro c' hc' hp
    obtain ⟨d, hd, rfl⟩ := List.mem_map.1 hc'
    have hds : ¬ d.canStore n = true := by
      intro h; simp [storeMap, h] at hp
    have hd' : storeMap n d = d := by simp [storeMap, hds]
    rw [hd'] at hp ⊢
    simp only [keys, List.map_cons, List.mem_cons, not_or]
    refine ⟨fun e => ?_, sq.afresh d hd hp⟩
    have : d = c := nodup_map_inj sq.cnodup hd hc (e.trans hseq.symm)
    exact hds (this ▸ hcs)
  · intro c' hc' hp
    obtain ⟨d, hd, rfl⟩ := List.mem_map.1 hc'
    by_cases hds : d.canStore n = true
    · have : d = c := nodup_map_inj sq.cnodup hd hc ((canStore_iff.1 hds).1.trans hseq.symm)
      subst this
      simp only [storeMap, hds, if_true]
      intro p hp'
      rw [hseq, lookup_cons] at hp'
      simp at hp'; subst hp'; exact ⟨rfl, rfl⟩
    · have hd' : storeMap n d = d := by simp [storeMap, hds]
      rw [hd'] at hp ⊢
      refine Cond.cons_ne (fun e => ?_) (lk.kc d hd hp)
      have : d = c := nodup_map_inj sq.cnodup hd hc (e.symm.trans hseq.symm)
      rw [this, hpc] at hp; cases hp
  · intro f hf hm; exact Cond.cons_ne (hne _ (fr.fo f hf hm)) (lk.ko f hf hm)
  · intro h hh hp; exact Cond.cons_ne (hne _ (fr.fh h hh hp)) (lk.kh h hh hp)
  · intro f hf hm hok; exact Cond.cons_ne (hne _ (fr.fr f hf hm)) (lk.kr f hf hm hok)
  · intro e he r rm hr
    rcases List.mem_cons.1 he with rfl | he
    · simp at hr
    · exact lk.kt e he r rm hr

/-! ### write -/

theorem canWrite_iff {n : Nat} {c : Caller} : c.canWrite n = true ↔
    c.seq = n ∧ ((c.isPush = true ∧ c.pc = .alloc) ∨ (c.isPush = false ∧ c.pc = .stored)) := by
  simp [Caller.canWrite]

theorem inv_write {x y : End} {n : Nat} {c : Caller} (hc : c ∈ x.callers) (hcw : c.canWrite n = true)
    (hxy : DInv H Hm x y) :
    DInv H Hm { x with callers := x.callers.filter (fun d => !d.canWrite n), out := x.out ++ [c.frame],
                       sent := x.sent ++ [c.msg] } y := by
  obtain ⟨sq, fr, lk, hl, ff⟩ := hxy
  obtain ⟨hseq, hkind⟩ := canWrite_iff.1 hcw
  have hsub : ∀ c' ∈ x.callers.filter (fun d => !d.canWrite n), ∃ d ∈ x.callers, d.seq = c'.seq :=
    fun c' hc' => ⟨c', (List.mem_filter.1 hc').1, rfl⟩
  have hmem : ∀ c' ∈ x.callers.filter (fun d => !d.canWrite n), c' ∈ x.callers := fun c' hc' => (List.mem_filter.1 hc').1
  have hfr := fr.callers (cs' := x.callers.filter (fun d => !d.canWrite n)) (ctr' := x.ctr) fun k h => h.sub hsub
  have hframe_call : c.frame.mt = .call → c.isPush = false := by
    intro h; cases hb : c.isPush <;> simp [Caller.frame, hb] at h ⊢
  refine ⟨⟨?_, fun c' hc' => sq.cle c' (hmem c' hc'), sq.knodup, sq.kle, fun c' hc' => sq.afresh c' (hmem c' hc')⟩,
    ⟨?_, hfr.fh, hfr.fr⟩, ⟨fun c' hc' => lk.kc c' (hmem c' hc'), ?_, lk.kh, lk.kr, lk.kt, lk.kd⟩, hl, ⟨?_, ff.hidx, ff.inodup⟩⟩
  · exact (List.filter_sublist.map _).nodup sq.cnodup
  · intro f hf hm
    rcases List.mem_append.1 hf with hf | hf
    · exact hfr.fo f hf hm
    · rw [List.mem_singleton.1 hf] at hm ⊢
      refine ⟨by show c.seq ≤ x.ctr; exact sq.cle c hc, fun d hd e => ?_⟩
      have hd' := List.mem_filter.1 hd
      have : d = c := nodup_map_inj sq.cnodup hd'.1 hc e
      rw [this, hcw] at hd'; simp at hd'
  · intro f hf hm
    rcases List.mem_append.1 hf with hf | hf
    · exact lk.ko f hf hm
    · rw [List.mem_singleton.1 hf] at hm ⊢
      have hp := hframe_call hm
      have hst : c.pc = .stored := by
        rcases hkind with ⟨h1, _⟩ | ⟨_, h2⟩
        · rw [hp] at h1; cases h1
        · exact h2
      exact lk.kc c hc hst
  · show x.sent ++ [c.msg] = y.invoked ++ cpMsgs (x.out ++ [c.frame])
    rw [cpMsgs_append, Caller.frame_msg, ← List.append_assoc, ← ff.fifo]

theorem inv_write_other {x y : End} {c : Caller} (cs' : List Caller) (sent' : List Msg) (hyx : DInv H Hm y x) :
    DInv H Hm y { x with callers := cs', out := x.out ++ [c.frame], sent := sent' } := by
  obtain ⟨sq, fr, lk, hl, ff⟩ := hyx
  have hnr : c.frame.mt ≠ .reply := by cases hb : c.isPush <;> simp [Caller.frame, hb]
  refine ⟨sq, ⟨fr.fo, fr.fh, ?_⟩, ⟨lk.kc, lk.ko, lk.kh, ?_, lk.kt, lk.kd⟩, hl, ff⟩
  · intro f hf hm
    rcases List.mem_append.1 hf with hf | hf
    · exact fr.fr f hf hm
    · rw [List.mem_singleton.1 hf] at hm; exact absurd hm hnr
  · intro f hf hm
    rcases List.mem_append.1 hf with hf | hf
    · exact lk.kr f hf hm
    · rw [List.mem_singleton.1 hf] at hm; exact absurd hm hnr

/-! ### recv -/

theorem getElem?_lt_of_some {α : Type} {l : List α} {i : Nat} {a : α} (h : l[i]? = some a) : i < l.length := by
  rcases Nat.lt_or_ge i l.length with h1 | h1
  · exact h1
  · rw [List.getElem?_eq_none h1] at h; cases h

/-- the receiving side of `recv` for a CALL/PUSH frame: `y` wrote `f`, `x` binds it. -/
theorem inv_recv_cp_handler {x y : End} {f : Frame} {rest : List Frame} (hout : y.out = f :: rest)
    (hnr : f.mt ≠ .reply) (hyx : DInv H Hm y x) :
    DInv H Hm { y with out := rest }
      { x with handlers := x.handlers ++ [⟨f.mt == .push, x.invoked.length, f.seq, f.body, f.mtok, none⟩],
               invoked := x.invoked ++ [⟨f.mt == .push, f.body, f.mtok⟩] } := by
  obtain ⟨sq, fr, lk, hl, ff⟩ := hyx
  rw [hout] at fr lk ff
  have hcall : (f.mt == .push) = false → f.mt = .call := by
    intro h; cases hm : f.mt <;> simp [hm] at h hnr ⊢
  have hmsg : f.msg? = some ⟨f.mt == .push, f.body, f.mtok⟩ := by simp [Frame.msg?, hnr]
  refine ⟨sq, ⟨fun g hg => fr.fo g (List.mem_cons_of_mem _ hg), ?_, fr.fr⟩,
    ⟨lk.kc, fun g hg => lk.ko g (List.mem_cons_of_mem _ hg), ?_, lk.kr, lk.kt, lk.kd⟩, ?_, ⟨?_, ?_, ?_⟩⟩
  · intro h hh hp
    rcases List.mem_append.1 hh with hh | hh
    · exact fr.fh h hh hp
    · rw [List.mem_singleton.1 hh] at hp ⊢
      exact fr.fo f (List.mem_cons_self ..) (hcall hp)
  · intro h hh hp
    rcases List.mem_append.1 hh with hh | hh
    · exact lk.kh h hh hp
    · rw [List.mem_singleton.1 hh] at hp ⊢
      exact lk.ko f (List.mem_cons_self ..) (hcall hp)
  · intro h hh r rm ho
    rcases List.mem_append.1 hh with hh | hh
    · exact hl h hh r rm ho
    · rw [List.mem_singleton.1 hh] at ho; cases ho
  · show y.sent = (x.invoked ++ [_]) ++ cpMsgs rest
    rw [ff.fifo, cpMsgs_cons, hmsg, List.append_assoc]
  · intro h hh
    rcases List.mem_append.1 hh with hh | hh
    · have := ff.hidx h hh
      show (x.invoked ++ [_])[h.idx]? = _
      rw [List.getElem?_append_left (getElem?_lt_of_some this)]; exact this
    · rw [List.mem_singleton.1 hh]
      show (x.invoked ++ [_])[x.invoked.length]? = _
      simp
  · show ((x.handlers ++ [_]).map Handler.idx).Nodup
    rw [List.map_append, List.nodup_append]
    refine ⟨ff.inodup, by simp, ?_⟩
    intro u hu v hv
    obtain ⟨h, hh, rfl⟩ := List.mem_map.1 hu
    simp at hv; subst hv
    exact Nat.ne_of_lt (getElem?_lt_of_some (ff.hidx h hh))

/-- the other direction of any `recv`: `x` (as a caller) only sees the peer's FIFO shrink. -/
theorem inv_recv_caller_side {x y : End} {f : Frame} {rest : List Frame} (hout : y.out = f :: rest)
    (hxy : DInv H Hm x y) : DInv H Hm x { y with out := rest } := by
  obtain ⟨sq, fr, lk, hl, ff⟩ := hxy
  rw [hout] at fr lk
  exact ⟨sq, ⟨fr.fo, fr.fh, fun g hg => fr.fr g (List.mem_cons_of_mem _ hg)⟩,
    ⟨lk.kc, lk.ko, lk.kh, fun g hg => lk.kr g (List.mem_cons_of_mem _ hg), lk.kt, lk.kd⟩, hl, ff⟩

/-- `y` wrote a REPLY frame and `x` takes it off the FIFO: direction y → x. -/
theorem inv_recv_reply_handler {x x' y : End} {f : Frame} {rest : List Frame} (hout : y.out = f :: rest)
    (hr : f.mt = .reply) (hh : x'.handlers = x.handlers) (ho : x'.out = x.out) (hi : x'.invoked = x.invoked)
    (hyx : DInv H Hm y x) : DInv H Hm { y with out := rest } x' := by
  obtain ⟨sq, fr, lk, hl, ff⟩ := hyx
  rw [hout] at fr lk ff
  have hmsg : f.msg? = none := by simp [Frame.msg?, hr]
  refine ⟨sq, ?_, ?_, ?_, ?_⟩
  · rw [hh, ho]; exact ⟨fun g hg => fr.fo g (List.mem_cons_of_mem _ hg), fr.fh, fr.fr⟩
  · rw [hh, ho]; exact ⟨lk.kc, fun g hg => lk.ko g (List.mem_cons_of_mem _ hg), lk.kh, lk.kr, lk.kt, lk.kd⟩
  · rw [hh]; exact hl
  · rw [hh, hi]
    refine ⟨?_, ff.hidx, ff.inodup⟩
    show y.sent = x.invoked ++ cpMsgs rest
    rw [ff.fifo, cpMsgs_cons, hmsg]; rfl

/-- `bindReply`: the reply frame at the head of the peer's FIFO is read into the entry of its seq. -/
theorem inv_recv_reply_bound {x y : End} {f : Frame} {rest : List Frame} {p : Pending} (hout : y.out = f :: rest)
    (hr : f.mt = .reply) (hp : lookup f.seq x.table = some p) (hxy : DInv H Hm x y) :
    DInv H Hm { x with table := tset f.seq { p with reply := some (f.ok, f.body, f.mtok) } x.table }
      { y with out := rest } := by
  obtain ⟨sq, fr, lk, hl, ff⟩ := hxy
  rw [hout] at fr lk
  have hle := TLe_tset hp (some (f.ok, f.body, f.mtok))
  refine ⟨⟨sq.cnodup, sq.cle, ?_, ?_, ?_⟩, ⟨fr.fo, fr.fh, fun g hg => fr.fr g (List.mem_cons_of_mem _ hg)⟩,
    ⟨fun c hc h => (lk.kc c hc h).mono hle, fun g hg h => (lk.ko g hg h).mono hle, fun g hg h => (lk.kh g hg h).mono hle,
     fun g hg h1 h2 => (lk.kr g (List.mem_cons_of_mem _ hg) h1 h2).mono hle, ?_, lk.kd⟩, hl, ff⟩
  · show (keys (tset _ _ _)).Nodup
    rw [keys_tset]; exact sq.knodup
  · show ∀ k ∈ keys (tset _ _ _), _
    rw [keys_tset]; exact sq.kle
  · show ∀ c ∈ x.callers, _ → _ ∉ keys (tset _ _ _)
    rw [keys_tset]; exact sq.afresh
  · intro e he r rm hre
    rcases mem_tset he with he | rfl
    · exact lk.kt e he r rm hre
    · simp only [Option.some.injEq, Prod.mk.injEq] at hre
      obtain ⟨hok, rfl, rfl⟩ := hre
      exact lk.kr f (List.mem_cons_self ..) hr hok p hp

/-! ### hRun -/

def runMap (H Hm : Nat → Nat → Nat) (idx : Nat) (ok : Bool) (g : Handler) : Handler :=
  if g.idx == idx then { g with out := some (hOut H Hm ok g.body g.mtok) } else g

theorem hOut_ok {ok : Bool} {b m r rm : Nat} (h : hOut H Hm ok b m = (true, r, rm)) : r = H b m ∧ rm = Hm b m := by
  cases ok <;> simp [hOut] at h
  exact ⟨h.1.symm, h.2.symm⟩

/-- handler goroutines leave (push handler finished, reply written): direction y → x. -/
theorem inv_handlers_filter {x y : End} (q : Handler → Bool) (hyx : DInv H Hm y x) :
    DInv H Hm y { x with handlers := x.handlers.filter q } := by
  obtain ⟨sq, fr, lk, hl, ff⟩ := hyx
  have hm : ∀ h ∈ x.handlers.filter q, h ∈ x.handlers := fun h hh => (List.mem_filter.1 hh).1
  exact ⟨sq, ⟨fr.fo, fun h hh => fr.fh h (hm h hh), fr.fr⟩,
    ⟨lk.kc, lk.ko, fun h hh => lk.kh h (hm h hh), lk.kr, lk.kt, lk.kd⟩, fun h hh => hl h (hm h hh),
    ⟨ff.fifo, fun h hh => ff.hidx h (hm h hh), (List.filter_sublist.map _).nodup ff.inodup⟩⟩

theorem inv_hrun_map {x y : End} (idx : Nat) (ok : Bool) (hyx : DInv H Hm y x) :
    DInv H Hm y { x with handlers := x.handlers.map (runMap H Hm idx ok) } := by
  obtain ⟨sq, fr, lk, hl, ff⟩ := hyx
  have hsame : ∀ g : Handler, (runMap H Hm idx ok g).isPush = g.isPush ∧ (runMap H Hm idx ok g).idx = g.idx ∧
      (runMap H Hm idx ok g).seq = g.seq ∧ (runMap H Hm idx ok g).body = g.body ∧ (runMap H Hm idx ok g).mtok = g.mtok := by
    intro g; unfold runMap; split <;> simp
  refine ⟨sq, ⟨fr.fo, ?_, fr.fr⟩, ⟨lk.kc, lk.ko, ?_, lk.kr, lk.kt, lk.kd⟩, ?_, ⟨ff.fifo, ?_, ?_⟩⟩
  · intro h hh hp
    obtain ⟨g, hg, rfl⟩ := List.mem_map.1 hh
    obtain ⟨e1, _, e3, _, _⟩ := hsame g
    rw [e1] at hp; rw [e3]; exact fr.fh g hg hp
  · intro h hh hp
    obtain ⟨g, hg, rfl⟩ := List.mem_map.1 hh
    obtain ⟨e1, _, e3, e4, e5⟩ := hsame g
    rw [e1] at hp; rw [e3, e4, e5]; exact lk.kh g hg hp
  · intro h hh r rm ho
    obtain ⟨g, hg, rfl⟩ := List.mem_map.1 hh
    obtain ⟨_, _, _, e4, e5⟩ := hsame g
    rw [e4, e5]
    unfold runMap at ho
    split at ho
    · simp only [Option.some.injEq] at ho; exact hOut_ok ho
    · exact hl g hg r rm ho
  · intro h hh
    obtain ⟨g, hg, rfl⟩ := List.mem_map.1 hh
    obtain ⟨e1, e2, _, e4, e5⟩ := hsame g
    rw [e1, e2, e4, e5]; exact ff.hidx g hg
  · show ((x.handlers.map (runMap H Hm idx ok)).map (·.idx)).Nodup
    have : (x.handlers.map (runMap H Hm idx ok)).map (·.idx) = x.handlers.map (·.idx) := by
      rw [List.map_map]; apply List.map_congr_left; intro g _; exact (hsame g).2.1
    rw [this]; exact ff.inodup

/-! ### replyWrite -/

/-- direction y → x: handler `h` of `x` leaves and its reply frame is appended to `x.out`. -/
theorem inv_reply_handler {x y : End} {h : Handler} {ok : Bool} {r rm : Nat} (hh : h ∈ x.handlers)
    (hp : h.isPush = false) (ho : h.out = some (ok, r, rm)) (q : Handler → Bool) (hyx : DInv H Hm y x) :
    DInv H Hm y { x with handlers := x.handlers.filter q, out := x.out ++ [⟨.reply, h.seq, ok, r, rm⟩] } := by
  have h0 := hyx
  obtain ⟨sq, fr, lk, hl, ff⟩ := inv_handlers_filter q hyx
  refine ⟨sq, ⟨fr.fo, fr.fh, ?_⟩, ⟨lk.kc, lk.ko, lk.kh, ?_, lk.kt, lk.kd⟩, hl, ff⟩
  · intro f hf hm
    rcases List.mem_append.1 hf with hf | hf
    · exact fr.fr f hf hm
    · rw [List.mem_singleton.1 hf]; exact h0.fr.fh h hh hp
  · intro f hf hm hok
    rcases List.mem_append.1 hf with hf | hf
    · exact lk.kr f hf hm hok
    · rw [List.mem_singleton.1 hf] at hok ⊢
      simp only at hok; subst hok
      obtain ⟨e1, e2⟩ := h0.hl h hh r rm ho
      intro p hpl
      obtain ⟨a1, a2⟩ := h0.lk.kh h hh hp p hpl
      show r = H p.args p.mtok ∧ rm = Hm p.args p.mtok
      rw [a1, a2]; exact ⟨e1, e2⟩

/-- direction x → y: a REPLY frame appended to `x.out` is invisible to `x` as a caller. -/
theorem inv_reply_caller_side {x y : End} (hs' : List Handler) (n : Nat) (ok : Bool) (r rm : Nat)
    (hxy : DInv H Hm x y) : DInv H Hm { x with handlers := hs', out := x.out ++ [⟨.reply, n, ok, r, rm⟩] } y := by
  obtain ⟨sq, fr, lk, hl, ff⟩ := hxy
  refine ⟨sq, ⟨?_, fr.fh, fr.fr⟩, ⟨lk.kc, ?_, lk.kh, lk.kr, lk.kt, lk.kd⟩, hl, ⟨?_, ff.hidx, ff.inodup⟩⟩
  · intro f hf hm
    rcases List.mem_append.1 hf with hf | hf
    · exact fr.fo f hf hm
    · rw [List.mem_singleton.1 hf] at hm; cases hm
  · intro f hf hm
    rcases List.mem_append.1 hf with hf | hf
    · exact lk.ko f hf hm
    · rw [List.mem_singleton.1 hf] at hm; cases hm
  · show x.sent = y.invoked ++ cpMsgs (x.out ++ [_])
    rw [cpMsgs_append]; simp [Frame.msg?]; exact ff.fifo

/-! ### complete / cancel -/

theorem inv_finish {x y : End} {n : Nat} {p : Pending} (hp : lookup n x.table = some p) (d : Done)
    (hd : d.ok = true → ∃ r rm, p.reply = some (true, r, rm) ∧ d.args = p.args ∧ d.mtok = p.mtok ∧ d.result = r ∧ d.replyMeta = rm)
    (hxy : DInv H Hm x y) : DInv H Hm { x with table := terase n x.table, done := d :: x.done } y := by
  obtain ⟨sq, fr, lk, hl, ff⟩ := hxy
  have hle := TLe_terase n x.table
  have hk : ∀ k ∈ keys (terase n x.table), k ∈ keys x.table := by
    intro k hk; rw [keys_terase] at hk; exact (List.mem_filter.1 hk).1
  refine ⟨⟨sq.cnodup, sq.cle, ?_, fun k hk' => sq.kle k (hk k hk'), fun c hc hpc hin => sq.afresh c hc hpc (hk _ hin)⟩, fr,
    ⟨fun c hc h => (lk.kc c hc h).mono hle, fun g hg h => (lk.ko g hg h).mono hle, fun g hg h => (lk.kh g hg h).mono hle,
     fun g hg h1 h2 => (lk.kr g hg h1 h2).mono hle, fun e he => lk.kt e (mem_terase he), ?_⟩, hl, ff⟩
  · show (keys (terase n x.table)).Nodup
    rw [keys_terase]; exact List.filter_sublist.nodup sq.knodup
  · intro d' hd' hok
    rcases List.mem_cons.1 hd' with rfl | hd'
    · obtain ⟨r, rm, hr, e1, e2, e3, e4⟩ := hd hok
      have := lk.kt (n, p) (lookup_mem hp) r rm hr
      simp only at this
      rw [e1, e2, e3, e4]; exact this
    · exact lk.kd d' hd' hok

/-! ## every step preserves the invariant -/

theorem DInv.caller_same {x x' y : End} (h : DInv H Hm x y) (e1 : x'.ctr = x.ctr) (e2 : x'.callers = x.callers)
    (e3 : x'.table = x.table) (e4 : x'.out = x.out) (e5 : x'.done = x.done) (e6 : x'.sent = x.sent) :
    DInv H Hm x' y := by
  refine ⟨?_, ?_, ?_, h.hl, ?_⟩
  · rw [e1, e2, e3]; exact h.sq
  · rw [e1, e2, e4]; exact h.fr
  · rw [e2, e3, e4, e5]; exact h.lk
  · rw [e4, e6]; exact h.ff

theorem estep_inv {x y x' y' : End} {e : Ev} (h : estep H Hm x y e = some (x', y'))
    (hxy : DInv H Hm x y) (hyx : DInv H Hm y x) : DInv H Hm x' y' ∧ DInv H Hm y' x' := by
  cases e with
  | alloc b a m =>
    simp only [estep, Option.some.injEq, Prod.mk.injEq] at h
    obtain ⟨rfl, rfl⟩ := h
    exact ⟨inv_alloc b a m hxy, hyx.other rfl rfl rfl⟩
  | store n =>
    simp only [estep] at h
    split at h
    · cases h
    · rename_i c hc
      simp only [Option.some.injEq, Prod.mk.injEq] at h
      obtain ⟨rfl, rfl⟩ := h
      exact ⟨inv_store (List.mem_of_find?_eq_some hc) (List.find?_some hc) hxy, hyx.other rfl rfl rfl⟩
  | write n =>
    simp only [estep] at h
    split at h
    · cases h
    · rename_i c hc
      simp only [Option.some.injEq, Prod.mk.injEq] at h
      obtain ⟨rfl, rfl⟩ := h
      exact ⟨inv_write (List.mem_of_find?_eq_some hc) (List.find?_some hc) hxy, inv_write_other _ _ hyx⟩
  | recv =>
    simp only [estep] at h
    split at h
    · cases h
    · rename_i f rest hout
      simp only [Option.some.injEq, Prod.mk.injEq] at h
      obtain ⟨rfl, rfl⟩ := h
      by_cases hr : f.mt = .reply
      · unfold bind
        simp only [hr, if_true]
        split
        · rename_i p hp
          exact ⟨inv_recv_reply_bound hout hr hp hxy, inv_recv_reply_handler (x := x) hout hr rfl rfl rfl hyx⟩
        · exact ⟨inv_recv_caller_side hout hxy, inv_recv_reply_handler (x := x) hout hr rfl rfl rfl hyx⟩
      · unfold bind
        simp only [hr, if_false]
        exact ⟨(inv_recv_caller_side hout hxy).caller_same rfl rfl rfl rfl rfl rfl, inv_recv_cp_handler hout hr hyx⟩
  | hRun idx ok =>
    simp only [estep] at h
    split at h
    · cases h
    · rename_i g hg
      split at h
      · simp only [Option.some.injEq, Prod.mk.injEq] at h
        obtain ⟨rfl, rfl⟩ := h
        exact ⟨hxy.caller_same rfl rfl rfl rfl rfl rfl, inv_handlers_filter _ hyx⟩
      · simp only [Option.some.injEq, Prod.mk.injEq] at h
        obtain ⟨rfl, rfl⟩ := h
        exact ⟨hxy.caller_same rfl rfl rfl rfl rfl rfl, inv_hrun_map idx ok hyx⟩
  | replyWrite idx =>
    simp only [estep] at h
    split at h
    · cases h
    · rename_i g hg
      split at h
      · cases h
      · rename_i ok r rm hout
        simp only [Option.some.injEq, Prod.mk.injEq] at h
        obtain ⟨rfl, rfl⟩ := h
        have hq := List.find?_some hg
        simp only [Bool.and_eq_true, Bool.not_eq_true', beq_iff_eq] at hq
        exact ⟨inv_reply_caller_side _ g.seq ok r rm hxy,
          inv_reply_handler (List.mem_of_find?_eq_some hg) hq.2 hout _ hyx⟩
  | complete n =>
    simp only [estep] at h
    split at h
    · cases h
    · rename_i p hp
      split at h
      · cases h
      · rename_i ok r rm hrep
        simp only [Option.some.injEq, Prod.mk.injEq] at h
        obtain ⟨rfl, rfl⟩ := h
        refine ⟨inv_finish hp _ (fun hok => ⟨r, rm, ?_, rfl, rfl, rfl, rfl⟩) hxy, hyx.other rfl rfl rfl⟩
        simp only at hok; rw [hrep, hok]
  | cancel n =>
    simp only [estep] at h
    split at h
    · cases h
    · rename_i p hp
      split at h
      · cases h
      · simp only [Option.some.injEq, Prod.mk.injEq] at h
        obtain ⟨rfl, rfl⟩ := h
        exact ⟨inv_finish hp _ (fun hok => by simp at hok) hxy, hyx.other rfl rfl rfl⟩

theorem pstep_inv {p q : Pair} {sd : Side} {e : Ev} (h : pstep H Hm p sd e = some q) (hp : PInv H Hm p) :
    PInv H Hm q := by
  cases sd with
  | a =>
    simp only [pstep, Option.map_eq_some_iff] at h
    obtain ⟨⟨x', y'⟩, hs, rfl⟩ := h
    exact estep_inv hs hp.1 hp.2
  | b =>
    simp only [pstep, Option.map_eq_some_iff] at h
    obtain ⟨⟨x', y'⟩, hs, rfl⟩ := h
    exact (estep_inv hs hp.2 hp.1).symm

theorem step_spec {s t : Sys} {i : Nat} {sd : Side} {e : Ev} (h : step H Hm s i sd e = some t) :
    ∃ p q, s[i]? = some p ∧ pstep H Hm p sd e = some q ∧ t = s.set i q := by
  unfold step at h
  split at h
  · cases h
  · rename_i p hp
    simp only [Option.map_eq_some_iff] at h
    obtain ⟨q, hq, rfl⟩ := h
    exact ⟨p, q, hp, hq, rfl⟩

theorem step_inv {s t : Sys} {i : Nat} {sd : Side} {e : Ev} (h : step H Hm s i sd e = some t)
    (hs : SInv H Hm s) : SInv H Hm t := by
  obtain ⟨p, q, hp, hq, rfl⟩ := step_spec h
  intro r hr
  rcases List.mem_or_eq_of_mem_set hr with hr | rfl
  · exact hs r hr
  · exact pstep_inv hq (hs p (List.mem_of_getElem? hp))

theorem connect_inv {s : Sys} (hs : SInv H Hm s) : SInv H Hm (connect s) := by
  intro r hr
  rcases List.mem_append.1 hr with hr | hr
  · exact hs r hr
  · rw [List.mem_singleton.1 hr]; exact ⟨DInv.init H Hm, DInv.init H Hm⟩

theorem reach_inv {s : Sys} (h : Reach H Hm s) : SInv H Hm s := by
  induction h with
  | init => intro p hp; cases hp
  | connect _ ih => exact connect_inv ih
  | step i sd e _ hst ih => exact step_inv hst ih

/-- a schedule: which end of which pair takes which step. -/
def runEvs (H Hm : Nat → Nat → Nat) : Sys → List (Nat × Side × Ev) → Option Sys
  | s, [] => some s
  | s, (i, sd, e) :: rest => (step H Hm s i sd e).bind fun t => runEvs H Hm t rest

theorem Reach.run {s : Sys} (h : Reach H Hm s) : ∀ {l : List (Nat × Side × Ev)} {t : Sys}, runEvs H Hm s l = some t → Reach H Hm t := by
  intro l
  induction l generalizing s with
  | nil => intro t ht; simp only [runEvs, Option.some.injEq] at ht; exact ht ▸ h
  | cons a l ih =>
    intro t ht
    obtain ⟨i, sd, e⟩ := a
    simp only [runEvs, Option.bind_eq_some_iff] at ht
    obtain ⟨u, hu, ht⟩ := ht
    exact ih (Reach.step i sd e h hu) ht

/-- the two ends of a pair, each with its peer. -/
def dirs (p : Pair) : List (End × End) := [(p.a, p.b), (p.b, p.a)]

theorem dirs_inv {s : Sys} (h : Reach H Hm s) {p : Pair} (hp : p ∈ s) {x y : End} (hd : (x, y) ∈ dirs p) :
    DInv H Hm x y := by
  have := reach_inv h p hp
  simp only [dirs, List.mem_cons, Prod.mk.injEq, List.mem_nil_iff, or_false] at hd
  rcases hd with ⟨rfl, rfl⟩ | ⟨rfl, rfl⟩
  · exact this.1
  · exact this.2


end steps
end Teleport.Calls
