/-
Lemmas/HttpWF — the supported field set `WFh` of httproto and the round trip
`unpack (pack m ++ rest)` for it (Model/HttpProto, Lemmas/HttpProto).
-/
import Teleport.Lemmas.HttpProto
namespace Teleport
namespace HttpP
open Bytes

/-- metadata inside the supported set: every pair `pairOK`, keys pairwise different. -/
def mdOK (md : List Args.KV) : Bool := md.all pairOK && decide ((md.map (·.1)).Nodup)

/-- The supported field set of httproto (decidable). Sequence number int32; body codec one of the
    five ids with a Content-Type (`j p f s x`); at most one transfer filter (the code supports gzip
    only and names a single filter in `X-Content-Encoding`); metadata `mdOK`; a request (CALL /
    AUTH_CALL) has no status and a plain-path service method; a response (REPLY / AUTH_REPLY) has no
    service method, and either no status, or a status with a non-zero int32 code, no body and the
    JSON codec (the status travels as the entity). -/
def WFh (m : Msg) : Bool :=
  decide (Num.inInt32 m.seq) && codecOK m.codec && mdOK m.md && decide (m.pipe.length ≤ 1) &&
  (if m.mtype == 1 || m.mtype == 4 then m.status == Status.zero && methodOK m.method
   else if m.mtype == 2 || m.mtype == 5 then
     m.method.isEmpty &&
       (if m.status.code == 0 then m.status == Status.zero
        else decide (Num.inInt32 m.status.code) && m.body.isEmpty && m.codec == 106)
   else false)

/-- what the environment must provide for a filter id of the message's pipe: it is a gzip filter,
    registered under a clean name that leads back to it, and its unpack inverts its pack (which never
    fails and never returns the empty string: a gzip stream has a header). -/
def GzOK (env : Env) (g : UInt8) : Prop :=
  env.gz g = true ∧ env.byName (env.fname g) = some g ∧ valueOK (env.fname g) = true ∧ env.fname g ≠ [] ∧
  ∃ f, env.reg g = some f ∧ ∀ x, ∃ y, f.pack x = some y ∧ y ≠ [] ∧ f.unpack y = some x

/-- the two encoding headers of a filtered message. -/
def preOf (env : Env) : List UInt8 → List Args.KV
  | [] => []
  | g :: _ => [(kCE, vGzip), (kXCE, env.fname g)]

/-- the header map before `packRequest` / `packResponse`. -/
def coreE (env : Env) (m : Msg) : List Args.KV :=
  preOf env m.pipe ++ [(kXSeq, Num.formatInt 8 m.seq), (kXMtype, Num.formatNat 8 m.mtype.toNat)] ++ m.md

def postReq (ct : Bytes) (n : Nat) : List Args.KV := [(kUA, vUA), (kCT, ct), (kCL, Num.formatNat 8 n), (kAE, vGzip)]
def postResp (ct : Bytes) (n : Nat) : List Args.KV := [(kCT, ct), (kCL, Num.formatNat 8 n)]

def coreOwn : List Bytes := [kCE, kXCE, kXSeq, kXMtype]
def postKeys : List Bytes := [kUA, kCT, kCL, kAE]

theorem mdOK_parts {md : List Args.KV} (h : mdOK md = true) :
    (∀ kv ∈ md, pairOK kv = true) ∧ (md.map (·.1)).Nodup := by
  unfold mdOK at h
  simp only [Bool.and_eq_true, List.all_eq_true, decide_eq_true_eq] at h
  exact h

theorem preOf_keys (env : Env) (p : List UInt8) : ∀ e ∈ preOf env p ++ [(kXSeq, a), (kXMtype, b)], e.1 ∈ coreOwn := by
  intro e he
  cases p with
  | nil =>
    simp only [preOf, List.nil_append, List.mem_cons, List.not_mem_nil, or_false] at he
    rcases he with rfl | rfl <;> (dsimp only; decide)
  | cons g t =>
    simp only [preOf, List.cons_append, List.nil_append, List.mem_cons, List.not_mem_nil, or_false] at he
    rcases he with rfl | rfl | rfl | rfl <;> (dsimp only; decide)

theorem coreOwn_own : ∀ k ∈ coreOwn, k ∈ ownKeys := by decide
theorem postKeys_own : ∀ k ∈ postKeys, k ∈ ownKeys := by decide
theorem coreOwn_postKeys : ∀ k ∈ coreOwn, k ∉ postKeys := by decide

theorem baseHeader_wf (env : Env) (m : Msg) (hmd : mdOK m.md = true) (hpl : m.pipe.length ≤ 1)
    (hgz : ∀ g ∈ m.pipe, GzOK env g) :
    ∃ payload, baseHeader env m = some (payload, single (coreE env m)) ∧
      ((payload = [] ∧ m.body = []) ∨ (payload ≠ [] ∧ Xfer.onUnpack env.reg m.pipe payload = some m.body)) := by
  obtain ⟨hp, hnd⟩ := mdOK_parts hmd
  have hmeta : ∀ (pre : List Args.KV) (p : List UInt8), pre = preOf env p →
      addMeta m.md (hset kXMtype (Num.formatNat 8 m.mtype.toNat) (hset kXSeq (Num.formatInt 8 m.seq) (single pre))) =
        single (pre ++ [(kXSeq, Num.formatInt 8 m.seq), (kXMtype, Num.formatNat 8 m.mtype.toNat)] ++ m.md) := by
    intro pre p hpre
    have hk := preOf_keys (a := Num.formatInt 8 m.seq) (b := Num.formatNat 8 m.mtype.toNat) env p
    rw [← hpre] at hk
    rw [hset_single kXSeq _ pre (by
      intro kv hkv he
      have : kv.1 ∈ coreOwn := hk kv (by simp [hkv])
      subst hpre
      cases p with
      | nil => cases hkv
      | cons g t =>
        simp only [preOf, List.mem_cons, List.not_mem_nil, or_false] at hkv
        rcases hkv with rfl | rfl <;> exact absurd he (by dsimp only; decide))]
    rw [hset_single kXMtype _ _ (by
      intro kv hkv he
      subst hpre
      rw [List.mem_append] at hkv
      rcases hkv with hkv | hkv
      · cases p with
        | nil => cases hkv
        | cons g t =>
          simp only [preOf, List.mem_cons, List.not_mem_nil, or_false] at hkv
          rcases hkv with rfl | rfl <;> exact absurd he (by dsimp only; decide)
      · simp only [List.mem_singleton] at hkv
        subst hkv; exact absurd he (by dsimp only; decide))]
    rw [addMeta_single m.md _ (fun kv hkv => (pairOK_parts (hp kv hkv)).1) hnd (by
      intro kv hkv e he heq
      have h1 : e.1 ∈ coreOwn := hk e (by simpa using he)
      exact (pairOK_parts (hp kv hkv)).2.1 (heq ▸ coreOwn_own _ h1))]
    simp
  unfold baseHeader coreE
  cases hpipe : m.pipe with
  | nil =>
    refine ⟨m.body, ?_, ?_⟩
    · simp only [applyPipe, Option.map_some]
      rw [show ([] : Hdr) = single [] from rfl, hmeta [] [] rfl]
      rfl
    · by_cases hb : m.body = []
      · exact Or.inl ⟨hb, hb⟩
      · exact Or.inr ⟨hb, rfl⟩
  | cons g t =>
    have ht : t = [] := by
      rw [hpipe] at hpl
      simp only [List.length_cons] at hpl
      cases t with
      | nil => rfl
      | cons _ _ => simp only [List.length_cons] at hpl; omega
    subst ht
    obtain ⟨hg1, hg2, hg3, hg4, f, hf, hlaw⟩ := hgz g (by rw [hpipe]; simp)
    obtain ⟨y, hy, hyne, hyu⟩ := hlaw m.body
    refine ⟨y, ?_, Or.inr ⟨hyne, ?_⟩⟩
    · simp only [applyPipe, hg1, Bool.not_true, Bool.false_eq_true, if_false, hf, hy, Option.map_some]
      rw [show hset kXCE (env.fname g) (hset kCE vGzip []) = single [(kCE, vGzip), (kXCE, env.fname g)] from by
        rw [show hset kCE vGzip [] = single [(kCE, vGzip)] from rfl, hset_single kXCE _ _ (by
          intro kv hkv; simp only [List.mem_singleton] at hkv; subst hkv; decide)]
        rfl]
      rw [hmeta [(kCE, vGzip), (kXCE, env.fname g)] [g] rfl]
      rfl
    · simp only [Xfer.onUnpack, hf, hyu, Option.bind_some]

/-- the complete header map of a frame: `coreE` plus what `packRequest` / `packResponse` set. -/
theorem hsetAll_core (env : Env) (m : Msg) (post : List Args.KV) (hmd : mdOK m.md = true)
    (hpn : (post.map (·.1)).Nodup) (hpk : ∀ kv ∈ post, kv.1 ∈ postKeys) :
    hsetAll post (single (coreE env m)) = single (coreE env m ++ post) := by
  obtain ⟨hp, _⟩ := mdOK_parts hmd
  apply hsetAll_single post _ hpn
  intro kv hkv e he heq
  unfold coreE at he
  rw [List.mem_append] at he
  rcases he with he | he
  · have := preOf_keys env m.pipe e he
    exact coreOwn_postKeys _ this (heq ▸ hpk kv hkv)
  · exact (pairOK_parts (hp e he)).2.1 (heq ▸ postKeys_own _ (hpk kv hkv))

theorem coreE_post_nodup (env : Env) (m : Msg) (post : List Args.KV) (hmd : mdOK m.md = true) (hpl : m.pipe.length ≤ 1)
    (hpn : (post.map (·.1)).Nodup) (hpk : ∀ kv ∈ post, kv.1 ∈ postKeys) :
    ((coreE env m ++ post).map (·.1)).Nodup := by
  obtain ⟨hp, hnd⟩ := mdOK_parts hmd
  unfold coreE
  rw [List.map_append, List.map_append, List.nodup_append, List.nodup_append]
  have hA : ∀ a ∈ (preOf env m.pipe ++ [(kXSeq, Num.formatInt 8 m.seq), (kXMtype, Num.formatNat 8 m.mtype.toNat)]).map (·.1),
      a ∈ coreOwn := by
    intro a ha
    rw [List.mem_map] at ha
    obtain ⟨e, he, rfl⟩ := ha
    exact preOf_keys env m.pipe e he
  have hM : ∀ a ∈ m.md.map (·.1), a ∉ ownKeys := by
    intro a ha
    rw [List.mem_map] at ha
    obtain ⟨e, he, rfl⟩ := ha
    exact (pairOK_parts (hp e he)).2.1
  have hP : ∀ a ∈ post.map (·.1), a ∈ postKeys := by
    intro a ha
    rw [List.mem_map] at ha
    obtain ⟨e, he, rfl⟩ := ha
    exact hpk e he
  refine ⟨⟨?_, hnd, ?_⟩, hpn, ?_⟩
  · cases hpipe : m.pipe with
    | nil => simp only [preOf, List.nil_append, List.map_cons, List.map_nil]; decide
    | cons g t => simp only [preOf, List.cons_append, List.nil_append, List.map_cons, List.map_nil]; decide
  · intro a ha b hb hab
    exact hM b hb (hab ▸ coreOwn_own a (hA a ha))
  · intro a ha b hb hab
    rw [List.mem_append] at ha
    rcases ha with ha | ha
    · exact coreOwn_postKeys a (hA a ha) (hab ▸ hP b hb)
    · exact hM a ha (hab ▸ postKeys_own b (hP b hb))

theorem coreE_lineOK (env : Env) (m : Msg) (hmd : mdOK m.md = true) (hseq : Num.inInt32 m.seq)
    (hgz : ∀ g ∈ m.pipe, GzOK env g) : ∀ kv ∈ coreE env m, lineOK env kv := by
  obtain ⟨hp, _⟩ := mdOK_parts hmd
  intro kv hkv
  unfold coreE at hkv
  rw [List.mem_append, List.mem_append] at hkv
  rcases hkv with (hkv | hkv) | hkv
  · cases hpipe : m.pipe with
    | nil => rw [hpipe] at hkv; cases hkv
    | cons g t =>
      rw [hpipe] at hkv
      obtain ⟨_, hg2, hg3, _, _⟩ := hgz g (by rw [hpipe]; simp)
      simp only [preOf, List.mem_cons, List.not_mem_nil, or_false] at hkv
      rcases hkv with rfl | rfl
      · exact lineOK_closed env kCE vGzip (by decide)
      · exact lineOK_XCE env _ hg3 g hg2
  · simp only [List.mem_cons, List.not_mem_nil, or_false] at hkv
    rcases hkv with rfl | rfl
    · exact lineOK_XSeq env m.seq hseq
    · exact lineOK_XMtype env _ m.mtype.toNat_lt
  · exact lineOK_pair env kv (hp kv hkv)

theorem coreE_pipe (env : Env) (m : Msg) (post : List Args.KV) (hmd : mdOK m.md = true) (hpl : m.pipe.length ≤ 1)
    (hgz : ∀ g ∈ m.pipe, GzOK env g) (hpk : ∀ kv ∈ post, kv.1 ∈ postKeys) :
    (m.pipe = [] ∧ ∀ kv ∈ coreE env m ++ post, kv.1 ≠ kXCE) ∨
    (∃ g, m.pipe = [g] ∧ (kXCE, env.fname g) ∈ coreE env m ++ post ∧ env.byName (env.fname g) = some g ∧
      (env.reg g).isSome = true) := by
  obtain ⟨hp, _⟩ := mdOK_parts hmd
  cases hpipe : m.pipe with
  | nil =>
    refine Or.inl ⟨rfl, ?_⟩
    intro kv hkv he
    unfold coreE at hkv
    rw [hpipe] at hkv
    simp only [preOf, List.nil_append, List.append_assoc, List.mem_append, List.mem_cons, List.not_mem_nil, or_false] at hkv
    rcases hkv with (rfl | rfl) | hkv | hkv
    · exact absurd he (by dsimp only; decide)
    · exact absurd he (by dsimp only; decide)
    · exact (pairOK_parts (hp kv hkv)).2.1 (he ▸ by decide)
    · have := hpk kv hkv
      rw [he] at this
      exact absurd this (by decide)
  | cons g t =>
    have ht : t = [] := by
      rw [hpipe] at hpl
      cases t with
      | nil => rfl
      | cons _ _ => simp only [List.length_cons] at hpl; omega
    subst ht
    obtain ⟨_, hg2, _, _, f, hf, _⟩ := hgz g (by rw [hpipe]; simp)
    refine Or.inr ⟨g, rfl, ?_, hg2, by rw [hf]; rfl⟩
    unfold coreE
    rw [hpipe]
    simp [preOf]

theorem render_length (ls : List Args.KV) : (render ls).length = linesLen ls + 2 * ls.length := by
  induction ls with
  | nil => rfl
  | cons kv r ih =>
    simp only [render, List.map_cons, List.flatten_cons, List.length_append, renderLine, crlf, List.length_cons,
      List.length_nil, linesLen, List.sum_cons, lineLen] at ih ⊢
    omega

theorem linesLen_perm {a b : List Args.KV} (h : a.Perm b) : linesLen a = linesLen b :=
  (h.map lineLen).sum_nat

/-- the metadata the reader ends up with: the lines whose key it does not interpret. -/
theorem filter_E (env : Env) (m : Msg) (post : List Args.KV) (hmd : mdOK m.md = true) :
    (coreE env m ++ post).filter (fun kv => !readerKeys.contains kv.1) =
      (preOf env m.pipe).filter (fun kv => !readerKeys.contains kv.1) ++ m.md ++
        post.filter (fun kv => !readerKeys.contains kv.1) := by
  obtain ⟨hp, _⟩ := mdOK_parts hmd
  unfold coreE
  simp only [List.filter_append]
  have h1 : [(kXSeq, Num.formatInt 8 m.seq), (kXMtype, Num.formatNat 8 m.mtype.toNat)].filter
      (fun kv => !readerKeys.contains kv.1) = [] := by
    simp only [List.filter_cons, List.filter_nil]
    rw [if_neg (by decide), if_neg (by decide)]
  have h2 : m.md.filter (fun kv => !readerKeys.contains kv.1) = m.md := by
    rw [List.filter_eq_self]
    intro kv hkv
    have := not_reader_of_not_own (pairOK_parts (hp kv hkv)).2.1
    simp [this]
  rw [h1, h2, List.append_nil]

/-- the protocol's own lines that arrive as metadata: `Content-Encoding` with a filter, and on a
    request `User-Agent` and `Accept-Encoding`. -/
def extraMd (m : Msg) : List Args.KV :=
  (if m.pipe.isEmpty then [] else [(kCE, vGzip)]) ++
  (if m.mtype == 1 || m.mtype == 4 then [(kUA, vUA), (kAE, vGzip)] else [])

/-- what arrives for a message `m` whose frame has `len` bytes: every field of the property's list
    equal, the metadata a permutation of `m`'s own pairs plus the protocol's own lines (they come in
    the sorted order of the header block), and the size `Unpack` reports = the frame length without
    the line ends (two bytes per header line, first line and blank line). -/
def Arrives (m o : Msg) (len : Nat) : Prop :=
  o.seq = m.seq ∧ o.mtype = m.mtype ∧ o.method = m.method ∧ o.status = m.status ∧ o.codec = m.codec ∧
  o.body = m.body ∧ o.pipe = m.pipe ∧ o.md.Perm (m.md ++ extraMd m) ∧
  o.size + 2 * (m.md.length + (extraMd m).length + (if m.pipe.isEmpty then 6 else 7)) = len

theorem preOf_filter (env : Env) (p : List UInt8) :
    (preOf env p).filter (fun kv => !readerKeys.contains kv.1) = (if p.isEmpty then [] else [(kCE, vGzip)]) := by
  cases p with
  | nil => rfl
  | cons g t =>
    simp only [preOf, List.filter_cons, List.filter_nil, List.isEmpty_cons, Bool.false_eq_true, if_false]
    rw [if_pos (by decide), if_neg (by decide)]

theorem preOf_length (env : Env) (p : List UInt8) : (preOf env p).length = if p.isEmpty then 0 else 2 := by
  cases p <;> rfl

theorem sizeSet_id (lim n : Nat) (h1 : n ≤ lim) (h2 : n < 4294967296) : sizeSet lim n = n := by
  unfold sizeSet
  have : n % 4294967296 = n := Nat.mod_eq_of_lt h2
  rw [this, if_neg (by omega)]

theorem frame_length (first : Bytes) (E : List Args.KV) (payload : Bytes) (hv : ∀ kv ∈ E, valueOK kv.2 = true) :
    (frame first (single E) payload).length = first.length + linesLen E + payload.length + 2 * (E.length + 2) := by
  have P := hlines_single E hv
  unfold frame
  simp only [List.length_append, render_length, crlf, List.length_cons, List.length_nil, linesLen_perm P, P.length_eq]
  omega

/-- one frame that `Pack` wrote, read back up to the point where the message is handed over. -/
theorem frame_unpack (env : Env) (lim : Nat) (kind : Kind) (mt0 : UInt8) (a b c d e : UInt8) (ln : Bytes) (m : Msg)
    (post : List Args.KV) (payload body rest ct : Bytes)
    (hlf : ∀ x ∈ ln, x ≠ 10)
    (hfirst : ∀ n r, afterFirst env lim (a :: b :: c :: d :: e :: ln) n r =
      hloop env lim kind r [] (hst0 mt0 []) (a :: b :: c :: d :: e :: ln).length (max 5 (5 + n)))
    (hmd : mdOK m.md = true) (hseq : Num.inInt32 m.seq) (hpl : m.pipe.length ≤ 1) (hgz : ∀ g ∈ m.pipe, GzOK env g)
    (hpn : (post.map (·.1)).Nodup) (hpk : ∀ kv ∈ post, kv.1 ∈ postKeys) (hpok : ∀ kv ∈ post, lineOK env kv)
    (hct : (kCT, ct) ∈ post) (hcl : (kCL, Num.formatNat 8 payload.length) ∈ post)
    (hx : (payload = [] ∧ body = []) ∨ (payload ≠ [] ∧ Xfer.onUnpack env.reg m.pipe payload = some body))
    (hlen : (frame (a :: b :: c :: d :: e :: ln) (single (coreE env m ++ post)) payload).length ≤ lim)
    (h32 : (frame (a :: b :: c :: d :: e :: ln) (single (coreE env m ++ post)) payload).length < 4294967296) :
    ∃ ask hi st, unpack env lim (frame (a :: b :: c :: d :: e :: ln) (single (coreE env m ++ post)) payload ++ rest) =
        finish (deliver env lim kind st (5 + ln.length + linesLen (coreE env m ++ post)) body) rest ask hi ∧
      st.seq = m.seq ∧ st.mtype = m.mtype ∧ st.codec = bodyCodec ct ∧ st.pipe = m.pipe ∧
      st.clSum = (payload.length : Int) ∧
      st.md.Perm (m.md ++ ((preOf env m.pipe).filter (fun kv => !readerKeys.contains kv.1) ++
        post.filter (fun kv => !readerKeys.contains kv.1))) := by
  have hokE : ∀ kv ∈ coreE env m ++ post, lineOK env kv := by
    intro kv hkv
    rw [List.mem_append] at hkv
    rcases hkv with h | h
    · exact coreE_lineOK env m hmd hseq hgz kv h
    · exact hpok kv h
  have hvE : ∀ kv ∈ coreE env m ++ post, valueOK kv.2 = true := fun kv h => (hokE kv h).2.1
  have hfl := frame_length (a :: b :: c :: d :: e :: ln) _ payload hvE
  have h5 : (a :: b :: c :: d :: e :: ln).length = 5 + ln.length := by simp only [List.length_cons]; omega
  rw [h5] at hfl
  obtain ⟨P, f1, f2, f3, f4, f5, f6, f7⟩ := head_facts env (coreE env m ++ post) mt0 m ct payload.length hokE
    (coreE_post_nodup env m post hmd hpl hpn hpk)
    (by unfold coreE; simp) hseq (by unfold coreE; simp)
    (List.mem_append_right _ hct) (List.mem_append_right _ hcl) (by omega)
    (coreE_pipe env m post hmd hpl hgz hpk)
  have hll := linesLen_perm P
  have e1 : frame (a :: b :: c :: d :: e :: ln) (single (coreE env m ++ post)) payload ++ rest =
      (a :: b :: c :: d :: e :: ln) ++ crlf ++ (render (hlines (single (coreE env m ++ post))) ++ (crlf ++ (payload ++ rest))) := by
    simp [frame, List.append_assoc]
  obtain ⟨hi, hu⟩ := unpack_frame env lim kind (hst0 mt0 []) a b c d e ln (hlines (single (coreE env m ++ post)))
    (payload ++ rest) hlf hfirst (fun kv hkv => hokE kv ((P.mem_iff).mp hkv)) (by rw [hll]; omega)
  rw [e1, hu, hll]
  obtain ⟨ask, hi', hfin⟩ := finishBody_payload env lim kind
    ((hlines (single (coreE env m ++ post))).foldl (upd env) (hst0 mt0 [])) (5 + ln.length + linesLen (coreE env m ++ post)) hi
    payload rest body f5 (by omega) (by rw [f4]; exact hx)
  refine ⟨ask, hi', _, hfin, f1, f2, f3, f4, f6, ?_⟩
  rw [f7]
  have := (P.filter (fun kv => !readerKeys.contains kv.1))
  rw [filter_E env m post hmd] at this
  refine this.trans ?_
  rw [List.append_assoc]
  exact (List.perm_append_comm_assoc _ _ _)

theorem size_val (lim used p : Nat) (h1 : used + p ≤ lim) (h2 : used + p < 4294967296) :
    sizeSet lim (((used : Int) + (p : Int)) % 4294967296).toNat = used + p := by
  have : (((used : Int) + (p : Int)) % 4294967296).toNat = used + p := by omega
  rw [this]; exact sizeSet_id lim _ h1 h2

theorem postReq_facts (env : Env) (codec : UInt8) (n : Nat) (hn : n < 9223372036854775808) :
    ((postReq (contentType codec (ctPlain ++ charset)) n).map (·.1)).Nodup ∧
    (∀ kv ∈ postReq (contentType codec (ctPlain ++ charset)) n, kv.1 ∈ postKeys) ∧
    (∀ kv ∈ postReq (contentType codec (ctPlain ++ charset)) n, lineOK env kv) := by
  refine ⟨by simp only [postReq, List.map_cons, List.map_nil]; decide, ?_, ?_⟩
  · intro kv hkv
    simp only [postReq, List.mem_cons, List.not_mem_nil, or_false] at hkv
    rcases hkv with rfl | rfl | rfl | rfl <;> (dsimp only; decide)
  · intro kv hkv
    simp only [postReq, List.mem_cons, List.not_mem_nil, or_false] at hkv
    rcases hkv with rfl | rfl | rfl | rfl
    · exact lineOK_closed env kUA vUA (by decide)
    · exact lineOK_CT env _ (valueOK_contentType codec _ (by decide))
    · exact lineOK_CL env n hn
    · exact lineOK_closed env kAE vGzip (by decide)

theorem postResp_facts (env : Env) (ct : Bytes) (hct : valueOK ct = true) (n : Nat) (hn : n < 9223372036854775808) :
    ((postResp ct n).map (·.1)).Nodup ∧ (∀ kv ∈ postResp ct n, kv.1 ∈ postKeys) ∧ (∀ kv ∈ postResp ct n, lineOK env kv) := by
  refine ⟨by simp only [postResp, List.map_cons, List.map_nil]; decide, ?_, ?_⟩
  · intro kv hkv
    simp only [postResp, List.mem_cons, List.not_mem_nil, or_false] at hkv
    rcases hkv with rfl | rfl <;> (dsimp only; decide)
  · intro kv hkv
    simp only [postResp, List.mem_cons, List.not_mem_nil, or_false] at hkv
    rcases hkv with rfl | rfl
    · exact lineOK_CT env _ hct
    · exact lineOK_CL env n hn

theorem postReq_filter (ct : Bytes) (n : Nat) :
    (postReq ct n).filter (fun kv => !readerKeys.contains kv.1) = [(kUA, vUA), (kAE, vGzip)] := by
  simp only [postReq, List.filter_cons, List.filter_nil]
  rw [if_pos (by decide), if_neg (by decide), if_neg (by decide), if_pos (by decide)]

theorem postResp_filter (ct : Bytes) (n : Nat) :
    (postResp ct n).filter (fun kv => !readerKeys.contains kv.1) = [] := by
  simp only [postResp, List.filter_cons, List.filter_nil]
  rw [if_neg (by decide), if_neg (by decide)]

theorem arrives_len (env : Env) (m : Msg) (post : List Args.KV)
    (hk : post.length + (if m.pipe.isEmpty then 0 else 1) = (extraMd m).length + 2) :
    (coreE env m ++ post).length + 2 = m.md.length + (extraMd m).length + (if m.pipe.isEmpty then 6 else 7) := by
  unfold coreE
  simp only [List.length_append, preOf_length, List.length_cons, List.length_nil]
  cases hp : m.pipe.isEmpty <;> simp only [hp, Bool.false_eq_true, if_false, if_true] at hk ⊢ <;> omega

/-- round trip of a request (CALL / AUTH_CALL). -/
theorem roundtrip_req (env : Env) (lim plim : Nat) (m : Msg) (rest : Bytes)
    (hseq : Num.inInt32 m.seq) (hcodec : codecOK m.codec = true) (hmd : mdOK m.md = true) (hpl : m.pipe.length ≤ 1)
    (hreq : (m.mtype == 1 || m.mtype == 4) = true) (hst : m.status = Status.zero) (hme : methodOK m.method = true)
    (hgz : ∀ g ∈ m.pipe, GzOK env g) :
    ∃ b, pack env plim m = .ok b (sizeSet plim b.length) ∧
      (b.length ≤ lim → b.length < 4294967296 →
        ∃ o, (unpack env lim (b ++ rest)).out = .ok o rest ∧ (unpack env lim (b ++ rest)).left = rest ∧ Arrives m o b.length) := by
  obtain ⟨payload, hbase, hx⟩ := baseHeader_wf env m hmd hpl hgz
  let ct := contentType m.codec (ctPlain ++ charset)
  have hrl : reqLine { path := m.method, query := [], host := [] } = 80 :: 79 :: 83 :: 84 :: 32 :: (m.method ++ 32 :: sVersion) := by
    simp [reqLine, reqTarget, sPost]
  have hhdr : reqHdr { path := m.method, query := [], host := [] } m.codec (single (coreE env m)) payload.length =
      hsetAll (postReq ct payload.length) (single (coreE env m)) := rfl
  refine ⟨frame (80 :: 79 :: 83 :: 84 :: 32 :: (m.method ++ 32 :: sVersion)) (single (coreE env m ++ postReq ct payload.length)) payload, ?_, ?_⟩
  · unfold pack
    rw [hbase]
    simp only [hreq, if_true, urlParse_plain m.method hme, requestBytes, hrl, hhdr]
    rw [hsetAll_core env m _ hmd (by simp only [postReq, List.map_cons, List.map_nil]; decide) (by
      intro kv hkv
      simp only [postReq, List.mem_cons, List.not_mem_nil, or_false] at hkv
      rcases hkv with rfl | rfl | rfl | rfl <;> (dsimp only; decide))]
  · intro hlen h32
    have hvE0 : ∀ kv ∈ coreE env m, valueOK kv.2 = true := fun kv h => (coreE_lineOK env m hmd hseq hgz kv h).2.1
    have hpb : payload.length < 9223372036854775808 := by
      have : ∀ (f : Bytes) (H : Hdr) (p : Bytes), p.length ≤ (frame f H p).length := by
        intro f H p; simp only [frame, List.length_append]; omega
      have := this (80 :: 79 :: 83 :: 84 :: 32 :: (m.method ++ 32 :: sVersion)) (single (coreE env m ++ postReq ct payload.length)) payload
      omega
    obtain ⟨hpn, hpk, hpok⟩ := postReq_facts env m.codec payload.length hpb
    have hm := hme
    unfold methodOK at hm
    simp only [Bool.and_eq_true, List.all_eq_true] at hm
    obtain ⟨ask, hi, st, hu, f1, f2, f3, f4, f6, f7⟩ := frame_unpack env lim (.req m.method) 1 80 79 83 84 32
      (m.method ++ 32 :: sVersion) m (postReq ct payload.length) payload m.body rest ct
      (by intro x hx
          rw [List.mem_append] at hx
          rcases hx with h | h
          · exact (pathByte_facts x (hm.1.1 x h)).2.2.1
          · revert x; decide)
      (fun n r => by rw [← hrl]; exact afterFirst_req_line env lim n r m.method hme)
      hmd hseq hpl hgz hpn hpk hpok (by simp [postReq]) (by simp [postReq]) hx hlen h32
    have hokE : ∀ kv ∈ coreE env m ++ postReq ct payload.length, valueOK kv.2 = true := by
      intro kv hkv
      rw [List.mem_append] at hkv
      rcases hkv with h | h
      · exact hvE0 kv h
      · exact (hpok kv h).2.1
    have hfl := frame_length (80 :: 79 :: 83 :: 84 :: 32 :: (m.method ++ 32 :: sVersion)) _ payload hokE
    have h5 : (80 :: 79 :: 83 :: 84 :: 32 :: (m.method ++ 32 :: sVersion) : Bytes).length = 5 + (m.method ++ 32 :: sVersion).length := by
      simp only [List.length_cons]; omega
    rw [h5] at hfl
    rw [hu]
    refine ⟨_, rfl, rfl, ?_⟩
    refine ⟨f1, f2, rfl, hst.symm, ?_, rfl, f4, ?_, ?_⟩
    · show st.codec = m.codec
      rw [f3]; exact bodyCodec_contentType m.codec _ hcodec
    · show st.md.Perm (m.md ++ extraMd m)
      rw [preOf_filter, postReq_filter] at f7
      unfold extraMd
      rw [hreq]
      exact f7
    · dsimp only
      rw [f6, size_val lim _ payload.length (by omega) (by omega), hfl]
      have := arrives_len env m (postReq ct payload.length) (by
        unfold extraMd; rw [hreq]
        cases hp : m.pipe.isEmpty <;> simp [hp, postReq])
      omega

theorem frame_payload_le (f : Bytes) (H : Hdr) (p : Bytes) : p.length ≤ (frame f H p).length := by
  simp only [frame, List.length_append]; omega

theorem okLine_eq : okLine = 72 :: 84 :: 84 :: 80 :: 47 :: [49, 46, 49, 32, 50, 48, 48, 32, 79, 75] := by decide
theorem bizLine_eq : bizLine = 72 :: 84 :: 84 :: 80 :: 47 ::
    [49, 46, 49, 32, 50, 57, 57, 32, 66, 117, 115, 105, 110, 101, 115, 115, 32, 69, 114, 114, 111, 114] := by decide

/-- round trip of a response (REPLY / AUTH_REPLY) with OK status. -/
theorem roundtrip_ok (env : Env) (lim plim : Nat) (m : Msg) (rest : Bytes)
    (hseq : Num.inInt32 m.seq) (hcodec : codecOK m.codec = true) (hmd : mdOK m.md = true) (hpl : m.pipe.length ≤ 1)
    (hreq : (m.mtype == 1 || m.mtype == 4) = false) (hresp : (m.mtype == 2 || m.mtype == 5) = true)
    (hst : m.status = Status.zero) (hme : m.method = [])
    (hgz : ∀ g ∈ m.pipe, GzOK env g) :
    ∃ b, pack env plim m = .ok b (sizeSet plim b.length) ∧
      (b.length ≤ lim → b.length < 4294967296 →
        ∃ o, (unpack env lim (b ++ rest)).out = .ok o rest ∧ (unpack env lim (b ++ rest)).left = rest ∧ Arrives m o b.length) := by
  obtain ⟨payload, hbase, hx⟩ := baseHeader_wf env m hmd hpl hgz
  let ct := contentType m.codec ctPlain
  have hhdr : respHdr m.codec (single (coreE env m)) payload.length =
      hsetAll (postResp ct payload.length) (single (coreE env m)) := rfl
  have hok : m.status.ok = true := by rw [hst]; rfl
  refine ⟨frame okLine (single (coreE env m ++ postResp ct payload.length)) payload, ?_, ?_⟩
  · unfold pack
    rw [hbase]
    simp only [hreq, hresp, Bool.false_eq_true, if_false, if_true, hok, responseBytes, hhdr]
    rw [hsetAll_core env m _ hmd (by simp only [postResp, List.map_cons, List.map_nil]; decide) (by
      intro kv hkv
      simp only [postResp, List.mem_cons, List.not_mem_nil, or_false] at hkv
      rcases hkv with rfl | rfl <;> (dsimp only; decide))]
  · rw [okLine_eq]
    intro hlen h32
    have hvE0 : ∀ kv ∈ coreE env m, valueOK kv.2 = true := fun kv h => (coreE_lineOK env m hmd hseq hgz kv h).2.1
    have hpb : payload.length < 9223372036854775808 := by
      have := frame_payload_le (72 :: 84 :: 84 :: 80 :: 47 :: [49, 46, 49, 32, 50, 48, 48, 32, 79, 75])
        (single (coreE env m ++ postResp ct payload.length)) payload
      omega
    obtain ⟨hpn, hpk, hpok⟩ := postResp_facts env ct (valueOK_contentType m.codec _ (by decide)) payload.length hpb
    obtain ⟨ask, hi, st, hu, f1, f2, f3, f4, f6, f7⟩ := frame_unpack env lim .ok 2 72 84 84 80 47
      [49, 46, 49, 32, 50, 48, 48, 32, 79, 75] m (postResp ct payload.length) payload m.body rest ct
      (by decide)
      (fun n r => by rw [← okLine_eq]; exact afterFirst_ok_line env lim n r)
      hmd hseq hpl hgz hpn hpk hpok (by simp [postResp]) (by simp [postResp]) hx hlen h32
    have hokE : ∀ kv ∈ coreE env m ++ postResp ct payload.length, valueOK kv.2 = true := by
      intro kv hkv
      rw [List.mem_append] at hkv
      rcases hkv with h | h
      · exact hvE0 kv h
      · exact (hpok kv h).2.1
    have hfl := frame_length (72 :: 84 :: 84 :: 80 :: 47 :: [49, 46, 49, 32, 50, 48, 48, 32, 79, 75]) _ payload hokE
    have h5 : (72 :: 84 :: 84 :: 80 :: 47 :: [49, 46, 49, 32, 50, 48, 48, 32, 79, 75] : Bytes).length =
        5 + ([49, 46, 49, 32, 50, 48, 48, 32, 79, 75] : Bytes).length := rfl
    rw [h5] at hfl
    rw [hu]
    refine ⟨_, rfl, rfl, ?_⟩
    refine ⟨f1, f2, hme.symm, hst.symm, ?_, rfl, f4, ?_, ?_⟩
    · show st.codec = m.codec
      rw [f3]; exact bodyCodec_contentType m.codec _ hcodec
    · show st.md.Perm (m.md ++ extraMd m)
      rw [preOf_filter, postResp_filter] at f7
      unfold extraMd
      rw [hreq]
      exact f7
    · dsimp only
      rw [f6, size_val lim _ payload.length (by omega) (by omega), hfl]
      have := arrives_len env m (postResp ct payload.length) (by
        unfold extraMd; rw [hreq]
        cases hp : m.pipe.isEmpty <;> simp [hp, postResp])
      omega

theorem hget_absent (k : Bytes) : ∀ E : List Args.KV, (∀ kv ∈ E, kv.1 ≠ k) → hget k (single E) = [] := by
  intro E
  induction E with
  | nil => intro _; rfl
  | cons e r ih =>
    intro h
    have : (e.1 == k) = false := by simpa using h e (by simp)
    simp only [single, List.map_cons, hget, this, Bool.false_eq_true, if_false]
    exact ih (fun x hx => h x (by simp [hx]))

theorem statusJSON_ne_nil (st : Status) : statusJSON st ≠ [] := by
  unfold statusJSON jA; simp

/-- the status entity `packResponse` writes, and that it comes back through the transfer pipe. -/
theorem bizEntity_wf (env : Env) (m : Msg) (hmd : mdOK m.md = true) (hpl : m.pipe.length ≤ 1)
    (hgz : ∀ g ∈ m.pipe, GzOK env g) :
    ∃ e, bizEntity env m.status (single (coreE env m)) = some e ∧ e ≠ [] ∧
      Xfer.onUnpack env.reg m.pipe e = some (statusJSON m.status) := by
  obtain ⟨hp, _⟩ := mdOK_parts hmd
  unfold bizEntity
  cases hpipe : m.pipe with
  | nil =>
    have : hget kXCE (single (coreE env m)) = [] := by
      apply hget_absent
      intro kv hkv he
      unfold coreE at hkv
      rw [hpipe] at hkv
      simp only [preOf, List.nil_append, List.mem_append, List.mem_cons, List.not_mem_nil, or_false] at hkv
      rcases hkv with (rfl | rfl) | hkv
      · exact absurd he (by dsimp only; decide)
      · exact absurd he (by dsimp only; decide)
      · exact (pairOK_parts (hp kv hkv)).2.1 (he ▸ by decide)
    simp only [this, List.isEmpty_nil, if_true]
    exact ⟨_, rfl, statusJSON_ne_nil _, rfl⟩
  | cons g t =>
    have ht : t = [] := by
      rw [hpipe] at hpl
      cases t with
      | nil => rfl
      | cons _ _ => simp only [List.length_cons] at hpl; omega
    subst ht
    obtain ⟨_, hg2, _, hg4, f, hf, hlaw⟩ := hgz g (by rw [hpipe]; simp)
    obtain ⟨y, hy, hyne, hyu⟩ := hlaw (statusJSON m.status)
    have : hget kXCE (single (coreE env m)) = env.fname g := by
      unfold coreE
      rw [hpipe]
      simp only [preOf, List.cons_append, single, List.map_cons, hget]
      rw [if_neg (by decide), if_pos (by decide)]
      rfl
    have hne : (env.fname g).isEmpty = false := by
      cases h : env.fname g with
      | nil => exact absurd h hg4
      | cons _ _ => rfl
    simp only [this, hne, Bool.false_eq_true, if_false, hg2, hf, hy, Option.getD_some]
    exact ⟨y, rfl, hyne, by simp only [Xfer.onUnpack, hf, hyu, Option.bind_some]⟩

/-- round trip of a response whose status is not OK (the status travels as the entity). -/
theorem roundtrip_biz (env : Env) (lim plim : Nat) (m : Msg) (rest : Bytes)
    (hseq : Num.inInt32 m.seq) (hmd : mdOK m.md = true) (hpl : m.pipe.length ≤ 1)
    (hreq : (m.mtype == 1 || m.mtype == 4) = false) (hresp : (m.mtype == 2 || m.mtype == 5) = true)
    (hcode : m.status.code ≠ 0) (hme : m.method = []) (hbody : m.body = []) (hcodec : m.codec = 106)
    (hgz : ∀ g ∈ m.pipe, GzOK env g)
    (hsj : statusOfJSON env (statusJSON m.status) = .ok m.status) :
    ∃ b, pack env plim m = .ok b (sizeSet plim b.length) ∧
      (b.length ≤ lim → b.length < 4294967296 →
        ∃ o, (unpack env lim (b ++ rest)).out = .ok o rest ∧ (unpack env lim (b ++ rest)).left = rest ∧ Arrives m o b.length) := by
  obtain ⟨payload0, hbase, _⟩ := baseHeader_wf env m hmd hpl hgz
  obtain ⟨e, hent, hene, hun⟩ := bizEntity_wf env m hmd hpl hgz
  have hhdr : bizHdr (single (coreE env m)) e.length = hsetAll (postResp ctJson e.length) (single (coreE env m)) := rfl
  have hok : m.status.ok = false := by
    unfold Status.ok; simpa using hcode
  refine ⟨frame bizLine (single (coreE env m ++ postResp ctJson e.length)) e, ?_, ?_⟩
  · unfold pack
    rw [hbase]
    simp only [hreq, hresp, Bool.false_eq_true, if_false, if_true, hok, bizBytes, hent, Option.map_some, hhdr]
    rw [hsetAll_core env m _ hmd (by simp only [postResp, List.map_cons, List.map_nil]; decide) (by
      intro kv hkv
      simp only [postResp, List.mem_cons, List.not_mem_nil, or_false] at hkv
      rcases hkv with rfl | rfl <;> (dsimp only; decide))]
  · rw [bizLine_eq]
    intro hlen h32
    have hvE0 : ∀ kv ∈ coreE env m, valueOK kv.2 = true := fun kv h => (coreE_lineOK env m hmd hseq hgz kv h).2.1
    have hpb : e.length < 9223372036854775808 := by
      have := frame_payload_le (72 :: 84 :: 84 :: 80 :: 47 ::
        [49, 46, 49, 32, 50, 57, 57, 32, 66, 117, 115, 105, 110, 101, 115, 115, 32, 69, 114, 114, 111, 114])
        (single (coreE env m ++ postResp ctJson e.length)) e
      omega
    obtain ⟨hpn, hpk, hpok⟩ := postResp_facts env ctJson (by decide) e.length hpb
    obtain ⟨ask, hi, st, hu, f1, f2, f3, f4, f6, f7⟩ := frame_unpack env lim .biz 2 72 84 84 80 47
      [49, 46, 49, 32, 50, 57, 57, 32, 66, 117, 115, 105, 110, 101, 115, 115, 32, 69, 114, 114, 111, 114]
      m (postResp ctJson e.length) e (statusJSON m.status) rest ctJson
      (by decide)
      (fun n r => by rw [← bizLine_eq]; exact afterFirst_biz_line env lim n r)
      hmd hseq hpl hgz hpn hpk hpok (by simp [postResp]) (by simp [postResp]) (Or.inr ⟨hene, hun⟩) hlen h32
    have hokE : ∀ kv ∈ coreE env m ++ postResp ctJson e.length, valueOK kv.2 = true := by
      intro kv hkv
      rw [List.mem_append] at hkv
      rcases hkv with h | h
      · exact hvE0 kv h
      · exact (hpok kv h).2.1
    have hfl := frame_length (72 :: 84 :: 84 :: 80 :: 47 ::
      [49, 46, 49, 32, 50, 57, 57, 32, 66, 117, 115, 105, 110, 101, 115, 115, 32, 69, 114, 114, 111, 114]) _ e hokE
    have h5 : (72 :: 84 :: 84 :: 80 :: 47 ::
        [49, 46, 49, 32, 50, 57, 57, 32, 66, 117, 115, 105, 110, 101, 115, 115, 32, 69, 114, 114, 111, 114] : Bytes).length =
        5 + ([49, 46, 49, 32, 50, 57, 57, 32, 66, 117, 115, 105, 110, 101, 115, 115, 32, 69, 114, 114, 111, 114] : Bytes).length := rfl
    rw [h5] at hfl
    rw [hu]
    have hd : ∀ used, deliver env lim .biz st used (statusJSON m.status) =
        .ok { seq := st.seq, mtype := st.mtype, method := [], status := m.status, md := st.md, codec := st.codec,
              body := [], pipe := st.pipe, size := sizeSet lim (((used : Int) + st.clSum) % 4294967296).toNat } := by
      intro used; simp only [deliver, hsj]
    rw [hd]
    refine ⟨_, rfl, rfl, ?_⟩
    refine ⟨f1, f2, hme.symm, rfl, ?_, hbody.symm, f4, ?_, ?_⟩
    · show st.codec = m.codec
      rw [f3, hcodec]; decide
    · show st.md.Perm (m.md ++ extraMd m)
      rw [preOf_filter, postResp_filter] at f7
      unfold extraMd
      rw [hreq]
      exact f7
    · dsimp only
      rw [f6, size_val lim _ e.length (by omega) (by omega), hfl]
      have := arrives_len env m (postResp ctJson e.length) (by
        unfold extraMd; rw [hreq]
        cases hp : m.pipe.isEmpty <;> simp [hp, postResp])
      omega

/-- **Round trip** of every message of the supported field set. -/
theorem unpack_pack (env : Env) (lim plim : Nat) (m : Msg) (rest : Bytes) (hwf : WFh m = true)
    (hgz : ∀ g ∈ m.pipe, GzOK env g)
    (hsj : m.status.code = 0 ∨ statusOfJSON env (statusJSON m.status) = .ok m.status) :
    ∃ b, pack env plim m = .ok b (sizeSet plim b.length) ∧
      (b.length ≤ lim → b.length < 4294967296 →
        ∃ o, (unpack env lim (b ++ rest)).out = .ok o rest ∧ (unpack env lim (b ++ rest)).left = rest ∧ Arrives m o b.length) := by
  unfold WFh at hwf
  simp only [Bool.and_eq_true, decide_eq_true_eq] at hwf
  obtain ⟨⟨⟨⟨hseq, hcodec⟩, hmd⟩, hpl⟩, hk⟩ := hwf
  by_cases hreq : (m.mtype == 1 || m.mtype == 4) = true
  · rw [if_pos hreq] at hk
    simp only [Bool.and_eq_true, beq_iff_eq] at hk
    exact roundtrip_req env lim plim m rest hseq hcodec hmd hpl hreq hk.1 hk.2 hgz
  · rw [if_neg hreq] at hk
    have hreq' : (m.mtype == 1 || m.mtype == 4) = false := by simpa using hreq
    by_cases hresp : (m.mtype == 2 || m.mtype == 5) = true
    · rw [if_pos hresp] at hk
      simp only [Bool.and_eq_true, List.isEmpty_iff] at hk
      obtain ⟨hme, hk⟩ := hk
      by_cases hc : (m.status.code == 0) = true
      · rw [if_pos hc] at hk
        exact roundtrip_ok env lim plim m rest hseq hcodec hmd hpl hreq' hresp (by simpa using hk) hme hgz
      · rw [if_neg hc] at hk
        simp only [Bool.and_eq_true, decide_eq_true_eq, List.isEmpty_iff, beq_iff_eq] at hk
        have hcode : m.status.code ≠ 0 := by simpa using hc
        rcases hsj with h0 | hsj
        · exact absurd h0 hcode
        · exact roundtrip_biz env lim plim m rest hseq hmd hpl hreq' hresp hcode hme hk.1.2 hk.2 hgz hsj
    · rw [if_neg hresp] at hk
      cases hk

/-- `Pack` records the frame length as the message size (unless the limit refuses that size), for
    every message it accepts, inside or outside the supported field set. -/
theorem pack_size (env : Env) (plim : Nat) (m : Msg) (b : Bytes) (sz : Nat) (h : pack env plim m = .ok b sz) :
    sz = sizeSet plim b.length := by
  unfold pack at h
  split at h
  · cases h
  · split at h
    · split at h
      · cases h
      · cases h
      · cases h; rfl
    · split at h
      · split at h
        · cases h; rfl
        · split at h
          · cases h
          · cases h; rfl
      · cases h

/-- every message of the list inside the supported set, with an environment that serves it. -/
def AllOK (env : Env) (ms : List Msg) : Prop :=
  ∀ m ∈ ms, WFh m = true ∧ (∀ g ∈ m.pipe, GzOK env g) ∧
    (m.status.code = 0 ∨ statusOfJSON env (statusJSON m.status) = .ok m.status)

/-- messages, their frames, and what `Unpack` delivers for them, position by position. -/
def ArrivesAll : List Msg → List Bytes → List Msg → Prop
  | [], [], [] => True
  | m :: ms, b :: bs, o :: os => Arrives m o b.length ∧ ArrivesAll ms bs os
  | _, _, _ => False

/-- **Frame sync**: any number of frames back to back, followed by anything, decode to the same
    sequence and leave exactly what followed. -/
theorem unpackN_packAll (env : Env) (lim plim : Nat) : ∀ (ms : List Msg), AllOK env ms →
    ∃ frames, packAll env plim ms = some frames ∧ frames.length = ms.length ∧
      ((∀ b ∈ frames, b.length ≤ lim ∧ b.length < 4294967296) → ∀ tail,
        ∃ outs, unpackN env lim ms.length (frames.flatten ++ tail) = some (outs, tail) ∧ ArrivesAll ms frames outs) := by
  intro ms
  induction ms with
  | nil => intro _; exact ⟨[], rfl, rfl, fun _ tail => ⟨[], rfl, trivial⟩⟩
  | cons m r ih =>
    intro hall
    obtain ⟨hwf, hgz, hsj⟩ := hall m (by simp)
    obtain ⟨frames, hp, hl, hrest⟩ := ih (fun x hx => hall x (by simp [hx]))
    obtain ⟨b, hb, hrt⟩ := unpack_pack env lim plim m [] hwf hgz hsj
    refine ⟨b :: frames, ?_, by simp [hl], ?_⟩
    · simp only [packAll, hb, hp]
    · intro hlen tail
      obtain ⟨outs, hu, ha⟩ := hrest (fun x hx => hlen x (by simp [hx])) tail
      obtain ⟨b', hb', hrt'⟩ := unpack_pack env lim plim m (frames.flatten ++ tail) hwf hgz hsj
      have : b' = b := by
        rw [hb] at hb'
        cases hb'; rfl
      subst this
      obtain ⟨o, ho, _, harr⟩ := hrt' (hlen b' (by simp)).1 (hlen b' (by simp)).2
      refine ⟨o :: outs, ?_, harr, ha⟩
      have e : (b' :: frames).flatten ++ tail = b' ++ (frames.flatten ++ tail) := by simp
      simp only [List.length_cons, unpackN, e, ho, hu, Option.map_some]

/-- the message inside an `ok` outcome. -/
def outMsg : Raw.Out → Option Msg
  | .ok m _ => some m
  | _ => none

def outRest : Raw.Out → Option Bytes
  | .ok _ r => some r
  | _ => none

/-- a toy "gzip": one marker byte in front (lawful, never empty), registered as id 103, name `gz`. -/
def toyGz : Filter :=
  { pack := fun d => some (31 :: d)
    unpack := fun d => match d with
      | 31 :: r => some r
      | _ => none }

def envToy : Env :=
  { reg := fun i => if i == 103 then some toyGz else none
    fname := fun i => if i == 103 then [103, 122] else []
    byName := fun n => if n == [103, 122] then some 103 else none
    gz := fun i => i == 103
    xeof := fun _ _ => false
    sjson := fun _ => none }

theorem envToy_gz : GzOK envToy 103 := by
  refine ⟨rfl, rfl, by decide, by decide, toyGz, rfl, ?_⟩
  intro x
  exact ⟨31 :: x, rfl, by simp, rfl⟩

end HttpP
end Teleport
