/-
Lemmas/SrcFlow — vocabulary for the regenerated FLOWS of `srcfacts` (tie A; `harness/cmd/srcfacts/flow.go`).

A flow is the ordered list of the statements of interest of one Go function, each
`(kind, name, detail, use, guards)`:
  kind/name  `stage`/<stage function>, `store`/<status constant>, `cas`/`<to><-<from,…>`, `check`, `load`, `cmp`,
             `case`, `call`/<named call>, `wg`/`ctx.Wait`…, `lock`, `spawn`/`run`, `setcont`, `flag`, `return`, `branch`
  detail     container class of a stage call (`global` | `ctx` | `handler`), `argc=N`, value …
  use        how the call site uses the result (`ignored`, `fail-return`, `ok-guard`, `assigned`, …)
  guards     the conditions that syntactically enclose the statement, outermost first; `fn{`, `go{`,
             `defer{` mark function literals / spawned / deferred code
Everything here is computable by `decide` (string equality and list functions only). Core Lean only.
-/
namespace Teleport.SrcFlow

abbrev Ev := String × String × String × String × List String

namespace Ev
def kind (e : Ev) : String := e.1
def name (e : Ev) : String := e.2.1
def x (e : Ev) : String := e.2.2.1
def use (e : Ev) : String := e.2.2.2.1
def guards (e : Ev) : List String := e.2.2.2.2
/-- `kind:name` -/
def key (e : Ev) : String := e.1 ++ ":" ++ e.2.1
/-- inside a function literal, a spawned goroutine or a deferred call. -/
def inClosure (e : Ev) : Bool := e.guards.any fun g => g == "fn{" || g == "go{" || g == "defer{"
def deferred (e : Ev) : Bool := e.guards.contains "defer{"
def is (e : Ev) (kind name : String) : Bool := e.1 == kind && e.2.1 == name
end Ev

/-- the statements of the function itself (not of literals inside it). -/
def mainFlow (f : List Ev) : List Ev := f.filter fun e => !e.inClosure

/-- `kind:name` of every event that is neither a return nor a branch. -/
def keys (f : List Ev) : List String := (f.filter fun e => e.kind != "return" && e.kind != "branch").map Ev.key

/-- drop the keys the model at hand abstracts from. -/
def without (drop : List String) (ks : List String) : List String := ks.filter fun k => !drop.contains k

/-- everything strictly after the first element that satisfies `p`. -/
def after (p : α → Bool) : List α → Option (List α)
  | [] => none
  | a :: r => if p a then some r else after p r

/-- everything strictly before the first element that satisfies `p`. -/
def upto (p : α → Bool) : List α → Option (List α)
  | [] => none
  | a :: r => if p a then some [] else (upto p r).map (a :: ·)

/-- `a` occurs and `b` occurs after its first occurrence. -/
def before (a b : String) (ks : List String) : Bool :=
  match after (· == a) ks with
  | some r => r.contains b
  | none => false

/-- `b` occurs, and never before the first `a`. -/
def onlyAfter (a b : String) (ks : List String) : Bool :=
  ks.contains b && match upto (· == a) ks with
    | some pre => !pre.contains b
    | none => false

def count (k : String) (ks : List String) : Nat := (ks.filter (· == k)).length

def sameSet [BEq α] (a b : List α) : Bool := a.all b.contains && b.all a.contains

/-- remove consecutive and non-consecutive repetitions, keeping first occurrences. -/
def dedup [BEq α] : List α → List α
  | [] => []
  | a :: r => a :: (dedup r).filter (· != a)

/-- is the verdict of the call used by the call site (so that it can veto)? `none` = a use class
    the theorems do not accept. -/
def vetoUse (u : String) : Option Bool :=
  if u == "fail-return" || u == "ok-guard" then some true
  else if u == "ignored" then some false
  else none

end Teleport.SrcFlow
