import Teleport.Model.Status
import Teleport.Lemmas.Args
import Teleport.Lemmas.Num
namespace Teleport
namespace Status
open Bytes Args

/-- `key=value` segment with the `=` always present (as `EncodeQuery` writes it). -/
def segE (k v : Bytes) : Bytes := quote k ++ 61 :: quote v

theorem segE_no_amp (k v : Bytes) : ∀ c ∈ segE k v, c ≠ 38 := by
  intro c hc
  unfold segE at hc
  rcases List.mem_append.mp hc with h | h
  · exact (quote_no_sep _ c h).1
  · rcases List.mem_cons.mp h with h | h
    · subst h; decide
    · exact (quote_no_sep _ c h).1

theorem decodeSeg_segE (t : HexTab) (k v : Bytes) : decodeSeg t (segE k v) = some (k, v) := by
  unfold decodeSeg segE
  simp [splitEq_eq _ _ (fun c hc => (quote_no_sep k c hc).2), unquote_quote]

theorem scanOne_lastE (t : HexTab) (k v : Bytes) : scanOne t (segE k v) = (some (k, v), []) := by
  unfold scanOne
  rw [splitAmp_noamp _ (segE_no_amp k v)]
  simp [decodeSeg_segE]

theorem scanOne_moreE (t : HexTab) (k v r : Bytes) : scanOne t (segE k v ++ 38 :: r) = (some (k, v), r) := by
  unfold scanOne
  rw [splitAmp_amp _ _ (segE_no_amp k v)]
  simp [decodeSeg_segE]

theorem segE_ne_nil (k v : Bytes) : segE k v ≠ [] := by unfold segE; simp

theorem scanAll_lastE (t : HexTab) (k v : Bytes) : scanAll t (segE k v) = some [(k, v)] := by
  cases h : segE k v with
  | nil => exact absurd h (segE_ne_nil k v)
  | cons c cs => rw [scanAll_cons, ← h, scanOne_lastE]; simp [scanAll_nil]

theorem scanAll_moreE (t : HexTab) (k v r : Bytes) (l : List KV) (hr : scanAll t r = some l) :
    scanAll t (segE k v ++ 38 :: r) = some ((k, v) :: l) := by
  cases h : segE k v ++ 38 :: r with
  | nil => simp at h
  | cons c cs => rw [scanAll_cons, ← h, scanOne_moreE]; simp [hr]

theorem quote_id (s : Bytes) (h : ∀ c ∈ s, unreserved c = true) : quote s = s := by
  induction s with
  | nil => rfl
  | cons a as ih =>
    unfold quote
    simp [h a (by simp), ih (fun c hc => h c (by simp [hc]))]

theorem digitChar_unres : ∀ d, d < 10 → unreserved (Num.digitChar d) = true := by decide

theorem formatInt10_unres (i : Int) : ∀ c ∈ Num.formatInt 8 i, unreserved c = true := by
  have hn : ∀ n, ∀ c ∈ Num.formatNat 8 n, unreserved c = true := by
    intro n c hc
    unfold Num.formatNat at hc
    obtain ⟨d, hd, rfl⟩ := List.mem_map.mp hc
    have := Num.digitsRev_lt 8 n d (List.mem_reverse.mp hd)
    exact digitChar_unres d (by omega)
  unfold Num.formatInt
  split
  · intro c hc
    rcases List.mem_cons.mp hc with h | h
    · subst h; decide
    · exact hn _ c h
  · exact hn _

theorem encode_eq (s : Status) :
    encode s = segE kCode (Num.formatInt 8 s.code)
      ++ (if s.msg.isEmpty then [] else 38 :: segE kMsg s.msg)
      ++ (match s.cause with | none => [] | some c => 38 :: segE kCause c) := by
  unfold encode segE
  rw [quote_id _ (formatInt10_unres s.code)]
  have h1 : quote kCode = kCode := by decide
  have h2 : quote kMsg = kMsg := by decide
  have h3 : quote kCause = kCause := by decide
  rw [h1, h2, h3]
  simp only [List.append_assoc, List.cons_append]
  cases s.cause <;> simp

/-- `DecodeQuery(EncodeQuery(s)) = s` (code, message, cause text) for every status whose code is
    an int32; message and cause range over all byte strings. -/
theorem decode_encode (s : Status) (h : Num.inInt32 s.code) : decode (encode s) = some s := by
  have hne : (encode s).isEmpty = false := by
    rw [encode_eq]; unfold segE; simp
  unfold decode
  simp only [hne, Bool.false_eq_true, if_false]
  rw [encode_eq]
  obtain ⟨code, msg, cause⟩ := s
  have hc := Num.parseInt32_formatInt 8 (by omega) code h
  have k1 : (kCode == kMsg) = false := by decide
  have k2 : (kCode == kCause) = false := by decide
  have k3 : (kMsg == kCause) = false := by decide
  have k4 : (kMsg == kCode) = false := by decide
  have k5 : (kCause == kCode) = false := by decide
  have k6 : (kCause == kMsg) = false := by decide
  by_cases hm : msg.isEmpty = true
  · have hm' : msg = [] := by simpa using hm
    subst hm'
    cases cause with
    | none =>
      simp only [List.isEmpty_nil, if_true, List.append_nil]
      rw [scanAll_lastE]
      simp [decodeFrom, firstOf, hc, k1, k2]
    | some c =>
      simp only [List.isEmpty_nil, if_true, List.append_nil]
      rw [scanAll_moreE _ _ _ _ _ (scanAll_lastE _ kCause c)]
      simp [decodeFrom, firstOf, hc, k1, k2, k6]
  · cases cause with
    | none =>
      simp only [hm, if_false, List.append_nil, Bool.false_eq_true]
      rw [scanAll_moreE _ _ _ _ _ (scanAll_lastE _ kMsg msg)]
      simp [decodeFrom, firstOf, hc, k1, k2, k3]
    | some c =>
      simp only [hm, if_false, Bool.false_eq_true]
      rw [List.append_assoc, List.cons_append,
        scanAll_moreE _ _ _ _ _ (scanAll_moreE _ _ _ _ _ (scanAll_lastE _ kCause c))]
      simp [decodeFrom, firstOf, hc, k1, k2, k3]

end Status
end Teleport
