/-
Lemmas/PeerClose — invariant and progress of the `Peer.Close` product system (Model/PeerClose).
-/
import Teleport.Model.PeerClose
import Teleport.Lemmas.GracefulQ4
namespace Teleport.PeerClose
open Teleport.Graceful

/-- Internal events of the peer system: the steps of `Peer.Close` itself, the internal steps of every
    session, and the `Close()` of a session `Peer.Close` has spawned a goroutine for. External: new
    connections, hook verdicts (a plugin may take arbitrarily long), the delayed `sessHub.set` of
    `ServeConn`/`Dial` (its goroutine may be preempted arbitrarily long), `Peer.Close` being called, and
    the sessions' external events. -/
def PEv.internal (p : PSt) : PEv → Bool
  | .pLis | .pRange | .pVisit _ | .pRangeEnd | .pRecv _ | .pRet => true
  | .sess i e => e.internal || (e == .xStart && p.visited.contains i)
  | _ => false

/-- events that change a session (or add one) and nothing of `Peer.Close`'s own state. -/
def PEv.isSess : PEv → Bool
  | .accept | .serveConn | .dial | .hookOk _ | .hookFail _ | .goLive _ | .hubSet _ | .sess _ _ => true
  | _ => false

/-! ## list helpers -/

theorem get_set {α} : ∀ {l : List α} {i : Nat} {a : α} (b : α) (j : Nat), l[i]? = some a →
    (l.set i b)[j]? = if j = i then some b else l[j]?
  | [], _, _, _, _, h => by simp at h
  | x :: r, 0, a, b, j, _ => by
    cases j <;> simp
  | x :: r, i + 1, a, b, j, h => by
    cases j with
    | zero => simp
    | succ j =>
      simp only [List.getElem?_cons_succ] at h
      simp only [List.set_cons_succ, List.getElem?_cons_succ]
      rw [get_set b j h]
      simp

theorem get_snoc {α} {l : List α} {i : Nat} {a : α} (b : α) (h : l[i]? = some a) : (l ++ [b])[i]? = some a := by
  have hi : i < l.length := by
    rcases Nat.lt_or_ge i l.length with h1 | h1
    · exact h1
    · rw [List.getElem?_eq_none h1] at h; cases h
  rw [List.getElem?_append_left hi]; exact h

/-! ## per-session facts -/

theorem step_closeReturned {s t : St} {e : Ev} (hs : step s e = some t) (h : s.closeReturned = true) :
    t.closeReturned = true := by
  c08_step_cases' hs <;> simp_all [St.closeReturned]

theorem step_closer_counts {s t : St} {e : Ev} (he : isCloserEv e = true) (hs : step s e = some t) :
    t.ctx = s.ctx ∧ t.calls = s.calls := by
  c08_step_cases' hs <;> simp_all [isCloserEv]

theorem hubAfter_le {h : Bool} {e : Ev} {t : St} (hh : hubAfter h e t = true) : h = true := by
  cases e <;> simp only [hubAfter] at hh <;> first | exact hh | (split at hh <;> first | exact hh | cases hh) | cases hh

/-- what holds of every session record. -/
structure Good (s : Sess) : Prop where
  reach : Reach St.init s.st
  hubset : s.hub = true → s.setDone = true
  fresh : s.ph = .hooks → s.setDone = false
  prep : s.ph ≠ .live → s.st.ctx = 0 ∧ s.st.calls = 0

/-- what a step of the system never undoes in a session record. -/
structure Mono (s s' : Sess) : Prop where
  cr : s.st.closeReturned = true → s'.st.closeReturned = true
  sd : s.setDone = true → s'.setDone = true
  hub : s.setDone = true → s'.hub = true → s.hub = true

def Ext (ss ss' : List Sess) : Prop := ∀ (i : Nat) (s : Sess), ss[i]? = some s → ∃ s', ss'[i]? = some s' ∧ Mono s s'

def SameCtl (p q : PSt) : Prop :=
  q.pc = p.pc ∧ q.chClosed = p.chClosed ∧ q.lis = p.lis ∧ q.must = p.must ∧ q.visited = p.visited ∧
  q.count = p.count ∧ q.pend = p.pend ∧ q.recvd = p.recvd

theorem mono_refl (s : Sess) : Mono s s := ⟨id, id, fun _ h => h⟩

theorem ext_refl (ss : List Sess) : Ext ss ss := fun _ s h => ⟨s, h, mono_refl s⟩

theorem ext_set {ss : List Sess} {k : Nat} {a b : Sess} (hk : ss[k]? = some a) (hm : Mono a b) :
    Ext ss (ss.set k b) := by
  intro i s hs
  rw [get_set b i hk]
  by_cases hik : i = k
  · subst hik
    rw [hk] at hs
    cases hs
    exact ⟨b, by simp, hm⟩
  · exact ⟨s, by simp [hik, hs], mono_refl s⟩

theorem ext_snoc (ss : List Sess) (b : Sess) : Ext ss (ss ++ [b]) :=
  fun _ s hs => ⟨s, get_snoc b hs, mono_refl s⟩

theorem good_new (r : Role) : Good (Sess.new r) :=
  ⟨.refl, by simp [Sess.new], by simp [Sess.new], by simp [Sess.new, St.init]⟩

theorem same_ctl_ss (p : PSt) (ss : List Sess) : SameCtl p { p with ss := ss } :=
  ⟨rfl, rfl, rfl, rfl, rfl, rfl, rfl, rfl⟩

/-- a session event leaves `Peer.Close`'s own state alone, keeps every session record good and only
    moves the records forward. -/
theorem sess_step {p q : PSt} {e : PEv} (he : e.isSess = true) (hg : ∀ s ∈ p.ss, Good s)
    (hs : pstep p e = some q) : SameCtl p q ∧ (∀ s ∈ q.ss, Good s) ∧ Ext p.ss q.ss := by
  cases e with
  | accept =>
    simp only [pstep] at hs
    split at hs
    · cases hs
      exact ⟨same_ctl_ss _ _, forall_snoc hg (good_new _), ext_snoc _ _⟩
    · cases hs
  | serveConn =>
    simp only [pstep] at hs
    cases hs
    exact ⟨same_ctl_ss _ _, forall_snoc hg (good_new _), ext_snoc _ _⟩
  | dial =>
    simp only [pstep] at hs
    cases hs
    exact ⟨same_ctl_ss _ _, forall_snoc hg (good_new _), ext_snoc _ _⟩
  | hookOk i =>
    simp only [pstep] at hs
    split at hs
    · rename_i s hk
      have hG := hg s (List.mem_of_getElem? hk)
      split at hs
      · rename_i hph
        split at hs
        · cases hs
          refine ⟨same_ctl_ss _ _, forall_set hk hg (fun _ _ => ⟨hG.reach, fun _ => rfl, ?_, ?_⟩), ext_set hk ⟨id, fun _ => rfl, ?_⟩⟩
          · intro h; cases h
          · intro _; exact hG.prep (by rw [hph]; decide)
          · intro h; rw [hG.fresh hph] at h; cases h
        · split at hs
          · cases hs
            refine ⟨same_ctl_ss _ _, forall_set hk hg (fun _ _ => ⟨hG.reach, hG.hubset, ?_, ?_⟩), ext_set hk ⟨id, id, fun _ h => h⟩⟩
            · intro h; cases h
            · intro h; exact absurd rfl h
          · cases hs
            refine ⟨same_ctl_ss _ _, forall_set hk hg (fun _ _ => ⟨hG.reach, hG.hubset, ?_, ?_⟩), ext_set hk ⟨id, id, fun _ h => h⟩⟩
            · intro h; cases h
            · intro _; exact hG.prep (by rw [hph]; decide)
      · cases hs
    · cases hs
  | hookFail i =>
    simp only [pstep] at hs
    split at hs
    · rename_i s hk
      have hG := hg s (List.mem_of_getElem? hk)
      split at hs
      · rename_i hph
        cases hs
        refine ⟨same_ctl_ss _ _, forall_set hk hg (fun _ _ => ⟨hG.reach, hG.hubset, ?_, ?_⟩), ext_set hk ⟨id, id, fun _ h => h⟩⟩
        · intro h; cases h
        · intro _; exact hG.prep (by rw [hph]; decide)
      · cases hs
    · cases hs
  | goLive i =>
    simp only [pstep] at hs
    split at hs
    · rename_i s hk
      have hG := hg s (List.mem_of_getElem? hk)
      split at hs
      · rename_i hph
        split at hs
        · cases hs
          refine ⟨same_ctl_ss _ _, forall_set hk hg (fun _ _ => ⟨hG.reach, hG.hubset, ?_, ?_⟩), ext_set hk ⟨id, id, fun _ h => h⟩⟩
          · intro h; cases h
          · intro h; exact absurd rfl h
        · cases hs
          refine ⟨same_ctl_ss _ _, forall_set hk hg (fun _ _ => ⟨hG.reach, ?_, ?_, ?_⟩), ext_set hk ⟨id, id, ?_⟩⟩
          · intro h; cases h
          · intro h; cases h
          · intro _; exact hG.prep (by rw [hph]; decide)
          · intro _ h; cases h
      · cases hs
    · cases hs
  | hubSet i =>
    simp only [pstep] at hs
    split at hs
    · rename_i s hk
      have hG := hg s (List.mem_of_getElem? hk)
      split at hs
      · rename_i hgd
        cases hs
        refine ⟨same_ctl_ss _ _, forall_set hk hg (fun _ _ => ⟨hG.reach, fun _ => rfl, ?_, ?_⟩), ext_set hk ⟨id, fun _ => rfl, ?_⟩⟩
        · intro h; rw [hgd.1] at h; cases h
        · intro h; exact absurd hgd.1 h
        · intro h; rw [hgd.2.2] at h; cases h
      · cases hs
    · cases hs
  | sess i e =>
    simp only [pstep] at hs
    split at hs
    · rename_i s hk
      have hG := hg s (List.mem_of_getElem? hk)
      split at hs
      · rename_i hgd
        split at hs
        · rename_i t hst
          cases hs
          refine ⟨same_ctl_ss _ _, forall_set hk hg (fun _ _ => ⟨.step hG.reach ⟨e, hst⟩, ?_, hG.fresh, ?_⟩),
            ext_set hk ⟨step_closeReturned hst, id, fun _ h => hubAfter_le h⟩⟩
          · intro h; exact hG.hubset (hubAfter_le h)
          · intro hnl
            rcases hgd with h | ⟨_, hce⟩
            · exact absurd h hnl
            · have := step_closer_counts hce hst
              have h0 := hG.prep hnl
              exact ⟨by rw [this.1]; exact h0.1, by rw [this.2]; exact h0.2⟩
        · cases hs
      · cases hs
    · cases hs
  | _ => cases he

/-! ## the invariant -/

structure PInv (p : PSt) : Prop where
  good : ∀ s ∈ p.ss, Good s
  ch : 1 ≤ p.pc.rank → p.chClosed = true
  lis : 2 ≤ p.pc.rank → p.lis = false
  cnt : p.recvd + p.pend.length = p.count
  retcnt : p.pc = .ret → p.recvd = p.count
  vis : ∀ i ∈ p.visited, i ∈ p.pend ∨ ∃ s, p.ss[i]? = some s ∧ s.st.closeReturned = true
  pendsub : ∀ i ∈ p.pend, i ∈ p.visited
  visidx : ∀ i ∈ p.visited, ∃ s, p.ss[i]? = some s
  mustset : ∀ i ∈ p.must, ∃ s, p.ss[i]? = some s ∧ s.setDone = true
  cover : 4 ≤ p.pc.rank → ∀ i ∈ p.must, i ∈ p.visited ∨ ∃ s, p.ss[i]? = some s ∧ s.hub = false

theorem pinv_init : PInv PSt.init := by
  refine ⟨?_, ?_, ?_, rfl, ?_, ?_, ?_, ?_, ?_, ?_⟩ <;> simp [PSt.init, PPc.rank]

theorem mem_hubIdx {ss : List Sess} {i : Nat} (h : i ∈ hubIdx ss) : ∃ s, ss[i]? = some s ∧ s.hub = true := by
  unfold hubIdx at h
  have h2 := (List.mem_filter.1 h).2
  cases hs : ss[i]? with
  | none => rw [hs] at h2; cases h2
  | some s => rw [hs] at h2; exact ⟨s, rfl, h2⟩

/-- preservation under a session event. -/
theorem pinv_sess {p q : PSt} {e : PEv} (he : e.isSess = true) (hI : PInv p) (hs : pstep p e = some q) : PInv q := by
  obtain ⟨⟨h1, h2, h3, h4, h5, h6, h7, h8⟩, hgood, hext⟩ := sess_step he hI.good hs
  refine ⟨hgood, ?_, ?_, ?_, ?_, ?_, ?_, ?_, ?_, ?_⟩
  · rw [h1, h2]; exact hI.ch
  · rw [h1, h3]; exact hI.lis
  · rw [h8, h7, h6]; exact hI.cnt
  · rw [h1, h8, h6]; exact hI.retcnt
  · rw [h5, h7]
    intro i hi
    rcases hI.vis i hi with h | ⟨s, hs1, hs2⟩
    · exact Or.inl h
    · obtain ⟨s', hs', hm⟩ := hext i s hs1
      exact Or.inr ⟨s', hs', hm.cr hs2⟩
  · rw [h5, h7]; exact hI.pendsub
  · rw [h5]
    intro i hi
    obtain ⟨s, hs1⟩ := hI.visidx i hi
    obtain ⟨s', hs', _⟩ := hext i s hs1
    exact ⟨s', hs'⟩
  · rw [h4]
    intro i hi
    obtain ⟨s, hs1, hs2⟩ := hI.mustset i hi
    obtain ⟨s', hs', hm⟩ := hext i s hs1
    exact ⟨s', hs', hm.sd hs2⟩
  · rw [h1, h4, h5]
    intro hr i hi
    rcases hI.cover hr i hi with h | ⟨s, hs1, hs2⟩
    · exact Or.inl h
    · obtain ⟨s', hs', hm⟩ := hext i s hs1
      obtain ⟨s0, hs0, hsd⟩ := hI.mustset i hi
      rw [hs1] at hs0
      cases hs0
      refine Or.inr ⟨s', hs', ?_⟩
      cases hh : s'.hub with
      | false => rfl
      | true => have := hm.hub hsd hh; rw [hs2] at this; cases this

/-- preservation under every step. -/
theorem pinv_step {p q : PSt} {e : PEv} (hI : PInv p) (hs : pstep p e = some q) : PInv q := by
  cases e with
  | pStart =>
    simp only [pstep] at hs
    split at hs
    · rename_i hpc
      cases hs
      refine ⟨hI.good, fun _ => rfl, ?_, hI.cnt, ?_, hI.vis, hI.pendsub, hI.visidx, hI.mustset, ?_⟩
      · intro h; simp [PPc.rank] at h
      · intro h; cases h
      · intro h; simp [PPc.rank] at h
    · cases hs
  | pLis =>
    simp only [pstep] at hs
    split at hs
    · rename_i hpc
      cases hs
      refine ⟨hI.good, fun _ => hI.ch (by rw [hpc]; decide), fun _ => rfl, hI.cnt, ?_, hI.vis, hI.pendsub,
        hI.visidx, hI.mustset, ?_⟩
      · intro h; cases h
      · intro h; simp [PPc.rank] at h
    · cases hs
  | pRange =>
    simp only [pstep] at hs
    split at hs
    · rename_i hpc
      cases hs
      refine ⟨hI.good, fun _ => hI.ch (by rw [hpc]; decide), fun _ => hI.lis (by rw [hpc]; decide), hI.cnt, ?_,
        hI.vis, hI.pendsub, hI.visidx, ?_, ?_⟩
      · intro h; cases h
      · intro i hi
        obtain ⟨s, hs1, hs2⟩ := mem_hubIdx hi
        exact ⟨s, hs1, (hI.good s (List.mem_of_getElem? hs1)).hubset hs2⟩
      · intro h; simp [PPc.rank] at h
    · cases hs
  | pVisit i =>
    simp only [pstep] at hs
    split at hs
    · rename_i s hk
      split at hs
      · rename_i hgd
        cases hs
        refine ⟨hI.good, fun _ => hI.ch (by rw [hgd.1]; decide), fun _ => hI.lis (by rw [hgd.1]; decide), ?_, ?_,
          ?_, ?_, ?_, hI.mustset, ?_⟩
        · have := hI.cnt
          simp only [List.length_cons]
          omega
        · intro h; rw [hgd.1] at h; cases h
        · intro j hj
          rcases List.mem_cons.1 hj with h | h
          · exact Or.inl (by rw [h]; exact List.mem_cons_self)
          · rcases hI.vis j h with h2 | h2
            · exact Or.inl (List.mem_cons_of_mem _ h2)
            · exact Or.inr h2
        · intro j hj
          rcases List.mem_cons.1 hj with h | h
          · rw [h]; exact List.mem_cons_self
          · exact List.mem_cons_of_mem _ (hI.pendsub j h)
        · intro j hj
          rcases List.mem_cons.1 hj with h | h
          · rw [h]; exact ⟨s, hk⟩
          · exact hI.visidx j h
        · intro h; rw [hgd.1] at h; simp [PPc.rank] at h
      · cases hs
    · cases hs
  | pRangeEnd =>
    simp only [pstep] at hs
    split at hs
    · rename_i hgd
      cases hs
      refine ⟨hI.good, fun _ => hI.ch (by rw [hgd.1]; decide), fun _ => hI.lis (by rw [hgd.1]; decide), hI.cnt, ?_,
        hI.vis, hI.pendsub, hI.visidx, hI.mustset, ?_⟩
      · intro h; cases h
      · intro _ i hi
        have hd := hgd.2
        unfold rangeDone at hd
        have hf := List.all_eq_true.1 hd i hi
        obtain ⟨s, hs1, _⟩ := hI.mustset i hi
        rw [hs1] at hf
        cases hv : p.visited.contains i with
        | true => exact Or.inl (by simpa using hv)
        | false =>
          rw [hv] at hf
          refine Or.inr ⟨s, hs1, ?_⟩
          cases hh : s.hub with
          | false => rfl
          | true => simp [hh] at hf
    · cases hs
  | pRecv i =>
    simp only [pstep] at hs
    split at hs
    · rename_i s hk
      split at hs
      · rename_i hgd
        cases hs
        have hmem : i ∈ p.pend := by simpa using hgd.2.2.1
        refine ⟨hI.good, fun _ => hI.ch (by rw [hgd.1]; decide), fun _ => hI.lis (by rw [hgd.1]; decide), ?_, ?_,
          ?_, ?_, hI.visidx, hI.mustset, ?_⟩
        · have := hI.cnt
          have h1 := List.length_erase_of_mem hmem
          have h2 := List.length_pos_of_mem hmem
          simp only [h1]
          omega
        · intro h; rw [hgd.1] at h; cases h
        · intro j hj
          rcases hI.vis j hj with h2 | h2
          · by_cases hji : j = i
            · exact Or.inr ⟨s, by rw [hji]; exact hk, hgd.2.2.2⟩
            · exact Or.inl ((List.mem_erase_of_ne hji).2 h2)
          · exact Or.inr h2
        · intro j hj
          exact hI.pendsub j (List.mem_of_mem_erase hj)
        · intro h; exact hI.cover (by rw [hgd.1]; decide)
      · cases hs
    · cases hs
  | pRet =>
    simp only [pstep] at hs
    split at hs
    · rename_i hgd
      cases hs
      refine ⟨hI.good, fun _ => hI.ch (by rw [hgd.1]; decide), fun _ => hI.lis (by rw [hgd.1]; decide), hI.cnt,
        fun _ => hgd.2, hI.vis, hI.pendsub, hI.visidx, hI.mustset, fun _ => hI.cover (by rw [hgd.1]; decide)⟩
    · cases hs
  | accept => exact pinv_sess rfl hI hs
  | serveConn => exact pinv_sess rfl hI hs
  | dial => exact pinv_sess rfl hI hs
  | hookOk i => exact pinv_sess rfl hI hs
  | hookFail i => exact pinv_sess rfl hI hs
  | goLive i => exact pinv_sess rfl hI hs
  | hubSet i => exact pinv_sess rfl hI hs
  | sess i e => exact pinv_sess rfl hI hs

theorem pinv_reach {p : PSt} (r : PReach PSt.init p) : PInv p := by
  induction r with
  | refl => exact pinv_init
  | step _ hst ih =>
    obtain ⟨e, he⟩ := hst
    exact pinv_step ih he

theorem prun_reach : ∀ (es : List PEv) {p q : PSt}, prun p es = some q → PReach p q
  | [], p, q, h => by simp only [prun, Option.some.injEq] at h; subst h; exact .refl
  | e :: es, p, q, h => by
    simp only [prun] at h
    cases hs : pstep p e with
    | none => rw [hs] at h; simp at h
    | some u =>
      rw [hs] at h
      simp only [Option.bind_some] at h
      have r2 := prun_reach es h
      have r1 : PReach p u := .step .refl ⟨e, hs⟩
      clear h
      induction r2 with
      | refl => exact r1
      | step _ hst ih => exact .step ih hst

/-- when `Peer.Close` has returned, every spawned `Close` has been received. -/
theorem ret_pend_nil {p : PSt} (hI : PInv p) (hr : p.pc = .ret) : p.pend = [] := by
  have h1 := hI.cnt
  have h2 := hI.retcnt hr
  have : p.pend.length = 0 := by omega
  exact List.length_eq_zero_iff.1 this

/-! ## progress -/

def PQuiescent (p : PSt) : Prop := ∀ e : PEv, e.internal p = true → pstep p e = none

/-- the environment owes nothing to the sessions `Peer.Close` is closing. -/
def PEnvDone (p : PSt) : Prop := ∀ i ∈ p.visited, ∀ s, p.ss[i]? = some s → EnvDone s.st

/-- in a quiescent state the `Close()` of every visited session has returned (given the environment
    owes that session nothing). -/
theorem quiescent_visited_returned {p : PSt} (hI : PInv p) (hq : PQuiescent p) {i : Nat} {s : Sess}
    (hv : i ∈ p.visited) (hk : p.ss[i]? = some s) (he : EnvDone s.st) : s.st.closeReturned = true := by
  have hG := hI.good s (List.mem_of_getElem? hk)
  have hvc : p.visited.contains i = true := by simpa using hv
  -- what quiescence says about an event `e` of session `i`
  have key : ∀ e : Ev, (e.internal || (e == .xStart && p.visited.contains i)) = true →
      (s.ph = .live ∨ ((s.ph = .hooks ∨ s.ph = .hubbed ∨ s.ph = .gone) ∧ isCloserEv e = true)) →
      step s.st e = none := by
    intro e hi hph
    have h := hq (.sess i e) hi
    simp only [pstep, hk] at h
    rw [if_pos hph] at h
    cases hst : step s.st e with
    | none => rfl
    | some t => rw [hst] at h; cases h
  by_cases hl : s.ph = .live
  · have hqs : Quiescent s.st := fun e hi => key e (by simp [hi]) (Or.inl hl)
    have hc : s.st.closer ≠ .idle := by
      intro hc
      have := key .xStart (by simp; exact Or.inr hv) (Or.inl hl)
      simp [step, hc] at this
      split at this <;> cases this
    exact (close_returns (sinv_reach hG.reach) (qinv_reach hG.reach) hqs hc he).1
  · have hph : s.ph = .hooks ∨ s.ph = .hubbed ∨ s.ph = .gone := by
      cases h : s.ph <;> simp_all
    have h0 := hG.prep hl
    cases hc : s.st.closer with
    | ret => simp [St.closeReturned, hc]
    | noop => simp [St.closeReturned, hc]
    | idle =>
      have := key .xStart (by simp; exact Or.inr hv) (Or.inr ⟨hph, rfl⟩)
      simp [step, hc] at this
      split at this <;> cases this
    | cas =>
      have := key .xHubdel (by simp [Ev.internal]) (Or.inr ⟨hph, rfl⟩)
      simp [step, hc] at this
    | hubdel =>
      have := key .xCtxWait (by simp [Ev.internal]) (Or.inr ⟨hph, rfl⟩)
      simp [step, hc, h0.1] at this
    | ctxw =>
      have := key .xCallWait (by simp [Ev.internal]) (Or.inr ⟨hph, rfl⟩)
      simp [step, hc, h0.2] at this
    | callw =>
      have := key .xStClosed (by simp [Ev.internal]) (Or.inr ⟨hph, rfl⟩)
      simp [step, hc] at this
    | stc =>
      have := key .xSock (by simp [Ev.internal]) (Or.inr ⟨hph, rfl⟩)
      simp [step, hc] at this
    | sockc =>
      have := key .xRet (by simp [Ev.internal]) (Or.inr ⟨hph, rfl⟩)
      simp [step, hc] at this

/-- In a state in which no internal step is enabled and `Peer.Close` has been called: it has
    returned, provided the `Close()` of every session it spawned one for has returned. -/
theorem peer_returns_of_sessions {p : PSt} (hI : PInv p) (hq : PQuiescent p) (hc : p.pc ≠ .idle)
    (hall : ∀ i ∈ p.visited, ∀ s, p.ss[i]? = some s → s.st.closeReturned = true) : p.pc = .ret := by
  cases hpc : p.pc with
  | idle => exact absurd hpc hc
  | ret => rfl
  | chClosed =>
    have := hq .pLis rfl
    simp [pstep, hpc] at this
  | lisClosed =>
    have := hq .pRange rfl
    simp [pstep, hpc] at this
  | ranging =>
    exfalso
    by_cases hd : rangeDone p = true
    · have := hq .pRangeEnd rfl
      simp [pstep, hpc, hd] at this
    · have hex : ∃ i, i ∈ p.must ∧ ¬ ((p.visited.contains i ||
          match p.ss[i]? with
          | some s => !s.hub
          | none => true) = true) := by
        apply Classical.byContradiction
        intro hne
        apply hd
        unfold rangeDone
        rw [List.all_eq_true]
        intro i hi
        apply Classical.byContradiction
        intro hf
        exact hne ⟨i, hi, hf⟩
      obtain ⟨i, hi, hf⟩ := hex
      obtain ⟨s, hs1, _⟩ := hI.mustset i hi
      rw [hs1] at hf
      simp at hf
      obtain ⟨hv, hh⟩ := hf
      have := hq (.pVisit i) rfl
      simp [pstep, hs1, hpc, hh, hv] at this
  | recv =>
    exfalso
    cases hp : p.pend with
    | nil =>
      have h1 := hI.cnt
      rw [hp] at h1
      have h1' : p.recvd = p.count := by simpa using h1
      have := hq .pRet rfl
      simp [pstep, hpc, h1'] at this
    | cons i rest =>
      have hip : i ∈ p.pend := by rw [hp]; exact List.mem_cons_self
      have hiv := hI.pendsub i hip
      obtain ⟨s, hk⟩ := hI.visidx i hiv
      have hcr := hall i hiv s hk
      have h1 := hI.cnt
      rw [hp] at h1
      simp only [List.length_cons] at h1
      have hlt : p.recvd < p.count := by omega
      have := hq (.pRecv i) rfl
      simp [pstep, hk, hpc, hlt, hip, hcr] at this

/-- **Peer.Close returns.** In a state in which no internal step is enabled, `Peer.Close` has been
    called and the environment owes nothing to the sessions it is closing: it HAS returned. -/
theorem peer_close_returns {p : PSt} (hI : PInv p) (hq : PQuiescent p) (hc : p.pc ≠ .idle) (he : PEnvDone p) :
    p.pc = .ret :=
  peer_returns_of_sessions hI hq hc fun i hiv s hk => quiescent_visited_returned hI hq hiv hk (he i hiv s hk)

end Teleport.PeerClose
