/-
Lemmas/RedialStorm — the redial storm of the thread machine of Model/Redial (C13): with a Push
that keeps redialing and readers that are each one connection behind, internal steps alone go on
for ever (every stale reader closes the connection the writer has just established, the writer
redials, the reader of the closed connection becomes the next stale reader). Hence no
natural-number measure decreases with every internal step: `storm_unbounded`, `no_measure`.
-/
import Teleport.Lemmas.RedialInv
namespace Teleport.Redial

/-! ## forward step lemmas -/

theorem get_setPc_self {s : State} {i : Nat} {r : Role} {pc : Pc} {th : Thread} (h : s.threads[i]? = some th) :
    (s.setPc i r pc).threads[i]? = some ⟨r, pc⟩ := by
  simp [State.setPc, lt_of_getElem?_some h]

theorem get_setPc_ne {s : State} {i j : Nat} {r : Role} {pc : Pc} (h : i ≠ j) :
    (s.setPc i r pc).threads[j]? = s.threads[j]? := by
  simp [State.setPc, List.getElem?_set_ne h]

theorem fwd_rRead {s : State} {i k : Nat} (h : s.threads[i]? = some ⟨.reader k, .rRead⟩) (hk : k ∈ s.dead) :
    threadStep s i = some (s.setPc i (.reader k) .rErr) := by simp [threadStep, h, hk]

theorem fwd_rErr {s : State} {i k : Nat} (h : s.threads[i]? = some ⟨.reader k, .rErr⟩) :
    threadStep s i = some (s.setPc i (.reader k) (.dLoaded s.status)) := by simp [threadStep, h]

theorem fwd_cas {s : State} {i k : Nat} (h : s.threads[i]? = some ⟨.reader k, .dLoaded .ok⟩) (hs : s.status = .ok) :
    threadStep s i = some ({ s with status := .passiveClosing }.setPc i (.reader k) (.dStored .ok)) := by
  simp [threadStep, h, hs]

theorem fwd_dStored {s : State} {i k : Nat} {st : Status} (h : s.threads[i]? = some ⟨.reader k, .dStored st⟩) :
    threadStep s i = some ({ s with hub := s.hub.erase s.id }.setPc i (.reader k) (.dCancel st)) := by
  simp [threadStep, h]

theorem fwd_dCancel {s : State} {i k : Nat} {st : Status} (h : s.threads[i]? = some ⟨.reader k, .dCancel st⟩)
    (hb : s.callerBusy = false) :
    threadStep s i = some ({ s with calls := s.calls.map cancelCall }.setPc i (.reader k) (.dClose st)) := by
  simp [threadStep, h, hb]

theorem fwd_dCloseKill {s : State} {i k : Nat} (h : s.threads[i]? = some ⟨.reader k, .dClose .ok⟩)
    (hc : s.sockClosed = false) :
    threadStep s i = some ({ s with sockClosed := true, dead := s.conn :: s.dead }.setPc i (.reader k) .dRedial) := by
  simp [threadStep, h, hc]

theorem fwd_dRedial {s : State} {i k : Nat} (h : s.threads[i]? = some ⟨.reader k, .dRedial⟩) (hr : s.redial = true) :
    threadStep s i = some (s.setPc i (.reader k) (.xLock k)) := by simp [threadStep, h, hr]

theorem fwd_xLock {s : State} {i old : Nat} {role : Role} (h : s.threads[i]? = some ⟨role, .xLock old⟩)
    (hl : s.lock = false) : threadStep s i = some ({ s with lock := true }.setPc i role (.xLocked old)) := by
  cases role <;> simp [threadStep, h, hl]

theorem fwd_xLocked {s u : State} {i old : Nat} {role : Role} {r : Bool} (h : s.threads[i]? = some ⟨role, .xLocked old⟩)
    (hr : redialLocked s old = (u, some r)) :
    threadStep s i = some (afterRedial { u with lock := false } i role r) := by
  cases role <;> simp [threadStep, h, hr]

theorem fwd_wCheck {s : State} {i : Nat} (h : s.threads[i]? = some ⟨.pusher, .wCheck⟩) :
    threadStep s i = some (s.setPc i .pusher (.wWrite s.conn s.status)) := by simp [threadStep, h]

theorem fwd_wWriteRedial {s : State} {i used : Nat} {st : Status} (h : s.threads[i]? = some ⟨.pusher, .wWrite used st⟩)
    (hg : st ≠ .ok ∨ s.conn ∈ s.dead) (he : s.werrEOF = true) (hr : s.redial = true) :
    threadStep s i = some (s.setPc i .pusher (.xLock used)) := by
  have h1 : ¬ (st = .ok ∧ s.conn ∉ s.dead) := by
    rintro ⟨a, b⟩
    rcases hg with g | g
    · exact g a
    · exact b g
  simp [threadStep, h, h1, he, hr]

/-! ## the storm invariant -/

def NoCallers (l : List Thread) : Prop := ∀ th ∈ l, ∀ j, th.role ≠ .caller j

theorem noCallers_busy {s : State} (h : NoCallers s.threads) : s.callerBusy = false := by
  cases hb : s.callerBusy with
  | false => rfl
  | true =>
    unfold State.callerBusy at hb
    obtain ⟨th, hm, hp⟩ := List.any_eq_true.mp hb
    obtain ⟨role, pc⟩ := th
    cases role with
    | reader k => simp at hp
    | pusher => simp at hp
    | caller j => exact absurd rfl (h _ hm j)

theorem noCallers_set {l : List Thread} {i : Nat} {role : Role} {pc : Pc} (h : NoCallers l)
    (hr : ∀ j, role ≠ .caller j) : NoCallers (l.set i ⟨role, pc⟩) := by
  intro th hm
  rcases mem_set_cases hm with e | hm
  · rw [e]; exact hr
  · exact h th hm

/-- the writer (thread 1, a Push) is about to check the session, which is in trouble; the reader at
    index `r` belongs to a connection that is lost and has not noticed yet; the server is up. -/
structure Storm (s : State) (r : Nat) : Prop where
  w : s.threads[1]? = some ⟨.pusher, .wCheck⟩
  rd : ∃ k, s.threads[r]? = some ⟨.reader k, .rRead⟩ ∧ k ∈ s.dead ∧ k ≤ s.conn
  lock : s.lock = false
  bud : s.redial = true
  eof : s.werrEOF = true
  env : s.env = ⟨[], .up⟩
  st : s.status = .ok ∨ s.status = .passiveClosing
  tr : s.status ≠ .ok ∨ s.conn ∈ s.dead
  nc : NoCallers s.threads

/-- the state after the writer has redialed. -/
structure Mid (t : State) (r k n : Nat) : Prop where
  w : t.threads[1]? = some ⟨.pusher, .wCheck⟩
  rd : t.threads[r]? = some ⟨.reader k, .rRead⟩
  kd : k ∈ t.dead
  kc : k < t.conn
  nw : t.threads[n]? = some ⟨.reader t.conn, .rRead⟩
  rn : r ≠ n
  st : t.status = .ok
  sock : t.sockClosed = false
  lock : t.lock = false
  bud : t.redial = true
  eof : t.werrEOF = true
  env : t.env = ⟨[], .up⟩
  nc : NoCallers t.threads

theorem dialRound_up (b : Int) : dialRound b ⟨[], .up⟩ = ⟨[.up], .success, ⟨[], .up⟩⟩ := by
  simp [dialRound, Env.pop]

/-- the writer's four steps: check, write fails / status not Ok, lock, a successful round. -/
theorem storm_writer {s : State} {r : Nat} (h : Storm s r) :
    ∃ t k, run s [.th 1, .th 1, .th 1, .th 1] = some t ∧ Mid t r k s.threads.length := by
  obtain ⟨k, hrd, hkd, hkc⟩ := h.rd
  have hr1 : (1 : Nat) ≠ r := by
    intro e; subst e; rw [h.w] at hrd; cases hrd
  have hlen : r < s.threads.length := lt_of_getElem?_some hrd
  have hlen1 : 1 < s.threads.length := lt_of_getElem?_some h.w
  -- step 1
  have e1 := fwd_wCheck h.w
  have g1 : (s.setPc 1 .pusher (.wWrite s.conn s.status)).threads[1]? = some ⟨.pusher, .wWrite s.conn s.status⟩ :=
    get_setPc_self h.w
  -- step 2
  have e2 := fwd_wWriteRedial (s := s.setPc 1 .pusher (.wWrite s.conn s.status)) g1 h.tr h.eof h.bud
  have g2 := get_setPc_self (r := .pusher) (pc := .xLock s.conn) g1
  -- step 3
  have e3 := fwd_xLock (s := (s.setPc 1 .pusher (.wWrite s.conn s.status)).setPc 1 .pusher (.xLock s.conn)) g2 h.lock
  generalize hs3 : State.setPc { (s.setPc 1 .pusher (.wWrite s.conn s.status)).setPc 1 .pusher (.xLock s.conn) with lock := true }
      1 .pusher (.xLocked s.conn) = s3 at e3
  have g3 : s3.threads[1]? = some ⟨.pusher, .xLocked s.conn⟩ := by
    rw [← hs3]; exact get_setPc_self (s := { (s.setPc 1 .pusher (.wWrite s.conn s.status)).setPc 1 .pusher (.xLock s.conn) with lock := true }) g2
  have c3 : s3.conn = s.conn := by rw [← hs3]; rfl
  have st3 : s3.status = s.status := by rw [← hs3]; rfl
  have env3 : s3.env = ⟨[], .up⟩ := by rw [← hs3]; exact h.env
  have hcas : casFrom s3.status = true := by
    rw [st3]; rcases h.st with e | e <;> simp [casFrom, e]
  have hdial : dialRound s3.budget s3.env = ⟨[.up], .success, ⟨[], .up⟩⟩ := by rw [env3]; exact dialRound_up _
  have hrl := redialLocked_success_eq s3 hcas (by rw [hdial])
  rw [c3] at hrl
  have e4 := fwd_xLocked g3 hrl
  have hfold : roundFold s3 = applyAttempt (s3.id == .addr s3.conn) s3.id (roundStart s3) .up := by
    simp [roundFold, hdial]
  refine ⟨afterRedial { finishOk (roundFold s3) s.conn with lock := false } 1 .pusher true, k,
    by simp only [run, step, e1, e2, e3, e4, Option.bind_some], ?_⟩
  have hT3 : s3.threads = ((s.threads.set 1 ⟨.pusher, .wWrite s.conn s.status⟩).set 1 ⟨.pusher, .xLock s.conn⟩).set 1
      ⟨.pusher, .xLocked s.conn⟩ := by rw [← hs3]; rfl
  have hT : (afterRedial { finishOk (roundFold s3) s.conn with lock := false } 1 .pusher true).threads =
      (s3.threads ++ [(⟨.reader (s.conn + 1), .rRead⟩ : Thread)]).set 1 ⟨.pusher, .wCheck⟩ := by
    simp [afterRedial, finishOk, hfold, applyAttempt, roundStart, c3]
  have hrd3 : s3.threads[r]? = some ⟨.reader k, .rRead⟩ := by
    rw [hT3]; simp [List.getElem?_set_ne hr1, hrd]
  have hl3 : s3.threads.length = s.threads.length := by rw [hT3]; simp
  have hnc3 : NoCallers s3.threads := by
    rw [hT3]; exact noCallers_set (noCallers_set (noCallers_set h.nc (by simp)) (by simp)) (by simp)
  refine ⟨?_, ?_, ?_, ?_, ?_, ?_, ?_, ?_, ?_, ?_, ?_, ?_, ?_⟩
  · rw [hT]; exact List.getElem?_set_self (by simp; omega)
  · rw [hT, List.getElem?_set_ne hr1, List.getElem?_append_left (by omega)]; exact hrd3
  · simp [afterRedial, finishOk, hfold, applyAttempt, roundStart]
    rw [← hs3]; exact Or.inr hkd
  · simp [afterRedial, finishOk, hfold, applyAttempt, roundStart, c3]; omega
  · rw [hT]
    have hne : (1 : Nat) ≠ s.threads.length := by omega
    rw [List.getElem?_set_ne hne, ← hl3]
    simp [afterRedial, finishOk, hfold, applyAttempt, roundStart, c3]
  · omega
  · simp [afterRedial, finishOk]
  · simp [afterRedial, finishOk, hfold, applyAttempt, roundStart]
  · simp [afterRedial]
  · simp [afterRedial, finishOk, hfold, applyAttempt, roundStart, State.redial]
    rw [← hs3]; simpa [State.redial] using h.bud
  · simp [afterRedial, finishOk, hfold, applyAttempt, roundStart]
    rw [← hs3]; exact h.eof
  · simp [afterRedial, finishOk, hfold, applyAttempt, roundStart, hdial, State.setPc]
  · rw [hT]
    apply noCallers_set _ (by simp)
    intro th hm
    simp only [List.mem_append, List.mem_singleton] at hm
    rcases hm with hm | hm
    · exact hnc3 th hm
    · rw [hm]; simp

/-- the stale reader's nine steps: error, load, CAS, index delete, cancel loop, close (of the NEW
    connection), `redialForClient`, lock, return (someone else redialed). -/
theorem storm_reader {t : State} {r k n : Nat} (m : Mid t r k n) :
    ∃ t', run t [.th r, .th r, .th r, .th r, .th r, .th r, .th r, .th r, .th r] = some t' ∧ Storm t' n := by
  have hr1 : r ≠ 1 := by
    intro e; subst e; have := m.rd; rw [m.w] at this; cases this
  have e1 := fwd_rRead m.rd m.kd
  have g1 := get_setPc_self (r := .reader k) (pc := .rErr) m.rd
  have e2 := fwd_rErr g1
  have hs1 : (t.setPc r (.reader k) .rErr).status = .ok := m.st
  rw [hs1] at e2
  have g2 := get_setPc_self (r := .reader k) (pc := .dLoaded .ok) g1
  have e3 := fwd_cas g2 m.st
  have g3 := get_setPc_self (s := { (t.setPc r (.reader k) .rErr).setPc r (.reader k) (.dLoaded .ok) with status := .passiveClosing })
    (r := .reader k) (pc := .dStored .ok) g2
  generalize hT3 : State.setPc { (t.setPc r (.reader k) .rErr).setPc r (.reader k) (.dLoaded .ok) with status := .passiveClosing }
    r (.reader k) (.dStored .ok) = t3 at e3 g3
  have f3 : t3.threads = ((t.threads.set r ⟨.reader k, .rErr⟩).set r ⟨.reader k, .dLoaded .ok⟩).set r ⟨.reader k, .dStored .ok⟩ ∧
      t3.conn = t.conn ∧ t3.dead = t.dead ∧ t3.sockClosed = false ∧ t3.lock = false ∧ t3.redial = true ∧
      t3.werrEOF = true ∧ t3.env = ⟨[], .up⟩ ∧ t3.status = .passiveClosing := by
    rw [← hT3]; exact ⟨rfl, rfl, rfl, m.sock, m.lock, m.bud, m.eof, m.env, rfl⟩
  obtain ⟨f3t, f3c, f3d, f3s, f3l, f3b, f3e, f3v, f3st⟩ := f3
  have e4 := fwd_dStored g3
  have g4 := get_setPc_self (s := { t3 with hub := t3.hub.erase t3.id }) (r := .reader k) (pc := .dCancel .ok) g3
  have hnc4 : NoCallers (State.setPc { t3 with hub := t3.hub.erase t3.id } r (.reader k) (.dCancel .ok)).threads := by
    show NoCallers (t3.threads.set r _)
    rw [f3t]
    exact noCallers_set (noCallers_set (noCallers_set (noCallers_set m.nc (by simp)) (by simp)) (by simp)) (by simp)
  have e5 := fwd_dCancel g4 (noCallers_busy hnc4)
  generalize hT5 : State.setPc { State.setPc { t3 with hub := t3.hub.erase t3.id } r (.reader k) (.dCancel .ok) with
      calls := (State.setPc { t3 with hub := t3.hub.erase t3.id } r (.reader k) (.dCancel .ok)).calls.map cancelCall }
    r (.reader k) (.dClose .ok) = t5 at e5
  have g5 : t5.threads[r]? = some ⟨.reader k, .dClose .ok⟩ := by
    rw [← hT5]; exact get_setPc_self (s := { State.setPc { t3 with hub := t3.hub.erase t3.id } r (.reader k) (.dCancel .ok) with
      calls := (State.setPc { t3 with hub := t3.hub.erase t3.id } r (.reader k) (.dCancel .ok)).calls.map cancelCall }) g4
  have f5 : t5.threads = (t3.threads.set r ⟨.reader k, .dCancel .ok⟩).set r ⟨.reader k, .dClose .ok⟩ ∧
      t5.conn = t.conn ∧ t5.dead = t.dead ∧ t5.sockClosed = false ∧ t5.lock = false ∧ t5.redial = true ∧
      t5.werrEOF = true ∧ t5.env = ⟨[], .up⟩ ∧ t5.status = .passiveClosing := by
    rw [← hT5]; exact ⟨rfl, f3c, f3d, f3s, f3l, f3b, f3e, f3v, f3st⟩
  obtain ⟨f5t, f5c, f5d, f5s, f5l, f5b, f5e, f5v, f5st⟩ := f5
  have e6 := fwd_dCloseKill g5 f5s
  have g6 := get_setPc_self (s := { t5 with sockClosed := true, dead := t5.conn :: t5.dead }) (r := .reader k) (pc := .dRedial) g5
  have e7 := fwd_dRedial g6 (by exact f5b)
  have g7 := get_setPc_self (r := .reader k) (pc := .xLock k) g6
  have e8 := fwd_xLock g7 (by exact f5l)
  generalize hT8 : State.setPc { State.setPc (State.setPc { t5 with sockClosed := true, dead := t5.conn :: t5.dead } r (.reader k) .dRedial)
      r (.reader k) (.xLock k) with lock := true } r (.reader k) (.xLocked k) = t8 at e8
  have g8 : t8.threads[r]? = some ⟨.reader k, .xLocked k⟩ := by
    rw [← hT8]; exact get_setPc_self (s := { State.setPc (State.setPc { t5 with sockClosed := true, dead := t5.conn :: t5.dead } r (.reader k) .dRedial)
      r (.reader k) (.xLock k) with lock := true }) g7
  have f8 : t8.threads = ((t5.threads.set r ⟨.reader k, .dRedial⟩).set r ⟨.reader k, .xLock k⟩).set r ⟨.reader k, .xLocked k⟩ ∧
      t8.conn = t.conn ∧ t8.dead = t.conn :: t.dead ∧ t8.redial = true ∧
      t8.werrEOF = true ∧ t8.env = ⟨[], .up⟩ ∧ t8.status = .passiveClosing := by
    rw [← hT8]; exact ⟨rfl, f5c, by show t5.conn :: t5.dead = _; rw [f5c, f5d], f5b, f5e, f5v, f5st⟩
  obtain ⟨f8t, f8c, f8d, f8b, f8e, f8v, f8st⟩ := f8
  have hne : k ≠ t8.conn := by rw [f8c]; have := m.kc; omega
  have e9 := fwd_xLocked g8 (redialLocked_other t8 k hne)
  refine ⟨afterRedial { t8 with lock := false } r (.reader k) true,
    by simp only [run, step, e1, e2, e3, e4, e5, e6, e7, e8, e9, Option.bind_some], ?_⟩
  have hT9 : (afterRedial { t8 with lock := false } r (.reader k) true).threads = t8.threads.set r ⟨.reader k, .exit⟩ := by
    simp [afterRedial, State.setPc]
  have hget : ∀ j, r ≠ j → (afterRedial { t8 with lock := false } r (.reader k) true).threads[j]? = t.threads[j]? := by
    intro j hj
    rw [hT9, f8t, f5t, f3t]
    simp [List.getElem?_set_ne hj]
  refine ⟨?_, ?_, ?_, ?_, ?_, ?_, ?_, ?_, ?_⟩
  · rw [hget 1 hr1]; exact m.w
  · refine ⟨t.conn, by rw [hget n m.rn]; exact m.nw, ?_, ?_⟩
    · simp [afterRedial, State.setPc, f8d]
    · simp [afterRedial, State.setPc, f8c]
  · simp [afterRedial, State.setPc]
  · simpa [afterRedial, State.setPc, State.redial] using f8b
  · simpa [afterRedial, State.setPc] using f8e
  · simpa [afterRedial, State.setPc] using f8v
  · right; simpa [afterRedial, State.setPc] using f8st
  · left; simp [afterRedial, State.setPc, f8st]
  · rw [hT9, f8t, f5t, f3t]
    exact noCallers_set (noCallers_set (noCallers_set (noCallers_set (noCallers_set (noCallers_set (noCallers_set
      (noCallers_set (noCallers_set m.nc (by simp)) (by simp)) (by simp)) (by simp)) (by simp)) (by simp)) (by simp))
      (by simp)) (by simp)

/-! ## unbounded internal runs -/

theorem run_append : ∀ (a b : List Ev) (s : State), run s (a ++ b) = (run s a).bind fun u => run u b
  | [], b, s => by simp [run]
  | e :: a, b, s => by
    simp only [List.cons_append, run]
    cases step s e with
    | none => simp
    | some u => simp only [Option.bind_some]; exact run_append a b u

theorem reach_step {b : Int} {eof : Bool} {s t : State} {e : Ev} (r : Reachable b eof s) (h : step s e = some t) :
    Reachable b eof t := by
  obtain ⟨evs, hr⟩ := r
  exact ⟨evs ++ [e], by rw [run_append, hr]; simp [run, h]⟩

/-- one turn of the storm: 13 internal steps lead from a storm state to a storm state. -/
theorem storm_iter {s : State} {r : Nat} (h : Storm s r) :
    ∃ t, run s ([1, 1, 1, 1, r, r, r, r, r, r, r, r, r].map Ev.th) = some t ∧ Storm t s.threads.length := by
  obtain ⟨u, k, h1, m⟩ := storm_writer h
  obtain ⟨t, h2, h3⟩ := storm_reader m
  refine ⟨t, ?_, h3⟩
  have : ([1, 1, 1, 1, r, r, r, r, r, r, r, r, r].map Ev.th) =
      [.th 1, .th 1, .th 1, .th 1] ++ [.th r, .th r, .th r, .th r, .th r, .th r, .th r, .th r, .th r] := by simp
  rw [this, run_append, h1]
  exact h2

/-- from a storm state there are runs of internal steps of every length `13 * n`. -/
theorem storm_unbounded : ∀ (n : Nat) (s : State) (r : Nat), Storm s r →
    ∃ is : List Nat, is.length = 13 * n ∧ ∃ t, run s (is.map Ev.th) = some t
  | 0, s, _, _ => ⟨[], rfl, s, rfl⟩
  | n + 1, s, r, h => by
    obtain ⟨u, h1, h2⟩ := storm_iter h
    obtain ⟨is, hl, t, h3⟩ := storm_unbounded n u _ h2
    refine ⟨[1, 1, 1, 1, r, r, r, r, r, r, r, r, r] ++ is, by simp [hl]; omega, t, ?_⟩
    rw [List.map_append, run_append, h1]
    exact h3

/-- a reachable storm state: a Push is issued, connection 0 is lost (budget 3, write reports EOF,
    server up). -/
theorem storm_init : ∃ s, run (State.init 3 true) [.push, .lose 0] = some s ∧ Storm s 0 := by
  refine ⟨_, rfl, ?_⟩
  refine ⟨by decide, ⟨0, by decide, by decide, by decide⟩, by decide, by decide, by decide, by decide,
    by decide, by decide, ?_⟩
  intro th hm
  simp [State.init] at hm
  rcases hm with hm | hm <;> (rw [hm]; simp)

/-- a strictly decreasing natural-number function along internal steps bounds the length of runs. -/
theorem mu_bound (μ : State → Nat) (b : Int) (eof : Bool)
    (hμ : ∀ s t i, Reachable b eof s → threadStep s i = some t → μ t < μ s) :
    ∀ (is : List Nat) (s t : State), Reachable b eof s → run s (is.map Ev.th) = some t → is.length + μ t ≤ μ s
  | [], s, t, _, h => by simp only [List.map_nil, run, Option.some.injEq] at h; subst h; simp
  | i :: is, s, t, r, h => by
    simp only [List.map_cons, run, step] at h
    cases hs : threadStep s i with
    | none => simp [hs] at h
    | some u =>
      simp only [hs, Option.bind_some] at h
      have h1 := hμ s u i r hs
      have h2 := mu_bound μ b eof hμ is u t (reach_step (e := .th i) r hs) h
      simp only [List.length_cons]
      omega

/-- no natural-number measure decreases with every internal step of the machine. -/
theorem no_measure : ¬ ∃ μ : State → Nat, ∀ s t i, Reachable 3 true s → threadStep s i = some t → μ t < μ s := by
  rintro ⟨μ, hμ⟩
  obtain ⟨s0, hr, hs⟩ := storm_init
  obtain ⟨is, hl, t, ht⟩ := storm_unbounded (μ s0 + 1) s0 0 hs
  have := mu_bound μ 3 true hμ is s0 t ⟨_, hr⟩ ht
  omega

end Teleport.Redial
