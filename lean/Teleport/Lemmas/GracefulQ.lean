/-
Lemmas/GracefulQ — the structural invariants behind "Close returns" (Model/Graceful): how status word,
closer and reader fit together with or without connection loss (`QS`), and which calls / handlers can
still be waited for (`QC`). Proved for every step, lifted to `Reach` in Lemmas/GracefulQ3.
-/
import Teleport.Lemmas.GracefulLive
namespace Teleport.Graceful

/-- the reader can only be on the disconnect path for one of these reasons. -/
def Dsc (s : St) : Prop := s.lost = true ∨ s.sock = true ∨ 5 ≤ s.closer.rank

def Ev.isReader : Ev → Bool
  | .rTop | .rRead | .rReadErr | .rCheck | .rAdd | .rDLoad | .rDGo | .rDWait | .rDSnap | .rDPick _ | .rDVisit
  | .rDCancelEnd | .rDSock => true
  | _ => false

/-- where the reader is, given the status word: in the read loop the status is no passive-close
    status (only the reader sets those); past the read loop one of the reasons `Dsc` holds; the status
    a disconnect-path decision was taken on; `a` = the disconnect path runs inside an active close. -/
def rdOK (s : St) : Prop :=
  match s.reader with
  | .top | .blocked | .add _ | .got (some _) => s.status ≠ .pclosing ∧ s.status ≠ .pclosed
  | .got none => (s.lost = true ∨ s.sock = true) ∧ s.status ≠ .pclosing ∧ s.status ≠ .pclosed
  | .dload => Dsc s ∧ s.status ≠ .pclosing ∧ s.status ≠ .pclosed
  | .dgo st => Dsc s ∧ s.status ≠ .pclosing ∧ s.status ≠ .pclosed ∧
      (st = .ok ∨ (st = .closing ∧ 1 ≤ s.closer.rank) ∨ (st = .closed ∧ 5 ≤ s.closer.rank))
  | .dwait a | .dcancel a | .dloop a _ | .dlock a _ _ =>
      Dsc s ∧ (if a = true then 1 ≤ s.closer.rank else s.status = .pclosing)
  | .dsock => Dsc s ∧ s.status = .pclosing
  | .rexit => Dsc s ∧ s.status ≠ .pclosing

/-- status word, closer and reader (unconditional: also after connection loss). -/
structure QS (s : St) : Prop where
  st0 : s.closer.rank = 0 → s.status = .ok ∨ s.status = .pclosing ∨ s.status = .pclosed
  st1 : 1 ≤ s.closer.rank → s.closer.rank ≤ 4 → s.status = .closing
  st5 : 5 ≤ s.closer.rank → s.status = .closed
  sk6 : 6 ≤ s.closer.rank → s.sock = true
  pcd : s.status = .pclosed → s.sock = true
  noop : s.closer = .noop → s.status ≠ .ok
  rd : rdOK s

theorem qs_init : QS St.init := by
  constructor <;> simp [St.init, XPc.rank, rdOK]

theorem step_qs_st {s t : St} {e : Ev} (hq : QS s) (hs : step s e = some t) :
    (t.closer.rank = 0 → t.status = .ok ∨ t.status = .pclosing ∨ t.status = .pclosed) ∧
    (1 ≤ t.closer.rank → t.closer.rank ≤ 4 → t.status = .closing) ∧
    (5 ≤ t.closer.rank → t.status = .closed) ∧ (6 ≤ t.closer.rank → t.sock = true) ∧
    (t.status = .pclosed → t.sock = true) ∧ (t.closer = .noop → t.status ≠ .ok) := by
  obtain ⟨h0, h1, h5, h6, hp, hn, hrd⟩ := hq
  unfold rdOK at hrd
  c08_step_cases hs
  all_goals first
    | exact ⟨h0, h1, h5, h6, hp, hn⟩
    | (simp_all [XPc.rank]; done)
    | (have hr : s.closer.rank = 0 ∨ (1 ≤ s.closer.rank ∧ s.closer.rank ≤ 4) ∨ 5 ≤ s.closer.rank := by omega
       rcases hr with hr | ⟨hr1, hr2⟩ | hr <;> simp_all [XPc.rank] <;> omega)

theorem step_qs_rd1 {s t : St} {e : Ev} (hk : e.isReader = true) (hq : QS s) (hs : step s e = some t) : rdOK t := by
  obtain ⟨h0, h1, h5, h6, hp, hn, hrd⟩ := hq
  unfold rdOK at hrd ⊢
  c08_step_cases hs
  all_goals (first | (simp [Ev.isReader] at hk; done) | skip)
  all_goals (clear hk)
  all_goals (have hr : s.closer.rank = 0 ∨ (1 ≤ s.closer.rank ∧ s.closer.rank ≤ 4) ∨ 5 ≤ s.closer.rank := by omega)
  all_goals first
    | exact hrd
    | (simp_all [XPc.rank, Dsc]; done)
    | (simp_all [XPc.rank, Dsc]; omega)
    | (rcases hr with hr | ⟨hr1, hr2⟩ | hr <;> simp_all [goon, XPc.rank, Dsc] <;> omega)
    | (rw [‹s.reader = _›] at hrd; obtain ⟨hd, h2, h3⟩ := hrd; refine ⟨?_, h2, h3⟩
       rcases hd with hd | hd <;> simp [Dsc, hd])

macro "c08_rd_cases" hrd:ident : tactic =>
  `(tactic| (generalize St.reader _ = r at $hrd:ident ⊢
             cases r with
             | got f => cases f <;> simp_all [XPc.rank, Dsc] <;> omega
             | dgo st =>
               obtain ⟨hd, ha, hb, hc⟩ := $hrd:ident
               rcases hc with hc | ⟨hc, hc'⟩ | ⟨hc, hc'⟩ <;> simp_all [XPc.rank, Dsc] <;> omega
             | dwait a => cases a <;> simp_all [XPc.rank, Dsc] <;> omega
             | dcancel a => cases a <;> simp_all [XPc.rank, Dsc] <;> omega
             | dloop a => cases a <;> simp_all [XPc.rank, Dsc] <;> omega
             | dlock a => cases a <;> simp_all [XPc.rank, Dsc] <;> omega
             | _ => simp_all [XPc.rank, Dsc] <;> omega))

theorem step_qs_rd2 {s t : St} {e : Ev} (hk : e.isReader = false) (hq : QS s) (hs : step s e = some t) : rdOK t := by
  obtain ⟨h0, h1, h5, h6, hp, hn, hrd⟩ := hq
  unfold rdOK at hrd ⊢
  c08_step_cases hs
  all_goals (first | (simp [Ev.isReader] at hk; done) | skip)
  all_goals (clear hk)
  all_goals first
    | exact hrd
    | (c08_rd_cases hrd; done)
    | (have hst : s.status = .closing := h1 (by simp [*, XPc.rank]) (by simp [*, XPc.rank])
       c08_rd_cases hrd; done)

theorem qs_step {s t : St} {e : Ev} (hq : QS s) (hs : step s e = some t) : QS t := by
  have h := step_qs_st hq hs
  refine ⟨h.1, h.2.1, h.2.2.1, h.2.2.2.1, h.2.2.2.2.1, h.2.2.2.2.2, ?_⟩
  cases hk : e.isReader
  · exact step_qs_rd2 hk hq hs
  · exact step_qs_rd1 hk hq hs

end Teleport.Graceful
