import Teleport.Model.Bytes
namespace Teleport
namespace Bytes

theorem forall_u8 {P : UInt8 → Prop} (h : ∀ n, n < 256 → P (UInt8.ofNat n)) : ∀ c, P c := by
  intro c
  have := h c.toNat c.toNat_lt
  simpa using this

/-- per-byte fact behind the quoting round trip (for either hex table). -/
def byteOK (t : HexTab) (c : UInt8) : Bool :=
  if unreserved c then (c != 37 && c != 43)
  else
    match hexValT t (hexUpper (c >>> 4)), hexValT t (hexUpper (c &&& 15)) with
    | some x1, some x2 => !(x1 < 0 || x2 < 0) && (x1 * 16 + x2).toNat.toUInt8 == c
    | _, _ => false

theorem byteOK_all (t : HexTab) : ∀ c, byteOK t c = true := by
  cases t <;> (apply forall_u8; decide +kernel)

theorem unquote_nil (t : HexTab) (p : Bool) : unquote t p [] = some [] := by
  unfold unquote; rfl

theorem unquote_plain (t : HexTab) (p : Bool) (c : UInt8) (rest : Bytes) (h1 : c ≠ 37) (h2 : c ≠ 43) :
    unquote t p (c :: rest) = (unquote t p rest).map (c :: ·) := by
  conv => lhs; unfold unquote
  simp [h1, h2]

theorem unquote_pct (t : HexTab) (p : Bool) (h1 h2 : UInt8) (rest : Bytes) (x1 x2 : Int)
    (e1 : hexValT t h1 = some x1) (e2 : hexValT t h2 = some x2) (n1 : ¬ x1 < 0) (n2 : ¬ x2 < 0) :
    unquote t p (37 :: h1 :: h2 :: rest) = (unquote t p rest).map ((x1 * 16 + x2).toNat.toUInt8 :: ·) := by
  conv => lhs; unfold unquote
  simp [e1, e2, n1, n2]

theorem unquote_quote (t : HexTab) (p : Bool) (s : Bytes) : unquote t p (quote s) = some s := by
  induction s with
  | nil => simp [quote, unquote_nil]
  | cons c cs ih =>
    have hb := byteOK_all t c
    unfold byteOK at hb
    unfold quote
    by_cases hu : unreserved c = true
    · simp only [hu, if_true] at hb ⊢
      have h1 : c ≠ 37 := by intro h; simp [h] at hb
      have h2 : c ≠ 43 := by intro h; simp [h] at hb
      rw [unquote_plain t p c _ h1 h2, ih]; rfl
    · simp only [hu] at hb ⊢
      simp only [Bool.false_eq_true, if_false] at hb ⊢
      split at hb
      · rename_i x1 x2 e1 e2
        simp only [Bool.and_eq_true, Bool.not_eq_true', Bool.or_eq_false_iff, decide_eq_false_iff_not,
          beq_iff_eq] at hb
        rw [unquote_pct t p _ _ _ x1 x2 e1 e2 hb.1.1 hb.1.2, ih, hb.2]; rfl
      · simp at hb

/-- with the 256-entry table (`utils/bytesconv.go`) un-quoting is total: `decodeArgAppend` has no
    panic point on any input. -/
theorem unquote_full_isSome (p : Bool) : ∀ (n : Nat) (b : Bytes), b.length ≤ n →
    (unquote .full p b).isSome = true := by
  intro n
  induction n with
  | zero =>
    intro b hb
    have : b = [] := List.length_eq_zero_iff.mp (by omega)
    subst this; simp [unquote_nil]
  | succ n ih =>
    intro b hb
    cases b with
    | nil => simp [unquote_nil]
    | cons c rest =>
      have hr : rest.length ≤ n := by simpa using hb
      unfold unquote
      split
      · split
        · rename_i h1 h2 rest'
          have h0 := ih (h1 :: h2 :: rest') hr
          have h3 := ih rest' (by simp only [List.length_cons] at hr; omega)
          simp only [hexValT]
          split <;> simp [Option.isSome_map, h0, h3]
        · rfl
      · have h0 := ih rest hr
        split <;> simp [Option.isSome_map, h0]

theorem unquote_full_total (p : Bool) (b : Bytes) : (unquote .full p b).isSome = true :=
  unquote_full_isSome p b.length b (Nat.le_refl _)

/-- the quoted form never contains `&` or `=`. -/
def quotedByteOK (c : UInt8) : Bool :=
  (if unreserved c then c != 38 && c != 61 else true) &&
  hexUpper (c >>> 4) != 38 && hexUpper (c >>> 4) != 61 &&
  hexUpper (c &&& 15) != 38 && hexUpper (c &&& 15) != 61

theorem quotedByteOK_all : ∀ c, quotedByteOK c = true := by
  apply forall_u8
  decide +kernel

theorem quote_no_sep (s : Bytes) : ∀ c ∈ quote s, c ≠ 38 ∧ c ≠ 61 := by
  induction s with
  | nil => simp [quote]
  | cons a as ih =>
    have hb := quotedByteOK_all a
    unfold quotedByteOK at hb
    simp only [Bool.and_eq_true, bne_iff_ne, ne_eq] at hb
    intro c hc
    unfold quote at hc
    split at hc
    · rename_i hu
      simp only [hu, if_true, Bool.and_eq_true, bne_iff_ne, ne_eq] at hb
      rcases List.mem_cons.mp hc with h | h
      · subst h; exact hb.1.1.1.1
      · exact ih c h
    · simp only [List.mem_cons] at hc
      rcases hc with h | h | h | h
      · subst h; decide
      · subst h; exact ⟨hb.1.1.1.2, hb.1.1.2⟩
      · subst h; exact ⟨hb.1.2, hb.2⟩
      · exact ih c h

end Bytes
end Teleport
