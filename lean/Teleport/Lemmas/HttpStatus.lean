/-
Lemmas/HttpStatus — the status entity of an httproto error response: `Status.UnmarshalJSON` (the
model's strict decoder `sjStrict`) reads back what `Status.MarshalJSON` (`statusJSON`) wrote, for
every status whose texts are ASCII — without any assumption on the environment.
-/
import Teleport.Lemmas.HttpWF
namespace Teleport
namespace HttpP
open Bytes

theorem stripPre_append : ∀ (p x : Bytes), stripPre p (p ++ x) = some x := by
  intro p
  induction p with
  | nil => intro x; cases x <;> rfl
  | cons c r ih => intro x; simp only [List.cons_append, stripPre, beq_self_eq_true, if_true, ih]

def digitB (c : UInt8) : Bool := 48 ≤ c && c ≤ 57

theorem digitChar_digit : ∀ d, d < 10 → digitB (Num.digitChar d) = true := by decide

theorem formatNat_digit (n : Nat) : ∀ c ∈ Num.formatNat 8 n, digitB c = true := by
  intro c hc
  unfold Num.formatNat at hc
  rw [List.mem_map] at hc
  obtain ⟨d, hd, rfl⟩ := hc
  exact digitChar_digit d (Num.digitsRev_lt 8 n d (List.mem_reverse.mp hd))

theorem sjInt_format (i : Int) (hi : Num.inInt32 i) (X : Bytes) :
    sjInt (Num.formatInt 8 i ++ 44 :: X) = some (i, 44 :: X) := by
  unfold Num.inInt32 at hi
  have hd := formatNat_digit i.natAbs
  have hp := Num.parseDigits_formatNat 8 (by decide) i.natAbs (by
    have : (2:Nat)^64 = 18446744073709551616 := by decide
    omega)
  have hd' : ∀ c ∈ Num.formatNat 8 i.natAbs, (fun c : UInt8 => decide (48 ≤ c) && decide (c ≤ 57)) c = true := by
    intro c hc; have := hd c hc; unfold digitB at this; exact this
  have htw : ((Num.formatNat 8 i.natAbs ++ 44 :: X).takeWhile (fun c => 48 ≤ c && c ≤ 57)) = Num.formatNat 8 i.natAbs := by
    rw [List.takeWhile_append_of_pos hd']
    simp [List.takeWhile]
  have hdw : ((Num.formatNat 8 i.natAbs ++ 44 :: X).dropWhile (fun c => 48 ≤ c && c ≤ 57)) = 44 :: X := by
    rw [List.dropWhile_append_of_pos hd']
    simp [List.dropWhile]
  have hne : (Num.formatNat 8 i.natAbs).isEmpty = false := by
    cases h : Num.formatNat 8 i.natAbs with
    | nil => exact absurd h (formatNat_ne_nil _)
    | cons _ _ => rfl
  by_cases hneg : i < 0
  · have hf : Num.formatInt 8 i = 45 :: Num.formatNat 8 i.natAbs := by unfold Num.formatInt; simp [hneg]
    have hv : (-(i.natAbs : Int)) = i := by omega
    unfold sjInt
    simp only [hf, List.cons_append, List.head?_cons, beq_self_eq_true, if_true, List.drop_one, List.tail_cons,
      htw, hdw, hp, hne, Bool.false_eq_true, if_false, hv, bne_self_eq_false]
    have h1 : ¬ (i < -2147483648 ∨ i > 2147483647) := by omega
    simp [h1]
  · obtain ⟨c, cs, hcs, _, h45⟩ := Num.formatNat_head 8 (by decide) i.natAbs
    have hf : Num.formatInt 8 i = Num.formatNat 8 i.natAbs := by unfold Num.formatInt; simp [hneg]
    have hv : ((i.natAbs : Nat) : Int) = i := by omega
    have hh : ((Num.formatNat 8 i.natAbs ++ 44 :: X).head? == some 45) = false := by
      rw [hcs]; simp [h45]
    unfold sjInt
    simp only [hf, hh, Bool.false_eq_true, if_false, htw, hdw, hp, hne, hv, bne_self_eq_false]
    have h1 : ¬ (i < -2147483648 ∨ i > 2147483647) := by omega
    simp [h1]

theorem esc_hex : ∀ c : UInt8, c < 32 →
    isHex (hexLow (c >>> 4)) = true ∧ isHex (hexLow (c &&& 15)) = true ∧ (decide (unhex (hexLow (c >>> 4)) < 8)) = true ∧
    unhex (hexLow (c >>> 4)) * 16 + unhex (hexLow (c &&& 15)) = c := by
  apply forall_u8; decide +kernel

theorem esc_plain : ∀ c : UInt8, c < 128 → ¬ (c < 32) → c ≠ 34 → c ≠ 92 →
    (decide (c < 32) || decide (c ≥ 128)) = false := by
  apply forall_u8; decide +kernel

/-- one escaped ASCII byte in front: the token reader yields that byte. -/
theorem sjTok_esc (c : UInt8) (hc : c < 128) (Y : Bytes) : sjTok (jsonEscAscii c ++ Y) = some (some c, Y) := by
  unfold jsonEscAscii
  by_cases h1 : (c == 34 || c == 92) = true
  · simp only [h1, if_true, List.cons_append, List.nil_append, sjTok]
    rw [if_neg (by decide), if_pos (by decide)]
  · simp only [h1, Bool.false_eq_true, if_false]
    have h34 : c ≠ 34 := by intro h; apply h1; simp [h]
    have h92 : c ≠ 92 := by intro h; apply h1; simp [h]
    by_cases h10 : c = 10
    · subst h10; rfl
    · have e10 : (c == 10) = false := by simp [h10]
      simp only [e10, Bool.false_eq_true, if_false]
      by_cases h13 : c = 13
      · subst h13; rfl
      · have e13 : (c == 13) = false := by simp [h13]
        simp only [e13, Bool.false_eq_true, if_false]
        by_cases h9 : c = 9
        · subst h9; rfl
        · have e9 : (c == 9) = false := by simp [h9]
          simp only [e9, Bool.false_eq_true, if_false]
          by_cases hlt : c < 32
          · obtain ⟨x1, x2, x3, x4⟩ := esc_hex c hlt
            simp only [hlt, if_true, u00, List.cons_append, List.nil_append, sjTok]
            rw [if_neg (by decide), if_pos (by decide), if_neg (by decide), if_neg (by decide), if_neg (by decide),
              if_neg (by decide), if_pos (by decide)]
            simp only [beq_self_eq_true, Bool.true_and, x1, x2, x3, if_true, x4]
          · simp only [hlt, if_false, List.cons_append, List.nil_append, sjTok]
            have e34 : (c == 34) = false := by simp [h34]
            have e92 : (c == 92) = false := by simp [h92]
            have hcls := esc_plain c hc hlt h34 h92
            simp only [hlt] at hcls
            simp only [e34, e92, Bool.false_eq_true, if_false, hcls]

theorem jsonBody_nil (n : Nat) : jsonBody n [] = [] := by cases n <;> rfl

/-- the strict string reader on what `StringMarshalJSON` wrote from an ASCII string. -/
theorem sjStringF_body : ∀ (s : Bytes) (n fuel : Nat), s.length ≤ n → s.length < fuel → (∀ c ∈ s, c < 128) → ∀ T,
    sjStringF fuel (jsonBody n s ++ 34 :: T) = some (s, T) := by
  intro s
  induction s with
  | nil =>
    intro n fuel _ hf _ T
    rw [jsonBody_nil]
    cases fuel with
    | zero => simp at hf
    | succ k => simp [sjStringF, sjTok]
  | cons c r ih =>
    intro n fuel hn hf ha T
    cases n with
    | zero => simp at hn
    | succ k =>
      cases fuel with
      | zero => simp at hf
      | succ f =>
        have hc : c < 128 := ha c (by simp)
        have hc' : c < 0x80 := hc
        simp only [List.length_cons] at hn hf
        simp only [jsonBody, hc', if_true, List.append_assoc, sjStringF, sjTok_esc c hc]
        rw [ih k f (by omega) (by omega) (fun x hx => ha x (by simp [hx])) T]
        rfl

theorem jsonEscAscii_len (c : UInt8) : 1 ≤ (jsonEscAscii c).length := by
  unfold jsonEscAscii
  split; · simp
  split; · simp
  split; · simp
  split; · simp
  split
  · simp [u00]
  · simp

theorem jsonBody_len : ∀ (s : Bytes) (n : Nat), s.length ≤ n → (∀ c ∈ s, c < 128) → s.length ≤ (jsonBody n s).length := by
  intro s
  induction s with
  | nil => intro n _ _; simp
  | cons c r ih =>
    intro n hn ha
    cases n with
    | zero => simp at hn
    | succ k =>
      have hc' : c < 0x80 := ha c (by simp)
      simp only [List.length_cons] at hn
      simp only [jsonBody, hc', if_true, List.length_append, List.length_cons]
      have := ih k (by omega) (fun x hx => ha x (by simp [hx]))
      have := jsonEscAscii_len c
      omega

theorem sjString_body (s : Bytes) (ha : ∀ c ∈ s, c < 128) (T : Bytes) :
    sjString (jsonBody s.length s ++ 34 :: T) = some (s, T) := by
  unfold sjString
  apply sjStringF_body s s.length _ (Nat.le_refl _) _ ha T
  have := jsonBody_len s s.length (Nat.le_refl _) ha
  simp only [List.length_append, List.length_cons]; omega

/-- a status whose texts are ASCII and whose cause, if any, is not empty (an empty cause text comes
    back as no cause); int32 code. -/
def asciiStatus (s : Status) : Bool :=
  decide (Num.inInt32 s.code) && s.msg.all (· < 128) &&
  (match s.cause with
   | none => true
   | some c => !c.isEmpty && c.all (· < 128))

theorem sjStrict_statusJSON (s : Status) (h : asciiStatus s = true) : sjStrict (statusJSON s) = some s := by
  unfold asciiStatus at h
  simp only [Bool.and_eq_true, decide_eq_true_eq, List.all_eq_true] at h
  obtain ⟨⟨hcode, hmsg⟩, hcause⟩ := h
  have hmsg' : ∀ c ∈ s.msg, c < 128 := fun c hc => by simpa using hmsg c hc
  have hc2 : (∀ c ∈ s.cause.getD [], c < 128) ∧ (if (s.cause.getD []).isEmpty then none else some (s.cause.getD [])) = s.cause := by
    cases hcs : s.cause with
    | none => exact ⟨(by intro c hc; cases hc), rfl⟩
    | some cc =>
      rw [hcs] at hcause
      simp only [Bool.and_eq_true, Bool.not_eq_true', List.all_eq_true] at hcause
      refine ⟨fun c hc => by simpa using hcause.2 c hc, ?_⟩
      simp only [Option.getD_some, hcause.1, Bool.false_eq_true, if_false]
  have e : statusJSON s = jA ++ (Num.formatInt 8 s.code ++ 44 :: ([34, 109, 115, 103, 34, 58] ++ (34 ::
      (jsonBody s.msg.length s.msg ++ 34 :: (jC ++ (34 :: (jsonBody (s.cause.getD []).length (s.cause.getD []) ++ 34 :: [125]))))))) := by
    simp [statusJSON, jsonStr, jB, List.append_assoc]
  rw [e]
  unfold sjStrict
  rw [stripPre_append]
  simp only [Option.bind_some, sjInt_format s.code hcode]
  have e2 : (44 :: ([34, 109, 115, 103, 34, 58] ++ (34 :: (jsonBody s.msg.length s.msg ++ 34 :: (jC ++ (34 ::
      (jsonBody (s.cause.getD []).length (s.cause.getD []) ++ 34 :: [125]))))))) =
      (jB ++ [34]) ++ (jsonBody s.msg.length s.msg ++ 34 :: (jC ++ (34 ::
      (jsonBody (s.cause.getD []).length (s.cause.getD []) ++ 34 :: [125])))) := by
    simp [jB]
  rw [e2, stripPre_append]
  simp only [Option.bind_some, sjString_body s.msg hmsg']
  have e3 : jC ++ (34 :: (jsonBody (s.cause.getD []).length (s.cause.getD []) ++ 34 :: [125])) =
      (jC ++ [34]) ++ (jsonBody (s.cause.getD []).length (s.cause.getD []) ++ 34 :: [125]) := by simp
  rw [e3, stripPre_append]
  simp only [Option.bind_some, sjString_body (s.cause.getD []) hc2.1, beq_self_eq_true, if_true, hc2.2]

/-- the JSON decoder reads the entity of an ASCII status, whatever the environment's table says. -/
theorem statusOfJSON_ascii (env : Env) (s : Status) (h : asciiStatus s = true) :
    statusOfJSON env (statusJSON s) = .ok s := by
  unfold statusOfJSON
  have : (statusJSON s).isEmpty = false := by
    cases hh : statusJSON s with
    | nil => exact absurd hh (statusJSON_ne_nil s)
    | cons _ _ => rfl
  simp only [this, Bool.false_eq_true, if_false, sjStrict_statusJSON s h]

end HttpP
end Teleport
