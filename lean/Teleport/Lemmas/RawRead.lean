/- Lemmas/RawRead — stage-wise specification lemmas for `Raw.unpack` (used by Props/C06). -/
import Teleport.Model.RawProto
namespace Teleport
namespace Raw

theorem take?_len {n : Nat} {l a b : Bytes} (h : take? n l = some (a, b)) :
    n ≤ l.length ∧ b.length = l.length - n := by
  unfold take? at h
  split at h
  · simp only [Option.some.injEq, Prod.mk.injEq] at h
    refine ⟨by assumption, ?_⟩
    rw [← h.2]; simp
  · simp at h

def isEof : Out → Bool
  | .eof => true
  | _ => false

theorem take?_none {n : Nat} {l : Bytes} (h : take? n l = none) : l.length < n := by
  unfold take? at h
  split at h
  · simp at h
  · omega

/-- last stage: `alloc` is passed through; never more consumed than given; `eof` only with everything
    consumed; and — `1 + xferLen ≤ last` being established before the stage is entered — every read
    request is at most `max 4 last` and at most the announced frame (`4 + last` bytes) is consumed. -/
theorem tail_spec (reg : Registry) (size last alloc xferLen inpLen : Nat) (pipe : List UInt8) (r3 : Bytes) :
    let r := unpackTail reg size last alloc xferLen inpLen pipe r3
    r.alloc = alloc ∧
    (inpLen = 5 + xferLen + r3.length → r.consumed ≤ inpLen) ∧
    (isEof r.out = true → r.consumed = inpLen) ∧
    (1 + xferLen ≤ last → r.maxReq ≤ max 4 last) ∧
    (1 + xferLen ≤ last → inpLen = 5 + xferLen + r3.length → r.consumed ≤ 4 + last) := by
  unfold unpackTail
  simp only []
  cases ht : take? (last - (1 + xferLen)) r3 with
  | none =>
    have hl := take?_none ht
    simp only [isEof]
    refine ⟨by first | rfl | trivial, fun _ => Nat.le_refl _, fun _ => by first | rfl | trivial, ?_, ?_⟩
    · intro h; omega
    · intro h h'; omega
  | some p =>
    obtain ⟨raw, rest⟩ := p
    have hl := take?_len ht
    simp only []
    cases hu : Xfer.onUnpack reg pipe raw with
    | none =>
      simp only [isEof]
      refine ⟨by first | rfl | trivial, ?_, ?_, ?_, ?_⟩
      · intro h; omega
      · intro h; cases h
      · intro h; omega
      · intro _ _; exact Nat.le_refl _
    | some data =>
      simp only []
      cases hp : parseData size pipe data with
      | error e =>
        simp only [isEof]
        refine ⟨by first | rfl | trivial, ?_, ?_, ?_, ?_⟩
        · intro h; omega
        · intro h; cases h
        · intro h; omega
        · intro _ _; exact Nat.le_refl _
      | ok m =>
        simp only [isEof]
        refine ⟨by first | rfl | trivial, ?_, ?_, ?_, ?_⟩
        · intro h; omega
        · intro h; cases h
        · intro h; omega
        · intro _ _; exact Nat.le_refl _

/-- middle stage (entered with `1 ≤ last`): as `tail_spec`. -/
theorem xfer_spec (reg : Registry) (size last alloc inpLen : Nat) (r1 : Bytes) :
    let r := unpackXfer reg size last alloc inpLen r1
    r.alloc = alloc ∧
    (inpLen = 4 + r1.length → r.consumed ≤ inpLen) ∧
    (inpLen = 4 + r1.length → isEof r.out = true → r.consumed = inpLen) ∧
    (1 ≤ last → r.maxReq ≤ max 4 last) ∧
    (1 ≤ last → inpLen = 4 + r1.length → r.consumed ≤ 4 + last) := by
  cases r1 with
  | nil =>
    simp only [unpackXfer, List.length_nil]
    refine ⟨by first | rfl | trivial, ?_, ?_, ?_, ?_⟩
    · intro h; omega
    · intro h _; omega
    · intro _; omega
    · intro _ _; omega
  | cons xl r2 =>
    simp only [unpackXfer]
    by_cases h1 : last - 1 < xl.toNat
    · simp only [h1, if_true, isEof, List.length_cons]
      refine ⟨by first | rfl | trivial, ?_, ?_, ?_, ?_⟩
      · intro h; omega
      · intro _ h; cases h
      · intro _; omega
      · intro _ _; omega
    · simp only [h1, if_false]
      cases ht : take? xl.toNat r2 with
      | none =>
        have hl := take?_none ht
        simp only [isEof, List.length_cons]
        refine ⟨by first | rfl | trivial, fun _ => Nat.le_refl _, fun _ _ => by first | rfl | trivial, ?_, ?_⟩
        · intro _; omega
        · intro _ h; omega
      | some p =>
        obtain ⟨ids, r3⟩ := p
        have hl := take?_len ht
        simp only []
        cases ha : Xfer.append reg [] ids with
        | none =>
          simp only [isEof, List.length_cons]
          refine ⟨by first | rfl | trivial, ?_, ?_, ?_, ?_⟩
          · intro h; omega
          · intro _ h; cases h
          · intro _; omega
          · intro _ _; omega
        | some pipe =>
          simp only []
          have ts := tail_spec reg size last alloc xl.toNat inpLen pipe r3
          simp only [List.length_cons]
          refine ⟨ts.1, ?_, ?_, ?_, ?_⟩
          · intro h; apply ts.2.1; omega
          · intro _ h; exact ts.2.2.1 h
          · intro h; apply ts.2.2.2.1; omega
          · intro h h'; apply ts.2.2.2.2 (by omega); omega

def isSize : Out → Bool
  | .size => true
  | _ => false

/-- shape of `unpack` on an input of at least four bytes. -/
theorem unpack_cons4 (reg : Registry) (limit : Nat) (a b c d : UInt8) (r1 : Bytes) :
    unpack reg limit (a :: b :: c :: d :: r1) =
      if Bytes.rdBe32 a b c d > limit then ⟨.size, 4, 4, 4⟩ else
      if Bytes.rdBe32 a b c d < 4 then ⟨.reject "err:badpackage", 4, 4, 4⟩ else
      if Bytes.rdBe32 a b c d - 4 < 1
      then ⟨.reject "err:badpackage", 4, max 4 (Bytes.rdBe32 a b c d - 4), 4⟩ else
      unpackXfer reg (Bytes.rdBe32 a b c d) (Bytes.rdBe32 a b c d - 4)
        (max 4 (Bytes.rdBe32 a b c d - 4)) (a :: b :: c :: d :: r1).length r1 := by
  unfold unpack
  rfl

/-- shape of `unpack` on fewer than four bytes. -/
theorem unpack_short (reg : Registry) (limit : Nat) (inp : Bytes) (h : inp.length < 4) :
    unpack reg limit inp = ⟨.eof, inp.length, 4, 4⟩ := by
  match inp, h with
  | [], _ => rfl
  | [_], _ => rfl
  | [_, _], _ => rfl
  | [_, _, _], _ => rfl
  | _ :: _ :: _ :: _ :: _, h => simp only [List.length_cons] at h; omega

theorem long_or_short (inp : Bytes) :
    inp.length < 4 ∨ ∃ a b c d r1, inp = a :: b :: c :: d :: r1 := by
  match inp with
  | [] | [_] | [_, _] | [_, _, _] => left; simp
  | a :: b :: c :: d :: r1 => right; exact ⟨a, b, c, d, r1, rfl⟩

end Raw
end Teleport
