/- Lemmas/RawRead — stage-wise specification lemmas for `Raw.unpack` (used by Props/C06). -/
import Teleport.Model.RawProto
namespace Teleport
namespace Raw

theorem take?_len {n : Nat} {l a b : Bytes} (h : take? n l = some (a, b)) :
    n ≤ l.length ∧ b.length = l.length - n := by
  unfold take? at h
  split at h
  · simp only [Option.some.injEq, Prod.mk.injEq] at h
    refine ⟨by assumption, ?_⟩
    rw [← h.2]; simp
  · simp at h

def isEof : Out → Bool
  | .eof => true
  | _ => false

theorem tail_spec (reg : Registry) (size last alloc xferLen inpLen : Nat) (pipe : List UInt8) (r3 : Bytes) :
    let r := unpackTail reg size last alloc xferLen inpLen pipe r3
    r.alloc = alloc ∧
    (inpLen = 5 + xferLen + r3.length → r.consumed ≤ inpLen) ∧
    (isEof r.out = true → r.consumed = inpLen) := by
  unfold unpackTail
  by_cases h1 : last < 1 + xferLen
  · simp [h1, isEof]; omega
  · simp only [h1, if_false]
    cases ht : take? (last - (1 + xferLen)) r3 with
    | none => simp [isEof]
    | some p =>
      obtain ⟨raw, rest⟩ := p
      have hl := take?_len ht
      simp only []
      cases hu : Xfer.onUnpack reg pipe raw with
      | none => simp [isEof]; omega
      | some data =>
        simp only []
        cases hp : parseData size pipe data with
        | error e => simp [isEof]; omega
        | ok m => simp [isEof]; omega

theorem xfer_spec (reg : Registry) (size last cap alloc inpLen : Nat) (r1 : Bytes) :
    let r := unpackXfer reg size last cap alloc inpLen r1
    r.alloc = alloc ∧
    (inpLen = 4 + r1.length → r.consumed ≤ inpLen) ∧
    (inpLen = 4 + r1.length → isEof r.out = true → r.consumed = inpLen) := by
  cases r1 with
  | nil =>
    simp only [unpackXfer, List.length_nil]
    refine ⟨by first | rfl | trivial, ?_, ?_⟩ <;> intro h <;> omega
  | cons xl r2 =>
    simp only [unpackXfer]
    by_cases h1 : cap < xl.toNat
    · simp only [h1, if_true, isEof, List.length_cons]
      refine ⟨by first | rfl | trivial, ?_, ?_⟩
      · intro h; omega
      · intro _ h; cases h
    · simp only [h1, if_false]
      cases ht : take? xl.toNat r2 with
      | none =>
        simp only [isEof]
        exact ⟨by first | rfl | trivial, fun _ => Nat.le_refl _, fun _ _ => by first | rfl | trivial⟩
      | some p =>
        obtain ⟨ids, r3⟩ := p
        have hl := take?_len ht
        simp only []
        cases ha : Xfer.append reg [] ids with
        | none =>
          simp only [isEof, List.length_cons]
          refine ⟨by first | rfl | trivial, ?_, ?_⟩
          · intro h; omega
          · intro _ h; cases h
        | some pipe =>
          simp only []
          have ts := tail_spec reg size last alloc xl.toNat inpLen pipe r3
          refine ⟨ts.1, ?_, ?_⟩
          · intro h; apply ts.2.1; simp only [List.length_cons] at h; omega
          · intro _ h; exact ts.2.2 h

def isSize : Out → Bool
  | .size => true
  | _ => false

/-- shape of `unpack` on an input of at least four bytes. -/
theorem unpack_cons4 (reg : Registry) (limit cap0 : Nat) (a b c d : UInt8) (r1 : Bytes) :
    unpack reg limit cap0 (a :: b :: c :: d :: r1) =
      if Bytes.rdBe32 a b c d > limit then ⟨.size, 4, 4⟩ else
      if Bytes.rdBe32 a b c d < 4 then ⟨.reject "err:badpackage", 4, 4⟩ else
      if (if cap0 < Bytes.rdBe32 a b c d - 4 then Bytes.rdBe32 a b c d - 4 else cap0) < 1
      then ⟨.reject "panic:cap", 4, max 4 (Bytes.rdBe32 a b c d - 4)⟩ else
      unpackXfer reg (Bytes.rdBe32 a b c d) (Bytes.rdBe32 a b c d - 4)
        (if cap0 < Bytes.rdBe32 a b c d - 4 then Bytes.rdBe32 a b c d - 4 else cap0)
        (max 4 (Bytes.rdBe32 a b c d - 4)) (a :: b :: c :: d :: r1).length r1 := by
  unfold unpack
  rfl

/-- shape of `unpack` on fewer than four bytes. -/
theorem unpack_short (reg : Registry) (limit cap0 : Nat) (inp : Bytes) (h : inp.length < 4) :
    unpack reg limit cap0 inp = ⟨.eof, inp.length, 4⟩ := by
  match inp, h with
  | [], _ => rfl
  | [_], _ => rfl
  | [_, _], _ => rfl
  | [_, _, _], _ => rfl
  | _ :: _ :: _ :: _ :: _, h => simp only [List.length_cons] at h; omega

theorem long_or_short (inp : Bytes) :
    inp.length < 4 ∨ ∃ a b c d r1, inp = a :: b :: c :: d :: r1 := by
  match inp with
  | [] | [_] | [_, _] | [_, _, _] => left; simp
  | a :: b :: c :: d :: r1 => right; exact ⟨a, b, c, d, r1, rfl⟩

end Raw
end Teleport
